(* Proofs for xlist (C06): the pointer structure of xlist.go is, after every history that respects the
   documented precondition, exactly an ideal sequence of handles. *)
From Juniper Require Import Common.Base XList.Model XList.Spec.
From Coq Require Import PeanoNat.
Local Open Scope nat_scope.

(* ------------------------------------------------------------------------------------------ *)
(* A. ends of a sequence as pointers                                                          *)
(* ------------------------------------------------------------------------------------------ *)

(* first element of l, or q when l is empty *)
Definition hdp (l : list nat) (q : ptr) : ptr :=
  match l with [] => q | a :: _ => Some a end.

(* last element of l, or p when l is empty *)
Fixpoint lastp (p : ptr) (l : list nat) : ptr :=
  match l with [] => p | a :: t => lastp (Some a) t end.

Lemma hdp_app l1 l2 q : hdp (l1 ++ l2) q = hdp l1 (hdp l2 q).
Proof. destruct l1; reflexivity. Qed.

Lemma lastp_app p l1 l2 : lastp p (l1 ++ l2) = lastp (lastp p l1) l2.
Proof. revert p; induction l1 as [|a t IH]; intros p; simpl; auto. Qed.

Lemma lastp_some a l : exists y, lastp (Some a) l = Some y /\ In y (a :: l).
Proof.
  revert a; induction l as [|b t IH]; intros a; simpl.
  - exists a; auto.
  - destruct (IH b) as [y [E I]]. exists y. split; [exact E|]. simpl in I. tauto.
Qed.

Lemma hd_error_hdp l : hd_error l = hdp l None.
Proof. destruct l; reflexivity. Qed.

Lemma lastp_last a t : lastp (Some a) t = Some (last (a :: t) O).
Proof.
  revert a; induction t as [|b t IH]; intros a.
  - reflexivity.
  - change (lastp (Some b) t = Some (last (b :: t) O)). apply IH.
Qed.

Lemma last_error_lastp l : last_error l = lastp None l.
Proof. destruct l as [|a t]; [reflexivity|]. simpl lastp. rewrite lastp_last. reflexivity. Qed.

Lemma ptr_eqb_refl p : ptr_eqb p p = true.
Proof. destruct p; simpl; auto using Nat.eqb_refl. Qed.

Lemma ptr_eqb_hdp_false l a m :
  ~ In m l -> a <> m -> ptr_eqb (hdp l (Some a)) (Some m) = false.
Proof.
  intros Hn Ha. destruct l as [|b t]; simpl.
  - apply Nat.eqb_neq; exact Ha.
  - apply Nat.eqb_neq. intro E. apply Hn. left. exact E.
Qed.

Lemma ptr_eqb_lastp_false l b m :
  ~ In m l -> b <> m -> ptr_eqb (lastp (Some b) l) (Some m) = false.
Proof.
  intros Hn Hb. destruct (lastp_some b l) as [y [E I]]. rewrite E. simpl.
  apply Nat.eqb_neq. intro Ey. subst y. simpl in I. tauto.
Qed.

(* ------------------------------------------------------------------------------------------ *)
(* B. total heap updates and look-ups                                                         *)
(* ------------------------------------------------------------------------------------------ *)

Definition cellof (H : list cell) (h : nat) : cell := nth h H (mkCell None None 0%Z).

(* H[h].prev = v / H[h].next = v, identity on unallocated handles *)
Definition hsp (H : list cell) (h : nat) (v : ptr) : list cell :=
  match nth_error H h with
  | Some c => upd H h (mkCell v (next c) (value c))
  | None => H
  end.

Definition hsn (H : list cell) (h : nat) (v : ptr) : list cell :=
  match nth_error H h with
  | Some c => upd H h (mkCell (prev c) v (value c))
  | None => H
  end.

Lemma nth_error_lt {A} (H : list A) h : h < length H -> exists c, nth_error H h = Some c.
Proof.
  intros Hl. destruct (nth_error H h) as [c|] eqn:E; [eauto|].
  apply nth_error_None in E. lia.
Qed.

Lemma nth_error_some_lt {A} (H : list A) h c : nth_error H h = Some c -> h < length H.
Proof. intros E. apply nth_error_Some. congruence. Qed.

Lemma cellof_nth_error H h c : nth_error H h = Some c -> cellof H h = c.
Proof. intros E. unfold cellof. apply nth_error_nth. exact E. Qed.

Lemma prev_cellof H h : prev (cellof H h) = prev_of H h.
Proof.
  unfold prev_of. destruct (nth_error H h) as [c|] eqn:E.
  - rewrite (cellof_nth_error _ _ _ E). reflexivity.
  - unfold cellof. rewrite nth_overflow; [reflexivity|]. apply nth_error_None. exact E.
Qed.

Lemma next_cellof H h : next (cellof H h) = next_of H h.
Proof.
  unfold next_of. destruct (nth_error H h) as [c|] eqn:E.
  - rewrite (cellof_nth_error _ _ _ E). reflexivity.
  - unfold cellof. rewrite nth_overflow; [reflexivity|]. apply nth_error_None. exact E.
Qed.

Lemma length_hsp H h v : length (hsp H h v) = length H.
Proof. unfold hsp. destruct (nth_error H h); [apply upd_length|reflexivity]. Qed.

Lemma length_hsn H h v : length (hsn H h v) = length H.
Proof. unfold hsn. destruct (nth_error H h); [apply upd_length|reflexivity]. Qed.

Lemma prev_of_hsp_same H h v : h < length H -> prev_of (hsp H h v) h = v.
Proof.
  intros Hl. destruct (nth_error_lt H h Hl) as [c E]. unfold hsp, prev_of. rewrite E.
  rewrite nth_error_upd_same by exact Hl. reflexivity.
Qed.

Lemma prev_of_hsp_other H h v x : x <> h -> prev_of (hsp H h v) x = prev_of H x.
Proof.
  intros Hx. unfold hsp, prev_of. destruct (nth_error H h) as [c|]; [|reflexivity].
  rewrite nth_error_upd_other by congruence. reflexivity.
Qed.

Lemma next_of_hsp H h v x : next_of (hsp H h v) x = next_of H x.
Proof.
  unfold hsp, next_of. destruct (nth_error H h) as [c|] eqn:E; [|reflexivity].
  destruct (Nat.eq_dec x h) as [->|Hx].
  - rewrite nth_error_upd_same by (eapply nth_error_some_lt; exact E). rewrite E. reflexivity.
  - rewrite nth_error_upd_other by congruence. reflexivity.
Qed.

Lemma next_of_hsn_same H h v : h < length H -> next_of (hsn H h v) h = v.
Proof.
  intros Hl. destruct (nth_error_lt H h Hl) as [c E]. unfold hsn, next_of. rewrite E.
  rewrite nth_error_upd_same by exact Hl. reflexivity.
Qed.

Lemma next_of_hsn_other H h v x : x <> h -> next_of (hsn H h v) x = next_of H x.
Proof.
  intros Hx. unfold hsn, next_of. destruct (nth_error H h) as [c|]; [|reflexivity].
  rewrite nth_error_upd_other by congruence. reflexivity.
Qed.

Lemma prev_of_hsn H h v x : prev_of (hsn H h v) x = prev_of H x.
Proof.
  unfold hsn, prev_of. destruct (nth_error H h) as [c|] eqn:E; [|reflexivity].
  destruct (Nat.eq_dec x h) as [->|Hx].
  - rewrite nth_error_upd_same by (eapply nth_error_some_lt; exact E). rewrite E. reflexivity.
  - rewrite nth_error_upd_other by congruence. reflexivity.
Qed.

Lemma map_value_upd H h c c' :
  nth_error H h = Some c -> value c' = value c -> map value (upd H h c') = map value H.
Proof.
  revert h; induction H as [|d H IH]; intros [|h] E Hv; simpl in *; try discriminate.
  - injection E as ->. rewrite Hv. reflexivity.
  - f_equal. apply IH; assumption.
Qed.

Lemma map_value_hsp H h v : map value (hsp H h v) = map value H.
Proof.
  unfold hsp. destruct (nth_error H h) as [c|] eqn:E; [|reflexivity].
  eapply map_value_upd; [exact E|reflexivity].
Qed.

Lemma map_value_hsn H h v : map value (hsn H h v) = map value H.
Proof.
  unfold hsn. destruct (nth_error H h) as [c|] eqn:E; [|reflexivity].
  eapply map_value_upd; [exact E|reflexivity].
Qed.

(* allocation *)
Lemma prev_of_app_old H c x : x < length H -> prev_of (H ++ [c]) x = prev_of H x.
Proof. intros Hl. unfold prev_of. rewrite nth_error_app1 by exact Hl. reflexivity. Qed.

Lemma next_of_app_old H c x : x < length H -> next_of (H ++ [c]) x = next_of H x.
Proof. intros Hl. unfold next_of. rewrite nth_error_app1 by exact Hl. reflexivity. Qed.

Lemma prev_of_app_new H c : prev_of (H ++ [c]) (length H) = prev c.
Proof. unfold prev_of. rewrite nth_error_app2 by lia. rewrite Nat.sub_diag. reflexivity. Qed.

Lemma next_of_app_new H c : next_of (H ++ [c]) (length H) = next c.
Proof. unfold next_of. rewrite nth_error_app2 by lia. rewrite Nat.sub_diag. reflexivity. Qed.

Lemma value_of_nth H h : value_of H h = nth h (map value H) 0%Z.
Proof.
  unfold value_of. revert h; induction H as [|c H IH]; intros [|h]; simpl; auto.
Qed.

(* ------------------------------------------------------------------------------------------ *)
(* C. the primitive accesses succeed on allocated handles                                     *)
(* ------------------------------------------------------------------------------------------ *)

Lemma deref_ok H hd h : h < length H -> deref (mkSt H hd) (Some h) = Ok (cellof H h).
Proof.
  intros Hl. destruct (nth_error_lt H h Hl) as [c E]. unfold deref. simpl. rewrite E.
  rewrite (cellof_nth_error _ _ _ E). reflexivity.
Qed.

Lemma set_prev_ok H hd h v :
  h < length H -> set_prev (Some h) v (mkSt H hd) = Ok (mkSt (hsp H h v) hd).
Proof.
  intros Hl. destruct (nth_error_lt H h Hl) as [c E]. unfold set_prev, hsp. simpl. rewrite E.
  reflexivity.
Qed.

Lemma set_next_ok H hd h v :
  h < length H -> set_next (Some h) v (mkSt H hd) = Ok (mkSt (hsn H h v) hd).
Proof.
  intros Hl. destruct (nth_error_lt H h Hl) as [c E]. unfold set_next, hsn. simpl. rewrite E.
  reflexivity.
Qed.

(* ------------------------------------------------------------------------------------------ *)
(* D. doubly-linked segments                                                                  *)
(* ------------------------------------------------------------------------------------------ *)

(* the nodes of l are chained in both directions; the first one's prev is p, the last one's next is q *)
Fixpoint seg (H : list cell) (p : ptr) (l : list nat) (q : ptr) : Prop :=
  match l with
  | [] => True
  | a :: t => prev_of H a = p /\ next_of H a = hdp t q /\ seg H (Some a) t q
  end.

Lemma seg_app H p l1 l2 q :
  seg H p (l1 ++ l2) q <-> seg H p l1 (hdp l2 q) /\ seg H (lastp p l1) l2 q.
Proof.
  revert p; induction l1 as [|a t IH]; intros p; simpl.
  - tauto.
  - rewrite IH, hdp_app. tauto.
Qed.

Lemma seg_cons H p a t q :
  prev_of H a = p -> next_of H a = hdp t q -> seg H (Some a) t q -> seg H p (a :: t) q.
Proof. simpl. auto. Qed.

Lemma seg_snoc H p l a q :
  seg H p (l ++ [a]) q <-> seg H p l (Some a) /\ prev_of H a = lastp p l /\ next_of H a = q.
Proof. rewrite seg_app. simpl. tauto. Qed.

(* seg only reads the links of the nodes of l *)
Lemma seg_ext H H' p l q :
  (forall x, In x l -> prev_of H' x = prev_of H x /\ next_of H' x = next_of H x) ->
  seg H p l q -> seg H' p l q.
Proof.
  revert p; induction l as [|a t IH]; intros p Hx Hs; simpl in *; [exact I|].
  destruct Hs as [Hp [Hn Hs]]. destruct (Hx a (or_introl eq_refl)) as [Ep En].
  rewrite Ep, En. repeat split; auto.
Qed.

Lemma seg_hsp_notin H h v p l q : ~ In h l -> seg H p l q -> seg (hsp H h v) p l q.
Proof.
  intros Hn. apply seg_ext. intros x Hx. rewrite next_of_hsp.
  rewrite prev_of_hsp_other; [auto|]. intro E; subst; auto.
Qed.

Lemma seg_hsn_notin H h v p l q : ~ In h l -> seg H p l q -> seg (hsn H h v) p l q.
Proof.
  intros Hn. apply seg_ext. intros x Hx. rewrite prev_of_hsn.
  rewrite next_of_hsn_other; [auto|]. intro E; subst; auto.
Qed.

Lemma seg_hsn_last H p l a q q' :
  ~ In a l -> a < length H -> seg H p (l ++ [a]) q -> seg (hsn H a q') p (l ++ [a]) q'.
Proof.
  intros Hn Hl Hs. apply seg_snoc in Hs. destruct Hs as [Hs [Hp _]].
  apply seg_snoc. split; [|split].
  - apply seg_hsn_notin; assumption.
  - rewrite prev_of_hsn. exact Hp.
  - apply next_of_hsn_same. exact Hl.
Qed.

Lemma seg_hsp_hd H p p' a l q :
  ~ In a l -> a < length H -> seg H p (a :: l) q -> seg (hsp H a p') p' (a :: l) q.
Proof.
  intros Hn Hl Hs. simpl in *. destruct Hs as [_ [Hnx Hs]]. split; [|split].
  - apply prev_of_hsp_same. exact Hl.
  - rewrite next_of_hsp. exact Hnx.
  - apply seg_hsp_notin; assumption.
Qed.

Lemma seg_alloc H c p l q :
  (forall x, In x l -> x < length H) -> seg H p l q -> seg (H ++ [c]) p l q.
Proof.
  intros Ha. apply seg_ext. intros x Hx.
  rewrite prev_of_app_old, next_of_app_old by auto. auto.
Qed.

(* the last node of a segment points to q *)
Lemma seg_last_next H p l q y :
  seg H p l q -> l <> [] -> lastp p l = Some y -> next_of H y = q.
Proof.
  intros Hs Hne Hy. destruct (exists_last Hne) as [l' [a ->]].
  apply seg_snoc in Hs. rewrite lastp_app in Hy. simpl in Hy. injection Hy as <-. tauto.
Qed.

(* ------------------------------------------------------------------------------------------ *)
(* E. the ideal list operations on decomposed lists                                           *)
(* ------------------------------------------------------------------------------------------ *)

Lemma mem_In x l : mem x l = true <-> In x l.
Proof.
  unfold mem. rewrite existsb_exists. split.
  - intros [y [Hy E]]. apply Nat.eqb_eq in E. subst. exact Hy.
  - intros Hx. exists x. split; [exact Hx|apply Nat.eqb_refl].
Qed.

Lemma rem_app n l1 l2 : ~ In n l1 -> rem n (l1 ++ n :: l2) = l1 ++ l2.
Proof.
  induction l1 as [|a t IH]; intros Hn; simpl.
  - rewrite Nat.eqb_refl. reflexivity.
  - destruct (Nat.eqb a n) eqn:E.
    + apply Nat.eqb_eq in E. exfalso. apply Hn. left. exact E.
    + rewrite IH; [reflexivity|]. intro Hi. apply Hn. right. exact Hi.
Qed.

Lemma ins_before_app x m l1 l2 :
  ~ In m l1 -> ins_before x m (l1 ++ m :: l2) = l1 ++ x :: m :: l2.
Proof.
  induction l1 as [|a t IH]; intros Hn; simpl.
  - rewrite Nat.eqb_refl. reflexivity.
  - destruct (Nat.eqb a m) eqn:E.
    + apply Nat.eqb_eq in E. exfalso. apply Hn. left. exact E.
    + rewrite IH; [reflexivity|]. intro Hi. apply Hn. right. exact Hi.
Qed.

Lemma ins_after_app x m l1 l2 :
  ~ In m l1 -> ins_after x m (l1 ++ m :: l2) = l1 ++ m :: x :: l2.
Proof.
  induction l1 as [|a t IH]; intros Hn; simpl.
  - rewrite Nat.eqb_refl. reflexivity.
  - destruct (Nat.eqb a m) eqn:E.
    + apply Nat.eqb_eq in E. exfalso. apply Hn. left. exact E.
    + rewrite IH; [reflexivity|]. intro Hi. apply Hn. right. exact Hi.
Qed.

(* ------------------------------------------------------------------------------------------ *)
(* F. tactics                                                                                 *)
(* ------------------------------------------------------------------------------------------ *)

Lemma list_rev_case {A} (l : list A) : l = [] \/ exists l' a, l = l' ++ [a].
Proof.
  destruct l as [|x t]; [left; reflexivity|right].
  destruct (@exists_last _ (x :: t)) as [l' [a E]]; [discriminate|]. eauto.
Qed.

Ltac len_tac :=
  repeat (rewrite length_hsp || rewrite length_hsn || rewrite app_length); simpl; auto; try lia.

Ltac notin_tac :=
  solve [ assumption | lia | congruence
        | rewrite ?in_app_iff; simpl; intuition (try congruence; try lia) ].

(* evaluate the monadic code on explicit states *)
Ltac ev :=
  repeat ((progress unfold set_front, set_back, set_size, alloc)
          || (progress cbn [bind heap lst front back size is_nil app hdp lastp])
          || (rewrite ptr_eqb_refl)
          || (rewrite deref_ok by len_tac)
          || (rewrite set_prev_ok by len_tac)
          || (rewrite set_next_ok by len_tac)
          || (rewrite prev_cellof) || (rewrite next_cellof)).

(* simplify look-ups through updates *)
Ltac lk :=
  repeat ((rewrite prev_of_hsn) || (rewrite next_of_hsp)
          || (rewrite prev_of_hsp_same by len_tac) || (rewrite next_of_hsn_same by len_tac)
          || (rewrite prev_of_hsp_other by notin_tac) || (rewrite next_of_hsn_other by notin_tac)
          || (rewrite prev_of_app_new) || (rewrite next_of_app_new)
          || (rewrite prev_of_app_old by len_tac) || (rewrite next_of_app_old by len_tac)).

(* split a NoDup hypothesis on a list with explicit middle elements into non-membership facts *)
Ltac nd H :=
  rewrite <- ?app_assoc in H; cbn [app] in H;
  repeat match type of H with
         | NoDup (_ ++ _ :: _) =>
             let Hi := fresh "Hnotin" in
             pose proof (NoDup_remove_2 _ _ _ H) as Hi; apply NoDup_remove_1 in H;
             rewrite ?in_app_iff in Hi; simpl in Hi
         | NoDup (_ :: _) =>
             let Hi := fresh "Hnotin" in
             apply NoDup_cons_iff in H; destruct H as [Hi H];
             rewrite ?in_app_iff in Hi; simpl in Hi
         end.

(* the links of node x are the same in H' as in H *)
Definition same_links (H H' : list cell) (x : nat) : Prop :=
  prev_of H' x = prev_of H x /\ next_of H' x = next_of H x.

(* frame conditions: the updated heap is explicit, every update is at a node excluded by a hypothesis *)
Ltac frame_tac :=
  let x := fresh "x" in
  intro x; intros;
  match goal with
  | Hx : ~ In x _ |- _ => rewrite ?in_app_iff in Hx; simpl in Hx
  end;
  unfold same_links; lk; split; reflexivity.

(* ------------------------------------------------------------------------------------------ *)
(* G. the methods on a well-linked state                                                      *)
(* ------------------------------------------------------------------------------------------ *)

(* everything of the representation invariant except size (remove leaves size alone) *)
Definition Lk (H : list cell) (f b : ptr) (l : list nat) : Prop :=
  NoDup l /\ (forall x, In x l -> x < length H) /\
  f = hdp l None /\ b = lastp None l /\ seg H None l None.

Lemma remove_ok H f b z l1 n l2 :
  Lk H f b (l1 ++ n :: l2) ->
  exists H',
    remove (Some n) (mkSt H (mkHdr f b z))
    = Ok (mkSt H' (mkHdr (hdp (l1 ++ l2) None) (lastp None (l1 ++ l2)) z))
    /\ length H' = length H /\ map value H' = map value H
    /\ (forall x, ~ In x (l1 ++ n :: l2) -> same_links H H' x)
    /\ seg H' None (l1 ++ l2) None.
Proof.
  intros [Hnd [Hal [Hf [Hb Hs]]]]. subst f b.
  assert (Hn : n < length H) by (apply Hal; rewrite in_app_iff; simpl; auto).
  destruct (list_rev_case l1) as [-> | [l1' [a ->]]]; destruct l2 as [|c l2'].
  - (* [n] *)
    simpl in Hs. destruct Hs as [Hp [Hnx _]].
    unfold remove. ev. rewrite Hnx, Hp. exists H. simpl.
    split; [reflexivity|]. split; [reflexivity|]. split; [reflexivity|].
    split; [intros x Hx; split; reflexivity|exact I].
  - (* n :: c :: l2' *)
    simpl in Hs. destruct Hs as [Hp [Hnx [Hpc [Hnc Hs]]]].
    cbn [app] in Hnd, Hal.
    assert (Hc : c < length H) by (apply Hal; simpl; auto).
    nd Hnd.
    unfold remove. ev. rewrite Hnx.
    rewrite ptr_eqb_lastp_false by notin_tac. ev. rewrite ?Hnx, ?Hp. ev.
    exists (hsp H c None). split; [reflexivity|]. split; [len_tac|]. split; [apply map_value_hsp|].
    split; [frame_tac|].
    apply seg_hsp_hd with (p := Some n); [notin_tac|exact Hc|]. simpl. auto.
  - (* l1' ++ [a; n] *)
    rewrite app_nil_r.
    apply seg_snoc in Hs. rewrite lastp_app in Hs. simpl in Hs. destruct Hs as [Hs [Hp Hnx]].
    assert (Ha : a < length H) by (apply Hal; rewrite !in_app_iff; simpl; auto).
    nd Hnd.
    unfold remove. rewrite !hdp_app, !lastp_app. ev.
    rewrite ptr_eqb_hdp_false by notin_tac. ev. rewrite ?Hp, ?Hnx. ev.
    lk. rewrite ?Hp.
    exists (hsn H a None). split; [reflexivity|]. split; [len_tac|]. split; [apply map_value_hsn|].
    split; [frame_tac|].
    apply seg_hsn_last with (q := Some n); [notin_tac|exact Ha|exact Hs].
  - (* l1' ++ a :: n :: c :: l2' *)
    apply seg_app in Hs. rewrite lastp_app in Hs. simpl in Hs.
    destruct Hs as [Hs1 [Hp [Hnx [Hpc [Hnc Hs2]]]]].
    assert (Ha : a < length H) by (apply Hal; rewrite !in_app_iff; simpl; auto).
    assert (Hc : c < length H) by (apply Hal; rewrite !in_app_iff; simpl; auto).
    nd Hnd.
    unfold remove. rewrite !hdp_app, !lastp_app. ev.
    rewrite ptr_eqb_hdp_false by notin_tac. ev. rewrite ?Hp, ?Hnx. ev.
    rewrite ptr_eqb_lastp_false by notin_tac. ev. lk. rewrite ?Hp, ?Hnx. ev.
    exists (hsp (hsn H a (Some c)) c (Some a)).
    split; [reflexivity|]. split; [len_tac|].
    split; [rewrite map_value_hsp, map_value_hsn; reflexivity|].
    split; [frame_tac|].
    apply seg_app. rewrite lastp_app. simpl hdp. simpl lastp. split.
    + apply seg_hsp_notin; [notin_tac|].
      apply seg_hsn_last with (q := Some n); [notin_tac|exact Ha|exact Hs1].
    + apply seg_hsp_hd with (p := Some n); [notin_tac|len_tac|].
      apply seg_hsn_notin; [notin_tac|]. simpl. auto.
Qed.

(* the part of MoveBefore / MoveAfter after l.remove(node) *)
Definition link_before (node mark : ptr) (s : state) : result state :=
  m <- deref s mark ;;
  s <- set_prev node (prev m) s ;;
  s <- set_prev mark node s ;;
  s <- set_next node mark s ;;
  n <- deref s node ;;
  s <- (if is_nil (prev n) then Ok s else set_next (prev n) node s) ;;
  Ok (if ptr_eqb (front (lst s)) mark then set_front node s else s).

Definition link_after (node mark : ptr) (s : state) : result state :=
  m <- deref s mark ;;
  s <- set_next node (next m) s ;;
  s <- set_next mark node s ;;
  s <- set_prev node mark s ;;
  n <- deref s node ;;
  s <- (if is_nil (next n) then Ok s else set_prev (next n) node s) ;;
  Ok (if ptr_eqb (back (lst s)) mark then set_back node s else s).

Lemma move_before_unfold node mark s :
  move_before node mark s =
  if ptr_eqb node mark then Ok s else s' <- remove node s ;; link_before node mark s'.
Proof. reflexivity. Qed.

Lemma move_after_unfold node mark s :
  move_after node mark s =
  if ptr_eqb node mark then Ok s else s' <- remove node s ;; link_after node mark s'.
Proof. reflexivity. Qed.

Lemma link_before_ok H f b z L1 m L2 n :
  Lk H f b (L1 ++ m :: L2) -> n < length H -> ~ In n (L1 ++ m :: L2) ->
  exists H',
    link_before (Some n) (Some m) (mkSt H (mkHdr f b z))
    = Ok (mkSt H' (mkHdr (hdp (L1 ++ n :: m :: L2) None) (lastp None (L1 ++ n :: m :: L2)) z))
    /\ length H' = length H /\ map value H' = map value H
    /\ (forall x, x <> n -> ~ In x (L1 ++ m :: L2) -> same_links H H' x)
    /\ seg H' None (L1 ++ n :: m :: L2) None.
Proof.
  intros [Hnd [Hal [Hf [Hb Hs]]]] Hn Hni. subst f b.
  assert (Hm : m < length H) by (apply Hal; rewrite in_app_iff; simpl; auto).
  destruct (list_rev_case L1) as [-> | [L1' [a ->]]].
  - simpl in Hs. destruct Hs as [Hpm [Hnm Hs]].
    cbn [app] in Hnd, Hal, Hni. simpl in Hni. nd Hnd.
    unfold link_before. ev. rewrite ?Hpm. ev. lk. ev.
    exists (hsn (hsp (hsp H n None) m (Some n)) n (Some m)).
    split; [reflexivity|]. split; [len_tac|].
    split; [rewrite map_value_hsn, !map_value_hsp; reflexivity|].
    split; [frame_tac|].
    apply seg_cons; [lk; reflexivity|lk; reflexivity|].
    apply seg_hsn_notin; [notin_tac|].
    apply seg_hsp_hd with (p := None); [notin_tac|len_tac|].
    apply seg_hsp_notin; [notin_tac|]. simpl. auto.
  - apply seg_app in Hs. rewrite lastp_app in Hs. simpl in Hs.
    destruct Hs as [Hs1 [Hpm [Hnm Hs2]]].
    assert (Ha : a < length H) by (apply Hal; rewrite !in_app_iff; simpl; auto).
    rewrite !in_app_iff in Hni. simpl in Hni. nd Hnd.
    unfold link_before. rewrite !hdp_app, !lastp_app. ev. rewrite ?Hpm. ev. lk. ev.
    rewrite ptr_eqb_hdp_false by notin_tac.
    exists (hsn (hsn (hsp (hsp H n (Some a)) m (Some n)) n (Some m)) a (Some n)).
    split; [reflexivity|]. split; [len_tac|].
    split; [rewrite !map_value_hsn, !map_value_hsp; reflexivity|].
    split; [frame_tac|].
    apply seg_app. rewrite lastp_app. simpl hdp. simpl lastp. split.
    + apply seg_hsn_last with (q := Some m); [notin_tac|len_tac|].
      apply seg_hsn_notin; [notin_tac|].
      apply seg_hsp_notin; [notin_tac|].
      apply seg_hsp_notin; [notin_tac|]. exact Hs1.
    + apply seg_cons; [lk; reflexivity|lk; reflexivity|].
      apply seg_hsn_notin; [notin_tac|].
      apply seg_hsn_notin; [notin_tac|].
      apply seg_hsp_hd with (p := Some a); [notin_tac|len_tac|].
      apply seg_hsp_notin; [notin_tac|]. simpl. auto.
Qed.

Lemma link_after_ok H f b z L1 m L2 n :
  Lk H f b (L1 ++ m :: L2) -> n < length H -> ~ In n (L1 ++ m :: L2) ->
  exists H',
    link_after (Some n) (Some m) (mkSt H (mkHdr f b z))
    = Ok (mkSt H' (mkHdr (hdp (L1 ++ m :: n :: L2) None) (lastp None (L1 ++ m :: n :: L2)) z))
    /\ length H' = length H /\ map value H' = map value H
    /\ (forall x, x <> n -> ~ In x (L1 ++ m :: L2) -> same_links H H' x)
    /\ seg H' None (L1 ++ m :: n :: L2) None.
Proof.
  intros [Hnd [Hal [Hf [Hb Hs]]]] Hn Hni. subst f b.
  assert (Hm : m < length H) by (apply Hal; rewrite in_app_iff; simpl; auto).
  apply seg_app in Hs. simpl in Hs. destruct Hs as [Hs1 [Hpm [Hnm Hs2]]].
  rewrite in_app_iff in Hni. simpl in Hni.
  destruct L2 as [|c L2'].
  - simpl in Hnm. nd Hnd.
    unfold link_after. rewrite !hdp_app, !lastp_app. ev. rewrite ?Hnm. ev. lk. ev.
    exists (hsp (hsn (hsn H n None) m (Some n)) n (Some m)).
    split; [reflexivity|]. split; [len_tac|].
    split; [rewrite map_value_hsp, !map_value_hsn; reflexivity|].
    split; [frame_tac|].
    apply seg_app. simpl hdp. split.
    + apply seg_hsp_notin; [notin_tac|].
      apply seg_hsn_notin; [notin_tac|].
      apply seg_hsn_notin; [notin_tac|]. exact Hs1.
    + apply seg_cons; [lk; exact Hpm|lk; reflexivity|].
      apply seg_cons; [lk; reflexivity|lk; reflexivity|]. exact I.
  - simpl in Hnm, Hs2. destruct Hs2 as [Hpc [Hnc Hs2]].
    assert (Hc : c < length H) by (apply Hal; rewrite !in_app_iff; simpl; auto).
    simpl in Hni. nd Hnd.
    unfold link_after. rewrite !hdp_app, !lastp_app. ev. rewrite ?Hnm. ev. lk. ev.
    rewrite ptr_eqb_lastp_false by notin_tac.
    exists (hsp (hsp (hsn (hsn H n (Some c)) m (Some n)) n (Some m)) c (Some n)).
    split; [reflexivity|]. split; [len_tac|].
    split; [rewrite !map_value_hsp, !map_value_hsn; reflexivity|].
    split; [frame_tac|].
    apply seg_app. simpl hdp. split.
    + apply seg_hsp_notin; [notin_tac|].
      apply seg_hsp_notin; [notin_tac|].
      apply seg_hsn_notin; [notin_tac|].
      apply seg_hsn_notin; [notin_tac|]. exact Hs1.
    + apply seg_cons; [lk; exact Hpm|lk; reflexivity|].
      apply seg_cons; [lk; reflexivity|lk; reflexivity|].
      apply seg_hsp_hd with (p := Some m); [notin_tac|len_tac|].
      apply seg_hsp_notin; [notin_tac|].
      apply seg_hsn_notin; [notin_tac|].
      apply seg_hsn_notin; [notin_tac|]. simpl. auto.
Qed.

Lemma push_front_ok H f b z l v :
  Lk H f b l ->
  exists H',
    push_front v (mkSt H (mkHdr f b z))
    = Ok (mkSt H' (mkHdr (hdp (length H :: l) None) (lastp None (length H :: l)) (z + 1)%Z))
    /\ length H' = S (length H) /\ map value H' = map value H ++ [v]
    /\ (forall x, x < length H -> ~ In x l -> same_links H H' x)
    /\ seg H' None (length H :: l) None.
Proof.
  intros [Hnd [Hal [Hf [Hb Hs]]]]. subst f b.
  destruct l as [|a t].
  - unfold push_front. ev.
    exists (H ++ [mkCell None None v]).
    split; [reflexivity|]. split; [len_tac|]. split; [rewrite map_app; reflexivity|].
    split; [frame_tac|].
    apply seg_cons; [lk; reflexivity|lk; reflexivity|exact I].
  - assert (Ha : a < length H) by (apply Hal; simpl; auto).
    destruct (lastp_some a t) as [y [Ey _]].
    unfold push_front. ev. rewrite Ey. ev.
    exists (hsp (H ++ [mkCell None (Some a) v]) a (Some (length H))).
    split; [reflexivity|]. split; [len_tac|].
    split; [rewrite map_value_hsp, map_app; reflexivity|].
    split; [frame_tac|].
    apply seg_cons; [lk; reflexivity|lk; reflexivity|].
    nd Hnd.
    apply seg_hsp_hd with (p := None); [notin_tac|len_tac|].
    apply seg_alloc; [exact Hal|exact Hs].
Qed.

Lemma push_back_ok H f b z l v :
  Lk H f b l ->
  exists H',
    push_back v (mkSt H (mkHdr f b z))
    = Ok (mkSt H' (mkHdr (hdp (l ++ [length H]) None) (lastp None (l ++ [length H])) (z + 1)%Z))
    /\ length H' = S (length H) /\ map value H' = map value H ++ [v]
    /\ (forall x, x < length H -> ~ In x l -> same_links H H' x)
    /\ seg H' None (l ++ [length H]) None.
Proof.
  intros [Hnd [Hal [Hf [Hb Hs]]]]. subst f b.
  destruct (list_rev_case l) as [-> | [l' [a ->]]].
  - unfold push_back. ev.
    exists (H ++ [mkCell None None v]).
    split; [reflexivity|]. split; [len_tac|]. split; [rewrite map_app; reflexivity|].
    split; [frame_tac|].
    apply seg_cons; [lk; reflexivity|lk; reflexivity|exact I].
  - assert (Ha : a < length H) by (apply Hal; rewrite in_app_iff; simpl; auto).
    assert (Hf : exists y, hdp (l' ++ [a]) None = Some y).
    { destruct l' as [|y t]; simpl; eauto. }
    destruct Hf as [y Ey].
    rewrite hdp_app in Ey. simpl in Ey.
    unfold push_back. rewrite !lastp_app, !hdp_app. ev. rewrite !Ey. ev.
    exists (hsn (H ++ [mkCell (Some a) None v]) a (Some (length H))).
    split; [reflexivity|]. split; [len_tac|].
    split; [rewrite map_value_hsn, map_app; reflexivity|].
    split; [frame_tac|].
    nd Hnd.
    apply seg_snoc. rewrite lastp_app. simpl lastp. split; [|split; [lk; reflexivity|lk; reflexivity]].
    apply seg_hsn_last with (q := None); [notin_tac|len_tac|].
    apply seg_alloc; [exact Hal|exact Hs].
Qed.

Lemma insert_before_ok H f b z L1 m L2 v :
  Lk H f b (L1 ++ m :: L2) ->
  exists H',
    insert_before v (Some m) (mkSt H (mkHdr f b z))
    = Ok (mkSt H' (mkHdr (hdp (L1 ++ length H :: m :: L2) None)
                         (lastp None (L1 ++ length H :: m :: L2)) (z + 1)%Z))
    /\ length H' = S (length H) /\ map value H' = map value H ++ [v]
    /\ (forall x, x < length H -> ~ In x (L1 ++ m :: L2) -> same_links H H' x)
    /\ seg H' None (L1 ++ length H :: m :: L2) None.
Proof.
  intros [Hnd [Hal [Hf [Hb Hs]]]]. subst f b.
  assert (Hm : m < length H) by (apply Hal; rewrite in_app_iff; simpl; auto).
  destruct (list_rev_case L1) as [-> | [L1' [a ->]]].
  - simpl in Hs. destruct Hs as [Hpm [Hnm Hs]].
    cbn [app] in Hnd, Hal. nd Hnd.
    unfold insert_before. ev. rewrite ?Hpm. ev. lk. cbn [prev]. ev.
    exists (hsp (H ++ [mkCell None (Some m) v]) m (Some (length H))).
    split; [reflexivity|]. split; [len_tac|].
    split; [rewrite map_value_hsp, map_app; reflexivity|].
    split; [frame_tac|].
    apply seg_cons; [lk; reflexivity|lk; reflexivity|].
    apply seg_hsp_hd with (p := None); [notin_tac|len_tac|].
    apply seg_alloc; [exact Hal|]. simpl. auto.
  - apply seg_app in Hs. rewrite lastp_app in Hs. simpl in Hs.
    destruct Hs as [Hs1 [Hpm [Hnm Hs2]]].
    assert (Ha : a < length H) by (apply Hal; rewrite !in_app_iff; simpl; auto).
    assert (Hal1 : forall x, In x (L1' ++ [a]) -> x < length H).
    { intros x Hx. apply Hal. rewrite in_app_iff. auto. }
    assert (Hal2 : forall x, In x (m :: L2) -> x < length H).
    { intros x Hx. apply Hal. rewrite in_app_iff. auto. }
    nd Hnd.
    unfold insert_before. rewrite !hdp_app, !lastp_app. ev. rewrite ?Hpm. ev. lk. cbn [prev]. ev.
    rewrite ptr_eqb_hdp_false by notin_tac.
    exists (hsn (hsp (H ++ [mkCell (Some a) (Some m) v]) m (Some (length H))) a (Some (length H))).
    split; [reflexivity|]. split; [len_tac|].
    split; [rewrite map_value_hsn, map_value_hsp, map_app; reflexivity|].
    split; [frame_tac|].
    apply seg_app. rewrite lastp_app. simpl hdp. simpl lastp. split.
    + apply seg_hsn_last with (q := Some m); [notin_tac|len_tac|].
      apply seg_hsp_notin; [notin_tac|].
      apply seg_alloc; [exact Hal1|exact Hs1].
    + apply seg_cons; [lk; reflexivity|lk; reflexivity|].
      apply seg_hsn_notin; [notin_tac|].
      apply seg_hsp_hd with (p := Some a); [notin_tac|len_tac|].
      apply seg_alloc; [exact Hal2|]. simpl. auto.
Qed.

Lemma insert_after_ok H f b z L1 m L2 v :
  Lk H f b (L1 ++ m :: L2) ->
  exists H',
    insert_after v (Some m) (mkSt H (mkHdr f b z))
    = Ok (mkSt H' (mkHdr (hdp (L1 ++ m :: length H :: L2) None)
                         (lastp None (L1 ++ m :: length H :: L2)) (z + 1)%Z))
    /\ length H' = S (length H) /\ map value H' = map value H ++ [v]
    /\ (forall x, x < length H -> ~ In x (L1 ++ m :: L2) -> same_links H H' x)
    /\ seg H' None (L1 ++ m :: length H :: L2) None.
Proof.
  intros [Hnd [Hal [Hf [Hb Hs]]]]. subst f b.
  assert (Hm : m < length H) by (apply Hal; rewrite in_app_iff; simpl; auto).
  assert (Hal1 : forall x, In x L1 -> x < length H).
  { intros x Hx. apply Hal. rewrite in_app_iff. auto. }
  apply seg_app in Hs. simpl in Hs. destruct Hs as [Hs1 [Hpm [Hnm Hs2]]].
  destruct L2 as [|c L2'].
  - simpl in Hnm. nd Hnd.
    unfold insert_after. rewrite !hdp_app, !lastp_app. ev. rewrite ?Hnm. ev. lk. cbn [next]. ev.
    exists (hsn (H ++ [mkCell (Some m) None v]) m (Some (length H))).
    split; [reflexivity|]. split; [len_tac|].
    split; [rewrite map_value_hsn, map_app; reflexivity|].
    split; [frame_tac|].
    apply seg_app. simpl hdp. split.
    + apply seg_hsn_notin; [notin_tac|].
      apply seg_alloc; [exact Hal1|exact Hs1].
    + apply seg_cons; [lk; exact Hpm|lk; reflexivity|].
      apply seg_cons; [lk; reflexivity|lk; reflexivity|]. exact I.
  - simpl in Hnm, Hs2. destruct Hs2 as [Hpc [Hnc Hs2]].
    assert (Hc : c < length H) by (apply Hal; rewrite !in_app_iff; simpl; auto).
    assert (Hal2 : forall x, In x (c :: L2') -> x < length H).
    { intros x Hx. apply Hal. rewrite in_app_iff. simpl. simpl in Hx. tauto. }
    nd Hnd.
    unfold insert_after. rewrite !hdp_app, !lastp_app. ev. rewrite ?Hnm. ev. lk. cbn [next]. ev.
    rewrite ptr_eqb_lastp_false by notin_tac.
    exists (hsp (hsn (H ++ [mkCell (Some m) (Some c) v]) m (Some (length H))) c (Some (length H))).
    split; [reflexivity|]. split; [len_tac|].
    split; [rewrite map_value_hsp, map_value_hsn, map_app; reflexivity|].
    split; [frame_tac|].
    apply seg_app. simpl hdp. split.
    + apply seg_hsp_notin; [notin_tac|].
      apply seg_hsn_notin; [notin_tac|].
      apply seg_alloc; [exact Hal1|exact Hs1].
    + apply seg_cons; [lk; exact Hpm|lk; reflexivity|].
      apply seg_cons; [lk; reflexivity|lk; reflexivity|].
      apply seg_hsp_hd with (p := Some m); [notin_tac|len_tac|].
      apply seg_hsn_notin; [notin_tac|].
      apply seg_alloc; [exact Hal2|]. simpl. auto.
Qed.

(* ------------------------------------------------------------------------------------------ *)
(* H. one step of the model against one step of the ideal sequence                            *)
(* ------------------------------------------------------------------------------------------ *)

(* every allocated node outside the sequence (removed by Remove, dropped by Clear) has no neighbour *)
Definition Det (H : list cell) (l : list nat) : Prop :=
  forall x, x < length H -> ~ In x l -> prev_of H x = None /\ next_of H x = None.

Definition Inv (s : state) (t : sstate) : Prop :=
  Lk (heap s) (front (lst s)) (back (lst s)) (sl t) /\
  size (lst s) = Z.of_nat (length (sl t)) /\
  map value (heap s) = svals t /\
  Det (heap s) (sl t).

(* unallocated handles have no links at all *)
Lemma det_all H l x : Det H l -> ~ In x l -> prev_of H x = None /\ next_of H x = None.
Proof.
  intros Hd Hni. destruct (Nat.lt_ge_cases x (length H)) as [Hlt|Hge]; [apply Hd; assumption|].
  apply nth_error_None in Hge. unfold prev_of, next_of. rewrite Hge. auto.
Qed.

(* a creating call: the new handle is in the new sequence, the old sequence is kept, the nodes outside
   are not touched *)
Lemma det_create H H' (l l' : list nat) :
  Det H l -> length H' = S (length H) ->
  (forall x, x < length H -> ~ In x l -> same_links H H' x) ->
  In (length H) l' -> (forall x, In x l -> In x l') ->
  Det H' l'.
Proof.
  intros Hd HlH Hfr Hnew Hinc x Hx Hni.
  assert (Hxn : x <> length H) by (intro E; subst x; exact (Hni Hnew)).
  assert (Hxl : x < length H) by lia.
  assert (Hxi : ~ In x l) by (intro Hi; exact (Hni (Hinc x Hi))).
  destruct (Hfr x Hxl Hxi) as [Ep En]. rewrite Ep, En. apply Hd; assumption.
Qed.

(* a move: l.remove(node) touches only nodes of the old sequence l, the relinking only node and the
   nodes of the intermediate sequence L; all of them are in the new sequence l' *)
Lemma det_move H H1 H2 (l L l' : list nat) n :
  Det H l -> length H1 = length H -> length H2 = length H1 ->
  (forall x, ~ In x l -> same_links H H1 x) ->
  (forall x, x <> n -> ~ In x L -> same_links H1 H2 x) ->
  In n l' -> (forall x, In x L -> In x l') -> (forall x, In x l -> In x l') ->
  Det H2 l'.
Proof.
  intros Hd Hl1 Hl2 Hfr1 Hfr2 Hn HincL Hincl x Hx Hni.
  assert (Hxn : x <> n) by (intro E; subst x; exact (Hni Hn)).
  assert (HxL : ~ In x L) by (intro Hi; exact (Hni (HincL x Hi))).
  assert (Hxl : ~ In x l) by (intro Hi; exact (Hni (Hincl x Hi))).
  destruct (Hfr2 x Hxn HxL) as [Ep2 En2]. destruct (Hfr1 x Hxl) as [Ep1 En1].
  rewrite Ep2, En2, Ep1, En1. apply Hd; [|exact Hxl]. rewrite <- Hl1, <- Hl2. exact Hx.
Qed.

Lemma NoDup_insert (a : nat) l1 l2 : NoDup (l1 ++ l2) -> ~ In a (l1 ++ l2) -> NoDup (l1 ++ a :: l2).
Proof.
  induction l1 as [|x t IH]; simpl; intros Hnd Hni.
  - constructor; assumption.
  - apply NoDup_cons_iff in Hnd. destruct Hnd as [Hx Hnd]. constructor.
    + rewrite in_app_iff in *. simpl. intuition congruence.
    + apply IH; [exact Hnd|]. intro Hi. apply Hni. right. exact Hi.
Qed.

Lemma in_insert (x a : nat) l1 l2 : In x (l1 ++ a :: l2) <-> x = a \/ In x (l1 ++ l2).
Proof. rewrite !in_app_iff. simpl. intuition congruence. Qed.

Lemma NoDup_notin_l (m : nat) L1 L2 : NoDup (L1 ++ m :: L2) -> ~ In m L1.
Proof.
  intros Hnd Hi. apply NoDup_remove_2 in Hnd. apply Hnd. rewrite in_app_iff. auto.
Qed.

Lemma length_insert {A} (a : A) l1 l2 : length (l1 ++ a :: l2) = S (length (l1 ++ l2)).
Proof. rewrite !app_length. simpl. lia. Qed.

(* the state reached by a call that allocates one node *)
Lemma inv_create H H' z (l l' : list nat) (vs : list Z) v :
  map value H = vs -> z = Z.of_nat (length l) ->
  NoDup l' -> (forall x, In x l' -> x < S (length H)) -> length l' = S (length l) ->
  length H' = S (length H) -> map value H' = map value H ++ [v] -> seg H' None l' None ->
  Det H' l' ->
  Inv (mkSt H' (mkHdr (hdp l' None) (lastp None l') (z + 1)%Z)) (mkS l' (vs ++ [v])).
Proof.
  intros Hv Hz Hnd Hal Hlen HlH Hv' Hs Hd. unfold Inv, Lk. simpl.
  split; [|split; [|split]].
  - repeat split; auto. intros x Hx. rewrite HlH. auto.
  - rewrite Hlen. lia.
  - rewrite Hv', Hv. reflexivity.
  - exact Hd.
Qed.

(* the state reached by a call that only relinks *)
Lemma inv_relink H H' z (l l' : list nat) (vs : list Z) :
  map value H = vs -> z = Z.of_nat (length l) ->
  NoDup l' -> (forall x, In x l' -> x < length H) -> length l' = length l ->
  length H' = length H -> map value H' = map value H -> seg H' None l' None ->
  Det H' l' ->
  Inv (mkSt H' (mkHdr (hdp l' None) (lastp None l') z)) (mkS l' vs).
Proof.
  intros Hv Hz Hnd Hal Hlen HlH Hv' Hs Hd. unfold Inv, Lk. simpl.
  split; [|split; [|split]].
  - repeat split; auto. intros x Hx. rewrite HlH. auto.
  - rewrite Hlen. exact Hz.
  - rewrite Hv', Hv. reflexivity.
  - exact Hd.
Qed.

Lemma move_before_sim H f b z l vs n m :
  Inv (mkSt H (mkHdr f b z)) (mkS l vs) -> In n l -> In m l ->
  exists s', move_before (Some n) (Some m) (mkSt H (mkHdr f b z)) = Ok s' /\
             Inv s' (mkS (if Nat.eqb n m then l else ins_before n m (rem n l)) vs).
Proof.
  intros HI Hin Him.
  rewrite move_before_unfold. simpl ptr_eqb.
  destruct (Nat.eqb n m) eqn:Enm; [eexists; split; [reflexivity|exact HI]|].
  apply Nat.eqb_neq in Enm.
  destruct HI as [HL [Hz [Hv Hd]]]. simpl in HL, Hz, Hv, Hd.
  destruct (in_split _ _ Hin) as [l1 [l2 ->]].
  destruct (remove_ok H f b z l1 n l2 HL) as [H1 [E1 [Hl1 [Hv1 [Hfr1 Hs1]]]]].
  destruct HL as [Hnd [Hal _]].
  pose proof (NoDup_remove_1 _ _ _ Hnd) as Hnd1.
  pose proof (NoDup_remove_2 _ _ _ Hnd) as Hni1.
  rewrite rem_app by (eapply NoDup_notin_l; exact Hnd).
  assert (Him1 : In m (l1 ++ l2)).
  { apply in_insert in Him. destruct Him as [Him|Him]; [congruence|exact Him]. }
  destruct (in_split _ _ Him1) as [L1 [L2 Esp]].
  rewrite E1. cbn [bind]. rewrite Esp in *.
  assert (HL1 : Lk H1 (hdp (L1 ++ m :: L2) None) (lastp None (L1 ++ m :: L2)) (L1 ++ m :: L2)).
  { repeat split; auto. intros x Hx. rewrite Hl1. apply Hal. apply in_insert. right.
    rewrite Esp. exact Hx. }
  assert (Hn1 : n < length H1).
  { rewrite Hl1. apply Hal. apply in_insert. left. reflexivity. }
  destruct (link_before_ok H1 _ _ z L1 m L2 n HL1 Hn1 Hni1) as [H2 [E2 [Hl2 [Hv2 [Hfr2 Hs2]]]]].
  rewrite E2. eexists. split; [reflexivity|].
  rewrite ins_before_app by (eapply NoDup_notin_l; exact Hnd1).
  apply (inv_relink H H2 z (l1 ++ n :: l2)); auto.
  - apply NoDup_insert; assumption.
  - intros x Hx. apply Hal. apply in_insert in Hx. apply in_insert.
    destruct Hx as [Hx|Hx]; [left; exact Hx|right; rewrite Esp; exact Hx].
  - rewrite (length_insert n L1), (length_insert n l1), Esp. reflexivity.
  - congruence.
  - congruence.
  - apply (det_move H H1 H2 (l1 ++ n :: l2) (L1 ++ m :: L2) _ n Hd Hl1 Hl2 Hfr1 Hfr2).
    + rewrite in_app_iff. simpl. auto.
    + intros x Hx. rewrite in_app_iff in Hx. simpl in Hx. rewrite in_app_iff. simpl. tauto.
    + intros x Hx. apply in_insert in Hx. rewrite Esp in Hx.
      rewrite in_app_iff in Hx. simpl in Hx. rewrite in_app_iff. simpl.
      destruct Hx as [->|Hx]; [auto|tauto].
Qed.

Lemma move_after_sim H f b z l vs n m :
  Inv (mkSt H (mkHdr f b z)) (mkS l vs) -> In n l -> In m l ->
  exists s', move_after (Some n) (Some m) (mkSt H (mkHdr f b z)) = Ok s' /\
             Inv s' (mkS (if Nat.eqb n m then l else ins_after n m (rem n l)) vs).
Proof.
  intros HI Hin Him.
  rewrite move_after_unfold. simpl ptr_eqb.
  destruct (Nat.eqb n m) eqn:Enm; [eexists; split; [reflexivity|exact HI]|].
  apply Nat.eqb_neq in Enm.
  destruct HI as [HL [Hz [Hv Hd]]]. simpl in HL, Hz, Hv, Hd.
  destruct (in_split _ _ Hin) as [l1 [l2 ->]].
  destruct (remove_ok H f b z l1 n l2 HL) as [H1 [E1 [Hl1 [Hv1 [Hfr1 Hs1]]]]].
  destruct HL as [Hnd [Hal _]].
  pose proof (NoDup_remove_1 _ _ _ Hnd) as Hnd1.
  pose proof (NoDup_remove_2 _ _ _ Hnd) as Hni1.
  rewrite rem_app by (eapply NoDup_notin_l; exact Hnd).
  assert (Him1 : In m (l1 ++ l2)).
  { apply in_insert in Him. destruct Him as [Him|Him]; [congruence|exact Him]. }
  destruct (in_split _ _ Him1) as [L1 [L2 Esp]].
  rewrite E1. cbn [bind]. rewrite Esp in *.
  assert (HL1 : Lk H1 (hdp (L1 ++ m :: L2) None) (lastp None (L1 ++ m :: L2)) (L1 ++ m :: L2)).
  { repeat split; auto. intros x Hx. rewrite Hl1. apply Hal. apply in_insert. right.
    rewrite Esp. exact Hx. }
  assert (Hn1 : n < length H1).
  { rewrite Hl1. apply Hal. apply in_insert. left. reflexivity. }
  destruct (link_after_ok H1 _ _ z L1 m L2 n HL1 Hn1 Hni1) as [H2 [E2 [Hl2 [Hv2 [Hfr2 Hs2]]]]].
  rewrite E2. eexists. split; [reflexivity|].
  rewrite ins_after_app by (eapply NoDup_notin_l; exact Hnd1).
  assert (Hni2 : ~ In n ((L1 ++ [m]) ++ L2)).
  { rewrite <- app_assoc. exact Hni1. }
  assert (Hnd2 : NoDup ((L1 ++ [m]) ++ L2)).
  { rewrite <- app_assoc. exact Hnd1. }
  apply (inv_relink H H2 z (l1 ++ n :: l2)); auto.
  - change (L1 ++ m :: n :: L2) with (L1 ++ [m] ++ n :: L2). rewrite app_assoc.
    apply NoDup_insert; assumption.
  - intros x Hx. apply Hal. apply in_insert.
    rewrite !in_app_iff in Hx. simpl in Hx.
    destruct Hx as [Hx|[Hx|[Hx|Hx]]].
    + right. rewrite Esp, in_app_iff. auto.
    + right. rewrite Esp, in_app_iff. simpl. auto.
    + left. congruence.
    + right. rewrite Esp, in_app_iff. simpl. auto.
  - rewrite (length_insert n l1), Esp, !app_length. simpl. lia.
  - congruence.
  - congruence.
  - apply (det_move H H1 H2 (l1 ++ n :: l2) (L1 ++ m :: L2) _ n Hd Hl1 Hl2 Hfr1 Hfr2).
    + rewrite in_app_iff. simpl. auto.
    + intros x Hx. rewrite in_app_iff in Hx. simpl in Hx. rewrite in_app_iff. simpl. tauto.
    + intros x Hx. apply in_insert in Hx. rewrite Esp in Hx.
      rewrite in_app_iff in Hx. simpl in Hx. rewrite in_app_iff. simpl.
      destruct Hx as [->|Hx]; [auto|tauto].
Qed.

Lemma move_to_front_spec n f0 t0 :
  n :: rem n (f0 :: t0) = if Nat.eqb n f0 then f0 :: t0 else ins_before n f0 (rem n (f0 :: t0)).
Proof.
  simpl. rewrite (Nat.eqb_sym f0 n). destruct (Nat.eqb n f0) eqn:E.
  - apply Nat.eqb_eq in E. subst. reflexivity.
  - simpl. rewrite Nat.eqb_refl. reflexivity.
Qed.

Lemma move_to_back_spec n y t0 :
  NoDup (t0 ++ [y]) -> In n (t0 ++ [y]) ->
  rem n (t0 ++ [y]) ++ [n] =
  if Nat.eqb n y then t0 ++ [y] else ins_after n y (rem n (t0 ++ [y])).
Proof.
  intros Hnd Hin.
  pose proof (NoDup_notin_l _ _ _ Hnd) as Hy.
  destruct (Nat.eqb n y) eqn:E.
  - apply Nat.eqb_eq in E. subst. rewrite rem_app by exact Hy. rewrite app_nil_r. reflexivity.
  - apply Nat.eqb_neq in E.
    rewrite in_app_iff in Hin. simpl in Hin.
    assert (Hin0 : In n t0) by intuition congruence.
    destruct (in_split _ _ Hin0) as [A [B ->]].
    rewrite <- app_assoc in Hnd. simpl in Hnd.
    rewrite <- app_assoc. simpl.
    rewrite rem_app by (eapply NoDup_notin_l; exact Hnd).
    apply NoDup_remove_1 in Hnd.
    rewrite (app_assoc A B [y]).
    rewrite ins_after_app.
    + rewrite <- !app_assoc. reflexivity.
    + rewrite app_assoc in Hnd. eapply NoDup_notin_l. exact Hnd.
Qed.

Lemma nodup_bounded_length (l : list nat) n :
  NoDup l -> (forall x, In x l -> x < n) -> length l <= n.
Proof.
  intros Hnd Hal. rewrite <- (seq_length n 0). apply NoDup_incl_length; [exact Hnd|].
  intros x Hx. apply in_seq. apply Hal in Hx. lia.
Qed.

(* the loop of Clear *)
Lemma clear_loop_S fuel h s :
  clear_loop (S fuel) (Some h) s =
  (n <- deref s (Some h) ;;
   s1 <- set_prev (Some h) None s ;;
   s2 <- set_next (Some h) None s1 ;;
   clear_loop fuel (next n) s2).
Proof. reflexivity. Qed.

(* on a chain l starting at the loop variable, with enough fuel, the loop ends normally, has cut both
   links of every node of l and has touched nothing else *)
Lemma clear_loop_ok l : forall H hd p fuel,
  NoDup l -> (forall x, In x l -> x < length H) -> seg H p l None -> length l < fuel ->
  exists H',
    clear_loop fuel (hdp l None) (mkSt H hd) = Ok (mkSt H' hd)
    /\ length H' = length H /\ map value H' = map value H
    /\ (forall x, In x l -> prev_of H' x = None /\ next_of H' x = None)
    /\ (forall x, ~ In x l -> same_links H H' x).
Proof.
  induction l as [|a t IH]; intros H hd p fuel Hnd Hal Hs Hf.
  - exists H. simpl. destruct fuel; (split; [reflexivity|]); (split; [reflexivity|]);
      (split; [reflexivity|]); (split; [intros x []|intros x Hx; split; reflexivity]).
  - destruct fuel as [|fuel]; [simpl in Hf; lia|].
    simpl in Hs. destruct Hs as [_ [Hn Hs]].
    assert (Ha : a < length H) by (apply Hal; left; reflexivity).
    apply NoDup_cons_iff in Hnd. destruct Hnd as [Hat Hnd].
    destruct (IH (hsn (hsp H a None) a None) hd (Some a) fuel) as [H' [E [Hl [Hv [Hin Hout]]]]].
    + exact Hnd.
    + intros x Hx. len_tac. apply Hal. right. exact Hx.
    + apply seg_hsn_notin; [exact Hat|]. apply seg_hsp_notin; [exact Hat|]. exact Hs.
    + simpl in Hf. lia.
    + exists H'. cbn [hdp]. rewrite clear_loop_S. ev. rewrite Hn.
      split; [exact E|]. split; [rewrite Hl; len_tac|].
      split; [rewrite Hv, map_value_hsn, map_value_hsp; reflexivity|]. split.
      * intros x [<-|Hx]; [|apply Hin; exact Hx].
        destruct (Hout a Hat) as [Ep En]. rewrite Ep, En. lk. split; reflexivity.
      * intros x Hx. simpl in Hx.
        assert (Hxa : x <> a) by (intro E0; apply Hx; left; congruence).
        assert (Hxt : ~ In x t) by (intro Hi; apply Hx; right; exact Hi).
        destruct (Hout x Hxt) as [Ep En]. unfold same_links. rewrite Ep, En. lk. split; reflexivity.
Qed.

Lemma exec_sim s t o :
  Inv s t -> valid_op t o = true ->
  exists s', exec o s = Ok s' /\ Inv s' (sstep t o).
Proof.
  destruct s as [H [f b z]], t as [l vs]. intros HI Hvalid.
  pose proof HI as [HL [Hz [Hv Hd]]]. simpl in HL, Hz, Hv, Hd.
  assert (Hlen : length vs = length H) by (rewrite <- Hv; apply map_length).
  pose proof HL as [Hnd [Hal _]].
  destruct o as [v|v|v m|v m|n|n m|n m|n|n|]; simpl in Hvalid; unfold sstep; simpl sl; simpl svals;
    rewrite ?Hlen.
  - (* PushFront *)
    destruct (push_front_ok H f b z l v HL) as [H' [E [Hl' [Hv' [Hfr' Hs']]]]].
    simpl exec. rewrite E. eexists. split; [reflexivity|].
    apply (inv_create H H' z l); auto.
    + constructor; [|exact Hnd]. intro Hi. apply Hal in Hi. lia.
    + intros x [<-|Hx]; [lia|]. apply Hal in Hx. lia.
    + apply (det_create H H' l _ Hd Hl' Hfr'); [left; reflexivity|intros x Hx; right; exact Hx].
  - (* PushBack *)
    destruct (push_back_ok H f b z l v HL) as [H' [E [Hl' [Hv' [Hfr' Hs']]]]].
    simpl exec. rewrite E. eexists. split; [reflexivity|].
    apply (inv_create H H' z l); auto.
    + apply NoDup_insert; rewrite app_nil_r; [exact Hnd|]. intro Hi. apply Hal in Hi. lia.
    + intros x Hx. apply in_insert in Hx. rewrite app_nil_r in Hx.
      destruct Hx as [->|Hx]; [lia|]. apply Hal in Hx. lia.
    + rewrite length_insert, app_nil_r. reflexivity.
    + apply (det_create H H' l _ Hd Hl' Hfr'); [|intros x Hx]; rewrite in_app_iff; simpl; auto.
  - (* InsertBefore *)
    apply mem_In in Hvalid. destruct (in_split _ _ Hvalid) as [L1 [L2 ->]].
    destruct (insert_before_ok H f b z L1 m L2 v HL) as [H' [E [Hl' [Hv' [Hfr' Hs']]]]].
    simpl exec. rewrite E. eexists. split; [reflexivity|].
    rewrite ins_before_app by (eapply NoDup_notin_l; exact Hnd).
    apply (inv_create H H' z (L1 ++ m :: L2)); auto.
    + apply NoDup_insert; [exact Hnd|]. intro Hi. apply Hal in Hi. lia.
    + intros x Hx. apply in_insert in Hx.
      destruct Hx as [->|Hx]; [lia|]. apply Hal in Hx. lia.
    + rewrite length_insert. reflexivity.
    + apply (det_create H H' (L1 ++ m :: L2) _ Hd Hl' Hfr').
      * rewrite in_app_iff. simpl. auto.
      * intros x Hx. rewrite in_app_iff in Hx. simpl in Hx. rewrite in_app_iff. simpl. tauto.
  - (* InsertAfter *)
    apply mem_In in Hvalid. destruct (in_split _ _ Hvalid) as [L1 [L2 ->]].
    destruct (insert_after_ok H f b z L1 m L2 v HL) as [H' [E [Hl' [Hv' [Hfr' Hs']]]]].
    assert (Hd' : Det H' (L1 ++ m :: length H :: L2)).
    { apply (det_create H H' (L1 ++ m :: L2) _ Hd Hl' Hfr').
      - rewrite in_app_iff. simpl. auto.
      - intros x Hx. rewrite in_app_iff in Hx. simpl in Hx. rewrite in_app_iff. simpl. tauto. }
    simpl exec. rewrite E. eexists. split; [reflexivity|].
    rewrite ins_after_app by (eapply NoDup_notin_l; exact Hnd).
    assert (Hnd2 : NoDup ((L1 ++ [m]) ++ L2)) by (rewrite <- app_assoc; exact Hnd).
    assert (Hal2 : forall x, In x ((L1 ++ [m]) ++ L2) -> x < length H).
    { intros x Hx. apply Hal. rewrite <- app_assoc in Hx. exact Hx. }
    change (L1 ++ m :: length H :: L2) with (L1 ++ [m] ++ length H :: L2) in *.
    rewrite app_assoc in *.
    apply (inv_create H H' z (L1 ++ m :: L2)); auto.
    + apply NoDup_insert; [exact Hnd2|]. intro Hi. apply Hal2 in Hi. lia.
    + intros x Hx. apply in_insert in Hx.
      destruct Hx as [->|Hx]; [lia|]. apply Hal2 in Hx. lia.
    + rewrite length_insert, <- app_assoc. reflexivity.
  - (* Remove *)
    apply mem_In in Hvalid. destruct (in_split _ _ Hvalid) as [l1 [l2 ->]].
    destruct (remove_ok H f b z l1 n l2 HL) as [H1 [E1 [Hl1 [Hv1 [Hfr1 Hs1]]]]].
    assert (Hn : n < length H1).
    { rewrite Hl1. apply Hal. apply in_insert. left. reflexivity. }
    pose proof (NoDup_remove_1 _ _ _ Hnd) as Hnd1.
    pose proof (NoDup_remove_2 _ _ _ Hnd) as Hni1.
    simpl exec. unfold remove_node. rewrite E1. ev.
    eexists. split; [reflexivity|].
    rewrite rem_app by (eapply NoDup_notin_l; exact Hnd).
    assert (Ez : (z - 1)%Z = Z.of_nat (length (l1 ++ l2))).
    { rewrite Hz, length_insert. lia. }
    unfold Inv. cbn [heap lst front back size sl svals].
    split; [|split; [exact Ez|split]].
    + unfold Lk. repeat split; auto.
      * intros x Hx. repeat (rewrite length_hsp || rewrite length_hsn). rewrite Hl1.
        apply Hal. apply in_insert. right. exact Hx.
      * apply seg_hsn_notin; [exact Hni1|]. apply seg_hsp_notin; [exact Hni1|]. exact Hs1.
    + rewrite map_value_hsn, map_value_hsp. congruence.
    + (* the removed node has just been isolated; the other detached nodes were not touched *)
      intros x Hx Hxi. repeat (rewrite length_hsp in Hx || rewrite length_hsn in Hx).
      destruct (Nat.eq_dec x n) as [->|Hxn].
      * lk. split; reflexivity.
      * assert (Hxl : ~ In x (l1 ++ n :: l2)).
        { intro Hi. apply in_insert in Hi. destruct Hi as [Hi|Hi]; [exact (Hxn Hi)|exact (Hxi Hi)]. }
        destruct (Hfr1 x Hxl) as [Ep En]. lk. rewrite Ep, En. apply Hd; [|exact Hxl].
        rewrite <- Hl1. exact Hx.
  - (* MoveBefore *)
    apply andb_prop in Hvalid. destruct Hvalid as [Hvn Hvm].
    apply mem_In in Hvn. apply mem_In in Hvm.
    destruct (move_before_sim H f b z l vs n m HI Hvn Hvm) as [s' [E HI']].
    simpl exec. exists s'. split; [exact E|]. exact HI'.
  - (* MoveAfter *)
    apply andb_prop in Hvalid. destruct Hvalid as [Hvn Hvm].
    apply mem_In in Hvn. apply mem_In in Hvm.
    destruct (move_after_sim H f b z l vs n m HI Hvn Hvm) as [s' [E HI']].
    simpl exec. exists s'. split; [exact E|]. exact HI'.
  - (* MoveToFront *)
    apply mem_In in Hvalid. destruct l as [|f0 t0]; [contradiction|].
    destruct HL as [_ [_ [Hf _]]]. simpl in Hf. subst f.
    destruct (move_before_sim H (Some f0) b z (f0 :: t0) vs n f0 HI Hvalid (or_introl eq_refl))
      as [s' [E HI']].
    simpl exec. unfold move_to_front. simpl front. exists s'. split; [exact E|].
    rewrite move_to_front_spec. exact HI'.
  - (* MoveToBack *)
    apply mem_In in Hvalid.
    destruct (list_rev_case l) as [-> | [t0 [y ->]]]; [contradiction|].
    destruct HL as [_ [_ [_ [Hb _]]]]. rewrite lastp_app in Hb. simpl in Hb. subst b.
    assert (Hy : In y (t0 ++ [y])) by (rewrite in_app_iff; simpl; auto).
    destruct (move_after_sim H f (Some y) z (t0 ++ [y]) vs n y HI Hvalid Hy) as [s' [E HI']].
    simpl exec. unfold move_to_back. simpl back. exists s'. split; [exact E|].
    rewrite move_to_back_spec by assumption. exact HI'.
  - (* Clear *)
    pose proof (nodup_bounded_length l (length H) Hnd Hal) as Hle.
    destruct HL as [_ [_ [Hf [_ Hs]]]]. subst f.
    destruct (clear_loop_ok l H (mkHdr (hdp l None) b z) None (S (length H)) Hnd Hal Hs)
      as [H' [E [Hl' [Hv' [Hin Hout]]]]]; [lia|].
    simpl exec. unfold clear. cbn [heap lst front]. rewrite E. ev.
    eexists. split; [reflexivity|].
    unfold Inv, Lk. cbn [heap lst front back size sl svals hdp lastp length].
    split; [|split; [reflexivity|split; [congruence|]]].
    + repeat split; auto; [constructor|intros x []].
    + (* the nodes of the dropped sequence have been isolated by the loop, the others were already *)
      intros x Hx _. destruct (in_dec Nat.eq_dec x l) as [Hi|Hni]; [apply Hin; exact Hi|].
      destruct (Hout x Hni) as [Ep En]. rewrite Ep, En. apply Hd; [|exact Hni].
      rewrite <- Hl'. exact Hx.
Qed.

(* ------------------------------------------------------------------------------------------ *)
(* I. the walks of the harness on a well-linked state                                         *)
(* ------------------------------------------------------------------------------------------ *)

Lemma walk_next_seg H p l fuel :
  seg H p l None -> (forall x, In x l -> x < length H) -> length l < fuel ->
  walk next fuel H (hdp l None) = l.
Proof.
  revert p fuel; induction l as [|a t IH]; intros p fuel Hs Hal Hf.
  - destruct fuel; reflexivity.
  - destruct fuel as [|fuel]; [simpl in Hf; lia|].
    simpl in Hs. destruct Hs as [_ [Hn Hs]].
    destruct (nth_error_lt H a (Hal a (or_introl eq_refl))) as [c E].
    unfold next_of in Hn. rewrite E in Hn.
    simpl. rewrite E, Hn. f_equal.
    apply IH with (p := Some a); [exact Hs| |simpl in Hf; lia].
    intros x Hx. apply Hal. right. exact Hx.
Qed.

Lemma walk_prev_seg H l q fuel :
  seg H None l q -> (forall x, In x l -> x < length H) -> length l < fuel ->
  walk prev fuel H (lastp None l) = rev l.
Proof.
  revert q fuel; induction l as [|a l' IH] using rev_ind; intros q fuel Hs Hal Hf.
  - destruct fuel; reflexivity.
  - rewrite app_length in Hf. simpl in Hf.
    destruct fuel as [|fuel]; [lia|].
    apply seg_snoc in Hs. destruct Hs as [Hs [Hp _]].
    assert (Ha : a < length H) by (apply Hal; rewrite in_app_iff; simpl; auto).
    destruct (nth_error_lt H a Ha) as [c E].
    unfold prev_of in Hp. rewrite E in Hp.
    rewrite lastp_app, rev_unit. simpl. rewrite E, Hp. f_equal.
    apply IH with (q := Some a); [exact Hs| |lia].
    intros x Hx. apply Hal. rewrite in_app_iff. auto.
Qed.

(* the marks of the forward walk *)
Definition mark1 (m : list bool) (h : nat) : list bool := upd m h true.

Lemma fold_mark_length fwd : forall m, length (fold_left mark1 fwd m) = length m.
Proof.
  induction fwd as [|x t IH]; intros m; simpl; [reflexivity|].
  rewrite IH. apply upd_length.
Qed.

Lemma fold_mark_true fwd : forall m h,
  nth_error m h = Some true -> nth_error (fold_left mark1 fwd m) h = Some true.
Proof.
  induction fwd as [|x t IH]; intros m h E; simpl; [exact E|].
  apply IH. unfold mark1. destruct (Nat.eq_dec x h) as [->|Hx].
  - apply nth_error_upd_same. eapply nth_error_some_lt. exact E.
  - rewrite nth_error_upd_other by exact Hx. exact E.
Qed.

Lemma fold_mark_false fwd : forall m h,
  nth_error (fold_left mark1 fwd m) h = Some false -> ~ In h fwd.
Proof.
  induction fwd as [|x t IH]; intros m h E; simpl; [tauto|].
  simpl in E. intros [->|Hi].
  - pose proof (nth_error_some_lt _ _ _ E) as Hh. rewrite fold_mark_length in Hh.
    unfold mark1 in Hh. rewrite upd_length in Hh.
    rewrite (fold_mark_true t (mark1 m h) h) in E; [discriminate|].
    unfold mark1. apply nth_error_upd_same. exact Hh.
  - exact (IH _ _ E Hi).
Qed.

Lemma nth_error_combine {A B} (a : list A) : forall (b : list B) i x y,
  nth_error (combine a b) i = Some (x, y) -> nth_error a i = Some x /\ nth_error b i = Some y.
Proof.
  induction a as [|a0 a IH]; intros [|b0 b] [|i] x y E; simpl in *; try discriminate.
  - injection E as -> ->. auto.
  - apply IH. exact E.
Qed.

Lemma detached_isolated_true H l : Det H l -> detached_isolated H l = true.
Proof.
  intros Hd. unfold detached_isolated. apply forallb_forall. intros [c m] Hin.
  destruct (In_nth_error _ _ Hin) as [h Eh]. apply nth_error_combine in Eh.
  destruct Eh as [Ec Em]. cbn [fst snd]. destruct m; [reflexivity|].
  change (marks (length H) l) with (fold_left mark1 l (repeat false (length H))) in Em.
  apply fold_mark_false in Em.
  destruct (Hd h (nth_error_some_lt _ _ _ Ec) Em) as [Ep En].
  unfold prev_of in Ep. unfold next_of in En. rewrite Ec in Ep, En. rewrite Ep, En. reflexivity.
Qed.

Lemma observe_ideal s t : Inv s t -> observe s = sobs t.
Proof.
  destruct s as [H [f b z]], t as [l vs]. intros [HL [Hz [Hv Hd]]].
  simpl in HL, Hz, Hv, Hd. destruct HL as [Hnd [Hal [Hf [Hb Hs]]]].
  pose proof (nodup_bounded_length l (length H) Hnd Hal) as Hle.
  assert (E1 : walk next (S (length H)) H f = l).
  { subst f. apply walk_next_seg with (p := None); [exact Hs|exact Hal|lia]. }
  assert (E2 : walk prev (S (length H)) H b = rev l).
  { subst b. apply walk_prev_seg with (q := None); [exact Hs|exact Hal|lia]. }
  assert (E4 : map (value_of H) l = map (fun h => nth h vs 0%Z) l).
  { apply map_ext. intros h. rewrite value_of_nth, Hv. reflexivity. }
  assert (E5 : end_nil prev H f = true).
  { subst f. destruct l as [|a t]; [reflexivity|]. simpl.
    destruct (nth_error_lt H a (Hal a (or_introl eq_refl))) as [c E]. rewrite E.
    simpl in Hs. destruct Hs as [Hp _]. unfold prev_of in Hp. rewrite E in Hp. rewrite Hp.
    reflexivity. }
  assert (E6 : end_nil next H b = true).
  { subst b. destruct (list_rev_case l) as [-> | [l' [y ->]]]; [reflexivity|].
    rewrite lastp_app. simpl.
    assert (Hy : y < length H) by (apply Hal; rewrite in_app_iff; simpl; auto).
    destruct (nth_error_lt H y Hy) as [c E]. rewrite E.
    apply seg_snoc in Hs. destruct Hs as [_ [_ Hn]]. unfold next_of in Hn. rewrite E in Hn.
    rewrite Hn. reflexivity. }
  pose proof (detached_isolated_true H l Hd) as E7.
  unfold observe, sobs. cbn [heap lst front back size sl svals].
  rewrite E1, E2, E4, E5, E6, E7, Hz. reflexivity.
Qed.

(* ------------------------------------------------------------------------------------------ *)
(* J. whole histories                                                                         *)
(* ------------------------------------------------------------------------------------------ *)

Lemma inv_empty : Inv empty sempty.
Proof.
  unfold Inv, Lk, empty, sempty. cbn [heap lst front back size sl svals hdp lastp seg length map].
  split; [|split; [reflexivity|split; [reflexivity|]]].
  - split; [constructor|]. split; [intros x []|]. split; [reflexivity|]. split; [reflexivity|exact I].
  - intros x Hx. simpl in Hx. lia.
Qed.

Lemma step_sim s t o :
  Inv s t -> valid_op t o = true ->
  step s o = (fst (step s o), sobs (sstep t o)) /\ Inv (fst (step s o)) (sstep t o).
Proof.
  intros HI Hv. destruct (exec_sim s t o HI Hv) as [s' [E HI']].
  unfold step. rewrite E. simpl. rewrite (observe_ideal s' _ HI').
  split; [reflexivity|exact HI'].
Qed.

Lemma run_from_sim ops : forall s t,
  Inv s t -> valid_from t ops = true ->
  run_from s ops = srun_from t ops /\
  Inv (run_state_from s ops) (srun_state_from t ops).
Proof.
  induction ops as [|o ops IH]; intros s t HI Hv; simpl.
  - auto.
  - simpl in Hv. apply andb_prop in Hv. destruct Hv as [Hvo Hvr].
    destruct (step_sim s t o HI Hvo) as [E HI'].
    destruct (IH _ _ HI' Hvr) as [Er HIr].
    rewrite E. simpl. rewrite Er. auto.
Qed.

Theorem xlist_refinement ops : valid_ops ops = true -> run ops = srun ops.
Proof. intros Hv. apply (run_from_sim ops empty sempty inv_empty Hv). Qed.

Theorem xlist_inv ops :
  valid_ops ops = true -> Inv (run_state ops) (srun_state ops).
Proof. intros Hv. apply (run_from_sim ops empty sempty inv_empty Hv). Qed.

Lemma inv_rep s t : Inv s t -> Rep s (sl t).
Proof.
  destruct s as [H [f b z]], t as [l vs]. intros [HL [Hz _]]. simpl in HL, Hz.
  destruct HL as [Hnd [Hal [Hf [Hb Hs]]]]. unfold Rep. simpl.
  split; [exact Hnd|]. split; [rewrite hd_error_hdp; exact Hf|].
  split; [rewrite last_error_lastp; exact Hb|].
  split; [|split; [|split; [|split; [exact Hz|exact Hal]]]].
  - intros l1 a c l2 ->. apply seg_app in Hs. destruct Hs as [_ Hs]. simpl in Hs. tauto.
  - intros a t0 ->. simpl in Hs. tauto.
  - intros t0 a ->. apply seg_snoc in Hs. tauto.
Qed.

Theorem xlist_rep_invariant ops :
  valid_ops ops = true -> Rep (run_state ops) (sl (srun_state ops)).
Proof. intros Hv. apply inv_rep. apply xlist_inv. exact Hv. Qed.

(* values *)
Lemma svals_sstep t o : svals (sstep t o) = svals t ++ created_by o.
Proof. destruct o; simpl; rewrite ?app_nil_r; reflexivity. Qed.

Lemma svals_srun ops : forall t, svals (srun_state_from t ops) = svals t ++ created ops.
Proof.
  induction ops as [|o ops IH]; intros t; simpl.
  - rewrite app_nil_r. reflexivity.
  - rewrite IH, svals_sstep, <- app_assoc. reflexivity.
Qed.

Theorem xlist_values_at_creation ops :
  valid_ops ops = true -> map value (heap (run_state ops)) = created ops.
Proof.
  intros Hv. destruct (xlist_inv ops Hv) as [_ [_ [E _]]]. rewrite E.
  unfold srun_state. rewrite svals_srun. reflexivity.
Qed.

Lemma valid_from_app a : forall t b,
  valid_from t (a ++ b) = valid_from t a && valid_from (srun_state_from t a) b.
Proof.
  induction a as [|o a IH]; intros t b; simpl.
  - reflexivity.
  - rewrite IH, andb_assoc. reflexivity.
Qed.

Lemma valid_ops_prefix a b : valid_ops (a ++ b) = true -> valid_ops a = true.
Proof.
  unfold valid_ops. rewrite valid_from_app. intros Hv. apply andb_prop in Hv. tauto.
Qed.

Lemma created_app a b : created (a ++ b) = created a ++ created b.
Proof. unfold created. apply flat_map_app. Qed.

Theorem xlist_handles_stable ops1 ops2 :
  valid_ops (ops1 ++ ops2) = true ->
  let H1 := heap (run_state ops1) in
  let H2 := heap (run_state (ops1 ++ ops2)) in
  length H1 <= length H2 /\
  forall h c, nth_error H1 h = Some c ->
              exists c', nth_error H2 h = Some c' /\ value c' = value c.
Proof.
  intros Hv H1 H2.
  pose proof (xlist_values_at_creation _ Hv) as E2.
  pose proof (xlist_values_at_creation _ (valid_ops_prefix _ _ Hv)) as E1.
  fold H1 in E1. fold H2 in E2. rewrite created_app, <- E1 in E2.
  assert (Hlen : length H2 = length H1 + length (created ops2)).
  { rewrite <- (map_length value H2), E2, app_length, map_length. reflexivity. }
  split; [lia|].
  intros h c Ec.
  pose proof (nth_error_some_lt _ _ _ Ec) as Hh.
  destruct (nth_error_lt H2 h) as [c' Ec']; [lia|].
  exists c'. split; [exact Ec'|].
  pose proof (map_nth_error value _ _ Ec') as M2.
  pose proof (map_nth_error value _ _ Ec) as M1.
  rewrite E2, nth_error_app1 in M2 by (rewrite map_length; exact Hh).
  congruence.
Qed.

Theorem xlist_values_untouched ops1 ops2 :
  valid_ops (ops1 ++ ops2) = true ->
  forall h, h < length (heap (run_state ops1)) ->
            value_of (heap (run_state (ops1 ++ ops2))) h = value_of (heap (run_state ops1)) h.
Proof.
  intros Hv h Hh.
  destruct (xlist_handles_stable ops1 ops2 Hv) as [_ Hst].
  destruct (nth_error_lt _ h Hh) as [c Ec].
  destruct (Hst h c Ec) as [c' [Ec' Evc]].
  unfold value_of. rewrite Ec, Ec'. exact Evc.
Qed.

Lemma run_state_from_app a : forall s b,
  run_state_from s (a ++ b) = run_state_from (run_state_from s a) b.
Proof. induction a as [|o a IH]; intros s b; simpl; auto. Qed.

Lemma srun_state_from_app a : forall t b,
  srun_state_from t (a ++ b) = srun_state_from (srun_state_from t a) b.
Proof. induction a as [|o a IH]; intros t b; simpl; auto. Qed.

(* every allocated node that is not in the ideal sequence - removed by Remove, dropped by Clear, at any
   later time, however the list was re-grown since - has neither neighbour *)
Theorem xlist_detached_isolated ops :
  valid_ops ops = true ->
  forall h, h < length (heap (run_state ops)) -> ~ In h (sl (srun_state ops)) ->
            prev_of (heap (run_state ops)) h = None /\ next_of (heap (run_state ops)) h = None.
Proof.
  intros Hv h Hh Hni. destruct (xlist_inv ops Hv) as [_ [_ [_ Hd]]]. apply Hd; assumption.
Qed.

(* the number of handles handed out is the same in both layers *)
Lemma xlist_fresh ops :
  valid_ops ops = true -> length (heap (run_state ops)) = length (svals (srun_state ops)).
Proof.
  intros Hv. destruct (xlist_inv ops Hv) as [_ [_ [E _]]]. rewrite <- E. symmetry. apply map_length.
Qed.

Theorem xlist_removed_isolated ops n :
  valid_ops (ops ++ [LRemove n]) = true ->
  let H := heap (run_state (ops ++ [LRemove n])) in
  prev_of H n = None /\ next_of H n = None /\ ~ In n (sl (srun_state (ops ++ [LRemove n]))).
Proof.
  intros Hv. pose proof (valid_ops_prefix _ _ Hv) as Hv1.
  pose proof (xlist_inv _ Hv1) as HI.
  assert (Hni : ~ In n (sl (srun_state (ops ++ [LRemove n])))).
  { unfold valid_ops in Hv. rewrite valid_from_app in Hv. apply andb_prop in Hv.
    destruct Hv as [_ Hv2]. simpl in Hv2. rewrite andb_true_r in Hv2.
    fold (srun_state ops) in Hv2.
    unfold srun_state. rewrite srun_state_from_app. simpl.
    destruct HI as [[Hnd _] _]. apply mem_In in Hv2.
    fold (srun_state ops). destruct (in_split _ _ Hv2) as [l1 [l2 E]]. rewrite E in *.
    rewrite rem_app by (eapply NoDup_notin_l; exact Hnd).
    apply NoDup_remove_2 in Hnd. exact Hnd. }
  destruct (xlist_inv _ Hv) as [_ [_ [_ Hd]]].
  destruct (det_all _ _ n Hd Hni) as [Hp Hn].
  split; [exact Hp|]. split; [exact Hn|exact Hni].
Qed.

(* Clear as it was before the repair ({ l.front = nil; l.back = nil; l.size = 0 }) does not have the
   property: after PushBack x3, Clear the dropped node 0 still points at node 1 (and 1 at 0 and 2, ...),
   and the harness's flag after that Clear is false.
   The statement that fails for it (true for the repaired Clear: [xlist_detached_isolated]):
     forall ops, valid_ops ops = true ->
     forall h, h < length (heap (run_state_original ops)) -> ~ In h (sl (srun_state ops)) ->
       prev_of (heap (run_state_original ops)) h = None /\ next_of (heap (run_state_original ops)) h = None *)
Definition clear_original_witness : list op := [LPushBack 10; LPushBack 20; LPushBack 30; LClear].

Theorem clear_original_refuted :
  exists ops h,
    valid_ops ops = true /\
    h < length (heap (run_state_original ops)) /\
    mem h (sl (srun_state ops)) = false /\
    next_of (heap (run_state_original ops)) h <> None /\
    map o_removed_isolated (run_original ops) = [true; true; true; false] /\
    (* the repaired Clear on the same history *)
    next_of (heap (run_state ops)) h = None /\
    map o_removed_isolated (run ops) = [true; true; true; true].
Proof.
  exists clear_original_witness, 0. vm_compute.
  split; [reflexivity|]. split; [lia|]. split; [reflexivity|]. split; [discriminate|].
  split; [reflexivity|]. split; reflexivity.
Qed.

(* ------------------------------------------------------------------------------------------ *)
(* K. non-vacuity                                                                             *)
(* ------------------------------------------------------------------------------------------ *)

(* every operation; node == mark; node and mark adjacent in both orders; node/mark at either end;
   a single-element list; re-growth after Clear and after removing every node; Clear of an empty list,
   of a 4-element and of a 3-element list, each followed by re-growth *)
Definition example_ops : list op :=
  [ LPushBack 10; LMoveToFront 0; LMoveToBack 0; LMoveBefore 0 0; LMoveAfter 0 0;   (* single node *)
    LPushFront 11; LInsertAfter 12 1; LInsertBefore 13 1;                           (* 3 1 2 0 *)
    LMoveBefore 1 3;   (* node just after mark *)
    LMoveBefore 1 3;   (* node already just before mark *)
    LMoveAfter 1 3;    (* node just before mark *)
    LMoveAfter 1 3;    (* node already just after mark *)
    LMoveBefore 0 3;   (* last node before first *)
    LMoveAfter 0 2;    (* first node after last *)
    LMoveToFront 0; LMoveToBack 0; LMoveToBack 0; LMoveToFront 3; LMoveAfter 2 2;
    LRemove 3; LRemove 0; LRemove 1; LRemove 2;                                     (* emptied *)
    LPushFront 14; LPushBack 15; LInsertBefore 16 4; LInsertAfter 17 5;             (* re-grown *)
    LClear;
    LPushBack 18; LPushFront 19; LMoveBefore 8 9; LMoveAfter 8 9; LRemove 9; LRemove 8; LClear;
    LPushBack 20; LPushBack 21; LPushFront 22;                                      (* 12 10 11 *)
    LClear;                                                                         (* drops 3 nodes *)
    LPushBack 23; LInsertAfter 24 13; LMoveToFront 14 ].                            (* re-grown: 14 13 *)

Example example_valid : valid_ops example_ops = true.
Proof. vm_compute. reflexivity. Qed.

(* the hypotheses of the split-history theorems are satisfiable as well *)
Example example_valid_split :
  valid_ops (firstn 20 example_ops ++ skipn 20 example_ops) = true /\
  valid_ops ([LPushBack 1; LPushBack 2] ++ [LRemove 0]) = true.
Proof. vm_compute. split; reflexivity. Qed.

Example example_runs : run example_ops = srun example_ops /\ length (run example_ops) = 42.
Proof. vm_compute. split; reflexivity. Qed.

Example example_lists :
  map o_fwd (run example_ops) =
  [ [0]; [0]; [0]; [0]; [0];
    [1;0]; [1;2;0]; [3;1;2;0];
    [1;3;2;0]; [1;3;2;0]; [3;1;2;0]; [3;1;2;0];
    [0;3;1;2]; [3;1;2;0];
    [0;3;1;2]; [3;1;2;0]; [3;1;2;0]; [3;1;2;0]; [3;1;2;0];
    [1;2;0]; [1;2]; [2]; [];
    [4]; [4;5]; [6;4;5]; [6;4;5;7];
    [];
    [8]; [9;8]; [8;9]; [9;8]; [8]; []; [];
    [10]; [10;11]; [12;10;11];
    [];
    [13]; [13;14]; [14;13] ].
Proof. vm_compute. reflexivity. Qed.

(* at the end of that history 15 handles have been handed out, 2 are in the list, and each of the
   13 others - removed one by one or dropped by one of the three Clear calls - has no neighbour;
   with the unrepaired Clear the nodes 4..7 and 10..12 keep their links *)
Example example_detached :
  let H := heap (run_state example_ops) in
  length H = 15 /\ sl (srun_state example_ops) = [14; 13] /\
  filter (fun h => negb (is_nil (prev_of H h) && is_nil (next_of H h))) (seq 0 15) = [13; 14] /\
  let H0 := heap (run_state_original example_ops) in
  filter (fun h => negb (is_nil (prev_of H0 h) && is_nil (next_of H0 h))) (seq 0 15)
  = [4; 5; 6; 7; 10; 11; 12; 13; 14].
Proof. vm_compute. repeat split; reflexivity. Qed.

(* running out of fuel in the loop of Clear is a panic value, never a normal return (with the fuel that
   [clear] passes it does not happen on valid histories: [exec_sim]) *)
Example clear_loop_out_of_fuel :
  let s := run_state [LPushBack 1; LPushBack 2; LPushBack 3] in
  clear_loop 2 (front (lst s)) s = Panic POther /\
  (exists s', clear_loop 3 (front (lst s)) s = Ok s') /\
  exec LClear s = Ok (mkSt [mkCell None None 1%Z; mkCell None None 2%Z; mkCell None None 3%Z]
                           (mkHdr None None 0%Z)).
Proof. vm_compute. split; [reflexivity|]. split; [eexists; reflexivity|reflexivity]. Qed.

(* ------------------------------------------------------------------------------------------ *)
(* L. reading the refinement theorem                                                          *)
(* ------------------------------------------------------------------------------------------ *)

(* the i-th ideal observation is the ideal state after the first i+1 operations *)
Lemma srun_from_nth ops : forall t i,
  i < length ops ->
  nth_error (srun_from t ops) i = Some (sobs (srun_state_from t (firstn (S i) ops))).
Proof.
  induction ops as [|o ops IH]; intros t i Hi; simpl in Hi; [lia|].
  destruct i as [|i].
  - reflexivity.
  - change (nth_error (srun_from (sstep t o) ops) i =
            Some (sobs (srun_state_from (sstep t o) (firstn (S i) ops)))).
    apply IH. lia.
Qed.

Lemma srun_from_length ops : forall t, length (srun_from t ops) = length ops.
Proof. induction ops as [|o r IH]; intros t; simpl; [reflexivity|]. rewrite IH. reflexivity. Qed.

Theorem xlist_obs_nth ops i :
  valid_ops ops = true -> i < length ops ->
  nth_error (run ops) i = Some (sobs (srun_state (firstn (S i) ops))).
Proof.
  intros Hv Hi. rewrite (xlist_refinement ops Hv). apply srun_from_nth. exact Hi.
Qed.

Theorem xlist_obs_well_formed ops :
  valid_ops ops = true -> Forall obs_well_formed (run ops).
Proof.
  intros Hv. apply Forall_forall. intros ob Hob.
  destruct (In_nth_error _ _ Hob) as [i Ei].
  assert (Hi : i < length ops).
  { assert (Hl : length (run ops) = length ops).
    { rewrite (xlist_refinement ops Hv). apply srun_from_length. }
    rewrite <- Hl. apply nth_error_Some. congruence. }
  rewrite (xlist_obs_nth ops i Hv Hi) in Ei. injection Ei as <-.
  assert (Hvp : valid_ops (firstn (S i) ops) = true).
  { apply valid_ops_prefix with (b := skipn (S i) ops). rewrite firstn_skipn. exact Hv. }
  destruct (xlist_inv _ Hvp) as [[Hnd _] _].
  unfold obs_well_formed, sobs. simpl. rewrite map_length. repeat split; auto.
Qed.
