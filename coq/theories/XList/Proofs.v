(* Proofs for xlist (C06): the pointer structure of xlist.go is, after every history that respects the
   documented precondition, exactly an ideal sequence of handles. *)
From Juniper Require Import Common.Base XList.Model XList.Spec.
From Coq Require Import PeanoNat.
Local Open Scope nat_scope.

(* ------------------------------------------------------------------------------------------ *)
(* A. ends of a sequence as pointers                                                          *)
(* ------------------------------------------------------------------------------------------ *)

(* first element of l, or q when l is empty *)
Definition hdp (l : list nat) (q : ptr) : ptr :=
  match l with [] => q | a :: _ => Some a end.

(* last element of l, or p when l is empty *)
Fixpoint lastp (p : ptr) (l : list nat) : ptr :=
  match l with [] => p | a :: t => lastp (Some a) t end.

Lemma hdp_app l1 l2 q : hdp (l1 ++ l2) q = hdp l1 (hdp l2 q).
Proof. destruct l1; reflexivity. Qed.

Lemma lastp_app p l1 l2 : lastp p (l1 ++ l2) = lastp (lastp p l1) l2.
Proof. revert p; induction l1 as [|a t IH]; intros p; simpl; auto. Qed.

Lemma lastp_some a l : exists y, lastp (Some a) l = Some y /\ In y (a :: l).
Proof.
  revert a; induction l as [|b t IH]; intros a; simpl.
  - exists a; auto.
  - destruct (IH b) as [y [E I]]. exists y. split; [exact E|]. simpl in I. tauto.
Qed.

Lemma hd_error_hdp l : hd_error l = hdp l None.
Proof. destruct l; reflexivity. Qed.

Lemma lastp_last a t : lastp (Some a) t = Some (last (a :: t) O).
Proof.
  revert a; induction t as [|b t IH]; intros a.
  - reflexivity.
  - change (lastp (Some b) t = Some (last (b :: t) O)). apply IH.
Qed.

Lemma last_error_lastp l : last_error l = lastp None l.
Proof. destruct l as [|a t]; [reflexivity|]. simpl lastp. rewrite lastp_last. reflexivity. Qed.

Lemma ptr_eqb_refl p : ptr_eqb p p = true.
Proof. destruct p; simpl; auto using Nat.eqb_refl. Qed.

Lemma ptr_eqb_hdp_false l a m :
  ~ In m l -> a <> m -> ptr_eqb (hdp l (Some a)) (Some m) = false.
Proof.
  intros Hn Ha. destruct l as [|b t]; simpl.
  - apply Nat.eqb_neq; exact Ha.
  - apply Nat.eqb_neq. intro E. apply Hn. left. exact E.
Qed.

Lemma ptr_eqb_lastp_false l b m :
  ~ In m l -> b <> m -> ptr_eqb (lastp (Some b) l) (Some m) = false.
Proof.
  intros Hn Hb. destruct (lastp_some b l) as [y [E I]]. rewrite E. simpl.
  apply Nat.eqb_neq. intro Ey. subst y. simpl in I. tauto.
Qed.

(* ------------------------------------------------------------------------------------------ *)
(* B. total heap updates and look-ups                                                         *)
(* ------------------------------------------------------------------------------------------ *)

Definition cellof (H : list cell) (h : nat) : cell := nth h H (mkCell None None 0%Z).

(* H[h].prev = v / H[h].next = v, identity on unallocated handles *)
Definition hsp (H : list cell) (h : nat) (v : ptr) : list cell :=
  match nth_error H h with
  | Some c => upd H h (mkCell v (next c) (value c))
  | None => H
  end.

Definition hsn (H : list cell) (h : nat) (v : ptr) : list cell :=
  match nth_error H h with
  | Some c => upd H h (mkCell (prev c) v (value c))
  | None => H
  end.

Lemma nth_error_lt {A} (H : list A) h : h < length H -> exists c, nth_error H h = Some c.
Proof.
  intros Hl. destruct (nth_error H h) as [c|] eqn:E; [eauto|].
  apply nth_error_None in E. lia.
Qed.

Lemma nth_error_some_lt {A} (H : list A) h c : nth_error H h = Some c -> h < length H.
Proof. intros E. apply nth_error_Some. congruence. Qed.

Lemma cellof_nth_error H h c : nth_error H h = Some c -> cellof H h = c.
Proof. intros E. unfold cellof. apply nth_error_nth. exact E. Qed.

Lemma prev_cellof H h : prev (cellof H h) = prev_of H h.
Proof.
  unfold prev_of. destruct (nth_error H h) as [c|] eqn:E.
  - rewrite (cellof_nth_error _ _ _ E). reflexivity.
  - unfold cellof. rewrite nth_overflow; [reflexivity|]. apply nth_error_None. exact E.
Qed.

Lemma next_cellof H h : next (cellof H h) = next_of H h.
Proof.
  unfold next_of. destruct (nth_error H h) as [c|] eqn:E.
  - rewrite (cellof_nth_error _ _ _ E). reflexivity.
  - unfold cellof. rewrite nth_overflow; [reflexivity|]. apply nth_error_None. exact E.
Qed.

Lemma length_hsp H h v : length (hsp H h v) = length H.
Proof. unfold hsp. destruct (nth_error H h); [apply upd_length|reflexivity]. Qed.

Lemma length_hsn H h v : length (hsn H h v) = length H.
Proof. unfold hsn. destruct (nth_error H h); [apply upd_length|reflexivity]. Qed.

Lemma prev_of_hsp_same H h v : h < length H -> prev_of (hsp H h v) h = v.
Proof.
  intros Hl. destruct (nth_error_lt H h Hl) as [c E]. unfold hsp, prev_of. rewrite E.
  rewrite nth_error_upd_same by exact Hl. reflexivity.
Qed.

Lemma prev_of_hsp_other H h v x : x <> h -> prev_of (hsp H h v) x = prev_of H x.
Proof.
  intros Hx. unfold hsp, prev_of. destruct (nth_error H h) as [c|]; [|reflexivity].
  rewrite nth_error_upd_other by congruence. reflexivity.
Qed.

Lemma next_of_hsp H h v x : next_of (hsp H h v) x = next_of H x.
Proof.
  unfold hsp, next_of. destruct (nth_error H h) as [c|] eqn:E; [|reflexivity].
  destruct (Nat.eq_dec x h) as [->|Hx].
  - rewrite nth_error_upd_same by (eapply nth_error_some_lt; exact E). rewrite E. reflexivity.
  - rewrite nth_error_upd_other by congruence. reflexivity.
Qed.

Lemma next_of_hsn_same H h v : h < length H -> next_of (hsn H h v) h = v.
Proof.
  intros Hl. destruct (nth_error_lt H h Hl) as [c E]. unfold hsn, next_of. rewrite E.
  rewrite nth_error_upd_same by exact Hl. reflexivity.
Qed.

Lemma next_of_hsn_other H h v x : x <> h -> next_of (hsn H h v) x = next_of H x.
Proof.
  intros Hx. unfold hsn, next_of. destruct (nth_error H h) as [c|]; [|reflexivity].
  rewrite nth_error_upd_other by congruence. reflexivity.
Qed.

Lemma prev_of_hsn H h v x : prev_of (hsn H h v) x = prev_of H x.
Proof.
  unfold hsn, prev_of. destruct (nth_error H h) as [c|] eqn:E; [|reflexivity].
  destruct (Nat.eq_dec x h) as [->|Hx].
  - rewrite nth_error_upd_same by (eapply nth_error_some_lt; exact E). rewrite E. reflexivity.
  - rewrite nth_error_upd_other by congruence. reflexivity.
Qed.

Lemma map_value_upd H h c c' :
  nth_error H h = Some c -> value c' = value c -> map value (upd H h c') = map value H.
Proof.
  revert h; induction H as [|d H IH]; intros [|h] E Hv; simpl in *; try discriminate.
  - injection E as ->. rewrite Hv. reflexivity.
  - f_equal. apply IH; assumption.
Qed.

Lemma map_value_hsp H h v : map value (hsp H h v) = map value H.
Proof.
  unfold hsp. destruct (nth_error H h) as [c|] eqn:E; [|reflexivity].
  eapply map_value_upd; [exact E|reflexivity].
Qed.

Lemma map_value_hsn H h v : map value (hsn H h v) = map value H.
Proof.
  unfold hsn. destruct (nth_error H h) as [c|] eqn:E; [|reflexivity].
  eapply map_value_upd; [exact E|reflexivity].
Qed.

(* allocation *)
Lemma prev_of_app_old H c x : x < length H -> prev_of (H ++ [c]) x = prev_of H x.
Proof. intros Hl. unfold prev_of. rewrite nth_error_app1 by exact Hl. reflexivity. Qed.

Lemma next_of_app_old H c x : x < length H -> next_of (H ++ [c]) x = next_of H x.
Proof. intros Hl. unfold next_of. rewrite nth_error_app1 by exact Hl. reflexivity. Qed.

Lemma prev_of_app_new H c : prev_of (H ++ [c]) (length H) = prev c.
Proof. unfold prev_of. rewrite nth_error_app2 by lia. rewrite Nat.sub_diag. reflexivity. Qed.

Lemma next_of_app_new H c : next_of (H ++ [c]) (length H) = next c.
Proof. unfold next_of. rewrite nth_error_app2 by lia. rewrite Nat.sub_diag. reflexivity. Qed.

Lemma value_of_nth H h : value_of H h = nth h (map value H) 0%Z.
Proof.
  unfold value_of. revert h; induction H as [|c H IH]; intros [|h]; simpl; auto.
Qed.

(* ------------------------------------------------------------------------------------------ *)
(* C. the primitive accesses succeed on allocated handles                                     *)
(* ------------------------------------------------------------------------------------------ *)

Lemma deref_ok H hd h : h < length H -> deref (mkSt H hd) (Some h) = Ok (cellof H h).
Proof.
  intros Hl. destruct (nth_error_lt H h Hl) as [c E]. unfold deref. simpl. rewrite E.
  rewrite (cellof_nth_error _ _ _ E). reflexivity.
Qed.

Lemma set_prev_ok H hd h v :
  h < length H -> set_prev (Some h) v (mkSt H hd) = Ok (mkSt (hsp H h v) hd).
Proof.
  intros Hl. destruct (nth_error_lt H h Hl) as [c E]. unfold set_prev, hsp. simpl. rewrite E.
  reflexivity.
Qed.

Lemma set_next_ok H hd h v :
  h < length H -> set_next (Some h) v (mkSt H hd) = Ok (mkSt (hsn H h v) hd).
Proof.
  intros Hl. destruct (nth_error_lt H h Hl) as [c E]. unfold set_next, hsn. simpl. rewrite E.
  reflexivity.
Qed.

(* ------------------------------------------------------------------------------------------ *)
(* D. doubly-linked segments                                                                  *)
(* ------------------------------------------------------------------------------------------ *)

(* the nodes of l are chained in both directions; the first one's prev is p, the last one's next is q *)
Fixpoint seg (H : list cell) (p : ptr) (l : list nat) (q : ptr) : Prop :=
  match l with
  | [] => True
  | a :: t => prev_of H a = p /\ next_of H a = hdp t q /\ seg H (Some a) t q
  end.

Lemma seg_app H p l1 l2 q :
  seg H p (l1 ++ l2) q <-> seg H p l1 (hdp l2 q) /\ seg H (lastp p l1) l2 q.
Proof.
  revert p; induction l1 as [|a t IH]; intros p; simpl.
  - tauto.
  - rewrite IH, hdp_app. tauto.
Qed.

Lemma seg_snoc H p l a q :
  seg H p (l ++ [a]) q <-> seg H p l (Some a) /\ prev_of H a = lastp p l /\ next_of H a = q.
Proof. rewrite seg_app. simpl. tauto. Qed.

(* seg only reads the links of the nodes of l *)
Lemma seg_ext H H' p l q :
  (forall x, In x l -> prev_of H' x = prev_of H x /\ next_of H' x = next_of H x) ->
  seg H p l q -> seg H' p l q.
Proof.
  revert p; induction l as [|a t IH]; intros p Hx Hs; simpl in *; [exact I|].
  destruct Hs as [Hp [Hn Hs]]. destruct (Hx a (or_introl eq_refl)) as [Ep En].
  rewrite Ep, En. repeat split; auto.
Qed.

Lemma seg_hsp_notin H h v p l q : ~ In h l -> seg H p l q -> seg (hsp H h v) p l q.
Proof.
  intros Hn. apply seg_ext. intros x Hx. rewrite next_of_hsp.
  rewrite prev_of_hsp_other; [auto|]. intro E; subst; auto.
Qed.

Lemma seg_hsn_notin H h v p l q : ~ In h l -> seg H p l q -> seg (hsn H h v) p l q.
Proof.
  intros Hn. apply seg_ext. intros x Hx. rewrite prev_of_hsn.
  rewrite next_of_hsn_other; [auto|]. intro E; subst; auto.
Qed.

Lemma seg_hsn_last H p l a q q' :
  ~ In a l -> a < length H -> seg H p (l ++ [a]) q -> seg (hsn H a q') p (l ++ [a]) q'.
Proof.
  intros Hn Hl Hs. apply seg_snoc in Hs. destruct Hs as [Hs [Hp _]].
  apply seg_snoc. split; [|split].
  - apply seg_hsn_notin; assumption.
  - rewrite prev_of_hsn. exact Hp.
  - apply next_of_hsn_same. exact Hl.
Qed.

Lemma seg_hsp_hd H p p' a l q :
  ~ In a l -> a < length H -> seg H p (a :: l) q -> seg (hsp H a p') p' (a :: l) q.
Proof.
  intros Hn Hl Hs. simpl in *. destruct Hs as [_ [Hnx Hs]]. split; [|split].
  - apply prev_of_hsp_same. exact Hl.
  - rewrite next_of_hsp. exact Hnx.
  - apply seg_hsp_notin; assumption.
Qed.

Lemma seg_alloc H c p l q :
  (forall x, In x l -> x < length H) -> seg H p l q -> seg (H ++ [c]) p l q.
Proof.
  intros Ha. apply seg_ext. intros x Hx.
  rewrite prev_of_app_old, next_of_app_old by auto. auto.
Qed.

(* the last node of a segment points to q *)
Lemma seg_last_next H p l q y :
  seg H p l q -> l <> [] -> lastp p l = Some y -> next_of H y = q.
Proof.
  intros Hs Hne Hy. destruct (exists_last Hne) as [l' [a ->]].
  apply seg_snoc in Hs. rewrite lastp_app in Hy. simpl in Hy. injection Hy as <-. tauto.
Qed.

(* ------------------------------------------------------------------------------------------ *)
(* E. the ideal list operations on decomposed lists                                           *)
(* ------------------------------------------------------------------------------------------ *)

Lemma mem_In x l : mem x l = true <-> In x l.
Proof.
  unfold mem. rewrite existsb_exists. split.
  - intros [y [Hy E]]. apply Nat.eqb_eq in E. subst. exact Hy.
  - intros Hx. exists x. split; [exact Hx|apply Nat.eqb_refl].
Qed.

Lemma rem_app n l1 l2 : ~ In n l1 -> rem n (l1 ++ n :: l2) = l1 ++ l2.
Proof.
  induction l1 as [|a t IH]; intros Hn; simpl.
  - rewrite Nat.eqb_refl. reflexivity.
  - destruct (Nat.eqb a n) eqn:E.
    + apply Nat.eqb_eq in E. exfalso. apply Hn. left. exact E.
    + rewrite IH; [reflexivity|]. intro Hi. apply Hn. right. exact Hi.
Qed.

Lemma ins_before_app x m l1 l2 :
  ~ In m l1 -> ins_before x m (l1 ++ m :: l2) = l1 ++ x :: m :: l2.
Proof.
  induction l1 as [|a t IH]; intros Hn; simpl.
  - rewrite Nat.eqb_refl. reflexivity.
  - destruct (Nat.eqb a m) eqn:E.
    + apply Nat.eqb_eq in E. exfalso. apply Hn. left. exact E.
    + rewrite IH; [reflexivity|]. intro Hi. apply Hn. right. exact Hi.
Qed.

Lemma ins_after_app x m l1 l2 :
  ~ In m l1 -> ins_after x m (l1 ++ m :: l2) = l1 ++ m :: x :: l2.
Proof.
  induction l1 as [|a t IH]; intros Hn; simpl.
  - rewrite Nat.eqb_refl. reflexivity.
  - destruct (Nat.eqb a m) eqn:E.
    + apply Nat.eqb_eq in E. exfalso. apply Hn. left. exact E.
    + rewrite IH; [reflexivity|]. intro Hi. apply Hn. right. exact Hi.
Qed.

(* ------------------------------------------------------------------------------------------ *)
(* F. tactics                                                                                 *)
(* ------------------------------------------------------------------------------------------ *)

Lemma list_rev_case {A} (l : list A) : l = [] \/ exists l' a, l = l' ++ [a].
Proof.
  destruct l as [|x t]; [left; reflexivity|right].
  destruct (@exists_last _ (x :: t)) as [l' [a E]]; [discriminate|]. eauto.
Qed.

Ltac len_tac := rewrite ?length_hsp, ?length_hsn, ?app_length; simpl; auto; try lia.

Ltac notin_tac :=
  solve [ assumption | lia | congruence
        | rewrite ?in_app_iff; simpl; intuition (try congruence; try lia) ].

(* evaluate the monadic code on explicit states *)
Ltac ev :=
  repeat ((progress unfold set_front, set_back, set_size, alloc)
          || (progress cbn [bind heap lst front back size is_nil app hdp lastp])
          || (rewrite ptr_eqb_refl)
          || (rewrite deref_ok by len_tac)
          || (rewrite set_prev_ok by len_tac)
          || (rewrite set_next_ok by len_tac)
          || (rewrite prev_cellof) || (rewrite next_cellof)).

(* simplify look-ups through updates *)
Ltac lk :=
  repeat ((rewrite prev_of_hsn) || (rewrite next_of_hsp)
          || (rewrite prev_of_hsp_same by len_tac) || (rewrite next_of_hsn_same by len_tac)
          || (rewrite prev_of_hsp_other by notin_tac) || (rewrite next_of_hsn_other by notin_tac)
          || (rewrite prev_of_app_new) || (rewrite next_of_app_new)
          || (rewrite prev_of_app_old by len_tac) || (rewrite next_of_app_old by len_tac)).

(* split a NoDup hypothesis on a list with explicit middle elements into non-membership facts *)
Ltac nd H :=
  rewrite <- ?app_assoc in H; cbn [app] in H;
  repeat match type of H with
         | NoDup (_ ++ _ :: _) =>
             let Hi := fresh "Hnotin" in
             pose proof (NoDup_remove_2 _ _ _ H) as Hi; apply NoDup_remove_1 in H;
             rewrite ?in_app_iff in Hi; simpl in Hi
         | NoDup (_ :: _) =>
             let Hi := fresh "Hnotin" in
             apply NoDup_cons_iff in H; destruct H as [Hi H];
             rewrite ?in_app_iff in Hi; simpl in Hi
         end.

(* ------------------------------------------------------------------------------------------ *)
(* G. the methods on a well-linked state                                                      *)
(* ------------------------------------------------------------------------------------------ *)

(* everything of the representation invariant except size (remove leaves size alone) *)
Definition Lk (H : list cell) (f b : ptr) (l : list nat) : Prop :=
  NoDup l /\ (forall x, In x l -> x < length H) /\
  f = hdp l None /\ b = lastp None l /\ seg H None l None.

Lemma remove_ok H f b z l1 n l2 :
  Lk H f b (l1 ++ n :: l2) ->
  exists H',
    remove (Some n) (mkSt H (mkHdr f b z))
    = Ok (mkSt H' (mkHdr (hdp (l1 ++ l2) None) (lastp None (l1 ++ l2)) z))
    /\ length H' = length H /\ map value H' = map value H /\ seg H' None (l1 ++ l2) None.
Proof.
  intros [Hnd [Hal [Hf [Hb Hs]]]]. subst f b.
  assert (Hn : n < length H) by (apply Hal; rewrite in_app_iff; simpl; auto).
  destruct (list_rev_case l1) as [-> | [l1' [a ->]]]; destruct l2 as [|c l2'].
  - (* [n] *)
    simpl in Hs. destruct Hs as [Hp [Hnx _]].
    unfold remove. ev. rewrite Hnx, Hp. exists H. simpl. auto.
  - (* n :: c :: l2' *)
    simpl in Hs. destruct Hs as [Hp [Hnx [Hpc [Hnc Hs]]]].
    cbn [app] in Hnd, Hal.
    assert (Hc : c < length H) by (apply Hal; simpl; auto).
    nd Hnd.
    unfold remove. ev. rewrite Hnx.
    rewrite ptr_eqb_lastp_false by notin_tac. ev. Show. rewrite Hnx, Hp. ev.
    exists (hsp H c None). split; [reflexivity|]. split; [len_tac|]. split; [apply map_value_hsp|].
    apply seg_hsp_hd with (p := Some n); [notin_tac|exact Hc|]. simpl. auto.
  - (* l1' ++ [a; n] *)
    rewrite app_nil_r.
    apply seg_snoc in Hs. rewrite lastp_app in Hs. simpl in Hs. destruct Hs as [Hs [Hp Hnx]].
    assert (Ha : a < length H) by (apply Hal; rewrite !in_app_iff; simpl; auto).
    nd Hnd.
    unfold remove. rewrite !hdp_app, !lastp_app. ev.
    rewrite ptr_eqb_hdp_false by notin_tac. ev. rewrite Hp, Hnx. ev.
    lk. rewrite Hp.
    exists (hsn H a None). split; [reflexivity|]. split; [len_tac|]. split; [apply map_value_hsn|].
    apply seg_hsn_last with (q := Some n); [notin_tac|exact Ha|exact Hs].
  - (* l1' ++ a :: n :: c :: l2' *)
    apply seg_app in Hs. rewrite lastp_app in Hs. simpl in Hs.
    destruct Hs as [Hs1 [Hp [Hnx [Hpc [Hnc Hs2]]]]].
    assert (Ha : a < length H) by (apply Hal; rewrite !in_app_iff; simpl; auto).
    assert (Hc : c < length H) by (apply Hal; rewrite !in_app_iff; simpl; auto).
    nd Hnd.
    unfold remove. rewrite !hdp_app, !lastp_app. ev.
    rewrite ptr_eqb_hdp_false by notin_tac. ev. rewrite Hp, Hnx. ev.
    rewrite ptr_eqb_lastp_false by notin_tac. ev. lk. rewrite Hp, Hnx. ev.
    exists (hsp (hsn H a (Some c)) c (Some a)).
    split; [reflexivity|]. split; [len_tac|].
    split; [rewrite map_value_hsp, map_value_hsn; reflexivity|].
    apply seg_app. rewrite lastp_app. simpl hdp. simpl lastp. split.
    + apply seg_hsp_notin; [notin_tac|].
      apply seg_hsn_last with (q := Some n); [notin_tac|exact Ha|exact Hs1].
    + apply seg_hsp_hd with (p := Some n); [notin_tac|len_tac|].
      apply seg_hsn_notin; [notin_tac|]. simpl. auto.
Qed.
