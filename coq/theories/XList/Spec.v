(* Layer S for xlist: the ideal object is a sequence of node handles (plus the Value each handle was
   created with), with the obvious insert / remove / move.  Also the predicates used in the statements
   of C06.  Definitions only. *)
From Juniper Require Import Common.Base XList.Model.

Definition mem (x : nat) (l : list nat) : bool := existsb (Nat.eqb x) l.

(* drop the (first) occurrence of n *)
Fixpoint rem (n : nat) (l : list nat) : list nat :=
  match l with
  | [] => []
  | h :: t => if Nat.eqb h n then t else h :: rem n t
  end.

(* put x just before / just after m *)
Fixpoint ins_before (x m : nat) (l : list nat) : list nat :=
  match l with
  | [] => []
  | h :: t => if Nat.eqb h m then x :: h :: t else h :: ins_before x m t
  end.

Fixpoint ins_after (x m : nat) (l : list nat) : list nat :=
  match l with
  | [] => []
  | h :: t => if Nat.eqb h m then h :: x :: t else h :: ins_after x m t
  end.

(* [sl]: the handles in list order; [svals]: the Value given at creation, indexed by handle (so
   [length svals] is the next handle). *)
Record sstate := mkS { sl : list nat; svals : list Z }.

Definition sempty : sstate := mkS [] [].

Definition sstep (t : sstate) (o : op) : sstate :=
  let fresh := length (svals t) in
  match o with
  | LPushFront v => mkS (fresh :: sl t) (svals t ++ [v])
  | LPushBack v => mkS (sl t ++ [fresh]) (svals t ++ [v])
  | LInsertBefore v m => mkS (ins_before fresh m (sl t)) (svals t ++ [v])
  | LInsertAfter v m => mkS (ins_after fresh m (sl t)) (svals t ++ [v])
  | LRemove n => mkS (rem n (sl t)) (svals t)
  | LMoveBefore n m => mkS (if Nat.eqb n m then sl t else ins_before n m (rem n (sl t))) (svals t)
  | LMoveAfter n m => mkS (if Nat.eqb n m then sl t else ins_after n m (rem n (sl t))) (svals t)
  | LMoveToFront n => mkS (n :: rem n (sl t)) (svals t)
  | LMoveToBack n => mkS (rem n (sl t) ++ [n]) (svals t)
  | LClear => mkS [] (svals t)
  end.

(* the documented precondition: node and mark arguments are nodes currently in the list *)
Definition valid_op (t : sstate) (o : op) : bool :=
  match o with
  | LPushFront _ | LPushBack _ | LClear => true
  | LInsertBefore _ m | LInsertAfter _ m => mem m (sl t)
  | LRemove n | LMoveToFront n | LMoveToBack n => mem n (sl t)
  | LMoveBefore n m | LMoveAfter n m => mem n (sl t) && mem m (sl t)
  end.

Fixpoint valid_from (t : sstate) (ops : list op) : bool :=
  match ops with
  | [] => true
  | o :: ops' => valid_op t o && valid_from (sstep t o) ops'
  end.

Definition valid_ops (ops : list op) : bool := valid_from sempty ops.

(* the ideal observation: both walks are the sequence and its mirror image, Len its length, the
   Values those given at creation, the ends have no outer neighbour, every handle outside the sequence
   (removed by Remove or dropped by Clear) is isolated *)
Definition sobs (t : sstate) : obs :=
  mkObs false (sl t) (rev (sl t)) (Z.of_nat (length (sl t)))
        (map (fun h => nth h (svals t) 0) (sl t)) true true true.

Fixpoint srun_from (t : sstate) (ops : list op) : list obs :=
  match ops with
  | [] => []
  | o :: ops' => let t' := sstep t o in sobs t' :: srun_from t' ops'
  end.

Definition srun (ops : list op) : list obs := srun_from sempty ops.

Fixpoint srun_state_from (t : sstate) (ops : list op) : sstate :=
  match ops with
  | [] => t
  | o :: ops' => srun_state_from (sstep t o) ops'
  end.

Definition srun_state (ops : list op) : sstate := srun_state_from sempty ops.

(* the Values passed to the creating calls, in call order *)
Definition created_by (o : op) : list Z :=
  match o with
  | LPushFront v | LPushBack v | LInsertBefore v _ | LInsertAfter v _ => [v]
  | _ => []
  end.
Definition created (ops : list op) : list Z := flat_map created_by ops.

(* ---- the representation invariant tying a pointer state to an ideal sequence ---- *)

Definition last_error (l : list nat) : option nat :=
  match l with [] => None | _ :: _ => Some (last l O) end.

Definition Rep (s : state) (l : list nat) : Prop :=
  let H := heap s in
  NoDup l /\
  front (lst s) = hd_error l /\
  back (lst s) = last_error l /\
  (* consecutive nodes point at each other *)
  (forall l1 a b l2, l = l1 ++ a :: b :: l2 -> next_of H a = Some b /\ prev_of H b = Some a) /\
  (* the first node has no Prev, the last no Next *)
  (forall a t, l = a :: t -> prev_of H a = None) /\
  (forall t a, l = t ++ [a] -> next_of H a = None) /\
  size (lst s) = Z.of_nat (length l) /\
  (* every handle of the sequence is an allocated node *)
  (forall a, In a l -> (a < length H)%nat).

(* what every ideal observation looks like, spelled out (used to read C06_refinement) *)
Definition obs_well_formed (ob : obs) : Prop :=
  o_panic ob = false /\
  NoDup (o_fwd ob) /\
  o_bwd ob = rev (o_fwd ob) /\
  o_len ob = Z.of_nat (length (o_fwd ob)) /\
  length (o_vals ob) = length (o_fwd ob) /\
  o_front_prev_nil ob = true /\ o_back_next_nil ob = true /\ o_removed_isolated ob = true.
