(* Correspondence evaluator for xlist: runs the model on a recorded operation list and compares with
   the observations the harness recorded on the real list after every operation.  Evaluated by
   vm_compute from generated files; no proofs, depends on Model and Spec only.

   Generated files open Z_scope (through Common.Base): handles must be written [3%nat], or built with
   the Z-taking helpers [zop_*] / [zobs] below. *)
From Juniper Require Import Common.Base XList.Model XList.Spec.

Fixpoint nats_eqb (a b : list nat) : bool :=
  match a, b with
  | [], [] => true
  | x :: a', y :: b' => Nat.eqb x y && nats_eqb a' b'
  | _, _ => false
  end.

Fixpoint zs_eqb (a b : list Z) : bool :=
  match a, b with
  | [], [] => true
  | x :: a', y :: b' => (x =? y) && zs_eqb a' b'
  | _, _ => false
  end.

Definition obs_eqb (a b : obs) : bool :=
  Bool.eqb (o_panic a) (o_panic b) &&
  nats_eqb (o_fwd a) (o_fwd b) &&
  nats_eqb (o_bwd a) (o_bwd b) &&
  (o_len a =? o_len b) &&
  zs_eqb (o_vals a) (o_vals b) &&
  Bool.eqb (o_front_prev_nil a) (o_front_prev_nil b) &&
  Bool.eqb (o_back_next_nil a) (o_back_next_nil b) &&
  Bool.eqb (o_removed_isolated a) (o_removed_isolated b).

Fixpoint obss_eqb (a b : list obs) : bool :=
  match a, b with
  | [], [] => true
  | x :: a', y :: b' => obs_eqb x y && obss_eqb a' b'
  | _, _ => false
  end.

(* a case = operations and the implementation's observation after each of them *)
Definition check_M (c : list op * list obs) : bool := obss_eqb (run (fst c)) (snd c).

(* layer S: on histories that respect the precondition the ideal sequence predicts the same trace *)
Definition check_S (c : list op * list obs) : bool :=
  if valid_ops (fst c) then obss_eqb (srun (fst c)) (snd c) else true.

(* helpers for generated files: handles given as Z literals *)
Definition zobs (panic : bool) (fwd bwd : list Z) (len : Z) (vals : list Z) (fp bn iso : bool) : obs :=
  mkObs panic (map Z.to_nat fwd) (map Z.to_nat bwd) len vals fp bn iso.
Definition zInsertBefore (v mark : Z) := LInsertBefore v (Z.to_nat mark).
Definition zInsertAfter (v mark : Z) := LInsertAfter v (Z.to_nat mark).
Definition zRemove (n : Z) := LRemove (Z.to_nat n).
Definition zMoveBefore (n mark : Z) := LMoveBefore (Z.to_nat n) (Z.to_nat mark).
Definition zMoveAfter (n mark : Z) := LMoveAfter (Z.to_nat n) (Z.to_nat mark).
Definition zMoveToFront (n : Z) := LMoveToFront (Z.to_nat n).
Definition zMoveToBack (n : Z) := LMoveToBack (Z.to_nat n).

(* A hand-computed trace (values are 10*handle + 10):
     PushBack 10        -> [0]
     PushFront 20       -> [1;0]
     InsertAfter 30 @1  -> [1;2;0]
     InsertBefore 40 @1 -> [3;1;2;0]
     MoveBefore 0 3     -> [0;3;1;2]
     MoveAfter 3 2      -> [0;1;2;3]
     MoveAfter 1 1      -> unchanged (node == mark)
     MoveToFront 2      -> [2;0;1;3]
     MoveToBack 2       -> [0;1;3;2]
     Remove 1           -> [0;3;2]
     Clear              -> []
     PushBack 50        -> [4]
     MoveToFront 4      -> [4]
     Remove 4           -> []
     PushFront 60       -> [5] *)
Definition hand_case : list op * list obs :=
    ([ LPushBack 10; LPushFront 20; zInsertAfter 30 1; zInsertBefore 40 1;
       zMoveBefore 0 3; zMoveAfter 3 2; zMoveAfter 1 1; zMoveToFront 2; zMoveToBack 2;
       zRemove 1; LClear; LPushBack 50; zMoveToFront 4; zRemove 4; LPushFront 60 ],
     [ zobs false [0] [0] 1 [10] true true true;
       zobs false [1;0] [0;1] 2 [20;10] true true true;
       zobs false [1;2;0] [0;2;1] 3 [20;30;10] true true true;
       zobs false [3;1;2;0] [0;2;1;3] 4 [40;20;30;10] true true true;
       zobs false [0;3;1;2] [2;1;3;0] 4 [10;40;20;30] true true true;
       zobs false [0;1;2;3] [3;2;1;0] 4 [10;20;30;40] true true true;
       zobs false [0;1;2;3] [3;2;1;0] 4 [10;20;30;40] true true true;
       zobs false [2;0;1;3] [3;1;0;2] 4 [30;10;20;40] true true true;
       zobs false [0;1;3;2] [2;3;1;0] 4 [10;20;40;30] true true true;
       zobs false [0;3;2] [2;3;0] 3 [10;40;30] true true true;
       zobs false [] [] 0 [] true true true;
       zobs false [4] [4] 1 [50] true true true;
       zobs false [4] [4] 1 [50] true true true;
       zobs false [] [] 0 [] true true true;
       zobs false [5] [5] 1 [60] true true true ]).

Example check_M_hand_trace : check_M hand_case = true.
Proof. vm_compute. reflexivity. Qed.

Example check_S_hand_trace : check_S hand_case = true.
Proof. vm_compute. reflexivity. Qed.

(* the evaluator does reject a wrong trace (a walk that is not the mirror image) *)
Example check_M_rejects :
  check_M ([ LPushBack 10; LPushFront 20 ],
           [ zobs false [0] [0] 1 [10] true true true;
             zobs false [1;0] [1;0] 2 [20;10] true true true ]) = false.
Proof. vm_compute. reflexivity. Qed.

(* a nil dereference is reported as a panic and ends the run: Remove of a node already removed *)
Example check_M_panic :
  check_M ([ LPushBack 10; LPushBack 11; zRemove 0; zRemove 0; LPushBack 12 ],
           [ zobs false [0] [0] 1 [10] true true true;
             zobs false [0;1] [1;0] 2 [10;11] true true true;
             zobs false [1] [1] 1 [11] true true true;
             zobs true [] [] 0 [] false false false ]) = true.
Proof. vm_compute. reflexivity. Qed.

(* the 8th field is computed after every operation over all handles handed out so far: a Clear that
   leaves the links of the dropped nodes in place (as xlist.go did before the repair) is recorded by the
   harness with [false] there, which the model of the repaired code does not reproduce *)
Example check_M_rejects_links_kept_by_clear :
  check_M ([ LPushBack 10; LPushBack 11; LClear ],
           [ zobs false [0] [0] 1 [10] true true true;
             zobs false [0;1] [1;0] 2 [10;11] true true true;
             zobs false [] [] 0 [] true true false ]) = false
  /\ obss_eqb (run_original [ LPushBack 10; LPushBack 11; LClear ])
              [ zobs false [0] [0] 1 [10] true true true;
                zobs false [0;1] [1;0] 2 [10;11] true true true;
                zobs false [] [] 0 [] true true false ] = true.
Proof. vm_compute. split; reflexivity. Qed.
