(* Proofs for C19, part SlicesC: the simple helpers of xslices (All, Any, Index*, LastIndex*,
   Count*, Fill, Clear, Clone, Equal*, Join, Map, Reduce, Repeat, Group), the Compact family
   and the Filter family (slices.CompactFunc / slices.DeleteFunc of Go 1.23).
   Stdlib only, no axioms. *)
From Coq Require Import Permutation.
From Juniper Require Import Common.Base Pure.Slices Pure.Spec.

(* ------------------------------------------------------------------ list helpers (nat) *)

Lemma sc_skipn_nth_cons : forall (l : list Z) n d,
    (n < length l)%nat -> skipn n l = nth n l d :: skipn (S n) l.
Proof.
  induction l as [|h t IH]; intros [|n] d Hn; simpl in *; try lia; auto.
  apply IH; lia.
Qed.

Lemma sc_firstn_S_snoc : forall (l : list Z) n d,
    (n < length l)%nat -> firstn (S n) l = firstn n l ++ [nth n l d].
Proof.
  induction l as [|h t IH]; intros [|n] d Hn; simpl in *; try lia; auto.
  f_equal. apply IH; lia.
Qed.

Lemma sc_firstn_upd_snoc : forall (l : list Z) i v,
    (i < length l)%nat -> firstn (S i) (upd l i v) = firstn i l ++ [v].
Proof.
  induction l as [|h t IH]; intros [|i] v Hi; simpl in *; try lia; auto.
  f_equal. apply IH; lia.
Qed.

Lemma sc_skipn_upd_lt : forall (l : list Z) i j v,
    (i < j)%nat -> skipn j (upd l i v) = skipn j l.
Proof.
  induction l as [|h t IH]; intros [|i] [|j] v Hij; simpl in *; try lia; auto.
  apply IH; lia.
Qed.

Lemma sc_nth_upd_other : forall (l : list Z) i j v d,
    i <> j -> nth j (upd l i v) d = nth j l d.
Proof.
  induction l as [|h t IH]; intros [|i] [|j] v d Hij; simpl in *; try congruence; auto.
Qed.

Lemma sc_skipn_all_nil : forall (l : list Z), skipn (length l) l = [].
Proof. induction l as [|h t IH]; simpl; auto. Qed.

Lemma sc_znth_nat : forall l n, znth l (Z.of_nat n) = nth n l 0.
Proof. intros l n; unfold znth; rewrite Nat2Z.id; reflexivity. Qed.

Lemma sc_zeros_0 : zeros 0 = [].
Proof. reflexivity. Qed.

Lemma sc_zeros_sub_self : forall z, zeros (z - z) = [].
Proof. intros z; rewrite Z.sub_diag; reflexivity. Qed.

(* ------------------------------------------------------------------ All / Any / Index *)

Theorem all_spec : forall f s, all f s = true <-> (forall x, In x s -> f x = true).
Proof.
  intros f s; induction s as [|a t IH]; simpl.
  - split; [intros _ x Hx; contradiction | reflexivity].
  - destruct (f a) eqn:Ea.
    + rewrite IH; split.
      * intros Ht x [Hx | Hx]; [subst x; exact Ea | apply Ht; exact Hx].
      * intros Hall x Hx; apply Hall; right; exact Hx.
    + split; [discriminate|].
      intros Hall; rewrite <- Ea; apply Hall; left; reflexivity.
Qed.

Example all_ex : all (fun x => 0 <? x) [1; 2; 3] = true /\ all (fun x => 0 <? x) [1; -2; 3] = false.
Proof. vm_compute; split; reflexivity. Qed.

(* the position found by IndexFunc splits the slice *)
Lemma index_from_split : forall f s i,
    (index_from f s i = -1 /\ forall x, In x s -> f x = false) \/
    (exists l1 x l2, s = l1 ++ x :: l2 /\ (forall y, In y l1 -> f y = false) /\ f x = true /\
                     index_from f s i = i + zlen l1).
Proof.
  intros f s; induction s as [|a t IH]; intros i; simpl.
  - left; split; [reflexivity | intros x Hx; contradiction].
  - destruct (f a) eqn:Ea.
    + right; exists [], a, t; simpl; repeat split; auto.
      * intros y Hy; contradiction.
      * unfold zlen; simpl; lia.
    + destruct (IH (i + 1)) as [[Hr Hall] | (l1 & x & l2 & Hs & Hl1 & Hx & Hr)].
      * left; split; [exact Hr|].
        intros x [Hx | Hx]; [subst x; exact Ea | apply Hall; exact Hx].
      * right; exists (a :: l1), x, l2; repeat split.
        -- simpl; rewrite Hs; reflexivity.
        -- intros y [Hy | Hy]; [subst y; exact Ea | apply Hl1; exact Hy].
        -- exact Hx.
        -- rewrite Hr, zlen_cons; lia.
Qed.

Lemma sc_znth_middle : forall l1 x l2, znth (l1 ++ x :: l2) (zlen l1) = x.
Proof.
  intros l1 x l2; unfold znth, zlen; rewrite Nat2Z.id; apply nth_middle.
Qed.

Lemma sc_znth_app1 : forall l1 l2 j, 0 <= j < zlen l1 -> znth (l1 ++ l2) j = znth l1 j.
Proof.
  intros l1 l2 j Hj; unfold znth, zlen in *; apply app_nth1; lia.
Qed.

Lemma sc_znth_In : forall l j, 0 <= j < zlen l -> In (znth l j) l.
Proof.
  intros l j Hj; unfold znth, zlen in *; apply nth_In; lia.
Qed.

Theorem index_func_spec : forall f s,
    let r := index_func f s in
    (r = -1 /\ forall x, In x s -> f x = false) \/
    (0 <= r < zlen s /\ f (znth s r) = true /\ forall j, 0 <= j < r -> f (znth s j) = false).
Proof.
  intros f s r; subst r; unfold index_func.
  destruct (index_from_split f s 0) as [[Hr Hall] | (l1 & x & l2 & Hs & Hl1 & Hx & Hr)].
  - left; split; assumption.
  - right; rewrite Hr; simpl (0 + _).
    pose proof (zlen_nonneg l1) as Hn.
    rewrite Hs; repeat split.
    + exact Hn.
    + rewrite zlen_app, zlen_cons; pose proof (zlen_nonneg l2); lia.
    + rewrite sc_znth_middle; exact Hx.
    + intros j Hj; rewrite sc_znth_app1 by exact Hj.
      apply Hl1, sc_znth_In; exact Hj.
Qed.

Example index_func_ex : index_func (fun x => x =? 7) [3; 7; 5; 7] = 1 /\ index_func (fun x => x =? 9) [3; 7] = -1.
Proof. vm_compute; split; reflexivity. Qed.

Theorem index_spec : forall s v,
    let r := index s v in
    (r = -1 /\ ~ In v s) \/ (0 <= r < zlen s /\ znth s r = v /\ forall j, 0 <= j < r -> znth s j <> v).
Proof.
  intros s v r; subst r; unfold index.
  destruct (index_func_spec (fun x => v =? x) s) as [[Hr Hall] | (Hr & Hx & Hlt)].
  - left; split; [exact Hr|].
    intros Hin; apply Hall in Hin; rewrite Z.eqb_refl in Hin; discriminate.
  - right; split; [exact Hr|]; split.
    + apply Z.eqb_eq in Hx; symmetry; exact Hx.
    + intros j Hj Heq; apply Hlt in Hj; apply Z.eqb_neq in Hj; congruence.
Qed.

Example index_ex : index [3; 7; 5; 7] 7 = 1 /\ index [3; 7] 4 = -1.
Proof. vm_compute; split; reflexivity. Qed.

Theorem any_spec : forall f s, any f s = true <-> (exists x, In x s /\ f x = true).
Proof.
  intros f s; unfold any.
  destruct (index_func_spec f s) as [[Hr Hall] | (Hr & Hx & _)].
  - rewrite Hr; split; [discriminate|].
    intros (x & Hin & Hfx); apply Hall in Hin; congruence.
  - split.
    + intros _; exists (znth s (index_func f s)); split; [apply sc_znth_In; exact Hr | exact Hx].
    + intros _; apply Z.geb_le; lia.
Qed.

Example any_ex : any (fun x => x <? 0) [1; -2; 3] = true /\ any (fun x => x <? 0) [1; 2] = false.
Proof. vm_compute; split; reflexivity. Qed.

(* ------------------------------------------------------------------ LastIndex *)

Lemma last_index_loop_spec : forall f s n,
    (last_index_loop f s n = -1 /\ forall m, (m < n)%nat -> f (nth m s 0) = false) \/
    (exists m, (m < n)%nat /\ last_index_loop f s n = Z.of_nat m /\ f (nth m s 0) = true /\
               forall j, (m < j < n)%nat -> f (nth j s 0) = false).
Proof.
  intros f s n; induction n as [|n IH]; simpl.
  - left; split; [reflexivity | intros m Hm; lia].
  - rewrite sc_znth_nat. destruct (f (nth n s 0)) eqn:En.
    + right; exists n; repeat split; auto; intros j Hj; lia.
    + destruct IH as [[Hr Hall] | (m & Hm & Hr & Hfm & Hgt)].
      * left; split; [exact Hr|].
        intros m Hm. destruct (Nat.eq_dec m n) as [->|Hne]; [exact En | apply Hall; lia].
      * right; exists m; repeat split; auto.
        intros j Hj. destruct (Nat.eq_dec j n) as [->|Hne]; [exact En | apply Hgt; lia].
Qed.

Theorem last_index_func_spec : forall f s,
    let r := last_index_func f s in
    (r = -1 /\ forall x, In x s -> f x = false) \/
    (0 <= r < zlen s /\ f (znth s r) = true /\ forall j, r < j < zlen s -> f (znth s j) = false).
Proof.
  intros f s r; subst r; unfold last_index_func.
  destruct (last_index_loop_spec f s (length s)) as [[Hr Hall] | (m & Hm & Hr & Hfm & Hgt)].
  - left; split; [exact Hr|].
    intros x Hx. destruct (In_nth s x 0 Hx) as (m & Hm & Hnth).
    rewrite <- Hnth; apply Hall; exact Hm.
  - right; rewrite Hr; unfold zlen; repeat split; try lia.
    + rewrite sc_znth_nat; exact Hfm.
    + intros j Hj. unfold znth. apply Hgt; lia.
Qed.

Example last_index_func_ex :
  last_index_func (fun x => x =? 7) [3; 7; 5; 7; 1] = 3 /\ last_index_func (fun x => x =? 9) [3; 7] = -1.
Proof. vm_compute; split; reflexivity. Qed.

Theorem last_index_spec : forall s v,
    let r := last_index s v in
    (r = -1 /\ ~ In v s) \/ (0 <= r < zlen s /\ znth s r = v /\ forall j, r < j < zlen s -> znth s j <> v).
Proof.
  intros s v r; subst r; unfold last_index.
  destruct (last_index_func_spec (fun y => y =? v) s) as [[Hr Hall] | (Hr & Hx & Hgt)].
  - left; split; [exact Hr|].
    intros Hin; apply Hall in Hin; rewrite Z.eqb_refl in Hin; discriminate.
  - right; split; [exact Hr|]; split.
    + apply Z.eqb_eq in Hx; exact Hx.
    + intros j Hj Heq; apply Hgt in Hj; apply Z.eqb_neq in Hj; congruence.
Qed.

Example last_index_ex : last_index [3; 7; 5; 7; 1] 7 = 3 /\ last_index [3; 7] 4 = -1.
Proof. vm_compute; split; reflexivity. Qed.

(* ------------------------------------------------------------------ Count / Fill / Clear / Clone / Equal *)

Lemma count_loop_spec : forall f s n, count_loop f s n = n + zlen (filter f s).
Proof.
  intros f s; induction s as [|a t IH]; intros n; simpl.
  - unfold zlen; simpl; lia.
  - rewrite IH. destruct (f a) eqn:Ea; [rewrite zlen_cons|]; lia.
Qed.

Theorem count_func_spec : forall f s, count_func f s = zlen (filter f s).
Proof. intros f s; unfold count_func; rewrite count_loop_spec; lia. Qed.

Example count_func_ex : count_func (fun x => 2 <? x) [1; 3; 2; 5] = 2.
Proof. vm_compute; reflexivity. Qed.

Theorem count_spec : forall s x, count s x = Z.of_nat (count_occ Z.eq_dec s x).
Proof.
  intros s x; unfold count; rewrite count_func_spec; unfold zlen; f_equal.
  induction s as [|a t IH]; simpl; [reflexivity|].
  destruct (Z.eq_dec a x) as [Heq|Hne].
  - subst a; rewrite Z.eqb_refl; simpl; f_equal; exact IH.
  - destruct (x =? a) eqn:E; [apply Z.eqb_eq in E; congruence | exact IH].
Qed.

Example count_ex : count [1; 3; 1; 5; 1] 1 = 3.
Proof. vm_compute; reflexivity. Qed.

Theorem fill_spec : forall s x, fill s x = zrepeat x (zlen s).
Proof.
  intros s x; unfold fill, zrepeat, zlen; rewrite Nat2Z.id.
  induction s as [|a t IH]; simpl; [reflexivity | f_equal; exact IH].
Qed.

Example fill_ex : fill [1; 2; 3] 9 = [9; 9; 9].
Proof. vm_compute; reflexivity. Qed.

Theorem clear_spec : forall s, clear s = zeros (zlen s).
Proof. intros s; unfold clear, zeros; apply fill_spec. Qed.

Example clear_ex : clear [1; 2; 3] = [0; 0; 0].
Proof. vm_compute; reflexivity. Qed.

Theorem clone_spec : forall s, clone s = s.
Proof. reflexivity. Qed.

Example clone_ex : clone [1; 2; 3] = [1; 2; 3].
Proof. vm_compute; reflexivity. Qed.

Lemma equal_loop_spec : forall eq a b,
    length a = length b ->
    (equal_loop eq a b = true <-> Forall2 (fun x y => eq x y = true) a b).
Proof.
  intros eq a; induction a as [|x a' IH]; intros [|y b'] Hlen; simpl in *; try discriminate.
  - split; [intros _; constructor | reflexivity].
  - destruct (eq x y) eqn:Exy.
    + rewrite IH by lia. split.
      * intros HF; constructor; assumption.
      * intros HF; inversion HF; subst; assumption.
    + split; [discriminate|].
      intros HF; inversion HF; subst; congruence.
Qed.

Lemma sc_Forall2_length : forall (R : Z -> Z -> Prop) a b, Forall2 R a b -> length a = length b.
Proof. intros R a b H; induction H as [|x y l l' Hxy Hrest IH]; simpl; [reflexivity | f_equal; exact IH]. Qed.

Theorem equal_func_spec : forall eq a b, equal_func eq a b = true <-> Forall2 (fun x y => eq x y = true) a b.
Proof.
  intros eq a b; unfold equal_func.
  destruct (zlen a =? zlen b) eqn:El; simpl.
  - apply Z.eqb_eq in El; unfold zlen in El. apply equal_loop_spec; lia.
  - apply Z.eqb_neq in El; split; [discriminate|].
    intros HF; apply sc_Forall2_length in HF; unfold zlen in El; lia.
Qed.

Example equal_func_ex :
  equal_func (fun x y => x <=? y) [1; 2] [1; 3] = true /\ equal_func (fun x y => x <=? y) [1; 2] [1; 1] = false /\
  equal_func (fun x y => x <=? y) [1; 2] [1; 2; 3] = false.
Proof. vm_compute; repeat split; reflexivity. Qed.

Lemma sc_Forall2_eqb : forall a b, Forall2 (fun x y => (x =? y) = true) a b <-> a = b.
Proof.
  intros a; induction a as [|x a' IH]; intros b; split; intros H.
  - inversion H; reflexivity.
  - subst b; constructor.
  - inversion H as [|x' y l l' Hxy Hrest]; subst. apply Z.eqb_eq in Hxy; subst y.
    f_equal; apply IH; exact Hrest.
  - subst b; constructor; [apply Z.eqb_refl | apply IH; reflexivity].
Qed.

Theorem equal_spec : forall a b, equal a b = true <-> a = b.
Proof. intros a b; unfold equal; rewrite equal_func_spec; apply sc_Forall2_eqb. Qed.

Example equal_ex : equal [1; 2; 3] [1; 2; 3] = true /\ equal [1; 2; 3] [1; 2; 4] = false /\ equal [1] [1; 2] = false.
Proof. vm_compute; repeat split; reflexivity. Qed.

(* ------------------------------------------------------------------ Join / Map / Reduce / Repeat *)

Theorem join_spec : forall ins, join ins = concat ins.
Proof. intros ins; induction ins as [|l r IH]; simpl; [reflexivity | rewrite IH; reflexivity]. Qed.

Example join_ex : join [[1; 2]; []; [3]] = [1; 2; 3].
Proof. vm_compute; reflexivity. Qed.

Theorem map_spec : forall f s, map_ f s = map f s.
Proof. reflexivity. Qed.

Example map_ex : map_ (fun x => x * 2) [1; 2; 3] = [2; 4; 6].
Proof. vm_compute; reflexivity. Qed.

Theorem reduce_spec : forall f s init, reduce f s init = fold_left f s init.
Proof. intros f s; induction s as [|a t IH]; intros init; simpl; [reflexivity | apply IH]. Qed.

Example reduce_ex : reduce Z.sub [1; 2; 3] 10 = 4.
Proof. vm_compute; reflexivity. Qed.

Theorem repeat_spec : forall x n,
    (n < 0 -> repeat_ x n = Panic PNeg) /\
    (0 <= n -> repeat_ x n = Ok (repeat x (Z.to_nat n)) /\ zlen (repeat x (Z.to_nat n)) = n).
Proof.
  intros x n; unfold repeat_; split; intros Hn.
  - apply Z.ltb_lt in Hn; rewrite Hn; reflexivity.
  - destruct (n <? 0) eqn:E; [apply Z.ltb_lt in E; lia|].
    split; [reflexivity|]. unfold zlen; rewrite repeat_length; lia.
Qed.

Example repeat_ex : repeat_ 7 3 = Ok [7; 7; 7] /\ repeat_ 7 (-1) = Panic PNeg.
Proof. vm_compute; split; reflexivity. Qed.

(* ------------------------------------------------------------------ shared tail: clear(s[k:]); return s[:k] *)

Lemma sc_finish : forall (arr : list Z) (k n : nat) (res : list Z),
    length arr = n -> (k <= n)%nat -> firstn k arr = res ->
    let after := zfirstn (Z.of_nat k) arr ++ clear (zskipn (Z.of_nat k) arr) in
    (zfirstn (Z.of_nat k) after, after) = (res, res ++ zeros (Z.of_nat n - zlen res)).
Proof.
  intros arr k n res Hlen Hk Hres after; subst after.
  unfold zfirstn, zskipn; rewrite Nat2Z.id, Hres.
  assert (Hlr : length res = k) by (subst res; rewrite firstn_length; lia).
  assert (Hz : clear (skipn k arr) = zeros (Z.of_nat n - zlen res)).
  { rewrite clear_spec; unfold zeros, zrepeat, zlen; f_equal.
    rewrite skipn_length, Hlr; lia. }
  rewrite Hz; f_equal.
  rewrite <- Hlr at 1. rewrite firstn_app, firstn_all, Nat.sub_diag; simpl.
  apply app_nil_r.
Qed.

(* ------------------------------------------------------------------ Filter (slices.DeleteFunc) *)

(* the write index i never overtakes the read index j: what is left to read is intact *)
Lemma delete_loop_spec : forall del fuel (j i : nat) (arr : list Z) (jz iz : Z),
    (i <= j)%nat -> (j + fuel = length arr)%nat -> jz = Z.of_nat j -> iz = Z.of_nat i ->
    exists arr' i',
      delete_loop del fuel jz arr iz = (arr', Z.of_nat i') /\
      length arr' = length arr /\ (i' <= length arr)%nat /\
      firstn i' arr' = firstn i arr ++ filter (fun v => negb (del v)) (skipn j arr).
Proof.
  intros del fuel; induction fuel as [|fu IH]; intros j i arr jz iz Hij Hlen Hjz Hiz; simpl.
  - exists arr, i; subst iz; repeat split; try lia.
    replace j with (length arr) by lia.
    rewrite sc_skipn_all_nil; simpl; rewrite app_nil_r; reflexivity.
  - subst jz iz. rewrite sc_znth_nat.
    assert (Hj : (j < length arr)%nat) by lia.
    rewrite (sc_skipn_nth_cons arr j 0 Hj); simpl filter.
    destruct (del (nth j arr 0)) eqn:Ed; simpl negb; cbv iota.
    + destruct (IH (S j) i arr (Z.of_nat j + 1) (Z.of_nat i)) as (arr' & i' & Hrun & Hl & Hi' & Hf);
        try lia.
      exists arr', i'; repeat split; assumption.
    + unfold zupd; rewrite Nat2Z.id.
      destruct (IH (S j) (S i) (upd arr i (nth j arr 0)) (Z.of_nat j + 1) (Z.of_nat i + 1))
        as (arr' & i' & Hrun & Hl & Hi' & Hf); try lia.
      { rewrite upd_length; lia. }
      rewrite upd_length in Hl, Hi'.
      exists arr', i'; repeat split; try assumption.
      rewrite Hf, sc_firstn_upd_snoc by lia.
      rewrite sc_skipn_upd_lt by lia.
      rewrite <- app_assoc; reflexivity.
Qed.

Lemma sc_filter_all : forall (f : Z -> bool) l, (forall x, In x l -> f x = true) -> filter f l = l.
Proof.
  intros f l; induction l as [|a t IH]; intros Hall; simpl; [reflexivity|].
  rewrite (Hall a) by (left; reflexivity). f_equal; apply IH.
  intros x Hx; apply Hall; right; exact Hx.
Qed.

Theorem filter_in_place_spec : forall keep s,
    filter_in_place keep s = (filter keep s, filter keep s ++ zeros (zlen s - zlen (filter keep s))).
Proof.
  intros keep s; unfold filter_in_place, delete_func, index_func.
  destruct (index_from_split (fun t => negb (keep t)) s 0)
    as [[Hr Hall] | (l1 & x & l2 & Hs & Hl1 & Hx & Hr)].
  - rewrite Hr; simpl.
    assert (Hf : filter keep s = s).
    { apply sc_filter_all; intros y Hy; apply Hall in Hy; destruct (keep y); [reflexivity | discriminate]. }
    rewrite Hf, sc_zeros_sub_self, app_nil_r; reflexivity.
  - rewrite Hr; simpl (0 + _).
    pose proof (zlen_nonneg l1) as Hn.
    destruct (zlen l1 =? -1) eqn:E; [apply Z.eqb_eq in E; lia|].
    assert (Hlen : length s = (length l1 + S (length l2))%nat)
      by (rewrite Hs, app_length; reflexivity).
    destruct (delete_loop_spec (fun t => negb (keep t)) (Z.to_nat (zlen s - (zlen l1 + 1)))
                (S (length l1)) (length l1) s (zlen l1 + 1) (zlen l1))
      as (arr' & i' & Hrun & Hl & Hi' & Hf); try (unfold zlen; lia).
    rewrite Hrun.
    unfold zlen at 1. apply sc_finish; [exact Hl | exact Hi' |].
    rewrite Hf.
    assert (Hfk : filter keep s = l1 ++ filter keep l2).
    { rewrite Hs, filter_app; simpl.
      destruct (keep x); [discriminate|].
      f_equal. apply sc_filter_all.
      intros y Hy; apply Hl1 in Hy; destruct (keep y); [reflexivity | discriminate]. }
    rewrite Hfk, Hs.
    rewrite firstn_app, firstn_all, Nat.sub_diag; simpl firstn; rewrite app_nil_r.
    f_equal.
    replace (S (length l1)) with (length (l1 ++ [x])) by (rewrite app_length; simpl; lia).
    replace (l1 ++ x :: l2) with ((l1 ++ [x]) ++ l2) by (rewrite <- app_assoc; reflexivity).
    rewrite skipn_app, skipn_all, Nat.sub_diag; simpl.
    apply filter_ext; intros a; apply negb_involutive.
Qed.

Example filter_in_place_ex :
  filter_in_place (fun x => 2 <? x) [5; 1; 3; 2; 4] = ([5; 3; 4], [5; 3; 4; 0; 0]).
Proof. vm_compute; reflexivity. Qed.

Theorem filter_spec : forall keep s, filter_ keep s = filter keep s.
Proof. intros keep s; unfold filter_; rewrite clone_spec, filter_in_place_spec; reflexivity. Qed.

Example filter_ex : filter_ (fun x => 2 <? x) [5; 1; 3; 2; 4] = [5; 3; 4].
Proof. vm_compute; reflexivity. Qed.

(* ------------------------------------------------------------------ Compact (slices.CompactFunc) *)

(* the read index r = base + k2 stays strictly ahead of the write index k *)
Lemma compact_inner_spec : forall eq fuel (r k : nat) (arr : list Z) (k2 base kz : Z),
    (k < r)%nat -> (r + fuel = length arr)%nat -> base + k2 = Z.of_nat r -> kz = Z.of_nat k ->
    exists arr' k',
      compact_inner eq fuel k2 base arr kz = (arr', Z.of_nat k') /\
      length arr' = length arr /\ (k' <= length arr)%nat /\
      firstn k' arr' = firstn k arr ++ compact_from eq (nth (r - 1) arr 0) (skipn r arr).
Proof.
  intros eq fuel; induction fuel as [|fu IH]; intros r k arr k2 base kz Hkr Hlen Hr Hkz; simpl.
  - exists arr, k; subst kz; repeat split; try lia.
    replace r with (length arr) by lia.
    rewrite sc_skipn_all_nil; simpl; rewrite app_nil_r; reflexivity.
  - subst kz. rewrite Hr.
    replace (Z.of_nat r - 1) with (Z.of_nat (r - 1)) by lia.
    rewrite !sc_znth_nat.
    assert (Hrl : (r < length arr)%nat) by lia.
    rewrite (sc_skipn_nth_cons arr r 0 Hrl); simpl compact_from.
    destruct (eq (nth r arr 0) (nth (r - 1) arr 0)) eqn:Ee; simpl negb; cbv iota.
    + destruct (IH (S r) k arr (k2 + 1) base (Z.of_nat k)) as (arr' & k' & Hrun & Hl & Hk' & Hf);
        try lia.
      exists arr', k'; repeat split; try assumption.
      rewrite Hf; replace (S r - 1)%nat with r by lia; reflexivity.
    + unfold zupd; rewrite Nat2Z.id.
      destruct (IH (S r) (S k) (upd arr k (nth r arr 0)) (k2 + 1) base (Z.of_nat k + 1))
        as (arr' & k' & Hrun & Hl & Hk' & Hf); try lia.
      { rewrite upd_length; lia. }
      rewrite upd_length in Hl, Hk'.
      exists arr', k'; repeat split; try assumption.
      rewrite Hf, sc_firstn_upd_snoc by lia.
      rewrite sc_skipn_upd_lt by lia.
      replace (S r - 1)%nat with r by lia.
      rewrite sc_nth_upd_other by lia.
      rewrite <- app_assoc; reflexivity.
Qed.

(* as long as no item among the first k is eq to its predecessor, compact_of keeps them all *)
Lemma compact_of_prefix : forall eq (s : list Z) (k : nat),
    (1 <= k <= length s)%nat ->
    (forall m, (1 <= m < k)%nat -> eq (nth m s 0) (nth (m - 1) s 0) = false) ->
    compact_of eq s = firstn k s ++ compact_from eq (nth (k - 1) s 0) (skipn k s).
Proof.
  intros eq s k; induction k as [|k IH]; intros Hk Hno; [lia|].
  destruct (Nat.eq_dec k 0) as [Hk0 | Hk0].
  - subst k. destruct s as [|h t]; simpl in *; [lia | reflexivity].
  - replace (S k - 1)%nat with k by lia.
    rewrite IH; [| lia | intros m Hm; apply Hno; lia].
    assert (Hkl : (k < length s)%nat) by lia.
    rewrite (sc_skipn_nth_cons s k 0 Hkl).
    change (compact_from eq (nth (k - 1) s 0) (nth k s 0 :: skipn (S k) s))
      with (if eq (nth k s 0) (nth (k - 1) s 0) then compact_from eq (nth k s 0) (skipn (S k) s)
            else nth k s 0 :: compact_from eq (nth k s 0) (skipn (S k) s)).
    rewrite (Hno k) by lia.
    rewrite (sc_firstn_S_snoc s k 0 Hkl), <- app_assoc; reflexivity.
Qed.

Lemma compact_outer_spec : forall eq fuel (k : nat) (s : list Z),
    (1 <= k)%nat -> (k + fuel = length s)%nat ->
    (forall m, (1 <= m < k)%nat -> eq (nth m s 0) (nth (m - 1) s 0) = false) ->
    compact_outer eq fuel (Z.of_nat k) s =
    (compact_of eq s, compact_of eq s ++ zeros (zlen s - zlen (compact_of eq s))).
Proof.
  intros eq fuel; induction fuel as [|fu IH]; intros k s Hk Hlen Hno; simpl.
  - assert (Hc : compact_of eq s = s).
    { rewrite (compact_of_prefix eq s k) by (try lia; exact Hno).
      replace k with (length s) by lia.
      rewrite sc_skipn_all_nil, firstn_all; simpl; apply app_nil_r. }
    rewrite Hc, sc_zeros_sub_self, app_nil_r; reflexivity.
  - replace (Z.of_nat k - 1) with (Z.of_nat (k - 1)) by lia.
    rewrite !sc_znth_nat.
    assert (Hkl : (k < length s)%nat) by lia.
    destruct (eq (nth k s 0) (nth (k - 1) s 0)) eqn:Ee.
    + destruct (compact_inner_spec eq (Z.to_nat (zlen s - Z.of_nat k - 1)) (S k) k s 1 (Z.of_nat k) (Z.of_nat k))
        as (arr' & k' & Hrun & Hl & Hk' & Hf); try (unfold zlen; lia).
      rewrite Hrun.
      unfold zlen at 1. apply sc_finish; [exact Hl | exact Hk' |].
      replace (S k - 1)%nat with k in Hf by lia.
      rewrite Hf, (compact_of_prefix eq s k) by (try lia; exact Hno).
      rewrite (sc_skipn_nth_cons s k 0 Hkl).
      change (compact_from eq (nth (k - 1) s 0) (nth k s 0 :: skipn (S k) s))
        with (if eq (nth k s 0) (nth (k - 1) s 0) then compact_from eq (nth k s 0) (skipn (S k) s)
              else nth k s 0 :: compact_from eq (nth k s 0) (skipn (S k) s)).
      rewrite Ee; reflexivity.
    + replace (Z.of_nat k + 1) with (Z.of_nat (S k)) by lia.
      apply IH; try lia.
      intros m Hm. destruct (Nat.eq_dec m k) as [->|Hne]; [exact Ee | apply Hno; lia].
Qed.

Theorem compact_in_place_func_spec : forall eq s,
    compact_in_place_func eq s = (compact_of eq s, compact_of eq s ++ zeros (zlen s - zlen (compact_of eq s))).
Proof.
  intros eq s; unfold compact_in_place_func.
  destruct (zlen s <? 2) eqn:E.
  - apply Z.ltb_lt in E.
    destruct s as [|x [|y t]]; [reflexivity | reflexivity |].
    rewrite !zlen_cons in E; pose proof (zlen_nonneg t); lia.
  - apply Z.ltb_ge in E; unfold zlen in E.
    apply (compact_outer_spec eq (length s - 1) 1 s); [lia | lia | intros m Hm; lia].
Qed.

Example compact_in_place_func_ex :
  compact_in_place_func (fun a b => a / 10 =? b / 10) [11; 12; 25; 27; 13; 14; 31] =
  ([11; 25; 13; 31], [11; 25; 13; 31; 0; 0; 0]).
Proof. vm_compute; reflexivity. Qed.

Theorem compact_func_spec : forall eq s, compact_func eq s = compact_of eq s.
Proof. intros eq s; unfold compact_func; rewrite clone_spec, compact_in_place_func_spec; reflexivity. Qed.

Example compact_func_ex :
  compact_func (fun a b => a / 10 =? b / 10) [11; 12; 25; 27; 13; 14; 31] = [11; 25; 13; 31].
Proof. vm_compute; reflexivity. Qed.

Theorem compact_in_place_spec : forall s,
    compact_in_place s = (compact_of Z.eqb s, compact_of Z.eqb s ++ zeros (zlen s - zlen (compact_of Z.eqb s))).
Proof. intros s; unfold compact_in_place; apply compact_in_place_func_spec. Qed.

Example compact_in_place_ex :
  compact_in_place [1; 1; 2; 3; 3; 3; 1; 4; 4] = ([1; 2; 3; 1; 4], [1; 2; 3; 1; 4; 0; 0; 0; 0]).
Proof. vm_compute; reflexivity. Qed.

Theorem compact_spec : forall s, compact s = compact_of Z.eqb s.
Proof. intros s; unfold compact; rewrite clone_spec, compact_in_place_spec; reflexivity. Qed.

Example compact_ex : compact [1; 1; 2; 3; 3; 3; 1; 4; 4] = [1; 2; 3; 1; 4].
Proof. vm_compute; reflexivity. Qed.

Lemma compact_from_noadj : forall s p l1 a b l2,
    p :: compact_from Z.eqb p s = l1 ++ a :: b :: l2 -> a <> b.
Proof.
  intros s; induction s as [|x t IH]; intros p l1 a b l2 H; simpl in H.
  - destruct l1 as [|c [|d l1']]; simpl in H; discriminate.
  - destruct (x =? p) eqn:E.
    + apply Z.eqb_eq in E; subst x. apply (IH p l1 a b l2); exact H.
    + apply Z.eqb_neq in E.
      destruct l1 as [|c l1']; simpl in H.
      * injection H as Hp Hx _. subst a b. congruence.
      * injection H as _ Hrest. apply (IH x l1' a b l2); exact Hrest.
Qed.

Lemma compact_from_In : forall s p x, In x (p :: compact_from Z.eqb p s) <-> In x (p :: s).
Proof.
  intros s; induction s as [|y t IH]; intros p x; [reflexivity|].
  simpl compact_from. destruct (y =? p) eqn:E.
  - apply Z.eqb_eq in E; subst y.
    rewrite IH; simpl; tauto.
  - specialize (IH y x). simpl in *; tauto.
Qed.

Theorem compact_of_eqb_props : forall s,
    (forall l1 a b l2, compact_of Z.eqb s = l1 ++ a :: b :: l2 -> a <> b) /\
    (forall x, In x (compact_of Z.eqb s) <-> In x s) /\
    hd_error (compact_of Z.eqb s) = hd_error s.
Proof.
  intros s; destruct s as [|h t]; simpl.
  - repeat split; try tauto.
    intros l1 a b l2 H; destruct l1; discriminate.
  - repeat split.
    + intros l1 a b l2 H; apply (compact_from_noadj t h l1 a b l2); exact H.
    + apply (compact_from_In t h x).
    + apply (compact_from_In t h x).
Qed.

Example compact_of_ex : compact_of Z.eqb [1; 1; 2; 3; 3; 3; 1; 4; 4] = [1; 2; 3; 1; 4].
Proof. vm_compute; reflexivity. Qed.

(* ------------------------------------------------------------------ Group *)

Lemma nub_In : forall s x, In x (nub s) <-> In x s.
Proof.
  intros s; induction s as [|a t IH]; intros x; simpl; [reflexivity|].
  rewrite filter_In, IH. split.
  - intros [H | [H _]]; [left | right]; exact H.
  - intros [H | H]; [left; exact H|].
    destruct (Z.eq_dec a x) as [Heq | Hne]; [left; exact Heq|].
    right; split; [exact H|]. apply negb_true_iff, Z.eqb_neq; congruence.
Qed.

Lemma sc_NoDup_filter : forall (f : Z -> bool) l, NoDup l -> NoDup (filter f l).
Proof.
  intros f l H; induction H as [|a l Hnin Hnd IH]; simpl; [constructor|].
  destruct (f a); [|exact IH].
  constructor; [|exact IH]. intros Hin; apply filter_In in Hin; tauto.
Qed.

Lemma nub_NoDup : forall s, NoDup (nub s).
Proof.
  intros s; induction s as [|a t IH]; simpl; constructor.
  - intros Hin; apply filter_In in Hin; destruct Hin as [_ Hne].
    rewrite Z.eqb_refl in Hne; discriminate.
  - apply sc_NoDup_filter; exact IH.
Qed.

Lemma nub_snoc_absent : forall s k, ~ In k s -> nub (s ++ [k]) = nub s ++ [k].
Proof.
  intros s; induction s as [|a t IH]; intros k Hnin; [reflexivity|].
  change (nub ((a :: t) ++ [k])) with (a :: filter (fun y => negb (y =? a)) (nub (t ++ [k]))).
  change (nub (a :: t)) with (a :: filter (fun y => negb (y =? a)) (nub t)).
  rewrite IH by (intros Hin; apply Hnin; right; exact Hin).
  rewrite filter_app.
  assert (E : (k =? a) = false) by (apply Z.eqb_neq; intros Heq; apply Hnin; left; congruence).
  simpl filter at 2. rewrite E; reflexivity.
Qed.

Lemma nub_snoc_present : forall s k, In k s -> nub (s ++ [k]) = nub s.
Proof.
  intros s; induction s as [|a t IH]; intros k Hin; [contradiction|].
  change (nub ((a :: t) ++ [k])) with (a :: filter (fun y => negb (y =? a)) (nub (t ++ [k]))).
  change (nub (a :: t)) with (a :: filter (fun y => negb (y =? a)) (nub t)).
  destruct (in_dec Z.eq_dec k t) as [Hint | Hnint].
  - rewrite IH by exact Hint; reflexivity.
  - destruct Hin as [Heq | Hint]; [subst k | contradiction].
    rewrite nub_snoc_absent by exact Hnint.
    rewrite filter_app. simpl filter at 2. rewrite Z.eqb_refl; simpl; rewrite app_nil_r; reflexivity.
Qed.

(* the table the loop maintains: one entry (k, F k) per key of L *)
Lemma group_add_present : forall (F F' : Z -> list Z) k0 x L,
    NoDup L -> In k0 L ->
    (forall k, k <> k0 -> F' k = F k) -> F' k0 = F k0 ++ [x] ->
    group_add k0 x (map (fun k => (k, F k)) L) = map (fun k => (k, F' k)) L.
Proof.
  intros F F' k0 x L Hnd; induction Hnd as [|a L Hnin Hnd IH]; intros Hin Hother Hk0; simpl.
  - contradiction.
  - destruct (k0 =? a) eqn:E.
    + apply Z.eqb_eq in E; subst a. rewrite Hk0; f_equal.
      apply map_ext_in; intros k Hk. rewrite Hother; [reflexivity|].
      intros Heq; subst k; contradiction.
    + apply Z.eqb_neq in E. rewrite Hother by congruence. f_equal.
      apply IH; try assumption.
      destruct Hin as [Heq | Hin]; [congruence | exact Hin].
Qed.

Lemma group_add_absent : forall (F F' : Z -> list Z) k0 x L,
    ~ In k0 L ->
    (forall k, k <> k0 -> F' k = F k) -> F' k0 = [x] ->
    group_add k0 x (map (fun k => (k, F k)) L) = map (fun k => (k, F' k)) (L ++ [k0]).
Proof.
  intros F F' k0 x L; induction L as [|a L IH]; intros Hnin Hother Hk0; simpl.
  - rewrite Hk0; reflexivity.
  - destruct (k0 =? a) eqn:E.
    + apply Z.eqb_eq in E; subst a; exfalso; apply Hnin; left; reflexivity.
    + apply Z.eqb_neq in E. rewrite Hother by congruence. f_equal.
      apply IH; try assumption.
      intros Hin; apply Hnin; right; exact Hin.
Qed.

Definition group_table (f : Z -> Z) (p : list Z) : list (Z * list Z) :=
  map (fun k => (k, filter (fun x => f x =? k) p)) (nub (map f p)).

Lemma group_add_table : forall f p x,
    group_add (f x) x (group_table f p) = group_table f (p ++ [x]).
Proof.
  intros f p x; unfold group_table.
  rewrite map_app; change (map f [x]) with [f x].
  assert (Hother : forall k, k <> f x ->
             filter (fun y => f y =? k) (p ++ [x]) = filter (fun y => f y =? k) p).
  { intros k Hk; rewrite filter_app; simpl.
    destruct (f x =? k) eqn:E; [apply Z.eqb_eq in E; congruence | apply app_nil_r]. }
  assert (Hsame : filter (fun y => f y =? f x) (p ++ [x]) = filter (fun y => f y =? f x) p ++ [x]).
  { rewrite filter_app; simpl; rewrite Z.eqb_refl; reflexivity. }
  destruct (in_dec Z.eq_dec (f x) (map f p)) as [Hin | Hnin].
  - rewrite nub_snoc_present by exact Hin.
    apply group_add_present.
    + apply nub_NoDup.
    + apply nub_In; exact Hin.
    + exact Hother.
    + exact Hsame.
  - rewrite nub_snoc_absent by exact Hnin.
    apply group_add_absent.
    + rewrite nub_In; exact Hnin.
    + exact Hother.
    + rewrite Hsame.
      assert (He : filter (fun y => f y =? f x) p = []).
      { destruct (filter (fun y => f y =? f x) p) as [|y l] eqn:Ef; [reflexivity|].
        exfalso; apply Hnin.
        assert (Hy : In y (filter (fun y => f y =? f x) p)) by (rewrite Ef; left; reflexivity).
        apply filter_In in Hy; destruct Hy as [Hy Hfy]. apply Z.eqb_eq in Hfy.
        rewrite <- Hfy; apply in_map; exact Hy. }
      rewrite He; reflexivity.
Qed.

Lemma group_loop_table : forall f s p,
    group_loop f s (group_table f p) = group_table f (p ++ s).
Proof.
  intros f s; induction s as [|x t IH]; intros p; simpl.
  - rewrite app_nil_r; reflexivity.
  - rewrite group_add_table, IH, <- app_assoc; reflexivity.
Qed.

Lemma group_eq_table : forall f s, group f s = group_table f s.
Proof. intros f s; unfold group; apply (group_loop_table f s []). Qed.

Theorem group_spec : forall f s,
    map fst (group f s) = nub (map f s) /\
    (forall k l, In (k, l) (group f s) -> l = filter (fun x => f x =? k) s /\ l <> []).
Proof.
  intros f s; rewrite group_eq_table; unfold group_table; split.
  - rewrite map_map; simpl; apply map_id.
  - intros k l Hin. apply in_map_iff in Hin; destruct Hin as (k' & Heq & Hk').
    injection Heq as Hk Hl; subst k'. split; [symmetry; exact Hl|].
    apply nub_In, in_map_iff in Hk'; destruct Hk' as (x & Hfx & Hx).
    assert (Hxl : In x l).
    { rewrite <- Hl; apply filter_In; split; [exact Hx | apply Z.eqb_eq; exact Hfx]. }
    intros Hnil; rewrite Hnil in Hxl; contradiction.
Qed.

Example group_ex :
  group (fun x => x mod 3) [4; 2; 7; 9; 5; 1] = [(1, [4; 7; 1]); (2, [2; 5]); (0, [9])].
Proof. vm_compute; reflexivity. Qed.
