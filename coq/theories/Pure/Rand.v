(* Layer M for package xmath/xrand.  The pseudo-random source and the floating-point
   computation of Algorithm L in sampler.Next (math.Log / math.Exp / math.Floor of r.Float64())
   are replaced by an ORACLE: the t-th call of Next past the reservoir phase either reports
   that the computed skip is infinite, NaN or so large that the running index would leave the int
   range ([DStop]: Next returns (math.MaxInt, 0) and draws nothing else) or delivers
   the pair (skip, replace) = (int(math.Floor(...)), r.Intn(k)) ([DSkip]).  r.Shuffle(n, swap)
   is replaced by the sequence of (i, j) pairs it passes to swap.  Every theorem quantifies
   over ALL oracles, so it holds for whatever the real source and libm produce, as long as
   skip >= 0 (the quotient of two non-positive logarithms), 0 <= replace < k (contract of
   Intn) and the swap indices are in range (contract of rand.Shuffle).

   NOT modelled, NOT proved: the probability distribution.  "Every subset is equally likely"
   is a statement about continuous random variates pushed through math.Log/Exp in float64; it
   is outside this development (see Properties/C19.v; the check reports a chi-square table of
   observed subset frequencies as supporting data only).
   No proofs in this file. *)
From Juniper Require Import Common.Base Pure.Slices.

Inductive draw := DStop | DSkip (skip repl : Z).
Definition oracle := nat -> draw.

Definition max_int : Z := 2 ^ 63 - 1.

(* sampler: fields i, first, k; [s_t] counts the oracle draws consumed so far *)
Record sampler := mkSampler { s_i : Z; s_first : bool; s_k : Z; s_t : nat }.

Definition new_sampler (k : Z) : sampler := mkSampler 0 true k O.

(* sampler.Next: returns (next, replace) *)
Definition next (o : oracle) (s : sampler) : result (Z * Z * sampler) :=
  if s_i s <? s_k s then
    Ok (s_i s, s_i s, mkSampler (s_i s + 1) (s_first s) (s_k s) (s_t s))
  else
    let '(i, first) := if s_first s && (s_i s =? s_k s) then (s_i s - 1, false)
                       else (s_i s, s_first s) in
    match o (s_t s) with
    | DStop => Ok (max_int, 0, mkSampler i first (s_k s) (S (s_t s)))
    | DSkip skip repl =>
        if s_k s <=? 0 then Panic POther                       (* r.Intn(k) panics for k <= 0 *)
        else let i' := i + skip + 1 in
             Ok (i', repl, mkSampler i' first (s_k s) (S (s_t s)))
    end.

(* r.Shuffle(len(a), func(i, j) { a[i], a[j] = a[j], a[i] }) as the swaps it performs *)
Fixpoint apply_swaps (sw : list (Z * Z)) (a : list Z) : result (list Z) :=
  match sw with
  | [] => Ok a
  | (i, j) :: t =>
      if (0 <=? i) && (i <? zlen a) && (0 <=? j) && (j <? zlen a)
      then apply_swaps t (swap a i j) else Panic PIndex
  end.
Definition shuffle (sw : list (Z * Z)) (a : list Z) : result (list Z) := apply_swaps sw a.

(* for { next, replace := samp.Next(); if next >= n { break }; out[replace] = f(next) } *)
Fixpoint sample_loop (o : oracle) (f : Z -> Z) (fuel : nat) (n : Z) (s : sampler) (out : list Z)
  : result (list Z) :=
  match fuel with
  | O => Panic POther
  | S fu =>
      pbind (next o s) (fun r =>
      let '(nx, rp, s') := r in
      if nx >=? n then Ok out
      else match zset out rp (f nx) with
           | Some out' => sample_loop o f fu n s' out'
           | None => Panic PIndex
           end)
  end.

(* rSample(r, n, k) *)
Definition rsample (o : oracle) (sw : list (Z * Z)) (n k : Z) : result (list Z) :=
  if k <? 0 then Panic PNeg                                      (* make([]int, k) *)
  else pbind (sample_loop o (fun x => x) (S (Z.to_nat n)) n (new_sampler k) (zeros k)) (fun out =>
       if n <? k then
         if n <? 0 then shuffle sw (zfirstn 0 out)              (* [0, n) is empty: n is raised to 0 (fix 2ff431c) *)
         else shuffle sw (zfirstn n out)
       else shuffle sw out).

(* rSampleSlice(r, a, k) *)
Definition rsample_slice (o : oracle) (sw : list (Z * Z)) (a : list Z) (k : Z) : result (list Z) :=
  if k <? 0 then Panic PNeg
  else pbind (sample_loop o (znth a) (S (length a)) (zlen a) (new_sampler k) (zeros k)) (fun out =>
       shuffle sw (if zlen a <? k then zfirstn (zlen a) out else out)).

(* inner loop of rSampleIterator: consume items until the one with index [nx] *)
Fixpoint iter_inner (items : list Z) (i nx : Z) : option (Z * list Z * Z) * Z :=
  match items with
  | [] => (None, i)                                             (* break Outer *)
  | x :: t => if i =? nx then (Some (x, t, i + 1), i + 1) else iter_inner t (i + 1) nx
  end.

Fixpoint iter_outer (o : oracle) (fuel : nat) (items : list Z) (i : Z) (s : sampler) (out : list Z)
  : result (list Z * Z) :=
  match fuel with
  | O => Panic POther
  | S fu =>
      pbind (next o s) (fun r =>
      let '(nx, rp, s') := r in
      match iter_inner items i nx with
      | (None, i') => Ok (out, i')
      | (Some (x, rest, i'), _) =>
          match zset out rp x with
          | Some out' => iter_outer o fu rest i' s' out'
          | None => Panic PIndex
          end
      end)
  end.

(* rSampleIterator(r, iter, k); rSampleStream is the same loop over stream.Next (an error of
   the stream aborts it) and is not modelled separately *)
Definition rsample_iterator (o : oracle) (sw : list (Z * Z)) (items : list Z) (k : Z) : result (list Z) :=
  if k <? 0 then Panic PNeg
  else pbind (iter_outer o (S (length items)) items 0 (new_sampler k) (zeros k)) (fun r =>
       let '(out, i) := r in
       shuffle sw (if i <? k then zfirstn i out else out)).
