(* Proofs for packages xmath (Abs, Min, Max, Clamp) and xerrors (WithStack) (C19). *)
From Juniper Require Import Common.Base Pure.Slices Pure.Misc Pure.Spec.
Open Scope Z_scope.

(* ------------------------------------------------------------------ xmath: powers of two *)

Lemma pow2_half_pos : forall w, 1 <= w -> 0 < 2 ^ (w - 1).
Proof. intros w Hw. apply Z.pow_pos_nonneg; lia. Qed.

Lemma pow2_double : forall w, 1 <= w -> 2 ^ w = 2 * 2 ^ (w - 1).
Proof.
  intros w Hw.
  replace w with (Z.succ (w - 1)) at 1 by lia.
  apply Z.pow_succ_r. lia.
Qed.

(* wrap is the identity on the representable range *)
Lemma wrap_in_range : forall w z, 1 <= w -> in_range w z -> wrap w z = z.
Proof.
  intros w z Hw Hr. unfold wrap, in_range in *.
  pose proof (pow2_half_pos w Hw) as HP.
  rewrite (pow2_double w Hw).
  remember (2 ^ (w - 1)) as P eqn:EP.
  rewrite Z.mod_small by lia. lia.
Qed.

(* the wrap written out: -x computed in w bits is x itself exactly for the minimum value *)
Theorem abs_wrap_min : forall w, 1 <= w -> wrap w (- (- 2 ^ (w - 1))) = - 2 ^ (w - 1).
Proof.
  intros w Hw. unfold wrap.
  pose proof (pow2_half_pos w Hw) as HP.
  rewrite (pow2_double w Hw).
  remember (2 ^ (w - 1)) as P eqn:EP.
  replace (- - P + P) with (2 * P) by lia.
  rewrite Z.mod_same by lia. lia.
Qed.

Theorem abs_spec : forall w x, 1 <= w -> in_range w x ->
    (x = - 2 ^ (w - 1) -> abs_w w x = Panic POther) /\
    (x <> - 2 ^ (w - 1) -> abs_w w x = Ok (Z.abs x) /\ in_range w (Z.abs x)).
Proof.
  intros w x Hw Hr.
  pose proof (pow2_half_pos w Hw) as HP.
  split.
  - intros Hx. subst x. unfold abs_w.
    rewrite (abs_wrap_min w Hw).
    destruct (- 2 ^ (w - 1) <? 0) eqn:E1; [|apply Z.ltb_ge in E1; lia].
    rewrite Z.eqb_refl. reflexivity.
  - intros Hx. unfold abs_w.
    destruct (x <? 0) eqn:E1.
    + apply Z.ltb_lt in E1.
      assert (Hr' : in_range w (- x)) by (unfold in_range in *; lia).
      rewrite (wrap_in_range w (- x) Hw Hr').
      destruct (- x =? x) eqn:E2; [apply Z.eqb_eq in E2; lia|].
      rewrite (Z.abs_neq x) by lia. split; [reflexivity|exact Hr'].
    + apply Z.ltb_ge in E1.
      rewrite (Z.abs_eq x) by lia. split; [reflexivity|exact Hr].
Qed.

(* companion: Abs panics ONLY on the minimum value (for representable arguments) *)
Lemma abs_panics_iff : forall w x, 1 <= w -> in_range w x ->
    (abs_w w x = Panic POther <-> x = - 2 ^ (w - 1)).
Proof.
  intros w x Hw Hr. destruct (abs_spec w x Hw Hr) as [Hmin Hoth].
  split; [|exact Hmin].
  intros Hp. destruct (Z.eq_dec x (- 2 ^ (w - 1))) as [Heq|Hne]; [exact Heq|].
  destruct (Hoth Hne) as [Hok _]. rewrite Hok in Hp. discriminate.
Qed.

Theorem min_spec : forall a b, min_ a b = Z.min a b.
Proof.
  intros a b. unfold min_.
  destruct (b <? a) eqn:E; [apply Z.ltb_lt in E|apply Z.ltb_ge in E]; lia.
Qed.

Theorem max_spec : forall a b, max_ a b = Z.max a b.
Proof.
  intros a b. unfold max_. rewrite Z.gtb_ltb.
  destruct (a <? b) eqn:E; [apply Z.ltb_lt in E|apply Z.ltb_ge in E]; lia.
Qed.

Theorem clamp_spec : forall x lo hi, lo <= hi ->
    clamp x lo hi = Z.max lo (Z.min x hi) /\ lo <= clamp x lo hi <= hi /\ (lo <= x <= hi -> clamp x lo hi = x).
Proof.
  intros x lo hi Hle. unfold clamp. rewrite Z.gtb_ltb.
  destruct (x <? lo) eqn:E1; [apply Z.ltb_lt in E1|apply Z.ltb_ge in E1].
  - repeat split; lia.
  - destruct (hi <? x) eqn:E2; [apply Z.ltb_lt in E2|apply Z.ltb_ge in E2];
      repeat split; lia.
Qed.

(* min > max is not covered by the doc; the code then returns min below min, else max *)
Theorem clamp_unordered : forall x lo hi, hi < lo -> clamp x lo hi = (if x <? lo then lo else hi).
Proof.
  intros x lo hi Hlt. unfold clamp. rewrite Z.gtb_ltb.
  destruct (x <? lo) eqn:E1; [reflexivity|apply Z.ltb_ge in E1].
  destruct (hi <? x) eqn:E2; [reflexivity|apply Z.ltb_ge in E2]. lia.
Qed.

(* ------------------------------------------------------------------ xerrors: WithStack *)

(* a withStack value is not comparable, so errors.Is never finds it *)
Lemma is_noncomparable_target : forall e t, comparable t = false -> is_ e t = false.
Proof.
  intros e t Ht. induction e as [id|tag inner IH|inner IH]; simpl; rewrite Ht; simpl.
  - reflexivity.
  - exact IH.
  - exact IH.
Qed.

Lemma is_probe_false : forall e, is_ e probe = false.
Proof. intros e. apply is_noncomparable_target. reflexivity. Qed.

(* a withStack node is transparent to errors.Is *)
Lemma is_stack : forall e t, is_ (EStack e) t = is_ e t.
Proof.
  intros e t. simpl. destruct (comparable t); reflexivity.
Qed.

Theorem with_stack_nil : forall b, with_stack b None = None.
Proof. intros b. reflexivity. Qed.

(* every result is either the argument itself or a fresh withStack around it *)
Lemma with_stack_cases : forall b e e', with_stack b (Some e) = Some e' -> e' = e \/ e' = EStack e.
Proof.
  intros b e e' H. unfold with_stack in H.
  destruct (if b then has_stack e else is_ e probe) eqn:E; inversion H; auto.
Qed.

Theorem with_stack_unwrap : forall b e e', with_stack b (Some e) = Some e' ->
    e' = e \/ (e' = EStack e /\ unwrap e' = Some e).
Proof.
  intros b e e' H. destruct (with_stack_cases b e e' H) as [He|He].
  - left. exact He.
  - right. subst e'. split; reflexivity.
Qed.

Theorem with_stack_wraps : forall e, has_stack e = false -> with_stack true (Some e) = Some (EStack e).
Proof. intros e H. unfold with_stack. rewrite H. reflexivity. Qed.

Theorem with_stack_current_always_wraps : forall e, with_stack false (Some e) = Some (EStack e).
Proof. intros e. unfold with_stack. rewrite is_probe_false. reflexivity. Qed.

Theorem with_stack_is : forall b e e' t, with_stack b (Some e) = Some e' -> is_ e' t = is_ e t.
Proof.
  intros b e e' t H. destruct (with_stack_cases b e e' H) as [He|He]; subst e'.
  - reflexivity.
  - apply is_stack.
Qed.

Theorem with_stack_has_stack : forall e, has_stack e = true -> with_stack true (Some e) = Some e.
Proof. intros e H. unfold with_stack. rewrite H. reflexivity. Qed.

Theorem with_stack_result_has_stack : forall b e e', with_stack b (Some e) = Some e' -> has_stack e' = true.
Proof.
  intros b e e' H. destruct b.
  - destruct (has_stack e) eqn:E.
    + rewrite (with_stack_has_stack e E) in H. inversion H; subst e'. exact E.
    + rewrite (with_stack_wraps e E) in H. inversion H; subst e'. reflexivity.
  - rewrite with_stack_current_always_wraps in H. inversion H; subst e'. reflexivity.
Qed.

Theorem with_stack_idempotent : forall e, with_stack true (with_stack true e) = with_stack true e.
Proof.
  intros [e|]; [|reflexivity].
  destruct (with_stack true (Some e)) as [e'|] eqn:E.
  - apply with_stack_has_stack. exact (with_stack_result_has_stack true e e' E).
  - reflexivity.
Qed.

(* defects of the current code (configuration false): errors.Is against a non-comparable probe never
   matches, so an error that already carries a stack is wrapped again *)
Theorem with_stack_idempotent_refuted : exists e, with_stack false (with_stack false e) <> with_stack false e.
Proof. exists (Some (EBase 7)). vm_compute. discriminate. Qed.

Theorem with_stack_has_stack_refuted : exists e, has_stack e = true /\ with_stack false (Some e) <> Some e.
Proof. exists (EStack (EBase 7)). split; [reflexivity|]. vm_compute. discriminate. Qed.

(* ------------------------------------------------------------------ non-vacuity *)

(* the four shipped widths: int8, int16, int32, int64 (= int) *)
Example abs_8_min : abs_w 8 (-128) = Panic POther.        Proof. vm_compute. reflexivity. Qed.
Example abs_8_next : abs_w 8 (-127) = Ok 127.             Proof. vm_compute. reflexivity. Qed.
Example abs_8_pos : abs_w 8 127 = Ok 127.                 Proof. vm_compute. reflexivity. Qed.
Example abs_16_min : abs_w 16 (-32768) = Panic POther.    Proof. vm_compute. reflexivity. Qed.
Example abs_16_next : abs_w 16 (-32767) = Ok 32767.       Proof. vm_compute. reflexivity. Qed.
Example abs_32_min : abs_w 32 (-2147483648) = Panic POther.   Proof. vm_compute. reflexivity. Qed.
Example abs_32_next : abs_w 32 (-2147483647) = Ok 2147483647. Proof. vm_compute. reflexivity. Qed.
Example abs_64_min : abs_w 64 (- 2 ^ 63) = Panic POther.      Proof. vm_compute. reflexivity. Qed.
Example abs_64_next : abs_w 64 (- 2 ^ 63 + 1) = Ok 9223372036854775807. Proof. vm_compute. reflexivity. Qed.
Example abs_64_zero : abs_w 64 0 = Ok 0.                  Proof. vm_compute. reflexivity. Qed.

(* the hypotheses of abs_spec are satisfiable at both branches *)
Example abs_spec_hyps_min : 1 <= 8 /\ in_range 8 (-128) /\ -128 = - 2 ^ (8 - 1).
Proof. unfold in_range. vm_compute. repeat split; discriminate. Qed.
Example abs_spec_hyps_other : 1 <= 64 /\ in_range 64 (-5) /\ -5 <> - 2 ^ (64 - 1).
Proof. unfold in_range. vm_compute. repeat split; discriminate. Qed.
Example abs_wrap_min_8 : wrap 8 (- (-128)) = -128.        Proof. vm_compute. reflexivity. Qed.
Example abs_wrap_min_64 : wrap 64 (- (- 2 ^ 63)) = - 2 ^ 63. Proof. vm_compute. reflexivity. Qed.

Example min_ex : min_ 3 (-4) = -4 /\ min_ (-4) 3 = -4 /\ min_ 5 5 = 5.
Proof. vm_compute. repeat split. Qed.
Example max_ex : max_ 3 (-4) = 3 /\ max_ (-4) 3 = 3 /\ max_ 5 5 = 5.
Proof. vm_compute. repeat split. Qed.
Example clamp_ex : clamp (-7) 0 10 = 0 /\ clamp 17 0 10 = 10 /\ clamp 4 0 10 = 4 /\ clamp 4 4 4 = 4.
Proof. vm_compute. repeat split. Qed.
Example clamp_unordered_ex : clamp 5 10 0 = 10 /\ clamp 12 10 0 = 0 /\ clamp (-3) 10 0 = 10.
Proof. vm_compute. repeat split. Qed.

(* WithStack on a three-level chain  wrap(9, wrap(8, base 1)) *)
Definition ex_chain : err := EWrap 9 (EWrap 8 (EBase 1)).
Definition ex_stacked : err := EWrap 9 (EStack (EWrap 8 (EBase 1))).

Example with_stack_nil_ex : with_stack false None = None /\ with_stack true None = None.
Proof. vm_compute. split; reflexivity. Qed.
Example with_stack_wraps_ex :
  has_stack ex_chain = false /\ with_stack true (Some ex_chain) = Some (EStack ex_chain) /\
  with_stack false (Some ex_chain) = Some (EStack ex_chain) /\ unwrap (EStack ex_chain) = Some ex_chain.
Proof. vm_compute. repeat split. Qed.
Example with_stack_has_stack_ex :
  has_stack ex_stacked = true /\ with_stack true (Some ex_stacked) = Some ex_stacked /\
  with_stack false (Some ex_stacked) = Some (EStack ex_stacked).
Proof. vm_compute. repeat split. Qed.
Example with_stack_is_ex :
  is_ ex_chain (EWrap 8 (EBase 1)) = true /\ is_ (EStack ex_chain) (EWrap 8 (EBase 1)) = true /\
  is_ ex_chain (EBase 2) = false /\ is_ (EStack ex_chain) (EBase 2) = false /\
  is_ (EStack ex_chain) (EStack ex_chain) = false /\ is_ ex_stacked probe = false.
Proof. vm_compute. repeat split. Qed.
Example with_stack_idempotent_ex :
  with_stack true (with_stack true (Some ex_chain)) = with_stack true (Some ex_chain) /\
  with_stack false (with_stack false (Some ex_chain)) = Some (EStack (EStack ex_chain)).
Proof. vm_compute. split; reflexivity. Qed.
Example with_stack_result_has_stack_ex :
  has_stack (EStack ex_chain) = true /\ has_stack (EStack ex_stacked) = true.
Proof. vm_compute. split; reflexivity. Qed.
