(* Correspondence evaluator for C19: one constructor of [pcall] per exported function with its
   arguments, [eval_call] runs the model (under the configuration of Pure/Config.v) and
   [check_M] compares with the observation recorded from the real code by harness_pure.
   Evaluated with vm_compute from generated files.  No proofs; depends on the models only.

   Function-typed arguments are encoded: predicates as [pred], binary relations (same / eq /
   less) as [rel], unary functions as [fn1]; the harness decodes the same encodings into Go
   closures.  Maps and sets produced by the code are recorded sorted by key; the model's
   association lists are sorted the same way before the comparison.  For calls whose result
   the documentation leaves open (ReverseSingle with duplicate values; xsort.Slice, which need not
   be stable; the xrand functions, whose oracle is not observable) check_M checks membership in the set of results the model
   allows instead of equality. *)
From Juniper Require Import Common.Base Pure.Config Pure.Slices Pure.Sort Pure.Maps Pure.Misc Pure.Rand.

Inductive pred := PIn (l : list Z) | PLt (c : Z).
Definition pred_fn (p : pred) (x : Z) : bool :=
  match p with PIn l => mem x l | PLt c => x <? c end.

(* RPairs: the relation holds exactly on the listed pairs; RKeyLt d: a/d < b/d; RKeyEq d: a/d == b/d
   (Go division, d <> 0) *)
Inductive rel := RPairs (l : list (Z * Z)) | RKeyLt (d : Z) | RKeyEq (d : Z).
Definition rel_fn (r : rel) (a b : Z) : bool :=
  match r with
  | RPairs l => existsb (fun p => (fst p =? a) && (snd p =? b)) l
  | RKeyLt d => Z.quot a d <? Z.quot b d
  | RKeyEq d => Z.quot a d =? Z.quot b d
  end.

Inductive fn1 := FAffine (a b : Z) | FTable (t : list (Z * Z)) (d : Z) | FQuot (d : Z).
Definition fn1_fn (f : fn1) (x : Z) : Z :=
  match f with
  | FAffine a b => a * x + b
  | FTable t d => match mget t x with Some v => v | None => d end
  | FQuot d => Z.quot x d
  end.

Inductive pcall :=
(* xslices *)
| SAll (s : list Z) (p : pred) | SAny (s : list Z) (p : pred)
| SChunk (s : list Z) (c : Z)
| SClear (s : list Z) | SClone (s : list Z)
| SCompact (s : list Z) | SCompactInPlace (s : list Z)
| SCompactFunc (s : list Z) (r : rel) | SCompactInPlaceFunc (s : list Z) (r : rel)
| SCount (s : list Z) (x : Z) | SCountFunc (s : list Z) (p : pred)
| SEqual (a b : list Z) | SEqualFunc (a b : list Z) (r : rel)
| SFill (s : list Z) (x : Z)
| SFilter (s : list Z) (p : pred) | SFilterInPlace (s : list Z) (p : pred)
| SGroup (s : list Z) (f : fn1)
| SGrow (s extra : list Z) (n : Z)
| SIndex (s : list Z) (x : Z) | SIndexFunc (s : list Z) (p : pred)
| SInsert (s extra : list Z) (i : Z) (v : list Z)
| SJoin (ins : list (list Z))
| SLastIndex (s : list Z) (x : Z) | SLastIndexFunc (s : list Z) (p : pred)
| SMap (s : list Z) (f : fn1)
| SPartition (s : list Z) (p : pred)
| SReduce (s : list Z) (init a : Z)                      (* f(acc, x) = acc*a + x *)
| SRemove (s : list Z) (idx n : Z) | SRemoveUnordered (s : list Z) (idx n : Z)
| SRepeat (x n : Z)
| SReverse (s : list Z)
| SRuns (s : list Z) (r : rel)
| SShrink (s extra : list Z) (n : Z)
| SUnique (s : list Z) | SUniqueInPlace (s : list Z)
(* xsort *)
| OGreater (r : rel) (a b : Z) | OLessOrEqual (r : rel) (a b : Z)
| OGreaterOrEqual (r : rel) (a b : Z) | OEqual (r : rel) (a b : Z)
| OReverse (r : rel) (a b : Z) | OLessCompare (r : rel) (a b : Z)
| OOrderedLess (a b : Z)
| OSliceIsSorted (r : rel) (x : list Z)
| OSlice (r : rel) (x : list Z)                           (* observation: x afterwards *)
| OSliceStable (r : rel) (x : list Z)
| OSearch (r : rel) (x : list Z) (item : Z)
| OMerge (r : rel) (ins : list (list Z))
| OMergeSlices (r : rel) (outcap : Z) (ins : list (list Z))
| OMinK (r : rel) (items : list Z) (k : Z)
(* xmaps *)
| MReverse (m : list (Z * Z)) | MReverseSingle (m : list (Z * Z))
| MToIndex (keys : list Z) | MFromKeysAndValues (keys values : list Z)
| MSetFromSlice (items : list Z)
| MSetAdd (s : list Z) (k : Z) | MSetRemove (s : list Z) (k : Z) | MSetContains (s : list Z) (k : Z)
| MUnion (sets : list (list Z)) | MIntersection (sets : list (list Z))
| MIntersects (sets : list (list Z)) | MDifference (a b : list Z)
(* xmath *)
| NAbs (w x : Z) | NMin (a b : Z) | NMax (a b : Z) | NClamp (x lo hi : Z)
(* xerrors *)
| EWithStack (e : option err)
| EWithStackTwice (e : option err)                        (* WithStack(WithStack(e)) *)
| EWithStackIs (e : option err) (target : err)            (* errors.Is(WithStack(e), target) *)
(* xrand, with a seeded *rand.Rand; the seed only identifies the run *)
| XSample (n k seed : Z) | XSampleSlice (a : list Z) (k seed : Z)
| XSampleIterator (items : list Z) (k seed : Z) | XShuffle (a : list Z) (seed : Z)
(* xrand through the verif hook, with the recorded draws of the run as the oracle.
   which = 0: rSample(n, k); 1: rSampleSlice(a, k); 2: rSampleIterator(a, k); 3: rShuffle(a) *)
| XTrace (which n : Z) (a : list Z) (k : Z) (draws : list draw) (swaps : list (Z * Z)).

Inductive pres :=
| RPanic
| RBool (b : bool)
| RInt (n : Z)
| RList (l : list Z)
| RRanges (l : list (Z * Z))                              (* (offset in s, end) of each inner slice *)
| RInPlace (ret after : list Z)                           (* returned slice; s[0:len(s)] afterwards *)
| RIntList (n : Z) (after : list Z)
| RCap (ret : list Z) (cap : Z) (alias : bool)
| RInsert (ret : list Z) (alias : bool) (after : list Z)  (* after = s[0:cap(s)] afterwards *)
| RListB (l : list Z) (b : bool)
| RMap (m : list (Z * Z))
| RMapB (m : list (Z * Z)) (ok : bool)
| RMapL (m : list (Z * list Z))
| RErr (e : option err).

(* ---- canonical forms ---- *)
Fixpoint ins_z (x : Z) (l : list Z) : list Z :=
  match l with [] => [x] | y :: t => if x <=? y then x :: l else y :: ins_z x t end.
Definition sort_z (l : list Z) : list Z := fold_right ins_z [] l.

Fixpoint ins_key {V} (p : Z * V) (l : list (Z * V)) : list (Z * V) :=
  match l with [] => [p] | q :: t => if fst p <=? fst q then p :: l else q :: ins_key p t end.
Definition sort_key {V} (l : list (Z * V)) : list (Z * V) := fold_right ins_key [] l.

Definition of_res {A} (f : A -> pres) (r : result A) : pres :=
  match r with Ok a => f a | Panic _ => RPanic end.

Definition inplace (p : list Z * list Z) : pres := RInPlace (fst p) (snd p).

(* ---- the model ---- *)
Definition eval_call (c : pcall) : pres :=
  match c with
  | SAll s p => RBool (all (pred_fn p) s)
  | SAny s p => RBool (any (pred_fn p) s)
  | SChunk s c => of_res RRanges (chunk xslices_chunk_guard xslices_chunk_no_overflow s c)
  | SClear s => RList (clear s)
  | SClone s => RList (clone s)
  | SCompact s => RList (compact s)
  | SCompactInPlace s => inplace (compact_in_place s)
  | SCompactFunc s r => RList (compact_func (rel_fn r) s)
  | SCompactInPlaceFunc s r => inplace (compact_in_place_func (rel_fn r) s)
  | SCount s x => RInt (count s x)
  | SCountFunc s p => RInt (count_func (pred_fn p) s)
  | SEqual a b => RBool (equal a b)
  | SEqualFunc a b r => RBool (equal_func (rel_fn r) a b)
  | SFill s x => RList (fill s x)
  | SFilter s p => RList (filter_ (pred_fn p) s)
  | SFilterInPlace s p => inplace (filter_in_place (pred_fn p) s)
  | SGroup s f => RMapL (sort_key (group (fn1_fn f) s))
  | SGrow s extra n => of_res (fun r => RCap (fst (fst r)) (snd (fst r)) (snd r)) (grow s extra n)
  | SIndex s x => RInt (index s x)
  | SIndexFunc s p => RInt (index_func (pred_fn p) s)
  | SInsert s extra i v => of_res (fun r => RInsert (fst (fst r)) (snd (fst r)) (snd r)) (insert s extra i v)
  | SJoin ins => RList (join ins)
  | SLastIndex s x => RInt (last_index s x)
  | SLastIndexFunc s p => RInt (last_index_func (pred_fn p) s)
  | SMap s f => RList (map_ (fn1_fn f) s)
  | SPartition s p => let r := partition (pred_fn p) s in RIntList (fst r) (snd r)
  | SReduce s init a => RInt (reduce (fun acc x => acc * a + x) s init)
  | SRemove s idx n => of_res inplace (remove s idx n)
  | SRemoveUnordered s idx n => of_res inplace (remove_unordered s idx n)
  | SRepeat x n => of_res RList (repeat_ x n)
  | SReverse s => RList (reverse s)
  | SRuns s r => RRanges (runs xslices_runs_fixed s (rel_fn r))
  | SShrink s extra n => of_res (fun r => RCap (fst (fst r)) (snd (fst r)) (snd r)) (shrink s extra n)
  | SUnique s => RList (unique s)
  | SUniqueInPlace s => inplace (unique_in_place s)
  | OGreater r a b => RBool (greater (rel_fn r) a b)
  | OLessOrEqual r a b => RBool (less_or_equal (rel_fn r) a b)
  | OGreaterOrEqual r a b => RBool (greater_or_equal (rel_fn r) a b)
  | OEqual r a b => RBool (equal_ (rel_fn r) a b)
  | OReverse r a b => RBool (reverse_less (rel_fn r) a b)
  | OLessCompare r a b => RInt (less_compare (rel_fn r) a b)
  | OOrderedLess a b => RBool (ordered_less a b)
  | OSliceIsSorted r x => RBool (slice_is_sorted (rel_fn r) x)
  (* Slice is not stable: the stable result stands in; check_M accepts every allowed result *)
  | OSlice r x => RList (slice_stable (rel_fn r) x)
  | OSliceStable r x => RList (slice_stable (rel_fn r) x)
  | OSearch r x item => RInt (search (rel_fn r) x item)
  | OMerge r ins => of_res RList (merge (rel_fn r) ins)
  | OMergeSlices r outcap ins => of_res (fun p => RListB (fst p) (snd p)) (merge_slices (rel_fn r) outcap ins)
  | OMinK r items k => of_res RList (min_k (rel_fn r) items k)
  | MReverse m => RMapL (sort_key (map (fun p => (fst p, sort_z (snd p))) (reverse_map m)))
  | MReverseSingle m => let r := reverse_single m in RMapB (sort_key (fst r)) (snd r)
  | MToIndex keys => RMap (sort_key (to_index keys))
  | MFromKeysAndValues keys values =>
      of_res (fun r => RMapB (sort_key (fst r)) (snd r)) (from_keys_and_values keys values)
  | MSetFromSlice items => RList (sort_z (set_from_slice items))
  | MSetAdd s k => RList (sort_z (set_add s k))
  | MSetRemove s k => RList (sort_z (set_remove s k))
  | MSetContains s k => RBool (set_contains s k)
  | MUnion sets => RList (sort_z (union sets))
  | MIntersection sets => RList (sort_z (intersection sets))
  | MIntersects sets => RBool (intersects sets)
  | MDifference a b => RList (sort_z (difference a b))
  | NAbs w x => of_res RInt (abs_w w x)
  | NMin a b => RInt (min_ a b)
  | NMax a b => RInt (max_ a b)
  | NClamp x lo hi => RInt (clamp x lo hi)
  | EWithStack e => RErr (with_stack xerrors_withstack_idempotent e)
  | EWithStackTwice e =>
      RErr (with_stack xerrors_withstack_idempotent (with_stack xerrors_withstack_idempotent e))
  | EWithStackIs e target =>
      RBool (match with_stack xerrors_withstack_idempotent e with
             | Some e' => is_ e' target | None => false end)
  (* the oracle of the real run is not observable: the canonical oracle (stop at once, no
     swaps) stands in; check_M does not compare these by equality *)
  | XSample n k _ => of_res RList (rsample (fun _ => DStop) [] n k)
  | XSampleSlice a k _ => of_res RList (rsample_slice (fun _ => DStop) [] a k)
  | XSampleIterator items k _ => of_res RList (rsample_iterator (fun _ => DStop) [] items k)
  | XShuffle a _ => of_res RList (shuffle [] a)
  | XTrace w n a k draws sw =>
      let o := fun t => nth t draws DStop in
      of_res RList (if w =? 0 then rsample o sw n k
                    else if w =? 1 then rsample_slice o sw a k
                    else if w =? 2 then rsample_iterator o sw a k
                    else shuffle sw a)
  end.

(* ---- comparison ---- *)
Fixpoint lists_eqb (a b : list (list Z)) : bool :=
  match a, b with
  | [], [] => true
  | x :: a', y :: b' => list_eqb x y && lists_eqb a' b'
  | _, _ => false
  end.
Fixpoint pairs_eqb (a b : list (Z * Z)) : bool :=
  match a, b with
  | [], [] => true
  | (x1, x2) :: a', (y1, y2) :: b' => (x1 =? y1) && (x2 =? y2) && pairs_eqb a' b'
  | _, _ => false
  end.
Fixpoint mapl_eqb (a b : list (Z * list Z)) : bool :=
  match a, b with
  | [], [] => true
  | (x1, x2) :: a', (y1, y2) :: b' => (x1 =? y1) && list_eqb x2 y2 && mapl_eqb a' b'
  | _, _ => false
  end.
Fixpoint err_struct_eqb (a b : err) : bool :=
  match a, b with
  | EBase x, EBase y => x =? y
  | EWrap s i, EWrap t j => (s =? t) && err_struct_eqb i j
  | EStack i, EStack j => err_struct_eqb i j
  | _, _ => false
  end.

Definition pres_eqb (a b : pres) : bool :=
  match a, b with
  | RPanic, RPanic => true
  | RBool x, RBool y => Bool.eqb x y
  | RInt x, RInt y => x =? y
  | RList x, RList y => list_eqb x y
  | RRanges x, RRanges y => pairs_eqb x y
  | RInPlace r1 a1, RInPlace r2 a2 => list_eqb r1 r2 && list_eqb a1 a2
  | RIntList n1 a1, RIntList n2 a2 => (n1 =? n2) && list_eqb a1 a2
  | RCap r1 c1 b1, RCap r2 c2 b2 => list_eqb r1 r2 && (c1 =? c2) && Bool.eqb b1 b2
  | RInsert r1 b1 a1, RInsert r2 b2 a2 => list_eqb r1 r2 && Bool.eqb b1 b2 && list_eqb a1 a2
  | RListB l1 b1, RListB l2 b2 => list_eqb l1 l2 && Bool.eqb b1 b2
  | RMap x, RMap y => pairs_eqb x y
  | RMapB x b1, RMapB y b2 => pairs_eqb x y && Bool.eqb b1 b2
  | RMapL x, RMapL y => mapl_eqb x y
  | RErr None, RErr None => true
  | RErr (Some x), RErr (Some y) => err_struct_eqb x y
  | _, _ => false
  end.

Fixpoint nodup_b (l : list Z) : bool :=
  match l with [] => true | x :: t => negb (mem x t) && nodup_b t end.

(* every list the model can return for a sample of k positions out of [0, n): min(k, n)
   pairwise distinct positions (theorems C19_sample_structure / C19_sample_support_partial) *)
Definition sample_possible (n k : Z) (res : list Z) : bool :=
  (zlen res =? Z.min k n) && nodup_b res && forallb (fun x => (0 <=? x) && (x <? n)) res.

(* the items variant, for inputs with pairwise distinct items (the harness only sends such) *)
Definition sample_items_possible (a : list Z) (k : Z) (res : list Z) : bool :=
  (zlen res =? Z.min k (zlen a)) && nodup_b res && forallb (fun x => mem x a) res.

Definition check_M (cr : pcall * pres) : bool :=
  let '(c, r) := cr in
  match c, r with
  | SGrow s extra n, RCap ret cap alias =>
      (* the capacity after a reallocation is only bounded below *)
      match grow s extra n with
      | Ok (ret', lb, alias') =>
          list_eqb ret ret' && Bool.eqb alias alias' && (if alias' then cap =? lb else lb <=? cap)
      | Panic _ => false
      end
  | MReverseSingle m, RMapB res ok =>
      (* "an arbitrary choice of the associated keys": same flag, same key set, every chosen
         key is one of the keys mapped to that value *)
      let rm := reverse_map m in
      Bool.eqb ok (snd (reverse_single m)) &&
      list_eqb (map fst res) (sort_z (map fst rm)) &&
      forallb (fun p => match find (fun q => fst q =? fst p) rm with
                        | Some q => mem (snd p) (snd q) | None => false end) res
  | OSlice r x, RList res =>
      (* "not guaranteed to be stable": any sorted permutation of x, i.e. the model's result up
         to the order inside classes of equivalent items (theorem C19_slice_spec) *)
      slice_allowed (rel_fn r) x res
  | XSample n k _, RList res => if k <? 0 then false else if n <? 0 then (match res with [] => true | _ => false end)
                                else sample_possible n k res
  | XSampleSlice a k _, RList res => if k <? 0 then false else sample_items_possible a k res
  | XSampleIterator a k _, RList res => if k <? 0 then false else sample_items_possible a k res
  | XShuffle a _, RList res => list_eqb (sort_z res) (sort_z a)
  | XSample n k _, RPanic => k <? 0             (* n < 0: the empty range, no panic (fix 2ff431c) *)
  | XSampleSlice _ k _, RPanic | XSampleIterator _ k _, RPanic => k <? 0
  | _, _ => pres_eqb (eval_call c) r
  end.

(* a generated case is a batch of independent calls with their observations *)
Definition check_case (l : list (pcall * pres)) : bool := forallb check_M l.

(* the evaluator computes *)
Example check_M_computes :
  check_case
    [(SPartition [1; 0; 1; 0; 0] (PIn [1]), RIntList 3 [0; 0; 0; 1; 1]);
     (SRemoveUnordered [1; 2; 3; 4; 5] 1 2, RInPlace [1; 4; 5] [1; 4; 5; 0; 0]);
     (SRemove [1; 2; 3] (-1) 0, RPanic);
     (OMerge (RKeyLt 10) [[10; 21; 30]; []; [11; 12; 35]; [5]], RList [5; 10; 11; 12; 21; 35; 30]);
     (OMinK (RKeyLt 1) [5; 3; 9; 1; 7; 3] 3, RList [1; 3; 3]);
     (OSliceStable (RKeyLt 10) [31; 12; 30; 11; 32; 10], RList [12; 11; 10; 31; 30; 32]);
     (OSliceStable (RKeyLt (-10)) [31; 12; 30; 11; 32; 10], RList [31; 30; 32; 12; 11; 10]);
     (OSlice (RKeyLt 10) [31; 12; 30; 11; 32; 10], RList [10; 12; 11; 32; 31; 30]);
     (MUnion [[3; 1]; []; [2; 3]], RList [1; 2; 3]);
     (MReverseSingle [(1, 7); (2, 7); (3, 8)], RMapB [(7, 1); (8, 3)] false);
     (NAbs 8 (-128), RPanic); (NAbs 8 (-127), RInt 127);
     (EWithStack (Some (EWrap 2 (EBase 1))), RErr (Some (EStack (EWrap 2 (EBase 1)))));
     (XSample 10 3 1, RList [7; 0; 4]); (XShuffle [1; 2; 3] 5, RList [3; 1; 2]);
     (XTrace 0 10 [] 3 [DSkip 1 0; DSkip 0 2; DSkip 2 1] [(2, 0)], RList [5; 8; 4])] = true.
Proof. vm_compute. reflexivity. Qed.

(* SliceStable is compared exactly (an unstable result is a disagreement), Slice is not *)
Example check_M_sort_rejects :
  check_M (OSliceStable (RKeyLt 10) [31; 12; 30], RList [12; 30; 31]) = false /\
  check_M (OSlice (RKeyLt 10) [31; 12; 30], RList [12; 30; 31]) = true /\
  check_M (OSlice (RKeyLt 10) [31; 12; 30], RList [31; 12; 30]) = false /\
  check_M (OSlice (RKeyLt 10) [31; 12; 30], RList [12; 30; 30]) = false.
Proof. vm_compute. repeat split; reflexivity. Qed.
