(* Proofs for package xmaps (property C19): the set algebra (Set.Add/Remove/Contains, SetFromSlice, Union,
   Intersection, Intersects, Difference) and the map helpers (Reverse, ReverseSingle, ToIndex, FromKeysAndValues).
   Sets are lists of keys, maps are association lists; an INPUT list's order is the order in which the call's
   [range] loop visits the map, so every theorem holds for every iteration order.
   Stdlib only, no axioms. *)
From Coq Require Import Permutation.
From Juniper Require Import Common.Base Pure.Slices Pure.Maps Pure.Spec.

(* ------------------------------------------------------------------------------------------------ *)
(* Basic facts: mem / smem / sadd / sdel                                                            *)
(* ------------------------------------------------------------------------------------------------ *)

Lemma mem_In : forall x l, mem x l = true <-> In x l.
Proof.
  intros x l. unfold mem. rewrite existsb_exists. split.
  - intros [y [Hy He]]. apply Z.eqb_eq in He. subst y. exact Hy.
  - intros H. exists x. split; [exact H | apply Z.eqb_refl].
Qed.

Lemma smem_In : forall k s, smem k s = true <-> In k s.
Proof. intros k s. unfold smem. apply mem_In. Qed.

Lemma smem_false : forall k s, smem k s = false <-> ~ In k s.
Proof.
  intros k s. rewrite <- smem_In. destruct (smem k s); split; intros H; congruence.
Qed.

Lemma sadd_In : forall k s x, In x (sadd k s) <-> x = k \/ In x s.
Proof.
  intros k s x. induction s as [|y r IH]; simpl.
  - split; intros [H|H]; try contradiction; left; congruence.
  - destruct (k =? y) eqn:E.
    + apply Z.eqb_eq in E. subst y. simpl. split.
      * intros H. right. exact H.
      * intros [H|H]; [left; congruence | exact H].
    + simpl. rewrite IH. tauto.
Qed.

Lemma sadd_NoDup : forall k s, NoDup s -> NoDup (sadd k s).
Proof.
  intros k s. induction s as [|y r IH]; intros Hnd; simpl.
  - constructor; [intros [] | constructor].
  - destruct (k =? y) eqn:E; [exact Hnd|].
    apply Z.eqb_neq in E. inversion Hnd as [|y' r' Hnotin Hnd']; subst.
    constructor.
    + rewrite sadd_In. intros [H|H]; [congruence | contradiction].
    + apply IH; exact Hnd'.
Qed.

Lemma sdel_In : forall k s x, In x (sdel k s) <-> x <> k /\ In x s.
Proof.
  intros k s x. induction s as [|y r IH]; simpl.
  - tauto.
  - destruct (k =? y) eqn:E.
    + apply Z.eqb_eq in E. subst y. rewrite IH. split.
      * intros [Hne Hin]. split; [exact Hne | right; exact Hin].
      * intros [Hne [Heq|Hin]]; [congruence | split; assumption].
    + apply Z.eqb_neq in E. simpl. rewrite IH. split.
      * intros [Heq|[Hne Hin]]; [split; [congruence | left; exact Heq] | split; [exact Hne | right; exact Hin]].
      * intros [Hne [Heq|Hin]]; [left; exact Heq | right; split; assumption].
Qed.

Lemma sdel_NoDup : forall k s, NoDup s -> NoDup (sdel k s).
Proof.
  intros k s. induction s as [|y r IH]; intros Hnd; simpl.
  - constructor.
  - inversion Hnd as [|y' r' Hnotin Hnd']; subst.
    destruct (k =? y) eqn:E; [apply IH; exact Hnd'|].
    constructor.
    + rewrite sdel_In. intros [_ H]. contradiction.
    + apply IH; exact Hnd'.
Qed.

(* ------------------------------------------------------------------------------------------------ *)
(* Set.Add / Remove / Contains / SetFromSlice                                                        *)
(* ------------------------------------------------------------------------------------------------ *)

Theorem set_add_spec : forall s k, NoDup s -> NoDup (set_add s k) /\ (forall x, In x (set_add s k) <-> x = k \/ In x s).
Proof.
  intros s k Hnd. unfold set_add. split; [apply sadd_NoDup; exact Hnd | intros x; apply sadd_In].
Qed.

Theorem set_remove_spec : forall s k, NoDup s -> NoDup (set_remove s k) /\ (forall x, In x (set_remove s k) <-> x <> k /\ In x s).
Proof.
  intros s k Hnd. unfold set_remove. split; [apply sdel_NoDup; exact Hnd | intros x; apply sdel_In].
Qed.

Theorem set_contains_spec : forall s k, set_contains s k = true <-> In k s.
Proof. intros s k. unfold set_contains. apply smem_In. Qed.

Lemma add_all_In : forall items out x, In x (add_all items out) <-> In x items \/ In x out.
Proof.
  induction items as [|k t IH]; intros out x; simpl.
  - tauto.
  - rewrite IH, sadd_In. split.
    + intros [H|[H|H]]; [left; right; exact H | left; left; congruence | right; exact H].
    + intros [[H|H]|H]; [right; left; congruence | left; exact H | right; right; exact H].
Qed.

Lemma add_all_NoDup : forall items out, NoDup out -> NoDup (add_all items out).
Proof.
  induction items as [|k t IH]; intros out Hnd; simpl; [exact Hnd|].
  apply IH. apply sadd_NoDup. exact Hnd.
Qed.

Theorem set_from_slice_spec : forall items,
    NoDup (set_from_slice items) /\ (forall k, In k (set_from_slice items) <-> In k items).
Proof.
  intros items. unfold set_from_slice. split.
  - apply add_all_NoDup. constructor.
  - intros k. rewrite add_all_In. simpl. tauto.
Qed.

(* ------------------------------------------------------------------------------------------------ *)
(* Union                                                                                            *)
(* ------------------------------------------------------------------------------------------------ *)

Lemma union_loop_In : forall sets out k,
    In k (union_loop sets out) <-> (exists s, In s sets /\ In k s) \/ In k out.
Proof.
  induction sets as [|s r IH]; intros out k; simpl.
  - split; [intros H; right; exact H | intros [[s [[] _]]|H]; exact H].
  - rewrite IH, add_all_In. split.
    + intros [[s' [Hs' Hk]]|[Hk|Hk]].
      * left. exists s'. split; [right; exact Hs' | exact Hk].
      * left. exists s. split; [left; reflexivity | exact Hk].
      * right. exact Hk.
    + intros [[s' [[Heq|Hs'] Hk]]|Hk].
      * subst s'. right. left. exact Hk.
      * left. exists s'. split; assumption.
      * right. right. exact Hk.
Qed.

Lemma union_loop_NoDup : forall sets out, NoDup out -> NoDup (union_loop sets out).
Proof.
  induction sets as [|s r IH]; intros out Hnd; simpl; [exact Hnd|].
  apply IH. apply add_all_NoDup. exact Hnd.
Qed.

Theorem union_spec : forall sets,
    NoDup (union sets) /\ (forall k, In k (union sets) <-> exists s, In s sets /\ In k s).
Proof.
  intros sets. unfold union. split.
  - apply union_loop_NoDup. constructor.
  - intros k. rewrite union_loop_In. simpl. tauto.
Qed.

(* ------------------------------------------------------------------------------------------------ *)
(* sort_by_len is a permutation                                                                     *)
(* ------------------------------------------------------------------------------------------------ *)

Lemma insert_by_len_perm : forall s l, Permutation (insert_by_len s l) (s :: l).
Proof.
  intros s l. induction l as [|h t IH]; simpl.
  - apply Permutation_refl.
  - destruct (length s <=? length h)%nat.
    + apply Permutation_refl.
    + eapply Permutation_trans; [apply perm_skip; exact IH | apply perm_swap].
Qed.

Lemma sort_by_len_perm : forall l, Permutation (sort_by_len l) l.
Proof.
  induction l as [|s r IH]; simpl.
  - apply perm_nil.
  - eapply Permutation_trans; [apply insert_by_len_perm | apply perm_skip; exact IH].
Qed.

Lemma sort_by_len_nil : forall l, sort_by_len l = [] <-> l = [].
Proof.
  intros l. split; intros H.
  - pose proof (sort_by_len_perm l) as P. rewrite H in P. apply Permutation_nil in P. exact P.
  - subst l. reflexivity.
Qed.

Lemma sort_by_len_cons : forall l s0 rest, sort_by_len l = s0 :: rest ->
    forall s, In s l <-> s = s0 \/ In s rest.
Proof.
  intros l s0 rest H s. pose proof (sort_by_len_perm l) as P. rewrite H in P. split.
  - intros Hin. apply (Permutation_in _ (Permutation_sym P)) in Hin. destruct Hin as [Heq|Hin]; [left; congruence | right; exact Hin].
  - intros [Heq|Hin]; apply (Permutation_in _ P); [left; congruence | right; exact Hin].
Qed.

(* ------------------------------------------------------------------------------------------------ *)
(* Intersection / Intersects                                                                        *)
(* ------------------------------------------------------------------------------------------------ *)

Lemma in_all_spec : forall k rest, in_all k rest = true <-> (forall s, In s rest -> In k s).
Proof.
  intros k rest. induction rest as [|s r IH]; simpl.
  - split; [intros _ s [] | reflexivity].
  - destruct (smem k s) eqn:E.
    + apply smem_In in E. rewrite IH. split.
      * intros H s' [Heq|Hin]; [subst s'; exact E | apply H; exact Hin].
      * intros H s' Hin. apply H. right. exact Hin.
    + apply smem_false in E. split; [discriminate|].
      intros H. exfalso. apply E. apply H. left. reflexivity.
Qed.

Lemma inter_loop_In : forall s0 rest out x,
    In x (inter_loop s0 rest out) <-> (In x s0 /\ forall s, In s rest -> In x s) \/ In x out.
Proof.
  induction s0 as [|k t IH]; intros rest out x; simpl.
  - split; [intros H; right; exact H | intros [[[] _]|H]; exact H].
  - rewrite IH. destruct (in_all k rest) eqn:E.
    + rewrite sadd_In. rewrite in_all_spec in E. split.
      * intros [[Hin Hall]|[Heq|Hout]].
        -- left. split; [right; exact Hin | exact Hall].
        -- subst x. left. split; [left; reflexivity | exact E].
        -- right. exact Hout.
      * intros [[[Heq|Hin] Hall]|Hout].
        -- right. left. congruence.
        -- left. split; assumption.
        -- right. right. exact Hout.
    + assert (Hn : ~ (forall s, In s rest -> In k s)).
      { rewrite <- in_all_spec. rewrite E. discriminate. }
      split.
      * intros [[Hin Hall]|Hout]; [left; split; [right; exact Hin | exact Hall] | right; exact Hout].
      * intros [[[Heq|Hin] Hall]|Hout].
        -- subst x. contradiction.
        -- left. split; assumption.
        -- right. exact Hout.
Qed.

Lemma inter_loop_NoDup : forall s0 rest out, NoDup out -> NoDup (inter_loop s0 rest out).
Proof.
  induction s0 as [|k t IH]; intros rest out Hnd; simpl; [exact Hnd|].
  apply IH. destruct (in_all k rest); [apply sadd_NoDup; exact Hnd | exact Hnd].
Qed.

Theorem intersection_spec : forall sets,
    NoDup (intersection sets) /\
    (sets = [] -> intersection sets = []) /\
    (sets <> [] -> forall k, In k (intersection sets) <-> (forall s, In s sets -> In k s)).
Proof.
  intros sets. unfold intersection. destruct (sort_by_len sets) as [|s0 rest] eqn:E.
  - apply (proj1 (sort_by_len_nil _)) in E. split; [constructor|]. split; [reflexivity|]. intros Hne. exfalso. apply Hne. exact E.
  - split; [apply inter_loop_NoDup; constructor|]. split.
    + intros Hnil. subst sets. discriminate E.
    + intros _ k. rewrite inter_loop_In. pose proof (sort_by_len_cons _ _ _ E) as Hmem. split.
      * intros [[H0 Hall]|[]] s Hs. apply Hmem in Hs. destruct Hs as [Heq|Hin]; [subst s; exact H0 | apply Hall; exact Hin].
      * intros H. left. split.
        -- apply H. apply Hmem. left. reflexivity.
        -- intros s Hs. apply H. apply Hmem. right. exact Hs.
Qed.

Lemma intersects_loop_spec : forall s0 rest,
    intersects_loop s0 rest = true <-> exists k, In k s0 /\ forall s, In s rest -> In k s.
Proof.
  induction s0 as [|k t IH]; intros rest; simpl.
  - split; [discriminate | intros [k [[] _]]].
  - destruct (in_all k rest) eqn:E.
    + rewrite in_all_spec in E. split; [intros _ | reflexivity].
      exists k. split; [left; reflexivity | exact E].
    + assert (Hn : ~ (forall s, In s rest -> In k s)).
      { rewrite <- in_all_spec. rewrite E. discriminate. }
      rewrite IH. split.
      * intros [k' [Hin Hall]]. exists k'. split; [right; exact Hin | exact Hall].
      * intros [k' [[Heq|Hin] Hall]]; [subst k'; contradiction | exists k'; split; assumption].
Qed.

Theorem intersects_spec : forall sets,
    intersects sets = true <-> (sets <> [] /\ exists k, forall s, In s sets -> In k s).
Proof.
  intros sets. unfold intersects. destruct (sort_by_len sets) as [|s0 rest] eqn:E.
  - apply (proj1 (sort_by_len_nil _)) in E. split; [discriminate | intros [Hne _]; contradiction].
  - pose proof (sort_by_len_cons _ _ _ E) as Hmem. rewrite intersects_loop_spec. split.
    + intros [k [H0 Hall]]. split; [intros Hnil; subst sets; discriminate E|].
      exists k. intros s Hs. apply Hmem in Hs. destruct Hs as [Heq|Hin]; [subst s; exact H0 | apply Hall; exact Hin].
    + intros [_ [k H]]. exists k. split.
      * apply H. apply Hmem. left. reflexivity.
      * intros s Hs. apply H. apply Hmem. right. exact Hs.
Qed.

(* ------------------------------------------------------------------------------------------------ *)
(* Difference                                                                                       *)
(* ------------------------------------------------------------------------------------------------ *)

Lemma diff_loop_In : forall a b out x,
    In x (diff_loop a b out) <-> (In x a /\ ~ In x b) \/ In x out.
Proof.
  induction a as [|k t IH]; intros b out x; simpl.
  - split; [intros H; right; exact H | intros [[[] _]|H]; exact H].
  - rewrite IH. destruct (smem k b) eqn:E.
    + apply smem_In in E. split.
      * intros [[Hin Hnb]|Hout]; [left; split; [right; exact Hin | exact Hnb] | right; exact Hout].
      * intros [[[Heq|Hin] Hnb]|Hout].
        -- subst x. contradiction.
        -- left. split; assumption.
        -- right. exact Hout.
    + apply smem_false in E. rewrite sadd_In. split.
      * intros [[Hin Hnb]|[Heq|Hout]].
        -- left. split; [right; exact Hin | exact Hnb].
        -- subst x. left. split; [left; reflexivity | exact E].
        -- right. exact Hout.
      * intros [[[Heq|Hin] Hnb]|Hout].
        -- right. left. congruence.
        -- left. split; assumption.
        -- right. right. exact Hout.
Qed.

Lemma diff_loop_NoDup : forall a b out, NoDup out -> NoDup (diff_loop a b out).
Proof.
  induction a as [|k t IH]; intros b out Hnd; simpl; [exact Hnd|].
  apply IH. destruct (smem k b); [exact Hnd | apply sadd_NoDup; exact Hnd].
Qed.

Theorem difference_spec : forall a b,
    NoDup (difference a b) /\ (forall k, In k (difference a b) <-> In k a /\ ~ In k b).
Proof.
  intros a b. unfold difference. split.
  - apply diff_loop_NoDup. constructor.
  - intros k. rewrite diff_loop_In. simpl. tauto.
Qed.

(* ------------------------------------------------------------------------------------------------ *)
(* Independence of the iteration order of the inputs                                                *)
(* ------------------------------------------------------------------------------------------------ *)

Lemma Forall2_perm_exists : forall (sets sets' : list (list Z)) k, Forall2 (@Permutation Z) sets sets' ->
    ((exists s, In s sets /\ In k s) <-> (exists s, In s sets' /\ In k s)).
Proof.
  intros sets sets' k HF. induction HF as [|s s' r r' HP HF IH].
  - split; intros [s [[] _]].
  - split.
    + intros [x [[Heq|Hin] Hk]].
      * subst x. exists s'. split; [left; reflexivity | apply (Permutation_in _ HP); exact Hk].
      * destruct (proj1 IH (ex_intro _ x (conj Hin Hk))) as [y [Hy Hky]].
        exists y. split; [right; exact Hy | exact Hky].
    + intros [x [[Heq|Hin] Hk]].
      * subst x. exists s. split; [left; reflexivity | apply (Permutation_in _ (Permutation_sym HP)); exact Hk].
      * destruct (proj2 IH (ex_intro _ x (conj Hin Hk))) as [y [Hy Hky]].
        exists y. split; [right; exact Hy | exact Hky].
Qed.

Lemma Forall2_perm_forall : forall (sets sets' : list (list Z)) k, Forall2 (@Permutation Z) sets sets' ->
    ((forall s, In s sets -> In k s) <-> (forall s, In s sets' -> In k s)).
Proof.
  intros sets sets' k HF. induction HF as [|s s' r r' HP HF IH].
  - split; intros _ s [].
  - split.
    + intros H x [Heq|Hin].
      * subst x. apply (Permutation_in _ HP). apply H. left. reflexivity.
      * apply (proj1 IH); [|exact Hin]. intros y Hy. apply H. right. exact Hy.
    + intros H x [Heq|Hin].
      * subst x. apply (Permutation_in _ (Permutation_sym HP)). apply H. left. reflexivity.
      * apply (proj2 IH); [|exact Hin]. intros y Hy. apply H. right. exact Hy.
Qed.

Theorem union_order_independent : forall sets sets', Forall2 (@Permutation Z) sets sets' ->
    forall k, In k (union sets) <-> In k (union sets').
Proof.
  intros sets sets' HF k.
  rewrite (proj2 (union_spec sets) k), (proj2 (union_spec sets') k).
  apply Forall2_perm_exists. exact HF.
Qed.

Theorem intersection_order_independent : forall sets sets', Forall2 (@Permutation Z) sets sets' ->
    forall k, In k (intersection sets) <-> In k (intersection sets').
Proof.
  intros sets sets' HF k.
  destruct HF as [|s s' r r' HP HF'].
  - tauto.
  - destruct (intersection_spec (s :: r)) as [_ [_ Hne]].
    destruct (intersection_spec (s' :: r')) as [_ [_ Hne']].
    rewrite (Hne ltac:(discriminate) k), (Hne' ltac:(discriminate) k).
    apply Forall2_perm_forall. constructor; assumption.
Qed.

(* ------------------------------------------------------------------------------------------------ *)
(* Basic facts: mget / mset, snoc lists, znth                                                       *)
(* ------------------------------------------------------------------------------------------------ *)

Lemma mget_mset_same : forall k v m, mget (mset k v m) k = Some v.
Proof.
  intros k v m. induction m as [|[k' v'] r IH]; simpl.
  - rewrite Z.eqb_refl. reflexivity.
  - destruct (k =? k') eqn:E; simpl.
    + rewrite Z.eqb_refl. reflexivity.
    + rewrite E. exact IH.
Qed.

Lemma mget_mset_other : forall k v m k0, k0 <> k -> mget (mset k v m) k0 = mget m k0.
Proof.
  intros k v m k0 Hne. induction m as [|[k' v'] r IH]; simpl.
  - apply Z.eqb_neq in Hne. rewrite Hne. reflexivity.
  - destruct (k =? k') eqn:E; simpl.
    + apply Z.eqb_eq in E. subst k'. apply Z.eqb_neq in Hne. rewrite Hne. reflexivity.
    + destruct (k0 =? k'); [reflexivity | exact IH].
Qed.

Lemma mset_keys : forall k v m x, In x (map fst (mset k v m)) <-> x = k \/ In x (map fst m).
Proof.
  intros k v m x. induction m as [|[k' v'] r IH]; simpl.
  - split; intros [H|H]; try contradiction; left; congruence.
  - destruct (k =? k') eqn:E; simpl.
    + apply Z.eqb_eq in E. subst k'. split.
      * intros [H|H]; [left; congruence | right; right; exact H].
      * intros [H|[H|H]]; [left; congruence | left; exact H | right; exact H].
    + rewrite IH. tauto.
Qed.

Lemma mset_is_map : forall k v m, is_map m -> is_map (mset k v m).
Proof.
  unfold is_map. intros k v m. induction m as [|[k' v'] r IH]; intros Hnd; simpl.
  - constructor; [intros [] | constructor].
  - simpl in Hnd. inversion Hnd as [|y l Hnotin Hnd']; subst.
    destruct (k =? k') eqn:E; simpl.
    + apply Z.eqb_eq in E. subst k'. constructor; assumption.
    + apply Z.eqb_neq in E. constructor.
      * rewrite mset_keys. intros [H|H]; [congruence | contradiction].
      * apply IH. exact Hnd'.
Qed.

Lemma NoDup_snoc : forall (l : list Z) x, NoDup (l ++ [x]) <-> NoDup l /\ ~ In x l.
Proof.
  intros l x. split.
  - intros H. apply (Permutation_NoDup (Permutation_sym (Permutation_cons_append l x))) in H.
    inversion H as [|y l' Hnotin Hnd]; subst. split; assumption.
  - intros [Hnd Hnotin]. apply (Permutation_NoDup (Permutation_cons_append l x)).
    constructor; assumption.
Qed.

Lemma znth_snoc_lt : forall d x i, 0 <= i < zlen d -> znth (d ++ [x]) i = znth d i.
Proof.
  intros d x i Hi. unfold znth. unfold zlen in Hi. apply app_nth1. lia.
Qed.

Lemma znth_snoc_eq : forall (d d' : list Z) x, zlen d' = zlen d -> znth (d ++ [x]) (zlen d') = x.
Proof.
  intros d d' x Hlen. unfold znth. rewrite Hlen. unfold zlen. rewrite Nat2Z.id.
  rewrite app_nth2; [|lia]. rewrite Nat.sub_diag. reflexivity.
Qed.

Lemma znth_In : forall d i, 0 <= i < zlen d -> In (znth d i) d.
Proof.
  intros d i Hi. unfold znth. unfold zlen in Hi. apply nth_In. lia.
Qed.

Lemma zlen_snoc : forall (d : list Z) x, zlen (d ++ [x]) = zlen d + 1.
Proof. intros d x. rewrite zlen_app. reflexivity. Qed.

(* ------------------------------------------------------------------------------------------------ *)
(* Reverse                                                                                          *)
(* ------------------------------------------------------------------------------------------------ *)

(* lookup in the result of Reverse (value -> keys) *)
Fixpoint rget (r : list (Z * list Z)) (v : Z) : option (list Z) :=
  match r with [] => None | (v', l) :: t => if v =? v' then Some l else rget t v end.

Lemma rget_In : forall r v l, rget r v = Some l -> In (v, l) r.
Proof.
  induction r as [|[v' l'] t IH]; intros v l H; simpl in *.
  - discriminate.
  - destruct (v =? v') eqn:E.
    + apply Z.eqb_eq in E. left. congruence.
    + right. apply IH. exact H.
Qed.

Lemma In_rget : forall r v l, NoDup (map fst r) -> In (v, l) r -> rget r v = Some l.
Proof.
  induction r as [|[v' l'] t IH]; intros v l Hnd Hin; simpl in *.
  - contradiction.
  - inversion Hnd as [|y ys Hnotin Hnd']; subst.
    destruct Hin as [Heq|Hin].
    + inversion Heq; subst. rewrite Z.eqb_refl. reflexivity.
    + destruct (v =? v') eqn:E.
      * apply Z.eqb_eq in E. subst v'. exfalso. apply Hnotin.
        apply (in_map fst) in Hin. exact Hin.
      * apply IH; assumption.
Qed.

Lemma rget_rev_add_same : forall v k r,
    rget (rev_add v k r) v = Some (match rget r v with Some l0 => l0 ++ [k] | None => [k] end).
Proof.
  intros v k r. induction r as [|[v' l'] t IH]; simpl.
  - rewrite Z.eqb_refl. reflexivity.
  - destruct (v =? v') eqn:E; simpl; rewrite E; [reflexivity | exact IH].
Qed.

Lemma rget_rev_add_other : forall v k r v0, v0 <> v -> rget (rev_add v k r) v0 = rget r v0.
Proof.
  intros v k r v0 Hne. induction r as [|[v' l'] t IH]; simpl.
  - apply Z.eqb_neq in Hne. rewrite Hne. reflexivity.
  - destruct (v =? v') eqn:E; simpl.
    + apply Z.eqb_eq in E. subst v'. apply Z.eqb_neq in Hne. rewrite Hne. reflexivity.
    + destruct (v0 =? v'); [reflexivity | exact IH].
Qed.

Lemma rev_add_keys : forall v k r x, In x (map fst (rev_add v k r)) <-> x = v \/ In x (map fst r).
Proof.
  intros v k r x. induction r as [|[v' l'] t IH]; simpl.
  - split; intros [H|H]; try contradiction; left; congruence.
  - destruct (v =? v') eqn:E; simpl.
    + apply Z.eqb_eq in E. subst v'. split.
      * intros H. right. exact H.
      * intros [H|H]; [left; congruence | exact H].
    + rewrite IH. tauto.
Qed.

Lemma rev_add_NoDup : forall v k r, NoDup (map fst r) -> NoDup (map fst (rev_add v k r)).
Proof.
  intros v k r. induction r as [|[v' l'] t IH]; intros Hnd; simpl.
  - constructor; [intros [] | constructor].
  - simpl in Hnd. inversion Hnd as [|y ys Hnotin Hnd']; subst.
    destruct (v =? v') eqn:E; simpl.
    + constructor; assumption.
    + apply Z.eqb_neq in E. constructor.
      * rewrite rev_add_keys. intros [H|H]; [congruence | contradiction].
      * apply IH. exact Hnd'.
Qed.

(* invariant of the Reverse loop: [d] are the entries already visited *)
Definition rev_inv (d : zmap) (r : list (Z * list Z)) : Prop :=
  NoDup (map fst r) /\
  (forall v l, rget r v = Some l -> l <> [] /\ NoDup l /\ forall k, In k l <-> In (k, v) d) /\
  (forall k v, In (k, v) d -> exists l, rget r v = Some l).

Lemma rev_inv_step : forall d r k v, ~ In k (map fst d) -> rev_inv d r -> rev_inv (d ++ [(k, v)]) (rev_add v k r).
Proof.
  intros d r k v Hfresh [Hnd [Hsound Hcompl]]. split; [apply rev_add_NoDup; exact Hnd|]. split.
  - intros v0 l Hget. destruct (Z.eq_dec v0 v) as [Heq|Hne].
    + subst v0. rewrite rget_rev_add_same in Hget. inversion Hget as [Hl]. clear Hget.
      destruct (rget r v) as [l0|] eqn:E.
      * destruct (Hsound v l0 E) as [Hne0 [Hnd0 Hmem0]]. split; [|split].
        -- intros Habs. apply app_eq_nil in Habs. destruct Habs as [_ Habs]. discriminate Habs.
        -- apply NoDup_snoc. split; [exact Hnd0|]. intros Hin. apply Hmem0 in Hin.
           apply Hfresh. apply (in_map fst) in Hin. exact Hin.
        -- intros k0. rewrite !in_app_iff. rewrite Hmem0. simpl. split.
           ++ intros [H|[H|[]]]; [left; exact H | right; left; congruence].
           ++ intros [H|[H|[]]]; [left; exact H | right; left; congruence].
      * split; [discriminate|]. split; [constructor; [intros [] | constructor]|].
        intros k0. rewrite in_app_iff. simpl. split.
        -- intros [H|[]]. right. left. congruence.
        -- intros [H|[H|[]]].
           ++ destruct (Hcompl k0 v H) as [l1 Hl1]. congruence.
           ++ left. congruence.
    + rewrite rget_rev_add_other in Hget by exact Hne.
      destruct (Hsound v0 l Hget) as [Hne0 [Hnd0 Hmem0]]. split; [exact Hne0|]. split; [exact Hnd0|].
      intros k0. rewrite Hmem0, in_app_iff. simpl. split.
      * intros H. left. exact H.
      * intros [H|[H|[]]]; [exact H | congruence].
  - intros k0 v0 Hin. apply in_app_iff in Hin. destruct (Z.eq_dec v0 v) as [Heq|Hne].
    + subst v0. rewrite rget_rev_add_same. eexists. reflexivity.
    + rewrite rget_rev_add_other by exact Hne. destruct Hin as [Hin|[Hin|[]]].
      * apply (Hcompl k0 v0 Hin).
      * congruence.
Qed.

Lemma reverse_loop_inv : forall m d r, is_map (d ++ m) -> rev_inv d r -> rev_inv (d ++ m) (reverse_loop m r).
Proof.
  induction m as [|[k v] t IH]; intros d r Hmap Hinv; simpl.
  - rewrite app_nil_r. exact Hinv.
  - replace (d ++ (k, v) :: t) with ((d ++ [(k, v)]) ++ t) in * by (rewrite <- app_assoc; reflexivity).
    apply IH; [exact Hmap|]. apply rev_inv_step; [|exact Hinv].
    unfold is_map in Hmap. rewrite !map_app in Hmap. simpl in Hmap.
    rewrite <- app_assoc in Hmap. simpl in Hmap. apply NoDup_remove_2 in Hmap.
    intros Hin. apply Hmap. apply in_or_app. left. exact Hin.
Qed.

Theorem reverse_map_spec : forall m, is_map m ->
    NoDup (map fst (reverse_map m)) /\
    (forall v l, In (v, l) (reverse_map m) -> l <> [] /\ NoDup l /\ forall k, In k l <-> In (k, v) m) /\
    (forall k v, In (k, v) m -> exists l, In (v, l) (reverse_map m)).
Proof.
  intros m Hmap. unfold reverse_map.
  assert (H0 : rev_inv [] []).
  { split; [constructor|]. split; [intros v l H; discriminate H | intros k v []]. }
  destruct (reverse_loop_inv m [] [] Hmap H0) as [Hnd [Hsound Hcompl]]. simpl in *.
  split; [exact Hnd|]. split.
  - intros v l Hin. apply Hsound. apply In_rget; assumption.
  - intros k v Hin. destruct (Hcompl k v Hin) as [l Hl]. exists l. apply rget_In. exact Hl.
Qed.

(* ------------------------------------------------------------------------------------------------ *)
(* ReverseSingle                                                                                    *)
(* ------------------------------------------------------------------------------------------------ *)

Definition rs_inv (d : zmap) (r : zmap) (ok : bool) : Prop :=
  is_map r /\
  (ok = true <-> NoDup (map snd d)) /\
  (forall v k, mget r v = Some k -> In (k, v) d) /\
  (forall k v, In (k, v) d -> exists k', mget r v = Some k').

Lemma rs_inv_step : forall d r ok k v, rs_inv d r ok ->
    rs_inv (d ++ [(k, v)]) (mset v k r) (match mget r v with Some _ => false | None => ok end).
Proof.
  intros d r ok k v [Hmap [Hok [Hsound Hcompl]]]. split; [apply mset_is_map; exact Hmap|]. split; [|split].
  - rewrite map_app. simpl. rewrite NoDup_snoc. destruct (mget r v) as [k1|] eqn:E.
    + split; [discriminate|]. intros [_ Hnotin]. exfalso. apply Hnotin.
      apply Hsound in E. apply (in_map snd) in E. exact E.
    + rewrite Hok. split; [|intros [H _]; exact H].
      intros Hnd. split; [exact Hnd|]. intros Hin. apply in_map_iff in Hin.
      destruct Hin as [[k1 v1] [Hv Hin]]. simpl in Hv. subst v1.
      destruct (Hcompl k1 v Hin) as [k' Hk']. congruence.
  - intros v0 k0 Hget. apply in_or_app. destruct (Z.eq_dec v0 v) as [Heq|Hne].
    + subst v0. rewrite mget_mset_same in Hget. right. left. congruence.
    + rewrite mget_mset_other in Hget by exact Hne. left. apply Hsound. exact Hget.
  - intros k0 v0 Hin. destruct (Z.eq_dec v0 v) as [Heq|Hne].
    + subst v0. rewrite mget_mset_same. eexists. reflexivity.
    + rewrite mget_mset_other by exact Hne. apply in_app_iff in Hin. destruct Hin as [Hin|[Hin|[]]].
      * apply (Hcompl k0 v0 Hin).
      * congruence.
Qed.

Lemma reverse_single_loop_inv : forall m d r ok, rs_inv d r ok ->
    rs_inv (d ++ m) (fst (reverse_single_loop m r ok)) (snd (reverse_single_loop m r ok)).
Proof.
  induction m as [|[k v] t IH]; intros d r ok Hinv; simpl.
  - rewrite app_nil_r. exact Hinv.
  - replace (d ++ (k, v) :: t) with ((d ++ [(k, v)]) ++ t) by (rewrite <- app_assoc; reflexivity).
    apply IH. apply rs_inv_step. exact Hinv.
Qed.

Theorem reverse_single_spec : forall m r ok, is_map m -> reverse_single m = (r, ok) ->
    is_map r /\
    (ok = true <-> NoDup (map snd m)) /\
    (forall v k, mget r v = Some k -> In (k, v) m) /\
    (forall k v, In (k, v) m -> exists k', mget r v = Some k').
Proof.
  intros m r ok _ Hrun. unfold reverse_single in Hrun.
  assert (H0 : rs_inv [] [] true).
  { split; [constructor|]. split; [split; [intros _; constructor | reflexivity]|].
    split; [intros v k H; discriminate H | intros k v []]. }
  pose proof (reverse_single_loop_inv m [] [] true H0) as H. rewrite Hrun in H. simpl in H. exact H.
Qed.

(* ------------------------------------------------------------------------------------------------ *)
(* FromKeysAndValues / ToIndex                                                                      *)
(* ------------------------------------------------------------------------------------------------ *)

Definition kv_inv (dk dv : list Z) (m : zmap) : Prop :=
  zlen dk = zlen dv /\
  is_map m /\
  (forall k v, mget m k = Some v ->
      exists i, 0 <= i < zlen dk /\ znth dk i = k /\ znth dv i = v /\
                forall j, i < j < zlen dk -> znth dk j <> k) /\
  (forall k, In k dk -> exists v, mget m k = Some v).

Lemma kv_inv_step : forall dk dv m k v, kv_inv dk dv m -> kv_inv (dk ++ [k]) (dv ++ [v]) (mset k v m).
Proof.
  intros dk dv m k v [Hlen [Hmap [Hsound Hcompl]]]. split; [rewrite !zlen_snoc; lia|].
  split; [apply mset_is_map; exact Hmap|]. split.
  - intros k0 v0 Hget. rewrite zlen_snoc. destruct (Z.eq_dec k0 k) as [Heq|Hne].
    + subst k0. rewrite mget_mset_same in Hget. inversion Hget; subst v0.
      exists (zlen dk). pose proof (zlen_nonneg dk) as Hnn. split; [lia|]. split; [|split].
      * apply znth_snoc_eq. reflexivity.
      * apply znth_snoc_eq. exact Hlen.
      * intros j Hj. lia.
    + rewrite mget_mset_other in Hget by exact Hne.
      destruct (Hsound k0 v0 Hget) as [i [Hi [Hki [Hvi Hlast]]]].
      exists i. split; [lia|]. split; [|split].
      * rewrite znth_snoc_lt by exact Hi. exact Hki.
      * rewrite znth_snoc_lt by lia. exact Hvi.
      * intros j Hj. destruct (Z.eq_dec j (zlen dk)) as [Hjeq|Hjne].
        -- subst j. rewrite (znth_snoc_eq dk dk k eq_refl). congruence.
        -- rewrite znth_snoc_lt by lia. apply Hlast. lia.
  - intros k0 Hin. destruct (Z.eq_dec k0 k) as [Heq|Hne].
    + subst k0. rewrite mget_mset_same. eexists. reflexivity.
    + rewrite mget_mset_other by exact Hne. apply in_app_iff in Hin. destruct Hin as [Hin|[Hin|[]]].
      * apply Hcompl. exact Hin.
      * congruence.
Qed.

(* [mget m k] is defined exactly for the visited keys *)
Lemma kv_inv_dom : forall dk dv m k, kv_inv dk dv m -> (mget m k = None <-> ~ In k dk).
Proof.
  intros dk dv m k [Hlen [Hmap [Hsound Hcompl]]]. split.
  - intros Hnone Hin. destruct (Hcompl k Hin) as [v Hv]. congruence.
  - intros Hnotin. destruct (mget m k) as [v|] eqn:E; [|reflexivity].
    exfalso. apply Hnotin. destruct (Hsound k v E) as [i [Hi [Hki _]]]. rewrite <- Hki. apply znth_In. exact Hi.
Qed.

Lemma fkv_loop_inv : forall keys values, length keys = length values ->
    forall dk dv m ok, kv_inv dk dv m -> (ok = true <-> NoDup dk) ->
    kv_inv (dk ++ keys) (dv ++ values) (fst (fkv_loop keys values m ok)) /\
    (snd (fkv_loop keys values m ok) = true <-> NoDup (dk ++ keys)).
Proof.
  induction keys as [|k kt IH]; intros values Hlen dk dv m ok Hinv Hok.
  - destruct values as [|v vt]; [|discriminate Hlen]. simpl. rewrite !app_nil_r. split; assumption.
  - destruct values as [|v vt]; [discriminate Hlen|]. simpl.
    replace (dk ++ k :: kt) with ((dk ++ [k]) ++ kt) by (rewrite <- app_assoc; reflexivity).
    replace (dv ++ v :: vt) with ((dv ++ [v]) ++ vt) by (rewrite <- app_assoc; reflexivity).
    apply IH.
    + simpl in Hlen. congruence.
    + apply kv_inv_step. exact Hinv.
    + rewrite NoDup_snoc. pose proof (kv_inv_dom dk dv m k Hinv) as Hdom.
      destruct (mget m k) as [v1|] eqn:E.
      * split; [discriminate|]. intros [_ Hnotin]. apply Hdom in Hnotin. discriminate Hnotin.
      * rewrite Hok. split; [|intros [H _]; exact H].
        intros Hnd. split; [exact Hnd | apply Hdom; reflexivity].
Qed.

Lemma kv_inv_nil : kv_inv [] [] [].
Proof.
  split; [reflexivity|]. split; [constructor|]. split; [intros k v H; discriminate H | intros k []].
Qed.

Theorem from_keys_and_values_spec : forall keys values,
    (zlen keys <> zlen values -> exists c, from_keys_and_values keys values = Panic c) /\
    (zlen keys = zlen values -> exists m ok, from_keys_and_values keys values = Ok (m, ok) /\
        is_map m /\ (ok = true <-> NoDup keys) /\
        (forall k v, mget m k = Some v ->
            exists i, 0 <= i < zlen keys /\ znth keys i = k /\ znth values i = v /\
                      forall j, i < j < zlen keys -> znth keys j <> k) /\
        (forall k, In k keys -> exists v, mget m k = Some v)).
Proof.
  intros keys values. unfold from_keys_and_values. split.
  - intros Hne. apply Z.eqb_neq in Hne. rewrite Hne. simpl. eexists. reflexivity.
  - intros Heq. assert (Hlen : length keys = length values) by (unfold zlen in Heq; lia).
    apply Z.eqb_eq in Heq. rewrite Heq. simpl.
    assert (Hok0 : true = true <-> NoDup (@nil Z)) by (split; [intros _; constructor | reflexivity]).
    destruct (fkv_loop_inv keys values Hlen [] [] [] true kv_inv_nil Hok0) as [[_ [Hmap [Hsound Hcompl]]] Hok].
    simpl in *.
    exists (fst (fkv_loop keys values [] true)), (snd (fkv_loop keys values [] true)).
    rewrite <- surjective_pairing. split; [reflexivity|]. split; [exact Hmap|]. split; [exact Hok|].
    split; [exact Hsound | exact Hcompl].
Qed.

(* ToIndex is FromKeysAndValues with values[i] = i: same loop invariant, the visited values are 0 .. i-1 *)
Definition ti_inv (d : list Z) (m : zmap) : Prop :=
  is_map m /\
  (forall k i, mget m k = Some i ->
      0 <= i < zlen d /\ znth d i = k /\ forall j, i < j < zlen d -> znth d j <> k) /\
  (forall k, In k d -> exists i, mget m k = Some i).

Lemma ti_inv_step : forall d m k, ti_inv d m -> ti_inv (d ++ [k]) (mset k (zlen d) m).
Proof.
  intros d m k [Hmap [Hsound Hcompl]]. split; [apply mset_is_map; exact Hmap|]. split.
  - intros k0 i Hget. rewrite zlen_snoc. destruct (Z.eq_dec k0 k) as [Heq|Hne].
    + subst k0. rewrite mget_mset_same in Hget. inversion Hget; subst i.
      pose proof (zlen_nonneg d) as Hnn. split; [lia|]. split.
      * apply znth_snoc_eq. reflexivity.
      * intros j Hj. lia.
    + rewrite mget_mset_other in Hget by exact Hne.
      destruct (Hsound k0 i Hget) as [Hi [Hki Hlast]]. split; [lia|]. split.
      * rewrite znth_snoc_lt by exact Hi. exact Hki.
      * intros j Hj. destruct (Z.eq_dec j (zlen d)) as [Hjeq|Hjne].
        -- subst j. rewrite (znth_snoc_eq d d k eq_refl). congruence.
        -- rewrite znth_snoc_lt by lia. apply Hlast. lia.
  - intros k0 Hin. destruct (Z.eq_dec k0 k) as [Heq|Hne].
    + subst k0. rewrite mget_mset_same. eexists. reflexivity.
    + rewrite mget_mset_other by exact Hne. apply in_app_iff in Hin. destruct Hin as [Hin|[Hin|[]]].
      * apply Hcompl. exact Hin.
      * congruence.
Qed.

Lemma to_index_loop_inv : forall keys d m, ti_inv d m -> ti_inv (d ++ keys) (to_index_loop keys (zlen d) m).
Proof.
  induction keys as [|k t IH]; intros d m Hinv; simpl.
  - rewrite app_nil_r. exact Hinv.
  - replace (d ++ k :: t) with ((d ++ [k]) ++ t) by (rewrite <- app_assoc; reflexivity).
    rewrite <- (zlen_snoc d k). apply IH. apply ti_inv_step. exact Hinv.
Qed.

Theorem to_index_spec : forall keys,
    is_map (to_index keys) /\
    (forall k i, mget (to_index keys) k = Some i ->
        0 <= i < zlen keys /\ znth keys i = k /\ forall j, i < j < zlen keys -> znth keys j <> k) /\
    (forall k, In k keys -> exists i, mget (to_index keys) k = Some i).
Proof.
  intros keys. unfold to_index.
  assert (H0 : ti_inv [] []).
  { split; [constructor|]. split; [intros k i H; discriminate H | intros k []]. }
  exact (to_index_loop_inv keys [] [] H0).
Qed.

(* ------------------------------------------------------------------------------------------------ *)
(* Non-vacuity: the models run on non-trivial inputs and the hypotheses are satisfiable             *)
(* ------------------------------------------------------------------------------------------------ *)

Example ex_set_from_slice : set_from_slice [3; 1; 3; 2; 1] = [3; 1; 2].
Proof. vm_compute. reflexivity. Qed.

Example ex_set_add : NoDup [1; 2] /\ set_add [1; 2] 5 = [1; 2; 5] /\ set_add [1; 2] 2 = [1; 2].
Proof. split; [repeat constructor; simpl; intuition lia | vm_compute; split; reflexivity]. Qed.

Example ex_set_remove : NoDup [1; 2; 3] /\ set_remove [1; 2; 3] 2 = [1; 3].
Proof. split; [repeat constructor; simpl; intuition lia | vm_compute; reflexivity]. Qed.

Example ex_set_contains : set_contains [4; 7] 7 = true /\ set_contains [4; 7] 5 = false.
Proof. vm_compute. split; reflexivity. Qed.

Example ex_union : union [[1; 2]; [2; 3]; []; [7]] = [1; 2; 3; 7].
Proof. vm_compute. reflexivity. Qed.

Example ex_intersection : intersection [[1; 2; 3; 4]; [4; 2; 9]; [2; 4]] = [2; 4] /\ intersection [] = [].
Proof. vm_compute. split; reflexivity. Qed.

Example ex_intersects : intersects [[1; 2; 3]; [3; 9]] = true /\ intersects [[1; 2]; [3]] = false /\ intersects [] = false.
Proof. vm_compute. repeat split; reflexivity. Qed.

Example ex_difference : difference [1; 2; 3; 4] [2; 4; 8] = [1; 3].
Proof. vm_compute. reflexivity. Qed.

Example ex_order_independent :
  Forall2 (@Permutation Z) [[1; 2; 3]; [3; 2]] [[3; 1; 2]; [2; 3]] /\
  union [[1; 2; 3]; [3; 2]] = [1; 2; 3] /\ union [[3; 1; 2]; [2; 3]] = [3; 1; 2] /\
  intersection [[1; 2; 3]; [3; 2]] = [3; 2] /\ intersection [[3; 1; 2]; [2; 3]] = [2; 3].
Proof.
  split.
  - constructor; [|constructor; [|constructor]].
    + apply Permutation_sym. apply (Permutation_cons_append [1; 2] 3).
    + apply perm_swap.
  - vm_compute. repeat split; reflexivity.
Qed.

Example ex_reverse_map :
  is_map [(1, 10); (2, 20); (3, 10)] /\ reverse_map [(1, 10); (2, 20); (3, 10)] = [(10, [1; 3]); (20, [2])].
Proof. split; [unfold is_map; simpl; repeat constructor; simpl; intuition lia | vm_compute; reflexivity]. Qed.

Example ex_reverse_single :
  is_map [(1, 10); (2, 20); (3, 10)] /\
  reverse_single [(1, 10); (2, 20); (3, 10)] = ([(10, 3); (20, 2)], false) /\
  reverse_single [(1, 10); (2, 20)] = ([(10, 1); (20, 2)], true).
Proof.
  split; [unfold is_map; simpl; repeat constructor; simpl; intuition lia | vm_compute; split; reflexivity].
Qed.

Example ex_to_index : to_index [5; 6; 5; 7] = [(5, 2); (6, 1); (7, 3)].
Proof. vm_compute. reflexivity. Qed.

Example ex_from_keys_and_values :
  from_keys_and_values [5; 6; 5] [1; 2; 3] = Ok ([(5, 3); (6, 2)], false) /\
  from_keys_and_values [5; 6] [1; 2] = Ok ([(5, 1); (6, 2)], true) /\
  from_keys_and_values [5; 6] [1] = Panic POther.
Proof. vm_compute. repeat split; reflexivity. Qed.
