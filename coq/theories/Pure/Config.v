(* C19 configuration switches.  Each boolean selects, for one function, between the Go code
   AS IT IS in /repo (false) and the planned one-line fix (true).  The correspondence check
   (Pure/Corr.v) runs the models under THIS configuration against the real code; the C19
   theorems are proved for the fixed configuration and every defect of the current
   configuration has a [_refuted] witness in Pure/Proofs*.v.

   To record a fix made in /repo, flip the corresponding line to [true].  Nothing else changes.

   xslices_runs_fixed            Runs: [end := 1] and the final test [if len(s) > 0]
                                 (current code: [end := 0] / [if end > 0] loses a leading run
                                 of length one: Runs([1,2,2]) = [[],[2,2]], Runs([1]) = []).
   xslices_chunk_guard           Chunk: explicit [if chunkSize <= 0 { panic(...) }] up front
                                 (current code: Chunk(s, c) with c < 0 and len(s)+c-1 in (c, -c)
                                 returns [] instead of panicking, e.g. len 2, c = -2).
   xslices_chunk_no_overflow     Chunk: number of chunks computed without the intermediate sum
                                 len(s)+chunkSize-1, e.g. [len(s)/chunkSize + (len(s)%chunkSize != 0)]
                                 (current code: the sum wraps around for chunkSize > MaxInt-len(s)+1
                                 and make panics: Chunk([1,2], math.MaxInt)).
   xerrors_withstack_idempotent  WithStack: detect an existing stack with errors.As
                                 (current code: errors.Is(err, withStack{...}) can never succeed,
                                 the type is not comparable and has no Is method, so
                                 WithStack(WithStack(e)) wraps twice). *)
Definition xslices_runs_fixed : bool := true.
Definition xslices_chunk_guard : bool := true.
Definition xslices_chunk_no_overflow : bool := true.
Definition xerrors_withstack_idempotent : bool := true.
