(* Proofs for package xsort (C19): comparators, SliceIsSorted, Search, Merge, MergeSlices, MinK.
   Merge and MinK run on the heap model; the facts about New / Push / Pop come from Heap/Lemmas.v. *)
From Coq Require Import Permutation Sorted.
From Juniper Require Import Common.Base Pure.Slices Pure.Sort Pure.Spec Heap.Model Heap.Lemmas.

(* ------------------------------------------------------------------ strict weak orders *)
Section Order.
  Variable less : Z -> Z -> bool.
  Hypothesis SWO : strict_weak less.

  Lemma sw_irrefl a : less a a = false.
  Proof. destruct SWO as [H _]. apply H. Qed.
  Lemma sw_trans a b c : less a b = true -> less b c = true -> less a c = true.
  Proof. destruct SWO as [_ [H _]]. apply H. Qed.
  Lemma sw_incomp a b c : less a b = false -> less b c = false -> less a c = false.
  Proof. destruct SWO as [_ [_ H]]. apply H. Qed.
  Lemma sw_asym a b : less a b = true -> less b a = false.
  Proof.
    intros Hab. destruct (less b a) eqn:E; [|reflexivity].
    pose proof (sw_trans a b a Hab E) as H. rewrite sw_irrefl in H. discriminate.
  Qed.
End Order.

(* ------------------------------------------------------------------ comparators *)
Theorem greater_spec : forall less a b, greater less a b = less b a.
Proof. reflexivity. Qed.
Theorem less_or_equal_spec : forall less a b, less_or_equal less a b = negb (less b a).
Proof. reflexivity. Qed.
Theorem greater_or_equal_spec : forall less a b, greater_or_equal less a b = negb (less a b).
Proof. reflexivity. Qed.
Theorem equal_spec_ : forall less a b, equal_ less a b = true <-> (less a b = false /\ less b a = false).
Proof.
  intros less a b. unfold equal_. rewrite andb_true_iff, !negb_true_iff. tauto.
Qed.

Theorem reverse_less_spec : forall less, strict_weak less -> strict_weak (reverse_less less) /\
    (forall a b, reverse_less less a b = less b a).
Proof.
  intros less SWO. split; [|reflexivity].
  unfold reverse_less. split; [|split].
  - intros a. apply (sw_irrefl less SWO).
  - intros a b c Hab Hbc. apply (sw_trans less SWO c b a); assumption.
  - intros a b c Hab Hbc. apply (sw_incomp less SWO c b a); assumption.
Qed.

Theorem less_compare_spec : forall less a b, strict_weak less ->
    (less_compare less a b = -1 <-> less a b = true) /\
    (less_compare less a b = 1 <-> less b a = true) /\
    (less_compare less a b = 0 <-> (less a b = false /\ less b a = false)) /\
    less_compare less b a = - less_compare less a b.
Proof.
  intros less a b SWO. unfold less_compare.
  destruct (less a b) eqn:Eab.
  - rewrite (sw_asym less SWO a b Eab).
    split; [split; intros _; reflexivity|].
    split; [split; intros Hc; discriminate Hc|].
    split; [split; [intros Hc; discriminate Hc|intros [Hc _]; discriminate Hc]|reflexivity].
  - destruct (less b a) eqn:Eba.
    + split; [split; intros Hc; discriminate Hc|].
      split; [split; intros _; reflexivity|].
      split; [split; [intros Hc; discriminate Hc|intros [_ Hc]; discriminate Hc]|reflexivity].
    + split; [split; intros Hc; discriminate Hc|].
      split; [split; intros Hc; discriminate Hc|].
      split; [split; [intros _; split; reflexivity|intros _; reflexivity]|reflexivity].
Qed.

Theorem ordered_less_spec : forall a b, ordered_less a b = true <-> a < b.
Proof. intros a b. unfold ordered_less. apply Z.ltb_lt. Qed.

Example comparators_run :
  let less := fun a b => Z.quot a 10 <? Z.quot b 10 in
  (greater less 25 11, less_or_equal less 11 15, greater_or_equal less 11 15, equal_ less 11 15,
   reverse_less less 11 25, less_compare less 11 25, less_compare less 25 11, less_compare less 11 15)
  = (true, true, true, true, false, -1, 1, 0).
Proof. vm_compute. reflexivity. Qed.

(* ------------------------------------------------------------------ list access helpers *)
Lemma znth_cons_pos x (l : list Z) i : 0 < i -> znth (x :: l) i = znth l (i - 1).
Proof.
  intros H. unfold znth. replace (Z.to_nat i) with (S (Z.to_nat (i - 1))) by lia. reflexivity.
Qed.

Lemma znth_0 x (l : list Z) : znth (x :: l) 0 = x.
Proof. reflexivity. Qed.

Lemma zlen_cons' (x : Z) l : zlen (x :: l) = zlen l + 1.
Proof. rewrite zlen_cons. lia. Qed.

Lemma znth_In (l : list Z) i : 0 <= i < zlen l -> In (znth l i) l.
Proof. intros H. unfold znth. apply nth_In. unfold zlen in H. lia. Qed.

Lemma In_znth (l : list Z) x : In x l -> exists i, 0 <= i < zlen l /\ znth l i = x.
Proof.
  intros H. destruct (In_nth l x 0 H) as [n [Hn E]].
  exists (Z.of_nat n). unfold znth, zlen. rewrite Nat2Z.id. split; [lia|exact E].
Qed.

(* ------------------------------------------------------------------ SliceIsSorted *)
Lemma is_sorted_loop_spec less x : forall n,
    is_sorted_loop less x n = true <->
    (forall i, 0 < i <= Z.of_nat n -> less (znth x i) (znth x (i - 1)) = false).
Proof.
  induction n as [|n IH].
  - simpl. split; [intros _ i Hi; lia|reflexivity].
  - cbn [is_sorted_loop].
    destruct (less (znth x (Z.of_nat (S n))) (znth x (Z.of_nat n))) eqn:E.
    + split; [discriminate|]. intros H.
      specialize (H (Z.of_nat (S n)) ltac:(lia)).
      replace (Z.of_nat (S n) - 1) with (Z.of_nat n) in H by lia. congruence.
    + rewrite IH. split; intros H i Hi.
      * destruct (Z.eq_dec i (Z.of_nat (S n))) as [->|Hne].
        -- replace (Z.of_nat (S n) - 1) with (Z.of_nat n) by lia. exact E.
        -- apply H. lia.
      * apply H. lia.
Qed.

Theorem slice_is_sorted_adjacent : forall less x,
    slice_is_sorted less x = true <-> (forall i, 0 < i < zlen x -> less (znth x i) (znth x (i - 1)) = false).
Proof.
  intros less x. unfold slice_is_sorted. rewrite is_sorted_loop_spec.
  unfold zlen. split; intros H i Hi; apply H; lia.
Qed.

Lemma nondecreasing_adjacent less (SWO : strict_weak less) : forall x,
    nondecreasing less x <-> (forall i, 0 < i < zlen x -> less (znth x i) (znth x (i - 1)) = false).
Proof.
  induction x as [|a t IH].
  - split; [intros _ i Hi; unfold zlen in Hi; simpl in Hi; lia|intros _; constructor].
  - split.
    + intros Hs i Hi. inversion Hs as [|a' t' Ht Hall]; subst.
      rewrite zlen_cons' in Hi.
      destruct (Z.eq_dec i 1) as [->|Hne].
      * replace (1 - 1) with 0 by lia. rewrite znth_0, znth_cons_pos by lia.
        replace (1 - 1) with 0 by lia.
        rewrite Forall_forall in Hall. apply Hall. apply znth_In. lia.
      * rewrite (znth_cons_pos a t i) by lia. rewrite (znth_cons_pos a t (i - 1)) by lia.
        apply (proj1 IH Ht). lia.
    + intros H.
      assert (Ht : nondecreasing less t).
      { apply IH. intros i Hi. specialize (H (i + 1)). rewrite zlen_cons' in H.
        rewrite (znth_cons_pos a t (i + 1)) in H by lia.
        replace (i + 1 - 1) with i in H by lia.
        rewrite (znth_cons_pos a t i) in H by lia. apply H. lia. }
      constructor; [exact Ht|].
      destruct t as [|b t']; [constructor|].
      assert (Hab : less b a = false).
      { specialize (H 1). rewrite zlen_cons', zlen_cons' in H.
        pose proof (zlen_nonneg t'). apply H. lia. }
      constructor; [exact Hab|].
      inversion Ht as [|b' t'' Ht' Hall]; subst.
      rewrite Forall_forall in *. intros y Hy.
      apply (sw_incomp less SWO y b a); [apply Hall; exact Hy|exact Hab].
Qed.

Theorem slice_is_sorted_spec : forall less x, strict_weak less ->
    (slice_is_sorted less x = true <-> nondecreasing less x).
Proof.
  intros less x SWO. rewrite slice_is_sorted_adjacent. symmetry. apply nondecreasing_adjacent. exact SWO.
Qed.

Example slice_is_sorted_runs :
  let less := fun a b => Z.quot a 10 <? Z.quot b 10 in
  (slice_is_sorted less [10; 25; 21; 30], slice_is_sorted less [10; 30; 21], slice_is_sorted less []) = (true, false, true).
Proof. vm_compute. reflexivity. Qed.

(* ------------------------------------------------------------------ Search *)
Lemma search_loop_spec (f : Z -> bool) n : forall fuel i j,
    0 <= i <= j -> j <= n -> j - i < Z.of_nat fuel ->
    (0 < i -> f (i - 1) = false) -> (j < n -> f j = true) ->
    let r := search_loop f fuel i j in
    i <= r <= j /\ (r < n -> f r = true) /\ (0 < r -> f (r - 1) = false).
Proof.
  induction fuel as [|fuel IH]; intros i j Hij Hjn Hfuel Hlo Hhi; [lia|].
  cbn [search_loop].
  destruct (i <? j) eqn:E.
  - apply Z.ltb_lt in E.
    assert (Hh : i <= (i + j) / 2 < j).
    { split; [apply Z.div_le_lower_bound; lia|apply Z.div_lt_upper_bound; lia]. }
    destruct (f ((i + j) / 2)) eqn:Ef; cbn [negb].
    + specialize (IH i ((i + j) / 2) ltac:(lia) ltac:(lia) ltac:(lia) Hlo (fun _ => Ef)).
      cbv zeta in IH. destruct IH as [H1 [H2 H3]]. repeat split; try lia; assumption.
    + specialize (IH ((i + j) / 2 + 1) j ltac:(lia) ltac:(lia) ltac:(lia)).
      assert (Hlo' : 0 < (i + j) / 2 + 1 -> f ((i + j) / 2 + 1 - 1) = false).
      { intros _. replace ((i + j) / 2 + 1 - 1) with ((i + j) / 2) by lia. exact Ef. }
      specialize (IH Hlo' Hhi). cbv zeta in IH. destruct IH as [H1 [H2 H3]].
      repeat split; try lia; assumption.
  - apply Z.ltb_ge in E. assert (i = j) by lia. subst j.
    repeat split; try lia; assumption.
Qed.

Theorem search_contract : forall less x item,
    let f := fun i => less item (znth x i) || negb (less (znth x i) item) in
    let r := search less x item in
    0 <= r <= zlen x /\ (r < zlen x -> f r = true) /\ (0 < r -> f (r - 1) = false).
Proof.
  intros less x item f r. unfold r, search, sort_search.
  pose proof (zlen_nonneg x) as Hn.
  apply (search_loop_spec f (zlen x)); try lia.
Qed.

Theorem search_spec : forall less x item, strict_weak less -> nondecreasing less x ->
    let r := search less x item in
    0 <= r <= zlen x /\
    (forall i, 0 <= i < r -> less (znth x i) item = true) /\
    (forall i, r <= i < zlen x -> less (znth x i) item = false).
Proof.
  intros less x item SWO Hs r.
  destruct (search_contract less x item) as [Hr [Hhi Hlo]]. fold r in Hr, Hhi, Hlo.
  (* under a strict weak order, f i = negb (less x[i] item) *)
  assert (Hf : forall i, (less item (znth x i) || negb (less (znth x i) item)) = negb (less (znth x i) item)).
  { intros i. destruct (less (znth x i) item) eqn:E; cbn [negb]; [|apply orb_true_r].
    rewrite (sw_asym less SWO _ _ E). reflexivity. }
  (* sortedness: i <= j -> not less x[j] x[i] *)
  assert (Hmono : forall i j, 0 <= i <= j -> j < zlen x -> less (znth x j) (znth x i) = false).
  { clear -SWO Hs. induction Hs as [|a t Ht IH Hall]; intros i j Hij Hj.
    - unfold zlen in Hj; simpl in Hj; lia.
    - rewrite zlen_cons' in Hj. destruct (Z.eq_dec i 0) as [->|Hi].
      + destruct (Z.eq_dec j 0) as [->|Hj0]; [apply (sw_irrefl less SWO)|].
        rewrite znth_0, znth_cons_pos by lia. rewrite Forall_forall in Hall.
        apply Hall. apply znth_In. lia.
      + rewrite (znth_cons_pos a t i), (znth_cons_pos a t j) by lia. apply IH; lia. }
  split; [exact Hr|]. split.
  - intros i Hi. assert (Hr0 : 0 < r) by lia. specialize (Hlo Hr0). rewrite Hf in Hlo.
    apply negb_false_iff in Hlo.
    destruct (less (znth x i) item) eqn:E; [reflexivity|].
    (* x[r-1] <= ... : not less x[r-1] x[i], not less x[i] item => not less x[r-1] item *)
    pose proof (Hmono i (r - 1) ltac:(lia) ltac:(lia)) as Hm.
    rewrite (sw_incomp less SWO _ _ _ Hm E) in Hlo. discriminate.
  - intros i Hi. specialize (Hhi ltac:(lia)). rewrite Hf in Hhi. apply negb_true_iff in Hhi.
    pose proof (Hmono r i ltac:(lia) ltac:(lia)) as Hm.
    apply (sw_incomp less SWO _ _ _ Hm Hhi).
Qed.

Example search_runs :
  let less := fun a b => Z.quot a 10 <? Z.quot b 10 in
  (search less [10; 25; 21; 30; 41] 22, search less [10; 25; 21; 30; 41] 5, search less [10; 25; 21; 30; 41] 99,
   search less [] 3) = (1, 0, 5, 0).
Proof. vm_compute. reflexivity. Qed.

(* ------------------------------------------------------------------ heap facts (from Heap/Lemmas.v) *)
Section HeapFacts.
  Context {T IS : Type}.
  Variable zero : T.
  Variable less : T -> T -> bool.
  Variable on_index : T -> Z -> IS -> IS.

  Lemma hf_new initial s0 :
    exists h, Heap.Model.new less on_index initial s0 = Ok h /\ Permutation initial (ha h) /\
              (strict_weak less -> heap_ordered less (ha h)).
  Proof.
    destruct (new_spec less on_index initial s0) as [c1 [Hs [E Ho]]].
    eexists. split; [exact E|]. cbn [ha]. split; [|exact Ho].
    apply swaps_perm in Hs. exact Hs.
  Qed.

  Lemma hf_push x (h : heap T IS) :
    exists h', Heap.Model.push less on_index x h = Ok h' /\ Permutation (x :: ha h) (ha h') /\
               (strict_weak less -> heap_ordered less (ha h) -> heap_ordered less (ha h')).
  Proof.
    destruct (push_spec less on_index x h) as [c' [E [Hs Ho]]].
    eexists. split; [exact E|]. cbn [ha]. split; [|exact Ho].
    apply swaps_perm in Hs. cbn [fst] in Hs.
    eapply perm_trans; [apply Permutation_cons_append|exact Hs].
  Qed.

  Lemma hf_pop (h : heap T IS) : ha h <> [] ->
    exists item h', Heap.Model.pop zero less on_index h = Ok (item, h') /\
                    Permutation (ha h) (item :: ha h') /\
                    (strict_weak less -> heap_ordered less (ha h) ->
                     heap_ordered less (ha h') /\ forall y, In y (ha h) -> less y item = false).
  Proof.
    intros Hne.
    destruct (zget_in_range (ha h) 0) as [item Hitem].
    { destruct (ha h) as [|a t]; [congruence|]. rewrite zlen_cons. pose proof (zlen_nonneg t). lia. }
    destruct (pop_spec zero less on_index h item Hitem) as [lst [c' [Hlst [E [Hs Ho]]]]].
    exists item. eexists. split; [exact E|]. cbn [ha]. split.
    - eapply perm_trans; [apply (cut_perm (ha h) 0 item lst Hitem Hlst)|].
      apply perm_skip. apply swaps_perm in Hs. exact Hs.
    - intros SWO Hord. split; [apply Ho; assumption|].
      intros y Hy. destruct (In_zget (ha h) y Hy) as [i Hi].
      exact (root_min less SWO (ha h) item Hord Hitem i y Hi).
  Qed.

  Lemma len_zero_iff (h : heap T IS) : Heap.Model.len h =? 0 = true <-> ha h = [].
  Proof.
    unfold Heap.Model.len. rewrite Z.eqb_eq. unfold zlen.
    destruct (ha h) as [|a t]; simpl; split; intros H; try reflexivity; try discriminate; lia.
  Qed.
End HeapFacts.

(* ------------------------------------------------------------------ Merge *)
Lemma vs_less_swo less : strict_weak less -> strict_weak (vs_less less).
Proof.
  intros SWO. unfold vs_less. split; [|split].
  - intros a. apply (sw_irrefl less SWO).
  - intros a b c. apply (sw_trans less SWO).
  - intros a b c. apply (sw_incomp less SWO).
Qed.

(* the heads currently held by the heap: cur[i] = Some v iff (v, i0 + i) is in the heap *)
Fixpoint tagged (cur : list (option Z)) (i : Z) : list (Z * Z) :=
  match cur with
  | [] => []
  | None :: r => tagged r (i + 1)
  | Some v :: r => (v, i) :: tagged r (i + 1)
  end.

Lemma tagged_In : forall cur i0 v s,
    In (v, s) (tagged cur i0) -> i0 <= s /\ nth_error cur (Z.to_nat (s - i0)) = Some (Some v).
Proof.
  induction cur as [|o r IH]; intros i0 v s H; [destruct H|].
  assert (Hrec : In (v, s) (tagged r (i0 + 1)) -> i0 <= s /\ nth_error (o :: r) (Z.to_nat (s - i0)) = Some (Some v)).
  { intros H'. destruct (IH _ _ _ H') as [H1 H2]. split; [lia|].
    replace (Z.to_nat (s - i0)) with (S (Z.to_nat (s - (i0 + 1)))) by lia. exact H2. }
  destruct o as [w|]; cbn [tagged] in H; [|exact (Hrec H)].
  destruct H as [H|H]; [|exact (Hrec H)].
  injection H as -> ->. split; [lia|]. replace (s - s) with 0 by lia. reflexivity.
Qed.

Lemma tagged_take : forall cur i0 n v,
    nth_error cur n = Some (Some v) ->
    Permutation (tagged cur i0) ((v, i0 + Z.of_nat n) :: tagged (upd cur n None) i0).
Proof.
  induction cur as [|o r IH]; intros i0 n v H; [destruct n; discriminate|].
  destruct n as [|n]; cbn [nth_error] in H.
  - injection H as ->. cbn [upd tagged]. replace (i0 + Z.of_nat 0) with i0 by lia. apply Permutation_refl.
  - specialize (IH (i0 + 1) n v H).
    replace (i0 + 1 + Z.of_nat n) with (i0 + Z.of_nat (S n)) in IH by lia.
    cbn [upd]. destruct o as [w|]; cbn [tagged].
    + eapply perm_trans; [apply perm_skip; exact IH|apply perm_swap].
    + exact IH.
Qed.

Lemma tagged_put : forall cur i0 n x, (n < length cur)%nat ->
    Permutation (tagged (upd cur n (Some x)) i0) ((x, i0 + Z.of_nat n) :: tagged (upd cur n None) i0).
Proof.
  induction cur as [|o r IH]; intros i0 n x H; [simpl in H; lia|].
  destruct n as [|n].
  - cbn [upd tagged]. replace (i0 + Z.of_nat 0) with i0 by lia. apply Permutation_refl.
  - cbn [length] in H. specialize (IH (i0 + 1) n x ltac:(lia)).
    replace (i0 + 1 + Z.of_nat n) with (i0 + Z.of_nat (S n)) in IH by lia.
    cbn [upd]. destruct o as [w|]; cbn [tagged].
    + eapply perm_trans; [apply perm_skip; exact IH|apply perm_swap].
    + exact IH.
Qed.

Lemma upd_upd {A} (l : list A) n x y : upd (upd l n x) n y = upd l n y.
Proof. revert n; induction l as [|h t IH]; intros [|n]; simpl; auto. f_equal. apply IH. Qed.

Lemma upd_same {A} (l : list A) n x : nth_error l n = Some x -> upd l n x = l.
Proof.
  revert n; induction l as [|h t IH]; intros [|n] H; simpl in *; try discriminate; auto.
  - injection H as ->. reflexivity.
  - f_equal. apply IH. exact H.
Qed.

Lemma nth_error_upd {A} (l : list A) n m x :
  nth_error (upd l n x) m = if Nat.eqb n m then (if Nat.ltb n (length l) then Some x else None) else nth_error l m.
Proof.
  destruct (Nat.eqb_spec n m) as [->|Hne].
  - destruct (Nat.ltb_spec m (length l)) as [Hlt|Hge].
    + apply nth_error_upd_same. exact Hlt.
    + apply nth_error_None. rewrite upd_length. exact Hge.
  - apply nth_error_upd_other. exact Hne.
Qed.

Lemma join_concat ins : join ins = concat ins.
Proof. induction ins as [|l r IH]; simpl; [reflexivity|]. rewrite IH. reflexivity. Qed.

Lemma join_take : forall (ins : list (list Z)) n x t,
    nth_error ins n = Some (x :: t) -> Permutation (join ins) (x :: join (upd ins n t)).
Proof.
  induction ins as [|l r IH]; intros n x t H; [destruct n; discriminate|].
  destruct n as [|n]; cbn [nth_error] in H.
  - injection H as ->. cbn [upd join]. apply Permutation_refl.
  - cbn [upd join]. specialize (IH n x t H).
    eapply perm_trans; [apply Permutation_app_head; exact IH|].
    apply Permutation_sym. apply Permutation_middle.
Qed.

Lemma join_In ins y : In y (join ins) <-> exists l, In l ins /\ In y l.
Proof. rewrite join_concat. apply in_concat. Qed.

Lemma nondecr_cons_inv (less : Z -> Z -> bool) x t :
  nondecreasing less (x :: t) -> nondecreasing less t /\ forall y, In y t -> less y x = false.
Proof.
  intros H. inversion H as [|x' t' Ht Hall]. split; [exact Ht|]. rewrite Forall_forall in Hall. exact Hall.
Qed.

Section Merge.
  Variable less : Z -> Z -> bool.
  Hypothesis SWO : strict_weak less.

  Let noidx := vs_noidx.
  Notation pop := (Heap.Model.pop (0, 0) (vs_less less) vs_noidx).
  Notation push := (Heap.Model.push (vs_less less) vs_noidx).

  (* invariant of the merge iterator *)
  Record minv (cur : list (option Z)) (st : mstate) : Prop := {
    mi_len : length cur = length (fst st);
    mi_heap : Permutation (ha (snd st)) (tagged cur 0);
    mi_ord : heap_ordered (vs_less less) (ha (snd st));
    mi_done : forall i, nth_error cur i = Some None -> nth_error (fst st) i = Some [];
  }.

  (* additionally, when the inputs are sorted *)
  Definition msorted (cur : list (option Z)) (st : mstate) : Prop :=
    (forall l, In l (fst st) -> nondecreasing less l) /\
    (forall i c l y, nth_error cur i = Some (Some c) -> nth_error (fst st) i = Some l -> In y l -> less y c = false).

  (* the multiset still to be yielded *)
  Definition remaining (st : mstate) : list Z := map fst (ha (snd st)) ++ join (fst st).

  Lemma merge_next_spec cur st : minv cur st ->
    (ha (snd st) = [] /\ merge_next less st = Ok (None, st) /\ remaining st = []) \/
    (exists v cur' st', merge_next less st = Ok (Some v, st') /\ minv cur' st' /\
        Permutation (remaining st) (v :: remaining st') /\
        (forall y, In y (map fst (ha (snd st))) -> less y v = false) /\
        (msorted cur st -> msorted cur' st' /\ forall y, In y (remaining st') -> less y v = false)).
  Proof.
    intros [Hlen Hheap Hord Hdone]. destruct st as [ins h]. cbn [fst snd] in *.
    unfold merge_next. destruct (Heap.Model.len h =? 0) eqn:El.
    - left. apply len_zero_iff in El. split; [exact El|]. split; [reflexivity|].
      unfold remaining. cbn [fst snd]. rewrite El. cbn [map app].
      (* every input is exhausted *)
      rewrite El in Hheap. apply Permutation_nil in Hheap.
      assert (Hall : forall l, In l ins -> l = []).
      { intros l Hl. destruct (In_nth_error _ _ Hl) as [i Hi].
        assert (Hc : nth_error cur i = Some None).
        { destruct (nth_error cur i) as [[c|]|] eqn:Ec.
          - exfalso. pose proof (tagged_take cur 0 i c Ec) as Hp. rewrite Hheap in Hp.
            apply Permutation_nil in Hp. discriminate.
          - reflexivity.
          - apply nth_error_None in Ec. assert (Hi' : nth_error ins i <> None) by congruence.
            apply nth_error_Some in Hi'. lia. }
        specialize (Hdone i Hc). congruence. }
      clear -Hall. induction ins as [|l r IH]; [reflexivity|].
      cbn [join]. rewrite (Hall l (or_introl eq_refl)). cbn [app]. apply IH.
      intros l' Hl'. apply Hall. right. exact Hl'.
    - right.
      assert (Hne : ha h <> []).
      { intros E. apply (len_zero_iff h) in E. congruence. }
      destruct (hf_pop (0, 0) (vs_less less) vs_noidx h Hne) as [item [h1 [Epop [Hperm Hmin]]]].
      destruct (Hmin (vs_less_swo less SWO) Hord) as [Hord1 Hmin1]. clear Hmin.
      rewrite Epop. cbn [rbind]. destruct item as [v src]. cbn [snd fst].
      (* the popped entry is the head of source src *)
      assert (Hin : In (v, src) (tagged cur 0)).
      { eapply Permutation_in; [exact Hheap|]. eapply Permutation_in; [apply Permutation_sym; exact Hperm|].
        left. reflexivity. }
      destruct (tagged_In _ _ _ _ Hin) as [Hsrc0 Hcur].
      replace (src - 0) with src in Hcur by lia.
      set (n := Z.to_nat src) in *.
      assert (Hsrcn : src = 0 + Z.of_nat n) by (unfold n; lia).
      assert (Hn : (n < length cur)%nat) by (apply nth_error_Some; congruence).
      (* heap without the popped entry *)
      assert (Hh1 : Permutation (ha h1) (tagged (upd cur n None) 0)).
      { apply (Permutation_cons_inv (a := (v, src))).
        eapply perm_trans; [apply Permutation_sym; exact Hperm|].
        eapply perm_trans; [exact Hheap|]. rewrite Hsrcn at 1. apply tagged_take. exact Hcur. }
      assert (Hminv : forall y, In y (map fst (ha h)) -> less y v = false).
      { intros y Hy. apply in_map_iff in Hy. destruct Hy as [[y' s'] [<- Hy]]. exact (Hmin1 _ Hy). }
      destruct (nth_error ins n) as [[|x t]|] eqn:Eins.
      + (* source exhausted *)
        exists v, (upd cur n None), (ins, h1). split; [reflexivity|]. split; [|split; [|split]].
        * constructor; cbn [fst snd].
          -- rewrite upd_length. exact Hlen.
          -- exact Hh1.
          -- exact Hord1.
          -- intros i Hi. rewrite nth_error_upd in Hi. destruct (Nat.eqb_spec n i) as [Eni|Hne']; [subst i|].
             ++ exact Eins.
             ++ apply Hdone. exact Hi.
        * unfold remaining. cbn [fst snd].
          change (v :: map fst (ha h1) ++ join ins) with (map fst ((v, src) :: ha h1) ++ join ins).
          apply Permutation_app_tail. apply Permutation_map. exact Hperm.
        * exact Hminv.
        * intros [Hs1 Hs2]. split.
          -- split; [exact Hs1|]. cbn [fst]. intros i c l y Hi Hl Hy.
             rewrite nth_error_upd in Hi. destruct (Nat.eqb_spec n i) as [Eni|Hne']; [subst i|].
             ++ destruct (n <? length cur)%nat; discriminate.
             ++ eapply Hs2; eassumption.
          -- intros y Hy. unfold remaining in Hy. cbn [fst snd] in Hy. apply in_app_or in Hy.
             destruct Hy as [Hy|Hy].
             ++ apply Hminv. apply in_map_iff in Hy. destruct Hy as [p [<- Hp]].
                apply in_map. eapply Permutation_in; [apply Permutation_sym; exact Hperm|]. right. exact Hp.
             ++ apply join_In in Hy. destruct Hy as [l [Hl Hy]].
                destruct (In_nth_error _ _ Hl) as [i Hi].
                destruct (Nat.eq_dec i n) as [->|Hne'].
                { rewrite Eins in Hi. injection Hi as <-. destruct Hy. }
                destruct (nth_error cur i) as [[c|]|] eqn:Ec.
                ** apply (sw_incomp less SWO y c v).
                   --- eapply Hs2; eassumption.
                   --- apply Hminv. apply in_map_iff. exists (c, 0 + Z.of_nat i). split; [reflexivity|].
                       eapply Permutation_in; [apply Permutation_sym; exact Hheap|].
                       eapply Permutation_in; [apply Permutation_sym; apply (tagged_take cur 0 i c Ec)|].
                       left. reflexivity.
                ** rewrite (Hdone i Ec) in Hi. injection Hi as <-. destruct Hy.
                ** apply nth_error_None in Ec. assert (Hi' : nth_error ins i <> None) by congruence.
                   apply nth_error_Some in Hi'. lia.
      + (* refill from source src *)
        destruct (hf_push (vs_less less) vs_noidx (x, src) h1) as [h2 [Epush [Hperm2 Hord2]]].
        rewrite Epush. cbn [rbind].
        exists v, (upd cur n (Some x)), (upd ins n t, h2). split; [reflexivity|]. split; [|split; [|split]].
        * constructor; cbn [fst snd].
          -- rewrite !upd_length. exact Hlen.
          -- eapply perm_trans; [apply Permutation_sym; exact Hperm2|].
             eapply perm_trans; [apply perm_skip; exact Hh1|].
             rewrite Hsrcn at 1. apply Permutation_sym. apply tagged_put. exact Hn.
          -- apply Hord2; [apply vs_less_swo; exact SWO|exact Hord1].
          -- intros i Hi. rewrite nth_error_upd in Hi. rewrite nth_error_upd.
             destruct (Nat.eqb_spec n i) as [Eni|Hne']; [subst i|].
             ++ destruct (n <? length cur)%nat; discriminate.
             ++ apply Hdone. exact Hi.
        * unfold remaining. cbn [fst snd].
          eapply perm_trans.
          { apply Permutation_app; [apply Permutation_map; exact Hperm|apply (join_take ins n x t Eins)]. }
          cbn [map fst app]. apply perm_skip.
          eapply perm_trans; [apply Permutation_sym; apply Permutation_middle|].
          change (x :: map fst (ha h1) ++ join (upd ins n t)) with (map fst ((x, src) :: ha h1) ++ join (upd ins n t)).
          apply Permutation_app_tail. apply Permutation_map. exact Hperm2.
        * exact Hminv.
        * intros [Hs1 Hs2].
          assert (Hxt : nondecreasing less (x :: t)).
          { apply Hs1. eapply nth_error_In. exact Eins. }
          assert (Hvx : less x v = false).
          { eapply Hs2; [exact Hcur|exact Eins|left; reflexivity]. }
          split.
          -- split; cbn [fst].
             ++ intros l Hl. destruct (In_nth_error _ _ Hl) as [i Hi]. rewrite nth_error_upd in Hi.
                destruct (Nat.eqb_spec n i) as [Eni|Hne']; [subst i|].
                ** destruct (n <? length ins)%nat; [|discriminate]. injection Hi as <-.
                   exact (proj1 (nondecr_cons_inv less x t Hxt)).
                ** apply Hs1. eapply nth_error_In. exact Hi.
             ++ intros i c l y Hi Hl Hy. rewrite nth_error_upd in Hi. rewrite nth_error_upd in Hl.
                destruct (Nat.eqb_spec n i) as [Eni|Hne']; [subst i|].
                ** destruct (n <? length cur)%nat; [|discriminate]. injection Hi as <-.
                   destruct (n <? length ins)%nat; [|discriminate]. injection Hl as <-.
                   exact (proj2 (nondecr_cons_inv less x t Hxt) y Hy).
                ** eapply Hs2; eassumption.
          -- intros y Hy.
             (* everything remaining is in remaining st, and not less than v *)
             assert (Hold : In y (map fst (ha h)) \/ In y (join ins)).
             { unfold remaining in Hy. cbn [fst snd] in Hy. apply in_app_or in Hy. destruct Hy as [Hy|Hy].
               - apply in_map_iff in Hy. destruct Hy as [p [<- Hp]].
                 eapply Permutation_in in Hp; [|apply Permutation_sym; exact Hperm2].
                 destruct Hp as [<-|Hp].
                 + right. apply join_In. exists (x :: t). split; [eapply nth_error_In; exact Eins|left; reflexivity].
                 + left. apply in_map. eapply Permutation_in; [apply Permutation_sym; exact Hperm|]. right. exact Hp.
               - right. apply join_In in Hy. destruct Hy as [l [Hl Hy]]. apply join_In.
                 destruct (In_nth_error _ _ Hl) as [i Hi]. rewrite nth_error_upd in Hi.
                 destruct (Nat.eqb_spec n i) as [Eni|Hne']; [subst i|].
                 + destruct (n <? length ins)%nat; [|discriminate]. injection Hi as <-.
                   exists (x :: t). split; [eapply nth_error_In; exact Eins|right; exact Hy].
                 + exists l. split; [eapply nth_error_In; exact Hi|exact Hy]. }
             destruct Hold as [Hy'|Hy']; [apply Hminv; exact Hy'|].
             apply join_In in Hy'. destruct Hy' as [l [Hl Hyl]].
             destruct (In_nth_error _ _ Hl) as [i Hi].
             destruct (nth_error cur i) as [[c|]|] eqn:Ec.
             ++ apply (sw_incomp less SWO y c v).
                ** eapply Hs2; eassumption.
                ** apply Hminv. apply in_map_iff. exists (c, 0 + Z.of_nat i). split; [reflexivity|].
                   eapply Permutation_in; [apply Permutation_sym; exact Hheap|].
                   eapply Permutation_in; [apply Permutation_sym; apply (tagged_take cur 0 i c Ec)|].
                   left. reflexivity.
             ++ rewrite (Hdone i Ec) in Hi. injection Hi as <-. destruct Hyl.
             ++ apply nth_error_None in Ec. assert (Hi' : nth_error ins i <> None) by congruence.
                apply nth_error_Some in Hi'. lia.
      + (* src out of range: impossible *)
        exfalso. apply nth_error_None in Eins. lia.
  Qed.

  Lemma merge_drain_spec : forall fuel cur st, minv cur st -> (length (remaining st) < fuel)%nat ->
    exists out, merge_drain less fuel st = Ok out /\ Permutation out (remaining st) /\
                (msorted cur st -> nondecreasing less out).
  Proof.
    induction fuel as [|fuel IH]; intros cur st Hinv Hfuel; [lia|].
    cbn [merge_drain].
    destruct (merge_next_spec cur st Hinv) as [[_ [E Hrem]]|[v [cur' [st' [E [Hinv' [Hperm [_ Hsorted]]]]]]]].
    - rewrite E. cbn [rbind fst]. exists []. split; [reflexivity|]. rewrite Hrem.
      split; [apply Permutation_refl|intros _; constructor].
    - rewrite E. cbn [rbind fst snd].
      assert (Hf : (length (remaining st') < fuel)%nat).
      { apply Permutation_length in Hperm. cbn [length] in Hperm. lia. }
      destruct (IH cur' st' Hinv' Hf) as [out [Eo [Hpo Hso]]].
      rewrite Eo. cbn [rbind]. exists (v :: out). split; [reflexivity|]. split.
      + eapply perm_trans; [apply perm_skip; exact Hpo|apply Permutation_sym; exact Hperm].
      + intros Hms. destruct (Hsorted Hms) as [Hms' Hge]. constructor; [apply Hso; exact Hms'|].
        rewrite Forall_forall. intros y Hy. apply Hge. eapply Permutation_in; [exact Hpo|exact Hy].
  Qed.

  Definition heads (ins : list (list Z)) : list (option Z) := map (fun l => hd_error l) ins.

  Lemma merge_initial_spec : forall ins i,
      merge_initial ins i = (tagged (heads ins) i, map (fun l => tl l) ins).
  Proof.
    induction ins as [|l r IH]; intros i; [reflexivity|].
    cbn [merge_initial]. rewrite IH. destruct l as [|x t]; reflexivity.
  Qed.

  Lemma join_heads_tails : forall ins i,
      Permutation (map fst (tagged (heads ins) i) ++ join (map (fun l => tl l) ins)) (join ins).
  Proof.
    induction ins as [|l r IH]; intros i; [apply Permutation_refl|].
    destruct l as [|x t]; cbn [heads map hd_error tagged tl join fst app].
    - apply IH.
    - apply perm_skip. specialize (IH (i + 1)).
      eapply perm_trans; [|apply Permutation_app_head; exact IH].
      rewrite app_assoc. rewrite app_assoc. apply Permutation_app_tail. apply Permutation_app_comm.
  Qed.

  Theorem merge_spec_ : forall ins,
    exists out, merge less ins = Ok out /\ Permutation out (join ins) /\
                ((forall l, In l ins -> nondecreasing less l) -> nondecreasing less out).
  Proof.
    intros ins. unfold merge, merge_new. rewrite merge_initial_spec.
    destruct (hf_new (vs_less less) vs_noidx (tagged (heads ins) 0) tt) as [h [Enew [Hperm Hord]]].
    rewrite Enew. cbn [rbind].
    set (st := (map (fun l => tl l) ins, h)).
    assert (Hinv : minv (heads ins) st).
    { unfold st. constructor; cbn [fst snd].
      - unfold heads. rewrite !map_length. reflexivity.
      - apply Permutation_sym. exact Hperm.
      - apply Hord. apply vs_less_swo. exact SWO.
      - intros i Hi. unfold heads in Hi. rewrite nth_error_map in Hi. rewrite nth_error_map.
        destruct (nth_error ins i) as [[|x t]|]; cbn in *; try discriminate. reflexivity. }
    assert (Hrem : Permutation (remaining st) (join ins)).
    { unfold remaining, st. cbn [fst snd].
      eapply perm_trans; [|apply (join_heads_tails ins 0)].
      apply Permutation_app_tail. apply Permutation_map. apply Permutation_sym. exact Hperm. }
    assert (Hfuel : (length (remaining st) < S (length (join ins)))%nat).
    { apply Permutation_length in Hrem. lia. }
    destruct (merge_drain_spec _ _ _ Hinv Hfuel) as [out [E [Hpo Hso]]].
    exists out. split; [exact E|]. split; [eapply perm_trans; [exact Hpo|exact Hrem]|].
    intros Hsorted. apply Hso. unfold st. split; cbn [fst].
    - intros l Hl. apply in_map_iff in Hl. destruct Hl as [l0 [<- Hl0]].
      specialize (Hsorted l0 Hl0). destruct l0 as [|x t]; [constructor|]. exact (proj1 (nondecr_cons_inv less x t Hsorted)).
    - intros i c l y Hi Hl Hy. unfold heads in Hi. rewrite nth_error_map in Hi, Hl.
      destruct (nth_error ins i) as [l0|] eqn:El0; [|discriminate]. cbn in Hi, Hl.
      injection Hl as <-. destruct l0 as [|x t]; [discriminate|]. cbn in Hi. injection Hi as ->.
      assert (Hs : nondecreasing less (c :: t)) by (apply Hsorted; eapply nth_error_In; exact El0).
      exact (proj2 (nondecr_cons_inv less c t Hs) y Hy).
  Qed.
End Merge.

Theorem merge_spec : forall less ins, strict_weak less ->
    exists out, merge less ins = Ok out /\
                Permutation out (join ins) /\
                ((forall l, In l ins -> nondecreasing less l) -> nondecreasing less out).
Proof. intros less ins SWO. apply merge_spec_. exact SWO. Qed.

Theorem merge_slices_spec : forall less outcap ins, strict_weak less ->
    exists out, merge_slices less outcap ins = Ok (out, (0 <? zlen (join ins)) && (zlen (join ins) <=? outcap)) /\
                Permutation out (join ins) /\
                ((forall l, In l ins -> nondecreasing less l) -> nondecreasing less out).
Proof.
  intros less outcap ins SWO. destruct (merge_spec less ins SWO) as [out [E [Hp Hs]]].
  exists out. unfold merge_slices. rewrite E. cbn [rbind]. split; [reflexivity|]. split; assumption.
Qed.

Example merge_runs :
  let less := fun a b => Z.quot a 10 <? Z.quot b 10 in
  merge less [[10; 21; 30]; []; [11; 12; 35]; [5]] = Ok [5; 10; 11; 12; 21; 35; 30] /\
  merge_slices less 8 [[10; 21]; [11; 12]] = Ok ([10; 11; 12; 21], true) /\
  merge less [] = Ok [].
Proof. vm_compute. repeat split; reflexivity. Qed.

(* ------------------------------------------------------------------ MinK *)
Lemma SS_snoc {A} (R : A -> A -> Prop) l m :
  StronglySorted R l -> (forall y, In y l -> R y m) -> StronglySorted R (l ++ [m]).
Proof.
  induction l as [|a t IH]; intros Hs Hall; cbn [app].
  - constructor; [constructor|constructor].
  - inversion Hs as [|a' t' Ht Hat]; subst. constructor.
    + apply IH; [exact Ht|]. intros y Hy. apply Hall. right. exact Hy.
    + rewrite Forall_forall in *. intros y Hy. apply in_app_or in Hy. destruct Hy as [Hy|[<-|[]]].
      * apply Hat. exact Hy.
      * apply Hall. left. reflexivity.
Qed.

Lemma SS_rev {A} (R : A -> A -> Prop) l :
  StronglySorted (fun a b => R b a) l -> StronglySorted R (rev l).
Proof.
  induction l as [|a t IH]; intros Hs; cbn [rev]; [constructor|].
  inversion Hs as [|a' t' Ht Hat]; subst. apply SS_snoc; [apply IH; exact Ht|].
  rewrite Forall_forall in Hat. intros y Hy. apply Hat. apply in_rev. exact Hy.
Qed.

Section MinK.
  Variable less : Z -> Z -> bool.
  Hypothesis SWO : strict_weak less.
  Variable k : Z.

  Let rl := reverse_less less.
  Let K := Z.max k 0.

  Lemma rl_swo : strict_weak rl.
  Proof. exact (proj1 (reverse_less_spec less SWO)). Qed.

  Record kinv (h : zheap_) (rest seen : list Z) : Prop := {
    ki_ord : heap_ordered rl (ha h);
    ki_perm : Permutation (ha h ++ rest) seen;
    ki_len : zlen (ha h) = Z.min K (zlen seen);
    ki_min : forall r o, In r rest -> In o (ha h) -> less r o = false;
  }.

  Lemma zlen_perm {A} (l m : list A) : Permutation l m -> zlen l = zlen m.
  Proof. intros H. apply Permutation_length in H. unfold zlen. lia. Qed.

  Lemma mink_loop_spec : forall items h rest seen, kinv h rest seen ->
      exists h' rest', mink_loop less k items h = Ok h' /\ kinv h' rest' (seen ++ items).
  Proof.
    induction items as [|x t IH]; intros h rest seen Hinv.
    - exists h, rest. split; [reflexivity|]. rewrite app_nil_r. exact Hinv.
    - destruct Hinv as [Hord Hperm Hlen Hmin]. cbn [mink_loop].
      destruct (hf_push rl no_index x h) as [h1 [Epush [Hp1 Ho1]]].
      fold rl. rewrite Epush. cbn [rbind].
      specialize (Ho1 rl_swo Hord).
      assert (Hlen1 : zlen (ha h1) = zlen (ha h) + 1).
      { rewrite <- (zlen_perm _ _ Hp1). rewrite zlen_cons. lia. }
      assert (Hseen : zlen seen = zlen (ha h) + zlen rest).
      { rewrite <- (zlen_perm _ _ Hperm). apply zlen_app. }
      pose proof (zlen_nonneg rest) as Hrest0. pose proof (zlen_nonneg (ha h)) as Hh0.
      replace (seen ++ x :: t) with ((seen ++ [x]) ++ t) by (rewrite <- app_assoc; reflexivity).
      unfold Heap.Model.len. destruct (zlen (ha h1) >? k) eqn:Egt.
      + (* drop the maximum *)
        apply Z.gtb_lt in Egt.
        assert (Hne : ha h1 <> []).
        { intros E. rewrite E in Hlen1. unfold zlen in Hlen1 at 1. simpl in Hlen1. lia. }
        destruct (hf_pop 0 rl no_index h1 Hne) as [m [h2 [Epop [Hp2 Hm]]]].
        rewrite Epop. cbn [rbind snd].
        destruct (Hm rl_swo Ho1) as [Ho2 Hmax]. clear Hm.
        assert (Hlen2 : zlen (ha h2) = zlen (ha h)).
        { pose proof (zlen_perm _ _ Hp2) as E. rewrite zlen_cons in E. lia. }
        apply (IH h2 (m :: rest)). constructor.
        * exact Ho2.
        * (* ha h2 ++ m :: rest ~ seen ++ [x] *)
          eapply perm_trans; [apply Permutation_sym; apply Permutation_middle|].
          eapply perm_trans; [apply (Permutation_app_tail rest (Permutation_sym Hp2))|].
          eapply perm_trans; [apply (Permutation_app_tail rest (Permutation_sym Hp1))|].
          cbn [app]. eapply perm_trans; [apply perm_skip; exact Hperm|]. apply Permutation_cons_append.
        * rewrite Hlen2, Hlen, zlen_app. change (zlen [x]) with 1. unfold K in *. lia.
        * intros r o Hr Ho.
          (* m is not less than anything in h1 *)
          assert (Hmge : forall y, In y (ha h1) -> less m y = false).
          { intros y Hy. exact (Hmax y Hy). }
          assert (Ho1' : In o (x :: ha h)).
          { eapply Permutation_in; [apply Permutation_sym; exact Hp1|].
            eapply Permutation_in; [apply Permutation_sym; exact Hp2|]. right. exact Ho. }
          assert (Hm1 : In m (x :: ha h)).
          { eapply Permutation_in; [apply Permutation_sym; exact Hp1|].
            eapply Permutation_in; [apply Permutation_sym; exact Hp2|]. left. reflexivity. }
          assert (Ho_h1 : In o (ha h1)).
          { eapply Permutation_in; [apply Permutation_sym; exact Hp2|]. right. exact Ho. }
          destruct Hr as [<-|Hr]; [apply Hmge; exact Ho_h1|].
          destruct (in_dec Z.eq_dec o (ha h)) as [Hoh|Hnoh]; [apply Hmin; assumption|].
          destruct Ho1' as [<-|Hoh]; [|contradiction].
          (* o is the new item x, kept; the dropped m is an old item *)
          destruct Hm1 as [Emx|Hmh].
          -- exfalso. subst m. apply Hnoh.
             assert (Hpp : Permutation (ha h) (ha h2)).
             { apply (Permutation_cons_inv (a := x)). eapply perm_trans; [exact Hp1|exact Hp2]. }
             eapply Permutation_in; [apply Permutation_sym; exact Hpp|exact Ho].
          -- apply (sw_incomp less SWO r m x); [apply Hmin; assumption|apply Hmge; exact Ho_h1].
      + (* keep everything: nothing has been dropped yet *)
        rewrite Z.gtb_ltb in Egt. apply Z.ltb_ge in Egt.
        assert (Hrest : rest = []).
        { destruct rest as [|r0 rest']; [reflexivity|]. exfalso.
          rewrite zlen_cons in Hseen. pose proof (zlen_nonneg rest'). unfold K in *. lia. }
        subst rest.
        apply (IH h1 []). constructor.
        * exact Ho1.
        * rewrite app_nil_r in *. eapply perm_trans; [apply Permutation_sym; exact Hp1|].
          eapply perm_trans; [apply perm_skip; exact Hperm|]. apply Permutation_cons_append.
        * rewrite Hlen1, zlen_app. change (zlen [x]) with 1. unfold K in *. lia.
        * intros r o [].
  Qed.

  Lemma pop_n_spec : forall n (h : zheap_), length (ha h) = n -> heap_ordered rl (ha h) ->
      exists l, pop_n less n h = Ok l /\ Permutation l (ha h) /\
                StronglySorted (fun a b => less a b = false) l.
  Proof.
    induction n as [|n IH]; intros h Hn Hord.
    - exists []. split; [reflexivity|]. destruct (ha h); [|discriminate]. split; constructor.
    - cbn [pop_n].
      assert (Hne : ha h <> []) by (destruct (ha h); [discriminate|congruence]).
      destruct (hf_pop 0 rl no_index h Hne) as [m [h2 [Epop [Hp Hm]]]].
      fold rl. rewrite Epop. cbn [rbind snd fst].
      destruct (Hm rl_swo Hord) as [Ho2 Hmax].
      assert (Hn2 : length (ha h2) = n).
      { apply Permutation_length in Hp. cbn [length] in Hp. lia. }
      destruct (IH h2 Hn2 Ho2) as [l [El [Hpl Hsl]]].
      rewrite El. cbn [rbind]. exists (m :: l). split; [reflexivity|]. split.
      + eapply perm_trans; [apply perm_skip; exact Hpl|apply Permutation_sym; exact Hp].
      + constructor; [exact Hsl|]. rewrite Forall_forall. intros y Hy.
        apply (Hmax y). eapply Permutation_in; [apply Permutation_sym; exact Hp|].
        right. eapply Permutation_in; [exact Hpl|exact Hy].
  Qed.

  Theorem min_k_spec_ : forall items,
    exists out rest, min_k less items k = Ok out /\
                zlen out = Z.min (Z.max k 0) (zlen items) /\
                nondecreasing less out /\
                Permutation (out ++ rest) items /\
                (forall o r, In o out -> In r rest -> less r o = false).
  Proof.
    intros items. unfold min_k.
    destruct (hf_new rl no_index (@nil Z) tt) as [h0 [Enew [Hp0 Ho0]]].
    fold rl. rewrite Enew. cbn [rbind].
    apply Permutation_nil in Hp0.
    assert (Hinv0 : kinv h0 [] []).
    { constructor.
      - apply Ho0. exact rl_swo.
      - rewrite Hp0. apply Permutation_refl.
      - rewrite Hp0. unfold zlen; simpl. unfold K. lia.
      - intros r o []. }
    destruct (mink_loop_spec items h0 [] [] Hinv0) as [h [rest [Eloop [Hord Hperm Hlen Hmin]]]].
    rewrite Eloop. cbn [rbind]. cbn [app] in Hperm, Hlen.
    destruct (pop_n_spec (length (ha h)) h eq_refl Hord) as [l [El [Hpl Hsl]]].
    rewrite El. cbn [rbind]. exists (rev l), rest. split; [reflexivity|].
    assert (Hprev : Permutation (rev l) (ha h)).
    { eapply perm_trans; [apply Permutation_sym; apply Permutation_rev|exact Hpl]. }
    split; [|split; [|split]].
    - rewrite (zlen_perm _ _ Hprev). exact Hlen.
    - unfold nondecreasing. apply SS_rev. exact Hsl.
    - eapply perm_trans; [apply Permutation_app_tail; exact Hprev|exact Hperm].
    - intros o r Ho Hr. apply Hmin; [exact Hr|]. eapply Permutation_in; [exact Hprev|exact Ho].
  Qed.
End MinK.

Theorem min_k_spec : forall less items k, strict_weak less ->
    exists out rest, min_k less items k = Ok out /\
                zlen out = Z.min (Z.max k 0) (zlen items) /\
                nondecreasing less out /\
                Permutation (out ++ rest) items /\
                (forall o r, In o out -> In r rest -> less r o = false).
Proof. intros less items k SWO. apply min_k_spec_. exact SWO. Qed.

Example min_k_runs :
  let less := fun a b => Z.quot a 10 <? Z.quot b 10 in
  (min_k less [50; 31; 90; 12; 70; 35] 3, min_k less [5; 3] (-1), min_k less [5; 3] 7, min_k less [] 2)
  = (Ok [12; 31; 35], Ok [], Ok [3; 5], Ok []).
Proof. vm_compute. reflexivity. Qed.

(* ------------------------------------------------------------------ SliceStable, Slice *)
(* Nothing here depends on the algorithm sort.SliceStable / sort.Slice use: the theorems
   characterise [slice_stable] as the ONLY sorted rearrangement that keeps equivalent items in
   their original order (slice_stable_unique), and [slice_allowed] as exactly the sorted
   permutations (slice_spec), for every strict weak order. *)
Lemma insert_stable_perm less x l : Permutation (insert_stable less x l) (x :: l).
Proof.
  induction l as [|y t IH]; cbn [insert_stable]; [apply Permutation_refl|].
  destruct (less y x); [|apply Permutation_refl].
  eapply perm_trans; [apply perm_skip; exact IH|apply perm_swap].
Qed.

Theorem slice_stable_perm : forall less x, Permutation (slice_stable less x) x.
Proof.
  intros less x. unfold slice_stable. induction x as [|a t IH]; cbn [fold_right]; [constructor|].
  eapply perm_trans; [apply insert_stable_perm|apply perm_skip; exact IH].
Qed.

Lemma Permutation_filter_length (f : Z -> bool) l1 l2 :
  Permutation l1 l2 -> length (filter f l1) = length (filter f l2).
Proof.
  intros HP. induction HP as [|x l l' HP IH|x y l|l l' l'' HP1 IH1 HP2 IH2]; cbn [filter].
  - reflexivity.
  - destruct (f x); cbn [length]; congruence.
  - destruct (f x), (f y); reflexivity.
  - congruence.
Qed.

Lemma take_out_perm x : forall l l', take_out x l = Some l' -> Permutation l (x :: l').
Proof.
  induction l as [|y t IH]; intros l' H; cbn [take_out] in H; [discriminate|].
  destruct (x =? y) eqn:E.
  - apply Z.eqb_eq in E. subst y. injection H as <-. apply Permutation_refl.
  - destruct (take_out x t) as [t'|] eqn:Et; cbn [option_map] in H; [|discriminate].
    injection H as <-. eapply perm_trans; [apply perm_skip; apply IH; reflexivity|apply perm_swap].
Qed.

Lemma take_out_in x : forall l, In x l -> exists l', take_out x l = Some l'.
Proof.
  induction l as [|y t IH]; intros HI; [destruct HI|]. cbn [take_out].
  destruct (x =? y) eqn:E; [eexists; reflexivity|].
  destruct HI as [->|HI]; [rewrite Z.eqb_refl in E; discriminate|].
  destruct (IH HI) as [t' Et]. rewrite Et. eexists; reflexivity.
Qed.

Lemma same_items_perm : forall a b, same_items a b = true <-> Permutation a b.
Proof.
  induction a as [|x a IH]; intros b; cbn [same_items].
  - split.
    + destruct b; [constructor|discriminate].
    + intros HP. apply Permutation_nil in HP. subst b. reflexivity.
  - split.
    + destruct (take_out x b) as [b'|] eqn:Eb; [|discriminate]. intros H.
      apply Permutation_sym. eapply perm_trans; [apply take_out_perm; exact Eb|].
      apply perm_skip. apply Permutation_sym. apply IH. exact H.
    + intros HP. destruct (take_out_in x b) as [b' Eb].
      { eapply Permutation_in; [exact HP|left; reflexivity]. }
      rewrite Eb. apply IH. apply (Permutation_cons_inv (a := x)).
      eapply perm_trans; [exact HP|apply take_out_perm; exact Eb].
Qed.

Lemma all2_Forall2 (f : Z -> Z -> bool) : forall a b,
  all2 f a b = true <-> Forall2 (fun x y => f x y = true) a b.
Proof.
  induction a as [|x a IH]; intros [|y b]; cbn [all2]; split; intros H;
    try discriminate; try (constructor; fail); try (inversion H; fail).
  - apply andb_true_iff in H. destruct H as [H1 H2]. constructor; [exact H1|apply IH; exact H2].
  - inversion H; subst. apply andb_true_iff. split; [assumption|apply IH; assumption].
Qed.

Section StableSort.
  Variable less : Z -> Z -> bool.
  Hypothesis SWO : strict_weak less.

  Lemma eqv_refl a : equal_ less a a = true.
  Proof. unfold equal_. rewrite (sw_irrefl less SWO). reflexivity. Qed.

  Lemma eqv_sym a b : equal_ less a b = equal_ less b a.
  Proof. unfold equal_. apply andb_comm. Qed.

  (* [less] does not distinguish equivalent items *)
  Lemma less_eqv_l a a' b : equal_ less a a' = true -> less a b = less a' b.
  Proof.
    intros H. apply equal_spec_ in H. destruct H as [H1 H2].
    destruct (less a b) eqn:E1, (less a' b) eqn:E2; try reflexivity.
    - rewrite (sw_incomp less SWO a a' b H1 E2) in E1. discriminate.
    - rewrite (sw_incomp less SWO a' a b H2 E1) in E2. discriminate.
  Qed.

  Lemma less_eqv_r a b b' : equal_ less b b' = true -> less a b = less a b'.
  Proof.
    intros H. apply equal_spec_ in H. destruct H as [H1 H2].
    destruct (less a b) eqn:E1, (less a b') eqn:E2; try reflexivity.
    - rewrite (sw_incomp less SWO a b' b E2 H2) in E1. discriminate.
    - rewrite (sw_incomp less SWO a b b' E1 H1) in E2. discriminate.
  Qed.

  Lemma eqv_congr p a b : equal_ less a b = true -> equal_ less p a = equal_ less p b.
  Proof.
    intros H. unfold equal_. rewrite (less_eqv_r p a b H), (less_eqv_l a b p H). reflexivity.
  Qed.

  Lemma filter_eqv_head a t :
    filter (equal_ less a) (a :: t) = a :: filter (equal_ less a) t.
  Proof. cbn [filter]. rewrite eqv_refl. reflexivity. Qed.

  (* sorted *)
  Lemma insert_stable_sorted x l :
    nondecreasing less l -> nondecreasing less (insert_stable less x l).
  Proof.
    unfold nondecreasing. induction l as [|y t IH]; intros Hs; cbn [insert_stable].
    - constructor; constructor.
    - apply StronglySorted_inv in Hs. destruct Hs as [Ht Hy]. destruct (less y x) eqn:E.
      + constructor; [apply IH; exact Ht|].
        apply (Permutation_Forall (Permutation_sym (insert_stable_perm less x t))).
        constructor; [apply (sw_asym less SWO); exact E|exact Hy].
      + constructor; [constructor; assumption|]. constructor; [exact E|].
        rewrite Forall_forall in Hy. apply Forall_forall. intros b Hb.
        apply (sw_incomp less SWO b y x); [apply Hy; exact Hb|exact E].
  Qed.

  Lemma slice_stable_sorted_ x : nondecreasing less (slice_stable less x).
  Proof.
    unfold slice_stable. induction x as [|a t IH]; cbn [fold_right].
    - constructor.
    - apply insert_stable_sorted. exact IH.
  Qed.

  (* stable: the items equivalent to p come out in the order in which they came in *)
  Lemma insert_stable_filter p x l :
    filter (equal_ less p) (insert_stable less x l) = filter (equal_ less p) (x :: l).
  Proof.
    induction l as [|y t IH]; [reflexivity|]. cbn [insert_stable].
    destruct (less y x) eqn:E; [|reflexivity].
    cbn [filter] in *. rewrite IH.
    destruct (equal_ less p x) eqn:Ex; [|reflexivity].
    destruct (equal_ less p y) eqn:Ey; [|reflexivity].
    exfalso. rewrite eqv_sym in Ey. rewrite (less_eqv_l y p x Ey) in E.
    apply equal_spec_ in Ex. destruct Ex as [Ex _]. rewrite Ex in E. discriminate.
  Qed.

  Lemma slice_stable_stable_ x p :
    filter (equal_ less p) (slice_stable less x) = filter (equal_ less p) x.
  Proof.
    unfold slice_stable. induction x as [|a t IH]; [reflexivity|]. cbn [fold_right].
    rewrite insert_stable_filter. cbn [filter]. rewrite IH. reflexivity.
  Qed.

  (* two sorted lists with the same subsequence of every equivalence class are equal *)
  Lemma sorted_classes_eq : forall l1 l2, nondecreasing less l1 -> nondecreasing less l2 ->
    (forall p, filter (equal_ less p) l1 = filter (equal_ less p) l2) -> l1 = l2.
  Proof.
    induction l1 as [|a t1 IH]; intros l2 H1 H2 HF.
    - destruct l2 as [|b t2]; [reflexivity|]. specialize (HF b).
      rewrite filter_eqv_head in HF. discriminate.
    - destruct l2 as [|b t2]; [specialize (HF a); rewrite filter_eqv_head in HF; discriminate|].
      assert (Hab : a = b).
      { destruct (equal_ less a b) eqn:Eab.
        - pose proof (HF a) as Ha. rewrite filter_eqv_head in Ha. cbn [filter] in Ha.
          rewrite Eab in Ha. injection Ha as Ha _. exact Ha.
        - exfalso.
          assert (Ia : In a (b :: t2)).
          { assert (Hx : In a (filter (equal_ less a) (b :: t2))).
            { rewrite <- HF, filter_eqv_head. left; reflexivity. }
            apply filter_In in Hx. exact (proj1 Hx). }
          assert (Ib : In b (a :: t1)).
          { assert (Hx : In b (filter (equal_ less b) (a :: t1))).
            { rewrite HF, filter_eqv_head. left; reflexivity. }
            apply filter_In in Hx. exact (proj1 Hx). }
          apply StronglySorted_inv in H1. apply StronglySorted_inv in H2.
          destruct H1 as [_ H1]. destruct H2 as [_ H2]. rewrite Forall_forall in H1, H2.
          destruct Ia as [Ia|Ia]; [subst b; rewrite eqv_refl in Eab; discriminate|].
          destruct Ib as [Ib|Ib]; [subst b; rewrite eqv_refl in Eab; discriminate|].
          unfold equal_ in Eab. rewrite (H2 a Ia), (H1 b Ib) in Eab. discriminate. }
      subst b. f_equal. apply IH.
      + apply StronglySorted_inv in H1. exact (proj1 H1).
      + apply StronglySorted_inv in H2. exact (proj1 H2).
      + intros p. specialize (HF p). cbn [filter] in HF.
        destruct (equal_ less p a); [injection HF as HF; exact HF|exact HF].
  Qed.

  Lemma slice_stable_unique_ x out : nondecreasing less out ->
    (forall p, filter (equal_ less p) out = filter (equal_ less p) x) ->
    out = slice_stable less x.
  Proof.
    intros Hs HF. apply sorted_classes_eq; [exact Hs|apply slice_stable_sorted_|].
    intros p. rewrite slice_stable_stable_. apply HF.
  Qed.

  (* two sorted lists with the same NUMBER of items of every equivalence class are equivalent
     position by position *)
  Lemma sorted_counts_Forall2 : forall l1 l2, nondecreasing less l1 -> nondecreasing less l2 ->
    (forall p, length (filter (equal_ less p) l1) = length (filter (equal_ less p) l2)) ->
    Forall2 (fun a b => equal_ less a b = true) l1 l2.
  Proof.
    induction l1 as [|a t1 IH]; intros l2 H1 H2 HC.
    - destruct l2 as [|b t2]; [constructor|]. specialize (HC b).
      rewrite filter_eqv_head in HC. discriminate.
    - destruct l2 as [|b t2]; [specialize (HC a); rewrite filter_eqv_head in HC; discriminate|].
      apply StronglySorted_inv in H1. apply StronglySorted_inv in H2.
      destruct H1 as [Ht1 H1]. destruct H2 as [Ht2 H2].
      assert (Eab : equal_ less a b = true).
      { rewrite Forall_forall in H1, H2.
        assert (Ha : exists a', In a' (b :: t2) /\ equal_ less a a' = true).
        { pose proof (HC a) as Ha. rewrite filter_eqv_head in Ha.
          destruct (filter (equal_ less a) (b :: t2)) as [|a' r] eqn:EF; [discriminate|].
          exists a'. apply filter_In. rewrite EF. left; reflexivity. }
        assert (Hb : exists b', In b' (a :: t1) /\ equal_ less b b' = true).
        { pose proof (HC b) as Hb. rewrite filter_eqv_head in Hb.
          destruct (filter (equal_ less b) (a :: t1)) as [|b' r] eqn:EF; [discriminate|].
          exists b'. apply filter_In. rewrite EF. left; reflexivity. }
        destruct Ha as [a' [Ia Ea]]. destruct Hb as [b' [Ib Eb]].
        assert (La : less a' b = false).
        { destruct Ia as [Ia|Ia]; [subst a'; apply (sw_irrefl less SWO)|apply H2; exact Ia]. }
        assert (Lb : less b' a = false).
        { destruct Ib as [Ib|Ib]; [subst b'; apply (sw_irrefl less SWO)|apply H1; exact Ib]. }
        apply equal_spec_. split.
        - rewrite (less_eqv_l a a' b Ea). exact La.
        - rewrite (less_eqv_l b b' a Eb). exact Lb. }
      constructor; [exact Eab|]. apply IH; [exact Ht1|exact Ht2|].
      intros p. specialize (HC p). cbn [filter] in HC. rewrite (eqv_congr p a b Eab) in HC.
      destruct (equal_ less p b); cbn [length] in HC; congruence.
  Qed.

  Lemma Forall2_eqv_sorted : forall l m, Forall2 (fun a b => equal_ less a b = true) l m ->
    nondecreasing less m -> nondecreasing less l.
  Proof.
    unfold nondecreasing. intros l m HF. induction HF as [|a b l m Eab HF IH]; intros Hs; [constructor|].
    apply StronglySorted_inv in Hs. destruct Hs as [Hm Hb]. constructor; [apply IH; exact Hm|].
    clear IH Hm. induction HF as [|y y' l m Ey HF IH]; [constructor|].
    inversion Hb as [|? ? Hy' Hb']; subst. constructor; [|apply IH; exact Hb'].
    rewrite (less_eqv_l y y' a Ey), (less_eqv_r y' a b Eab). exact Hy'.
  Qed.

  Lemma slice_spec_ x out :
    slice_allowed less x out = true <-> (Permutation out x /\ nondecreasing less out).
  Proof.
    unfold slice_allowed. rewrite andb_true_iff, same_items_perm, all2_Forall2. split.
    - intros [HP HF]. split.
      + eapply perm_trans; [exact HP|apply slice_stable_perm].
      + eapply Forall2_eqv_sorted; [exact HF|apply slice_stable_sorted_].
    - intros [HP HS].
      assert (HP' : Permutation out (slice_stable less x)).
      { eapply perm_trans; [exact HP|apply Permutation_sym, slice_stable_perm]. }
      split; [exact HP'|]. apply sorted_counts_Forall2; [exact HS|apply slice_stable_sorted_|].
      intros p. apply Permutation_filter_length. exact HP'.
  Qed.
End StableSort.

(* SliceStable: the result is a rearrangement of the input ... *)
(* ... in which no later item is less than an earlier one ... *)
Theorem slice_stable_sorted : forall less x, strict_weak less ->
    nondecreasing less (slice_stable less x).
Proof. intros less x SWO. apply slice_stable_sorted_. exact SWO. Qed.

(* ... and the items of every equivalence class keep the order they had in the input. *)
Theorem slice_stable_stable : forall less x, strict_weak less ->
    forall p, filter (equal_ less p) (slice_stable less x) = filter (equal_ less p) x.
Proof. intros less x SWO p. apply slice_stable_stable_. exact SWO. Qed.

(* Completeness of the model: a sorted list that keeps every equivalence class in input order IS
   slice_stable's output (being a permutation of the input follows, see below), so the model is
   the specification of every correct stable sort, whatever its algorithm. *)
Theorem slice_stable_unique : forall less x out, strict_weak less ->
    nondecreasing less out ->
    (forall p, filter (equal_ less p) out = filter (equal_ less p) x) ->
    out = slice_stable less x.
Proof. intros less x out SWO. apply slice_stable_unique_. exact SWO. Qed.

Theorem stable_rearrangement_is_permutation : forall less x out, strict_weak less ->
    nondecreasing less out ->
    (forall p, filter (equal_ less p) out = filter (equal_ less p) x) ->
    Permutation out x.
Proof.
  intros less x out SWO Hs HF. rewrite (slice_stable_unique less x out SWO Hs HF).
  apply slice_stable_perm.
Qed.

(* Slice: the allowed results are exactly the sorted permutations of the input, i.e. the
   model's output up to the order inside each class of equivalent items. *)
Theorem slice_spec : forall less x out, strict_weak less ->
    (slice_allowed less x out = true <-> (Permutation out x /\ nondecreasing less out)).
Proof. intros less x out SWO. apply slice_spec_. exact SWO. Qed.

(* the stable result is itself allowed for Slice *)
Theorem slice_stable_allowed : forall less x, strict_weak less ->
    slice_allowed less x (slice_stable less x) = true.
Proof.
  intros less x SWO. apply (slice_spec less x _ SWO).
  split; [apply slice_stable_perm|apply slice_stable_sorted; exact SWO].
Qed.

(* coarse order (key = item / 10, the unit digit is a tag that the order does not see): ties
   keep their input order; the reversed order; what Slice may and may not return *)
Example slice_stable_runs :
  let less := fun a b => Z.quot a 10 <? Z.quot b 10 in
  slice_stable less [31; 12; 30; 11; 32; 10; 25] = [12; 11; 10; 25; 31; 30; 32] /\
  slice_stable (reverse_less less) [31; 12; 30; 11; 32; 10; 25] = [31; 30; 32; 25; 12; 11; 10] /\
  slice_stable less [] = [] /\
  slice_allowed less [31; 12; 30; 11] [11; 12; 30; 31] = true /\
  slice_allowed less [31; 12; 30; 11] [12; 31; 30; 11] = false /\
  slice_allowed less [31; 12; 30; 11] [12; 11; 31; 31] = false.
Proof. vm_compute. repeat split; reflexivity. Qed.
