(* Proofs for package xsort (C19): comparators, SliceIsSorted, Search, Merge, MergeSlices, MinK.
   Merge and MinK run on the heap model; the facts about New / Push / Pop come from Heap/Lemmas.v. *)
From Coq Require Import Permutation Sorted.
From Juniper Require Import Common.Base Pure.Slices Pure.Sort Pure.Spec Heap.Model Heap.Lemmas.

(* ------------------------------------------------------------------ strict weak orders *)
Section Order.
  Variable less : Z -> Z -> bool.
  Hypothesis SWO : strict_weak less.

  Lemma sw_irrefl a : less a a = false.
  Proof. destruct SWO as [H _]. apply H. Qed.
  Lemma sw_trans a b c : less a b = true -> less b c = true -> less a c = true.
  Proof. destruct SWO as [_ [H _]]. apply H. Qed.
  Lemma sw_incomp a b c : less a b = false -> less b c = false -> less a c = false.
  Proof. destruct SWO as [_ [_ H]]. apply H. Qed.
  Lemma sw_asym a b : less a b = true -> less b a = false.
  Proof.
    intros Hab. destruct (less b a) eqn:E; [|reflexivity].
    pose proof (sw_trans a b a Hab E) as H. rewrite sw_irrefl in H. discriminate.
  Qed.
End Order.

(* ------------------------------------------------------------------ comparators *)
Theorem greater_spec : forall less a b, greater less a b = less b a.
Proof. reflexivity. Qed.
Theorem less_or_equal_spec : forall less a b, less_or_equal less a b = negb (less b a).
Proof. reflexivity. Qed.
Theorem greater_or_equal_spec : forall less a b, greater_or_equal less a b = negb (less a b).
Proof. reflexivity. Qed.
Theorem equal_spec_ : forall less a b, equal_ less a b = true <-> (less a b = false /\ less b a = false).
Proof.
  intros less a b. unfold equal_. rewrite andb_true_iff, !negb_true_iff. tauto.
Qed.

Theorem reverse_less_spec : forall less, strict_weak less -> strict_weak (reverse_less less) /\
    (forall a b, reverse_less less a b = less b a).
Proof.
  intros less SWO. split; [|reflexivity].
  unfold reverse_less. split; [|split].
  - intros a. apply (sw_irrefl less SWO).
  - intros a b c Hab Hbc. apply (sw_trans less SWO c b a); assumption.
  - intros a b c Hab Hbc. apply (sw_incomp less SWO c b a); assumption.
Qed.

Theorem less_compare_spec : forall less a b, strict_weak less ->
    (less_compare less a b = -1 <-> less a b = true) /\
    (less_compare less a b = 1 <-> less b a = true) /\
    (less_compare less a b = 0 <-> (less a b = false /\ less b a = false)) /\
    less_compare less b a = - less_compare less a b.
Proof.
  intros less a b SWO. unfold less_compare.
  destruct (less a b) eqn:Eab.
  - rewrite (sw_asym less SWO a b Eab).
    split; [split; intros _; reflexivity|].
    split; [split; intros Hc; discriminate Hc|].
    split; [split; [intros Hc; discriminate Hc|intros [Hc _]; discriminate Hc]|reflexivity].
  - destruct (less b a) eqn:Eba.
    + split; [split; intros Hc; discriminate Hc|].
      split; [split; intros _; reflexivity|].
      split; [split; [intros Hc; discriminate Hc|intros [_ Hc]; discriminate Hc]|reflexivity].
    + split; [split; intros Hc; discriminate Hc|].
      split; [split; intros Hc; discriminate Hc|].
      split; [split; [intros _; split; reflexivity|intros _; reflexivity]|reflexivity].
Qed.

Theorem ordered_less_spec : forall a b, ordered_less a b = true <-> a < b.
Proof. intros a b. unfold ordered_less. apply Z.ltb_lt. Qed.

Example comparators_run :
  let less := fun a b => Z.quot a 10 <? Z.quot b 10 in
  (greater less 25 11, less_or_equal less 11 15, greater_or_equal less 11 15, equal_ less 11 15,
   reverse_less less 11 25, less_compare less 11 25, less_compare less 25 11, less_compare less 11 15)
  = (true, true, true, true, false, -1, 1, 0).
Proof. vm_compute. reflexivity. Qed.

(* ------------------------------------------------------------------ list access helpers *)
Lemma znth_cons_pos x (l : list Z) i : 0 < i -> znth (x :: l) i = znth l (i - 1).
Proof.
  intros H. unfold znth. replace (Z.to_nat i) with (S (Z.to_nat (i - 1))) by lia. reflexivity.
Qed.

Lemma znth_0 x (l : list Z) : znth (x :: l) 0 = x.
Proof. reflexivity. Qed.

Lemma zlen_cons' (x : Z) l : zlen (x :: l) = zlen l + 1.
Proof. rewrite zlen_cons. lia. Qed.

Lemma znth_In (l : list Z) i : 0 <= i < zlen l -> In (znth l i) l.
Proof. intros H. unfold znth. apply nth_In. unfold zlen in H. lia. Qed.

Lemma In_znth (l : list Z) x : In x l -> exists i, 0 <= i < zlen l /\ znth l i = x.
Proof.
  intros H. destruct (In_nth l x 0 H) as [n [Hn E]].
  exists (Z.of_nat n). unfold znth, zlen. rewrite Nat2Z.id. split; [lia|exact E].
Qed.

(* ------------------------------------------------------------------ SliceIsSorted *)
Lemma is_sorted_loop_spec less x : forall n,
    is_sorted_loop less x n = true <->
    (forall i, 0 < i <= Z.of_nat n -> less (znth x i) (znth x (i - 1)) = false).
Proof.
  induction n as [|n IH].
  - simpl. split; [intros _ i Hi; lia|reflexivity].
  - cbn [is_sorted_loop].
    destruct (less (znth x (Z.of_nat (S n))) (znth x (Z.of_nat n))) eqn:E.
    + split; [discriminate|]. intros H.
      specialize (H (Z.of_nat (S n)) ltac:(lia)).
      replace (Z.of_nat (S n) - 1) with (Z.of_nat n) in H by lia. congruence.
    + rewrite IH. split; intros H i Hi.
      * destruct (Z.eq_dec i (Z.of_nat (S n))) as [->|Hne].
        -- replace (Z.of_nat (S n) - 1) with (Z.of_nat n) by lia. exact E.
        -- apply H. lia.
      * apply H. lia.
Qed.

Theorem slice_is_sorted_adjacent : forall less x,
    slice_is_sorted less x = true <-> (forall i, 0 < i < zlen x -> less (znth x i) (znth x (i - 1)) = false).
Proof.
  intros less x. unfold slice_is_sorted. rewrite is_sorted_loop_spec.
  unfold zlen. split; intros H i Hi; apply H; lia.
Qed.

Lemma nondecreasing_adjacent less (SWO : strict_weak less) : forall x,
    nondecreasing less x <-> (forall i, 0 < i < zlen x -> less (znth x i) (znth x (i - 1)) = false).
Proof.
  induction x as [|a t IH].
  - split; [intros _ i Hi; unfold zlen in Hi; simpl in Hi; lia|intros _; constructor].
  - split.
    + intros Hs i Hi. inversion Hs as [|a' t' Ht Hall]; subst.
      rewrite zlen_cons' in Hi.
      destruct (Z.eq_dec i 1) as [->|Hne].
      * replace (1 - 1) with 0 by lia. rewrite znth_0, znth_cons_pos by lia.
        replace (1 - 1) with 0 by lia.
        rewrite Forall_forall in Hall. apply Hall. apply znth_In. lia.
      * rewrite (znth_cons_pos a t i) by lia. rewrite (znth_cons_pos a t (i - 1)) by lia.
        apply (proj1 IH Ht). lia.
    + intros H.
      assert (Ht : nondecreasing less t).
      { apply IH. intros i Hi. specialize (H (i + 1)). rewrite zlen_cons' in H.
        rewrite (znth_cons_pos a t (i + 1)) in H by lia.
        replace (i + 1 - 1) with i in H by lia.
        rewrite (znth_cons_pos a t i) in H by lia. apply H. lia. }
      constructor; [exact Ht|].
      destruct t as [|b t']; [constructor|].
      assert (Hab : less b a = false).
      { specialize (H 1). rewrite zlen_cons', zlen_cons' in H.
        pose proof (zlen_nonneg t'). apply H. lia. }
      constructor; [exact Hab|].
      inversion Ht as [|b' t'' Ht' Hall]; subst.
      rewrite Forall_forall in *. intros y Hy.
      apply (sw_incomp less SWO y b a); [apply Hall; exact Hy|exact Hab].
Qed.

Theorem slice_is_sorted_spec : forall less x, strict_weak less ->
    (slice_is_sorted less x = true <-> nondecreasing less x).
Proof.
  intros less x SWO. rewrite slice_is_sorted_adjacent. symmetry. apply nondecreasing_adjacent. exact SWO.
Qed.

Example slice_is_sorted_runs :
  let less := fun a b => Z.quot a 10 <? Z.quot b 10 in
  (slice_is_sorted less [10; 25; 21; 30], slice_is_sorted less [10; 30; 21], slice_is_sorted less []) = (true, false, true).
Proof. vm_compute. reflexivity. Qed.

(* ------------------------------------------------------------------ Search *)
Lemma search_loop_spec (f : Z -> bool) n : forall fuel i j,
    0 <= i <= j -> j <= n -> j - i < Z.of_nat fuel ->
    (0 < i -> f (i - 1) = false) -> (j < n -> f j = true) ->
    let r := search_loop f fuel i j in
    i <= r <= j /\ (r < n -> f r = true) /\ (0 < r -> f (r - 1) = false).
Proof.
  induction fuel as [|fuel IH]; intros i j Hij Hjn Hfuel Hlo Hhi; [lia|].
  cbn [search_loop].
  destruct (i <? j) eqn:E.
  - apply Z.ltb_lt in E.
    assert (Hh : i <= (i + j) / 2 < j).
    { split; [apply Z.div_le_lower_bound; lia|apply Z.div_lt_upper_bound; lia]. }
    destruct (f ((i + j) / 2)) eqn:Ef; cbn [negb].
    + specialize (IH i ((i + j) / 2) ltac:(lia) ltac:(lia) ltac:(lia) Hlo (fun _ => Ef)).
      cbv zeta in IH. destruct IH as [H1 [H2 H3]]. repeat split; try lia; assumption.
    + specialize (IH ((i + j) / 2 + 1) j ltac:(lia) ltac:(lia) ltac:(lia)).
      assert (Hlo' : 0 < (i + j) / 2 + 1 -> f ((i + j) / 2 + 1 - 1) = false).
      { intros _. replace ((i + j) / 2 + 1 - 1) with ((i + j) / 2) by lia. exact Ef. }
      specialize (IH Hlo' Hhi). cbv zeta in IH. destruct IH as [H1 [H2 H3]].
      repeat split; try lia; assumption.
  - apply Z.ltb_ge in E. assert (i = j) by lia. subst j.
    repeat split; try lia; assumption.
Qed.

Theorem search_contract : forall less x item,
    let f := fun i => less item (znth x i) || negb (less (znth x i) item) in
    let r := search less x item in
    0 <= r <= zlen x /\ (r < zlen x -> f r = true) /\ (0 < r -> f (r - 1) = false).
Proof.
  intros less x item f r. unfold r, search, sort_search.
  pose proof (zlen_nonneg x) as Hn.
  apply (search_loop_spec f (zlen x)); try lia.
Qed.

Theorem search_spec : forall less x item, strict_weak less -> nondecreasing less x ->
    let r := search less x item in
    0 <= r <= zlen x /\
    (forall i, 0 <= i < r -> less (znth x i) item = true) /\
    (forall i, r <= i < zlen x -> less (znth x i) item = false).
Proof.
  intros less x item SWO Hs r.
  destruct (search_contract less x item) as [Hr [Hhi Hlo]]. fold r in Hr, Hhi, Hlo.
  (* under a strict weak order, f i = negb (less x[i] item) *)
  assert (Hf : forall i, (less item (znth x i) || negb (less (znth x i) item)) = negb (less (znth x i) item)).
  { intros i. destruct (less (znth x i) item) eqn:E; cbn [negb]; [|apply orb_true_r].
    rewrite (sw_asym less SWO _ _ E). reflexivity. }
  (* sortedness: i <= j -> not less x[j] x[i] *)
  assert (Hmono : forall i j, 0 <= i <= j -> j < zlen x -> less (znth x j) (znth x i) = false).
  { clear -SWO Hs. induction Hs as [|a t Ht IH Hall]; intros i j Hij Hj.
    - unfold zlen in Hj; simpl in Hj; lia.
    - rewrite zlen_cons' in Hj. destruct (Z.eq_dec i 0) as [->|Hi].
      + destruct (Z.eq_dec j 0) as [->|Hj0]; [apply (sw_irrefl less SWO)|].
        rewrite znth_0, znth_cons_pos by lia. rewrite Forall_forall in Hall.
        apply Hall. apply znth_In. lia.
      + rewrite (znth_cons_pos a t i), (znth_cons_pos a t j) by lia. apply IH; lia. }
  split; [exact Hr|]. split.
  - intros i Hi. assert (Hr0 : 0 < r) by lia. specialize (Hlo Hr0). rewrite Hf in Hlo.
    apply negb_false_iff in Hlo.
    destruct (less (znth x i) item) eqn:E; [reflexivity|].
    (* x[r-1] <= ... : not less x[r-1] x[i], not less x[i] item => not less x[r-1] item *)
    pose proof (Hmono i (r - 1) ltac:(lia) ltac:(lia)) as Hm.
    rewrite (sw_incomp less SWO _ _ _ Hm E) in Hlo. discriminate.
  - intros i Hi. specialize (Hhi ltac:(lia)). rewrite Hf in Hhi. apply negb_true_iff in Hhi.
    pose proof (Hmono r i ltac:(lia) ltac:(lia)) as Hm.
    apply (sw_incomp less SWO _ _ _ Hm Hhi).
Qed.

Example search_runs :
  let less := fun a b => Z.quot a 10 <? Z.quot b 10 in
  (search less [10; 25; 21; 30; 41] 22, search less [10; 25; 21; 30; 41] 5, search less [10; 25; 21; 30; 41] 99,
   search less [] 3) = (1, 0, 5, 0).
Proof. vm_compute. reflexivity. Qed.
