(* Proofs for C19, part SlicesA (package xslices): Partition, RemoveUnordered, nub / Unique,
   UniqueInPlace, Reverse.  Models: Pure/Slices.v; spec definitions: Pure/Spec.v.
   Stdlib only, no axioms.  Main theorems: partition_spec, remove_unordered_spec, nub_props,
   unique_spec, unique_in_place_spec, reverse_spec (each followed by a non-vacuity Example). *)
From Coq Require Import Permutation.
From Juniper Require Import Common.Base Pure.Slices Pure.Spec.

(* ================================================================ generic helpers (nat level) *)

Lemma nth_upd_same (l : list Z) (n : nat) (x d : Z) :
  (n < length l)%nat -> nth n (upd l n x) d = x.
Proof.
  revert n; induction l as [|h t IH]; intros [|n] H; simpl in *; try lia; auto.
  apply IH; lia.
Qed.

Lemma nth_upd_other (l : list Z) (n m : nat) (x d : Z) :
  n <> m -> nth m (upd l n x) d = nth m l d.
Proof.
  revert n m; induction l as [|h t IH]; intros [|n] [|m] H; simpl; auto; try congruence.
Qed.

Lemma upd_app_exact (a b : list Z) (y x : Z) :
  upd (a ++ y :: b) (length a) x = a ++ x :: b.
Proof. induction a as [|h a IH]; simpl; [reflexivity|]. now rewrite IH. Qed.

Lemma perm_upd_head (t : list Z) (j : nat) (x d : Z) :
  (j < length t)%nat -> Permutation (nth j t d :: upd t j x) (x :: t).
Proof.
  revert j; induction t as [|h t IH]; intros [|j] H; simpl in *; try lia.
  - apply perm_swap.
  - eapply perm_trans; [apply perm_swap|].
    eapply perm_trans; [apply perm_skip, IH; lia | apply perm_swap].
Qed.

Lemma perm_swap_nat (l : list Z) (i j : nat) (d : Z) :
  (i < length l)%nat -> (j < length l)%nat ->
  Permutation (upd (upd l i (nth j l d)) j (nth i l d)) l.
Proof.
  revert i j; induction l as [|h t IH]; intros i j Hi Hj; simpl in *; [lia|].
  destruct i as [|i], j as [|j]; simpl.
  - apply Permutation_refl.
  - apply perm_upd_head; lia.
  - apply perm_upd_head; lia.
  - apply perm_skip, IH; lia.
Qed.

Lemma filter_all_true (g : Z -> bool) (l : list Z) :
  (forall x, In x l -> g x = true) -> filter g l = l.
Proof.
  induction l as [|h t IH]; intros H; simpl; [reflexivity|].
  rewrite (H h (or_introl eq_refl)). f_equal. apply IH. intros x Hx. apply H. now right.
Qed.

Lemma filter_all_false (g : Z -> bool) (l : list Z) :
  (forall x, In x l -> g x = false) -> filter g l = [].
Proof.
  induction l as [|h t IH]; intros H; simpl; [reflexivity|].
  rewrite (H h (or_introl eq_refl)). apply IH. intros x Hx. apply H. now right.
Qed.

Lemma perm_filter (g : Z -> bool) (l m : list Z) :
  Permutation l m -> Permutation (filter g l) (filter g m).
Proof.
  induction 1 as [|x l m Hp IH|x y l|l m n H1 IH1 H2 IH2]; simpl.
  - constructor.
  - destruct (g x); [now constructor|assumption].
  - destruct (g x), (g y); try apply Permutation_refl. apply perm_swap.
  - eapply perm_trans; eassumption.
Qed.

Lemma In_firstn_nth (l : list Z) (n : nat) (x d : Z) :
  In x (firstn n l) -> exists k, (k < n)%nat /\ (k < length l)%nat /\ nth k l d = x.
Proof.
  revert n; induction l as [|h t IH]; intros [|n] H; simpl in *; try contradiction.
  destruct H as [H|H].
  - exists O. split; [lia|split; [lia|exact H]].
  - destruct (IH n H) as (k & Hk1 & Hk2 & Hk3). exists (S k). split; [lia|split; [lia|exact Hk3]].
Qed.

Lemma In_skipn_nth (l : list Z) (n : nat) (x d : Z) :
  In x (skipn n l) -> exists k, (n <= k)%nat /\ (k < length l)%nat /\ nth k l d = x.
Proof.
  revert l; induction n as [|n IH]; intros l H.
  - rewrite skipn_O in H. destruct (In_nth _ _ d H) as (k & Hk1 & Hk2).
    exists k. split; [lia|split; [exact Hk1|exact Hk2]].
  - destruct l as [|h t]; simpl in H; [contradiction|].
    destruct (IH t H) as (k & Hk1 & Hk2 & Hk3).
    exists (S k). simpl. split; [lia|split; [lia|exact Hk3]].
Qed.

(* ================================================================ Z-level helpers *)

Lemma zlen_length (l : list Z) : zlen l = Z.of_nat (length l).
Proof. reflexivity. Qed.

Lemma zlen_zupd (l : list Z) (i x : Z) : zlen (zupd l i x) = zlen l.
Proof. unfold zlen, zupd. now rewrite upd_length. Qed.

Lemma znth_zupd_same (l : list Z) (i x : Z) : 0 <= i < zlen l -> znth (zupd l i x) i = x.
Proof. intros H. unfold znth, zupd. apply nth_upd_same. unfold zlen in H. lia. Qed.

Lemma znth_zupd_other (l : list Z) (i k x : Z) :
  0 <= i -> 0 <= k -> i <> k -> znth (zupd l i x) k = znth l k.
Proof. intros Hi Hk Hne. unfold znth, zupd. apply nth_upd_other. lia. Qed.

Lemma zlen_swap (l : list Z) (i j : Z) : zlen (swap l i j) = zlen l.
Proof. unfold swap. now rewrite !zlen_zupd. Qed.

Lemma znth_swap_l (l : list Z) (i j : Z) :
  0 <= i < zlen l -> 0 <= j < zlen l -> i <> j -> znth (swap l i j) i = znth l j.
Proof.
  intros Hi Hj Hne. unfold swap.
  rewrite znth_zupd_other by lia. apply znth_zupd_same; assumption.
Qed.

Lemma znth_swap_r (l : list Z) (i j : Z) :
  0 <= i < zlen l -> 0 <= j < zlen l -> znth (swap l i j) j = znth l i.
Proof.
  intros Hi Hj. unfold swap. apply znth_zupd_same. now rewrite zlen_zupd.
Qed.

Lemma znth_swap_other (l : list Z) (i j k : Z) :
  0 <= i -> 0 <= j -> 0 <= k -> k <> i -> k <> j -> znth (swap l i j) k = znth l k.
Proof.
  intros Hi Hj Hk H1 H2. unfold swap. rewrite !znth_zupd_other by lia. reflexivity.
Qed.

Lemma perm_swap_z (l : list Z) (i j : Z) :
  0 <= i < zlen l -> 0 <= j < zlen l -> Permutation l (swap l i j).
Proof.
  intros Hi Hj. apply Permutation_sym. unfold swap, zupd, znth.
  unfold zlen in *. apply perm_swap_nat; lia.
Qed.

Lemma zfirstn_app_exact (a l : list Z) : zfirstn (zlen a) (a ++ l) = a.
Proof.
  unfold zfirstn, zlen. rewrite Nat2Z.id.
  rewrite firstn_app, Nat.sub_diag, firstn_O, app_nil_r. apply firstn_all.
Qed.

Lemma zskipn_app_exact (a l : list Z) : zskipn (zlen a) (a ++ l) = l.
Proof.
  unfold zskipn, zlen. rewrite Nat2Z.id.
  rewrite skipn_app, Nat.sub_diag, skipn_all. reflexivity.
Qed.

Lemma clear_zeros (l : list Z) : clear l = zeros (zlen l).
Proof.
  unfold clear, fill, zeros, zrepeat, zlen. rewrite Nat2Z.id.
  induction l as [|h t IH]; simpl; [reflexivity|now rewrite IH].
Qed.

(* ================================================================ Partition *)

Lemma part_up_spec (f : Z -> bool) (s : list Z) : forall (fuel : nat) (i j i1 : Z),
  j - i <= Z.of_nat fuel ->
  part_up f s fuel i j = i1 ->
  i <= i1 /\ (i1 <= j \/ i1 = i) /\
  (forall k, i <= k < i1 -> f (znth s k) = false) /\
  (i1 < j -> f (znth s i1) = true).
Proof.
  induction fuel as [|fu IH]; intros i j i1 Hf E.
  - simpl in E. subst i1. repeat split; intros; lia.
  - simpl in E. destruct (i <? j) eqn:Eij.
    + apply Z.ltb_lt in Eij. destruct (f (znth s i)) eqn:Ef; simpl in E.
      * subst i1. repeat split; intros; try lia; auto.
      * assert (Hf' : j - (i + 1) <= Z.of_nat fu) by lia.
        destruct (IH (i + 1) j i1 Hf' E) as (H1 & H2 & H3 & H4).
        repeat split; try lia; auto.
        intros k Hk. destruct (Z.eq_dec k i) as [->|Hne]; [assumption|]. apply H3; lia.
    + apply Z.ltb_ge in Eij. subst i1. repeat split; intros; lia.
Qed.

Lemma part_down_spec (f : Z -> bool) (s : list Z) : forall (fuel : nat) (i j j1 : Z),
  j - i <= Z.of_nat fuel ->
  part_down f s fuel i j = j1 ->
  j1 <= j /\ (i <= j1 \/ j1 = j) /\
  (forall k, j1 < k <= j -> f (znth s k) = true) /\
  (i < j1 -> f (znth s j1) = false).
Proof.
  induction fuel as [|fu IH]; intros i j j1 Hf E.
  - simpl in E. subst j1. repeat split; intros; lia.
  - simpl in E. destruct (j >? i) eqn:Eij.
    + apply Z.gtb_lt in Eij. destruct (f (znth s j)) eqn:Ef.
      * assert (Hf' : (j - 1) - i <= Z.of_nat fu) by lia.
        destruct (IH i (j - 1) j1 Hf' E) as (H1 & H2 & H3 & H4).
        repeat split; try lia; auto.
        intros k Hk. destruct (Z.eq_dec k j) as [->|Hne]; [assumption|]. apply H3; lia.
      * subst j1. repeat split; intros; try lia; auto.
    + assert (j <= i) by (rewrite Z.gtb_ltb in Eij; apply Z.ltb_ge in Eij; lia).
      subst j1. repeat split; intros; lia.
Qed.

Definition lefts (f : Z -> bool) (s : list Z) (i : Z) : Prop :=
  forall k, 0 <= k < i -> f (znth s k) = false.
Definition rights (f : Z -> bool) (s : list Z) (j : Z) : Prop :=
  forall k, j < k < zlen s -> f (znth s k) = true.

Lemma part_loop_S (f : Z -> bool) (fu : nat) (s : list Z) (i j : Z) :
  part_loop f (S fu) s i j =
  let i1 := part_up f s (length s) i j in
  let j1 := part_down f s (length s) i1 j in
  if i1 >=? j1 then (s, i1) else part_loop f fu (swap s i1 j1) (i1 + 1) (j1 - 1).
Proof. reflexivity. Qed.

Lemma part_loop_spec (f : Z -> bool) : forall (fuel : nat) (s : list Z) (i j : Z) (s' : list Z) (r : Z),
  0 <= i -> j < zlen s -> i <= j + 1 -> j - i + 2 <= Z.of_nat fuel ->
  lefts f s i -> rights f s j ->
  part_loop f fuel s i j = (s', r) ->
  Permutation s s' /\ zlen s' = zlen s /\ 0 <= r <= zlen s /\ lefts f s' r /\ rights f s' r.
Proof.
  induction fuel as [|fu IH]; intros s i j s' r Hi Hj Hij Hfuel HL HR Hrun.
  - simpl in Hfuel. lia.
  - rewrite part_loop_S in Hrun. cbv zeta in Hrun.
    remember (part_up f s (length s) i j) as i1 eqn:Ei1.
    remember (part_down f s (length s) i1 j) as j1 eqn:Ej1.
    symmetry in Ei1, Ej1.
    assert (Hlen : zlen s = Z.of_nat (length s)) by reflexivity.
    assert (Hfu1 : j - i <= Z.of_nat (length s)) by lia.
    destruct (part_up_spec f s (length s) i j i1 Hfu1 Ei1) as (U1 & U2 & U3 & U4).
    assert (Hfu2 : j - i1 <= Z.of_nat (length s)) by lia.
    destruct (part_down_spec f s (length s) i1 j j1 Hfu2 Ej1) as (D1 & D2 & D3 & D4).
    destruct (i1 >=? j1) eqn:Ege.
    + apply Z.geb_le in Ege. inversion Hrun; subst s' r. clear Hrun.
      split; [apply Permutation_refl|]. split; [reflexivity|]. split; [lia|]. split.
      * intros k Hk. destruct (Z.lt_ge_cases k i) as [Hlt|Hge]; [apply HL; lia|apply U3; lia].
      * intros k Hk. destruct (Z.lt_ge_cases j k) as [Hlt|Hge]; [apply HR; lia|apply D3; lia].
    + assert (Hlt : i1 < j1) by (rewrite Z.geb_leb in Ege; apply Z.leb_gt in Ege; lia).
      assert (Fi1 : f (znth s i1) = true) by (apply U4; lia).
      assert (Fj1 : f (znth s j1) = false) by (apply D4; lia).
      assert (Ri1 : 0 <= i1 < zlen s) by lia.
      assert (Rj1 : 0 <= j1 < zlen s) by lia.
      assert (Hne : i1 <> j1) by lia.
      assert (HL' : lefts f (swap s i1 j1) (i1 + 1)).
      { intros k Hk. destruct (Z.eq_dec k i1) as [->|Hk1].
        - rewrite znth_swap_l by assumption. exact Fj1.
        - rewrite znth_swap_other by lia.
          destruct (Z.lt_ge_cases k i) as [Hlt'|Hge]; [apply HL; lia|apply U3; lia]. }
      assert (HR' : rights f (swap s i1 j1) (j1 - 1)).
      { intros k Hk. rewrite zlen_swap in Hk. destruct (Z.eq_dec k j1) as [->|Hk1].
        - rewrite znth_swap_r by assumption. exact Fi1.
        - rewrite znth_swap_other by lia.
          destruct (Z.lt_ge_cases j k) as [Hlt'|Hge]; [apply HR; lia|apply D3; lia]. }
      assert (Hj' : j1 - 1 < zlen (swap s i1 j1)) by (rewrite zlen_swap; lia).
      assert (Hi' : 0 <= i1 + 1) by lia.
      assert (Hij' : i1 + 1 <= j1 - 1 + 1) by lia.
      assert (Hfuel' : j1 - 1 - (i1 + 1) + 2 <= Z.of_nat fu) by lia.
      destruct (IH (swap s i1 j1) (i1 + 1) (j1 - 1) s' r Hi' Hj' Hij' Hfuel' HL' HR' Hrun)
        as (P1 & P2 & P3 & P4 & P5).
      rewrite zlen_swap in P2, P3.
      split; [eapply perm_trans; [exact (perm_swap_z s i1 j1 Ri1 Rj1)|exact P1]|].
      repeat split; try assumption; lia.
Qed.

Lemma index_to_In (f : Z -> bool) (s : list Z) (r : Z) :
  0 <= r <= zlen s ->
  (forall k, 0 <= k < r -> f (znth s k) = false) ->
  (forall k, r <= k < zlen s -> f (znth s k) = true) ->
  (forall x, In x (zfirstn r s) -> f x = false) /\
  (forall x, In x (zskipn r s) -> f x = true).
Proof.
  intros Hr HL HR. unfold zlen in *. split; intros x Hx.
  - destruct (In_firstn_nth _ _ _ 0 Hx) as (k & K1 & K2 & K3).
    rewrite <- K3. specialize (HL (Z.of_nat k)). unfold znth in HL. rewrite Nat2Z.id in HL.
    apply HL. lia.
  - destruct (In_skipn_nth _ _ _ 0 Hx) as (k & K1 & K2 & K3).
    rewrite <- K3. specialize (HR (Z.of_nat k)). unfold znth in HR. rewrite Nat2Z.id in HR.
    apply HR. lia.
Qed.

Theorem partition_spec : forall (f : Z -> bool) (s s' : list Z) (r : Z),
    partition f s = (r, s') ->
    Permutation s s' /\
    0 <= r <= zlen s /\
    r = zlen (filter (fun x => negb (f x)) s) /\
    (forall x, In x (zfirstn r s') -> f x = false) /\
    (forall x, In x (zskipn r s') -> f x = true).
Proof.
  intros f s s' r H. unfold partition in H.
  destruct (part_loop f (S (length s)) s 0 (zlen s - 1)) as [s1 i1] eqn:E.
  assert (Hlen : zlen s = Z.of_nat (length s)) by reflexivity.
  assert (A1 : 0 <= 0) by lia.
  assert (A2 : zlen s - 1 < zlen s) by lia.
  assert (A3 : 0 <= zlen s - 1 + 1) by lia.
  assert (A4 : zlen s - 1 - 0 + 2 <= Z.of_nat (S (length s))) by lia.
  assert (A5 : lefts f s 0) by (intros k Hk; lia).
  assert (A6 : rights f s (zlen s - 1)) by (intros k Hk; lia).
  destruct (part_loop_spec f _ _ _ _ _ _ A1 A2 A3 A4 A5 A6 E) as (P1 & P2 & P3 & P4 & P5).
  inversion H as [[Hr Hs]]. subst s1. clear H. rewrite Hr.
  assert (Q : 0 <= r <= zlen s' /\
              (forall k, 0 <= k < r -> f (znth s' k) = false) /\
              (forall k, r <= k < zlen s' -> f (znth s' k) = true)).
  { rewrite P2. destruct (i1 <? zlen s) eqn:Elt; simpl in Hr.
    - apply Z.ltb_lt in Elt. destruct (f (znth s' i1)) eqn:Ef; simpl in Hr; subst r.
      + split; [lia|]. split; [exact P4|].
        intros k Hk. destruct (Z.eq_dec k i1) as [->|Hne]; [exact Ef|]. apply P5. lia.
      + split; [lia|]. split.
        * intros k Hk. destruct (Z.eq_dec k i1) as [->|Hne]; [exact Ef|]. apply P4. lia.
        * intros k Hk. apply P5. lia.
    - apply Z.ltb_ge in Elt. subst r. split; [lia|]. split; [exact P4|].
      intros k Hk. lia. }
  destruct Q as (Q1 & Q2 & Q3).
  destruct (index_to_In f s' r Q1 Q2 Q3) as (I1 & I2).
  split; [exact P1|]. split; [lia|]. split; [|split; assumption].
  assert (Hc : zlen (filter (fun x => negb (f x)) s) = zlen (filter (fun x => negb (f x)) s')).
  { unfold zlen. f_equal. apply Permutation_length. apply perm_filter. exact P1. }
  rewrite Hc. rewrite <- (firstn_skipn (Z.to_nat r) s') at 1. rewrite filter_app.
  fold (zfirstn r s'). fold (zskipn r s').
  rewrite (filter_all_true _ (zfirstn r s')), (filter_all_false _ (zskipn r s')).
  - rewrite app_nil_r. unfold zlen, zfirstn. rewrite firstn_length_le; unfold zlen in Q1; lia.
  - intros x Hx. rewrite (I2 x Hx). reflexivity.
  - intros x Hx. rewrite (I1 x Hx). reflexivity.
Qed.

Example partition_ex :
  partition (fun x => x >? 2) [5; 1; 4; 2; 3; 0] = (3, [0; 1; 2; 4; 3; 5]).
Proof. vm_compute. reflexivity. Qed.

(* ================================================================ RemoveUnordered *)

Lemma copy_to_suffix (dst src : list Z) :
  (length src <= length dst)%nat -> copy_to dst src = src ++ skipn (length src) dst.
Proof.
  intros H. unfold copy_to. rewrite Nat.min_r by lia. now rewrite firstn_all.
Qed.

Lemma ru_guards (s : list Z) (idx n : Z) :
  0 <= idx -> 0 <= n -> idx + n <= zlen s ->
  remove_unordered s idx n =
  let ks := Z.max (idx + n) (zlen s - n) in
  let s1 := zfirstn idx s ++ copy_to (zskipn idx s) (zskipn ks s) in
  let s2 := zfirstn (zlen s - n) s1 ++ clear (zskipn (zlen s - n) s1) in
  Ok (zfirstn (zlen s - n) s2, s2).
Proof.
  intros Hidx Hn Hle. unfold remove_unordered. cbv zeta.
  replace (if idx + n >? zlen s - n then idx + n else zlen s - n)
    with (Z.max (idx + n) (zlen s - n))
    by (destruct (Z.gtb_spec (idx + n) (zlen s - n)); lia).
  assert (G1 : negb ((0 <=? idx) && (idx <=? zlen s)) = false).
  { apply negb_false_iff, andb_true_iff; split; apply Z.leb_le; lia. }
  assert (G2 : negb ((0 <=? Z.max (idx + n) (zlen s - n)) && (Z.max (idx + n) (zlen s - n) <=? zlen s)) = false).
  { apply negb_false_iff, andb_true_iff; split; apply Z.leb_le; lia. }
  assert (G3 : negb ((0 <=? zlen s - n) && (zlen s - n <=? zlen s)) = false).
  { apply negb_false_iff, andb_true_iff; split; apply Z.leb_le; lia. }
  rewrite G1, G2, G3. reflexivity.
Qed.

(* the tail of s is shorter than the removed block: s = a ++ b ++ c, |c| <= |b| *)
Lemma ru_short (a b c : list Z) :
  zlen c <= zlen b ->
  remove_unordered (a ++ b ++ c) (zlen a) (zlen b) = Ok (a ++ c, (a ++ c) ++ zeros (zlen b)).
Proof.
  intros Hc.
  assert (Ha := zlen_nonneg a). assert (Hb := zlen_nonneg b). assert (Hcc := zlen_nonneg c).
  rewrite ru_guards by (rewrite ?zlen_app; lia). cbv zeta.
  rewrite !zlen_app.
  replace (Z.max (zlen a + zlen b) (zlen a + (zlen b + zlen c) - zlen b)) with (zlen (a ++ b)) by (rewrite zlen_app; lia).
  replace (zlen a + (zlen b + zlen c) - zlen b) with (zlen (a ++ c)) by (rewrite zlen_app; lia).
  rewrite zfirstn_app_exact, zskipn_app_exact.
  rewrite (app_assoc a b c), zskipn_app_exact.
  rewrite copy_to_suffix by (rewrite app_length; lia).
  rewrite (app_assoc a c), zfirstn_app_exact, zskipn_app_exact.
  rewrite zfirstn_app_exact. rewrite clear_zeros.
  f_equal. f_equal. f_equal. f_equal.
  unfold zlen in *. rewrite skipn_length, app_length. lia.
Qed.

(* the tail of s is at least as long as the removed block: s = a ++ b ++ c ++ d, |d| = |b| *)
Lemma ru_long (a b c d : list Z) :
  zlen d = zlen b ->
  remove_unordered (a ++ b ++ c ++ d) (zlen a) (zlen b) =
  Ok (a ++ d ++ c, (a ++ d ++ c) ++ zeros (zlen b)).
Proof.
  intros Hd.
  assert (Ha := zlen_nonneg a). assert (Hb := zlen_nonneg b). assert (Hcc := zlen_nonneg c).
  rewrite ru_guards by (rewrite ?zlen_app; lia). cbv zeta.
  rewrite !zlen_app.
  replace (Z.max (zlen a + zlen b) (zlen a + (zlen b + (zlen c + zlen d)) - zlen b))
    with (zlen (a ++ b ++ c)) by (rewrite !zlen_app; lia).
  replace (zlen a + (zlen b + (zlen c + zlen d)) - zlen b) with (zlen (a ++ d ++ c)) by (rewrite !zlen_app; lia).
  rewrite zfirstn_app_exact, zskipn_app_exact.
  replace (a ++ b ++ c ++ d) with ((a ++ b ++ c) ++ d) by (now rewrite <- !app_assoc).
  rewrite zskipn_app_exact.
  rewrite copy_to_suffix by (rewrite !app_length; lia).
  assert (Hsk : skipn (length d) (b ++ c ++ d) = c ++ d).
  { replace (length d) with (length b) by (unfold zlen in Hd; lia).
    rewrite skipn_app, Nat.sub_diag, skipn_all. reflexivity. }
  rewrite Hsk.
  replace (a ++ d ++ c ++ d) with ((a ++ d ++ c) ++ d) by (now rewrite <- !app_assoc).
  rewrite zfirstn_app_exact, zskipn_app_exact.
  rewrite zfirstn_app_exact. rewrite clear_zeros, Hd. reflexivity.
Qed.

Lemma split_at (s : list Z) (k : Z) :
  0 <= k <= zlen s -> exists a r, s = a ++ r /\ zlen a = k.
Proof.
  intros Hk. exists (firstn (Z.to_nat k) s), (skipn (Z.to_nat k) s). split.
  - symmetry. apply firstn_skipn.
  - unfold zlen in *. rewrite firstn_length_le; lia.
Qed.

Theorem remove_unordered_spec : forall (s : list Z) (idx n : Z),
    (0 <= idx /\ 0 <= n /\ idx + n <= zlen s ->
       exists ret, remove_unordered s idx n = Ok (ret, ret ++ zeros n) /\
                   zlen ret = zlen s - n /\
                   zfirstn idx ret = zfirstn idx s /\
                   Permutation ret (zfirstn idx s ++ zskipn (idx + n) s)) /\
    (~ (0 <= idx /\ 0 <= n /\ idx + n <= zlen s) -> remove_unordered s idx n = Panic PIndex).
Proof.
  intros s idx n. split.
  - intros (Hidx & Hn & Hle).
    destruct (split_at s idx) as (a & r0 & Es & Ea); [lia|].
    assert (Hr0 : zlen r0 = zlen s - idx) by (rewrite Es, zlen_app; lia).
    destruct (split_at r0 n) as (b & r1 & Er0 & Eb); [lia|].
    assert (Hr1 : zlen r1 = zlen r0 - n) by (rewrite Er0, zlen_app; lia).
    subst r0. subst s. subst idx. subst n.
    destruct (Z.le_gt_cases (zlen r1) (zlen b)) as [Hshort|Hlong].
    + exists (a ++ r1). split; [apply ru_short; exact Hshort|].
      split; [rewrite !zlen_app; lia|].
      rewrite !zfirstn_app_exact. split; [reflexivity|].
      rewrite <- zlen_app, (app_assoc a b r1), zskipn_app_exact. apply Permutation_refl.
    + destruct (split_at r1 (zlen r1 - zlen b)) as (c & d & Er1 & Ec); [pose proof (zlen_nonneg b); lia|].
      subst r1.
      assert (Hd : zlen d = zlen b) by (rewrite zlen_app in Ec; lia).
      exists (a ++ d ++ c). split; [apply ru_long; exact Hd|].
      split; [rewrite !zlen_app; lia|].
      rewrite !zfirstn_app_exact. split; [reflexivity|].
      rewrite <- zlen_app, (app_assoc a b (c ++ d)), zskipn_app_exact.
      apply Permutation_app_head. apply Permutation_app_comm.
  - intros Hnot. unfold remove_unordered. cbv zeta.
    destruct (0 <=? idx) eqn:E1; simpl; [|reflexivity].
    destruct (idx <=? zlen s) eqn:E2; simpl; [|reflexivity].
    apply Z.leb_le in E1, E2.
    destruct (idx + n >? zlen s - n) eqn:E3.
    + destruct (0 <=? idx + n) eqn:E4; simpl; [|reflexivity].
      destruct (idx + n <=? zlen s) eqn:E5; simpl; [|reflexivity].
      apply Z.leb_le in E4, E5. apply Z.gtb_lt in E3.
      exfalso. apply Hnot. lia.
    + destruct (0 <=? zlen s - n) eqn:E4; simpl; [|reflexivity].
      destruct (zlen s - n <=? zlen s) eqn:E5; simpl; [|reflexivity].
      apply Z.leb_le in E4, E5. rewrite Z.gtb_ltb in E3. apply Z.ltb_ge in E3.
      exfalso. apply Hnot. lia.
Qed.

Example remove_unordered_ex :
  remove_unordered [10; 11; 12; 13; 14; 15; 16] 1 2 = Ok ([10; 15; 16; 13; 14], [10; 15; 16; 13; 14; 0; 0])
  /\ remove_unordered [10; 11; 12; 13] 1 2 = Ok ([10; 13], [10; 13; 0; 0])
  /\ remove_unordered [10; 11; 12; 13] 3 2 = Panic PIndex
  /\ remove_unordered [10; 11; 12; 13] 1 (-1) = Panic PIndex.
Proof. vm_compute. repeat split; reflexivity. Qed.

(* ================================================================ nub *)

Lemma neqb_true (y x : Z) : negb (y =? x) = true <-> y <> x.
Proof. rewrite negb_true_iff. apply Z.eqb_neq. Qed.

Lemma nub_In (s : list Z) : forall x, In x (nub s) <-> In x s.
Proof.
  induction s as [|a t IH]; intros x; simpl; [tauto|].
  rewrite filter_In, neqb_true, IH.
  destruct (Z.eq_dec a x) as [->|Hne]; [tauto|].
  split; [tauto|]. intros [H|H]; [tauto|]. right. split; [exact H|congruence].
Qed.

Lemma nub_NoDup (s : list Z) : NoDup (nub s).
Proof.
  induction s as [|a t IH]; simpl; constructor.
  - rewrite filter_In, neqb_true. intros [_ H]. now apply H.
  - apply NoDup_filter. exact IH.
Qed.

Lemma nub_first_occurrence : forall (s1 : list Z) (x : Z) (s2 : list Z),
  ~ In x s1 ->
  exists n1 n2, nub (s1 ++ x :: s2) = n1 ++ x :: n2 /\ (forall y, In y n1 <-> In y s1).
Proof.
  induction s1 as [|a s1 IH]; intros x s2 Hnin.
  - exists [], (filter (fun y => negb (y =? x)) (nub s2)). split; [reflexivity|]. intros y; tauto.
  - assert (Hax : a <> x) by (intros ->; apply Hnin; now left).
    assert (Hnin' : ~ In x s1) by (intros H; apply Hnin; now right).
    destruct (IH x s2 Hnin') as (n1 & n2 & E & Hn1).
    exists (a :: filter (fun y => negb (y =? a)) n1), (filter (fun y => negb (y =? a)) n2).
    split.
    + simpl. rewrite E, filter_app. simpl.
      assert (Hx : negb (x =? a) = true) by (apply neqb_true; congruence).
      rewrite Hx. reflexivity.
    + intros y. simpl. rewrite filter_In, neqb_true, Hn1.
      destruct (Z.eq_dec a y) as [->|Hne]; [tauto|].
      split; [tauto|]. intros [H|H]; [tauto|]. right. split; [exact H|congruence].
Qed.

Theorem nub_props : forall s,
    NoDup (nub s) /\ (forall x, In x (nub s) <-> In x s) /\
    (forall s1 x s2, s = s1 ++ x :: s2 -> ~ In x s1 ->
       exists n1 n2, nub s = n1 ++ x :: n2 /\ (forall y, In y n1 <-> In y s1)).
Proof.
  intros s. split; [apply nub_NoDup|]. split; [apply nub_In|].
  intros s1 x s2 -> Hnin. apply nub_first_occurrence. exact Hnin.
Qed.

Example nub_ex : nub [3; 1; 3; 2; 1; 4] = [3; 1; 2; 4].
Proof. vm_compute. reflexivity. Qed.

(* ================================================================ Unique *)

Lemma filter_filter (f g : Z -> bool) (l : list Z) :
  filter f (filter g l) = filter (fun y => g y && f y) l.
Proof.
  induction l as [|h t IH]; simpl; [reflexivity|].
  destruct (g h) eqn:Eg; simpl; [destruct (f h); now rewrite IH|exact IH].
Qed.

Lemma mem_cons (y x : Z) (seen : list Z) : mem y (x :: seen) = (y =? x) || mem y seen.
Proof. reflexivity. Qed.

Lemma unique_into_spec : forall (s seen into : list Z),
  unique_into seen into s = into ++ filter (fun y => negb (mem y seen)) (nub s).
Proof.
  induction s as [|x t IH]; intros seen into; simpl.
  - now rewrite app_nil_r.
  - destruct (mem x seen) eqn:Em; simpl.
    + rewrite IH. f_equal. rewrite filter_filter. apply filter_ext_in. intros y _.
      destruct (y =? x) eqn:Eyx; simpl; [|reflexivity].
      apply Z.eqb_eq in Eyx. subst y. now rewrite Em.
    + rewrite IH, <- app_assoc. simpl. f_equal. f_equal.
      rewrite filter_filter. apply filter_ext. intros y. unfold mem. simpl.
      destruct (y =? x); reflexivity.
Qed.

Theorem unique_spec : forall s, unique s = nub s.
Proof.
  intros s. unfold unique. rewrite unique_into_spec. simpl.
  apply filter_all_true. intros; reflexivity.
Qed.

Example unique_ex : unique [3; 1; 3; 2; 1; 4] = [3; 1; 2; 4].
Proof. vm_compute. reflexivity. Qed.

(* ================================================================ UniqueInPlace *)

(* the array during uniqueInto(s[:0], s): [into] (k items written), [junk] (already read, up to
   index i), [q] (still to be read, untouched) *)
Lemma unique_inplace_loop_spec : forall (q into junk seen : list Z),
  exists junk',
    unique_inplace_loop (length q) (zlen (into ++ junk)) (into ++ junk ++ q) seen (zlen into) =
      (unique_into seen into q ++ junk', zlen (unique_into seen into q)) /\
    length (unique_into seen into q ++ junk') = length (into ++ junk ++ q).
Proof.
  induction q as [|x t IH]; intros into junk seen.
  - exists junk. simpl. rewrite app_nil_r. split; reflexivity.
  - simpl unique_inplace_loop. simpl unique_into.
    assert (Hx : znth (into ++ junk ++ x :: t) (zlen (into ++ junk)) = x).
    { unfold znth, zlen. rewrite Nat2Z.id, app_assoc. apply nth_middle. }
    rewrite Hx.
    assert (Hi : zlen (into ++ junk) + 1 = zlen (into ++ junk ++ [x])).
    { rewrite !zlen_app. unfold zlen. simpl. lia. }
    destruct (mem x seen) eqn:Em.
    + destruct (IH into (junk ++ [x]) seen) as (junk' & E & L).
      exists junk'. rewrite Hi. rewrite <- !app_assoc in E, L. simpl in E, L.
      split; [exact E|exact L].
    + assert (Hj : exists y junk2, junk ++ [x] = y :: junk2).
      { destruct junk as [|y0 j0]; simpl; eauto. }
      destruct Hj as (y & junk2 & Ej).
      destruct (IH (into ++ [x]) junk2 (x :: seen)) as (junk' & E & L).
      exists junk'.
      assert (Harr : zupd (into ++ junk ++ x :: t) (zlen into) x = (into ++ [x]) ++ junk2 ++ t).
      { replace (junk ++ x :: t) with ((junk ++ [x]) ++ t) by (now rewrite <- app_assoc).
        rewrite Ej. unfold zupd, zlen. rewrite Nat2Z.id. simpl.
        rewrite upd_app_exact, <- app_assoc. reflexivity. }
      assert (Hk : zlen into + 1 = zlen (into ++ [x])).
      { rewrite zlen_app. unfold zlen. simpl. lia. }
      assert (Hi2 : zlen (into ++ junk) + 1 = zlen ((into ++ [x]) ++ junk2)).
      { rewrite Hi. rewrite Ej. rewrite !zlen_app. unfold zlen. simpl. lia. }
      rewrite Harr, Hk, Hi2. split; [exact E|].
      rewrite L. rewrite !app_length. 
      assert (Hl : length (junk ++ [x]) = length (y :: junk2)) by (now rewrite Ej).
      rewrite app_length in Hl. simpl in *. lia.
Qed.

Theorem unique_in_place_spec : forall s,
    unique_in_place s = (nub s, nub s ++ zeros (zlen s - zlen (nub s))).
Proof.
  intros s. unfold unique_in_place.
  destruct (unique_inplace_loop_spec s [] [] []) as (junk' & E & L).
  simpl in E, L. change (zlen (@nil Z)) with 0 in E. fold (unique s) in E, L. rewrite unique_spec in E, L.
  rewrite E.
  rewrite zfirstn_app_exact, zskipn_app_exact, zfirstn_app_exact, clear_zeros.
  f_equal. f_equal. f_equal. unfold zlen. rewrite <- L, app_length. lia.
Qed.

Example unique_in_place_ex :
  unique_in_place [3; 1; 3; 2; 1; 4] = ([3; 1; 2; 4], [3; 1; 2; 4; 0; 0]).
Proof. vm_compute. reflexivity. Qed.

(* ================================================================ Reverse *)

Lemma swap_app_exact (a m b : list Z) (x y : Z) :
  swap (a ++ x :: m ++ y :: b) (zlen a) (zlen a + 1 + zlen m) = a ++ y :: m ++ x :: b.
Proof.
  unfold swap, zupd, znth, zlen.
  replace (Z.to_nat (Z.of_nat (length a) + 1 + Z.of_nat (length m))) with (length (a ++ x :: m))
    by (rewrite app_length; simpl; lia).
  rewrite Nat2Z.id.
  rewrite nth_middle.
  replace (a ++ x :: m ++ y :: b) with ((a ++ x :: m) ++ y :: b) at 2
    by (rewrite <- app_assoc; reflexivity).
  rewrite nth_middle.
  rewrite upd_app_exact.
  replace (length (a ++ x :: m)) with (length (a ++ y :: m)) by (rewrite !app_length; reflexivity).
  replace (a ++ y :: m ++ y :: b) with ((a ++ y :: m) ++ y :: b) by (rewrite <- app_assoc; reflexivity).
  rewrite upd_app_exact, <- app_assoc. reflexivity.
Qed.

Lemma reverse_loop_S (c : nat) (i : Z) (s : list Z) :
  reverse_loop (S c) i s = reverse_loop c (i + 1) (swap s i (zlen s - i - 1)).
Proof. reflexivity. Qed.

Lemma reverse_loop_spec : forall (cnt : nat) (m a b : list Z),
  length a = length b ->
  (length m = 2 * cnt \/ length m = 2 * cnt + 1)%nat ->
  reverse_loop cnt (zlen a) (a ++ m ++ b) = a ++ rev m ++ b.
Proof.
  induction cnt as [|c IH]; intros m a b Hab Hm.
  - simpl. destruct m as [|x [|y m]]; simpl in *; try reflexivity; lia.
  - destruct m as [|x m0]; [simpl in Hm; lia|].
    assert (Hne : m0 <> []) by (intros ->; simpl in Hm; lia).
    destruct (exists_last Hne) as (m' & y & Em0). subst m0.
    rewrite reverse_loop_S.
    assert (Hj : zlen (a ++ (x :: m' ++ [y]) ++ b) - zlen a - 1 = zlen a + 1 + zlen m').
    { rewrite !zlen_app, zlen_cons, zlen_app. change (zlen [y]) with 1. unfold zlen. lia. }
    rewrite Hj.
    replace (a ++ (x :: m' ++ [y]) ++ b) with (a ++ x :: m' ++ y :: b)
      by (simpl; rewrite <- app_assoc; reflexivity).
    rewrite swap_app_exact.
    replace (zlen a + 1) with (zlen (a ++ [y])) by (rewrite zlen_app; unfold zlen; simpl; lia).
    replace (a ++ y :: m' ++ x :: b) with ((a ++ [y]) ++ m' ++ (x :: b))
      by (rewrite <- app_assoc; reflexivity).
    rewrite IH.
    + simpl. rewrite rev_app_distr. simpl. rewrite <- !app_assoc. reflexivity.
    + rewrite app_length. simpl. lia.
    + simpl in Hm. rewrite app_length in Hm. simpl in Hm. lia.
Qed.

Theorem reverse_spec : forall s, reverse s = rev s.
Proof.
  intros s. unfold reverse.
  pose proof (reverse_loop_spec (Z.to_nat (Z.quot (zlen s) 2)) s [] [] eq_refl) as H.
  simpl in H. rewrite !app_nil_r in H. apply H.
  pose proof (zlen_nonneg s) as Hs.
  pose proof (Z.quot_rem' (zlen s) 2) as Hq.
  pose proof (Z.rem_bound_pos (zlen s) 2 Hs ltac:(lia)) as Hr.
  assert (Hq0 : 0 <= Z.quot (zlen s) 2) by (apply Z.quot_pos; lia).
  unfold zlen in *. lia.
Qed.

Example reverse_ex : reverse [1; 2; 3; 4; 5] = [5; 4; 3; 2; 1] /\ reverse [1; 2; 3; 4] = [4; 3; 2; 1].
Proof. vm_compute. split; reflexivity. Qed.
