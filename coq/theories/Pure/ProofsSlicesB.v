(* C19 proofs, part B of package xslices: Chunk, Runs, Shrink, Grow, Insert, Remove.
   Layer M: Pure/Slices.v, layer S: Pure/Spec.v.  Stdlib only, no axioms. *)
From Coq Require Import Permutation.
From Juniper Require Import Common.Base Pure.Slices Pure.Spec.

(* ================================================================= generic list helpers *)

Lemma firstn_app_exact {A} (l1 l2 : list A) k : k = length l1 -> firstn k (l1 ++ l2) = l1.
Proof.
  intros Hk; subst k. induction l1 as [|h t IH]; simpl.
  - reflexivity.
  - now rewrite IH.
Qed.

Lemma skipn_app_exact {A} (l1 l2 : list A) k : k = length l1 -> skipn k (l1 ++ l2) = l2.
Proof.
  intros Hk; subst k. induction l1 as [|h t IH]; simpl; auto.
Qed.

Lemma firstn_firstn_app {A} (l : list A) m p :
  firstn m l ++ firstn p (skipn m l) = firstn (m + p) l.
Proof.
  revert l; induction m as [|m IH]; intros l; simpl.
  - reflexivity.
  - destruct l as [|h t]; simpl.
    + now rewrite firstn_nil.
    + now rewrite IH.
Qed.

Lemma skipn_skipn_add {A} (l : list A) m p : skipn p (skipn m l) = skipn (m + p) l.
Proof.
  revert l; induction m as [|m IH]; intros l; simpl.
  - reflexivity.
  - destruct l as [|h t]; simpl.
    + now rewrite skipn_nil.
    + apply IH.
Qed.

Lemma zslice_app {A} (s : list A) a b d :
  0 <= a -> a <= b -> b <= d -> zslice s a b ++ zslice s b d = zslice s a d.
Proof.
  intros Ha Hab Hbd. unfold zslice.
  replace (Z.to_nat b) with (Z.to_nat a + Z.to_nat (b - a))%nat by lia.
  rewrite <- skipn_skipn_add.
  rewrite firstn_firstn_app. f_equal. lia.
Qed.

Lemma zslice_empty {A} (s : list A) a b : b <= a -> zslice s a b = [].
Proof.
  intros Hba. unfold zslice. replace (Z.to_nat (b - a)) with 0%nat by lia. reflexivity.
Qed.

Lemma zslice_all {A} (s : list A) : zslice s 0 (zlen s) = s.
Proof.
  unfold zslice, zlen. simpl. rewrite Z.sub_0_r, Nat2Z.id. apply firstn_all.
Qed.

Lemma zslice_length {A} (s : list A) a b :
  0 <= a -> a <= b -> b <= zlen s -> zlen (zslice s a b) = b - a.
Proof.
  intros Ha Hab Hb. unfold zslice, zlen in *.
  rewrite firstn_length, skipn_length. lia.
Qed.

(* s = pre ++ cur ++ post : the slice [len pre, len pre + len cur) is cur *)
Lemma zslice_mid {A} (pre cur post : list A) lo hi :
  lo = zlen pre -> hi = zlen pre + zlen cur -> zslice (pre ++ cur ++ post) lo hi = cur.
Proof.
  intros Hlo Hhi. subst lo hi. unfold zslice, zlen.
  rewrite skipn_app_exact by lia.
  apply firstn_app_exact. lia.
Qed.

(* ================================================================= Chunk *)

Definition chunk_range (n c : Z) (i : nat) : Z * Z :=
  (Z.of_nat i * c, Z.min ((Z.of_nat i + 1) * c) n).

Lemma chunk_ranges_eq n c :
  chunk_ranges n c = map (chunk_range n c) (seq 0 (Z.to_nat ((n + c - 1) / c))).
Proof. reflexivity. Qed.

(* number of chunks: ceil(n / c) *)
Lemma ceil_bounds n c : 0 <= n -> 0 < c ->
  let T := (n + c - 1) / c in 0 <= T /\ T * c <= n + c - 1 /\ n <= T * c.
Proof.
  intros Hn Hc T.
  assert (Hdm : n + c - 1 = c * T + (n + c - 1) mod c) by (apply Z.div_mod; lia).
  assert (Hmod : 0 <= (n + c - 1) mod c < c) by (apply Z.mod_pos_bound; lia).
  assert (HT : 0 <= T) by (apply Z.div_pos; lia).
  repeat split; lia.
Qed.

Lemma chunk_count_fixed n c : 0 <= n -> 0 < c ->
  chunk_count true n c = (n + c - 1) / c.
Proof.
  intros Hn Hc. unfold chunk_count.
  rewrite Z.quot_div_nonneg by lia. rewrite Z.rem_mod_nonneg by lia.
  assert (Hdm : n = c * (n / c) + n mod c) by (apply Z.div_mod; lia).
  assert (Hmod : 0 <= n mod c < c) by (apply Z.mod_pos_bound; lia).
  destruct (n mod c =? 0) eqn:E.
  - apply Z.eqb_eq in E.
    apply Z.div_unique with (r := c - 1); lia.
  - apply Z.eqb_neq in E.
    apply Z.div_unique with (r := n mod c - 1); lia.
Qed.

Lemma chunk_loop_ok n c : 0 < c ->
  forall cnt k, (Z.of_nat k + Z.of_nat cnt) * c <= n + c - 1 ->
    chunk_loop cnt (Z.of_nat k) n c = Ok (map (chunk_range n c) (seq k cnt)).
Proof.
  intros Hc cnt. induction cnt as [|cnt IH]; intros k Hinv.
  - reflexivity.
  - cbn [chunk_loop seq map].
    assert (Hstart : Z.of_nat k * c <= n - 1) by nia.
    assert (Hmin : (if (Z.of_nat k + 1) * c >? n then n else (Z.of_nat k + 1) * c)
                   = Z.min ((Z.of_nat k + 1) * c) n).
    { destruct ((Z.of_nat k + 1) * c >? n) eqn:E.
      - apply Z.gtb_lt in E. lia.
      - assert (~ (n < (Z.of_nat k + 1) * c)) by (intro Hlt; apply Z.gtb_lt in Hlt; congruence). lia. }
    rewrite Hmin.
    assert (Hg : (0 <=? Z.of_nat k * c) && (Z.of_nat k * c <=? Z.min ((Z.of_nat k + 1) * c) n) = true).
    { apply andb_true_iff; split; apply Z.leb_le; nia. }
    rewrite Hg.
    pose proof (IH (S k)) as IH'.
    replace (Z.of_nat (S k)) with (Z.of_nat k + 1) in IH' by lia.
    rewrite IH' by lia.
    cbn [pbind]. reflexivity.
Qed.

Theorem chunk_panics : forall s c, c <= 0 -> chunk true true s c = Panic PNeg.
Proof.
  intros s c Hc. unfold chunk.
  assert (E : (c <=? 0) = true) by (apply Z.leb_le; lia).
  rewrite E. reflexivity.
Qed.

Theorem chunk_spec : forall s c, 0 < c -> chunk true true s c = Ok (chunk_ranges (zlen s) c).
Proof.
  intros s c Hc. unfold chunk.
  assert (E1 : (c <=? 0) = false) by (apply Z.leb_gt; lia).
  assert (E2 : (c =? 0) = false) by (apply Z.eqb_neq; lia).
  rewrite E1, E2. cbn [andb].
  pose proof (zlen_nonneg s) as Hn.
  rewrite chunk_count_fixed by lia.
  destruct (ceil_bounds (zlen s) c Hn Hc) as (HT0 & HTle & HTge).
  assert (E3 : ((zlen s + c - 1) / c <? 0) = false) by (apply Z.ltb_ge; lia).
  rewrite E3.
  rewrite chunk_ranges_eq.
  change 0 with (Z.of_nat 0) at 1.
  apply chunk_loop_ok; [lia|].
  rewrite Z2Nat.id by lia. simpl. lia.
Qed.

Example chunk_spec_ex : chunk true true [1;2;3;4;5;6;7] 3 = Ok [(0,3);(3,6);(6,7)].
Proof. vm_compute. reflexivity. Qed.
Example chunk_panics_ex : chunk true true [1;2] (-2) = Panic PNeg /\ chunk true true [1;2] 0 = Panic PNeg.
Proof. split; vm_compute; reflexivity. Qed.

(* concatenating the chunks k .. k+cnt-1 gives s[k*c : min((k+cnt)*c, n)] *)
Lemma chunk_concat (s : list Z) c : 0 < c ->
  forall cnt k, (Z.of_nat k + Z.of_nat cnt) * c <= zlen s + c - 1 ->
    concat (map (slice_of s) (map (chunk_range (zlen s) c) (seq k cnt)))
    = zslice s (Z.of_nat k * c) (Z.min ((Z.of_nat k + Z.of_nat cnt) * c) (zlen s)).
Proof.
  intros Hc cnt. induction cnt as [|cnt IH]; intros k Hinv.
  - simpl. symmetry. apply zslice_empty. lia.
  - cbn [seq map concat].
    rewrite IH by lia.
    unfold slice_of, chunk_range. cbn [fst snd].
    destruct cnt as [|cnt'].
    + rewrite (zslice_empty s (Z.of_nat (S k) * c)) by lia.
      rewrite app_nil_r. f_equal; lia.
    + assert (Hmid : (Z.of_nat k + 1) * c <= zlen s - 1) by nia.
      rewrite Z.min_l by lia.
      replace (Z.of_nat (S k) * c) with ((Z.of_nat k + 1) * c) by lia.
      rewrite zslice_app; [f_equal; lia | nia | nia | ].
      apply Z.min_glb; nia.
Qed.

Lemma nth_error_map_seq {B} (f : nat -> B) T i r :
  nth_error (map f (seq 0 T)) i = Some r -> (i < T)%nat /\ r = f i.
Proof.
  intros H.
  assert (Hi : (i < T)%nat).
  { assert (Hn : nth_error (map f (seq 0 T)) i <> None) by congruence.
    apply nth_error_Some in Hn. rewrite map_length, seq_length in Hn. exact Hn. }
  split; [exact Hi|].
  assert (Hs : nth_error (seq 0 T) i = Some i).
  { rewrite (nth_error_nth' _ 0%nat) by (rewrite seq_length; exact Hi).
    rewrite seq_nth by exact Hi. reflexivity. }
  apply (map_nth_error f) in Hs. congruence.
Qed.

Theorem chunk_ranges_props : forall (s : list Z) c, 0 < c ->
    let rs := chunk_ranges (zlen s) c in
    concat (map (slice_of s) rs) = s /\
    zlen rs = (zlen s + c - 1) / c /\
    (forall i r, nth_error rs i = Some r ->
        fst r = Z.of_nat i * c /\ snd r = Z.min ((Z.of_nat i + 1) * c) (zlen s) /\
        0 < snd r - fst r <= c /\ zlen (slice_of s r) = snd r - fst r /\
        ((S i < length rs)%nat -> snd r - fst r = c)) /\
    (s = [] -> rs = []).
Proof.
  intros s c Hc rs.
  pose proof (zlen_nonneg s) as Hn.
  destruct (ceil_bounds (zlen s) c Hn Hc) as (HT0 & HTle & HTge).
  assert (Hlen : length rs = Z.to_nat ((zlen s + c - 1) / c)).
  { unfold rs. rewrite chunk_ranges_eq, map_length, seq_length. reflexivity. }
  split; [|split; [|split]].
  - unfold rs. rewrite chunk_ranges_eq.
    rewrite chunk_concat; [|lia|rewrite Z2Nat.id by lia; simpl; lia].
    rewrite Z2Nat.id by lia. simpl.
    rewrite Z.min_r by lia. apply zslice_all.
  - unfold zlen at 1. rewrite Hlen. apply Z2Nat.id. lia.
  - intros i r Hnth. unfold rs in Hnth. rewrite chunk_ranges_eq in Hnth.
    apply nth_error_map_seq in Hnth. destruct Hnth as [Hi Hr].
    subst r. unfold chunk_range. cbn [fst snd].
    assert (Hi1 : Z.of_nat i + 1 <= (zlen s + c - 1) / c) by lia.
    assert (Hi2 : (Z.of_nat i + 1) * c <= (zlen s + c - 1) / c * c)
      by (apply Z.mul_le_mono_nonneg_r; lia).
    assert (Hstart : Z.of_nat i * c <= zlen s - 1) by lia.
    assert (Hstart0 : 0 <= Z.of_nat i * c) by nia.
    split; [reflexivity|]. split; [reflexivity|].
    split; [lia|]. split.
    + unfold slice_of. cbn [fst snd]. apply zslice_length; lia.
    + intros HS. rewrite Hlen in HS.
      assert (Hj1 : Z.of_nat i + 2 <= (zlen s + c - 1) / c) by lia.
      assert (Hj2 : (Z.of_nat i + 2) * c <= (zlen s + c - 1) / c * c)
        by (apply Z.mul_le_mono_nonneg_r; lia).
      lia.
  - intros Hs. subst s. unfold rs. rewrite chunk_ranges_eq.
    change (zlen (@nil Z)) with 0.
    replace ((0 + c - 1) / c) with 0 by (symmetry; apply Z.div_small; lia).
    reflexivity.
Qed.

Example chunk_ranges_props_ex :
  chunk_ranges 7 3 = [(0,3);(3,6);(6,7)] /\
  map (slice_of [1;2;3;4;5;6;7]) (chunk_ranges 7 3) = [[1;2;3];[4;5;6];[7]].
Proof. split; vm_compute; reflexivity. Qed.

Lemma wrap64_small z : - 2 ^ 63 <= z < 2 ^ 63 -> wrap 64 z = z.
Proof.
  intros Hz. unfold wrap.
  change (64 - 1) with 63.
  change (2 ^ 63) with 9223372036854775808 in *.
  change (2 ^ 64) with 18446744073709551616.
  rewrite Z.mod_small by lia. lia.
Qed.

Lemma chunk_count_current n c : 0 <= n -> 0 < c -> n + c - 1 < 2 ^ 63 ->
  chunk_count false n c = chunk_count true n c.
Proof.
  intros Hn Hc Hov.
  rewrite chunk_count_fixed by lia.
  unfold chunk_count.
  rewrite wrap64_small.
  - apply Z.quot_div_nonneg; lia.
  - change (2 ^ 63) with 9223372036854775808 in *. lia.
Qed.

Theorem chunk_current_agrees : forall s c, 0 < c -> zlen s + c - 1 < 2 ^ 63 ->
    chunk false false s c = chunk true true s c.
Proof.
  intros s c Hc Hov. unfold chunk.
  assert (E1 : (c <=? 0) = false) by (apply Z.leb_gt; lia).
  rewrite E1. cbn [andb].
  rewrite chunk_count_current by (try apply zlen_nonneg; lia).
  reflexivity.
Qed.

Example chunk_current_agrees_ex : chunk false false [1;2;3;4;5] 2 = Ok [(0,2);(2,4);(4,5)].
Proof. vm_compute. reflexivity. Qed.

Theorem chunk_negative_refuted : exists s c, c <= 0 /\ chunk false false s c = Ok [].
Proof.
  exists [1;2], (-2). split; [lia|]. vm_compute. reflexivity.
Qed.

Theorem chunk_overflow_refuted : exists s c, 0 < c < 2 ^ 63 /\ chunk false false s c = Panic PNeg.
Proof.
  exists [1;2], (2 ^ 63 - 1). split.
  - split; vm_compute; reflexivity.
  - vm_compute. reflexivity.
Qed.

(* ================================================================= Runs *)

(* the ranges produced from the loop state (prev = s[i-1], rest = s[i:], current run starts at
   [start]) up to the end of the slice, as a structural function of [rest] *)
Fixpoint rloop (same : Z -> Z -> bool) (prev : Z) (rest : list Z) (i start : Z) : list (Z * Z) :=
  match rest with
  | [] => [(start, i)]
  | x :: t => if same prev x then rloop same x t (i + 1) start
              else (start, i) :: rloop same x t (i + 1) i
  end.

(* the same with the runs as lists: [cur] is the current run so far (it ends with prev) *)
Fixpoint lloop (same : Z -> Z -> bool) (prev : Z) (rest : list Z) (cur : list Z) : list (list Z) :=
  match rest with
  | [] => [cur]
  | x :: t => if same prev x then lloop same x t (cur ++ [x])
              else cur :: lloop same x t [x]
  end.

Definition glue (pre : list Z) (l : list (list Z)) : list (list Z) :=
  match l with [] => [] | r :: rs => (pre ++ r) :: rs end.

Lemma runs_loop_rloop same : forall rest prev i start e acc,
  e = i ->
  (let '(rs, st, _) := runs_loop same prev rest i start e acc in rs ++ [(st, i + zlen rest)])
  = acc ++ rloop same prev rest i start.
Proof.
  induction rest as [|x t IH]; intros prev i start e acc He.
  - simpl. subst e. change (zlen (@nil Z)) with 0. rewrite Z.add_0_r. reflexivity.
  - cbn [runs_loop rloop]. rewrite zlen_cons.
    replace (i + (1 + zlen t)) with ((i + 1) + zlen t) by lia.
    destruct (same prev x) eqn:Es.
    + apply IH. reflexivity.
    + rewrite IH by reflexivity. subst e.
      rewrite <- app_assoc. reflexivity.
Qed.

Lemma runs_fixed_rloop x t same : runs true (x :: t) same = rloop same x t 1 0.
Proof.
  unfold runs.
  pose proof (runs_loop_rloop same t x 1 0 1 [] eq_refl) as H.
  destruct (runs_loop same x t 1 0 1 []) as [[rs st] e] eqn:E.
  rewrite zlen_cons. cbn [app] in H. exact H.
Qed.

(* shape of runs_of *)
Lemma runs_of_cases same x t :
  (t = [] /\ runs_of same (x :: t) = [[x]]) \/
  (exists y t' r rs, t = y :: t' /\ runs_of same t = (y :: r) :: rs /\
     runs_of same (x :: t) = if same x y then (x :: y :: r) :: rs else [x] :: (y :: r) :: rs).
Proof.
  revert x. induction t as [|y t' IH]; intros x.
  - left. split; reflexivity.
  - right. destruct (IH y) as [[Ht Hr] | (z & t'' & r & rs & Ht & Hr & Hr')].
    + exists y, t', [], []. split; [reflexivity|]. split; [exact Hr|].
      cbn [runs_of] in Hr |- *. rewrite Hr. reflexivity.
    + destruct (same y z) eqn:Es.
      * exists y, t', (z :: r), rs. split; [reflexivity|]. split; [exact Hr'|].
        cbn [runs_of] in Hr' |- *. rewrite Hr'. reflexivity.
      * exists y, t', [], ([z :: r] ++ rs). split; [reflexivity|]. split; [exact Hr'|].
        cbn [runs_of] in Hr' |- *. rewrite Hr'. reflexivity.
Qed.

Lemma runs_of_head same x t : exists r rs, runs_of same (x :: t) = (x :: r) :: rs.
Proof.
  destruct (runs_of_cases same x t) as [[_ H] | (y & t' & r & rs & _ & _ & H)].
  - exists [], []. exact H.
  - rewrite H. destruct (same x y); eauto.
Qed.

Lemma lloop_runs_of same : forall rest prev cur',
  lloop same prev rest (cur' ++ [prev]) = glue cur' (runs_of same (prev :: rest)).
Proof.
  induction rest as [|x t IH]; intros prev cur'.
  - reflexivity.
  - cbn [lloop].
    destruct (runs_of_cases same prev (x :: t)) as [[Hnil _] | (y & t' & r & rs & Ht & Hr & Hr')];
      [discriminate|].
    injection Ht as Hy Ht'. subst y t'.
    rewrite Hr'.
    destruct (same prev x) eqn:Es.
    + rewrite IH, Hr. unfold glue. rewrite <- app_assoc. reflexivity.
    + pose proof (IH x []) as IH0. cbn [app] in IH0. rewrite IH0, Hr.
      reflexivity.
Qed.

Lemma rloop_lloop same (s : list Z) : forall rest prev i start pre cur,
  s = pre ++ cur ++ rest -> start = zlen pre -> i = zlen pre + zlen cur ->
  map (slice_of s) (rloop same prev rest i start) = lloop same prev rest cur.
Proof.
  induction rest as [|x t IH]; intros prev i start pre cur Hs Hstart Hi.
  - simpl. unfold slice_of. cbn [fst snd]. subst s.
    rewrite zslice_mid by assumption. reflexivity.
  - cbn [rloop lloop]. destruct (same prev x) eqn:Es.
    + apply IH with (pre := pre).
      * rewrite Hs. rewrite <- (app_assoc cur). reflexivity.
      * exact Hstart.
      * rewrite zlen_app. change (zlen [x]) with 1. lia.
    + cbn [map]. f_equal.
      * unfold slice_of. cbn [fst snd]. rewrite Hs. apply zslice_mid; assumption.
      * apply IH with (pre := pre ++ cur).
        -- rewrite Hs. rewrite <- app_assoc. reflexivity.
        -- rewrite zlen_app. lia.
        -- rewrite zlen_app. change (zlen [x]) with 1. lia.
Qed.

Theorem runs_spec : forall s same, map (slice_of s) (runs true s same) = runs_of same s.
Proof.
  intros s same. destruct s as [|x t].
  - reflexivity.
  - rewrite runs_fixed_rloop.
    rewrite (rloop_lloop same (x :: t) t x 1 0 [] [x]); try reflexivity.
    change [x] with ([] ++ [x]).
    rewrite (lloop_runs_of same t x []).
    destruct (runs_of same (x :: t)) as [|r rs]; reflexivity.
Qed.

Example runs_spec_ex :
  runs true [1;2;2;3;3;3;1] Z.eqb = [(0,1);(1,3);(3,6);(6,7)] /\
  runs_of Z.eqb [1;2;2;3;3;3;1] = [[1];[2;2];[3;3;3];[1]].
Proof. split; vm_compute; reflexivity. Qed.

(* consecutive non-empty ranges from a to b *)
Fixpoint tiles (a : Z) (l : list (Z * Z)) (b : Z) : Prop :=
  match l with
  | [] => a = b
  | r :: tl => fst r = a /\ a < snd r /\ tiles (snd r) tl b
  end.

Lemma rloop_tiles same : forall rest prev i start,
  start < i -> tiles start (rloop same prev rest i start) (i + zlen rest).
Proof.
  induction rest as [|x t IH]; intros prev i start Hlt.
  - simpl. change (zlen (@nil Z)) with 0. lia.
  - cbn [rloop]. rewrite zlen_cons.
    replace (i + (1 + zlen t)) with ((i + 1) + zlen t) by lia.
    destruct (same prev x) eqn:Es.
    + apply IH. lia.
    + cbn [tiles fst snd]. split; [reflexivity|]. split; [exact Hlt|].
      apply IH. lia.
Qed.

Lemma tiles_le : forall l a b, tiles a l b -> a <= b.
Proof.
  induction l as [|r tl IH]; intros a b H; simpl in H.
  - lia.
  - destruct H as (_ & Hlt & Ht). apply IH in Ht. lia.
Qed.

Lemma tiles_In : forall l a b r, tiles a l b -> In r l -> a <= fst r /\ fst r < snd r /\ snd r <= b.
Proof.
  induction l as [|r0 tl IH]; intros a b r H Hin; simpl in H.
  - destruct Hin.
  - destruct H as (Hf & Hlt & Ht). destruct Hin as [Heq | Hin].
    + subst r0. apply tiles_le in Ht. lia.
    + destruct (IH _ _ _ Ht Hin) as (H1 & H2 & H3). lia.
Qed.

Lemma tiles_consecutive : forall l a b i r1 r2, tiles a l b ->
  nth_error l i = Some r1 -> nth_error l (S i) = Some r2 -> snd r1 = fst r2.
Proof.
  induction l as [|r0 tl IH]; intros a b i r1 r2 H H1 H2.
  - destruct i; discriminate.
  - simpl in H. destruct H as (Hf & Hlt & Ht).
    destruct i as [|i].
    + simpl in H1, H2. injection H1 as H1. subst r0.
      destruct tl as [|r3 tl']; [discriminate|].
      simpl in H2. injection H2 as H2. subst r3.
      simpl in Ht. destruct Ht as (Hf2 & _). symmetry. exact Hf2.
    + simpl in H1. change (nth_error (r0 :: tl) (S (S i))) with (nth_error tl (S i)) in H2.
      exact (IH _ _ _ _ _ Ht H1 H2).
Qed.

Lemma tiles_hd : forall l a b, tiles a l b -> l <> [] -> exists r0, hd_error l = Some r0 /\ fst r0 = a.
Proof.
  intros l a b H Hne. destruct l as [|r0 tl]; [congruence|].
  simpl in H. exists r0. split; [reflexivity|tauto].
Qed.

Lemma tiles_last : forall l a b d, tiles a l b -> l <> [] -> snd (last l d) = b.
Proof.
  induction l as [|r0 tl IH]; intros a b d H Hne; [congruence|].
  simpl in H. destruct H as (Hf & Hlt & Ht).
  destruct tl as [|r1 tl'].
  - simpl in Ht. simpl. exact Ht.
  - change (last (r0 :: r1 :: tl') d) with (last (r1 :: tl') d).
    apply IH with (a := snd r0); [exact Ht | discriminate].
Qed.

Lemma rloop_nonempty same rest prev i start : rloop same prev rest i start <> [].
Proof.
  revert prev i start. induction rest as [|x t IH]; intros prev i start.
  - discriminate.
  - cbn [rloop]. destruct (same prev x); [apply IH | discriminate].
Qed.

Theorem runs_ranges_tile : forall s same,
    let rs := runs true s same in
    (forall r, In r rs -> 0 <= fst r < snd r /\ snd r <= zlen s) /\
    (forall i r1 r2, nth_error rs i = Some r1 -> nth_error rs (S i) = Some r2 -> snd r1 = fst r2) /\
    (s <> [] -> exists r0 rl, hd_error rs = Some r0 /\ fst r0 = 0 /\ last rs (0, 0) = rl /\ snd rl = zlen s) /\
    (s = [] -> rs = []).
Proof.
  intros s same rs. destruct s as [|x t].
  - unfold rs. simpl. split; [|split; [|split]].
    + intros r [].
    + intros i r1 r2 H1. destruct i; discriminate.
    + intros Hne. congruence.
    + reflexivity.
  - assert (Ht : tiles 0 rs (zlen (x :: t))).
    { unfold rs. rewrite runs_fixed_rloop, zlen_cons. apply rloop_tiles. lia. }
    assert (Hne : rs <> []).
    { unfold rs. rewrite runs_fixed_rloop. apply rloop_nonempty. }
    split; [|split; [|split]].
    + intros r Hin. destruct (tiles_In _ _ _ _ Ht Hin) as (H1 & H2 & H3). lia.
    + intros i r1 r2 H1 H2. exact (tiles_consecutive _ _ _ _ _ _ Ht H1 H2).
    + intros _. destruct (tiles_hd _ _ _ Ht Hne) as (r0 & Hhd & Hf).
      exists r0, (last rs (0, 0)). split; [exact Hhd|]. split; [exact Hf|].
      split; [reflexivity|]. exact (tiles_last _ _ _ _ Ht Hne).
    + discriminate.
Qed.

Theorem runs_of_props : forall same s,
    concat (runs_of same s) = s /\
    (forall l, In l (runs_of same s) -> l <> [] /\ chain same l) /\
    (* maximality: the last item of a run is not `same` as the first item of the next run *)
    (forall i l1 l2, nth_error (runs_of same s) i = Some l1 -> nth_error (runs_of same s) (S i) = Some l2 ->
        same (last l1 0) (hd 0 l2) = false).
Proof.
  intros same s. induction s as [|x t IH].
  - simpl. split; [reflexivity|]. split.
    + intros l [].
    + intros i l1 l2 H1. destruct i; discriminate.
  - destruct IH as (IHc & IHin & IHmax).
    destruct (runs_of_cases same x t) as [[Ht Hr] | (y & t' & r & rs & Ht & Hr & Hr')].
    + subst t. rewrite Hr. split; [reflexivity|]. split.
      * intros l [Hl | []]. subst l. split; [discriminate | exact I].
      * intros i l1 l2 H1 H2. destruct i as [|[|i]]; discriminate.
    + rewrite Hr in IHc, IHin, IHmax. rewrite Hr'.
      destruct (same x y) eqn:Es.
      * split; [|split].
        -- simpl in IHc |- *. rewrite IHc. reflexivity.
        -- intros l [Hl | Hl].
           ++ subst l. split; [discriminate|].
              destruct (IHin (y :: r) (or_introl eq_refl)) as [_ Hch].
              cbn [chain]. split; [exact Es | exact Hch].
           ++ apply IHin. right. exact Hl.
        -- intros i l1 l2 H1 H2. destruct i as [|i].
           ++ simpl in H1. injection H1 as H1. subst l1.
              change (nth_error ((x :: y :: r) :: rs) 1) with (nth_error ((y :: r) :: rs) 1) in H2.
              change (last (x :: y :: r) 0) with (last (y :: r) 0).
              exact (IHmax 0%nat (y :: r) l2 eq_refl H2).
           ++ exact (IHmax (S i) l1 l2 H1 H2).
      * split; [|split].
        -- simpl in IHc |- *. rewrite IHc. reflexivity.
        -- intros l [Hl | Hl].
           ++ subst l. split; [discriminate | exact I].
           ++ apply IHin. exact Hl.
        -- intros i l1 l2 H1 H2. destruct i as [|i].
           ++ simpl in H1, H2. injection H1 as H1. injection H2 as H2. subst l1 l2.
              simpl. exact Es.
           ++ exact (IHmax i l1 l2 H1 H2).
Qed.

Example runs_of_props_ex :
  runs_of (fun a b => a <=? b) [1;2;2;1;5;0] = [[1;2;2];[1;5];[0]].
Proof. vm_compute. reflexivity. Qed.

Lemma chain_app_r R : forall l1 l, chain R (l1 ++ l) -> chain R l.
Proof.
  induction l1 as [|x l1 IH]; intros l H.
  - exact H.
  - apply IH. cbn [app] in H.
    destruct (l1 ++ l) as [|y m] eqn:E.
    + exact I.
    + cbn [chain] in H. tauto.
Qed.

Lemma chain_trans_first R :
  (forall a b c, R a b = true -> R b c = true -> R a c = true) ->
  forall l2 a b l3, chain R (a :: l2 ++ b :: l3) -> R a b = true.
Proof.
  intros Htr. induction l2 as [|z l2 IH]; intros a b l3 H.
  - cbn [app] in H. cbn [chain] in H. tauto.
  - cbn [app] in H. cbn [chain] in H. destruct H as [Haz Hrest].
    apply Htr with (b := z); [exact Haz|].
    apply IH with (l3 := l3). exact Hrest.
Qed.

Theorem runs_of_transitive : forall same s,
    (forall a b c, same a b = true -> same b c = true -> same a c = true) ->
    forall l l1 a l2 b l3, In l (runs_of same s) -> l = l1 ++ a :: l2 ++ b :: l3 -> same a b = true.
Proof.
  intros same s Htr l l1 a l2 b l3 Hin Hl.
  destruct (runs_of_props same s) as (_ & Hprops & _).
  destruct (Hprops l Hin) as [_ Hch].
  subst l. apply chain_app_r in Hch.
  exact (chain_trans_first same Htr l2 a b l3 Hch).
Qed.

Example runs_of_transitive_ex :
  In [1;2;2] (runs_of (fun a b => a <=? b) [1;2;2;1;5;0]) /\ [1;2;2] = [] ++ 1 :: [2] ++ 2 :: [].
Proof. split; [vm_compute; left; reflexivity | reflexivity]. Qed.

Theorem runs_refuted : exists s, map (slice_of s) (runs false s Z.eqb) <> runs_of Z.eqb s.
Proof.
  exists [1;2;2]. vm_compute. intros H. discriminate H.
Qed.

(* the second witness: a single item gives no run at all *)
Example runs_refuted_single : map (slice_of [1]) (runs false [1] Z.eqb) = [] /\ runs_of Z.eqb [1] = [[1]].
Proof. split; vm_compute; reflexivity. Qed.

Lemma runs_loop_e_pos same : forall rest prev i start e acc,
  0 < i -> 0 < e -> 0 < snd (runs_loop same prev rest i start e acc).
Proof.
  induction rest as [|x t IH]; intros prev i start e acc Hi He.
  - simpl. exact He.
  - cbn [runs_loop]. destruct (same prev x); apply IH; lia.
Qed.

Theorem runs_current_agrees : forall x y t same, same x y = true ->
    runs false (x :: y :: t) same = runs true (x :: y :: t) same.
Proof.
  intros x y t same Hs. unfold runs. cbn [runs_loop]. rewrite Hs.
  pose proof (runs_loop_e_pos same t y (1 + 1) 0 (1 + 1) [] ltac:(lia) ltac:(lia)) as Hpos.
  destruct (runs_loop same y t (1 + 1) 0 (1 + 1) []) as [[rs st] e] eqn:E.
  cbn [snd] in Hpos.
  assert (Eg : (e >? 0) = true) by (apply Z.gtb_lt; lia).
  rewrite Eg. reflexivity.
Qed.

Example runs_current_agrees_ex : runs false [2;2;3;3;1] Z.eqb = [(0,2);(2,4);(4,5)].
Proof. vm_compute. reflexivity. Qed.

(* ================================================================= Shrink / Grow *)

Lemma copy_to_longer_dst (dst src : list Z) : (length src <= length dst)%nat ->
  copy_to dst src = src ++ skipn (length src) dst.
Proof.
  intros Hle. unfold copy_to. rewrite Nat.min_r by exact Hle.
  rewrite firstn_all. reflexivity.
Qed.

Lemma zeros_length n : length (zeros n) = Z.to_nat n.
Proof. unfold zeros, zrepeat. apply repeat_length. Qed.

Theorem shrink_spec : forall s extra n,
    (0 <= n -> exists cap alias, shrink s extra n = Ok (s, cap, alias) /\
                 cap <= zlen s + n /\
                 (alias = true <-> zlen s + zlen extra <= zlen s + n) /\
                 (alias = true -> cap = zlen s + zlen extra)) /\
    (n < 0 -> exists c, shrink s extra n = Panic c).
Proof.
  intros s extra n.
  pose proof (zlen_nonneg s) as Hs. pose proof (zlen_nonneg extra) as He.
  split.
  - intros Hn. unfold shrink.
    destruct (zlen s + zlen extra >? zlen s + n) eqn:E1.
    + assert (Hgt : zlen s + n < zlen s + zlen extra) by (apply Z.gtb_lt; exact E1).
      assert (E2 : (zlen s + n <? 0) = false) by (apply Z.ltb_ge; lia).
      assert (E3 : (zlen s >? zlen s + n) = false).
      { destruct (zlen s >? zlen s + n) eqn:E; [|reflexivity]. apply Z.gtb_lt in E. lia. }
      rewrite E2, E3.
      exists (zlen s + n), false.
      split.
      * rewrite copy_to_longer_dst by (rewrite zeros_length; unfold zlen; lia).
        unfold zfirstn. rewrite firstn_app_exact by (unfold zlen; lia). reflexivity.
      * split; [lia|]. split; [|discriminate].
        split; [discriminate | intros Hle; lia].
    + assert (Hle : zlen s + zlen extra <= zlen s + n).
      { destruct (Z_le_gt_dec (zlen s + zlen extra) (zlen s + n)) as [H|H]; [exact H|].
        assert (Hc : (zlen s + zlen extra >? zlen s + n) = true) by (apply Z.gtb_lt; lia).
        congruence. }
      exists (zlen s + zlen extra), true.
      split; [reflexivity|]. split; [lia|]. split; [|reflexivity].
      split; [intros _; exact Hle | reflexivity].
  - intros Hn. unfold shrink.
    assert (E1 : (zlen s + zlen extra >? zlen s + n) = true) by (apply Z.gtb_lt; lia).
    rewrite E1.
    destruct (zlen s + n <? 0) eqn:E2; [eexists; reflexivity|].
    assert (E3 : (zlen s >? zlen s + n) = true) by (apply Z.gtb_lt; lia).
    rewrite E3. eexists; reflexivity.
Qed.

Example shrink_spec_ex :
  shrink [1;2;3] [0;0;0;0;0] 2 = Ok ([1;2;3], 5, false) /\
  shrink [1;2;3] [0] 2 = Ok ([1;2;3], 4, true) /\
  shrink [1;2;3] [0] (-1) = Panic PIndex /\ shrink [1;2;3] [0] (-4) = Panic PNeg.
Proof. repeat split; vm_compute; reflexivity. Qed.

Theorem grow_spec : forall s extra n,
    (0 <= n -> exists lb alias, grow s extra n = Ok (s, lb, alias) /\ zlen s + n <= lb /\
                 (alias = true <-> n <= zlen extra) /\ (alias = true -> lb = zlen s + zlen extra)) /\
    (n < 0 -> grow s extra n = Panic PNeg).
Proof.
  intros s extra n. split.
  - intros Hn. unfold grow.
    assert (E1 : (n <? 0) = false) by (apply Z.ltb_ge; lia).
    rewrite E1.
    destruct (n - (zlen s + zlen extra - zlen s) >? 0) eqn:E2.
    + assert (Hgt : 0 < n - (zlen s + zlen extra - zlen s)) by (apply Z.gtb_lt; exact E2).
      exists (zlen s + n), false.
      split; [reflexivity|]. split; [lia|]. split; [|discriminate].
      split; [discriminate | intros Hle; lia].
    + assert (Hle : n <= zlen extra).
      { destruct (Z_le_gt_dec n (zlen extra)) as [H|H]; [exact H|].
        assert (Hc : (n - (zlen s + zlen extra - zlen s) >? 0) = true) by (apply Z.gtb_lt; lia).
        congruence. }
      exists (zlen s + zlen extra), true.
      split; [reflexivity|]. split; [lia|]. split; [|reflexivity].
      split; [intros _; exact Hle | reflexivity].
  - intros Hn. unfold grow.
    assert (E1 : (n <? 0) = true) by (apply Z.ltb_lt; lia).
    rewrite E1. reflexivity.
Qed.

Example grow_spec_ex :
  grow [1;2;3] [0;0] 2 = Ok ([1;2;3], 5, true) /\ grow [1;2;3] [0;0] 4 = Ok ([1;2;3], 7, false) /\
  grow [1;2;3] [0;0] (-1) = Panic PNeg.
Proof. repeat split; vm_compute; reflexivity. Qed.

(* ================================================================= Remove (slices.Delete) *)

Lemma clear_repeat (l : list Z) : clear l = repeat 0 (length l).
Proof.
  unfold clear, fill. induction l as [|h t IH]; simpl; [reflexivity | now rewrite IH].
Qed.

Lemma remove_guard (s : list Z) idx n :
  (0 <=? idx) && (idx <=? idx + n) && (idx + n <=? zlen s) = true <->
  (0 <= idx /\ 0 <= n /\ idx + n <= zlen s).
Proof.
  rewrite !andb_true_iff, !Z.leb_le. lia.
Qed.

Theorem remove_spec : forall s idx n,
    (0 <= idx /\ 0 <= n /\ idx + n <= zlen s ->
       let ret := zfirstn idx s ++ zskipn (idx + n) s in
       remove s idx n = Ok (ret, ret ++ zeros n)) /\
    (~ (0 <= idx /\ 0 <= n /\ idx + n <= zlen s) -> remove s idx n = Panic PIndex).
Proof.
  intros s idx n. split.
  - intros Hr ret. unfold remove.
    assert (G : (0 <=? idx) && (idx <=? idx + n) && (idx + n <=? zlen s) = true)
      by (apply remove_guard; exact Hr).
    rewrite G. cbn [negb].
    destruct Hr as (Hidx & Hn & Hlen).
    destruct (idx =? idx + n) eqn:E.
    + apply Z.eqb_eq in E. assert (n = 0) by lia. subst n.
      unfold ret. rewrite Z.add_0_r. unfold zfirstn, zskipn.
      rewrite firstn_skipn. change (zeros 0) with (@nil Z). rewrite app_nil_r. reflexivity.
    + apply Z.eqb_neq in E.
      unfold zfirstn, zskipn, zlen in *.
      set (i := Z.to_nat idx). set (j := Z.to_nat (idx + n)).
      assert (Hij : (i <= j)%nat) by (unfold i, j; lia).
      assert (Hjl : (j <= length s)%nat) by (unfold i, j; lia).
      assert (Hcopy : copy_to (skipn i s) (skipn j s)
                      = skipn j s ++ skipn (length s - j) (skipn i s)).
      { rewrite copy_to_longer_dst by (rewrite !skipn_length; lia).
        rewrite skipn_length. reflexivity. }
      rewrite Hcopy.
      assert (Hnew : Z.to_nat (idx + (Z.of_nat (length s) - (idx + n)))
                     = length (firstn i s ++ skipn j s)).
      { rewrite app_length, firstn_length, skipn_length. unfold i, j. lia. }
      rewrite Hnew.
      rewrite (app_assoc (firstn i s)).
      set (FK := firstn i s ++ skipn j s).
      set (R := skipn (length s - j) (skipn i s)).
      rewrite (firstn_app_exact FK R) by reflexivity.
      rewrite (skipn_app_exact FK R) by reflexivity.
      rewrite (firstn_app_exact FK (clear R)) by reflexivity.
      rewrite clear_repeat. unfold R.
      assert (Hz : length (skipn (length s - j) (skipn i s)) = Z.to_nat n).
      { rewrite !skipn_length. unfold i, j. lia. }
      rewrite Hz. reflexivity.
  - intros Hr. unfold remove.
    destruct ((0 <=? idx) && (idx <=? idx + n) && (idx + n <=? zlen s)) eqn:G.
    + apply remove_guard in G. contradiction.
    + reflexivity.
Qed.

Example remove_spec_ex :
  remove [1;2;3;4;5] 1 2 = Ok ([1;4;5], [1;4;5;0;0]) /\ remove [1;2;3] 2 2 = Panic PIndex.
Proof. split; vm_compute; reflexivity. Qed.

(* ================================================================= Insert (slices.Insert) *)

Lemma insert_guard (s : list Z) i :
  (0 <=? i) && (i <=? zlen s) = true <-> 0 <= i <= zlen s.
Proof. rewrite andb_true_iff, !Z.leb_le. lia. Qed.

(* the in-place branch over plain lists: s = A ++ B, v fits into the spare capacity *)
Lemma insert_inplace_core (A B v extra : list Z) :
  (length v <= length extra)%nat ->
  let i := length A in
  let m := length v in
  let whole := (A ++ B) ++ extra in
  let s1 := firstn (i + m) whole ++ copy_to (skipn (i + m) whole) B in
  let s2 := firstn i s1 ++ copy_to (skipn i s1) v in
  s2 = (A ++ v ++ B) ++ skipn m extra.
Proof.
  intros Hfit i m whole s1 s2.
  set (W := B ++ extra).
  assert (Hwhole : whole = A ++ W) by (unfold whole, W; rewrite app_assoc; reflexivity).
  assert (HW : (m <= length W)%nat) by (unfold W; rewrite app_length; lia).
  assert (Hf : firstn (i + m) whole = A ++ firstn m W).
  { rewrite Hwhole. rewrite firstn_app.
    rewrite firstn_all2 by (unfold i; lia).
    replace (i + m - length A)%nat with m by (unfold i; lia). reflexivity. }
  assert (Hsk : skipn (i + m) whole = skipn m W).
  { rewrite Hwhole. rewrite <- skipn_skipn_add.
    rewrite skipn_app_exact by reflexivity. reflexivity. }
  assert (Hc1 : copy_to (skipn m W) B = B ++ skipn m extra).
  { rewrite copy_to_longer_dst
      by (rewrite skipn_length; unfold W; rewrite app_length; lia).
    f_equal. rewrite skipn_skipn_add. unfold W.
    replace (m + length B)%nat with (length B + m)%nat by lia.
    rewrite <- skipn_skipn_add.
    rewrite skipn_app_exact by reflexivity. reflexivity. }
  assert (Hs1 : s1 = A ++ (firstn m W ++ B ++ skipn m extra)).
  { unfold s1. rewrite Hf, Hsk, Hc1. rewrite <- app_assoc. reflexivity. }
  unfold s2. rewrite Hs1.
  rewrite firstn_app_exact by reflexivity.
  rewrite skipn_app_exact by reflexivity.
  rewrite copy_to_longer_dst
    by (rewrite app_length, firstn_length; lia).
  rewrite skipn_app_exact by (rewrite firstn_length; lia).
  rewrite <- !app_assoc. reflexivity.
Qed.

Theorem insert_spec : forall s extra i v,
    (0 <= i <= zlen s ->
       let res := zfirstn i s ++ v ++ zskipn i s in
       exists alias after, insert s extra i v = Ok (res, alias, after) /\
         (alias = true <-> (v = [] \/ zlen v <= zlen extra)) /\
         (alias = false -> after = s ++ extra) /\
         (alias = true -> after = res ++ zskipn (zlen v) extra)) /\
    (~ (0 <= i <= zlen s) -> insert s extra i v = Panic PIndex).
Proof.
  intros s extra i v. split.
  - intros Hi res. unfold insert.
    assert (G : (0 <=? i) && (i <=? zlen s) = true) by (apply insert_guard; exact Hi).
    rewrite G. cbn [negb].
    destruct (zlen v =? 0) eqn:Em.
    { (* nothing to insert *)
      apply Z.eqb_eq in Em.
      assert (Hv : v = []) by (destruct v; [reflexivity | rewrite zlen_cons in Em; pose proof (zlen_nonneg v); lia]).
      subst v. exists true, (s ++ extra).
      assert (Hres : res = s) by (unfold res, zfirstn, zskipn; cbn [app]; apply firstn_skipn).
      rewrite Hres. split; [reflexivity|]. split; [|split].
      - split; [intros _; left; reflexivity | reflexivity].
      - discriminate.
      - intros _. reflexivity. }
    apply Z.eqb_neq in Em.
    assert (Hvne : v <> []) by (intros Hv; subst v; apply Em; reflexivity).
    destruct (i =? zlen s) eqn:Ei.
    { (* append *)
      apply Z.eqb_eq in Ei.
      assert (Hres : res = s ++ v).
      { unfold res, zfirstn, zskipn. subst i. unfold zlen. rewrite Nat2Z.id.
        rewrite firstn_all, skipn_all, app_nil_r. reflexivity. }
      rewrite Hres.
      destruct (zlen s + zlen v <=? zlen s + zlen extra) eqn:Ec.
      - apply Z.leb_le in Ec.
        exists true, (copy_to (s ++ extra) (s ++ v)).
        split; [reflexivity|]. split; [|split].
        + split; [intros _; right; lia | reflexivity].
        + discriminate.
        + intros _.
          rewrite copy_to_longer_dst by (rewrite !app_length; unfold zlen in Ec; lia).
          f_equal. rewrite app_length, <- skipn_skipn_add.
          rewrite skipn_app_exact by reflexivity.
          unfold zskipn, zlen. rewrite Nat2Z.id. reflexivity.
      - apply Z.leb_gt in Ec.
        exists false, (s ++ extra).
        split; [reflexivity|]. split; [|split].
        + split; [discriminate | intros [Hv | Hle]; [contradiction | lia]].
        + reflexivity.
        + discriminate. }
    apply Z.eqb_neq in Ei.
    destruct (zlen s + zlen v >? zlen s + zlen extra) eqn:Ec.
    { (* fresh array *)
      apply Z.gtb_lt in Ec.
      exists false, (s ++ extra).
      split; [reflexivity|]. split; [|split].
      - split; [discriminate | intros [Hv | Hle]; [contradiction | lia]].
      - reflexivity.
      - discriminate. }
    (* shift in place *)
    assert (Hfit : zlen v <= zlen extra).
    { destruct (Z_le_gt_dec (zlen v) (zlen extra)) as [H|H]; [exact H|].
      assert (Hc : (zlen s + zlen v >? zlen s + zlen extra) = true) by (apply Z.gtb_lt; lia).
      congruence. }
    unfold zfirstn, zskipn.
    set (A := firstn (Z.to_nat i) s).
    set (B := skipn (Z.to_nat i) s).
    assert (HsAB : s = A ++ B) by (unfold A, B; symmetry; apply firstn_skipn).
    assert (HlenA : length A = Z.to_nat i)
      by (unfold A; rewrite firstn_length; unfold zlen in Hi; lia).
    assert (Hcore := insert_inplace_core A B v extra ltac:(unfold zlen in Hfit; lia)).
    cbv zeta in Hcore.
    replace (Z.to_nat (i + zlen v)) with (length A + length v)%nat
      by (rewrite HlenA; unfold zlen; lia).
    replace (s ++ extra) with ((A ++ B) ++ extra) by (rewrite <- HsAB; reflexivity).
    rewrite <- HlenA.
    rewrite Hcore.
    assert (Hres : res = A ++ v ++ B) by reflexivity.
    exists true, ((A ++ v ++ B) ++ skipn (length v) extra).
    split.
    + f_equal. f_equal. f_equal. rewrite Hres.
      apply firstn_app_exact.
      rewrite HsAB. unfold zlen. rewrite !app_length. lia.
    + split; [|split].
      * split; [intros _; right; exact Hfit | reflexivity].
      * discriminate.
      * intros _. rewrite Hres. unfold zlen. rewrite Nat2Z.id. reflexivity.
  - intros Hi. unfold insert.
    destruct ((0 <=? i) && (i <=? zlen s)) eqn:G.
    + apply insert_guard in G. contradiction.
    + reflexivity.
Qed.

Example insert_spec_ex :
  insert [1;2;3] [0;0;0] 1 [7;8] = Ok ([1;7;8;2;3], true, [1;7;8;2;3;0]) /\
  insert [1;2;3] [0] 1 [7;8] = Ok ([1;7;8;2;3], false, [1;2;3;0]) /\
  insert [1;2;3] [0;0] 3 [7] = Ok ([1;2;3;7], true, [1;2;3;7;0]) /\
  insert [1;2;3] [] 4 [7] = Panic PIndex.
Proof. repeat split; vm_compute; reflexivity. Qed.
