(* Layer M for package xsort (xsort.go, xsort_go1.21.go).  Merge and MinK run on the model of
   internal/heap/heap.go (Heap/Model.v: New / Push / Pop with percolateUp / percolateDown), so
   the tie-breaking between less-equivalent items is the implementation's.
   Iterators handed to Merge / MinK are slice iterators and are modelled by the list of items
   they still have to yield.  xsort.Slice / SliceStable are thin wrappers over sort.Slice /
   sort.SliceStable (standard library, A2.9: modelled from the documentation): the model of
   SliceStable is the stable insertion sort [slice_stable], which ProofsSort.v proves to be THE
   sorted, stable rearrangement of its input (slice_stable_unique), so it stands for every
   correct stable sorting algorithm; Slice (not stable) is specified relative to it: any
   rearrangement that differs from [slice_stable] only inside classes of equivalent items
   ([slice_allowed], ProofsSort.slice_spec).  No proofs in this file. *)
From Juniper Require Import Common.Base Pure.Slices Heap.Model.

Definition ordered_less (a b : Z) : bool := a <? b.

Section Sort.
  Variable less : Z -> Z -> bool.

  Definition greater (a b : Z) : bool := less b a.
  Definition less_or_equal (a b : Z) : bool := negb (less b a).
  Definition greater_or_equal (a b : Z) : bool := negb (less a b).
  Definition equal_ (a b : Z) : bool := negb (less a b) && negb (less b a).
  Definition reverse_less (a b : Z) : bool := less b a.
  Definition less_compare (a b : Z) : Z := if less a b then -1 else if less b a then 1 else 0.

  (* sort.SliceIsSorted: for i := n - 1; i > 0; i-- { if less(x[i], x[i-1]) { return false } }; return true *)
  Fixpoint is_sorted_loop (x : list Z) (i : nat) : bool :=
    match i with
    | O => true
    | S i' => if less (znth x (Z.of_nat i)) (znth x (Z.of_nat i')) then false else is_sorted_loop x i'
    end.
  Definition slice_is_sorted (x : list Z) : bool := is_sorted_loop x (length x - 1).

  (* sort.SliceStable(x, less): "sorts the slice x using the provided less function, keeping
     equal elements in their original order".  [insert_stable x l] puts x in front of the first
     item that is not less than x - after every smaller item, before every equivalent one - and
     the sort inserts the items from the last to the first, so an earlier item ends up in front
     of the later items equivalent to it. *)
  Fixpoint insert_stable (x : Z) (l : list Z) : list Z :=
    match l with
    | [] => [x]
    | y :: t => if less y x then y :: insert_stable x t else x :: l
    end.
  Definition slice_stable (x : list Z) : list Z := fold_right insert_stable [] x.

  (* sort.Slice(x, less): "sorts the slice x given the provided less function ... The sort is not
     guaranteed to be stable".  The results the documentation allows for the input x: a
     rearrangement of x that agrees with slice_stable x position by position up to equivalence
     (= a sorted permutation of x, ProofsSort.slice_spec).  [same_items]: equal as multisets. *)
  Fixpoint take_out (x : Z) (l : list Z) : option (list Z) :=
    match l with
    | [] => None
    | y :: t => if x =? y then Some t else option_map (cons y) (take_out x t)
    end.
  Fixpoint same_items (a b : list Z) : bool :=
    match a with
    | [] => match b with [] => true | _ => false end
    | x :: a' => match take_out x b with Some b' => same_items a' b' | None => false end
    end.
  Fixpoint all2 (f : Z -> Z -> bool) (a b : list Z) : bool :=
    match a, b with
    | [], [] => true
    | x :: a', y :: b' => f x y && all2 f a' b'
    | _, _ => false
    end.
  Definition slice_allowed (x out : list Z) : bool :=
    same_items out (slice_stable x) && all2 equal_ out (slice_stable x).

  (* sort.Search: i, j := 0, n; for i < j { h := int(uint(i+j) >> 1); if !f(h) { i = h + 1 } else { j = h } }; return i *)
  Fixpoint search_loop (f : Z -> bool) (fuel : nat) (i j : Z) : Z :=
    match fuel with
    | O => i
    | S fu =>
        if i <? j then
          let h := (i + j) / 2 in
          if negb (f h) then search_loop f fu (h + 1) j else search_loop f fu i h
        else i
    end.
  Definition sort_search (n : Z) (f : Z -> bool) : Z := search_loop f (S (Z.to_nat n)) 0 n.
  Definition search (x : list Z) (item : Z) : Z :=
    sort_search (zlen x) (fun i => less item (znth x i) || negb (less (znth x i) item)).

  (* ---- Merge ---- *)
  Definition vs := (Z * Z)%type.                       (* valueAndSource *)
  Definition vs_less (a b : vs) : bool := less (fst a) (fst b).
  Definition vs_noidx (x : vs) (i : Z) (u : unit) : unit := u.
  Definition mheap := heap vs unit.
  Definition mstate := (list (list Z) * mheap)%type.   (* iter.in (remaining items), iter.h *)

  (* for i := range in { item, ok := in[i].Next(); if !ok { continue }; initial = append(initial, {item, i}) } *)
  Fixpoint merge_initial (ins : list (list Z)) (i : Z) : list vs * list (list Z) :=
    match ins with
    | [] => ([], [])
    | l :: r =>
        let '(init, rest) := merge_initial r (i + 1) in
        match l with
        | [] => (init, [] :: rest)
        | x :: t => ((x, i) :: init, t :: rest)
        end
    end.

  Definition merge_new (ins : list (list Z)) : result mstate :=
    let '(initial, rest) := merge_initial ins 0 in
    rbind (Heap.Model.new vs_less vs_noidx initial tt) (fun h => Ok (rest, h)).

  (* mergeIterator.Next *)
  Definition merge_next (st : mstate) : result (option Z * mstate) :=
    let '(ins, h) := st in
    if Heap.Model.len h =? 0 then Ok (None, st)
    else
      rbind (Heap.Model.pop (0, 0) vs_less vs_noidx h) (fun r =>
      let '(item, h1) := r in
      match nth_error ins (Z.to_nat (snd item)) with
      | Some (x :: t) =>
          rbind (Heap.Model.push vs_less vs_noidx (x, snd item) h1) (fun h2 =>
          Ok (Some (fst item), (upd ins (Z.to_nat (snd item)) t, h2)))
      | _ => Ok (Some (fst item), (ins, h1))
      end).

  (* drain the iterator; fuel exhaustion is Panic POther (excluded by theorem) *)
  Fixpoint merge_drain (fuel : nat) (st : mstate) : result (list Z) :=
    match fuel with
    | O => Panic POther
    | S fu =>
        rbind (merge_next st) (fun r =>
        match fst r with
        | None => Ok []
        | Some x => rbind (merge_drain fu (snd r)) (fun l => Ok (x :: l))
        end)
    end.

  Definition merge (ins : list (list Z)) : result (list Z) :=
    rbind (merge_new ins) (merge_drain (S (length (join ins)))).

  (* MergeSlices(less, out, in...): out = Grow(out[:0], n), then appends.  Returns the result
     and whether it is stored in out's array (0 < n <= cap(out); outcap < 0 stands for a nil out). *)
  Definition merge_slices (outcap : Z) (ins : list (list Z)) : result (list Z * bool) :=
    let n := zlen (join ins) in
    rbind (merge ins) (fun l => Ok (l, (0 <? n) && (n <=? outcap))).

  (* ---- MinK ---- *)
  Definition zheap_ := heap Z unit.

  (* for { item, ok := iter.Next(); if !ok { break }; h.Push(item); if h.Len() > k { h.Pop() } } *)
  Fixpoint mink_loop (k : Z) (items : list Z) (h : zheap_) : result zheap_ :=
    match items with
    | [] => Ok h
    | x :: t =>
        rbind (Heap.Model.push reverse_less no_index x h) (fun h1 =>
        if Heap.Model.len h1 >? k
        then rbind (Heap.Model.pop 0 reverse_less no_index h1) (fun r => mink_loop k t (snd r))
        else mink_loop k t h1)
    end.

  Fixpoint pop_n (n : nat) (h : zheap_) : result (list Z) :=
    match n with
    | O => Ok []
    | S n' =>
        rbind (Heap.Model.pop 0 reverse_less no_index h) (fun r =>
        rbind (pop_n n' (snd r)) (fun l => Ok (fst r :: l)))
    end.

  (* out := make([]T, h.Len()); for i := len(out) - 1; i >= 0; i-- { out[i] = h.Pop() } *)
  Definition min_k (items : list Z) (k : Z) : result (list Z) :=
    rbind (Heap.Model.new reverse_less no_index [] tt) (fun h0 =>
    rbind (mink_loop k items h0) (fun h =>
    rbind (pop_n (length (ha h)) h) (fun l => Ok (rev l)))).
End Sort.
