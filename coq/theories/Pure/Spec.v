(* Layer S for C19: the mathematical objects the documentation of the pure helpers talks about
   (lists, multisets as lists up to Permutation, finite sets/maps by membership), used in the
   statements of Properties/C19.v.  Definitions only. *)
From Coq Require Import Permutation Sorted.
From Juniper Require Import Common.Base Pure.Slices Pure.Maps Pure.Misc Pure.Rand.
From Juniper Require Export Heap.Spec.     (* strict_weak, nondecreasing *)

(* the sub-slice s[lo:hi] denoted by a (lo, hi) pair returned by Chunk / Runs *)
Definition slice_of (s : list Z) (r : Z * Z) : list Z := zslice s (fst r) (snd r).

(* first occurrence of every item, in order (Unique) *)
Fixpoint nub (s : list Z) : list Z :=
  match s with
  | [] => []
  | x :: t => x :: filter (fun y => negb (y =? x)) (nub t)
  end.

(* the first item of every maximal block of items each of which is [eq] to its predecessor
   (Compact / CompactFunc: an item is dropped iff eq(item, predecessor)) *)
Fixpoint compact_from (eq : Z -> Z -> bool) (prev : Z) (s : list Z) : list Z :=
  match s with
  | [] => []
  | x :: t => if eq x prev then compact_from eq x t else x :: compact_from eq x t
  end.
Definition compact_of (eq : Z -> Z -> bool) (s : list Z) : list Z :=
  match s with [] => [] | x :: t => x :: compact_from eq x t end.

(* the maximal runs of s: consecutive items are in the same run iff same(previous, next) *)
Fixpoint runs_of (same : Z -> Z -> bool) (s : list Z) : list (list Z) :=
  match s with
  | [] => []
  | x :: t =>
      match runs_of same t with
      | (y :: r) :: rs => if same x y then (x :: y :: r) :: rs else [x] :: (y :: r) :: rs
      | _ => [[x]]
      end
  end.

(* adjacent items of l are related by R *)
Fixpoint chain (R : Z -> Z -> bool) (l : list Z) : Prop :=
  match l with
  | x :: ((y :: _) as t) => R x y = true /\ chain R t
  | _ => True
  end.

(* the bounds of the chunks of a slice of length n into pieces of size c > 0 *)
Definition chunk_ranges (n c : Z) : list (Z * Z) :=
  map (fun i => (Z.of_nat i * c, Z.min ((Z.of_nat i + 1) * c) n)) (seq 0 (Z.to_nat ((n + c - 1) / c))).

(* association lists as maps *)
Definition is_map (m : zmap) : Prop := NoDup (map fst m).

(* what the real random source and libm can deliver to sampler.Next (see Pure/Rand.v) *)
Definition oracle_ok (o : oracle) (k : Z) : Prop :=
  forall t, match o t with DStop => True | DSkip skip repl => 0 <= skip /\ 0 <= repl < k end.

Definition positions_ok (n : Z) (ps : list Z) : Prop :=
  NoDup ps /\ forall p, In p ps -> 0 <= p < n.
