(* Layer M for package xslices (xslices.go and xslices_go1.21.go, which delegates to the
   standard library package slices of Go 1.23: those are transcribed from the Go 1.23 source
   of slices, which is what is compiled into the harness).

   Conventions
   * a slice of ints is a [list Z]; Go ints are Z.  Integer overflow is modelled only where a
     documented-valid input reaches it (Chunk: len(s)+chunkSize-1); everywhere else lengths and
     index arguments are assumed to stay below 2^62 in absolute value.
   * function arguments of the Go functions are Gallina functions.
   * in-place functions return the contents of the WHOLE original slice s[0:len(s)] (and of
     s[len(s):cap(s)] where the function can write there) after the call, next to the returned
     slice, so aliasing effects and cleared tails are visible.
   * functions whose behaviour depends on the capacity take the visible part [s] and the
     hidden part [extra] = s[len(s):cap(s)] of the backing array.
   * panics are values ([result]); reads whose index is in range by the loop guards use [znth].
   * loops that are not structural carry explicit fuel, always supplied by the caller as a
     bound derived from the lengths; the theorems show that the fuel suffices.
   No proofs in this file. *)
From Juniper Require Import Common.Base.

Definition pbind {A B} (r : result A) (f : A -> result B) : result B :=
  match r with Ok a => f a | Panic c => Panic c end.

Definition znth (l : list Z) (i : Z) : Z := nth (Z.to_nat i) l 0.
Definition zfirstn {A} (n : Z) (l : list A) : list A := firstn (Z.to_nat n) l.
Definition zskipn {A} (n : Z) (l : list A) : list A := skipn (Z.to_nat n) l.
Definition zeros (n : Z) : list Z := zrepeat 0 n.
Definition zupd (l : list Z) (i : Z) (x : Z) : list Z := upd l (Z.to_nat i) x.

(* s[i], s[j] = s[j], s[i] *)
Definition swap (l : list Z) (i j : Z) : list Z := zupd (zupd l i (znth l j)) j (znth l i).

(* copy(dst, src): min(len dst, len src) items; returns the new contents of dst.  Go's copy
   behaves as if src were read completely before dst is written (memmove). *)
Definition copy_to (dst src : list Z) : list Z :=
  let n := Nat.min (length dst) (length src) in firstn n src ++ skipn n dst.

(* two's complement wrap-around of a w-bit signed integer *)
Definition wrap (w : Z) (z : Z) : Z := (z + 2 ^ (w - 1)) mod 2 ^ w - 2 ^ (w - 1).

Fixpoint list_eqb (l m : list Z) : bool :=
  match l, m with
  | [], [] => true
  | x :: l', y :: m' => (x =? y) && list_eqb l' m'
  | _, _ => false
  end.

Definition mem (x : Z) (l : list Z) : bool := existsb (Z.eqb x) l.

(* ---------------------------------------------------------------- All / Any / Index *)

(* for i := range s { if !f(s[i]) { return false } }; return true *)
Fixpoint all (f : Z -> bool) (s : list Z) : bool :=
  match s with [] => true | x :: t => if f x then all f t else false end.

(* slices.IndexFunc: for i := range s { if f(s[i]) { return i } }; return -1 *)
Fixpoint index_from (f : Z -> bool) (s : list Z) (i : Z) : Z :=
  match s with [] => -1 | x :: t => if f x then i else index_from f t (i + 1) end.
Definition index_func (f : Z -> bool) (s : list Z) : Z := index_from f s 0.
(* slices.Index: v == s[i] *)
Definition index (s : list Z) (v : Z) : Z := index_func (fun x => v =? x) s.
(* slices.ContainsFunc(s, f) = IndexFunc(s, f) >= 0 *)
Definition any (f : Z -> bool) (s : list Z) : bool := index_func f s >=? 0.

(* for i := len(s) - 1; i >= 0; i-- { if f(s[i]) { return i } }; return -1 *)
Fixpoint last_index_loop (f : Z -> bool) (s : list Z) (n : nat) : Z :=
  match n with
  | O => -1
  | S n' => if f (znth s (Z.of_nat n')) then Z.of_nat n' else last_index_loop f s n'
  end.
Definition last_index_func (f : Z -> bool) (s : list Z) : Z := last_index_loop f s (length s).
Definition last_index (s : list Z) (x : Z) : Z := last_index_func (fun y => y =? x) s.

(* ---------------------------------------------------------------- Count / Fill / Clear / Clone / Equal *)

Fixpoint count_loop (f : Z -> bool) (s : list Z) (n : Z) : Z :=
  match s with [] => n | x :: t => count_loop f t (if f x then n + 1 else n) end.
Definition count_func (f : Z -> bool) (s : list Z) : Z := count_loop f s 0.
Definition count (s : list Z) (x : Z) : Z := count_func (fun y => x =? y) s.

(* for i := range s { s[i] = x }: the contents of s afterwards *)
Definition fill (s : list Z) (x : Z) : list Z := map (fun _ => x) s.
Definition clear (s : list Z) : list Z := fill s 0.

(* slices.Clone: append(s[:0:0], s...) : a fresh array with the same contents *)
Definition clone (s : list Z) : list Z := s.

(* slices.Equal / EqualFunc *)
Fixpoint equal_loop (eq : Z -> Z -> bool) (a b : list Z) : bool :=
  match a, b with
  | [], _ => true
  | x :: a', y :: b' => if eq x y then equal_loop eq a' b' else false
  | _ :: _, [] => false     (* unreachable: lengths are equal *)
  end.
Definition equal_func (eq : Z -> Z -> bool) (a b : list Z) : bool :=
  if negb (zlen a =? zlen b) then false else equal_loop eq a b.
Definition equal (a b : list Z) : bool := equal_func Z.eqb a b.

(* ---------------------------------------------------------------- Join / Map / Reduce / Repeat / Group *)

(* out := make([]T, 0, n); for i := range in { out = append(out, in[i]...) } *)
Fixpoint join (ins : list (list Z)) : list Z :=
  match ins with [] => [] | l :: r => l ++ join r end.

Definition map_ (f : Z -> Z) (s : list Z) : list Z := map f s.

Fixpoint reduce (f : Z -> Z -> Z) (s : list Z) (acc : Z) : Z :=
  match s with [] => acc | x :: t => reduce f t (f acc x) end.

(* make([]T, n) panics for n < 0 *)
Definition repeat_ (x : Z) (n : Z) : result (list Z) :=
  if n <? 0 then Panic PNeg else Ok (zrepeat x n).

(* the map m : U -> []T as an association list in order of first appearance of the key *)
Fixpoint group_add (k x : Z) (m : list (Z * list Z)) : list (Z * list Z) :=
  match m with
  | [] => [(k, [x])]
  | (k', l) :: r => if k =? k' then (k', l ++ [x]) :: r else (k', l) :: group_add k x r
  end.
Fixpoint group_loop (f : Z -> Z) (s : list Z) (m : list (Z * list Z)) : list (Z * list Z) :=
  match s with [] => m | x :: t => group_loop f t (group_add (f x) x m) end.
Definition group (f : Z -> Z) (s : list Z) : list (Z * list Z) := group_loop f s [].

(* ---------------------------------------------------------------- Chunk *)

(* returns the (start, end) bounds of the chunks: out[i] = s[start:end] aliases s *)
Fixpoint chunk_loop (cnt : nat) (i n c : Z) : result (list (Z * Z)) :=
  match cnt with
  | O => Ok []
  | S cnt' =>
      let start := i * c in
      let e := (i + 1) * c in
      let e := if e >? n then n else e in
      (* s[start:end] with end <= len(s): in range iff 0 <= start <= end *)
      if (0 <=? start) && (start <=? e)
      then pbind (chunk_loop cnt' (i + 1) n c) (fun r => Ok ((start, e) :: r))
      else Panic PIndex
  end.

Definition chunk_count (no_overflow : bool) (n c : Z) : Z :=
  if no_overflow then Z.quot n c + (if Z.rem n c =? 0 then 0 else 1)
  else Z.quot (wrap 64 (n + c - 1)) c.

Definition chunk (guard no_overflow : bool) (s : list Z) (c : Z) : result (list (Z * Z)) :=
  if guard && (c <=? 0) then Panic PNeg
  else if c =? 0 then Panic PDivZero
  else let cnt := chunk_count no_overflow (zlen s) c in
       if cnt <? 0 then Panic PNeg                      (* make: len out of range *)
       else chunk_loop (Z.to_nat cnt) 0 (zlen s) c.

(* ---------------------------------------------------------------- Partition *)

(* for i < j { if !f(s[i]) { i++ } else { break } } *)
Fixpoint part_up (f : Z -> bool) (s : list Z) (fuel : nat) (i j : Z) : Z :=
  match fuel with
  | O => i
  | S fu => if i <? j then (if negb (f (znth s i)) then part_up f s fu (i + 1) j else i) else i
  end.
(* for j > i { if f(s[j]) { j-- } else { break } } *)
Fixpoint part_down (f : Z -> bool) (s : list Z) (fuel : nat) (i j : Z) : Z :=
  match fuel with
  | O => j
  | S fu => if j >? i then (if f (znth s j) then part_down f s fu i (j - 1) else j) else j
  end.
Fixpoint part_loop (f : Z -> bool) (fuel : nat) (s : list Z) (i j : Z) : list Z * Z :=
  match fuel with
  | O => (s, i)
  | S fu =>
      let i1 := part_up f s (length s) i j in
      let j1 := part_down f s (length s) i1 j in
      if i1 >=? j1 then (s, i1)
      else part_loop f fu (swap s i1 j1) (i1 + 1) (j1 - 1)
  end.
(* returns (r, contents of s afterwards) *)
Definition partition (f : Z -> bool) (s : list Z) : Z * list Z :=
  let '(s', i) := part_loop f (S (length s)) s 0 (zlen s - 1) in
  ((if (i <? zlen s) && negb (f (znth s' i)) then i + 1 else i), s').

(* ---------------------------------------------------------------- RemoveUnordered *)

(* returns (returned slice, contents of s[0:len(s)] afterwards) *)
Definition remove_unordered (s : list Z) (idx n : Z) : result (list Z * list Z) :=
  let len := zlen s in
  let keepStart := len - n in
  let removeEnd := idx + n in
  let keepStart := if removeEnd >? keepStart then removeEnd else keepStart in
  (* copy(s[idx:], s[keepStart:]) *)
  if negb ((0 <=? idx) && (idx <=? len)) then Panic PIndex
  else if negb ((0 <=? keepStart) && (keepStart <=? len)) then Panic PIndex
  else
    let s1 := zfirstn idx s ++ copy_to (zskipn idx s) (zskipn keepStart s) in
    (* Clear(s[len(s)-n:]) *)
    if negb ((0 <=? len - n) && (len - n <=? len)) then Panic PIndex
    else
      let s2 := zfirstn (len - n) s1 ++ clear (zskipn (len - n) s1) in
      (* s[:len(s)-n] *)
      Ok (zfirstn (len - n) s2, s2).

(* ---------------------------------------------------------------- Reverse *)

(* for i := 0; i < len(s)/2; i++ { s[i], s[len(s)-i-1] = s[len(s)-i-1], s[i] } *)
Fixpoint reverse_loop (cnt : nat) (i : Z) (s : list Z) : list Z :=
  match cnt with
  | O => s
  | S c => reverse_loop c (i + 1) (swap s i (zlen s - i - 1))
  end.
Definition reverse (s : list Z) : list Z := reverse_loop (Z.to_nat (Z.quot (zlen s) 2)) 0 s.

(* ---------------------------------------------------------------- Runs *)

(* the loop from i = 1: [prev] = s[i-1], [rest] = s[i:], runs as (start, end) bounds *)
Fixpoint runs_loop (same : Z -> Z -> bool) (prev : Z) (rest : list Z) (i start e : Z)
         (runs : list (Z * Z)) : list (Z * Z) * Z * Z :=
  match rest with
  | [] => (runs, start, e)
  | x :: t =>
      if same prev x then runs_loop same x t (i + 1) start (i + 1) runs
      else runs_loop same x t (i + 1) i (i + 1) (runs ++ [(start, e)])
  end.
(* fixed = false: [end := 0 ... if end > 0];  fixed = true: [end := 1 ... if len(s) > 0] *)
Definition runs (fixed : bool) (s : list Z) (same : Z -> Z -> bool) : list (Z * Z) :=
  match s with
  | [] => []
  | x :: t =>
      let '(rs, start, e) := runs_loop same x t 1 0 (if fixed then 1 else 0) [] in
      if (if fixed then true else e >? 0) then rs ++ [(start, zlen s)] else rs
  end.

(* ---------------------------------------------------------------- Shrink / Grow *)

(* returns (contents, capacity, result aliases s) *)
Definition shrink (s extra : list Z) (n : Z) : result (list Z * Z * bool) :=
  let len := zlen s in
  let cap := len + zlen extra in
  if cap >? len + n then
    if len + n <? 0 then Panic PNeg                                  (* make([]T, len(s)+n) *)
    else let x2 := copy_to (zeros (len + n)) s in
         if len >? len + n then Panic PIndex                         (* x2[:len(s)] beyond cap(x2) *)
         else Ok (zfirstn len x2, len + n, false)
  else Ok (s, cap, true).

(* slices.Grow: contents unchanged; the new capacity is only bounded below (append picks a
   size class).  Returns (contents, lower bound of the capacity, result aliases s). *)
Definition grow (s extra : list Z) (n : Z) : result (list Z * Z * bool) :=
  if n <? 0 then Panic PNeg
  else let len := zlen s in
       let cap := len + zlen extra in
       if n - (cap - len) >? 0 then Ok (s, len + n, false) else Ok (s, cap, true).

(* ---------------------------------------------------------------- Unique *)

(* uniqueInto over a fresh [into]: the map m is the list [seen] *)
Fixpoint unique_into (seen into s : list Z) : list Z :=
  match s with
  | [] => into
  | x :: t => if mem x seen then unique_into seen into t
              else unique_into (x :: seen) (into ++ [x]) t
  end.
Definition unique (s : list Z) : list Z := unique_into [] [] s.

(* uniqueInto(s[:0], s): append writes into the array being read; k = len(into) *)
Fixpoint unique_inplace_loop (fuel : nat) (i : Z) (arr seen : list Z) (k : Z) : list Z * Z :=
  match fuel with
  | O => (arr, k)
  | S fu =>
      let x := znth arr i in
      if mem x seen then unique_inplace_loop fu (i + 1) arr seen k
      else unique_inplace_loop fu (i + 1) (zupd arr k x) (x :: seen) (k + 1)
  end.
(* returns (returned slice, contents of s afterwards) *)
Definition unique_in_place (s : list Z) : list Z * list Z :=
  let '(arr, k) := unique_inplace_loop (length s) 0 s [] 0 in
  let after := zfirstn k arr ++ clear (zskipn k arr) in
  (zfirstn k after, after).

(* ---------------------------------------------------------------- Compact (slices.CompactFunc) *)

(* s2 := s[base:]; for k2 := 1; k2 < len(s2); k2++ { if !eq(s2[k2], s2[k2-1]) { s[k] = s2[k2]; k++ } } *)
Fixpoint compact_inner (eq : Z -> Z -> bool) (fuel : nat) (k2 base : Z) (arr : list Z) (k : Z)
  : list Z * Z :=
  match fuel with
  | O => (arr, k)
  | S fu =>
      if negb (eq (znth arr (base + k2)) (znth arr (base + k2 - 1)))
      then compact_inner eq fu (k2 + 1) base (zupd arr k (znth arr (base + k2))) (k + 1)
      else compact_inner eq fu (k2 + 1) base arr k
  end.
(* for k := 1; k < len(s); k++ { if eq(s[k], s[k-1]) { ...; clear(s[k:]); return s[:k] } }; return s *)
Fixpoint compact_outer (eq : Z -> Z -> bool) (fuel : nat) (k : Z) (s : list Z) : list Z * list Z :=
  match fuel with
  | O => (s, s)
  | S fu =>
      if eq (znth s k) (znth s (k - 1)) then
        let '(arr, k') := compact_inner eq (Z.to_nat (zlen s - k - 1)) 1 k s k in
        let after := zfirstn k' arr ++ clear (zskipn k' arr) in
        (zfirstn k' after, after)
      else compact_outer eq fu (k + 1) s
  end.
(* returns (returned slice, contents of s afterwards) *)
Definition compact_in_place_func (eq : Z -> Z -> bool) (s : list Z) : list Z * list Z :=
  if zlen s <? 2 then (s, s) else compact_outer eq (length s - 1) 1 s.
Definition compact_in_place (s : list Z) : list Z * list Z := compact_in_place_func Z.eqb s.
(* on a clone: s itself is untouched *)
Definition compact_func (eq : Z -> Z -> bool) (s : list Z) : list Z := fst (compact_in_place_func eq (clone s)).
Definition compact (s : list Z) : list Z := fst (compact_in_place (clone s)).

(* ---------------------------------------------------------------- Filter (slices.DeleteFunc) *)

(* for j := i + 1; j < len(s); j++ { if v := s[j]; !del(v) { s[i] = v; i++ } } *)
Fixpoint delete_loop (del : Z -> bool) (fuel : nat) (j : Z) (arr : list Z) (i : Z) : list Z * Z :=
  match fuel with
  | O => (arr, i)
  | S fu =>
      let v := znth arr j in
      if del v then delete_loop del fu (j + 1) arr i
      else delete_loop del fu (j + 1) (zupd arr i v) (i + 1)
  end.
Definition delete_func (del : Z -> bool) (s : list Z) : list Z * list Z :=
  let i := index_func del s in
  if i =? -1 then (s, s)
  else let '(arr, i') := delete_loop del (Z.to_nat (zlen s - (i + 1))) (i + 1) s i in
       let after := zfirstn i' arr ++ clear (zskipn i' arr) in    (* clear(s[i:]) *)
       (zfirstn i' after, after).
Definition filter_in_place (keep : Z -> bool) (s : list Z) : list Z * list Z :=
  delete_func (fun t => negb (keep t)) s.
Definition filter_ (keep : Z -> bool) (s : list Z) : list Z := fst (filter_in_place keep (clone s)).

(* ---------------------------------------------------------------- Insert / Remove (slices.Insert / slices.Delete) *)

(* returns (returned slice, result aliases s, contents of s[0:cap(s)] afterwards).
   [v] is a slice that does not overlap s (the harness passes fresh values). *)
Definition insert (s extra : list Z) (i : Z) (v : list Z) : result (list Z * bool * list Z) :=
  let n := zlen s in
  let m := zlen v in
  let cap := n + zlen extra in
  if negb ((0 <=? i) && (i <=? n)) then Panic PIndex              (* _ = s[i:] *)
  else if m =? 0 then Ok (s, true, s ++ extra)
  else if i =? n then                                             (* append(s, v...) *)
    if n + m <=? cap then Ok (s ++ v, true, copy_to (s ++ extra) (s ++ v))
    else Ok (s ++ v, false, s ++ extra)
  else if n + m >? cap then                                       (* fresh array *)
    Ok (zfirstn i s ++ v ++ zskipn i s, false, s ++ extra)
  else                                                            (* shift up in place *)
    let whole := s ++ extra in
    let s1 := zfirstn (i + m) whole ++ copy_to (zskipn (i + m) whole) (zskipn i s) in   (* copy(s[i+m:], s[i:]) with s = s[:n+m] *)
    let s2 := zfirstn i s1 ++ copy_to (zskipn i s1) v in                                (* copy(s[i:], v) *)
    Ok (zfirstn (n + m) s2, true, s2).

(* slices.Delete(s, idx, idx+n): returns (returned slice, contents of s[0:len(s)] afterwards) *)
Definition remove (s : list Z) (idx n : Z) : result (list Z * list Z) :=
  let i := idx in
  let j := idx + n in
  let len := zlen s in
  if negb ((0 <=? i) && (i <=? j) && (j <=? len)) then Panic PIndex      (* _ = s[i:j:len(s)] *)
  else if i =? j then Ok (s, s)
  else
    let s1 := zfirstn i s ++ copy_to (zskipn i s) (zskipn j s) in          (* append(s[:i], s[j:]...) in place *)
    let newlen := i + (len - j) in
    let after := zfirstn newlen s1 ++ clear (zskipn newlen s1) in          (* clear(s[len(s):oldlen]) *)
    Ok (zfirstn newlen after, after).
