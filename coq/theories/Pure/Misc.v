(* Layer M for packages xmath (Abs, Min, Max, Clamp on integer types) and xerrors (WithStack).
   No proofs in this file. *)
From Juniper Require Import Common.Base Pure.Slices.

(* ---------------------------------------------------------------- xmath *)

(* Abs[T] on a w-bit two's complement integer type (w = 8, 16, 32, 64; int is 64 bits on the
   platforms of the harness).  [-x] is computed in T and wraps around. *)
Definition abs_w (w : Z) (x : Z) : result Z :=
  if x <? 0 then
    let nx := wrap w (- x) in
    if nx =? x then Panic POther else Ok nx
  else Ok x.

Definition in_range (w : Z) (x : Z) : Prop := - 2 ^ (w - 1) <= x < 2 ^ (w - 1).

(* the builtins min and max on integers *)
Definition min_ (a b : Z) : Z := if b <? a then b else a.
Definition max_ (a b : Z) : Z := if b >? a then b else a.

(* if x < min { return min }; if x > max { return max }; return x *)
Definition clamp (x lo hi : Z) : Z := if x <? lo then lo else if x >? hi then hi else x.

(* ---------------------------------------------------------------- xerrors *)

(* Error values.  [EBase id] is a comparable leaf (errors.New: pointer identity = id);
   [EWrap tag inner] is a comparable wrapper with an Unwrap method and no Is/As methods
   (fmt.Errorf("...%w", inner): pointer identity = tag; the generators give every node its own
   tag, and a tag determines everything beneath it);  [EStack inner] is a
   xerrors.withStack value: it has an Unwrap method, no Is method, and is NOT comparable
   (it contains a slice), so errors.Is never matches it by ==.  nil is [None]. *)
Inductive err :=
| EBase (id : Z)
| EWrap (tag : Z) (inner : err)
| EStack (inner : err).

(* errors.Unwrap: the result of err's Unwrap method, nil if it has none *)
Definition unwrap (e : err) : option err :=
  match e with EBase _ => None | EWrap _ i => Some i | EStack i => Some i end.

Definition comparable (e : err) : bool :=
  match e with EStack _ => false | _ => true end.

(* == on two comparable error values: pointer identity, i.e. equality of ids / tags *)
Definition err_eqb (a b : err) : bool :=
  match a, b with
  | EBase x, EBase y => x =? y
  | EWrap s _, EWrap t _ => s =? t
  | _, _ => false
  end.

(* errors.Is(err, target) for non-nil err: walk the Unwrap chain; a node matches when target is
   comparable and node == target (no node type here has an Is method) *)
Fixpoint is_ (e target : err) : bool :=
  (comparable target && comparable e && err_eqb e target) ||
  match e with EBase _ => false | EWrap _ i => is_ i target | EStack i => is_ i target end.

(* errors.As(err, &withStack{}): some node of the chain is a withStack *)
Fixpoint has_stack (e : err) : bool :=
  match e with EBase _ => false | EWrap _ i => has_stack i | EStack _ => true end.

(* the sentinel noError and the probe value withStack{inner: noError} used by the current code *)
Definition no_error_id : Z := -1.
Definition probe : err := EStack (EBase no_error_id).

(* WithStack.  idempotent = false: the code as it is ([errors.Is(err, withStack{inner: noError})]);
   idempotent = true: the planned fix ([errors.As]). *)
Definition with_stack (idempotent : bool) (e : option err) : option err :=
  match e with
  | None => None
  | Some e =>
      if (if idempotent then has_stack e else is_ e probe) then Some e else Some (EStack e)
  end.
