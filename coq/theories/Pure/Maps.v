(* Layer M for package xmaps.  A Go map[int]int is an association list with unique keys
   ([zmap]); a Set[int] is a duplicate-free list of keys ([zset_]).  The ORDER of an input
   list is the order in which this call's [for k := range m] visits it: Go leaves it
   unspecified, the theorems quantify over all input lists and therefore over every iteration
   order.  The order of an output list is an artefact of the model (insertion order) and is
   ignored by the correspondence check, which compares maps as sorted key/value lists.
   No proofs in this file. *)
From Juniper Require Import Common.Base Pure.Slices.

Definition zmap := list (Z * Z).
Definition zset_ := list Z.

(* v, ok := m[k] *)
Fixpoint mget (m : zmap) (k : Z) : option Z :=
  match m with [] => None | (k', v) :: r => if k =? k' then Some v else mget r k end.
(* m[k] = v *)
Fixpoint mset (k v : Z) (m : zmap) : zmap :=
  match m with
  | [] => [(k, v)]
  | (k', v') :: r => if k =? k' then (k, v) :: r else (k', v') :: mset k v r
  end.

(* s[k] = struct{}{} ; _, ok := s[k] ; delete(s, k) *)
Fixpoint sadd (k : Z) (s : zset_) : zset_ :=
  match s with [] => [k] | x :: r => if k =? x then s else x :: sadd k r end.
Definition smem (k : Z) (s : zset_) : bool := mem k s.
Fixpoint sdel (k : Z) (s : zset_) : zset_ :=
  match s with [] => [] | x :: r => if k =? x then sdel k r else x :: sdel k r end.

(* Set.Add / Remove / Contains *)
Definition set_add (s : zset_) (k : Z) : zset_ := sadd k s.
Definition set_remove (s : zset_) (k : Z) : zset_ := sdel k s.
Definition set_contains (s : zset_) (k : Z) : bool := smem k s.

(* for _, k := range items { result[k] = struct{}{} } *)
Fixpoint add_all (items : list Z) (out : zset_) : zset_ :=
  match items with [] => out | k :: t => add_all t (sadd k out) end.
Definition set_from_slice (items : list Z) : zset_ := add_all items [].

(* for _, set := range sets { for k := range set { out[k] = struct{}{} } } *)
Fixpoint union_loop (sets : list zset_) (out : zset_) : zset_ :=
  match sets with [] => out | s :: r => union_loop r (add_all s out) end.
Definition union (sets : list zset_) : zset_ := union_loop sets [].

(* xsort.Slice(sets, len(a) < len(b)): sort.Slice is not stable; a stable insertion sort stands
   in for it.  Intersection and Intersects do not depend on the order among sets of equal size
   (theorems C19_Intersection_spec / C19_Intersects_spec hold for every permutation). *)
Fixpoint insert_by_len (s : zset_) (l : list zset_) : list zset_ :=
  match l with
  | [] => [s]
  | h :: t => if (length s <=? length h)%nat then s :: h :: t else h :: insert_by_len s t
  end.
Fixpoint sort_by_len (l : list zset_) : list zset_ :=
  match l with [] => [] | s :: r => insert_by_len s (sort_by_len r) end.

(* include := true; for j := 1; j < len(sets); j++ { if _, ok := sets[j][k]; !ok { include = false; break } } *)
Fixpoint in_all (k : Z) (rest : list zset_) : bool :=
  match rest with [] => true | s :: r => if smem k s then in_all k r else false end.

Fixpoint inter_loop (s0 : zset_) (rest : list zset_) (out : zset_) : zset_ :=
  match s0 with
  | [] => out
  | k :: t => inter_loop t rest (if in_all k rest then sadd k out else out)
  end.
Definition intersection (sets : list zset_) : zset_ :=
  match sort_by_len sets with
  | [] => []
  | s0 :: rest => inter_loop s0 rest []
  end.

Fixpoint intersects_loop (s0 : zset_) (rest : list zset_) : bool :=
  match s0 with [] => false | k :: t => if in_all k rest then true else intersects_loop t rest end.
Definition intersects (sets : list zset_) : bool :=
  match sort_by_len sets with
  | [] => false
  | s0 :: rest => intersects_loop s0 rest
  end.

(* for k := range a { if _, ok := b[k]; !ok { result[k] = struct{}{} } } *)
Fixpoint diff_loop (a b out : zset_) : zset_ :=
  match a with [] => out | k :: t => diff_loop t b (if smem k b then out else sadd k out) end.
Definition difference (a b : zset_) : zset_ := diff_loop a b [].

(* Reverse: result[v] = append(result[v], k) *)
Fixpoint rev_add (v k : Z) (r : list (Z * list Z)) : list (Z * list Z) :=
  match r with
  | [] => [(v, [k])]
  | (v', l) :: t => if v =? v' then (v', l ++ [k]) :: t else (v', l) :: rev_add v k t
  end.
Fixpoint reverse_loop (m : zmap) (r : list (Z * list Z)) : list (Z * list Z) :=
  match m with [] => r | (k, v) :: t => reverse_loop t (rev_add v k r) end.
Definition reverse_map (m : zmap) : list (Z * list Z) := reverse_loop m [].

(* ReverseSingle: if _, ok := result[v]; ok { allOk = false }; result[v] = k *)
Fixpoint reverse_single_loop (m : zmap) (r : zmap) (ok : bool) : zmap * bool :=
  match m with
  | [] => (r, ok)
  | (k, v) :: t =>
      reverse_single_loop t (mset v k r) (match mget r v with Some _ => false | None => ok end)
  end.
Definition reverse_single (m : zmap) : zmap * bool := reverse_single_loop m [] true.

(* ToIndex: for i := range keys { m[keys[i]] = i } *)
Fixpoint to_index_loop (keys : list Z) (i : Z) (m : zmap) : zmap :=
  match keys with [] => m | k :: t => to_index_loop t (i + 1) (mset k i m) end.
Definition to_index (keys : list Z) : zmap := to_index_loop keys 0 [].

(* FromKeysAndValues *)
Fixpoint fkv_loop (keys values : list Z) (m : zmap) (ok : bool) : zmap * bool :=
  match keys, values with
  | k :: kt, v :: vt =>
      fkv_loop kt vt (mset k v m) (match mget m k with Some _ => false | None => ok end)
  | _, _ => (m, ok)
  end.
Definition from_keys_and_values (keys values : list Z) : result (zmap * bool) :=
  if negb (zlen keys =? zlen values) then Panic POther else Ok (fkv_loop keys values [] true).
