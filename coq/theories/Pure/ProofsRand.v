(* Proofs for package xmath/xrand (model: Pure/Rand.v, over an ORACLE for the random source and
   the floating point computation of Algorithm L; see the header of Pure/Rand.v).
   The probability distribution is NOT part of this development: nothing here states or
   suggests "equally likely".  Stdlib only, no axioms. *)
From Coq Require Import Permutation Arith.
From Juniper Require Import Common.Base Pure.Slices Pure.Rand Pure.Spec.

(* ------------------------------------------------------------------ list lemmas (nat indices) *)

Lemma r_nth_upd_same {A} (l : list A) n x d : (n < length l)%nat -> nth n (upd l n x) d = x.
Proof.
  revert n; induction l as [|h t IH]; intros [|n] H; simpl in *; try lia; auto.
  apply IH; lia.
Qed.

Lemma r_nth_upd_other {A} (l : list A) n m x d : n <> m -> nth m (upd l n x) d = nth m l d.
Proof.
  revert n m; induction l as [|h t IH]; intros [|n] [|m] H; simpl; auto; try congruence.
Qed.

Lemma r_perm_upd {A} (l : list A) n x y :
  nth_error l n = Some x -> Permutation (y :: l) (x :: upd l n y).
Proof.
  revert n. induction l as [|h t IH]; intros [|n] H; simpl in *; try discriminate.
  - injection H as ->. apply perm_swap.
  - eapply perm_trans; [apply perm_swap|].
    eapply perm_trans; [apply perm_skip, (IH n H)|]. apply perm_swap.
Qed.

Lemma r_map_upd {A B} (f : A -> B) (l : list A) n x : map f (upd l n x) = upd (map f l) n (f x).
Proof.
  revert n; induction l as [|h t IH]; intros [|n]; simpl; auto. f_equal. apply IH.
Qed.

Lemma r_In_upd {A} (l : list A) n x y : In y (upd l n x) -> y = x \/ In y l.
Proof.
  revert n; induction l as [|h t IH]; intros [|n] H; simpl in *; auto.
  - destruct H as [H|H]; [left; congruence|right; right; exact H].
  - destruct H as [H|H]; [right; left; exact H|].
    destruct (IH n H) as [E|E]; [left; exact E|right; right; exact E].
Qed.

Lemma r_In_upd_same {A} (l : list A) n x : (n < length l)%nat -> In x (upd l n x).
Proof.
  revert n; induction l as [|h t IH]; intros [|n] H; simpl in *; try lia; auto.
  right. apply IH. lia.
Qed.

Lemma r_In_upd_other {A} (l : list A) n x y d : In y l -> y <> nth n l d -> In y (upd l n x).
Proof.
  revert n; induction l as [|h t IH]; intros [|n] H Hne; simpl in *; auto.
  - destruct H as [H|H]; [congruence|right; exact H].
  - destruct H as [H|H]; [left; exact H|right; apply IH; assumption].
Qed.

Lemma r_upd_app_len {A} (l1 l2 : list A) x y : upd (l1 ++ x :: l2) (length l1) y = l1 ++ y :: l2.
Proof. induction l1 as [|h t IH]; simpl; [reflexivity|]. f_equal. exact IH. Qed.

Lemma r_NoDup_upd (l : list Z) n x : NoDup l -> ~ In x l -> NoDup (upd l n x).
Proof.
  revert n; induction l as [|h t IH]; intros n Hnd Hx.
  - destruct n; simpl; constructor.
  - inversion Hnd as [|h' t' Hh Ht]; subst.
    destruct n as [|n]; simpl.
    + constructor; [|exact Ht]. intros Hin. apply Hx. right. exact Hin.
    + constructor.
      * intros Hin. apply r_In_upd in Hin. destruct Hin as [E|E].
        -- apply Hx. left. exact E.
        -- apply Hh. exact E.
      * apply IH; [exact Ht|]. intros Hin. apply Hx. right. exact Hin.
Qed.

Lemma r_nth_firstn {A} (l : list A) m j d : (j < m)%nat -> nth j (firstn m l) d = nth j l d.
Proof.
  revert m j; induction l as [|h t IH]; intros m j H.
  - rewrite firstn_nil. reflexivity.
  - destruct m as [|m]; [lia|]. destruct j as [|j]; simpl; [reflexivity|]. apply IH. lia.
Qed.

Lemma r_nth_skipn {A} (l : list A) n m d : nth m (skipn n l) d = nth (n + m) l d.
Proof.
  revert l; induction n as [|n IH]; intros l; simpl; [reflexivity|].
  destruct l as [|h t]; [destruct m; reflexivity|]. apply IH.
Qed.

Lemma r_skipn_skipn {A} (l : list A) n m : skipn m (skipn n l) = skipn (n + m) l.
Proof.
  revert l; induction n as [|n IH]; intros l; simpl; [reflexivity|].
  destruct l as [|h t]; [apply skipn_nil|]. apply IH.
Qed.

Lemma r_firstn_app_exact {A} (l1 l2 : list A) m : length l1 = m -> firstn m (l1 ++ l2) = l1.
Proof.
  intros <-. rewrite firstn_app, Nat.sub_diag, firstn_all. simpl. apply app_nil_r.
Qed.

Lemma r_eq_map_nth (f : Z -> Z) (out ps : list Z) :
  length out = length ps ->
  (forall j, (j < length ps)%nat -> nth j out 0 = f (nth j ps 0)) -> out = map f ps.
Proof.
  intros Hlen Hnth. apply (nth_ext _ _ 0 (f 0)).
  - rewrite map_length. exact Hlen.
  - intros j Hj. rewrite map_nth. apply Hnth. lia.
Qed.

Lemma r_incl_or_witness (ps T : list Z) : incl ps T \/ exists x, In x ps /\ ~ In x T.
Proof.
  induction ps as [|h t IH].
  - left. intros x Hx. destruct Hx.
  - destruct (In_dec Z.eq_dec h T) as [Hh|Hh].
    + destruct IH as [IH|[x [Hx1 Hx2]]].
      * left. intros x [Hx|Hx]; [subst; exact Hh|apply IH; exact Hx].
      * right. exists x. split; [right; exact Hx1|exact Hx2].
    + right. exists h. split; [left; reflexivity|exact Hh].
Qed.

(* the least element of T above e, if any *)
Lemma r_min_above (T : list Z) (e : Z) :
  (exists w, In w T /\ e < w /\ forall w', In w' T -> e < w' -> w <= w') \/
  (forall p, In p T -> p <= e).
Proof.
  induction T as [|x T IH].
  - right. intros p Hp. destruct Hp.
  - destruct IH as [[w [Hw1 [Hw2 Hw3]]]|IH].
    + left. destruct (Z_lt_dec e x) as [Hex|Hex].
      * destruct (Z_lt_dec x w) as [Hxw|Hxw].
        -- exists x. split; [left; reflexivity|]. split; [exact Hex|].
           intros w' [Hw'|Hw'] He; [lia|]. specialize (Hw3 w' Hw' He). lia.
        -- exists w. split; [right; exact Hw1|]. split; [exact Hw2|].
           intros w' [Hw'|Hw'] He; [lia|]. apply Hw3; assumption.
      * exists w. split; [right; exact Hw1|]. split; [exact Hw2|].
        intros w' [Hw'|Hw'] He; [lia|]. apply Hw3; assumption.
    + destruct (Z_lt_dec e x) as [Hex|Hex].
      * left. exists x. split; [left; reflexivity|]. split; [exact Hex|].
        intros w' [Hw'|Hw'] He; [lia|]. specialize (IH w' Hw'). lia.
      * right. intros p [Hp|Hp]; [lia|apply IH; exact Hp].
Qed.

(* ------------------------------------------------------------------ [0, j) as a list *)

Definition iota (j : nat) : list Z := map Z.of_nat (seq 0 j).

Lemma iota_length j : length (iota j) = j.
Proof. unfold iota. rewrite map_length, seq_length. reflexivity. Qed.

Lemma iota_S j : iota (S j) = iota j ++ [Z.of_nat j].
Proof. unfold iota. rewrite seq_S, map_app. reflexivity. Qed.

Lemma In_iota j p : In p (iota j) <-> 0 <= p < Z.of_nat j.
Proof.
  unfold iota. rewrite in_map_iff. split.
  - intros [x [Hx Hin]]. apply in_seq in Hin. lia.
  - intros H. exists (Z.to_nat p). split; [lia|]. apply in_seq. lia.
Qed.

Lemma NoDup_iota j : NoDup (iota j).
Proof.
  unfold iota. apply FinFun.Injective_map_NoDup; [|apply seq_NoDup].
  intros x y H. lia.
Qed.

Lemma iota_upd j d : upd (iota j ++ repeat 0 (S d)) j (Z.of_nat j) = iota (S j) ++ repeat 0 d.
Proof.
  simpl repeat. rewrite <- (iota_length j) at 2. rewrite r_upd_app_len.
  rewrite iota_S, <- app_assoc. reflexivity.
Qed.

(* ------------------------------------------------------------------ Shuffle *)

Lemma zlen_upd_r {A} (l : list A) n x : zlen (upd l n x) = zlen l.
Proof. unfold zlen; rewrite upd_length; reflexivity. Qed.

Lemma zlen_swap l i j : zlen (swap l i j) = zlen l.
Proof. unfold swap, zupd. rewrite !zlen_upd_r. reflexivity. Qed.

Lemma swap_nat_perm (l : list Z) i j :
  (i < length l)%nat -> (j < length l)%nat ->
  Permutation (upd (upd l i (nth j l 0)) j (nth i l 0)) l.
Proof.
  intros Hi Hj.
  assert (H1 : Permutation (nth j l 0 :: l) (nth i l 0 :: upd l i (nth j l 0))).
  { apply r_perm_upd. apply nth_error_nth'. exact Hi. }
  assert (Hj1 : nth_error (upd l i (nth j l 0)) j = Some (nth j l 0)).
  { destruct (Nat.eq_dec i j) as [E|E].
    - subst j. apply nth_error_upd_same. exact Hi.
    - rewrite nth_error_upd_other by exact E. apply nth_error_nth'. exact Hj. }
  assert (H2 : Permutation (nth i l 0 :: upd l i (nth j l 0))
                           (nth j l 0 :: upd (upd l i (nth j l 0)) j (nth i l 0))).
  { apply r_perm_upd. exact Hj1. }
  apply Permutation_sym. eapply Permutation_cons_inv.
  eapply perm_trans; [exact H1|exact H2].
Qed.

Lemma swap_perm_z l i j : 0 <= i < zlen l -> 0 <= j < zlen l -> Permutation (swap l i j) l.
Proof.
  intros Hi Hj. unfold swap, zupd, znth. unfold zlen in *. apply swap_nat_perm; lia.
Qed.

Lemma swap_map (f : Z -> Z) l i j :
  0 <= i < zlen l -> 0 <= j < zlen l -> swap (map f l) i j = map f (swap l i j).
Proof.
  intros Hi Hj. unfold swap, zupd, znth. unfold zlen in *.
  rewrite !r_map_upd.
  assert (Hn : forall m, (m < length l)%nat -> nth m (map f l) 0 = f (nth m l 0)).
  { intros m Hm. rewrite (nth_indep (map f l) 0 (f 0)) by (rewrite map_length; exact Hm).
    apply map_nth. }
  rewrite !Hn by lia. reflexivity.
Qed.

Lemma swaps_guard i j (a : list Z) :
  ((0 <=? i) && (i <? zlen a) && (0 <=? j) && (j <? zlen a) = true) <->
  (0 <= i < zlen a /\ 0 <= j < zlen a).
Proof.
  rewrite !andb_true_iff, !Z.leb_le, !Z.ltb_lt. lia.
Qed.

Lemma apply_swaps_perm : forall sw a b,
    apply_swaps sw a = Ok b -> Permutation a b /\ zlen b = zlen a.
Proof.
  induction sw as [|[i j] t IH]; intros a b H; simpl in H.
  - injection H as <-. split; [apply Permutation_refl|reflexivity].
  - destruct ((0 <=? i) && (i <? zlen a) && (0 <=? j) && (j <? zlen a)) eqn:G; [|discriminate].
    apply swaps_guard in G. destruct G as [Gi Gj].
    destruct (IH _ _ H) as [Hp Hl]. split.
    + eapply perm_trans; [apply Permutation_sym, (swap_perm_z a i j Gi Gj)|exact Hp].
    + rewrite Hl. apply zlen_swap.
Qed.

Lemma apply_swaps_total : forall sw a,
    (forall i j, In (i, j) sw -> 0 <= i < zlen a /\ 0 <= j < zlen a) ->
    exists b, apply_swaps sw a = Ok b.
Proof.
  induction sw as [|[i j] t IH]; intros a H; simpl.
  - exists a. reflexivity.
  - assert (G : 0 <= i < zlen a /\ 0 <= j < zlen a) by (apply H; left; reflexivity).
    apply swaps_guard in G. rewrite G.
    apply IH. intros i' j' Hin. rewrite zlen_swap. apply H. right. exact Hin.
Qed.

Lemma apply_swaps_map (f : Z -> Z) : forall sw l,
    apply_swaps sw (map f l) =
    match apply_swaps sw l with Ok b => Ok (map f b) | Panic c => Panic c end.
Proof.
  induction sw as [|[i j] t IH]; intros l; simpl; [reflexivity|].
  assert (Hl : zlen (map f l) = zlen l) by (unfold zlen; rewrite map_length; reflexivity).
  rewrite Hl.
  destruct ((0 <=? i) && (i <? zlen l) && (0 <=? j) && (j <? zlen l)) eqn:G; [|reflexivity].
  apply swaps_guard in G. destruct G as [Gi Gj].
  rewrite swap_map by assumption. apply IH.
Qed.

Theorem shuffle_permutation : forall sw a b, shuffle sw a = Ok b -> Permutation a b /\ zlen b = zlen a.
Proof. intros sw a b H. apply (apply_swaps_perm sw a b H). Qed.

Theorem shuffle_total : forall sw a,
    (forall i j, In (i, j) sw -> 0 <= i < zlen a /\ 0 <= j < zlen a) -> exists b, shuffle sw a = Ok b.
Proof. intros sw a H. apply (apply_swaps_total sw a H). Qed.

Example shuffle_example :
  shuffle [(0, 2); (1, 3); (2, 3)] [10; 20; 30; 40] = Ok [30; 40; 20; 10]
  /\ shuffle [(0, 4)] [10; 20; 30; 40] = Panic PIndex.
Proof. split; vm_compute; reflexivity. Qed.

(* ------------------------------------------------------------------ sampler.Next *)

(* the value of s.i / s.first after the "if s.first && s.i == s.k" adjustment *)
Definition eff (s : sampler) : Z := if s_first s && (s_i s =? s_k s) then s_i s - 1 else s_i s.
Definition efirst (s : sampler) : bool := if s_first s && (s_i s =? s_k s) then false else s_first s.

Lemma next_lt o s : s_i s < s_k s ->
  next o s = Ok (s_i s, s_i s, mkSampler (s_i s + 1) (s_first s) (s_k s) (s_t s)).
Proof.
  intros H. unfold next. apply Z.ltb_lt in H. rewrite H. reflexivity.
Qed.

Lemma next_ge_stop o s : s_k s <= s_i s -> o (s_t s) = DStop ->
  next o s = Ok (max_int, 0, mkSampler (eff s) (efirst s) (s_k s) (S (s_t s))).
Proof.
  intros H Ho. unfold next, eff, efirst. apply Z.ltb_ge in H. rewrite H, Ho.
  destruct (s_first s && (s_i s =? s_k s)); reflexivity.
Qed.

Lemma next_ge_skip o s skip repl : s_k s <= s_i s -> o (s_t s) = DSkip skip repl -> 0 < s_k s ->
  next o s = Ok (eff s + skip + 1, repl,
                 mkSampler (eff s + skip + 1) (efirst s) (s_k s) (S (s_t s))).
Proof.
  intros H Ho Hk. unfold next, eff, efirst. apply Z.ltb_ge in H. rewrite H, Ho.
  assert (Hk' : (s_k s <=? 0) = false) by (apply Z.leb_gt; exact Hk). rewrite Hk'.
  destruct (s_first s && (s_i s =? s_k s)); reflexivity.
Qed.

Lemma next_ge_skip_panic o s skip repl : s_k s <= s_i s -> o (s_t s) = DSkip skip repl -> s_k s <= 0 ->
  next o s = Panic POther.
Proof.
  intros H Ho Hk. unfold next. apply Z.ltb_ge in H. rewrite H, Ho.
  apply Z.leb_le in Hk. rewrite Hk.
  destruct (s_first s && (s_i s =? s_k s)); reflexivity.
Qed.

Lemma next_ge_inv o s nx rp s' : s_k s <= s_i s -> next o s = Ok (nx, rp, s') ->
  s_k s' = s_k s /\ s_first s' = efirst s.
Proof.
  intros H Hn. destruct (o (s_t s)) as [|skip repl] eqn:Ho.
  - rewrite (next_ge_stop o s H Ho) in Hn. injection Hn as _ _ <-. split; reflexivity.
  - destruct (Z_lt_dec 0 (s_k s)) as [Hk|Hk].
    + rewrite (next_ge_skip o s skip repl H Ho Hk) in Hn. injection Hn as _ _ <-. split; reflexivity.
    + rewrite (next_ge_skip_panic o s skip repl H Ho) in Hn by lia. discriminate.
Qed.

Lemma efirst_false_eff s : efirst s = false -> eff s = if s_first s then s_i s - 1 else s_i s.
Proof.
  unfold efirst, eff. destruct (s_first s); simpl; [|reflexivity].
  destruct (s_i s =? s_k s); [reflexivity|discriminate].
Qed.

Lemma zset_in_range (l : list Z) i x : 0 <= i < zlen l -> zset l i x = Some (upd l (Z.to_nat i) x).
Proof.
  intros H. unfold zset.
  assert (E1 : (i <? 0) = false) by (apply Z.ltb_ge; lia).
  assert (E2 : (zlen l <=? i) = false) by (apply Z.leb_gt; lia).
  rewrite E1, E2. reflexivity.
Qed.

(* ------------------------------------------------------------------ the loop of rSample (positions) *)

(* invariant: either still filling the reservoir, or past it (after the adjustment of Next) *)
Definition InvP (n k : Z) (s : sampler) (ps : list Z) : Prop :=
  s_k s = k /\ zlen ps = k /\
  ((s_first s = true /\ 0 <= s_i s < k /\ s_i s <= n /\
    ps = iota (Z.to_nat (s_i s)) ++ repeat 0 (Z.to_nat (k - s_i s)))
   \/
   (k <= s_i s /\ efirst s = false /\ k - 1 <= eff s < n /\ NoDup ps /\
    forall p, In p ps -> 0 <= p <= eff s)).

Definition mu (n : Z) (s : sampler) : Z :=
  if s_i s <? s_k s then n - s_i s + 1 else n - eff s.

Definition FinalP (n k : Z) (ps : list Z) : Prop :=
  zlen ps = k /\
  (n < k -> zfirstn n ps = iota (Z.to_nat n)) /\
  (k <= n -> NoDup ps /\ forall p, In p ps -> 0 <= p < n).

Lemma InvP_init n k : 0 <= k -> 0 <= n -> InvP n k (new_sampler k) (zeros k).
Proof.
  intros Hk Hn. unfold InvP, new_sampler, zeros, zrepeat; simpl.
  split; [reflexivity|]. split; [unfold zlen; rewrite repeat_length; lia|].
  destruct (Z.eq_dec k 0) as [E|E].
  - right. subst k. unfold efirst, eff; simpl. split; [lia|]. split; [reflexivity|].
    split; [lia|]. split; [constructor|]. intros p Hp. destruct Hp.
  - left. split; [reflexivity|]. split; [lia|]. split; [lia|].
    rewrite Z.sub_0_r. reflexivity.
Qed.

Lemma pos_loop o n k : 0 <= k -> 0 <= n <= max_int -> oracle_ok o k ->
  forall fuel s ps, InvP n k s ps -> mu n s <= Z.of_nat fuel ->
  exists ps', sample_loop o (fun x => x) fuel n s ps = Ok ps' /\ FinalP n k ps'.
Proof.
  intros Hk Hn Hok. induction fuel as [|fu IH]; intros s ps Hinv Hmu.
  - exfalso. unfold mu in Hmu. destruct Hinv as [Hsk [Hlen [[Hf [Hi [Hin Hps]]]|[Hi [Hef [He _]]]]]].
    + assert (E : (s_i s <? s_k s) = true) by (apply Z.ltb_lt; lia). rewrite E in Hmu. simpl in Hmu. lia.
    + assert (E : (s_i s <? s_k s) = false) by (apply Z.ltb_ge; lia). rewrite E in Hmu. simpl in Hmu. lia.
  - destruct Hinv as [Hsk [Hlen [[Hf [Hi [Hin Hps]]]|[Hi [Hef [He [Hnd Hrange]]]]]]].
    + (* reservoir phase *)
      simpl. rewrite next_lt by lia. simpl.
      destruct (s_i s >=? n) eqn:Eg.
      * (* n < k: all of [0, n) is in the reservoir *)
        apply Z.geb_le in Eg. assert (Hin' : s_i s = n) by lia.
        exists ps. split; [reflexivity|]. split; [exact Hlen|]. split; [|intros; lia].
        intros _. rewrite Hps. unfold zfirstn. rewrite <- Hin'.
        apply r_firstn_app_exact. apply iota_length.
      * assert (Hlt : s_i s < n) by (rewrite Z.geb_leb in Eg; apply Z.leb_gt in Eg; lia).
        rewrite zset_in_range by lia.
        assert (Hps' : upd ps (Z.to_nat (s_i s)) (s_i s)
                       = iota (S (Z.to_nat (s_i s))) ++ repeat 0 (Z.to_nat (k - (s_i s + 1)))).
        { rewrite Hps.
          replace (Z.to_nat (k - s_i s)) with (S (Z.to_nat (k - (s_i s + 1)))) by lia.
          pose proof (iota_upd (Z.to_nat (s_i s)) (Z.to_nat (k - (s_i s + 1)))) as X.
          rewrite Z2Nat.id in X by lia. exact X. }
        apply IH.
        -- unfold InvP; simpl. split; [exact Hsk|]. split; [rewrite zlen_upd_r; exact Hlen|].
           destruct (Z.eq_dec (s_i s + 1) k) as [E|E].
           ++ right. unfold efirst, eff; simpl. rewrite Hf, Hsk.
              assert (E' : (s_i s + 1 =? k) = true) by (apply Z.eqb_eq; exact E). rewrite E'. simpl.
              split; [lia|]. split; [reflexivity|]. split; [lia|].
              rewrite Hps'. replace (Z.to_nat (k - (s_i s + 1))) with O by lia.
              cbn [repeat]. rewrite app_nil_r. split; [apply NoDup_iota|].
              intros p Hp. apply In_iota in Hp. lia.
           ++ left. split; [exact Hf|]. split; [lia|]. split; [lia|].
              rewrite Hps'. replace (Z.to_nat (s_i s + 1)) with (S (Z.to_nat (s_i s))) by lia.
              reflexivity.
        -- unfold mu in *; simpl.
           assert (E : (s_i s <? s_k s) = true) by (apply Z.ltb_lt; lia). rewrite E in Hmu.
           destruct (s_i s + 1 <? s_k s) eqn:E2; [lia|].
           apply Z.ltb_ge in E2. unfold eff; simpl. rewrite Hf.
           assert (E' : (s_i s + 1 =? s_k s) = true) by (apply Z.eqb_eq; lia). rewrite E'. simpl. lia.
    + (* past the reservoir *)
      assert (Hfin : FinalP n k ps).
      { split; [exact Hlen|]. split; [intros; lia|]. intros _. split; [exact Hnd|].
        intros p Hp. specialize (Hrange p Hp). lia. }
      assert (Hmu' : n - eff s <= Z.of_nat (S fu)).
      { unfold mu in Hmu. assert (E : (s_i s <? s_k s) = false) by (apply Z.ltb_ge; lia).
        rewrite E in Hmu. exact Hmu. }
      simpl. destruct (o (s_t s)) as [|skip repl] eqn:Ho.
      * rewrite next_ge_stop by (assumption || lia). simpl.
        assert (Eg : (max_int >=? n) = true) by (rewrite Z.geb_leb; apply Z.leb_le; lia).
        rewrite Eg. exists ps. split; [reflexivity|exact Hfin].
      * pose proof (Hok (s_t s)) as Hd. rewrite Ho in Hd. destruct Hd as [Hskip Hrepl].
        rewrite (next_ge_skip o s skip repl) by (assumption || lia). simpl.
        destruct (eff s + skip + 1 >=? n) eqn:Eg.
        -- exists ps. split; [reflexivity|exact Hfin].
        -- assert (Hlt : eff s + skip + 1 < n) by (rewrite Z.geb_leb in Eg; apply Z.leb_gt in Eg; lia).
           rewrite zset_in_range by lia.
           apply IH.
           ++ unfold InvP; simpl. split; [exact Hsk|]. split; [rewrite zlen_upd_r; exact Hlen|].
              right. unfold efirst, eff; simpl. fold (efirst s). rewrite Hef. simpl.
              fold (eff s).
              split; [lia|]. split; [reflexivity|]. split; [lia|]. split.
              ** apply r_NoDup_upd; [exact Hnd|]. intros Hin. specialize (Hrange _ Hin). lia.
              ** intros p Hp. apply r_In_upd in Hp. destruct Hp as [Hp|Hp]; [lia|].
                 specialize (Hrange _ Hp). lia.
           ++ unfold mu; simpl.
              assert (E : (eff s + skip + 1 <? s_k s) = false) by (apply Z.ltb_ge; lia).
              rewrite E. unfold eff at 1; simpl. fold (efirst s). rewrite Hef. simpl. lia.
Qed.

(* ------------------------------------------------------------------ rSample *)

(* out = out[:n] when n < k *)
Definition trunc (n k : Z) (ps : list Z) : list Z := if n <? k then zfirstn n ps else ps.

Lemma mu_init n k : 0 <= k -> 0 <= n -> mu n (new_sampler k) <= Z.of_nat (S (Z.to_nat n)).
Proof.
  intros Hk Hn. unfold mu, new_sampler, eff; cbn [s_i s_k s_first andb].
  destruct (0 <? k) eqn:E; [lia|]. apply Z.ltb_ge in E.
  assert (E' : (0 =? k) = true) by (apply Z.eqb_eq; lia). rewrite E'. lia.
Qed.

Lemma positions_ok_perm n a b : Permutation a b -> positions_ok n a -> positions_ok n b.
Proof.
  intros Hp [Hnd Hr]. split; [eapply Permutation_NoDup; eassumption|].
  intros p Hin. apply Hr. eapply Permutation_in; [apply Permutation_sym; exact Hp|exact Hin].
Qed.

Lemma FinalP_trunc n k ps : 0 <= k -> 0 <= n -> FinalP n k ps ->
  zlen (trunc n k ps) = Z.min k n /\ positions_ok n (trunc n k ps).
Proof.
  intros Hk Hn [Hlen [Hlt Hge]]. unfold trunc. destruct (n <? k) eqn:E.
  - apply Z.ltb_lt in E. rewrite (Hlt E). split.
    + unfold zlen. rewrite iota_length. lia.
    + split; [apply NoDup_iota|]. intros p Hp. apply In_iota in Hp. lia.
  - apply Z.ltb_ge in E. destruct (Hge E) as [Hnd Hr]. split; [lia|]. split; assumption.
Qed.

(* rsample = the loop, the truncation, the shuffle *)
Lemma rsample_unfold o sw n k : 0 <= k -> 0 <= n ->
  rsample o sw n k =
  pbind (sample_loop o (fun x => x) (S (Z.to_nat n)) n (new_sampler k) (zeros k))
        (fun out => shuffle sw (trunc n k out)).
Proof.
  intros Hk Hn. unfold rsample, trunc.
  assert (E1 : (k <? 0) = false) by (apply Z.ltb_ge; lia).
  assert (E2 : (n <? 0) = false) by (apply Z.ltb_ge; lia).
  rewrite E1, E2.
  destruct (sample_loop o (fun x => x) (S (Z.to_nat n)) n (new_sampler k) (zeros k)); simpl; [|reflexivity].
  destruct (n <? k); reflexivity.
Qed.

Theorem rsample_structure : forall o sw n k res, 0 <= k -> 0 <= n <= max_int -> oracle_ok o k ->
    rsample o sw n k = Ok res -> zlen res = Z.min k n /\ positions_ok n res.
Proof.
  intros o sw n k res Hk Hn Hok H.
  rewrite rsample_unfold in H by lia.
  destruct (pos_loop o n k Hk Hn Hok (S (Z.to_nat n)) (new_sampler k) (zeros k))
    as [ps' [Hloop Hfin]]; [apply InvP_init; lia|apply mu_init; lia|].
  rewrite Hloop in H. simpl in H.
  destruct (FinalP_trunc n k ps' Hk (proj1 Hn) Hfin) as [Hl Hp].
  destruct (shuffle_permutation _ _ _ H) as [Hperm Hlen].
  split; [rewrite Hlen; exact Hl|]. eapply positions_ok_perm; eassumption.
Qed.

Theorem rsample_total : forall o sw n k, 0 <= k -> 0 <= n <= max_int -> oracle_ok o k ->
    (forall i j, In (i, j) sw -> 0 <= i < Z.min k n /\ 0 <= j < Z.min k n) ->
    exists res, rsample o sw n k = Ok res.
Proof.
  intros o sw n k Hk Hn Hok Hsw.
  rewrite rsample_unfold by lia.
  destruct (pos_loop o n k Hk Hn Hok (S (Z.to_nat n)) (new_sampler k) (zeros k))
    as [ps' [Hloop Hfin]]; [apply InvP_init; lia|apply mu_init; lia|].
  rewrite Hloop. simpl.
  destruct (FinalP_trunc n k ps' Hk (proj1 Hn) Hfin) as [Hl Hp].
  apply shuffle_total. rewrite Hl. exact Hsw.
Qed.

Theorem rsample_negative_k : forall o sw n k, k < 0 -> rsample o sw n k = Panic PNeg.
Proof.
  intros o sw n k Hk. unfold rsample. apply Z.ltb_lt in Hk. rewrite Hk. reflexivity.
Qed.

(* a concrete oracle: two replacements, then "skip is infinite" *)
Definition ex_oracle : oracle :=
  fun t => match t with O => DSkip 1 0 | S O => DSkip 2 2 | _ => DStop end.

Lemma ex_oracle_ok : oracle_ok ex_oracle 3.
Proof. intros [|[|t]]; simpl; lia. Qed.

(* n < 0: [0, n) is empty; after the repair (2ff431c) the result is the empty list, whatever the oracle answers
   (before it, out[:n] panicked: Panic PIndex) *)
Example rsample_negative_n_example :
  rsample ex_oracle [] (-1) 3 = Ok [] /\ rsample (fun _ => DStop) [] (-5) 0 = Ok [] /\ rsample ex_oracle [] (-1) 1 = Ok [].
Proof. vm_compute. repeat split; reflexivity. Qed.

Example rsample_example :
  rsample ex_oracle [(0, 1)] 10 3 = Ok [1; 4; 7]
  /\ rsample ex_oracle [] 2 3 = Ok [0; 1]
  /\ rsample ex_oracle [(0, 5)] 10 3 = Panic PIndex
  /\ rsample ex_oracle [] 10 (-1) = Panic PNeg.
Proof. repeat split; vm_compute; reflexivity. Qed.

(* ------------------------------------------------------------------ rSampleSlice vs rSample *)

(* the run over items agrees with the run over positions on the slots already written *)
Definition relF (f : Z -> Z) (s : sampler) (ps out : list Z) : Prop :=
  length out = length ps /\ s_k s = zlen ps /\ (s_first s = true -> 0 <= s_i s <= s_k s) /\
  forall j, (j < length ps)%nat -> (s_first s = true -> Z.of_nat j < s_i s) ->
            nth j out 0 = f (nth j ps 0).

Lemma rel_loop o (f : Z -> Z) n : forall fuel s ps out, relF f s ps out ->
  match sample_loop o (fun x => x) fuel n s ps with
  | Ok ps' => exists out', sample_loop o f fuel n s out = Ok out' /\
                           length out' = length ps' /\ length ps' = length ps /\
                           forall j, (j < length ps')%nat -> Z.of_nat j < n ->
                                     nth j out' 0 = f (nth j ps' 0)
  | Panic c => sample_loop o f fuel n s out = Panic c
  end.
Proof.
  induction fuel as [|fu IH]; intros s ps out Hrel; [reflexivity|].
  destruct Hrel as [Hlen [Hsk [Hfi Hag]]].
  simpl. destruct (next o s) as [[[nx rp] s']|c] eqn:En; simpl; [|reflexivity].
  destruct (nx >=? n) eqn:Eg.
  - (* the loop ends *)
    exists out. split; [reflexivity|]. split; [exact Hlen|]. split; [reflexivity|].
    intros j Hj Hjn. apply Hag; [exact Hj|]. intros Hf. specialize (Hfi Hf).
    destruct (Z_lt_dec (s_i s) (s_k s)) as [Hlt|Hge].
    + rewrite next_lt in En by exact Hlt. injection En as <- _ _.
      apply Z.geb_le in Eg. lia.
    + unfold zlen in Hsk. lia.
  - unfold zset. unfold zlen. rewrite Hlen.
    destruct ((rp <? 0) || (Z.of_nat (length ps) <=? rp)) eqn:Er; [reflexivity|].
    apply orb_false_iff in Er. destruct Er as [Er1 Er2].
    apply Z.ltb_ge in Er1. apply Z.leb_gt in Er2.
    assert (Hrel' : relF f s' (upd ps (Z.to_nat rp) nx) (upd out (Z.to_nat rp) (f nx))).
    { unfold relF. rewrite !upd_length, zlen_upd_r.
      destruct (Z_lt_dec (s_i s) (s_k s)) as [Hlt|Hge].
      - rewrite next_lt in En by exact Hlt. injection En as <- <- <-. simpl.
        split; [exact Hlen|]. split; [exact Hsk|]. split; [intros Hf; specialize (Hfi Hf); lia|].
        intros j Hj Hjf.
        destruct (Nat.eq_dec (Z.to_nat (s_i s)) j) as [E|E].
        + subst j. rewrite !r_nth_upd_same by lia. reflexivity.
        + rewrite !r_nth_upd_other by exact E. apply Hag; [exact Hj|].
          intros Hf. specialize (Hjf Hf). lia.
      - destruct (next_ge_inv o s nx rp s' (proj1 (Z.nlt_ge _ _) Hge) En) as [Hk' Hf'].
        split; [exact Hlen|]. split; [rewrite Hk'; exact Hsk|].
        assert (Hff : s_first s' = true -> False).
        { intros Hf. rewrite Hf' in Hf. unfold efirst in Hf.
          destruct (s_first s) eqn:Hfs; simpl in Hf; [|discriminate].
          specialize (Hfi eq_refl).
          assert (E : (s_i s =? s_k s) = true) by (apply Z.eqb_eq; lia).
          rewrite E in Hf. discriminate. }
        split; [intros Hf; destruct (Hff Hf)|].
        intros j Hj _.
        destruct (Nat.eq_dec (Z.to_nat rp) j) as [E|E].
        + subst j. rewrite !r_nth_upd_same by lia. reflexivity.
        + rewrite !r_nth_upd_other by exact E. apply Hag; [exact Hj|].
          intros Hf. specialize (Hfi Hf). unfold zlen in Hsk. lia. }
    specialize (IH s' _ _ Hrel').
    destruct (sample_loop o (fun x => x) fu n s' (upd ps (Z.to_nat rp) nx)) as [ps'|c]; [|exact IH].
    destruct IH as [out' [H1 [H2 [H3 H4]]]]. exists out'.
    split; [exact H1|]. split; [exact H2|]. split; [rewrite H3; apply upd_length|exact H4].
Qed.

Lemma relF_init f k : 0 <= k -> relF f (new_sampler k) (zeros k) (zeros k).
Proof.
  intros Hk. unfold relF, new_sampler, zeros, zrepeat, zlen; simpl.
  rewrite repeat_length. split; [reflexivity|]. split; [lia|]. split; [intros; lia|].
  intros j Hj Hf. specialize (Hf eq_refl). lia.
Qed.

Lemma trunc_map (f : Z -> Z) n k (ps out : list Z) : 0 <= n -> 0 <= k ->
  length out = length ps -> zlen ps = k ->
  (forall j, (j < length ps)%nat -> Z.of_nat j < n -> nth j out 0 = f (nth j ps 0)) ->
  trunc n k out = map f (trunc n k ps).
Proof.
  intros Hn Hk Hlen Hps Hag. unfold trunc, zfirstn. unfold zlen in Hps.
  destruct (n <? k) eqn:E.
  - apply Z.ltb_lt in E. apply r_eq_map_nth.
    + rewrite !firstn_length. lia.
    + intros j Hj. rewrite firstn_length in Hj.
      rewrite !r_nth_firstn by lia. apply Hag; lia.
  - apply Z.ltb_ge in E. apply r_eq_map_nth; [exact Hlen|].
    intros j Hj. apply Hag; lia.
Qed.

Lemma rsample_slice_unfold o sw a k : 0 <= k ->
  rsample_slice o sw a k =
  pbind (sample_loop o (znth a) (S (Z.to_nat (zlen a))) (zlen a) (new_sampler k) (zeros k))
        (fun out => shuffle sw (trunc (zlen a) k out)).
Proof.
  intros Hk. unfold rsample_slice, trunc.
  assert (E1 : (k <? 0) = false) by (apply Z.ltb_ge; lia). rewrite E1.
  replace (Z.to_nat (zlen a)) with (length a) by (unfold zlen; lia). reflexivity.
Qed.

(* the slice variant is the position variant followed by a[.] *)
Lemma slice_vs_pos o sw a k : 0 <= k ->
  rsample_slice o sw a k =
  match rsample o sw (zlen a) k with Ok ps => Ok (map (znth a) ps) | Panic c => Panic c end.
Proof.
  intros Hk. pose proof (zlen_nonneg a) as Hn.
  rewrite rsample_slice_unfold by exact Hk. rewrite rsample_unfold by lia.
  pose proof (rel_loop o (znth a) (zlen a) (S (Z.to_nat (zlen a))) _ _ _ (relF_init (znth a) k Hk)) as H.
  destruct (sample_loop o (fun x => x) (S (Z.to_nat (zlen a))) (zlen a) (new_sampler k) (zeros k))
    as [ps'|c] eqn:Ep.
  - destruct H as [out' [H1 [H2 [H3 H4]]]]. rewrite H1. simpl.
    assert (Hps : zlen ps' = k).
    { unfold zlen. rewrite H3. unfold zeros, zrepeat. rewrite repeat_length. lia. }
    rewrite (trunc_map (znth a) (zlen a) k ps' out' Hn Hk H2 Hps H4).
    unfold shuffle. apply apply_swaps_map.
  - rewrite H. reflexivity.
Qed.

Theorem rsample_slice_positions : forall o sw a k ps, 0 <= k -> zlen a <= max_int -> oracle_ok o k ->
    rsample o sw (zlen a) k = Ok ps ->
    rsample_slice o sw a k = Ok (map (znth a) ps).
Proof.
  intros o sw a k ps Hk _ _ H. rewrite slice_vs_pos by exact Hk. rewrite H. reflexivity.
Qed.

Theorem rsample_slice_structure : forall o sw a k res, 0 <= k -> zlen a <= max_int -> oracle_ok o k ->
    rsample_slice o sw a k = Ok res ->
    exists ps, res = map (znth a) ps /\ zlen ps = Z.min k (zlen a) /\ positions_ok (zlen a) ps.
Proof.
  intros o sw a k res Hk Ha Hok H. rewrite slice_vs_pos in H by exact Hk.
  destruct (rsample o sw (zlen a) k) as [ps|c] eqn:Ep; [|discriminate].
  injection H as <-. exists ps. split; [reflexivity|].
  apply (rsample_structure o sw (zlen a) k ps Hk); [|exact Hok|exact Ep].
  split; [apply zlen_nonneg|exact Ha].
Qed.

Example rsample_slice_example :
  rsample_slice ex_oracle [(0, 1)] [100; 101; 102; 103; 104; 105; 106; 107; 108; 109] 3 = Ok [101; 104; 107]
  /\ rsample_slice ex_oracle [] [7; 8] 3 = Ok [7; 8].
Proof. split; vm_compute; reflexivity. Qed.

(* ------------------------------------------------------------------ rSampleIterator vs rSampleSlice *)

Lemma iter_inner_spec : forall items i nx, i <= nx ->
  iter_inner items i nx =
  if nx <? i + zlen items
  then (Some (nth (Z.to_nat (nx - i)) items 0, skipn (S (Z.to_nat (nx - i))) items, nx + 1), nx + 1)
  else (None, i + zlen items).
Proof.
  induction items as [|x t IH]; intros i nx Hle.
  - simpl. change (zlen (@nil Z)) with 0. rewrite Z.add_0_r.
    assert (E : (nx <? i) = false) by (apply Z.ltb_ge; lia). rewrite E. reflexivity.
  - simpl iter_inner. rewrite zlen_cons. destruct (i =? nx) eqn:E.
    + apply Z.eqb_eq in E. subst nx.
      assert (E' : (i <? i + (1 + zlen t)) = true) by (apply Z.ltb_lt; pose proof (zlen_nonneg t); lia).
      rewrite E'. rewrite Z.sub_diag. reflexivity.
    + apply Z.eqb_neq in E. rewrite IH by lia.
      replace (i + 1 + zlen t) with (i + (1 + zlen t)) by lia.
      destruct (nx <? i + (1 + zlen t)); [|reflexivity].
      replace (Z.to_nat (nx - i)) with (S (Z.to_nat (nx - (i + 1)))) by lia.
      reflexivity.
Qed.

Lemma iter_inner_a (a : list Z) i nx : 0 <= i <= nx -> i <= zlen a ->
  iter_inner (skipn (Z.to_nat i) a) i nx =
  if nx <? zlen a
  then (Some (znth a nx, skipn (Z.to_nat (nx + 1)) a, nx + 1), nx + 1)
  else (None, zlen a).
Proof.
  intros Hi Ha. rewrite iter_inner_spec by lia.
  assert (Hl : i + zlen (skipn (Z.to_nat i) a) = zlen a).
  { unfold zlen in *. rewrite skipn_length. lia. }
  rewrite Hl. destruct (nx <? zlen a) eqn:E; [|reflexivity].
  rewrite r_nth_skipn, r_skipn_skipn. unfold znth.
  replace (Z.to_nat i + Z.to_nat (nx - i))%nat with (Z.to_nat nx) by lia.
  replace (Z.to_nat i + S (Z.to_nat (nx - i)))%nat with (Z.to_nat (nx + 1)) by lia.
  reflexivity.
Qed.

(* the item counter i of rSampleIterator in terms of the sampler state *)
Definition irel (s : sampler) (i : Z) : Prop :=
  (s_first s = true /\ s_i s <= s_k s /\ i = s_i s) \/
  (s_first s = false /\ s_k s <= s_i s /\ i = s_i s + 1).

Lemma iter_loop o (a : list Z) k : oracle_ok o k -> zlen a <= max_int ->
  forall fuel s out i, s_k s = k -> irel s i -> 0 <= i <= zlen a ->
  iter_outer o fuel (skipn (Z.to_nat i) a) i s out =
  match sample_loop o (znth a) fuel (zlen a) s out with
  | Ok out' => Ok (out', zlen a)
  | Panic c => Panic c
  end.
Proof.
  intros Hok Ha. induction fuel as [|fu IH]; intros s out i Hsk Hir Hi; [reflexivity|].
  simpl. destruct (Z_lt_dec (s_i s) (s_k s)) as [Hlt|Hge].
  - (* reservoir phase: next = i *)
    rewrite next_lt by exact Hlt. simpl.
    assert (Hii : i = s_i s) by (destruct Hir as [[_ [_ E]]|[_ [Hc _]]]; [exact E|lia]).
    assert (Hf : s_first s = true) by (destruct Hir as [[E _]|[_ [Hc _]]]; [exact E|lia]).
    rewrite <- Hii. rewrite iter_inner_a by lia.
    rewrite Z.geb_leb.
    destruct (i <? zlen a) eqn:E.
    + assert (E' : (zlen a <=? i) = false) by (apply Z.leb_gt; apply Z.ltb_lt in E; exact E).
      rewrite E'. destruct (zset out i (znth a i)) as [out1|]; [|reflexivity].
      apply IH; simpl; [exact Hsk| |apply Z.ltb_lt in E; lia].
      left. simpl. split; [exact Hf|]. split; lia.
    + assert (E' : (zlen a <=? i) = true) by (apply Z.leb_le; apply Z.ltb_ge in E; exact E).
      rewrite E'. reflexivity.
  - apply Z.nlt_ge in Hge.
    assert (Hef : efirst s = false).
    { unfold efirst. destruct Hir as [[Hf [Hle _]]|[Hf _]]; rewrite Hf; simpl; [|reflexivity].
      assert (E : (s_i s =? s_k s) = true) by (apply Z.eqb_eq; lia). rewrite E. reflexivity. }
    assert (Hie : i = eff s + 1 /\ s_k s - 1 <= eff s).
    { unfold eff. destruct Hir as [[Hf [Hle Hii]]|[Hf [Hle Hii]]]; rewrite Hf; simpl; [|lia].
      assert (E : (s_i s =? s_k s) = true) by (apply Z.eqb_eq; lia). rewrite E. lia. }
    destruct Hie as [Hie Hek].
    destruct (o (s_t s)) as [|skip repl] eqn:Ho.
    + rewrite next_ge_stop by assumption. simpl.
      rewrite iter_inner_a by lia.
      assert (E : (max_int <? zlen a) = false) by (apply Z.ltb_ge; exact Ha).
      assert (E' : (max_int >=? zlen a) = true) by (rewrite Z.geb_leb; apply Z.leb_le; exact Ha).
      rewrite E, E'. reflexivity.
    + pose proof (Hok (s_t s)) as Hd. rewrite Ho in Hd. destruct Hd as [Hskip Hrepl].
      rewrite (next_ge_skip o s skip repl) by (assumption || lia). simpl.
      rewrite iter_inner_a by lia.
      rewrite Z.geb_leb.
      destruct (eff s + skip + 1 <? zlen a) eqn:E.
      * assert (E' : (zlen a <=? eff s + skip + 1) = false) by (apply Z.leb_gt; apply Z.ltb_lt in E; exact E).
        rewrite E'. destruct (zset out repl (znth a (eff s + skip + 1))) as [out1|]; [|reflexivity].
        apply IH; simpl; [exact Hsk| |apply Z.ltb_lt in E; lia].
        right. simpl. split; [exact Hef|]. split; lia.
      * assert (E' : (zlen a <=? eff s + skip + 1) = true) by (apply Z.leb_le; apply Z.ltb_ge in E; exact E).
        rewrite E'. reflexivity.
Qed.

Theorem rsample_iterator_eq_slice : forall o sw items k, 0 <= k -> zlen items <= max_int -> oracle_ok o k ->
    rsample_iterator o sw items k = rsample_slice o sw items k.
Proof.
  intros o sw items k Hk Ha Hok. unfold rsample_iterator, rsample_slice.
  destruct (k <? 0); [reflexivity|].
  pose proof (iter_loop o items k Hok Ha (S (length items)) (new_sampler k) (zeros k) 0) as H.
  change (skipn (Z.to_nat 0) items) with items in H.
  rewrite H.
  - destruct (sample_loop o (znth items) (S (length items)) (zlen items) (new_sampler k) (zeros k));
      reflexivity.
  - reflexivity.
  - left. simpl. split; [reflexivity|]. split; [exact Hk|reflexivity].
  - pose proof (zlen_nonneg items). lia.
Qed.

Example rsample_iterator_example :
  rsample_iterator ex_oracle [(0, 1)] [100; 101; 102; 103; 104; 105; 106; 107; 108; 109] 3 = Ok [101; 104; 107]
  /\ rsample_iterator ex_oracle [] [7; 8] 3 = Ok [7; 8].
Proof. split; vm_compute; reflexivity. Qed.

(* ------------------------------------------------------------------ support: every k-subset is reachable *)
(* (existence of an oracle only; nothing about how likely it is) *)

Definition draw_ok (k : Z) (d : draw) : Prop :=
  match d with DStop => True | DSkip skip repl => 0 <= skip /\ 0 <= repl < k end.

Lemma draw_ok_nth k l t : Forall (draw_ok k) l -> draw_ok k (nth t l DStop).
Proof.
  intros H. revert t. induction H as [|d l Hd Hl IH]; intros [|t]; simpl; auto.
Qed.

(* the first k calls of Next fill the reservoir with 0 .. k-1 without consulting the oracle *)
Lemma reservoir_phase o n k fu t : k <= n -> forall d j, Z.of_nat (j + d) = k ->
  sample_loop o (fun x => x) (d + fu) n (mkSampler (Z.of_nat j) true k t) (iota j ++ repeat 0 d) =
  sample_loop o (fun x => x) fu n (mkSampler k true k t) (iota (Z.to_nat k)).
Proof.
  intros Hkn. induction d as [|d IH]; intros j Hj.
  - simpl. rewrite app_nil_r. rewrite Nat.add_0_r in Hj. rewrite <- Hj, Nat2Z.id. reflexivity.
  - simpl. rewrite next_lt by (simpl; lia). simpl.
    assert (Eg : (Z.of_nat j >=? n) = false) by (rewrite Z.geb_leb; apply Z.leb_gt; lia).
    rewrite Eg.
    rewrite zset_in_range
      by (unfold zlen; rewrite app_length, iota_length; simpl; rewrite repeat_length; lia).
    rewrite Nat2Z.id.
    pose proof (iota_upd j d) as X. simpl repeat in X. rewrite X.
    replace (Z.of_nat j + 1) with (Z.of_nat (S j)) by lia.
    apply IH. lia.
Qed.

(* past the reservoir: steer the loop towards the target set T *)
Lemma support_loop n k : n <= max_int ->
  forall fuel s ps T,
    s_k s = k -> s_k s <= s_i s -> efirst s = false -> k - 1 <= eff s < n ->
    n - eff s <= Z.of_nat fuel ->
    zlen ps = k -> NoDup ps -> (forall p, In p ps -> p <= eff s) ->
    NoDup T -> zlen T = k -> (forall p, In p T -> p < n) ->
    (forall p, In p T -> p <= eff s -> In p ps) ->
    exists l, Forall (draw_ok k) l /\
      forall o, (forall j, o (s_t s + j)%nat = nth j l DStop) ->
        exists res, sample_loop o (fun x => x) fuel n s ps = Ok res /\ Permutation res T.
Proof.
  intros Hmax. induction fuel as [|fu IH];
    intros s ps T Hsk Hge Hef He Hfuel Hlen Hnd Hps HndT HlenT HTn HTps; [lia|].
  destruct (r_min_above T (eff s)) as [[w [HwT [Hew Hwmin]]]|Hall].
  - (* w: the next position to take; x: a reservoir entry that is not wanted *)
    assert (Hwps : ~ In w ps) by (intros Hin; specialize (Hps _ Hin); lia).
    assert (Hx : exists x, In x ps /\ ~ In x T).
    { destruct (r_incl_or_witness ps T) as [Hincl|Hx]; [|exact Hx].
      exfalso. apply Hwps.
      assert (Hperm : Permutation ps T).
      { apply NoDup_Permutation_bis; [exact Hnd| |exact Hincl].
        unfold zlen in *. lia. }
      eapply Permutation_in; [apply Permutation_sym; exact Hperm|exact HwT]. }
    destruct Hx as [x [Hxps HxT]].
    destruct (In_nth ps x 0 Hxps) as [r [Hr Hrx]].
    assert (Hwn : w < n) by (apply HTn; exact HwT).
    assert (Hk0 : 0 < k) by (unfold zlen in Hlen; lia).
    set (s' := mkSampler (eff s + (w - eff s - 1) + 1) (efirst s) (s_k s) (S (s_t s))).
    assert (Hef' : efirst s' = false).
    { unfold efirst, s'; simpl. rewrite Hef. reflexivity. }
    assert (Heff' : eff s' = w).
    { unfold eff, s'; simpl. rewrite Hef. simpl. lia. }
    destruct (IH s' (upd ps r w) T) as [l' [Hl' Hrun]].
    + unfold s'; simpl. exact Hsk.
    + unfold s'; simpl. lia.
    + exact Hef'.
    + rewrite Heff'. lia.
    + rewrite Heff'. lia.
    + rewrite zlen_upd_r. exact Hlen.
    + apply r_NoDup_upd; assumption.
    + rewrite Heff'. intros p Hp. apply r_In_upd in Hp. destruct Hp as [Hp|Hp]; [lia|].
      specialize (Hps _ Hp). lia.
    + exact HndT.
    + exact HlenT.
    + exact HTn.
    + rewrite Heff'. intros p HpT Hpw.
      destruct (Z.eq_dec p w) as [E|E].
      * subst p. apply r_In_upd_same. exact Hr.
      * assert (Hpe : p <= eff s).
        { destruct (Z_le_dec p (eff s)) as [Hle|Hgt]; [exact Hle|].
          specialize (Hwmin p HpT). lia. }
        apply r_In_upd_other with (d := 0); [apply HTps; assumption|].
        rewrite Hrx. intros Epx. subst p. apply HxT. exact HpT.
    + exists (DSkip (w - eff s - 1) (Z.of_nat r) :: l'). split.
      * constructor; [|exact Hl']. simpl. unfold zlen in Hlen. lia.
      * intros o Ho.
        assert (Ho0 : o (s_t s) = DSkip (w - eff s - 1) (Z.of_nat r)).
        { specialize (Ho O). rewrite Nat.add_0_r in Ho. exact Ho. }
        simpl sample_loop.
        rewrite (next_ge_skip o s _ _ Hge Ho0) by lia. simpl pbind. fold s'.
        replace (eff s + (w - eff s - 1) + 1) with w by lia.
        assert (Eg : (w >=? n) = false) by (rewrite Z.geb_leb; apply Z.leb_gt; lia).
        rewrite Eg.
        rewrite zset_in_range by (unfold zlen; lia). rewrite Nat2Z.id.
        apply Hrun. intros j. unfold s'; simpl.
        replace (S (s_t s + j)) with (s_t s + S j)%nat by lia. rewrite Ho. reflexivity.
  - (* nothing left to take: the oracle says stop *)
    exists []. split; [constructor|]. intros o Ho.
    assert (Ho0 : o (s_t s) = DStop).
    { specialize (Ho O). rewrite Nat.add_0_r in Ho. exact Ho. }
    simpl sample_loop. rewrite (next_ge_stop o s Hge Ho0). simpl pbind.
    assert (Eg : (max_int >=? n) = true) by (rewrite Z.geb_leb; apply Z.leb_le; lia).
    rewrite Eg. exists ps. split; [reflexivity|].
    apply Permutation_sym. apply NoDup_Permutation_bis; [exact HndT| |].
    + unfold zlen in *. lia.
    + intros p Hp. apply HTps; [exact Hp|apply Hall; exact Hp].
Qed.

Theorem rsample_support_partial : forall n k S, 0 <= k <= n -> n <= max_int -> positions_ok n S -> zlen S = k ->
    exists o res, oracle_ok o k /\ rsample o [] n k = Ok res /\ Permutation res S.
Proof.
  intros n k T Hkn Hmax [HndT HTr] HlenT.
  set (s0 := mkSampler k true k O).
  assert (Heff0 : eff s0 = k - 1).
  { unfold eff, s0; simpl. rewrite Z.eqb_refl. reflexivity. }
  assert (Hef0 : efirst s0 = false).
  { unfold efirst, s0; simpl. rewrite Z.eqb_refl. reflexivity. }
  destruct (support_loop n k Hmax (S (Z.to_nat (n - k))) s0 (iota (Z.to_nat k)) T)
    as [l [Hl Hrun]].
  - reflexivity.
  - simpl. lia.
  - exact Hef0.
  - rewrite Heff0. lia.
  - rewrite Heff0. lia.
  - unfold zlen. rewrite iota_length. lia.
  - apply NoDup_iota.
  - rewrite Heff0. intros p Hp. apply In_iota in Hp. lia.
  - exact HndT.
  - exact HlenT.
  - intros p Hp. specialize (HTr p Hp). lia.
  - rewrite Heff0. intros p Hp Hle. apply In_iota. specialize (HTr p Hp). lia.
  - set (o := fun t => nth t l DStop).
    destruct (Hrun o) as [res [Hres Hperm]]; [intros j; reflexivity|].
    exists o, res. split; [|split; [|exact Hperm]].
    + intros t. pose proof (draw_ok_nth k l t Hl) as Hd. unfold o.
      destruct (nth t l DStop); exact Hd.
    + rewrite rsample_unfold by lia.
      assert (Hk0 : Z.of_nat (0 + Z.to_nat k) = k) by lia.
      pose proof (reservoir_phase o n k (S (Z.to_nat (n - k))) O (proj2 Hkn) (Z.to_nat k) O Hk0) as Hres0.
      replace (Z.to_nat k + S (Z.to_nat (n - k)))%nat with (S (Z.to_nat n)) in Hres0 by lia.
      change (sample_loop o (fun x => x) (S (Z.to_nat n)) n (new_sampler k) (zeros k) =
              sample_loop o (fun x => x) (S (Z.to_nat (n - k))) n s0 (iota (Z.to_nat k))) in Hres0.
      rewrite Hres0. rewrite Hres. simpl.
      unfold trunc. assert (E : (n <? k) = false) by (apply Z.ltb_ge; lia). rewrite E.
      reflexivity.
Qed.

(* non-vacuity: the subset {1, 4, 7} of [0, 10) *)
Example rsample_support_example :
  positions_ok 10 [7; 1; 4] /\ zlen [7; 1; 4] = 3 /\
  oracle_ok ex_oracle 3 /\ rsample ex_oracle [] 10 3 = Ok [4; 1; 7] /\ Permutation [4; 1; 7] [7; 1; 4].
Proof.
  split; [|split; [reflexivity|split; [exact ex_oracle_ok|split; [vm_compute; reflexivity|]]]].
  - split.
    + repeat constructor; simpl; intuition lia.
    + intros p Hp. simpl in Hp. intuition lia.
  - exact (Permutation_rev [4; 1; 7]).
Qed.
