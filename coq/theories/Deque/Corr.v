(* Correspondence evaluator for the deque: runs the model on a recorded operation list and
   compares with the implementation's recorded observations.  Used by the check through
   vm_compute; contains no proofs and does not depend on any. *)
From Juniper Require Import Common.Base Deque.Model Deque.Spec Generated.Params.

Definition out_eqb (a b : out Z) : bool :=
  match a, b with
  | OUnit, OUnit | OEnd, OEnd | OPanic, OPanic => true
  | OVal x, OVal y => x =? y
  | OInt x, OInt y => x =? y
  | OList l, OList m => (length l =? length m)%nat && forallb (fun p => fst p =? snd p) (combine l m)
  | _, _ => false
  end.

Fixpoint outs_eqb (a b : list (out Z)) : bool :=
  match a, b with
  | [], [] => true
  | x :: a', y :: b' => out_eqb x y && outs_eqb a' b'
  | _, _ => false
  end.

Definition model_run (ops : list (op Z)) : list (out Z) := run 0 deque_minSize deque_growMul st0 ops.

(* a case = operations and the implementation's observations *)
Definition check_M (c : list (op Z) * list (out Z)) : bool := outs_eqb (model_run (fst c)) (snd c).

(* layer S on histories without explicit iterator handles *)
Definition check_S (c : list (op Z) * list (out Z)) : bool :=
  if forallb seq_op (fst c) then outs_eqb (srun [] (fst c)) (snd c) else true.
