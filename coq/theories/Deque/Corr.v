(* Correspondence evaluator for the deque: runs the model on a recorded operation list and
   compares with the implementation's recorded observations.  Used by the check through
   vm_compute; contains no proofs and does not depend on any. *)
From Juniper Require Import Common.Base Deque.Model Deque.Spec Generated.Params.

Definition out_eqb (a b : out Z) : bool :=
  match a, b with
  | OUnit, OUnit | OEnd, OEnd | OPanic, OPanic => true
  | OVal x, OVal y => x =? y
  | OInt x, OInt y => x =? y
  | OList l, OList m => (length l =? length m)%nat && forallb (fun p => fst p =? snd p) (combine l m)
  | _, _ => false
  end.

Fixpoint outs_eqb (a b : list (out Z)) : bool :=
  match a, b with
  | [], [] => true
  | x :: a', y :: b' => out_eqb x y && outs_eqb a' b'
  | _, _ => false
  end.

Definition model_run (ops : list (op Z)) : list (out Z) := run 0 deque_minSize deque_growMul st0 ops.

(* a case = operations and the implementation's observations *)
Definition check_M (c : list (op Z) * list (out Z)) : bool := outs_eqb (model_run (fst c)) (snd c).

(* layer S on histories without explicit iterator handles *)
Definition check_S (c : list (op Z) * list (out Z)) : bool :=
  if forallb seq_op (fst c) then outs_eqb (srun [] (fst c)) (snd c) else true.

(* the evaluators decide cases with Grow arguments no allocation can satisfy, without building anything *)
Example ex_huge_grow_checks :
  let c := ([OpPushBack 1; OpPushFront 2; OpGrow 9223372036854775807; OpGrow 9223372036854775791;
             OpGrow 4611686018427387903; OpItem 0; OpGrow (-3); OpGrow 5; OpIterate],
            [OUnit; OUnit; OPanic; OPanic; OPanic; OVal 2; OUnit; OUnit; OList [2; 1]]) in
  check_M c && check_S c = true.
Proof. vm_compute. reflexivity. Qed.

(* ... and reject an implementation that returns normally from such a Grow *)
Example ex_huge_grow_rejects :
  let c := ([OpPushBack 1; OpGrow 9223372036854775807; OpItem 0], [OUnit; OUnit; OVal 1]) in
  check_M c || check_S c = false.
Proof. vm_compute. reflexivity. Qed.
