(* Proofs for the deque model: refinement of the ideal sequence (C04) and the
   snapshot-or-panic iterator property (C15, deque part).  Stdlib only; no axioms. *)
From Juniper Require Import Common.Base Deque.Model Deque.Spec.
From Coq Require Import Arith.

(* ------------------------------------------------------------------ *)
(* Tactics                                                            *)
(* ------------------------------------------------------------------ *)

(* case-split every boolean Z comparison in sight *)
Ltac zcmp :=
  repeat match goal with
  | |- context [?a <? ?b] => destruct (Z.ltb_spec a b)
  | |- context [?a <=? ?b] => destruct (Z.leb_spec a b)
  | |- context [?a =? ?b] => destruct (Z.eqb_spec a b)
  | H : context [?a <? ?b] |- _ => destruct (Z.ltb_spec a b)
  | H : context [?a <=? ?b] |- _ => destruct (Z.leb_spec a b)
  | H : context [?a =? ?b] |- _ => destruct (Z.eqb_spec a b)
  end.

(* split conjunctions only (never an iff, an equation or a disjunction) *)
Ltac splits := repeat match goal with |- _ /\ _ => split end.

(* ------------------------------------------------------------------ *)
(* Z-indexed list lemmas                                              *)
(* ------------------------------------------------------------------ *)
Section Lists.
  Context {A : Type}.
  Implicit Types l : list A.

  Lemma zget_neg l i : i < 0 -> zget l i = None.
  Proof. intros Hi. unfold zget. destruct (Z.ltb_spec i 0); [reflexivity|lia]. Qed.

  Lemma zget_nonneg l i : 0 <= i -> zget l i = nth_error l (Z.to_nat i).
  Proof. intros Hi. unfold zget. destruct (Z.ltb_spec i 0); [lia|reflexivity]. Qed.

  Lemma zget_none l i : i < 0 \/ zlen l <= i -> zget l i = None.
  Proof.
    intros [Hi|Hi]; [apply zget_neg; exact Hi|].
    pose proof (zlen_nonneg l) as Hl.
    rewrite zget_nonneg by lia. apply nth_error_None. unfold zlen in Hi. lia.
  Qed.

  Lemma zget_none_inv l i : zget l i = None -> i < 0 \/ zlen l <= i.
  Proof.
    intros Hn. destruct (Z.ltb_spec i 0) as [Hi|Hi]; [left; exact Hi|].
    destruct (Z.ltb_spec i (zlen l)) as [Hj|Hj]; [|right; exact Hj].
    destruct (zget_in_range l i (conj Hi Hj)) as [x Hx]. congruence.
  Qed.

  Lemma zget_nil i : zget (@nil A) i = None.
  Proof. apply zget_none. unfold zlen; simpl. lia. Qed.

  Lemma zget_cons_0 x l : zget (x :: l) 0 = Some x.
  Proof. reflexivity. Qed.

  Lemma zget_cons_pos x l i : 0 < i -> zget (x :: l) i = zget l (i - 1).
  Proof.
    intros Hi. rewrite !zget_nonneg by lia.
    replace (Z.to_nat i) with (S (Z.to_nat (i - 1))) by lia. reflexivity.
  Qed.

  Lemma zget_app1 l1 l2 i : i < zlen l1 -> zget (l1 ++ l2) i = zget l1 i.
  Proof.
    intros Hi. destruct (Z.ltb_spec i 0) as [Hn|Hn].
    - rewrite !zget_neg by exact Hn. reflexivity.
    - rewrite !zget_nonneg by exact Hn. apply nth_error_app1. unfold zlen in Hi. lia.
  Qed.

  Lemma zget_app2 l1 l2 i : zlen l1 <= i -> zget (l1 ++ l2) i = zget l2 (i - zlen l1).
  Proof.
    intros Hi. pose proof (zlen_nonneg l1) as Hl.
    rewrite !zget_nonneg by lia. rewrite nth_error_app2 by (unfold zlen in Hi; lia).
    f_equal. unfold zlen. lia.
  Qed.

  Lemma zget_firstn l n i : i < n -> zget (firstn (Z.to_nat n) l) i = zget l i.
  Proof.
    intros Hi. destruct (Z.ltb_spec i 0) as [Hn|Hn].
    - rewrite !zget_neg by exact Hn. reflexivity.
    - rewrite !zget_nonneg by exact Hn.
      assert (Hlt : (Z.to_nat i < Z.to_nat n)%nat) by lia.
      revert Hlt. generalize (Z.to_nat i) as a, (Z.to_nat n) as b. clear.
      intros a b; revert l a. induction b as [|b IH]; intros l a Hlt; [lia|].
      destruct l as [|h t]; [destruct a; reflexivity|].
      destruct a as [|a]; [reflexivity|]. simpl. apply IH. lia.
  Qed.

  Lemma zget_skipn l n i : 0 <= n -> 0 <= i -> zget (skipn (Z.to_nat n) l) i = zget l (n + i).
  Proof.
    intros Hn Hi. rewrite !zget_nonneg by lia.
    replace (Z.to_nat (n + i)) with (Z.to_nat n + Z.to_nat i)%nat by lia.
    generalize (Z.to_nat i) as a, (Z.to_nat n) as b. clear.
    intros a b; revert l. induction b as [|b IH]; intros l; [reflexivity|].
    destruct l as [|h t]; [destruct a; reflexivity|]. simpl. apply IH.
  Qed.

  Lemma zlen_firstn l n : 0 <= n <= zlen l -> zlen (firstn (Z.to_nat n) l) = n.
  Proof. intros Hn. unfold zlen in *. rewrite firstn_length. lia. Qed.

  Lemma zlen_skipn l n : 0 <= n <= zlen l -> zlen (skipn (Z.to_nat n) l) = zlen l - n.
  Proof. intros Hn. unfold zlen in *. rewrite skipn_length. lia. Qed.

  Lemma zlen_zslice l lo hi : 0 <= lo <= hi -> hi <= zlen l -> zlen (zslice l lo hi) = hi - lo.
  Proof.
    intros H1 H2. unfold zslice. rewrite zlen_firstn; [reflexivity|].
    rewrite zlen_skipn by lia. lia.
  Qed.

  Lemma zget_zslice l lo hi i :
    0 <= lo -> 0 <= i < hi - lo -> zget (zslice l lo hi) i = zget l (lo + i).
  Proof.
    intros H1 H2. unfold zslice. rewrite zget_firstn by lia. apply zget_skipn; lia.
  Qed.

  Lemma zget_repeat (x : A) n i : 0 <= i < n -> zget (zrepeat x n) i = Some x.
  Proof.
    intros Hi. pose proof (zget_in_range (zrepeat x n) i) as Hr.
    rewrite zlen_repeat in Hr by lia. destruct (Hr Hi) as [y Hy]. rewrite Hy. f_equal.
    rewrite zget_nonneg in Hy by lia. apply nth_error_In in Hy.
    unfold zrepeat in Hy. apply repeat_spec in Hy. exact Hy.
  Qed.

  Lemma zlen_upd l n x : zlen (upd l n x) = zlen l.
  Proof. unfold zlen. rewrite upd_length. reflexivity. Qed.

  Lemma zget_upd_same l i x : 0 <= i < zlen l -> zget (upd l (Z.to_nat i) x) i = Some x.
  Proof.
    intros Hi. rewrite zget_nonneg by lia. apply nth_error_upd_same. unfold zlen in Hi. lia.
  Qed.

  Lemma zget_upd_other l i j x : 0 <= i -> i <> j -> zget (upd l (Z.to_nat i) x) j = zget l j.
  Proof.
    intros Hi Hij. destruct (Z.ltb_spec j 0) as [Hn|Hn].
    - rewrite !zget_neg by exact Hn. reflexivity.
    - rewrite !zget_nonneg by exact Hn. apply nth_error_upd_other. lia.
  Qed.

  Lemma zset_ok l i x : 0 <= i < zlen l -> zset l i x = Some (upd l (Z.to_nat i) x).
  Proof. intros Hi. unfold zset. zcmp; try lia. reflexivity. Qed.

  Lemma zset_none l i x : i < 0 \/ zlen l <= i -> zset l i x = None.
  Proof. intros Hi. unfold zset. zcmp; try lia; reflexivity. Qed.

  Lemma list_ext l1 l2 :
    zlen l1 = zlen l2 -> (forall i, 0 <= i < zlen l1 -> zget l1 i = zget l2 i) -> l1 = l2.
  Proof.
    revert l2. induction l1 as [|h t IH]; intros l2 Hlen Hget.
    - destruct l2 as [|h2 t2]; [reflexivity|]. unfold zlen in Hlen; simpl in Hlen; lia.
    - destruct l2 as [|h2 t2]; [unfold zlen in Hlen; simpl in Hlen; lia|].
      rewrite !zlen_cons in Hlen. pose proof (zlen_nonneg t) as Ht.
      f_equal.
      + assert (H0 : zget (h :: t) 0 = zget (h2 :: t2) 0) by (apply Hget; rewrite zlen_cons; lia).
        rewrite !zget_cons_0 in H0. congruence.
      + apply IH; [lia|]. intros i Hi.
        assert (H1 : zget (h :: t) (i + 1) = zget (h2 :: t2) (i + 1))
          by (apply Hget; rewrite zlen_cons; lia).
        rewrite !zget_cons_pos in H1 by lia. replace (i + 1 - 1) with i in H1 by lia. exact H1.
  Qed.

  Lemma zlen_nil_inv l : zlen l = 0 -> l = [].
  Proof. destruct l; [reflexivity|]. rewrite zlen_cons. pose proof (zlen_nonneg l). lia. Qed.

  Lemma zlen_nil : zlen (@nil A) = 0.
  Proof. reflexivity. Qed.

  Lemma zlen_snoc l x : zlen (l ++ [x]) = zlen l + 1.
  Proof. rewrite zlen_app. reflexivity. Qed.

  Lemma zget_snoc_last l x : zget (l ++ [x]) (zlen l) = Some x.
  Proof. rewrite zget_app2 by lia. replace (zlen l - zlen l) with 0 by lia. reflexivity. Qed.

  Lemma skipn_nth l n x : nth_error l n = Some x -> skipn n l = x :: skipn (S n) l.
  Proof.
    revert l. induction n as [|n IH]; intros l Hn; destruct l as [|h t]; simpl in Hn; try discriminate.
    - inversion Hn; reflexivity.
    - simpl. rewrite (IH t Hn). reflexivity.
  Qed.

  Lemma prefix_snoc (p l : list A) x :
    (exists r, l = p ++ r) -> zget l (zlen p) = Some x -> exists r, l = (p ++ [x]) ++ r.
  Proof.
    intros [r Hr] Hg. subst l. rewrite zget_app2 in Hg by lia.
    replace (zlen p - zlen p) with 0 in Hg by lia.
    destruct r as [|y r]; [rewrite zget_nil in Hg; discriminate|].
    rewrite zget_cons_0 in Hg. inversion Hg; subst y.
    exists r. rewrite <- app_assoc. reflexivity.
  Qed.

  Lemma prefix_full (p l : list A) : (exists r, l = p ++ r) -> zlen p = zlen l -> p = l.
  Proof.
    intros [r Hr] Hl. subst l. rewrite zlen_app in Hl.
    rewrite (zlen_nil_inv r) by lia. rewrite app_nil_r. reflexivity.
  Qed.

  (* upd on lists and Forall / Forall2 *)
  Lemma Forall_upd (P : A -> Prop) l n x : Forall P l -> P x -> Forall P (upd l n x).
  Proof.
    intros Hl Hx. revert n. induction Hl as [|h t Hh Ht IH]; intros n; [constructor|].
    destruct n as [|n]; simpl; constructor; auto.
  Qed.

  Lemma In_upd l n x y : In y (upd l n x) -> y = x \/ In y l.
  Proof.
    revert n. induction l as [|h t IH]; intros n Hy; [destruct Hy|].
    destruct n as [|n]; simpl in Hy.
    - destruct Hy as [Hy|Hy]; [left; congruence|right; right; exact Hy].
    - destruct Hy as [Hy|Hy]; [right; left; exact Hy|].
      destruct (IH n Hy) as [H1|H1]; [left; exact H1|right; right; exact H1].
  Qed.
End Lists.

Lemma Forall2_upd {A B} (R : A -> B -> Prop) l1 l2 n a b :
  Forall2 R l1 l2 -> R a b -> Forall2 R (upd l1 n a) (upd l2 n b).
Proof.
  intros HF Hab. revert n. induction HF as [|x y t1 t2 Hxy Ht IH]; intros n; [constructor|].
  destruct n as [|n]; simpl; constructor; auto.
Qed.

Lemma Forall2_nth {A B} (R : A -> B -> Prop) l1 l2 n a :
  Forall2 R l1 l2 -> nth_error l1 n = Some a -> exists b, nth_error l2 n = Some b /\ R a b.
Proof.
  intros HF. revert n. induction HF as [|x y t1 t2 Hxy Ht IH]; intros n Hn.
  - destruct n; discriminate.
  - destruct n as [|n]; simpl in *.
    + inversion Hn; subst. eauto.
    + apply IH; exact Hn.
Qed.

Lemma Forall2_weaken {A B} (R R' : A -> B -> Prop) l1 l2 :
  (forall a b, R a b -> R' a b) -> Forall2 R l1 l2 -> Forall2 R' l1 l2.
Proof.
  intros Himp HF. induction HF as [|x y t1 t2 Hxy Ht IH]; constructor; auto.
Qed.

(* ------------------------------------------------------------------ *)
(* Truncated remainder on the ranges the deque uses                   *)
(* ------------------------------------------------------------------ *)
Lemma rem_wrap a c : 0 <= a -> 0 < c -> a < 2 * c -> Z.rem a c = if a <? c then a else a - c.
Proof.
  intros Ha Hc Hac. destruct (Z.ltb_spec a c) as [Hlt|Hge].
  - apply Z.rem_small; lia.
  - rewrite Z.rem_mod_nonneg by lia. symmetry. apply Z.mod_unique_pos with (q := 1); lia.
Qed.

Lemma positive_mod_pred x c :
  0 <= x < c -> positive_mod (x - 1) c = if x =? 0 then c - 1 else x - 1.
Proof.
  intros Hx. unfold positive_mod. destruct (Z.eqb_spec x 0) as [H0|H0].
  - subst x. simpl (0 - 1). destruct (Z.eq_dec c 1) as [Hc|Hc].
    + subst c. reflexivity.
    + change (-1) with (- (1)). rewrite Z.rem_opp_l by lia. rewrite Z.rem_small by lia.
      destruct (Z.ltb_spec (- (1)) 0); lia.
  - rewrite Z.rem_small by lia. destruct (Z.ltb_spec (x - 1) 0); lia.
Qed.

(* ------------------------------------------------------------------ *)
(* 64-bit wrap-around and the allocation bound                        *)
(* ------------------------------------------------------------------ *)
Lemma alloc_max_eq : alloc_max = 140737488355328.
Proof. reflexivity. Qed.

Lemma wrap64_small x : - 9223372036854775808 <= x < 9223372036854775808 -> wrap64 x = x.
Proof.
  intros Hx. unfold wrap64. change (2 ^ 63) with 9223372036854775808.
  change (2 ^ 64) with 18446744073709551616. rewrite Z.mod_small by lia. lia.
Qed.

Lemma wrap64_high x :
  9223372036854775808 <= x < 18446744073709551616 -> wrap64 x = x - 18446744073709551616.
Proof.
  intros Hx. unfold wrap64. change (2 ^ 63) with 9223372036854775808.
  change (2 ^ 64) with 18446744073709551616.
  replace (x + 9223372036854775808)
    with ((x + 9223372036854775808 - 18446744073709551616) + 1 * 18446744073709551616) by lia.
  rewrite Z_mod_plus_full. rewrite Z.mod_small by lia. lia.
Qed.

Lemma wrap64_range x : - 9223372036854775808 <= wrap64 x < 9223372036854775808.
Proof.
  unfold wrap64. change (2 ^ 63) with 9223372036854775808.
  change (2 ^ 64) with 18446744073709551616.
  pose proof (Z.mod_pos_bound (x + 9223372036854775808) 18446744073709551616) as Hb. lia.
Qed.

Lemma make_ok_iff n : make_ok n = true <-> 0 <= n <= alloc_max.
Proof. unfold make_ok. rewrite andb_true_iff, !Z.leb_le. tauto. Qed.

Lemma make_ok_false_iff n : make_ok n = false <-> n < 0 \/ alloc_max < n.
Proof.
  destruct (make_ok n) eqn:E.
  - apply make_ok_iff in E. split; [discriminate|lia].
  - split; [intros _|reflexivity].
    destruct (Z_lt_le_dec n 0) as [Hn|Hn]; [left; exact Hn|].
    destruct (Z_lt_le_dec alloc_max n) as [Hm|Hm]; [right; exact Hm|].
    assert (Ht : make_ok n = true) by (apply make_ok_iff; lia). congruence.
Qed.

(* ------------------------------------------------------------------ *)
(* Structure of reachable deques                                      *)
(* ------------------------------------------------------------------ *)
Section DequeProofs.
  Context {T : Type} (zero : T) (minSize growMul : Z).
  Hypothesis Hmin : 1 <= minSize.
  (* the upper bound keeps len(d.a)*growMul inside int64 for every capacity make can return *)
  Hypothesis Hgrow : 2 <= growMul <= 32768.

  Notation deque := (deque T).
  Notation iter := Model.iter.
  Notation st := (st T).
  Notation op := (op T).
  Notation out := (out T).
  Notation resize := (resize zero).
  Notation maybe_expand := (maybe_expand zero minSize growMul).
  Notation grow := (grow zero).
  Notation shrink := (shrink zero).
  Notation push_front := (push_front zero minSize growMul).
  Notation push_back := (push_back zero minSize growMul).
  Notation pop_front := (pop_front zero).
  Notation pop_back := (pop_back zero).
  Notation step := (step zero minSize growMul).
  Notation run := (run zero minSize growMul).
  Notation run_state := (run_state zero minSize growMul).
  Notation clean := (clean zero).
  Notation alloc_req := (alloc_req minSize growMul).
  Notation alloc_fails := (alloc_fails minSize growMul).
  Notation in_budget := (in_budget minSize growMul).
  Implicit Types d : deque.

  (* every buffer was returned by make *)
  Definition capok (d : deque) : Prop := cap d <= alloc_max.

  (* raw index of the i-th live element *)
  Definition idx (d : deque) (i : Z) : Z :=
    if front d + i <? cap d then front d + i else front d + i - cap d.

  Definition wf (d : deque) : Prop :=
    match arr d with
    | None => front d = 0 /\ back d = 0
    | Some l => (back d = -1 /\ front d = 0) \/ (0 <= front d < zlen l /\ 0 <= back d < zlen l)
    end.

  Lemma wf_cases d : wf d ->
    (len d = 0 /\ front d = 0 /\
       ((isnil d = true /\ back d = 0 /\ cap d = 0) \/ (isnil d = false /\ back d = -1))) \/
    (isnil d = false /\ 0 <= front d <= back d /\ back d < cap d /\
       len d = back d - front d + 1) \/
    (isnil d = false /\ 0 <= back d < front d /\ front d < cap d /\
       len d = cap d - front d + back d + 1).
  Proof.
    destruct d as [a f b g]. unfold wf, len, cap, buf, isnil. cbn.
    destruct a as [l|]; cbn.
    - intros [[Hb Hf]|[Hf Hb]]; zcmp; try lia;
        first [ left; split; [lia|split; [lia|right; split; [reflexivity|lia]]]
              | right; left; split; [reflexivity|lia]
              | right; right; split; [reflexivity|lia] ].
    - intros [Hf Hb]. left. split; [reflexivity|]. split; [exact Hf|]. left.
      split; [reflexivity|]. split; [exact Hb|reflexivity].
  Qed.

  Lemma cap_nonneg d : 0 <= cap d.
  Proof. apply zlen_nonneg. Qed.

  Lemma len_range d : wf d -> 0 <= len d <= cap d.
  Proof. intros Hwf. pose proof (cap_nonneg d). destruct (wf_cases d Hwf) as [H1|[H1|H1]]; lia. Qed.

  Lemma front_back_range d : wf d -> 0 < len d ->
    0 <= front d < cap d /\ 0 <= back d < cap d.
  Proof. intros Hwf Hl. destruct (wf_cases d Hwf) as [H1|[H1|H1]]; lia. Qed.

  Lemma idx_range d i : wf d -> 0 <= i < len d -> 0 <= idx d i < cap d.
  Proof.
    intros Hwf Hi. unfold idx. destruct (wf_cases d Hwf) as [H1|[H1|H1]]; zcmp; lia.
  Qed.

  Lemma idx_inj d i j : wf d -> 0 <= i < len d -> 0 <= j < len d -> idx d i = idx d j -> i = j.
  Proof.
    intros Hwf Hi Hj. unfold idx. destruct (wf_cases d Hwf) as [H1|[H1|H1]]; zcmp; lia.
  Qed.

  Lemma idx_0 d : wf d -> 0 < len d -> idx d 0 = front d.
  Proof.
    intros Hwf Hl. unfold idx. destruct (wf_cases d Hwf) as [H1|[H1|H1]]; zcmp; lia.
  Qed.

  Lemma idx_last d : wf d -> 0 < len d -> idx d (len d - 1) = back d.
  Proof.
    intros Hwf Hl. unfold idx. destruct (wf_cases d Hwf) as [H1|[H1|H1]]; zcmp; lia.
  Qed.

  Lemma idx_back_inv d i : wf d -> 0 <= i < len d -> idx d i = back d -> i = len d - 1.
  Proof.
    intros Hwf Hi Hb. apply (idx_inj d); [exact Hwf|exact Hi|lia|].
    rewrite idx_last by (exact Hwf || lia). exact Hb.
  Qed.

  Lemma rem_idx d i : wf d -> 0 <= i < len d -> Z.rem (front d + i) (cap d) = idx d i.
  Proof.
    intros Hwf Hi. pose proof (len_range d Hwf) as Hr.
    destruct (front_back_range d Hwf) as [Hf Hb]; [lia|].
    unfold idx. apply rem_wrap; lia.
  Qed.

  Lemma window_len d : wf d -> zlen (window d) = len d.
  Proof.
    intros Hwf. pose proof (wf_cases d Hwf) as Hc. unfold window, len in *.
    destruct (isnil d || (back d =? -1)) eqn:E; [reflexivity|].
    destruct (Z.leb_spec (front d) (back d)) as [Hfb|Hfb].
    - rewrite zlen_zslice; fold (cap d); lia.
    - rewrite zlen_app, !zlen_zslice; fold (cap d); lia.
  Qed.

  Lemma window_get d i : wf d -> 0 <= i < len d -> zget (window d) i = zget (buf d) (idx d i).
  Proof.
    intros Hwf Hi. pose proof (wf_cases d Hwf) as Hc. unfold window, len, idx in *.
    destruct (isnil d || (back d =? -1)) eqn:E; [lia|].
    destruct (Z.leb_spec (front d) (back d)) as [Hfb|Hfb].
    - rewrite zget_zslice by lia. zcmp; try lia. reflexivity.
    - destruct (Z.ltb_spec (front d + i) (cap d)) as [Hlt|Hge].
      + rewrite zget_app1 by (rewrite zlen_zslice; fold (cap d); lia).
        apply zget_zslice; lia.
      + rewrite zget_app2 by (rewrite zlen_zslice; fold (cap d); lia).
        rewrite zlen_zslice by (fold (cap d); lia).
        rewrite zget_zslice by lia. f_equal. lia.
  Qed.

  Lemma window_eq d l : wf d -> zlen l = len d ->
    (forall i, 0 <= i < len d -> zget l i = zget (buf d) (idx d i)) -> window d = l.
  Proof.
    intros Hwf Hl Hg. apply list_ext.
    - rewrite window_len by exact Hwf. lia.
    - intros i Hi. rewrite window_len in Hi by exact Hwf.
      rewrite window_get by assumption. symmetry. apply Hg. exact Hi.
  Qed.

  Lemma window_nil d : wf d -> len d = 0 -> window d = [].
  Proof. intros Hwf Hl. apply zlen_nil_inv. rewrite window_len by exact Hwf. exact Hl. Qed.

  (* [clean] without the existential *)
  Lemma clean_intro d :
    (forall j, 0 <= j < cap d -> (forall i, 0 <= i < len d -> idx d i <> j) ->
               zget (buf d) j = Some zero) -> clean d.
  Proof.
    intros H j Hj Hnl. apply H; [exact Hj|]. intros i Hi Heq. apply Hnl.
    exists i. split; [exact Hi|]. symmetry. exact Heq.
  Qed.

  Lemma clean_elim d j : clean d -> 0 <= j < cap d ->
    (forall i, 0 <= i < len d -> idx d i <> j) -> zget (buf d) j = Some zero.
  Proof.
    intros Hc Hj Hn. apply Hc; [exact Hj|]. intros [i [Hi Heq]]. apply (Hn i Hi).
    symmetry. exact Heq.
  Qed.

  (* ------------------------------------------------------------------ *)
  (* Projections of explicitly built deques                             *)
  (* ------------------------------------------------------------------ *)
  Lemma len_mk (l : list T) f b g :
    len (mkDeque (Some l) f b g) =
    if b =? -1 then 0 else if f <=? b then b - f + 1 else zlen l - f + b + 1.
  Proof. reflexivity. Qed.

  Lemma idx_mk (l : list T) f b g i :
    idx (mkDeque (Some l) f b g) i = if f + i <? zlen l then f + i else f + i - zlen l.
  Proof. reflexivity. Qed.

  Lemma wf_mk (l : list T) f b g :
    ((b = -1 /\ f = 0) \/ (0 <= f < zlen l /\ 0 <= b < zlen l)) -> wf (mkDeque (Some l) f b g).
  Proof. intros H. exact H. Qed.

  Lemma front_range d : wf d -> 0 < cap d -> 0 <= front d < cap d.
  Proof. intros Hwf Hc. destruct (wf_cases d Hwf) as [H1|[H1|H1]]; lia. Qed.

  Lemma back_cases d : wf d -> 0 < cap d ->
    (back d = -1 /\ len d = 0 /\ front d = 0) \/ (0 <= back d < cap d /\ 0 < len d).
  Proof. intros Hwf Hc. destruct (wf_cases d Hwf) as [H1|[H1|H1]]; lia. Qed.

  (* ------------------------------------------------------------------ *)
  (* resize / maybe_expand / grow / shrink                              *)
  (* ------------------------------------------------------------------ *)
  Lemma resize_fail n d : make_ok n = false -> resize n d = Panic PAlloc.
  Proof. intros Hmk. unfold resize. rewrite Hmk. reflexivity. Qed.

  Lemma resize_ok n d : wf d -> len d <= n -> make_ok n = true ->
    exists d', resize n d = Ok d' /\
    wf d' /\ clean d' /\ window d' = window d /\
    len d' = len d /\ cap d' = n /\ gen d' = gen d + 1.
  Proof.
    intros Hwf Hn Hmk. pose proof (len_range d Hwf) as Hr.
    pose proof (window_len d Hwf) as Hwl.
    unfold resize. rewrite Hmk. cbn [negb].
    set (l' := firstn (Z.to_nat n) (window d ++ zrepeat zero n)).
    assert (Hl' : zlen l' = n).
    { unfold l'. apply zlen_firstn. rewrite zlen_app, zlen_repeat by lia. lia. }
    assert (Hg1 : forall j, 0 <= j < len d -> zget l' j = zget (window d) j).
    { intros j Hj. unfold l'. rewrite zget_firstn by lia. apply zget_app1. lia. }
    assert (Hg2 : forall j, len d <= j < n -> zget l' j = Some zero).
    { intros j Hj. unfold l'. rewrite zget_firstn by lia. rewrite zget_app2 by lia.
      apply zget_repeat. lia. }
    set (d' := mkDeque (Some l') 0 (len d - 1) (gen d + 1)).
    assert (Hwf' : wf d') by (apply wf_mk; lia).
    assert (Hlen' : len d' = len d) by (unfold d'; rewrite len_mk; zcmp; lia).
    assert (Hidx : forall i, 0 <= i < len d -> idx d' i = i)
      by (intros i Hi; unfold d'; rewrite idx_mk; zcmp; lia).
    exists d'. split; [reflexivity|].
    split; [exact Hwf'|]. split; [|split; [|split; [exact Hlen'|split; [exact Hl'|reflexivity]]]].
    - apply clean_intro. intros j Hj Hnl. change (buf d') with l'. change (cap d') with (zlen l') in Hj.
      destruct (Z.ltb_spec j (len d)) as [Hlt|Hge].
      + exfalso. apply (Hnl j); [lia|]. apply Hidx; lia.
      + apply Hg2. lia.
    - apply window_eq; [exact Hwf'|lia|]. intros i Hi. rewrite Hlen' in Hi.
      rewrite Hidx by lia. change (buf d') with l'. rewrite Hg1 by lia. reflexivity.
  Qed.

  (* the length maybeExpand passes to make *)
  Definition expand_req d : Z := Z.max minSize (wrap64 (cap d * growMul)).

  Lemma expand_req_val d : 0 <= cap d -> capok d ->
    expand_req d = Z.max minSize (cap d * growMul) /\ cap d < expand_req d.
  Proof.
    intros Hc0 Hc. unfold capok in Hc. rewrite alloc_max_eq in Hc. unfold expand_req.
    assert (Hm1 : cap d * 2 <= cap d * growMul) by (apply Z.mul_le_mono_nonneg_l; lia).
    assert (Hm2 : cap d * growMul <= 140737488355328 * 32768)
      by (apply Z.mul_le_mono_nonneg; lia).
    rewrite wrap64_small by lia. split; [reflexivity|]. lia.
  Qed.

  Lemma maybe_expand_ok d : wf d -> clean d -> capok d ->
    if (len d =? cap d) && negb (make_ok (expand_req d)) then maybe_expand d = Panic PAlloc
    else exists d1, maybe_expand d = Ok d1 /\
      wf d1 /\ clean d1 /\ capok d1 /\ window d1 = window d /\
      len d1 = len d /\ len d1 < cap d1 /\ gen d <= gen d1 /\
      (cap d1 = cap d \/ ((len d =? cap d) = true /\ cap d1 = expand_req d)).
  Proof.
    intros Hwf Hcl Hck. pose proof (len_range d Hwf) as Hr. unfold maybe_expand.
    fold (expand_req d).
    destruct (Z.eqb_spec (len d) (cap d)) as [He|He]; cbn [andb].
    - destruct (make_ok (expand_req d)) eqn:Hmk; cbn [negb].
      + destruct (expand_req_val d) as [_ Hlt]; [lia|exact Hck|].
        destruct (resize_ok (expand_req d) d Hwf) as (d1 & Hrs & H1 & H2 & H3 & H4 & H5 & H6);
          [lia|exact Hmk|].
        exists d1. split; [exact Hrs|]. apply make_ok_iff in Hmk. unfold capok.
        splits; try assumption; try (right; split; [reflexivity|exact H5]); lia.
      + apply resize_fail. exact Hmk.
    - exists d. splits; try assumption; try reflexivity; try (left; reflexivity); lia.
  Qed.

  (* Grow: the argument as a Go int, the requested length *)
  Lemma alloc_req_grow n d :
    alloc_req d (OpGrow n) =
    if cap d - len d <? wrap64 n then Some (wrap64 (cap d + wrap64 n)) else None.
  Proof. reflexivity. Qed.

  Lemma grow_req_ge n d : wf d -> capok d -> cap d - len d < wrap64 n ->
    make_ok (wrap64 (cap d + wrap64 n)) = true ->
    wrap64 (cap d + wrap64 n) = cap d + wrap64 n.
  Proof.
    intros Hwf Hck Hlt Hmk. pose proof (len_range d Hwf) as Hr.
    pose proof (wrap64_range n) as Hn. unfold capok in Hck. rewrite alloc_max_eq in Hck.
    apply make_ok_iff in Hmk. rewrite alloc_max_eq in Hmk.
    destruct (Z_lt_le_dec (cap d + wrap64 n) 9223372036854775808) as [Hs|Hs].
    - apply wrap64_small. lia.
    - rewrite wrap64_high in Hmk by lia. lia.
  Qed.

  (* an argument beyond alloc_max makes the allocation fail whatever the capacity is *)
  Lemma grow_too_big_fails n d : wf d -> capok d -> grow_too_big n = true ->
    alloc_fails d (OpGrow n) = true.
  Proof.
    intros Hwf Hck Hbig. pose proof (len_range d Hwf) as Hr.
    pose proof (wrap64_range n) as Hn. unfold grow_too_big in Hbig. apply Z.ltb_lt in Hbig.
    unfold capok in Hck. unfold Spec.alloc_fails. rewrite alloc_req_grow.
    destruct (Z.ltb_spec (cap d - len d) (wrap64 n)) as [Hlt|Hge]; [|lia].
    apply negb_true_iff. apply make_ok_false_iff. rewrite alloc_max_eq in *.
    destruct (Z_lt_le_dec (cap d + wrap64 n) 9223372036854775808) as [Hs|Hs].
    - rewrite wrap64_small by lia. lia.
    - rewrite wrap64_high by lia. lia.
  Qed.

  Lemma grow_ok n d : wf d -> clean d -> capok d ->
    if alloc_fails d (OpGrow n) then grow n d = Panic PAlloc
    else exists d', grow n d = Ok d' /\
      wf d' /\ clean d' /\ capok d' /\ window d' = window d /\
      (d' = d \/ gen d < gen d') /\
      (cap d' = cap d \/ alloc_req d (OpGrow n) = Some (cap d')).
  Proof.
    intros Hwf Hcl Hck. pose proof (len_range d Hwf) as Hr.
    unfold Spec.alloc_fails. rewrite alloc_req_grow. unfold grow.
    destruct (Z.ltb_spec (cap d - len d) (wrap64 n)) as [Hlt|Hge].
    - destruct (make_ok (wrap64 (cap d + wrap64 n))) eqn:Hmk; cbn [negb].
      + pose proof (grow_req_ge n d Hwf Hck Hlt Hmk) as Hreq.
        destruct (resize_ok (wrap64 (cap d + wrap64 n)) d Hwf)
          as (d' & Hrs & H1 & H2 & H3 & H4 & H5 & H6); [lia|exact Hmk|].
        exists d'. split; [exact Hrs|]. apply make_ok_iff in Hmk. unfold capok.
        splits; try assumption; try (right; rewrite H5; reflexivity); try (right; lia); lia.
      + apply resize_fail. exact Hmk.
    - exists d. splits; try assumption; try reflexivity; left; reflexivity.
  Qed.

  (* Shrink never asks for more than it already has: its allocation cannot fail *)
  Lemma shrink_ok n d : wf d -> clean d -> capok d ->
    alloc_fails d (OpShrink n) = false /\
    if n <? 0 then shrink n d = Panic PNeg
    else exists d', shrink n d = Ok d' /\ wf d' /\ clean d' /\ capok d' /\ window d' = window d /\
                    (d' = d \/ gen d < gen d') /\
                    (cap d' = cap d \/ alloc_req d (OpShrink n) = Some (cap d')).
  Proof.
    intros Hwf Hcl Hck. pose proof (len_range d Hwf) as Hr.
    unfold Spec.alloc_fails, Spec.alloc_req, shrink.
    destruct (Z.ltb_spec n 0) as [Hn|Hn]; [split; reflexivity|].
    destruct (Z.ltb_spec n (cap d - len d)) as [Hlt|Hge].
    - assert (Hw : wrap64 (len d + n) = len d + n).
      { apply wrap64_small. unfold capok in Hck. rewrite alloc_max_eq in Hck. lia. }
      assert (Hmk : make_ok (wrap64 (len d + n)) = true).
      { apply make_ok_iff. unfold capok in Hck. lia. }
      rewrite Hmk. split; [reflexivity|].
      destruct (resize_ok (wrap64 (len d + n)) d Hwf) as (d' & Hrs & H1 & H2 & H3 & H4 & H5 & H6);
        [lia|exact Hmk|].
      exists d'. split; [exact Hrs|]. unfold capok in *.
      splits; try assumption; try (right; rewrite H5; reflexivity); try (right; lia); lia.
    - split; [reflexivity|]. exists d. splits; try assumption; try reflexivity; left; reflexivity.
  Qed.

  (* ------------------------------------------------------------------ *)
  (* push                                                               *)
  (* ------------------------------------------------------------------ *)
  Lemma alloc_req_push_front x d :
    alloc_req d (OpPushFront x) = if len d =? cap d then Some (expand_req d) else None.
  Proof. reflexivity. Qed.

  Lemma alloc_req_push_back x d :
    alloc_req d (OpPushBack x) = if len d =? cap d then Some (expand_req d) else None.
  Proof. reflexivity. Qed.

  Lemma alloc_fails_push_front x d :
    alloc_fails d (OpPushFront x) = (len d =? cap d) && negb (make_ok (expand_req d)).
  Proof. unfold Spec.alloc_fails. rewrite alloc_req_push_front. destruct (len d =? cap d); reflexivity. Qed.

  Lemma alloc_fails_push_back x d :
    alloc_fails d (OpPushBack x) = (len d =? cap d) && negb (make_ok (expand_req d)).
  Proof. unfold Spec.alloc_fails. rewrite alloc_req_push_back. destruct (len d =? cap d); reflexivity. Qed.

  Lemma push_front_ok x d : wf d -> clean d -> capok d ->
    if alloc_fails d (OpPushFront x) then push_front x d = Panic PAlloc
    else exists d', push_front x d = Ok d' /\ wf d' /\ clean d' /\ capok d' /\
               window d' = x :: window d /\ gen d < gen d' /\
               (cap d' = cap d \/ alloc_req d (OpPushFront x) = Some (cap d')).
  Proof.
    intros Hwf Hcl Hck. rewrite alloc_fails_push_front. unfold push_front.
    pose proof (maybe_expand_ok d Hwf Hcl Hck) as Hme.
    destruct ((len d =? cap d) && negb (make_ok (expand_req d))); [rewrite Hme; reflexivity|].
    destruct Hme as (d1 & Hme & Hwf1 & Hcl1 & Hck1 & Hw1 & Hl1 & Hlt1 & Hg1 & Hcap1). rewrite Hme.
    pose proof (len_range d1 Hwf1) as Hr1.
    assert (Hcap : 0 < cap d1) by lia.
    pose proof (front_range d1 Hwf1 Hcap) as Hf1.
    pose proof (back_cases d1 Hwf1 Hcap) as Hb1.
    destruct (Z.eqb_spec (cap d1) 0) as [Hc0|_]; [lia|].
    rewrite (positive_mod_pred (front d1) (cap d1) Hf1).
    set (f := if front d1 =? 0 then cap d1 - 1 else front d1 - 1).
    assert (Hf : 0 <= f < cap d1) by (unfold f; zcmp; lia).
    rewrite (zset_ok (buf d1) f x Hf).
    set (b := if back d1 =? -1 then f else back d1).
    set (d' := mkDeque (Some (upd (buf d1) (Z.to_nat f) x)) f b (gen d1 + 1)).
    assert (Hwf' : wf d').
    { apply wf_mk. rewrite zlen_upd. fold (cap d1). right. unfold b. zcmp; lia. }
    assert (Hlen' : len d' = len d1 + 1).
    { unfold d'. rewrite len_mk, zlen_upd. fold (cap d1). unfold b, f.
      destruct (wf_cases d1 Hwf1) as [H1|[H1|H1]]; zcmp; lia. }
    assert (Hi0 : idx d' 0 = f).
    { unfold d'. rewrite idx_mk, zlen_upd. fold (cap d1). zcmp; lia. }
    assert (HiS : forall i, 0 <= i < len d1 -> idx d' (i + 1) = idx d1 i).
    { intros i Hi. unfold d'. rewrite idx_mk, zlen_upd. fold (cap d1). unfold idx, f.
      destruct (wf_cases d1 Hwf1) as [H1|[H1|H1]]; zcmp; lia. }
    assert (Hne : forall i, 0 <= i < len d1 -> idx d1 i <> f).
    { intros i Hi Heq. rewrite <- HiS in Heq by exact Hi. rewrite <- Hi0 in Heq.
      apply idx_inj in Heq; [lia|exact Hwf'|lia|lia]. }
    assert (Hcd : cap d' = cap d1).
    { change (cap d') with (zlen (upd (buf d1) (Z.to_nat f) x)). apply zlen_upd. }
    exists d'. split; [reflexivity|]. split; [exact Hwf'|].
    split; [|split; [unfold capok in *; lia|split; [|split; [change (gen d') with (gen d1 + 1); lia|]]]].
    3: { destruct Hcap1 as [Hc|[He Hc]]; [left; lia|].
         right. rewrite alloc_req_push_front, He, Hcd, Hc. reflexivity. }
    - apply clean_intro. intros j Hj Hnl.
      change (buf d') with (upd (buf d1) (Z.to_nat f) x).
      change (cap d') with (zlen (upd (buf d1) (Z.to_nat f) x)) in Hj.
      rewrite zlen_upd in Hj. fold (cap d1) in Hj.
      assert (Hjf : f <> j) by (rewrite <- Hi0; apply Hnl; lia).
      rewrite zget_upd_other by lia.
      apply clean_elim; [exact Hcl1|exact Hj|]. intros i Hi.
      rewrite <- HiS by exact Hi. apply Hnl. lia.
    - apply window_eq; [exact Hwf'|rewrite zlen_cons, window_len by exact Hwf; lia|].
      intros i Hi. change (buf d') with (upd (buf d1) (Z.to_nat f) x).
      destruct (Z.eq_dec i 0) as [Hz|Hz].
      + subst i. rewrite Hi0, zget_cons_0, zget_upd_same; [reflexivity|exact Hf].
      + rewrite zget_cons_pos by lia. replace i with (i - 1 + 1) at 2 by lia.
        rewrite HiS by lia. rewrite zget_upd_other; [|lia|apply not_eq_sym; apply Hne; lia].
        rewrite <- Hw1. apply window_get; [exact Hwf1|lia].
  Qed.

  Lemma push_back_ok x d : wf d -> clean d -> capok d ->
    if alloc_fails d (OpPushBack x) then push_back x d = Panic PAlloc
    else exists d', push_back x d = Ok d' /\ wf d' /\ clean d' /\ capok d' /\
               window d' = window d ++ [x] /\ gen d < gen d' /\
               (cap d' = cap d \/ alloc_req d (OpPushBack x) = Some (cap d')).
  Proof.
    intros Hwf Hcl Hck. rewrite alloc_fails_push_back. unfold push_back.
    pose proof (maybe_expand_ok d Hwf Hcl Hck) as Hme.
    destruct ((len d =? cap d) && negb (make_ok (expand_req d))); [rewrite Hme; reflexivity|].
    destruct Hme as (d1 & Hme & Hwf1 & Hcl1 & Hck1 & Hw1 & Hl1 & Hlt1 & Hg1 & Hcap1). rewrite Hme.
    pose proof (len_range d1 Hwf1) as Hr1.
    assert (Hcap : 0 < cap d1) by lia.
    pose proof (front_range d1 Hwf1 Hcap) as Hf1.
    pose proof (back_cases d1 Hwf1 Hcap) as Hb1.
    destruct (Z.eqb_spec (cap d1) 0) as [Hc0|_]; [lia|].
    set (b := if back d1 =? -1 then front d1 else Z.rem (back d1 + 1) (cap d1)).
    assert (Hbeq : b = if back d1 =? -1 then front d1
                       else if back d1 + 1 <? cap d1 then back d1 + 1 else 0).
    { unfold b. destruct (Z.eqb_spec (back d1) (-1)) as [He|He]; [reflexivity|].
      rewrite rem_wrap by lia. zcmp; lia. }
    clearbody b.
    assert (Hb : 0 <= b < cap d1) by (subst b; zcmp; lia).
    rewrite (zset_ok (buf d1) b x Hb).
    set (d' := mkDeque (Some (upd (buf d1) (Z.to_nat b) x)) (front d1) b (gen d1 + 1)).
    assert (Hwf' : wf d').
    { apply wf_mk. rewrite zlen_upd. fold (cap d1). right. lia. }
    assert (Hlen' : len d' = len d1 + 1).
    { unfold d'. rewrite len_mk, zlen_upd. fold (cap d1). subst b.
      destruct (wf_cases d1 Hwf1) as [H1|[H1|H1]]; zcmp; lia. }
    assert (Hidx : forall i, idx d' i = idx d1 i).
    { intros i. unfold d'. rewrite idx_mk, zlen_upd. reflexivity. }
    assert (Hlast : idx d1 (len d1) = b).
    { rewrite <- Hidx. replace (len d1) with (len d' - 1) by lia.
      apply (idx_last d' Hwf'). lia. }
    assert (Hne : forall i, 0 <= i < len d1 -> idx d1 i <> b).
    { intros i Hi Heq. rewrite <- Hlast in Heq. rewrite <- !Hidx in Heq.
      apply idx_inj in Heq; [lia|exact Hwf'|lia|lia]. }
    assert (Hcd : cap d' = cap d1).
    { change (cap d') with (zlen (upd (buf d1) (Z.to_nat b) x)). apply zlen_upd. }
    exists d'. split; [reflexivity|]. split; [exact Hwf'|].
    split; [|split; [unfold capok in *; lia|split; [|split; [change (gen d') with (gen d1 + 1); lia|]]]].
    3: { destruct Hcap1 as [Hc|[He Hc]]; [left; lia|].
         right. rewrite alloc_req_push_back, He, Hcd, Hc. reflexivity. }
    - apply clean_intro. intros j Hj Hnl.
      change (buf d') with (upd (buf d1) (Z.to_nat b) x).
      change (cap d') with (zlen (upd (buf d1) (Z.to_nat b) x)) in Hj.
      rewrite zlen_upd in Hj. fold (cap d1) in Hj.
      assert (Hjb : b <> j) by (rewrite <- Hlast, <- Hidx; apply Hnl; lia).
      rewrite zget_upd_other by lia.
      apply clean_elim; [exact Hcl1|exact Hj|]. intros i Hi.
      rewrite <- Hidx. apply Hnl. lia.
    - apply window_eq; [exact Hwf'|rewrite zlen_snoc, window_len by exact Hwf; lia|].
      intros i Hi. change (buf d') with (upd (buf d1) (Z.to_nat b) x). rewrite Hidx.
      pose proof (window_len d Hwf) as Hwl.
      destruct (Z.eq_dec i (len d1)) as [Hz|Hz].
      + subst i. rewrite Hlast, zget_upd_same by exact Hb.
        rewrite Hl1, <- Hwl. apply zget_snoc_last.
      + rewrite zget_app1 by lia.
        rewrite zget_upd_other; [|lia|apply not_eq_sym; apply Hne; lia].
        rewrite <- Hw1. apply window_get; [exact Hwf1|lia].
  Qed.

  (* ------------------------------------------------------------------ *)
  (* pop                                                                *)
  (* ------------------------------------------------------------------ *)
  Lemma pop_front_empty d : len d = 0 -> pop_front d = Panic PEmpty.
  Proof. intros Hl. unfold pop_front. rewrite Hl. reflexivity. Qed.

  Lemma pop_back_empty d : len d = 0 -> pop_back d = Panic PEmpty.
  Proof. intros Hl. unfold pop_back. rewrite Hl. reflexivity. Qed.

  Lemma pop_front_ok d : wf d -> clean d -> 0 < len d ->
    exists x d', pop_front d = Ok (x, d') /\ wf d' /\ clean d' /\
                 window d = x :: window d' /\ gen d < gen d' /\ cap d' = cap d.
  Proof.
    intros Hwf Hcl Hlen. unfold pop_front.
    pose proof (len_range d Hwf) as Hr.
    destruct (front_back_range d Hwf Hlen) as [Hf Hb].
    destruct (Z.eqb_spec (len d) 0) as [H0|_]; [lia|].
    destruct (zget_in_range (buf d) (front d) Hf) as [x Hx]. rewrite Hx.
    rewrite (zset_ok (buf d) (front d) zero Hf).
    set (l' := upd (buf d) (Z.to_nat (front d)) zero).
    assert (Hl' : zlen l' = cap d) by (unfold l'; apply zlen_upd).
    pose proof (idx_0 d Hwf Hlen) as Hi0.
    destruct (Z.eqb_spec (len d) 1) as [H1|H1].
    - set (d' := mkDeque (Some l') 0 (-1) (gen d + 1)).
      assert (Hwf' : wf d') by (apply wf_mk; lia).
      assert (Hlen' : len d' = 0) by reflexivity.
      exists x, d'. split; [reflexivity|]. split; [exact Hwf'|].
      split; [|split; [|split; [change (gen d') with (gen d + 1); lia|exact Hl']]].
      + apply clean_intro. intros j Hj _. change (buf d') with l'.
        change (cap d') with (zlen l') in Hj. rewrite Hl' in Hj. unfold l'.
        destruct (Z.eq_dec (front d) j) as [He|He].
        * subst j. apply zget_upd_same. exact Hf.
        * rewrite zget_upd_other by lia. apply clean_elim; [exact Hcl|exact Hj|].
          intros i Hi. replace i with 0 by lia. rewrite Hi0. exact He.
      + rewrite (window_nil d' Hwf' Hlen').
        apply window_eq; [exact Hwf|rewrite zlen_cons; unfold zlen; simpl; lia|].
        intros i Hi. replace i with 0 by lia. rewrite Hi0, Hx. reflexivity.
    - rewrite (rem_wrap (front d + 1) (cap d)) by lia.
      set (f' := if front d + 1 <? cap d then front d + 1 else front d + 1 - cap d).
      set (d' := mkDeque (Some l') f' (back d) (gen d + 1)).
      assert (Hf' : 0 <= f' < cap d) by (unfold f'; zcmp; lia).
      assert (Hwf' : wf d') by (apply wf_mk; rewrite Hl'; lia).
      assert (Hlen' : len d' = len d - 1).
      { unfold d'. rewrite len_mk, Hl'. unfold f'.
        destruct (wf_cases d Hwf) as [H2|[H2|H2]]; zcmp; lia. }
      assert (HiS : forall i, 0 <= i < len d' -> idx d' i = idx d (i + 1)).
      { intros i Hi. rewrite Hlen' in Hi. unfold d'. rewrite idx_mk, Hl'. unfold idx, f'.
        destruct (wf_cases d Hwf) as [H2|[H2|H2]]; zcmp; lia. }
      exists x, d'. split; [reflexivity|]. split; [exact Hwf'|].
      split; [|split; [|split; [change (gen d') with (gen d + 1); lia|exact Hl']]].
      + apply clean_intro. intros j Hj Hnl. change (buf d') with l'.
        change (cap d') with (zlen l') in Hj. rewrite Hl' in Hj. unfold l'.
        destruct (Z.eq_dec (front d) j) as [He|He].
        * subst j. apply zget_upd_same. exact Hf.
        * rewrite zget_upd_other by lia. apply clean_elim; [exact Hcl|exact Hj|].
          intros i Hi. destruct (Z.eq_dec i 0) as [Hz|Hz].
          -- subst i. rewrite Hi0. exact He.
          -- replace i with (i - 1 + 1) by lia. rewrite <- HiS by lia. apply Hnl. lia.
      + apply window_eq; [exact Hwf|rewrite zlen_cons, window_len by exact Hwf'; lia|].
        intros i Hi. destruct (Z.eq_dec i 0) as [Hz|Hz].
        * subst i. rewrite Hi0, Hx. reflexivity.
        * rewrite zget_cons_pos by lia. rewrite window_get by (exact Hwf' || lia).
          change (buf d') with l'. unfold l'. rewrite HiS by lia.
          replace (i - 1 + 1) with i by lia.
          apply zget_upd_other; [lia|]. rewrite <- Hi0. intros Heq.
          apply idx_inj in Heq; [lia|exact Hwf|lia|lia].
  Qed.

  Lemma pop_back_ok d : wf d -> clean d -> 0 < len d ->
    exists x d', pop_back d = Ok (x, d') /\ wf d' /\ clean d' /\
                 window d = window d' ++ [x] /\ gen d < gen d' /\ cap d' = cap d.
  Proof.
    intros Hwf Hcl Hlen. unfold pop_back.
    pose proof (len_range d Hwf) as Hr.
    destruct (front_back_range d Hwf Hlen) as [Hf Hb].
    destruct (Z.eqb_spec (len d) 0) as [H0|_]; [lia|].
    destruct (zget_in_range (buf d) (back d) Hb) as [x Hx]. rewrite Hx.
    rewrite (zset_ok (buf d) (back d) zero Hb).
    set (l' := upd (buf d) (Z.to_nat (back d)) zero).
    assert (Hl' : zlen l' = cap d) by (unfold l'; apply zlen_upd).
    pose proof (idx_last d Hwf Hlen) as Hil.
    destruct (Z.eqb_spec (len d) 1) as [H1|H1].
    - set (d' := mkDeque (Some l') 0 (-1) (gen d + 1)).
      assert (Hwf' : wf d') by (apply wf_mk; lia).
      assert (Hlen' : len d' = 0) by reflexivity.
      exists x, d'. split; [reflexivity|]. split; [exact Hwf'|].
      split; [|split; [|split; [change (gen d') with (gen d + 1); lia|exact Hl']]].
      + apply clean_intro. intros j Hj _. change (buf d') with l'.
        change (cap d') with (zlen l') in Hj. rewrite Hl' in Hj. unfold l'.
        destruct (Z.eq_dec (back d) j) as [He|He].
        * subst j. apply zget_upd_same. exact Hb.
        * rewrite zget_upd_other by lia. apply clean_elim; [exact Hcl|exact Hj|].
          intros i Hi. replace i with (len d - 1) by lia. rewrite Hil. exact He.
      + rewrite (window_nil d' Hwf' Hlen'). simpl.
        apply window_eq; [exact Hwf|rewrite zlen_cons; unfold zlen; simpl; lia|].
        intros i Hi. replace i with (len d - 1) at 2 by lia. rewrite Hil, Hx.
        replace i with 0 by lia. reflexivity.
    - rewrite (positive_mod_pred (back d) (cap d) Hb).
      set (b' := if back d =? 0 then cap d - 1 else back d - 1).
      set (d' := mkDeque (Some l') (front d) b' (gen d + 1)).
      assert (Hb' : 0 <= b' < cap d) by (unfold b'; zcmp; lia).
      assert (Hwf' : wf d') by (apply wf_mk; rewrite Hl'; lia).
      assert (Hlen' : len d' = len d - 1).
      { unfold d'. rewrite len_mk, Hl'. unfold b'.
        destruct (wf_cases d Hwf) as [H2|[H2|H2]]; zcmp; lia. }
      assert (Hidx : forall i, idx d' i = idx d i).
      { intros i. unfold d'. rewrite idx_mk, Hl'. reflexivity. }
      exists x, d'. split; [reflexivity|]. split; [exact Hwf'|].
      split; [|split; [|split; [change (gen d') with (gen d + 1); lia|exact Hl']]].
      + apply clean_intro. intros j Hj Hnl. change (buf d') with l'.
        change (cap d') with (zlen l') in Hj. rewrite Hl' in Hj. unfold l'.
        destruct (Z.eq_dec (back d) j) as [He|He].
        * subst j. apply zget_upd_same. exact Hb.
        * rewrite zget_upd_other by lia. apply clean_elim; [exact Hcl|exact Hj|].
          intros i Hi. destruct (Z.eq_dec i (len d - 1)) as [Hz|Hz].
          -- subst i. rewrite Hil. exact He.
          -- rewrite <- Hidx. apply Hnl. lia.
      + pose proof (window_len d' Hwf') as Hwl'.
        apply window_eq; [exact Hwf|rewrite zlen_snoc; lia|].
        intros i Hi. destruct (Z.eq_dec i (len d - 1)) as [Hz|Hz].
        * subst i. rewrite Hil, Hx. replace (len d - 1) with (zlen (window d')) by lia.
          apply zget_snoc_last.
        * rewrite zget_app1 by lia. rewrite window_get by (exact Hwf' || lia).
          change (buf d') with l'. unfold l'. rewrite Hidx.
          apply zget_upd_other; [lia|]. rewrite <- Hil. intros Heq.
          apply idx_inj in Heq; [lia|exact Hwf|lia|lia].
  Qed.

  (* ------------------------------------------------------------------ *)
  (* Per-operation behaviour against the window                         *)
  (* ------------------------------------------------------------------ *)
  Lemma pop_front_spec d : wf d -> clean d ->
    match window d with
    | [] => pop_front d = Panic PEmpty
    | x :: w => exists d', pop_front d = Ok (x, d') /\ wf d' /\ clean d' /\ window d' = w /\
                           gen d < gen d' /\ cap d' = cap d
    end.
  Proof.
    intros Hwf Hcl. pose proof (window_len d Hwf) as Hwl.
    destruct (window d) as [|x w] eqn:E.
    - apply pop_front_empty. rewrite <- Hwl. reflexivity.
    - rewrite zlen_cons in Hwl. pose proof (zlen_nonneg w) as Hw.
      destruct (pop_front_ok d Hwf Hcl) as (x' & d' & Hp & Hwf' & Hcl' & Hwin & Hg & Hcp); [lia|].
      rewrite E in Hwin. inversion Hwin; subst x'. exists d'. repeat split; assumption.
  Qed.

  Lemma pop_back_spec d : wf d -> clean d ->
    match rev (window d) with
    | [] => pop_back d = Panic PEmpty
    | x :: r => exists d', pop_back d = Ok (x, d') /\ wf d' /\ clean d' /\ window d' = rev r /\
                           gen d < gen d' /\ cap d' = cap d
    end.
  Proof.
    intros Hwf Hcl. pose proof (window_len d Hwf) as Hwl.
    destruct (Z.eq_dec (len d) 0) as [H0|H0].
    - rewrite (window_nil d Hwf H0). simpl. apply pop_back_empty. exact H0.
    - pose proof (len_range d Hwf) as Hr.
      destruct (pop_back_ok d Hwf Hcl) as (x' & d' & Hp & Hwf' & Hcl' & Hwin & Hg & Hcp); [lia|].
      rewrite Hwin, rev_unit. exists d'. rewrite rev_involutive. repeat split; assumption.
  Qed.

  Lemma peek_front_spec d : wf d ->
    peek_front d = match window d with [] => Panic PIndex | x :: _ => Ok x end.
  Proof.
    intros Hwf. pose proof (window_len d Hwf) as Hwl. unfold peek_front.
    destruct (window d) as [|x w] eqn:E.
    - assert (H0 : len d = 0) by (rewrite <- Hwl; reflexivity).
      destruct (wf_cases d Hwf) as [(_ & Hf & [(Hn & Hb & Hc)|(Hn & Hb)])|[H1|H1]]; try lia.
      + rewrite Hb, Hf. simpl. rewrite zget_none; [reflexivity|]. fold (cap d). lia.
      + rewrite Hb. reflexivity.
    - rewrite zlen_cons in Hwl. pose proof (zlen_nonneg w) as Hw.
      assert (Hlen : 0 < len d) by lia.
      destruct (front_back_range d Hwf Hlen) as [Hf Hb].
      destruct (Z.eqb_spec (back d) (-1)) as [Hm|_]; [lia|].
      rewrite <- (idx_0 d Hwf Hlen), <- window_get, E by (exact Hwf || lia). reflexivity.
  Qed.

  Lemma peek_back_spec d : wf d ->
    peek_back d = match rev (window d) with [] => Panic PIndex | x :: _ => Ok x end.
  Proof.
    intros Hwf. pose proof (window_len d Hwf) as Hwl. unfold peek_back.
    destruct (Z.eq_dec (len d) 0) as [H0|H0].
    - rewrite (window_nil d Hwf H0). simpl.
      rewrite zget_none; [reflexivity|]. fold (cap d).
      destruct (wf_cases d Hwf) as [(_ & Hf & [(Hn & Hb & Hc)|(Hn & Hb)])|[H1|H1]]; lia.
    - pose proof (len_range d Hwf) as Hr. assert (Hlen : 0 < len d) by lia.
      rewrite <- (idx_last d Hwf Hlen), <- window_get by (exact Hwf || lia).
      destruct (rev (window d)) as [|x r] eqn:E.
      + apply (f_equal (@rev T)) in E. rewrite rev_involutive in E. rewrite E in Hwl.
        simpl in Hwl. unfold zlen in Hwl. simpl in Hwl. lia.
      + apply (f_equal (@rev T)) in E. rewrite rev_involutive in E. simpl in E.
        rewrite E in *. rewrite zlen_snoc in Hwl.
        replace (len d - 1) with (zlen (rev r)) by lia. rewrite zget_snoc_last. reflexivity.
  Qed.

  Lemma item_spec i d : wf d ->
    item i d = match zget (window d) i with Some x => Ok x | None => Panic PIndex end.
  Proof.
    intros Hwf. pose proof (window_len d Hwf) as Hwl. unfold item.
    destruct (Z.ltb_spec i 0) as [Hn|Hn]; simpl.
    - rewrite zget_neg by exact Hn. reflexivity.
    - destruct (Z.leb_spec (len d) i) as [Hge|Hlt].
      + rewrite zget_none by lia. reflexivity.
      + rewrite rem_idx, <- window_get by (exact Hwf || lia). reflexivity.
  Qed.

  Lemma set_spec i x d : wf d -> clean d ->
    match zset (window d) i x with
    | Some l' => exists d', set i x d = Ok d' /\ wf d' /\ clean d' /\ window d' = l' /\
                            gen d < gen d' /\ cap d' = cap d
    | None => set i x d = Panic PIndex
    end.
  Proof.
    intros Hwf Hcl. pose proof (window_len d Hwf) as Hwl. unfold set.
    destruct (Z.ltb_spec i 0) as [Hn|Hn]; simpl.
    - rewrite zset_none by lia. reflexivity.
    - destruct (Z.leb_spec (len d) i) as [Hge|Hlt].
      + rewrite zset_none by lia. reflexivity.
      + rewrite zset_ok by lia. rewrite rem_idx by (exact Hwf || lia).
        pose proof (idx_range d i Hwf (conj Hn Hlt)) as Hir.
        rewrite zset_ok by exact Hir.
        set (l' := upd (buf d) (Z.to_nat (idx d i)) x).
        set (d' := mkDeque (Some l') (front d) (back d) (gen d + 1)).
        assert (Hl' : zlen l' = cap d) by (unfold l'; apply zlen_upd).
        assert (Hlen : 0 < len d) by lia.
        destruct (front_back_range d Hwf Hlen) as [Hf Hb].
        assert (Hwf' : wf d') by (apply wf_mk; rewrite Hl'; lia).
        assert (Hidx : forall k, idx d' k = idx d k).
        { intros k. unfold d'. rewrite idx_mk, Hl'. reflexivity. }
        assert (Hlen' : len d' = len d).
        { unfold d'. rewrite len_mk, Hl'. unfold len.
          destruct (wf_cases d Hwf) as [H2|[(Hnl & H2)|(Hnl & H2)]]; [lia| |]; rewrite Hnl; reflexivity. }
        exists d'. split; [reflexivity|]. split; [exact Hwf'|].
        split; [|split; [|split; [change (gen d') with (gen d + 1); lia|exact Hl']]].
        * apply clean_intro. intros j Hj Hnl. change (buf d') with l'.
          change (cap d') with (zlen l') in Hj. rewrite Hl' in Hj. unfold l'.
          rewrite Hlen' in Hnl.
          rewrite zget_upd_other; [|lia|rewrite <- Hidx; apply Hnl; lia].
          apply clean_elim; [exact Hcl|exact Hj|]. intros k Hk. rewrite <- Hidx. apply Hnl. exact Hk.
        * apply window_eq; [exact Hwf'|rewrite zlen_upd; lia|].
          intros k Hk. rewrite Hlen' in Hk. change (buf d') with l'. unfold l'. rewrite Hidx.
          destruct (Z.eq_dec i k) as [He|He].
          -- subst k. rewrite zget_upd_same by lia. rewrite zget_upd_same by exact Hir. reflexivity.
          -- rewrite !zget_upd_other; [apply window_get; assumption|lia| |lia|exact He].
             intros Heq. apply idx_inj in Heq; [lia|exact Hwf|lia|lia].
  Qed.

  (* ------------------------------------------------------------------ *)
  (* Iterator                                                           *)
  (* ------------------------------------------------------------------ *)
  (* iterator [it] (of the current generation) has yielded k elements *)
  Definition iter_at d (it : iter) (k : Z) : Prop :=
    (len d = 0 /\ k = 0) \/
    (0 < len d /\ if it_done it then k = len d else (0 <= k < len d /\ it_i it = idx d k)).

  Lemma iter_at_range d it k : wf d -> iter_at d it k -> 0 <= k <= len d.
  Proof.
    intros Hwf [[H0 Hk]|[Hl Hd]]; [lia|]. destruct (it_done it); lia.
  Qed.

  Lemma iterate_at d : wf d -> iter_at d (iterate d) 0.
  Proof.
    intros Hwf. pose proof (len_range d Hwf) as Hr. unfold iter_at.
    destruct (Z.eq_dec (len d) 0) as [H0|H0]; [left; lia|]. right.
    split; [lia|]. cbn. split; [lia|]. symmetry. apply idx_0; [exact Hwf|lia].
  Qed.

  Lemma idx_succ d k : wf d -> 0 <= k -> k + 1 < len d ->
    Z.rem (idx d k + 1) (cap d) = idx d (k + 1).
  Proof.
    intros Hwf Hk Hk1. assert (Hkr : 0 <= k < len d) by lia.
    pose proof (idx_range d k Hwf Hkr) as Hir. rewrite rem_wrap by lia.
    unfold idx in *. destruct (wf_cases d Hwf) as [H1|[H1|H1]]; zcmp; lia.
  Qed.

  Lemma iter_next_stale d it : it_gen it <> gen d -> iter_next d it = (Panic PModified, it).
  Proof.
    intros Hne. unfold iter_next. destruct (Z.eqb_spec (it_gen it) (gen d)) as [He|_];
      [contradiction|reflexivity].
  Qed.

  Lemma iter_next_gen d it : it_gen (snd (iter_next d it)) = it_gen it.
  Proof.
    unfold iter_next. destruct (negb (it_gen it =? gen d)); [reflexivity|].
    destruct (len d =? 0); [reflexivity|]. destruct (it_done it); [reflexivity|].
    destruct (zget (buf d) (it_i it)); reflexivity.
  Qed.

  Lemma iter_next_fresh d it k : wf d -> it_gen it = gen d -> iter_at d it k ->
    (k < len d /\ exists x it', zget (window d) k = Some x /\
        iter_next d it = (Ok (Some x), it') /\ it_gen it' = gen d /\ iter_at d it' (k + 1)) \/
    (k = len d /\ iter_next d it = (Ok None, it)).
  Proof.
    intros Hwf Hg Hat. unfold iter_next. rewrite Hg, Z.eqb_refl. cbn [negb].
    destruct Hat as [[H0 Hk]|[Hl Hd]].
    - right. rewrite H0. split; [lia|reflexivity].
    - destruct (Z.eqb_spec (len d) 0) as [H0|_]; [lia|].
      destruct (it_done it) eqn:Ed.
      + right. split; [exact Hd|reflexivity].
      + destruct Hd as [Hk Hi]. left. split; [lia|].
        pose proof (idx_range d k Hwf Hk) as Hir.
        destruct (zget_in_range (buf d) (idx d k) Hir) as [x Hx].
        rewrite Hi, Hx. eexists x, _. split; [rewrite window_get by assumption; exact Hx|].
        split; [reflexivity|]. split; [reflexivity|].
        right. split; [exact Hl|]. cbn [it_done it_i orb].
        destruct (Z.eqb_spec (idx d k) (back d)) as [Hb|Hb].
        * pose proof (idx_back_inv d k Hwf Hk Hb). lia.
        * assert (Hk1 : k + 1 < len d).
          { destruct (Z.eq_dec k (len d - 1)) as [He|He]; [|lia].
            exfalso. apply Hb. subst k. apply idx_last; assumption. }
          split; [lia|]. apply idx_succ; [exact Hwf|lia|exact Hk1].
  Qed.

  Lemma drain_ok d : wf d -> forall n it k,
    it_gen it = gen d -> iter_at d it k -> (Z.to_nat (len d - k) < n)%nat ->
    drain n d it = Some (Ok (skipn (Z.to_nat k) (window d))).
  Proof.
    intros Hwf. induction n as [|n IH]; intros it k Hg Hat Hn; [lia|].
    pose proof (iter_at_range d it k Hwf Hat) as Hkr.
    cbn [drain].
    destruct (iter_next_fresh d it k Hwf Hg Hat)
      as [(Hk & x & it' & Hx & Hnx & Hg' & Hat')|(Hk & Hnx)]; rewrite Hnx.
    - rewrite (IH it' (k + 1) Hg' Hat') by lia.
      rewrite zget_nonneg in Hx by lia.
      rewrite (skipn_nth (window d) (Z.to_nat k) x Hx).
      replace (Z.to_nat (k + 1)) with (S (Z.to_nat k)) by lia. reflexivity.
    - rewrite skipn_all2; [reflexivity|].
      pose proof (window_len d Hwf) as Hwl. unfold zlen in Hwl. lia.
  Qed.

  Lemma drain_iterate d : wf d ->
    drain (S (Z.to_nat (len d))) d (iterate d) = Some (Ok (window d)).
  Proof.
    intros Hwf. rewrite (drain_ok d Hwf _ (iterate d) 0); [reflexivity|reflexivity| |].
    - apply iterate_at. exact Hwf.
    - replace (len d - 0) with (len d) by lia. lia.
  Qed.

  (* ------------------------------------------------------------------ *)
  (* One step of a history                                              *)
  (* ------------------------------------------------------------------ *)
  Definition gens_ok d (its : list iter) : Prop := Forall (fun it => it_gen it <= gen d) its.

  Definition Inv (s : st) : Prop :=
    wf (sd s) /\ clean (sd s) /\ capok (sd s) /\ gens_ok (sd s) (sits s).

  (* the step of the ideal sequence, told whether the implementation's allocation failed *)
  Definition sres d (o : op) : list T * out :=
    if alloc_fails d o then (window d, OPanic) else sstep (window d) o.

  Ltac fin :=
    repeat split; try assumption; try reflexivity; try (left; reflexivity);
    try (left; assumption); try (right; assumption); try (intros; assumption);
    try (intros; congruence).

  (* operations that never call make *)
  Ltac na := cbn [Spec.alloc_fails Spec.alloc_req sstep].

  Lemma step_seq d its o : wf d -> clean d -> capok d -> seq_op o = true ->
    exists d', step (mkSt d its) o = (mkSt d' its, snd (sres d o)) /\
      wf d' /\ clean d' /\ capok d' /\ window d' = fst (sres d o) /\
      (d' = d \/ gen d < gen d') /\
      (adds_or_removes o = true -> snd (sres d o) <> OPanic -> gen d < gen d') /\
      (cap d' = cap d \/ alloc_req d o = Some (cap d')) /\
      (alloc_fails d o = true -> d' = d).
  Proof.
    intros Hwf Hcl Hck Hseq.
    destruct o as [x|x| | | | |i|i x| |n|n| | |j]; try discriminate Hseq;
      unfold sres; cbn [Model.step sd sits adds_or_removes].
    - pose proof (push_front_ok x d Hwf Hcl Hck) as Hp.
      destruct (alloc_fails d (OpPushFront x)) eqn:Ef.
      + rewrite Hp. exists d. cbn [fst snd]. fin.
      + destruct Hp as (d' & Hp & Hwf' & Hcl' & Hck' & Hw' & Hg' & Hcap').
        rewrite Hp. exists d'. cbn [fst snd sstep]. fin.
    - pose proof (push_back_ok x d Hwf Hcl Hck) as Hp.
      destruct (alloc_fails d (OpPushBack x)) eqn:Ef.
      + rewrite Hp. exists d. cbn [fst snd]. fin.
      + destruct Hp as (d' & Hp & Hwf' & Hcl' & Hck' & Hw' & Hg' & Hcap').
        rewrite Hp. exists d'. cbn [fst snd sstep]. fin.
    - na. pose proof (pop_front_spec d Hwf Hcl) as Hp. destruct (window d) as [|x w] eqn:Ew.
      + rewrite Hp. exists d. cbn [fst snd]. fin.
      + destruct Hp as (d' & Hp & Hwf' & Hcl' & Hw' & Hg' & Hcp'). rewrite Hp. exists d'.
        assert (Hck' : capok d') by (unfold capok in *; lia). cbn [fst snd]. fin.
    - na. pose proof (pop_back_spec d Hwf Hcl) as Hp. destruct (rev (window d)) as [|x r].
      + rewrite Hp. exists d. cbn [fst snd]. fin.
      + destruct Hp as (d' & Hp & Hwf' & Hcl' & Hw' & Hg' & Hcp'). rewrite Hp. exists d'.
        assert (Hck' : capok d') by (unfold capok in *; lia). cbn [fst snd]. fin.
    - na. rewrite (peek_front_spec d Hwf). exists d. destruct (window d) as [|x w]; cbn [fst snd]; fin.
    - na. rewrite (peek_back_spec d Hwf). exists d. destruct (rev (window d)) as [|x r]; cbn [fst snd]; fin.
    - na. rewrite (item_spec i d Hwf). exists d. destruct (zget (window d) i) as [x|]; cbn [fst snd]; fin.
    - na. pose proof (set_spec i x d Hwf Hcl) as Hp. destruct (zset (window d) i x) as [l'|].
      + destruct Hp as (d' & Hp & Hwf' & Hcl' & Hw' & Hg' & Hcp'). rewrite Hp. exists d'.
        assert (Hck' : capok d') by (unfold capok in *; lia). cbn [fst snd]. fin.
      + rewrite Hp. exists d. cbn [fst snd]. fin.
    - na. exists d. cbn [fst snd]. rewrite (window_len d Hwf). fin.
    - pose proof (grow_ok n d Hwf Hcl Hck) as Hp.
      destruct (alloc_fails d (OpGrow n)) eqn:Ef.
      + rewrite Hp. exists d. cbn [fst snd]. fin.
      + destruct Hp as (d' & Hp & Hwf' & Hcl' & Hck' & Hw' & Hg' & Hcap'). rewrite Hp.
        assert (Hbig : grow_too_big n = false).
        { destruct (grow_too_big n) eqn:Eb; [|reflexivity].
          rewrite (grow_too_big_fails n d Hwf Hck Eb) in Ef. discriminate Ef. }
        cbn [sstep]. rewrite Hbig. exists d'. cbn [fst snd]. fin.
    - destruct (shrink_ok n d Hwf Hcl Hck) as [Ef Hp]. rewrite Ef. cbn [sstep].
      destruct (n <? 0).
      + rewrite Hp. exists d. cbn [fst snd]. fin.
      + destruct Hp as (d' & Hp & Hwf' & Hcl' & Hck' & Hw' & Hg' & Hcap'). rewrite Hp.
        exists d'. cbn [fst snd]. fin.
    - na. rewrite (drain_iterate d Hwf). exists d. cbn [fst snd]. fin.
  Qed.

  Lemma gens_ok_mono d d' its : gens_ok d its -> gen d <= gen d' -> gens_ok d' its.
  Proof.
    intros Hg Hle. unfold gens_ok in *. apply (Forall_impl _ (P := fun it => it_gen it <= gen d));
      [|exact Hg]. intros it Hit. cbn in Hit. lia.
  Qed.

  Lemma step_inv s o : Inv s ->
    Inv (fst (step s o)) /\
    window (sd (fst (step s o))) = fst (sres (sd s) o) /\
    (seq_op o = true -> snd (step s o) = snd (sres (sd s) o)) /\
    (sd (fst (step s o)) = sd s \/ gen (sd s) < gen (sd (fst (step s o)))) /\
    (adds_or_removes o = true -> snd (step s o) <> OPanic ->
       gen (sd s) < gen (sd (fst (step s o))) /\ sits (fst (step s o)) = sits s) /\
    (cap (sd (fst (step s o))) = cap (sd s) \/
       alloc_req (sd s) o = Some (cap (sd (fst (step s o))))) /\
    (alloc_fails (sd s) o = true -> fst (step s o) = s).
  Proof.
    destruct s as [d its]. intros (Hwf & Hcl & Hck & Hg). cbn [sd sits] in *.
    destruct (seq_op o) eqn:Es.
    - destruct (step_seq d its o Hwf Hcl Hck Es)
        as (d' & Hs & Hwf' & Hcl' & Hck' & Hw' & Hg' & Har & Hcap' & Hfail).
      rewrite Hs. cbn [fst snd sd sits].
      split; [|split; [exact Hw'|split; [reflexivity|split; [exact Hg'|split; [|split; [exact Hcap'|]]]]]].
      + split; [exact Hwf'|]. split; [exact Hcl'|]. split; [exact Hck'|]. cbn [sd sits].
        apply (gens_ok_mono d); [exact Hg|]. destruct Hg' as [He|Hlt]; [subst d'|]; lia.
      + intros Ha Hnp. split; [apply Har; assumption|reflexivity].
      + intros Hf. rewrite (Hfail Hf). reflexivity.
    - destruct o as [x|x| | | | |i|i x| |n|n| | |j]; try discriminate Es.
      + cbn [Model.step sd sits fst snd adds_or_removes].
        split; [|split; [reflexivity|split; [discriminate|split; [left; reflexivity|
          split; [discriminate|split; [left; reflexivity|intros Hf; cbn in Hf; discriminate Hf]]]]]].
        split; [exact Hwf|]. split; [exact Hcl|]. split; [exact Hck|]. cbn [sd sits].
        apply Forall_app. split; [exact Hg|].
        constructor; [cbn; lia|constructor].
      + cbn [Model.step sd sits adds_or_removes]. destruct (nth_error its j) as [it|] eqn:En.
        * pose proof (iter_next_gen d it) as Hgn.
          destruct (iter_next d it) as [r it'] eqn:Ei. cbn [fst snd sd sits] in *.
          split; [|split; [reflexivity|split; [discriminate|split; [left; reflexivity|
            split; [discriminate|split; [left; reflexivity|intros Hf; cbn in Hf; discriminate Hf]]]]]].
          split; [exact Hwf|]. split; [exact Hcl|]. split; [exact Hck|]. cbn [sd sits].
          apply Forall_upd; [exact Hg|].
          rewrite Hgn. unfold gens_ok in Hg. rewrite Forall_forall in Hg. apply Hg.
          apply nth_error_In with (n := j). exact En.
        * cbn [fst snd sd sits].
          split; [|split; [reflexivity|split; [discriminate|split; [left; reflexivity|
            split; [discriminate|split; [left; reflexivity|intros Hf; cbn in Hf; discriminate Hf]]]]]].
          split; [exact Hwf|]. split; [exact Hcl|]. split; [exact Hck|]. exact Hg.
  Qed.

  (* ------------------------------------------------------------------ *)
  (* Histories                                                          *)
  (* ------------------------------------------------------------------ *)
  Lemma Inv_st0 : Inv (@st0 T).
  Proof.
    split; [|split; [|split]].
    - cbn. split; reflexivity.
    - intros j Hj. cbn in Hj. lia.
    - unfold capok. rewrite alloc_max_eq. cbn. lia.
    - constructor.
  Qed.

  Lemma run_state_Inv ops : forall s, Inv s -> Inv (run_state s ops).
  Proof.
    induction ops as [|o ops IH]; intros s HI; cbn [Model.run_state]; [exact HI|].
    apply IH. apply (step_inv s o HI).
  Qed.

  Lemma reach_inv ops : Inv (run_state st0 ops).
  Proof. apply run_state_Inv. exact Inv_st0. Qed.

  (* ---- histories within the allocation budget: the ideal sequence alone decides ---- *)
  Definition Bud (w : Z) d : Prop :=
    0 <= w /\ len d <= w /\ cap d <= Z.max minSize (growMul * w).

  Lemma op_cost_nonneg (o : op) : 0 <= op_cost o.
  Proof.
    destruct o as [x|x| | | | |i|i x| |n|n| | |j]; cbn [op_cost]; try lia.
    destruct (Z.ltb_spec 0 (wrap64 n)) as [Hp|Hp]; cbn [andb]; [|lia].
    destruct (negb (grow_too_big n)); lia.
  Qed.

  Lemma cost_nonneg (ops : list op) : 0 <= cost ops.
  Proof.
    induction ops as [|o ops IH]; cbn [cost]; [lia|]. pose proof (op_cost_nonneg o). lia.
  Qed.

  Lemma cost_app (ops1 ops2 : list op) : cost (ops1 ++ ops2) = cost ops1 + cost ops2.
  Proof. induction ops1 as [|o ops1 IH]; cbn [cost app]; [reflexivity|]. rewrite IH. lia. Qed.

  Lemma bmax_mono w w' : 0 <= w <= w' ->
    Z.max minSize (growMul * w) <= Z.max minSize (growMul * w').
  Proof.
    intros Hw. assert (Hm : growMul * w <= growMul * w') by (apply Z.mul_le_mono_nonneg_l; lia). lia.
  Qed.

  Lemma bmax_ge w : 0 <= w -> w <= Z.max minSize (growMul * w).
  Proof.
    intros Hw. assert (Hm : 1 * w <= growMul * w) by (apply Z.mul_le_mono_nonneg_r; lia). lia.
  Qed.

  Lemma sstep_len_cost (l : list T) (o : op) : zlen (fst (sstep l o)) <= zlen l + op_cost o.
  Proof.
    pose proof (op_cost_nonneg o) as Hc.
    destruct o as [x|x| | | | |i|i x| |n|n| | |j]; cbn [sstep op_cost] in *.
    - cbn [fst]. rewrite zlen_cons. lia.
    - cbn [fst]. rewrite zlen_snoc. lia.
    - destruct l as [|x l']; cbn [fst]; [lia|]. rewrite zlen_cons. lia.
    - destruct (rev l) as [|x r] eqn:Er; cbn [fst]; [lia|].
      apply (f_equal (@rev T)) in Er. rewrite rev_involutive in Er. subst l. cbn [rev].
      rewrite zlen_snoc. lia.
    - destruct l; cbn [fst]; lia.
    - destruct (rev l); cbn [fst]; lia.
    - destruct (zget l i); cbn [fst]; lia.
    - unfold zset. destruct ((i <? 0) || (zlen l <=? i)); cbn [fst]; [lia|]. rewrite zlen_upd. lia.
    - cbn [fst]. lia.
    - destruct (grow_too_big n); cbn [fst]; lia.
    - destruct (n <? 0); cbn [fst]; lia.
    - cbn [fst]. lia.
    - cbn [fst]. lia.
    - cbn [fst]. lia.
  Qed.

  Lemma step_budget s o w : Inv s -> Bud w (sd s) ->
    Z.max minSize (growMul * (w + op_cost o)) <= alloc_max ->
    sres (sd s) o = sstep (window (sd s)) o /\ Bud (w + op_cost o) (sd (fst (step s o))).
  Proof.
    intros HI HB Hbud.
    destruct (step_inv s o HI) as (HI' & Hw & _ & _ & _ & Hcap & _).
    destruct HI as (Hwf & Hcl & Hck & Hg). destruct HI' as (Hwf' & _ & Hck' & _).
    set (d := sd s) in *. set (d' := sd (fst (step s o))) in *.
    pose proof (window_len d Hwf) as Hwl. pose proof (window_len d' Hwf') as Hwl'.
    rewrite Hw in Hwl'.
    destruct HB as (Hw0 & Hlen & Hcapb). pose proof (len_range d Hwf) as Hr.
    pose proof (op_cost_nonneg o) as Hc0.
    assert (Hmono : Z.max minSize (growMul * w) <= Z.max minSize (growMul * (w + op_cost o)))
      by (apply bmax_mono; lia).
    assert (Hge : w + op_cost o <= Z.max minSize (growMul * (w + op_cost o)))
      by (apply bmax_ge; lia).
    pose proof (cap_nonneg d) as Hcd0.
    unfold capok in Hck, Hck'.
    (* the size maybeExpand asks for, when the deque is full *)
    assert (Hexp : len d = cap d -> 0 <= expand_req d <= Z.max minSize (growMul * w)).
    { intros He. destruct (expand_req_val d) as [Hv Hlt]; [lia|exact Hck|]. rewrite Hv.
      assert (Hm : cap d * growMul <= growMul * w)
        by (rewrite (Z.mul_comm (cap d)); apply Z.mul_le_mono_nonneg_l; lia).
      lia. }
    (* the size Grow asks for, when the argument is not beyond alloc_max *)
    assert (Hgr : forall n, cap d - len d < wrap64 n -> grow_too_big n = false ->
              op_cost (OpGrow n : op) = 2 * wrap64 n /\
              wrap64 (cap d + wrap64 n) = cap d + wrap64 n).
    { intros n Hlt Hb. unfold grow_too_big in Hb. apply Z.ltb_ge in Hb. rewrite alloc_max_eq in *.
      split.
      - cbn [op_cost]. unfold grow_too_big. rewrite alloc_max_eq.
        destruct (Z.ltb_spec 0 (wrap64 n)) as [Hp|Hp]; [|lia].
        destruct (Z.ltb_spec 140737488355328 (wrap64 n)) as [Hq|Hq]; [lia|]. reflexivity.
      - apply wrap64_small. lia. }
    assert (Hs : sres d o = sstep (window d) o).
    { unfold sres. destruct (alloc_fails d o) eqn:Ef; [|reflexivity].
      destruct o as [x|x| | | | |i|i x| |n|n| | |j];
        try (cbn in Ef; discriminate Ef).
      - exfalso. cbn [op_cost] in *.
        rewrite alloc_fails_push_front in Ef. apply andb_true_iff in Ef. destruct Ef as [E1 E2].
        apply Z.eqb_eq in E1. apply negb_true_iff, make_ok_false_iff in E2.
        specialize (Hexp E1). lia.
      - exfalso. cbn [op_cost] in *.
        rewrite alloc_fails_push_back in Ef. apply andb_true_iff in Ef. destruct Ef as [E1 E2].
        apply Z.eqb_eq in E1. apply negb_true_iff, make_ok_false_iff in E2.
        specialize (Hexp E1). lia.
      - cbn [sstep]. destruct (grow_too_big n) eqn:Eb; [reflexivity|]. exfalso.
        unfold Spec.alloc_fails in Ef. rewrite alloc_req_grow in Ef.
        destruct (Z.ltb_spec (cap d - len d) (wrap64 n)) as [Hlt|Hge']; [|discriminate Ef].
        apply negb_true_iff, make_ok_false_iff in Ef.
        destruct (Hgr n Hlt Eb) as [Hcost Hwr]. rewrite Hwr in Ef. rewrite Hcost in *. lia.
      - exfalso. destruct (shrink_ok n d Hwf Hcl Hck) as [Ef' _]. congruence. }
    split; [exact Hs|].
    split; [lia|]. split.
    - rewrite <- Hwl', Hs. pose proof (sstep_len_cost (window d) o) as Hl. lia.
    - destruct Hcap as [Hc|Hc]; [lia|].
      destruct o as [x|x| | | | |i|i x| |n|n| | |j]; try (cbn in Hc; discriminate Hc);
        cbn [op_cost] in *.
      + rewrite alloc_req_push_front in Hc.
        destruct (Z.eqb_spec (len d) (cap d)) as [He|He]; [|discriminate Hc].
        injection Hc as Hc'. specialize (Hexp He). lia.
      + rewrite alloc_req_push_back in Hc.
        destruct (Z.eqb_spec (len d) (cap d)) as [He|He]; [|discriminate Hc].
        injection Hc as Hc'. specialize (Hexp He). lia.
      + rewrite alloc_req_grow in Hc.
        destruct (Z.ltb_spec (cap d - len d) (wrap64 n)) as [Hlt|Hge']; [|discriminate Hc].
        injection Hc as Hc'. pose proof (cap_nonneg d') as Hd0.
        assert (Hmk : make_ok (wrap64 (cap d + wrap64 n)) = true)
          by (apply make_ok_iff; rewrite Hc'; lia).
        pose proof (grow_req_ge n d Hwf Hck Hlt Hmk) as Hreq.
        assert (Eb : grow_too_big n = false).
        { unfold grow_too_big. apply Z.ltb_ge. lia. }
        destruct (Hgr n Hlt Eb) as [Hcost _]. cbn [op_cost]. rewrite Hcost in *. lia.
      + cbn [Spec.alloc_req] in Hc. destruct (Z.ltb_spec n 0) as [Hn|Hn]; [discriminate Hc|].
        destruct (Z.ltb_spec n (cap d - len d)) as [Hlt|Hge']; [|discriminate Hc].
        injection Hc as Hc'. rewrite alloc_max_eq in *. rewrite wrap64_small in Hc' by lia. lia.
  Qed.

  Lemma Bud_st0 : Bud 0 (sd (@st0 T)).
  Proof. unfold Bud. cbn. lia. Qed.

  Lemma run_budget ops : forall s w, Inv s -> Bud w (sd s) ->
    Z.max minSize (growMul * (w + cost ops)) <= alloc_max ->
    window (sd (run_state s ops)) = srun_state (window (sd s)) ops /\
    Bud (w + cost ops) (sd (run_state s ops)) /\
    (forallb seq_op ops = true -> run s ops = srun (window (sd s)) ops).
  Proof.
    induction ops as [|o ops IH]; intros s w HI HB Hbud; cbn [Model.run_state srun_state Model.run srun cost] in *.
    - split; [reflexivity|]. split; [|reflexivity]. replace (w + 0) with w by lia. exact HB.
    - pose proof (op_cost_nonneg o) as Hc0. pose proof (cost_nonneg ops) as Hc1.
      assert (Hw0 : 0 <= w) by apply HB.
      assert (Hb1 : Z.max minSize (growMul * (w + op_cost o)) <= alloc_max).
      { pose proof (bmax_mono (w + op_cost o) (w + (op_cost o + cost ops))) as Hm. lia. }
      destruct (step_budget s o w HI HB Hb1) as [Hs HB'].
      destruct (step_inv s o HI) as (HI' & Hw & Hout & _).
      rewrite Z.add_assoc in Hbud |- *.
      destruct (IH _ _ HI' HB' Hbud) as (H1 & H2 & H3).
      rewrite Hs in Hw, Hout.
      split; [rewrite H1, Hw; reflexivity|]. split; [exact H2|].
      intros Hall. cbn [forallb] in Hall. apply andb_true_iff in Hall. destruct Hall as [Ho Hall].
      specialize (Hout Ho). specialize (H3 Hall).
      destruct (step s o) as [s' r]. destruct (sstep (window (sd s)) o) as [l' r'].
      cbn [fst snd] in *. subst r' l'. f_equal. exact H3.
  Qed.

  Lemma reach_budget ops : in_budget ops ->
    window (sd (run_state st0 ops)) = srun_state [] ops /\
    Bud (cost ops) (sd (run_state st0 ops)) /\
    (forallb seq_op ops = true -> run st0 ops = srun [] ops).
  Proof.
    intros Hb. apply (run_budget ops st0 0 Inv_st0 Bud_st0). exact Hb.
  Qed.

  Lemma sstep_panic (l : list T) o : seq_op o = true ->
    (snd (sstep l o) = OPanic <-> must_panic l o = true).
  Proof.
    intros Hs. destruct o as [x|x| | | | |i|i x| |n|n| | |j]; try discriminate Hs;
      cbn [sstep must_panic].
    - cbn; split; discriminate.
    - cbn; split; discriminate.
    - destruct l; cbn; split; congruence.
    - destruct l as [|a l]; [cbn; split; reflexivity|]. cbn [rev].
      destruct (rev l ++ [a]) as [|y r] eqn:E; [destruct (rev l); discriminate E|].
      cbn; split; discriminate.
    - destruct l; cbn; split; congruence.
    - destruct l as [|a l]; [cbn; split; reflexivity|]. cbn [rev].
      destruct (rev l ++ [a]) as [|y r] eqn:E; [destruct (rev l); discriminate E|].
      cbn; split; discriminate.
    - destruct (zget l i) as [x|] eqn:E; cbn [snd].
      + apply zget_Some_range in E. split; [discriminate|]. intros Hb.
        apply orb_true_iff in Hb. destruct Hb as [Hb|Hb]; [apply Z.ltb_lt in Hb|apply Z.leb_le in Hb]; lia.
      + apply zget_none_inv in E. split; [intros _|reflexivity].
        apply orb_true_iff. destruct E as [E|E]; [left; apply Z.ltb_lt|right; apply Z.leb_le]; exact E.
    - unfold zset. destruct ((i <? 0) || (zlen l <=? i)); cbn; split; congruence.
    - cbn; split; discriminate.
    - destruct (grow_too_big n); cbn; split; congruence.
    - destruct (n <? 0); cbn; split; congruence.
    - cbn; split; discriminate.
  Qed.

  Lemma step_panic_same s o : seq_op o = true -> snd (step s o) = OPanic -> fst (step s o) = s.
  Proof.
    destruct s as [d its]. intros Hs.
    destruct o as [x|x| | | | |i|i x| |n|n| | |j]; try discriminate Hs; cbn [Model.step sd sits];
      repeat match goal with
             | |- context [match ?e with _ => _ end] => destruct e
             end; cbn [fst snd]; intros Hp; try discriminate Hp; reflexivity.
  Qed.

  (* ---- C04 ---- *)
  Lemma refinement_sec : forall ops,
      forallb seq_op ops = true -> in_budget ops -> run st0 ops = srun [] ops.
  Proof using All.
    intros ops Hall Hb. apply (reach_budget ops Hb). exact Hall.
  Qed.

  Lemma abs_sec : forall ops, in_budget ops ->
      window (sd (run_state st0 ops)) = srun_state [] ops.
  Proof using All.
    intros ops Hb. apply (reach_budget ops Hb).
  Qed.

  (* all histories, no budget: one more operation from any reachable state *)
  Lemma step_exact_sec : forall ops o,
      seq_op o = true ->
      let s := run_state st0 ops in
      if alloc_fails (sd s) o then step s o = (s, OPanic)
      else snd (step s o) = snd (sstep (window (sd s)) o) /\
           window (sd (fst (step s o))) = fst (sstep (window (sd s)) o).
  Proof using All.
    intros ops o Hs s. pose proof (reach_inv ops) as HI. fold s in HI.
    destruct (step_inv s o HI) as (_ & Hw & Hout & _ & _ & _ & Hfail). specialize (Hout Hs).
    unfold sres in Hw, Hout. destruct (alloc_fails (sd s) o).
    - specialize (Hfail eq_refl). cbn [snd] in Hout.
      destruct (step s o) as [s' r]. cbn [fst snd] in *. subst s' r. reflexivity.
    - split; assumption.
  Qed.

  Lemma grow_shrink_preserve_sec : forall ops n,
      let d := sd (run_state st0 ops) in
      (forall d', grow n d = Ok d' -> window d' = window d) /\
      (forall d', shrink n d = Ok d' -> window d' = window d) /\
      (shrink n d = Panic PNeg <-> n < 0) /\
      (0 <= n -> exists d', shrink n d = Ok d').
  Proof using All.
    intros ops n d. destruct (reach_inv ops) as (Hwf & Hcl & Hck & _). fold d in Hwf, Hcl, Hck.
    destruct (shrink_ok n d Hwf Hcl Hck) as [_ Hs].
    pose proof (grow_ok n d Hwf Hcl Hck) as Hgr.
    split; [|split; [|split]].
    - intros d' Hd'. destruct (alloc_fails d (OpGrow n)).
      + rewrite Hgr in Hd'. discriminate Hd'.
      + destruct Hgr as (d'' & Hgr & _ & _ & _ & Hw & _). rewrite Hgr in Hd'.
        injection Hd' as Hd'. subst d''. exact Hw.
    - intros d' Hd'. destruct (Z.ltb_spec n 0) as [Hn|Hn].
      + rewrite Hs in Hd'. discriminate Hd'.
      + destruct Hs as (d'' & Hs & _ & _ & _ & Hw & _). rewrite Hs in Hd'.
        injection Hd' as Hd'. subst d''. exact Hw.
    - destruct (Z.ltb_spec n 0) as [Hn|Hn].
      + split; [intros _; exact Hn|intros _; exact Hs].
      + destruct Hs as (d'' & Hs & _). rewrite Hs. split; [discriminate|lia].
    - intros Hn. destruct (Z.ltb_spec n 0) as [Hn'|_]; [lia|].
      destruct Hs as (d'' & Hs & _). exists d''. exact Hs.
  Qed.

  (* Grow and the allocator *)
  Lemma grow_alloc_sec : forall ops n,
      let s := run_state st0 ops in
      let d := sd s in
      (grow n d = Panic PAlloc <-> alloc_fails d (OpGrow n) = true) /\
      (alloc_fails d (OpGrow n) = true -> step s (OpGrow n) = (s, OPanic)) /\
      (alloc_fails d (OpGrow n) = false -> exists d', grow n d = Ok d' /\ window d' = window d) /\
      (grow_too_big n = true -> alloc_fails d (OpGrow n) = true).
  Proof using All.
    intros ops n s d. pose proof (reach_inv ops) as HI. fold s in HI.
    destruct HI as (Hwf & Hcl & Hck & _). fold d in Hwf, Hcl, Hck.
    pose proof (grow_ok n d Hwf Hcl Hck) as Hgr.
    split; [|split; [|split]].
    - destruct (alloc_fails d (OpGrow n)).
      + split; [reflexivity|intros _; exact Hgr].
      + destruct Hgr as (d' & Hgr & _). rewrite Hgr. split; discriminate.
    - intros Hf. cbn [Model.step]. fold d. rewrite Hf in Hgr. rewrite Hgr. reflexivity.
    - intros Hf. rewrite Hf in Hgr. destruct Hgr as (d' & Hgr & _ & _ & _ & Hw & _).
      exists d'. split; assumption.
    - apply grow_too_big_fails; assumption.
  Qed.

  Lemma panics_exact_sec : forall ops o,
      seq_op o = true ->
      let s := run_state st0 ops in
      (snd (step s o) = OPanic <->
         must_panic (window (sd s)) o = true \/ alloc_fails (sd s) o = true) /\
      (snd (step s o) = OPanic -> fst (step s o) = s) /\
      (in_budget (ops ++ [o]) ->
         (snd (step s o) = OPanic <-> must_panic (window (sd s)) o = true)).
  Proof using All.
    intros ops o Hs s. pose proof (reach_inv ops) as HI. fold s in HI.
    destruct (step_inv s o HI) as (_ & _ & Hout & _). specialize (Hout Hs).
    split; [|split].
    - rewrite Hout. unfold sres. destruct (alloc_fails (sd s) o); cbn [snd].
      + split; [intros _; right; reflexivity|reflexivity].
      + rewrite (sstep_panic _ o Hs). split; [intros Hm; left; exact Hm|].
        intros [Hm|Hm]; [exact Hm|discriminate Hm].
    - apply step_panic_same. exact Hs.
    - intros Hb. unfold Spec.in_budget in Hb. rewrite cost_app in Hb. cbn [cost] in Hb.
      rewrite Z.add_0_r in Hb.
      assert (Hb0 : in_budget ops).
      { unfold Spec.in_budget. pose proof (op_cost_nonneg o) as Hc0. pose proof (cost_nonneg ops) as Hc1.
        pose proof (bmax_mono (cost ops) (cost ops + op_cost o)) as Hm. lia. }
      destruct (reach_budget ops Hb0) as (_ & HB & _). fold s in HB.
      destruct (step_budget s o (cost ops) HI HB Hb) as [Hsr _].
      rewrite Hout, Hsr. apply sstep_panic. exact Hs.
  Qed.

  Lemma no_retention_sec : forall ops, clean (sd (run_state st0 ops)).
  Proof using All.
    intros ops. apply (reach_inv ops).
  Qed.

  (* ---- C15 ---- *)
  Lemma iter_unchanged_sec : forall ops,
      let d := sd (run_state st0 ops) in
      drain (S (Z.to_nat (len d))) d (iterate d) = Some (Ok (window d)).
  Proof using All.
    intros ops d. apply drain_iterate. apply (reach_inv ops).
  Qed.

  Lemma iter_add_remove_panics_sec : forall ops o it,
      let s := run_state st0 ops in
      adds_or_removes o = true ->
      snd (step s o) <> OPanic ->
      In it (sits (fst (step s o))) ->
      fst (iter_next (sd (fst (step s o))) it) = Panic PModified.
  Proof using All.
    intros ops o it s Ha Hnp Hin. pose proof (reach_inv ops) as HI. fold s in HI.
    destruct (step_inv s o HI) as (_ & _ & _ & _ & Har & _).
    destruct (Har Ha Hnp) as [Hlt Hsits]. rewrite Hsits in Hin.
    destruct HI as (_ & _ & _ & Hg). unfold gens_ok in Hg. rewrite Forall_forall in Hg.
    specialize (Hg it Hin). cbn beta in Hg.
    rewrite iter_next_stale by lia. reflexivity.
  Qed.

  Notation ghost := (@ghost T).
  Notation grun := (grun zero minSize growMul).

  Definition ghost_rel d (it : iter) (g : ghost) : Prop :=
    ghost_ok g /\ it_gen it <= gen d /\
    (it_gen it = gen d -> g_snap g = window d /\ iter_at d it (zlen (g_yield g))).

  Definition GInv (s : st) (gs : list ghost) : Prop :=
    Inv s /\ Forall2 (ghost_rel (sd s)) (sits s) gs.

  Lemma ghost_rel_mono d d' it g :
    (d' = d \/ gen d < gen d') -> ghost_rel d it g -> ghost_rel d' it g.
  Proof.
    intros [He|Hlt] (Hok & Hle & Hf); [subst d'; split; [exact Hok|split; [exact Hle|exact Hf]]|].
    split; [exact Hok|]. split; [lia|]. intros Heq. lia.
  Qed.

  Lemma ghost_step_seq (s : st) (gs : list ghost) o : seq_op o = true -> ghost_step s gs o = gs.
  Proof. intros Hs. destruct o; try reflexivity; discriminate Hs. Qed.

  Lemma gstep_inv s gs o : GInv s gs -> GInv (fst (step s o)) (ghost_step s gs o).
  Proof.
    intros [HI HF]. pose proof (step_inv s o HI) as (HI' & _). split; [exact HI'|].
    destruct s as [d its]. destruct HI as (Hwf & Hcl & Hck & Hg). cbn [sd sits] in *.
    destruct (seq_op o) eqn:Es.
    - rewrite (ghost_step_seq _ gs o Es).
      destruct (step_seq d its o Hwf Hcl Hck Es) as (d' & Hs & _ & _ & _ & _ & Hg' & _).
      rewrite Hs. cbn [fst sd sits].
      apply (Forall2_weaken (ghost_rel d)); [|exact HF].
      intros it g Hrel. apply (ghost_rel_mono d); assumption.
    - destruct o as [x|x| | | | |i|i x| |n|n| | |j]; try discriminate Es.
      + cbn [Model.step ghost_step sd sits fst]. apply Forall2_app; [exact HF|].
        constructor; [|constructor]. split; [|split].
        * split; [exists (window d); reflexivity|]. cbn. discriminate.
        * cbn. lia.
        * intros _. cbn [g_snap g_yield]. split; [reflexivity|]. apply iterate_at. exact Hwf.
      + cbn [Model.step ghost_step sd sits]. destruct (nth_error its j) as [it|] eqn:En; [|exact HF].
        destruct (Forall2_nth _ _ _ j it HF En) as (g & Eg & Hok & Hle & Hfresh). rewrite Eg.
        destruct (Z.eq_dec (it_gen it) (gen d)) as [He|Hne].
        * destruct (Hfresh He) as [Hsnap Hat].
          destruct (iter_next_fresh d it _ Hwf He Hat)
            as [(Hk & x & it' & Hx & Hnx & Hg' & Hat')|(Hk & Hnx)];
            rewrite Hnx; cbn [fst snd sd sits]; (apply Forall2_upd; [exact HF|]).
          -- destruct Hok as [Hpre Hend]. split; [|split].
             ++ split; cbn [g_snap g_yield g_ended].
                ** apply prefix_snoc; [exact Hpre|]. rewrite Hsnap. exact Hx.
                ** intros Hen. exfalso. apply Hend in Hen. rewrite Hen, Hsnap in Hk.
                   rewrite (window_len d Hwf) in Hk. lia.
             ++ lia.
             ++ intros _. cbn [g_snap g_yield]. split; [exact Hsnap|].
                rewrite zlen_snoc. exact Hat'.
          -- destruct Hok as [Hpre Hend]. split; [|split].
             ++ split; cbn [g_snap g_yield g_ended]; [exact Hpre|]. intros _.
                apply prefix_full; [exact Hpre|]. rewrite Hsnap, (window_len d Hwf). exact Hk.
             ++ exact Hle.
             ++ intros _. cbn [g_snap g_yield]. split; [exact Hsnap|exact Hat].
        * rewrite (iter_next_stale d it Hne). cbn [fst snd sd sits].
          apply Forall2_upd; [exact HF|]. split; [exact Hok|]. split; [exact Hle|].
          intros Heq. contradiction.
  Qed.

  Lemma grun_inv ops : forall s gs, GInv s gs ->
    GInv (fst (grun s gs ops)) (snd (grun s gs ops)).
  Proof.
    induction ops as [|o ops IH]; intros s gs HG; cbn [Spec.grun]; [exact HG|].
    apply IH. apply gstep_inv. exact HG.
  Qed.

  Lemma ghost_rel_ok d its gs : Forall2 (ghost_rel d) its gs -> Forall ghost_ok gs.
  Proof.
    intros HF. induction HF as [|it g its gs Hr _ IH]; constructor; [apply Hr|exact IH].
  Qed.

  Lemma iter_ghost_ok_sec : forall ops, Forall ghost_ok (snd (grun st0 [] ops)).
  Proof using All.
    intros ops. assert (HG : GInv st0 []) by (split; [exact Inv_st0|constructor]).
    destruct (grun_inv ops st0 [] HG) as [_ HF]. exact (ghost_rel_ok _ _ _ HF).
  Qed.
End DequeProofs.

(* ------------------------------------------------------------------ *)
(* Exported statements (the exact shapes used by Properties/C04.v and   *)
(* Properties/C15_deque.v)                                             *)
(* ------------------------------------------------------------------ *)
Lemma deque_refinement {T : Type} (zero : T) (minSize growMul : Z)
  (Hmin : 1 <= minSize) (Hgrow : 2 <= growMul <= 32768) :
  forall ops, forallb seq_op ops = true -> in_budget minSize growMul ops ->
              run zero minSize growMul st0 ops = srun [] ops.
Proof. exact (@refinement_sec T zero minSize growMul Hmin Hgrow). Qed.

Lemma deque_abs {T : Type} (zero : T) (minSize growMul : Z)
  (Hmin : 1 <= minSize) (Hgrow : 2 <= growMul <= 32768) :
  forall ops, in_budget minSize growMul ops ->
              window (sd (run_state zero minSize growMul st0 ops)) = srun_state [] ops.
Proof. exact (@abs_sec T zero minSize growMul Hmin Hgrow). Qed.

Lemma deque_step_exact {T : Type} (zero : T) (minSize growMul : Z)
  (Hmin : 1 <= minSize) (Hgrow : 2 <= growMul <= 32768) :
  forall ops o,
    seq_op o = true ->
    let s := run_state zero minSize growMul st0 ops in
    if alloc_fails minSize growMul (sd s) o then step zero minSize growMul s o = (s, OPanic)
    else snd (step zero minSize growMul s o) = snd (sstep (window (sd s)) o) /\
         window (sd (fst (step zero minSize growMul s o))) = fst (sstep (window (sd s)) o).
Proof. exact (@step_exact_sec T zero minSize growMul Hmin Hgrow). Qed.

Lemma deque_grow_shrink_preserve {T : Type} (zero : T) (minSize growMul : Z)
  (Hmin : 1 <= minSize) (Hgrow : 2 <= growMul <= 32768) :
  forall ops n,
    let d := sd (run_state zero minSize growMul st0 ops) in
    (forall d', grow zero n d = Ok d' -> window d' = window d) /\
    (forall d', shrink zero n d = Ok d' -> window d' = window d) /\
    (shrink zero n d = Panic PNeg <-> n < 0) /\
    (0 <= n -> exists d', shrink zero n d = Ok d').
Proof. exact (@grow_shrink_preserve_sec T zero minSize growMul Hmin Hgrow). Qed.

Lemma deque_grow_alloc {T : Type} (zero : T) (minSize growMul : Z)
  (Hmin : 1 <= minSize) (Hgrow : 2 <= growMul <= 32768) :
  forall ops n,
    let s := run_state zero minSize growMul st0 ops in
    let d := sd s in
    (grow zero n d = Panic PAlloc <-> alloc_fails minSize growMul d (OpGrow n) = true) /\
    (alloc_fails minSize growMul d (OpGrow n) = true ->
       step zero minSize growMul s (OpGrow n) = (s, OPanic)) /\
    (alloc_fails minSize growMul d (OpGrow n) = false ->
       exists d', grow zero n d = Ok d' /\ window d' = window d) /\
    (grow_too_big n = true -> alloc_fails minSize growMul d (OpGrow n) = true).
Proof. exact (@grow_alloc_sec T zero minSize growMul Hmin Hgrow). Qed.

Lemma deque_panics_exact {T : Type} (zero : T) (minSize growMul : Z)
  (Hmin : 1 <= minSize) (Hgrow : 2 <= growMul <= 32768) :
  forall ops o,
    seq_op o = true ->
    let s := run_state zero minSize growMul st0 ops in
    (snd (step zero minSize growMul s o) = OPanic <->
       must_panic (window (sd s)) o = true \/ alloc_fails minSize growMul (sd s) o = true) /\
    (snd (step zero minSize growMul s o) = OPanic -> fst (step zero minSize growMul s o) = s) /\
    (in_budget minSize growMul (ops ++ [o]) ->
       (snd (step zero minSize growMul s o) = OPanic <-> must_panic (window (sd s)) o = true)).
Proof. exact (@panics_exact_sec T zero minSize growMul Hmin Hgrow). Qed.

Lemma deque_no_retention {T : Type} (zero : T) (minSize growMul : Z)
  (Hmin : 1 <= minSize) (Hgrow : 2 <= growMul <= 32768) :
  forall ops, clean zero (sd (run_state zero minSize growMul st0 ops)).
Proof. exact (@no_retention_sec T zero minSize growMul Hmin Hgrow). Qed.

Lemma deque_iter_unchanged {T : Type} (zero : T) (minSize growMul : Z)
  (Hmin : 1 <= minSize) (Hgrow : 2 <= growMul <= 32768) :
  forall ops,
    let d := sd (run_state zero minSize growMul st0 ops) in
    drain (S (Z.to_nat (len d))) d (iterate d) = Some (Ok (window d)).
Proof. exact (@iter_unchanged_sec T zero minSize growMul Hmin Hgrow). Qed.

Lemma deque_iter_ghost_ok {T : Type} (zero : T) (minSize growMul : Z)
  (Hmin : 1 <= minSize) (Hgrow : 2 <= growMul <= 32768) :
  forall ops, Forall ghost_ok (snd (grun zero minSize growMul st0 [] ops)).
Proof. exact (@iter_ghost_ok_sec T zero minSize growMul Hmin Hgrow). Qed.

Lemma deque_iter_add_remove_panics {T : Type} (zero : T) (minSize growMul : Z)
  (Hmin : 1 <= minSize) (Hgrow : 2 <= growMul <= 32768) :
  forall ops o it,
    let s := run_state zero minSize growMul st0 ops in
    adds_or_removes o = true ->
    snd (step zero minSize growMul s o) <> OPanic ->
    In it (sits (fst (step zero minSize growMul s o))) ->
    fst (iter_next (sd (fst (step zero minSize growMul s o))) it) = Panic PModified.
Proof. exact (@iter_add_remove_panics_sec T zero minSize growMul Hmin Hgrow). Qed.

(* ------------------------------------------------------------------ *)
(* The broken variant "resize writes front, back, gen before make":    *)
(* after a recovered panic the contents differ.  Desired statement     *)
(* (false for grow_commit_first, true for grow by deque_grow_alloc):   *)
(*   forall reachable d and n, snd (grow_commit_first n d) = true ->   *)
(*     window (fst (grow_commit_first n d)) = window d                 *)
(* ------------------------------------------------------------------ *)
Lemma deque_grow_commit_first_refuted :
  exists (ops : list (op Z)) (n : Z),
    let d := sd (run_state 0 16 2 st0 ops) in
    snd (grow_commit_first 0 n d) = true /\
    window (fst (grow_commit_first 0 n d)) <> window d /\
    gen (fst (grow_commit_first 0 n d)) <> gen d /\
    grow 0 n d = Panic PAlloc.
Proof.
  exists [OpPushBack 1; OpPushBack 2; OpPushBack 3; OpPopFront; OpPushFront 4; OpPushFront 5; OpPushFront 6],
         9223372036854775807.
  vm_compute. repeat split; discriminate.
Qed.
