(* Layer S for the deque: an ideal double-ended sequence (list T), and the ghost
   instrumentation used to state the iterator property C15.  Definitions only. *)
From Juniper Require Import Common.Base Deque.Model.

Section Spec.
  Context {T : Type}.
  Variable zero : T.
  Variable minSize growMul : Z.

  (* operations the property C04 quantifies over (everything but explicit iterator handles) *)
  Definition seq_op (o : op T) : bool :=
    match o with OpIterNew | OpIterNext _ => false | _ => true end.

  Definition sstep (l : list T) (o : op T) : list T * out T :=
    match o with
    | OpPushFront x => (x :: l, OUnit)
    | OpPushBack x => (l ++ [x], OUnit)
    | OpPopFront => match l with [] => (l, OPanic) | x :: l' => (l', OVal x) end
    | OpPopBack => match rev l with [] => (l, OPanic) | x :: r => (rev r, OVal x) end
    | OpFront => match l with [] => (l, OPanic) | x :: _ => (l, OVal x) end
    | OpBack => match rev l with [] => (l, OPanic) | x :: _ => (l, OVal x) end
    | OpItem i => match zget l i with Some x => (l, OVal x) | None => (l, OPanic) end
    | OpSet i x => match zset l i x with Some l' => (l', OUnit) | None => (l, OPanic) end
    | OpLen => (l, OInt (zlen l))
    | OpGrow _ => (l, OUnit)
    | OpShrink n => if n <? 0 then (l, OPanic) else (l, OUnit)
    | OpIterate => (l, OList l)
    | OpIterNew => (l, OUnit)
    | OpIterNext _ => (l, OUnit)
    end.

  Fixpoint srun (l : list T) (ops : list (op T)) : list (out T) :=
    match ops with
    | [] => []
    | o :: ops' => let '(l', r) := sstep l o in r :: srun l' ops'
    end.

  Fixpoint srun_state (l : list T) (ops : list (op T)) : list T :=
    match ops with
    | [] => l
    | o :: ops' => srun_state (fst (sstep l o)) ops'
    end.

  (* when the ideal sequence says an operation must panic *)
  Definition must_panic (l : list T) (o : op T) : bool :=
    match o with
    | OpPopFront | OpPopBack | OpFront | OpBack => match l with [] => true | _ => false end
    | OpItem i | OpSet i _ => (i <? 0) || (zlen l <=? i)
    | OpShrink n => n <? 0
    | _ => false
    end.

  (* does the operation add or remove an element (when it does not panic)? *)
  Definition adds_or_removes (o : op T) : bool :=
    match o with
    | OpPushFront _ | OpPushBack _ | OpPopFront | OpPopBack => true
    | _ => false
    end.

  (* raw slot j holds a live element *)
  Definition live (d : deque T) (j : Z) : Prop :=
    exists i, 0 <= i < len d /\ j = (if front d + i <? cap d then front d + i else front d + i - cap d).

  (* "popped elements are not retained": every slot of the buffer that holds no live element
     holds the zero value *)
  Definition clean (d : deque T) : Prop :=
    forall j, 0 <= j < cap d -> ~ live d j -> zget (buf d) j = Some zero.

  (* ---- ghost instrumentation for C15 ---- *)
  Record ghost := mkGhost {
    g_snap : list T;       (* contents when the iterator was created *)
    g_yield : list T;      (* items it has returned so far *)
    g_ended : bool;        (* it has reported exhaustion *)
    g_panicked : bool      (* it has panicked *)
  }.

  Definition ghost_step (s : st T) (gs : list ghost) (o : op T) : list ghost :=
    match o with
    | OpIterNew => gs ++ [mkGhost (window (sd s)) [] false false]
    | OpIterNext j =>
        match nth_error (sits s) j, nth_error gs j with
        | Some it, Some g =>
            match fst (iter_next (sd s) it) with
            | Ok (Some x) => upd gs j (mkGhost (g_snap g) (g_yield g ++ [x]) (g_ended g) (g_panicked g))
            | Ok None => upd gs j (mkGhost (g_snap g) (g_yield g) true (g_panicked g))
            | Panic _ => upd gs j (mkGhost (g_snap g) (g_yield g) (g_ended g) true)
            end
        | _, _ => gs
        end
    | _ => gs
    end.

  Fixpoint grun (s : st T) (gs : list ghost) (ops : list (op T)) : st T * list ghost :=
    match ops with
    | [] => (s, gs)
    | o :: ops' => grun (fst (step zero minSize growMul s o)) (ghost_step s gs o) ops'
    end.

  Definition is_prefix (p l : list T) : Prop := exists r, l = p ++ r.

  Definition ghost_ok (g : ghost) : Prop :=
    is_prefix (g_yield g) (g_snap g) /\ (g_ended g = true -> g_yield g = g_snap g).
End Spec.
