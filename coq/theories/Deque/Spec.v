(* Layer S for the deque: an ideal double-ended sequence (list T), and the ghost
   instrumentation used to state the iterator property C15.  Definitions only. *)
From Juniper Require Import Common.Base Deque.Model.

Section Spec.
  Context {T : Type}.
  Variable zero : T.
  Variable minSize growMul : Z.

  (* operations the property C04 quantifies over (everything but explicit iterator handles) *)
  Definition seq_op (o : op T) : bool :=
    match o with OpIterNew | OpIterNext _ => false | _ => true end.

  (* Grow(n) with n (read as a Go int, see Model.grow) beyond the largest allocation: make panics
     whatever the current capacity is; the sequence is untouched *)
  Definition grow_too_big (n : Z) : bool := alloc_max <? wrap64 n.

  Definition sstep (l : list T) (o : op T) : list T * out T :=
    match o with
    | OpPushFront x => (x :: l, OUnit)
    | OpPushBack x => (l ++ [x], OUnit)
    | OpPopFront => match l with [] => (l, OPanic) | x :: l' => (l', OVal x) end
    | OpPopBack => match rev l with [] => (l, OPanic) | x :: r => (rev r, OVal x) end
    | OpFront => match l with [] => (l, OPanic) | x :: _ => (l, OVal x) end
    | OpBack => match rev l with [] => (l, OPanic) | x :: _ => (l, OVal x) end
    | OpItem i => match zget l i with Some x => (l, OVal x) | None => (l, OPanic) end
    | OpSet i x => match zset l i x with Some l' => (l', OUnit) | None => (l, OPanic) end
    | OpLen => (l, OInt (zlen l))
    | OpGrow n => if grow_too_big n then (l, OPanic) else (l, OUnit)
    | OpShrink n => if n <? 0 then (l, OPanic) else (l, OUnit)
    | OpIterate => (l, OList l)
    | OpIterNew => (l, OUnit)
    | OpIterNext _ => (l, OUnit)
    end.

  Fixpoint srun (l : list T) (ops : list (op T)) : list (out T) :=
    match ops with
    | [] => []
    | o :: ops' => let '(l', r) := sstep l o in r :: srun l' ops'
    end.

  Fixpoint srun_state (l : list T) (ops : list (op T)) : list T :=
    match ops with
    | [] => l
    | o :: ops' => srun_state (fst (sstep l o)) ops'
    end.

  (* when the ideal sequence says an operation must panic *)
  Definition must_panic (l : list T) (o : op T) : bool :=
    match o with
    | OpPopFront | OpPopBack | OpFront | OpBack => match l with [] => true | _ => false end
    | OpItem i | OpSet i _ => (i <? 0) || (zlen l <=? i)
    | OpShrink n => n <? 0
    | OpGrow n => grow_too_big n
    | _ => false
    end.

  (* ---- allocation: what an operation asks of make, in a given state of the implementation ---- *)
  (* the length passed to make by the operation, if it allocates *)
  Definition alloc_req (d : deque T) (o : op T) : option Z :=
    match o with
    | OpPushFront _ | OpPushBack _ =>
        if len d =? cap d then Some (Z.max minSize (wrap64 (cap d * growMul))) else None
    | OpGrow n => if cap d - len d <? wrap64 n then Some (wrap64 (cap d + wrap64 n)) else None
    | OpShrink n =>
        if n <? 0 then None else if n <? cap d - len d then Some (wrap64 (len d + n)) else None
    | _ => None
    end.

  (* the operation's allocation fails (make panics) *)
  Definition alloc_fails (d : deque T) (o : op T) : bool :=
    match alloc_req d o with Some c => negb (make_ok c) | None => false end.

  (* The ideal sequence has no capacity, so it cannot say which allocations of a size up to
     alloc_max succeed.  [cost] bounds, from the operations alone, the number of slots a history can
     ever make the implementation request: one per push, 2n per Grow(n) that can allocate; histories
     [in_budget] never request more than alloc_max slots (every history a machine can run is). *)
  Definition op_cost (o : op T) : Z :=
    match o with
    | OpPushFront _ | OpPushBack _ => 1
    | OpGrow n => if (0 <? wrap64 n) && negb (grow_too_big n) then 2 * wrap64 n else 0
    | _ => 0
    end.

  Fixpoint cost (ops : list (op T)) : Z :=
    match ops with [] => 0 | o :: ops' => op_cost o + cost ops' end.

  Definition in_budget (ops : list (op T)) : Prop :=
    Z.max minSize (growMul * cost ops) <= alloc_max.

  (* does the operation add or remove an element (when it does not panic)? *)
  Definition adds_or_removes (o : op T) : bool :=
    match o with
    | OpPushFront _ | OpPushBack _ | OpPopFront | OpPopBack => true
    | _ => false
    end.

  (* raw slot j holds a live element *)
  Definition live (d : deque T) (j : Z) : Prop :=
    exists i, 0 <= i < len d /\ j = (if front d + i <? cap d then front d + i else front d + i - cap d).

  (* "popped elements are not retained": every slot of the buffer that holds no live element
     holds the zero value *)
  Definition clean (d : deque T) : Prop :=
    forall j, 0 <= j < cap d -> ~ live d j -> zget (buf d) j = Some zero.

  (* ---- ghost instrumentation for C15 ---- *)
  Record ghost := mkGhost {
    g_snap : list T;       (* contents when the iterator was created *)
    g_yield : list T;      (* items it has returned so far *)
    g_ended : bool;        (* it has reported exhaustion *)
    g_panicked : bool      (* it has panicked *)
  }.

  Definition ghost_step (s : st T) (gs : list ghost) (o : op T) : list ghost :=
    match o with
    | OpIterNew => gs ++ [mkGhost (window (sd s)) [] false false]
    | OpIterNext j =>
        match nth_error (sits s) j, nth_error gs j with
        | Some it, Some g =>
            match fst (iter_next (sd s) it) with
            | Ok (Some x) => upd gs j (mkGhost (g_snap g) (g_yield g ++ [x]) (g_ended g) (g_panicked g))
            | Ok None => upd gs j (mkGhost (g_snap g) (g_yield g) true (g_panicked g))
            | Panic _ => upd gs j (mkGhost (g_snap g) (g_yield g) (g_ended g) true)
            end
        | _, _ => gs
        end
    | _ => gs
    end.

  Fixpoint grun (s : st T) (gs : list ghost) (ops : list (op T)) : st T * list ghost :=
    match ops with
    | [] => (s, gs)
    | o :: ops' => grun (fst (step zero minSize growMul s o)) (ghost_step s gs o) ops'
    end.

  Definition is_prefix (p l : list T) : Prop := exists r, l = p ++ r.

  Definition ghost_ok (g : ghost) : Prop :=
    is_prefix (g_yield g) (g_snap g) /\ (g_ended g = true -> g_yield g = g_snap g).
End Spec.
