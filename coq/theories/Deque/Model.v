(* Layer M for container/deque/deque.go: field-for-field model of Deque[T] and its iterator.
   No proofs in this file (the model must keep running when a proof breaks). *)
From Juniper Require Import Common.Base.

(* ---- allocation ----
   make([]T, n) panics (recoverably: "makeslice: len out of range") when n < 0 or when n elements
   exceed the maximum allocation.  [alloc_max] is the model's bound: lengths between 2^26 and 2^47
   are never requested by the harness: below, allocation succeeds; above, make panics for every
   element type of size >= 1 on a 64-bit platform (maxAlloc = 2^48 bytes). *)
Definition alloc_max : Z := 2^47.

(* two's-complement wrap-around of 64-bit int arithmetic *)
Definition wrap64 (x : Z) : Z := (x + 2^63) mod 2^64 - 2^63.

(* make([]T, n) returns normally *)
Definition make_ok (n : Z) : bool := (0 <=? n) && (n <=? alloc_max).

(* the run-time panic of make; Common/Base.v has no dedicated class *)
Definition PAlloc : pclass := POther.

Section Deque.
  Context {T : Type}.
  Variable zero : T.
  (* minSize and the literal multiplier of maybeExpand; regenerated in Generated/Params.v. *)
  Variable minSize growMul : Z.

  Record deque := mkDeque {
    arr : option (list T);   (* None = nil slice *)
    front : Z;
    back : Z;
    gen : Z
  }.

  (* the zero value of Deque[T] *)
  Definition empty : deque := mkDeque None 0 0 0.

  Definition buf (d : deque) : list T := match arr d with Some l => l | None => [] end.
  Definition cap (d : deque) : Z := zlen (buf d).

  Definition isnil (d : deque) : bool := match arr d with None => true | Some _ => false end.

  Definition len (d : deque) : Z :=
    if isnil d || (back d =? -1) then 0
    else if front d <=? back d then back d - front d + 1
    else cap d - front d + back d + 1.

  Definition positive_mod (l m : Z) : Z :=
    let x := Z.rem l m in if x <? 0 then x + m else x.

  (* The live window read through raw indices, as resize copies it. *)
  Definition window (d : deque) : list T :=
    if isnil d || (back d =? -1) then []
    else if front d <=? back d then zslice (buf d) (front d) (back d + 1)
    else zslice (buf d) (front d) (cap d) ++ zslice (buf d) 0 (back d + 1).

  (* resize(n): oldLen := d.Len(); newA := make([]T, n) -- which panics ("makeslice: len out of
     range", a recoverable run-time panic) BEFORE any field of d is written, so the deque is
     untouched; then copy (copy stops at the shorter of the two) and only then the four field
     writes a, front, back, gen. *)
  Definition resize (n : Z) (d : deque) : result deque :=
    let old := len d in
    if negb (make_ok n) then Panic PAlloc else
    let w := window d in
    Ok (mkDeque (Some (firstn (Z.to_nat n) (w ++ zrepeat zero n))) 0 (old - 1) (gen d + 1)).

  (* xmath.Max(minSize, len(d.a)*2): the product is an int *)
  Definition maybe_expand (d : deque) : result deque :=
    if len d =? cap d then resize (Z.max minSize (wrap64 (cap d * growMul))) d else Ok d.

  (* Grow(n): extraCap := len(d.a) - d.Len(); if extraCap < n { d.resize(len(d.a) + n) }.
     The parameter is a Go int: the Z carried by the operation is read as the int it denotes
     (wrap64 is the identity on every value a caller can pass); len(d.a)+n is an int sum. *)
  Definition grow (n0 : Z) (d : deque) : result deque :=
    let n := wrap64 n0 in
    if cap d - len d <? n then resize (wrap64 (cap d + n)) d else Ok d.

  (* Shrink(n): panics for n < 0; if len(d.a)-d.Len() > n { d.resize(d.Len() + n) }.  For huge n the
     guard is false and nothing is allocated; when it is true d.Len()+n < len(d.a), so the int
     sum below never wraps and the allocation is smaller than the current one (proved in
     Proofs.v: shrink_ok) -- it is transcribed all the same. *)
  Definition shrink (n : Z) (d : deque) : result deque :=
    if n <? 0 then Panic PNeg
    else if n <? cap d - len d then resize (wrap64 (len d + n)) d else Ok d.

  (* ONLY for the witness C04_grow_commit_first_refuted: the broken variant in which resize writes
     front := 0, back := oldLen-1, gen++ before calling make.  The second component tells
     whether the call panicked; the first is the deque a caller that recovers keeps using. *)
  Definition grow_commit_first (n0 : Z) (d : deque) : deque * bool :=
    let n := wrap64 n0 in
    if cap d - len d <? n then
      let c := wrap64 (cap d + n) in
      let old := len d in
      let w := window d in
      let d1 := mkDeque (arr d) 0 (old - 1) (gen d + 1) in
      if negb (make_ok c) then (d1, true)
      else (mkDeque (Some (firstn (Z.to_nat c) (w ++ zrepeat zero c))) 0 (old - 1) (gen d + 1), false)
    else (d, false).

  Definition with_arr (d : deque) (l : list T) : deque := mkDeque (Some l) (front d) (back d) (gen d).

  Definition push_front (x : T) (d : deque) : result deque :=
    match maybe_expand d with Panic c => Panic c | Ok d =>
    if cap d =? 0 then Panic PDivZero else
    let f := positive_mod (front d - 1) (cap d) in
    match zset (buf d) f x with
    | None => Panic PIndex
    | Some l =>
        let b := if back d =? -1 then f else back d in
        Ok (mkDeque (Some l) f b (gen d + 1))
    end end.

  Definition push_back (x : T) (d : deque) : result deque :=
    match maybe_expand d with Panic c => Panic c | Ok d =>
    if cap d =? 0 then Panic PDivZero else
    let b := if back d =? -1 then front d else Z.rem (back d + 1) (cap d) in
    match zset (buf d) b x with
    | None => Panic PIndex
    | Some l => Ok (mkDeque (Some l) (front d) b (gen d + 1))
    end end.

  Definition pop_front (d : deque) : result (T * deque) :=
    let l := len d in
    if l =? 0 then Panic PEmpty else
    match zget (buf d) (front d), zset (buf d) (front d) zero with
    | Some item, Some a' =>
        if l =? 1 then Ok (item, mkDeque (Some a') 0 (-1) (gen d + 1))
        else Ok (item, mkDeque (Some a') (Z.rem (front d + 1) (cap d)) (back d) (gen d + 1))
    | _, _ => Panic PIndex
    end.

  Definition pop_back (d : deque) : result (T * deque) :=
    let l := len d in
    if l =? 0 then Panic PEmpty else
    match zget (buf d) (back d), zset (buf d) (back d) zero with
    | Some item, Some a' =>
        if l =? 1 then Ok (item, mkDeque (Some a') 0 (-1) (gen d + 1))
        else Ok (item, mkDeque (Some a') (front d) (positive_mod (back d - 1) (cap d)) (gen d + 1))
    | _, _ => Panic PIndex
    end.

  Definition peek_front (d : deque) : result T :=
    if back d =? -1 then Panic PIndex else
    match zget (buf d) (front d) with Some x => Ok x | None => Panic PIndex end.

  Definition peek_back (d : deque) : result T :=
    match zget (buf d) (back d) with Some x => Ok x | None => Panic PIndex end.

  Definition item (i : Z) (d : deque) : result T :=
    if (i <? 0) || (len d <=? i) then Panic PIndex else
    match zget (buf d) (Z.rem (front d + i) (cap d)) with Some x => Ok x | None => Panic PIndex end.

  Definition set (i : Z) (x : T) (d : deque) : result deque :=
    if (i <? 0) || (len d <=? i) then Panic PIndex else
    match zset (buf d) (Z.rem (front d + i) (cap d)) x with
    | Some l => Ok (mkDeque (Some l) (front d) (back d) (gen d + 1))
    | None => Panic PIndex
    end.

  (* dequeIterator *)
  Record iter := mkIter { it_i : Z; it_done : bool; it_gen : Z }.

  Definition iterate (d : deque) : iter := mkIter (front d) false (gen d).

  Definition iter_next (d : deque) (it : iter) : result (option T) * iter :=
    if negb (it_gen it =? gen d) then (Panic PModified, it)
    else if len d =? 0 then (Ok None, it)
    else if it_done it then (Ok None, it)
    else match zget (buf d) (it_i it) with
         | None => (Panic PIndex, it)
         | Some x =>
             let dn := it_i it =? back d in
             (Ok (Some x), mkIter (Z.rem (it_i it + 1) (cap d)) (it_done it || dn) (it_gen it))
         end.

  (* iterator.Collect(d.Iterate()) with fuel; None = fuel exhausted (excluded by theorem). *)
  Fixpoint drain (fuel : nat) (d : deque) (it : iter) : option (result (list T)) :=
    match fuel with
    | O => None
    | S fuel' =>
        match iter_next d it with
        | (Panic c, _) => Some (Panic c)
        | (Ok None, _) => Some (Ok [])
        | (Ok (Some x), it') =>
            match drain fuel' d it' with
            | Some (Ok l) => Some (Ok (x :: l))
            | r => r
            end
        end
    end.

  (* ---- history level ---- *)
  Inductive op :=
  | OpPushFront (x : T) | OpPushBack (x : T) | OpPopFront | OpPopBack
  | OpFront | OpBack | OpItem (i : Z) | OpSet (i : Z) (x : T) | OpLen
  | OpGrow (n : Z) | OpShrink (n : Z) | OpIterate
  (* C15: explicit iterators, numbered in creation order *)
  | OpIterNew | OpIterNext (j : nat).

  Inductive out :=
  | OUnit | OVal (x : T) | OInt (n : Z) | OList (l : list T) | OEnd | OPanic | OBad.

  Record st := mkSt { sd : deque; sits : list iter }.
  Definition st0 : st := mkSt empty [].

  Definition step (s : st) (o : op) : st * out :=
    let d := sd s in
    let keep := fun d' => mkSt d' (sits s) in
    match o with
    | OpPushFront x => match push_front x d with Ok d' => (keep d', OUnit) | Panic _ => (s, OPanic) end
    | OpPushBack x => match push_back x d with Ok d' => (keep d', OUnit) | Panic _ => (s, OPanic) end
    | OpPopFront => match pop_front d with Ok (x, d') => (keep d', OVal x) | Panic _ => (s, OPanic) end
    | OpPopBack => match pop_back d with Ok (x, d') => (keep d', OVal x) | Panic _ => (s, OPanic) end
    | OpFront => match peek_front d with Ok x => (s, OVal x) | Panic _ => (s, OPanic) end
    | OpBack => match peek_back d with Ok x => (s, OVal x) | Panic _ => (s, OPanic) end
    | OpItem i => match item i d with Ok x => (s, OVal x) | Panic _ => (s, OPanic) end
    | OpSet i x => match set i x d with Ok d' => (keep d', OUnit) | Panic _ => (s, OPanic) end
    | OpLen => (s, OInt (len d))
    | OpGrow n => match grow n d with Ok d' => (keep d', OUnit) | Panic _ => (s, OPanic) end
    | OpShrink n => match shrink n d with Ok d' => (keep d', OUnit) | Panic _ => (s, OPanic) end
    | OpIterate =>
        match drain (S (Z.to_nat (len d))) d (iterate d) with
        | Some (Ok l) => (s, OList l)
        | Some (Panic _) => (s, OPanic)
        | None => (s, OBad)
        end
    | OpIterNew => (mkSt d (sits s ++ [iterate d]), OUnit)
    | OpIterNext j =>
        match nth_error (sits s) j with
        | None => (s, OBad)
        | Some it =>
            let '(r, it') := iter_next d it in
            (mkSt d (upd (sits s) j it'),
             match r with Ok (Some x) => OVal x | Ok None => OEnd | Panic _ => OPanic end)
        end
    end.

  Fixpoint run (s : st) (ops : list op) : list out :=
    match ops with
    | [] => []
    | o :: ops' => let '(s', r) := step s o in r :: run s' ops'
    end.

  Fixpoint run_state (s : st) (ops : list op) : st :=
    match ops with
    | [] => s
    | o :: ops' => run_state (fst (step s o)) ops'
    end.

  (* raw view compared with the verif hook: (is nil, cap, front, back, slots) *)
  Definition raw (d : deque) : bool * Z * Z * Z * list T := (isnil d, cap d, front d, back d, buf d).
End Deque.

Arguments deque : clear implicits.
Arguments iter : clear implicits.
Arguments op : clear implicits.
Arguments out : clear implicits.
Arguments st : clear implicits.
