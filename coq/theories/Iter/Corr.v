(* Correspondence evaluators for iterator/stream pipelines: run the model on the recorded pipeline
   and consumer program and compare with the implementation's recorded observations exactly
   (results, pull counts after every step, event log).  Used by the check through vm_compute on
   generated case files; no proofs, depends on the models only. *)
From Juniper Require Import Common.Base Iter.Syntax Iter.Config Iter.ModelBase Iter.IterModel
  Iter.StreamModel.

Fixpoint zlist_eqb (a b : list Z) : bool :=
  match a, b with
  | [], [] => true
  | x :: a', y :: b' => (x =? y) && zlist_eqb a' b'
  | _, _ => false
  end.

Definition item_eqb (a b : item) : bool :=
  match a, b with
  | IZ x, IZ y => x =? y
  | IL l, IL m => zlist_eqb l m
  | _, _ => false
  end.

Definition robs_eqb (a b : robs) : bool :=
  match a, b with
  | RItem i, RItem j => item_eqb i j
  | REnd, REnd | RPanic, RPanic | RUnit, RUnit => true
  | RErr e, RErr f => e =? f
  | RVal l, RVal m => zlist_eqb l m
  | _, _ => false                      (* RBad equals nothing, not even itself *)
  end.

Definition step_eqb (a b : step_obs) : bool :=
  robs_eqb (so_res a) (so_res b) && zlist_eqb (so_pulls a) (so_pulls b).

Fixpoint steps_eqb (a b : list step_obs) : bool :=
  match a, b with
  | [], [] => true
  | x :: a', y :: b' => step_eqb x y && steps_eqb a' b'
  | _, _ => false
  end.

Definition sev_eqb (a b : sev) : bool :=
  match a, b with
  | SevNext i, SevNext j | SevClose i, SevClose j => (i =? j)%nat
  | _, _ => false
  end.

Fixpoint log_eqb (a b : list sev) : bool :=
  match a, b with
  | [], [] => true
  | x :: a', y :: b' => sev_eqb x y && log_eqb a' b'
  | _, _ => false
  end.

Definition run_eqb (a b : run_obs) : bool :=
  steps_eqb (ro_steps a) (ro_steps b) && log_eqb (ro_log a) (ro_log b).

(* a case = pipeline, consumer program, observations of the implementation *)
Definition icase : Type := ((pz + pl) * program * run_obs)%type.

(* the other pipelines of an Equal must exist in package iterator too *)
Definition prog_supported (prog : program) : bool :=
  match prog with
  | Reduce (REqual others) _ => forallb iter_supported_z others
  | _ => true
  end.

Definition check_iter (c : icase) : bool :=
  let '(p, prog, obs) := c in
  iter_supported p && prog_supported prog && run_eqb (run_iter p prog) obs.

Definition check_stream (c : icase) : bool :=
  let '(p, prog, obs) := c in
  run_eqb (run_stream p prog) obs.

(* the same for an explicit configuration (fixed_cfg: all repairs; original_cfg: none) *)
Definition check_iter_cfg (cfg : config) (c : icase) : bool :=
  let '(p, prog, obs) := c in
  iter_supported p && prog_supported prog && run_eqb (run_iter_cfg cfg p prog) obs.
Definition check_stream_cfg (cfg : config) (c : icase) : bool :=
  let '(p, prog, obs) := c in
  run_eqb (run_stream_cfg cfg p prog) obs.
Definition check_iter_fixed := check_iter_cfg fixed_cfg.
Definition check_stream_fixed := check_stream_cfg fixed_cfg.
Definition check_iter_original := check_iter_cfg original_cfg.
Definition check_stream_original := check_stream_cfg original_cfg.

(* ---- examples (hand-derived from the Go sources) ---- *)
Definition so (r : robs) (p : list Z) := mkStepObs r p.
Definition nexts (k : nat) : list cop := repeat (CNext true) k.

(* Filter(even) over Slice[1..5]: pulls 2, 4, then the end needs the 5th item and the end *)
Example ex_iter_filter :
  check_iter (inl (ZFilter (PrModEq 2 0) never_fails (ZSrc 0 (SSlice [1;2;3;4;5]))),
              Steps (nexts 4),
              mkRunObs [so (RItem (IZ 2)) [2]; so (RItem (IZ 4)) [4]; so REnd [6]; so REnd [7]]
                       (repeat (SevNext 0%nat) 7)) = true.
Proof. vm_compute. reflexivity. Qed.

(* Runs over [1;1;2;3;3;3], consuming one item of every run; Chunk over a Join *)
Example ex_iter_runs_take1 :
  check_iter (inr (LRuns RelEq (Some 1%nat) (ZSrc 0 (SSlice [1;1;2;3;3;3]))),
              Steps (nexts 4),
              mkRunObs [so (RItem (IL [1])) [1]; so (RItem (IL [2])) [3]; so (RItem (IL [3])) [4];
                        so REnd [8]]
                       (repeat (SevNext 0%nat) 8)) = true.
Proof. vm_compute. reflexivity. Qed.

Example ex_iter_chunk_join :
  check_iter (inr (LChunk 2 (ZJoin [ZSrc 0 (SSlice [1;2;3]); ZSrc 1 (SCounter 2)])),
              Steps (nexts 4),
              mkRunObs [so (RItem (IL [1;2])) [2;0]; so (RItem (IL [3;0])) [4;1];
                        so (RItem (IL [1])) [4;3]; so REnd [4;3]]
                       [SevNext 0; SevNext 0; SevNext 0; SevNext 0; SevNext 1; SevNext 1;
                        SevNext 1]%nat) = true.
Proof. vm_compute. reflexivity. Qed.

(* Last with n = 0 panicked before the repair on the first item ... *)
Example ex_iter_last0_panics :
  check_iter_original (inl (ZSrc 0 (SSlice [7;8])), Reduce (RLast 0) true,
              mkRunObs [so RPanic [1]] [SevNext 0%nat]) = true.
Proof. vm_compute. reflexivity. Qed.
(* ... and also on an empty input (idx := i % n) *)
Example ex_iter_last0_empty_panics :
  check_iter_original (inl (ZSrc 0 SEmpty), Reduce (RLast 0) true,
              mkRunObs [so RPanic [1]] [SevNext 0%nat]) = true.
Proof. vm_compute. reflexivity. Qed.
Example ex_iter_last0_fixed :
  check_iter (inl (ZSrc 0 (SSlice [7;8])), Reduce (RLast 0) true,
                    mkRunObs [so (RVal []) [3]] (repeat (SevNext 0%nat) 3)) = true.
Proof. vm_compute. reflexivity. Qed.

Example ex_iter_equal_self :
  check_iter (inl (ZFirst 1 (ZSrc 3 (SSlice [5;6]))), Reduce REqualSelf true,
              mkRunObs [so (RVal [1]) [1;1]] [SevNext 3; SevNext 1003]%nat) = true.
Proof. vm_compute. reflexivity. Qed.

(* Equal on different pipelines: [1;2;0] vs [1;2] is false (decided when the second ends; the
   third iterator is not pulled in that round) *)
Example ex_iter_equal_false :
  check_iter (inl (ZSrc 0 (SSlice [1;2;0])),
              Reduce (REqual [ZSrc 1 (SSlice [1;2]); ZSrc 2 (SSlice [1;2;0])]) true,
              mkRunObs [so (RVal [0]) [3;3;2]]
                       [SevNext 0; SevNext 1; SevNext 2; SevNext 0; SevNext 1; SevNext 2;
                        SevNext 0; SevNext 1]%nat) = true.
Proof. vm_compute. reflexivity. Qed.
Example ex_iter_equal_true :
  check_iter (inl (ZMap (FnAffine 1 1) never_fails (ZSrc 0 (SCounter 3))),
              Reduce (REqual [ZSrc 1 (SSlice [1;2;3])]) true,
              mkRunObs [so (RVal [1]) [4;4]]
                       [SevNext 0; SevNext 1; SevNext 0; SevNext 1; SevNext 0; SevNext 1;
                        SevNext 0; SevNext 1]%nat) = true.
Proof. vm_compute. reflexivity. Qed.

(* streams: a transient error in the middle of a chunk keeps the partial chunk; an expired
   context costs one (logged) Next call on the source and nothing else; Close closes the source *)
Example ex_stream_chunk_retry :
  check_stream (inr (LChunk 2 (ZSrc 0 (SScript [EvItem 1; EvTransient 9; EvItem 2; EvItem 3]))),
                Steps [CNext true; CNext false; CNext true; CNext true; CNext true; CClose],
                mkRunObs [so (RErr 9) [2]; so (RErr (-1)) [3]; so (RItem (IL [1;2])) [4];
                          so (RItem (IL [3])) [6]; so REnd [7]; so RUnit [7]]
                         (repeat (SevNext 0%nat) 7 ++ [SevClose 0%nat])) = true.
Proof. vm_compute. reflexivity. Qed.

(* Join closes every finished stream at once and the remaining ones in Close; Flatten never
   closes (or touches) inner streams it has not been handed *)
Example ex_stream_join_close :
  check_stream (inl (ZJoin [ZSrc 0 (SSlice [1]); ZSrc 1 (SSlice [2]); ZSrc 2 (SSlice [3])]),
                Steps [CNext true; CNext true; CClose],
                mkRunObs [so (RItem (IZ 1)) [1;0;0]; so (RItem (IZ 2)) [2;1;0]; so RUnit [2;1;0]]
                         [SevNext 0; SevNext 0; SevClose 0; SevNext 1; SevClose 1; SevClose 2]%nat)
  = true.
Proof. vm_compute. reflexivity. Qed.

Example ex_stream_flatten_close :
  check_stream (inl (ZFlatten [ZSrc 0 (SSlice [1]); ZSrc 1 (SSlice [2]); ZSrc 2 (SSlice [3])]),
                Steps [CNext true; CNext true; CClose],
                mkRunObs [so (RItem (IZ 1)) [1;0;0]; so (RItem (IZ 2)) [2;1;0]; so RUnit [2;1;0]]
                         [SevNext 0; SevNext 0; SevClose 0; SevNext 1; SevClose 1]%nat)
  = true.
Proof. vm_compute. reflexivity. Qed.

(* a failing callback: the 2nd invocation of Map's function returns error 5 *)
Example ex_stream_map_fails :
  check_stream (inl (ZMap (FnAffine 2 1) (mkFailing (Some 1%nat) 5 false) (ZSrc 0 (SSlice [1;2;3]))),
                Reduce RCollect true,
                mkRunObs [so (RErr 5) [2]] [SevNext 0; SevNext 0; SevClose 0]%nat) = true.
Proof. vm_compute. reflexivity. Qed.

(* panics.  The 2nd invocation of Filter's predicate panics: the consumer recovers, the item
   just pulled is lost, the following Next goes on; the source has logged every Next *)
Example ex_stream_filter_panics :
  check_stream (inl (ZFilter PrTrue (mkFailing (Some 1%nat) 0 true) (ZSrc 0 (SSlice [1;2;3]))),
                Steps [CNext true; CNext true; CNext true; CNext true; CClose],
                mkRunObs [so (RItem (IZ 1)) [1]; so RPanic [2]; so (RItem (IZ 3)) [3];
                          so REnd [4]; so RUnit [4]]
                         (repeat (SevNext 0%nat) 4 ++ [SevClose 0%nat])) = true.
Proof. vm_compute. reflexivity. Qed.
Example ex_iter_filter_panics :
  check_iter (inl (ZFilter PrTrue (mkFailing (Some 1%nat) 0 true) (ZSrc 0 (SSlice [1;2;3]))),
              Steps (nexts 4),
              mkRunObs [so (RItem (IZ 1)) [1]; so RPanic [2]; so (RItem (IZ 3)) [3]; so REnd [4]]
                       (repeat (SevNext 0%nat) 4)) = true.
Proof. vm_compute. reflexivity. Qed.
(* an iterator callback cannot return an error: a non-panicking record is ignored *)
Example ex_iter_filter_err_ignored :
  check_iter (inl (ZFilter PrTrue (mkFailing (Some 1%nat) 5 false) (ZSrc 0 (SSlice [1;2]))),
              Steps (nexts 3),
              mkRunObs [so (RItem (IZ 1)) [1]; so (RItem (IZ 2)) [2]; so REnd [3]]
                       (repeat (SevNext 0%nat) 3)) = true.
Proof. vm_compute. reflexivity. Qed.
(* Collect over a panicking Filter: the deferred Close still runs *)
Example ex_stream_collect_filter_panics :
  check_stream (inl (ZFilter PrTrue (mkFailing (Some 1%nat) 0 true) (ZSrc 0 (SSlice [1;2;3]))),
                Reduce RCollect true,
                mkRunObs [so RPanic [2]] [SevNext 0; SevNext 0; SevClose 0]%nat) = true.
Proof. vm_compute. reflexivity. Qed.
(* Reduce whose reduction function panics at its 3rd invocation / returns error 6 at its 2nd *)
Example ex_stream_sum_panics :
  check_stream (inl (ZSrc 0 (SSlice [1;2;3;4])), Reduce (RSum (mkFailing (Some 2%nat) 0 true)) true,
                mkRunObs [so RPanic [3]] [SevNext 0; SevNext 0; SevNext 0; SevClose 0]%nat) = true.
Proof. vm_compute. reflexivity. Qed.
Example ex_stream_sum_fails :
  check_stream (inl (ZSrc 0 (SSlice [1;2;3;4])), Reduce (RSum (mkFailing (Some 1%nat) 6 false)) true,
                mkRunObs [so (RErr 6) [2]] [SevNext 0; SevNext 0; SevClose 0]%nat) = true.
Proof. vm_compute. reflexivity. Qed.
Example ex_stream_sum :
  check_stream (inl (ZSrc 0 (SSlice [1;2;3;4])), Reduce (RSum never_fails) true,
                mkRunObs [so (RVal [10]) [5]] (repeat (SevNext 0%nat) 5 ++ [SevClose 0%nat])) = true.
Proof. vm_compute. reflexivity. Qed.
Example ex_iter_sum_panics :
  check_iter (inl (ZSrc 0 (SSlice [1;2;3;4])), Reduce (RSum (mkFailing (Some 2%nat) 0 true)) true,
              mkRunObs [so RPanic [3]] (repeat (SevNext 0%nat) 3)) = true.
Proof. vm_compute. reflexivity. Qed.
(* a source whose Next panics once: Chunk keeps its partial chunk, Collect closes *)
Example ex_stream_chunk_source_panics :
  check_stream (inr (LChunk 2 (ZSrc 0 (SScript [EvItem 1; EvPanic; EvItem 2; EvItem 3]))),
                Steps [CNext true; CNext true; CNext true; CNext true; CClose],
                mkRunObs [so RPanic [2]; so (RItem (IL [1;2])) [3]; so (RItem (IL [3])) [5];
                          so REnd [6]; so RUnit [6]]
                         (repeat (SevNext 0%nat) 6 ++ [SevClose 0%nat])) = true.
Proof. vm_compute. reflexivity. Qed.
Example ex_stream_collect_source_panics :
  check_stream (inl (ZSrc 0 (SScriptNC [EvItem 1; EvPanic; EvItem 2])), Reduce RCollect false,
                mkRunObs [so RPanic [2]] [SevNext 0; SevNext 0; SevClose 0]%nat) = true.
Proof. vm_compute. reflexivity. Qed.
(* the breaking variant (explicit Close instead of defer) leaves the source open after a panic *)
Example ex_stream_sum_panics_explicit_close :
  check_stream_cfg explicit_close_cfg
               (inl (ZSrc 0 (SSlice [1;2;3;4])), Reduce (RSum (mkFailing (Some 2%nat) 0 true)) true,
                mkRunObs [so RPanic [3]] [SevNext 0; SevNext 0; SevNext 0]%nat) = true.
Proof. vm_compute. reflexivity. Qed.

(* One did not close before the repair; now it does *)
Example ex_stream_one_no_close :
  check_stream_original (inl (ZSrc 0 (SSlice [4])), Reduce ROne true,
                mkRunObs [so (RVal [4]) [2]] [SevNext 0; SevNext 0]%nat) = true.
Proof. vm_compute. reflexivity. Qed.
Example ex_stream_one_fixed :
  check_stream (inl (ZSrc 0 (SSlice [4])), Reduce ROne true,
                      mkRunObs [so (RVal [4]) [2]] [SevNext 0; SevNext 0; SevClose 0]%nat) = true.
Proof. vm_compute. reflexivity. Qed.

(* stream.Last n = 0 before the repair: panics, the deferred Close still runs *)
Example ex_stream_last0_panics :
  check_stream_original (inl (ZSrc 0 (SSlice [7;8])), Reduce (RLast 0) true,
                mkRunObs [so RPanic [1]] [SevNext 0; SevClose 0]%nat) = true.
Proof. vm_compute. reflexivity. Qed.

(* stream Runs: the ended source is asked once more by the drain of the last run *)
Example ex_stream_runs :
  check_stream (inr (LRuns (RelDiv 10) None (ZSrc 0 (SSlice [1;2;11]))),
                Steps [CNext true; CNext true; CNext true; CClose],
                mkRunObs [so (RItem (IL [1;2])) [3]; so (RItem (IL [11])) [4]; so REnd [6];
                          so RUnit [6]]
                         (repeat (SevNext 0%nat) 6 ++ [SevClose 0%nat])) = true.
Proof. vm_compute. reflexivity. Qed.

(* the retrying consumer of runs: a transient error and an expired context in the middle of a run
   lose nothing *)
Example ex_stream_runs_retry :
  check_stream (inr (LRuns RelEq None
                       (ZSrc 0 (SScript [EvItem 1; EvItem 1; EvTransient 9; EvItem 1; EvItem 2]))),
                Steps [CNext true; CNext false; CNext true; CNext true; CNext true],
                mkRunObs [so (RErr 9) [3]; so (RErr (-1)) [4]; so (RItem (IL [1;1;1])) [6];
                          so (RItem (IL [2])) [7]; so REnd [9]]
                         (repeat (SevNext 0%nat) 9)) = true.
Proof. vm_compute. reflexivity. Qed.

(* a source that ignores the context (SScriptNC): a Next with an expired context is answered
   like a live one, and no combinator looks at the context itself - Filter hands over what it
   pulled (dropping 2 on the way), the transient error costs nothing *)
Example ex_stream_nc_source :
  check_stream (inl (ZSrc 0 (SScriptNC [EvItem 7; EvTransient 9; EvFatal 8; EvItem 1])),
                Steps [CNext false; CNext false; CNext false; CNext true; CClose],
                mkRunObs [so (RItem (IZ 7)) [1]; so (RErr 9) [2]; so (RErr 8) [3];
                          so (RErr 8) [4]; so RUnit [4]]
                         (repeat (SevNext 0%nat) 4 ++ [SevClose 0%nat])) = true.
Proof. vm_compute. reflexivity. Qed.

Example ex_stream_filter_nc :
  check_stream (inl (ZFilter (PrModEq 2 1) never_fails
                       (ZSrc 0 (SScriptNC [EvItem 1; EvItem 2; EvItem 3; EvTransient 9;
                                           EvItem 5]))),
                Steps [CNext false; CNext false; CNext true; CNext false; CNext false; CClose],
                mkRunObs [so (RItem (IZ 1)) [1]; so (RItem (IZ 3)) [3]; so (RErr 9) [4];
                          so (RItem (IZ 5)) [5]; so REnd [6]; so RUnit [6]]
                         (repeat (SevNext 0%nat) 6 ++ [SevClose 0%nat])) = true.
Proof. vm_compute. reflexivity. Qed.

(* Flatten's outer stream is a FromIterator and does look at the context: with an expired
   context the current inner stream is still read (and closed when it ends), but no new inner
   stream is obtained *)
Example ex_stream_flatten_nc :
  check_stream (inl (ZFlatten [ZSrc 0 (SScriptNC [EvItem 1]); ZSrc 1 (SScriptNC [EvItem 2])]),
                Steps [CNext false; CNext true; CNext false; CNext false; CNext true],
                mkRunObs [so (RErr (-1)) [0;0]; so (RItem (IZ 1)) [1;0]; so (RErr (-1)) [2;0];
                          so (RErr (-1)) [2;0]; so (RItem (IZ 2)) [2;1]]
                         [SevNext 0; SevNext 0; SevClose 0; SevNext 1]%nat) = true.
Proof. vm_compute. reflexivity. Qed.

(* stream.Error(err): every Next answers err - expired context, after Close -; the stream ending
   at its second Next, or answering the context error, is rejected *)
Example ex_stream_error_source :
  check_stream (inl (ZSrc 0 (SError 7)),
                Steps [CNext true; CNext false; CClose; CNext true],
                mkRunObs [so (RErr 7) [1]; so (RErr 7) [2]; so RUnit [2]; so (RErr 7) [3]]
                         [SevNext 0; SevNext 0; SevClose 0; SevNext 0]%nat) = true /\
  check_stream (inl (ZSrc 0 (SError 7)), Steps [CNext true; CNext true],
                mkRunObs [so (RErr 7) [1]; so REnd [2]] [SevNext 0; SevNext 0]%nat) = false /\
  check_stream (inl (ZSrc 0 (SError 7)), Steps [CNext false],
                mkRunObs [so (RErr (-1)) [1]] [SevNext 0]%nat) = false /\
  check_stream (inl (ZMap (FnAffine 1 0) never_fails (ZSrc 0 (SError 7))), Reduce RCollect true,
                mkRunObs [so (RErr 7) [1]] [SevNext 0; SevClose 0]%nat) = true.
Proof. vm_compute. repeat split; reflexivity. Qed.

(* a wrong observation is rejected *)
Example ex_reject :
  check_stream (inl (ZSrc 0 (SSlice [4])), Reduce ROne true,
                mkRunObs [so (RVal [4]) [2]] [SevNext 0; SevNext 0]%nat) = false.
Proof. vm_compute. reflexivity. Qed.
