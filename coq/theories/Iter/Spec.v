(* Layer S for iterator/stream pipelines: what every combinator is documented to compute, as plain
   functions on lists, and the denotation [den] of a pipeline.  No reference to the models. *)
From Juniper Require Import Common.Base Iter.Syntax.

(* ---- list functions ---- *)
Section ListSpecs.
  Context {A : Type}.

  Fixpoint takewhile (f : A -> bool) (l : list A) : list A :=
    match l with
    | [] => []
    | x :: t => if f x then x :: takewhile f t else []
    end.

  Fixpoint dropwhile (f : A -> bool) (l : list A) : list A :=
    match l with
    | [] => []
    | x :: t => if f x then dropwhile f t else l
    end.

  (* Compact: drop every element equivalent to the last element KEPT before it *)
  Fixpoint compact_from (eq : A -> A -> bool) (prev : A) (l : list A) : list A :=
    match l with
    | [] => []
    | x :: t => if eq prev x then compact_from eq prev t else x :: compact_from eq x t
    end.
  Definition spec_compact (eq : A -> A -> bool) (l : list A) : list A :=
    match l with [] => [] | x :: t => x :: compact_from eq x t end.

  (* Chunk: [acc] is the chunk under construction *)
  Fixpoint chunk_acc (n : Z) (acc : list A) (l : list A) : list (list A) :=
    match l with
    | [] => match acc with [] => [] | _ => [acc] end
    | x :: t =>
        let acc' := acc ++ [x] in
        if zlen acc' =? n then acc' :: chunk_acc n [] t else chunk_acc n acc' t
    end.
  Definition spec_chunk (n : Z) (l : list A) : list (list A) := chunk_acc n [] l.

  (* Runs: maximal blocks of elements equivalent to the FIRST element of the block.
     runs_from first l = (rest of the block that started with [first], the later blocks) *)
  Fixpoint runs_from (same : A -> A -> bool) (first : A) (l : list A)
    : list A * list (list A) :=
    match l with
    | [] => ([], [])
    | y :: t =>
        if same first y
        then let '(c, rs) := runs_from same first t in (y :: c, rs)
        else let '(c, rs) := runs_from same y t in ([], (y :: c) :: rs)
    end.
  Definition spec_runs (same : A -> A -> bool) (l : list A) : list (list A) :=
    match l with
    | [] => []
    | x :: t => let '(c, rs) := runs_from same x t in (x :: c) :: rs
    end.

  (* the last n elements *)
  Definition lastn (n : nat) (l : list A) : list A := skipn (length l - n) l.

  (* what the consumer keeps of a run *)
  Definition take_opt (k : option nat) (l : list A) : list A :=
    match k with Some k => firstn k l | None => l end.

  Definition is_prefix (a b : list A) : Prop := exists c, b = a ++ c.
End ListSpecs.

(* ---- the items of a source ---- *)

(* items of a script up to its first fatal error, transient errors (and panics) erased *)
Fixpoint script_den (evs : list sevent) : list Z :=
  match evs with
  | [] => []
  | EvItem x :: t => x :: script_den t
  | EvTransient _ :: t => script_den t
  | EvFatal _ :: _ => []
  | EvPanic :: t => script_den t
  end.

(* 0, 1, ..., n-1 *)
Definition counter_items (n : Z) : list Z := map Z.of_nat (seq 0 (Z.to_nat n)).

Definition src_items (s : source) : list Z :=
  match s with
  | SSlice l => l
  | SCounter n => counter_items n
  | SRepeat x n => repeat x (Z.to_nat n)
  | SEmpty => []
  | SChan l => l
  | SScript evs => script_den evs
  | SScriptNC evs => script_den evs
  | SError _ => []
  end.

(* sources whose Next never looks at the context *)
Definition src_nc (s : source) : bool :=
  match s with SScriptNC _ | SError _ => true | _ => false end.

(* ---- denotation of pipelines ---- *)
Fixpoint den_z (p : pz) : list Z :=
  match p with
  | ZSrc _ s => src_items s
  | ZPeek p => den_z p
  | ZCompact r p => spec_compact (rel_eval r) (den_z p)
  | ZFilter f _ p => filter (pred_eval f) (den_z p)
  | ZFirst n p => firstn (Z.to_nat n) (den_z p)
  | ZFlatten ps => concat (map den_z ps)
  | ZJoin ps => concat (map den_z ps)
  | ZMap f _ p => map (fn_eval f) (den_z p)
  | ZWhile f _ p => takewhile (pred_eval f) (den_z p)
  | ZFlattenSlices q => concat (den_l q)
  end
with den_l (q : pl) : list (list Z) :=
  match q with
  | LChunk n p => spec_chunk n (den_z p)
  | LRuns r k p => map (take_opt k) (spec_runs (rel_eval r) (den_z p))
  end.

Definition den (p : pz + pl) : list item :=
  match p with
  | inl p => map IZ (den_z p)
  | inr q => map IL (den_l q)
  end.

(* ---- documented parameter domain: chunk sizes are at least 1 ---- *)
Fixpoint dom_z (p : pz) : Prop :=
  match p with
  | ZSrc _ _ => True
  | ZPeek p | ZCompact _ p | ZFilter _ _ p | ZFirst _ p | ZMap _ _ p | ZWhile _ _ p => dom_z p
  | ZFlatten ps | ZJoin ps => fold_right (fun p acc => dom_z p /\ acc) True ps
  | ZFlattenSlices q => dom_l q
  end
with dom_l (q : pl) : Prop :=
  match q with
  | LChunk n p => 1 <= n /\ dom_z p
  | LRuns _ _ p => dom_z p
  end.
Definition dom (p : pz + pl) : Prop := match p with inl p => dom_z p | inr q => dom_l q end.

(* ---- panic-freedom: no callback (of a combinator) ever panics, no scripted source has an
   EvPanic event.  Boolean, so that it can be computed on concrete pipelines. ---- *)
Definition cb_panics (fl : failing) : bool :=
  fail_panic fl && match fail_at fl with Some _ => true | None => false end.
Definition ev_is_panic (e : sevent) : bool := match e with EvPanic => true | _ => false end.
Definition script_nopanic (evs : list sevent) : bool := negb (existsb ev_is_panic evs).
Definition src_nopanic (s : source) : bool :=
  match s with SScript evs | SScriptNC evs => script_nopanic evs | _ => true end.
Fixpoint no_panics_z (p : pz) : bool :=
  match p with
  | ZSrc _ s => src_nopanic s
  | ZPeek p | ZCompact _ p | ZFirst _ p => no_panics_z p
  | ZFilter _ fl p | ZMap _ fl p | ZWhile _ fl p => negb (cb_panics fl) && no_panics_z p
  | ZFlatten ps | ZJoin ps => forallb no_panics_z ps
  | ZFlattenSlices q => no_panics_l q
  end
with no_panics_l (q : pl) : bool :=
  match q with LChunk _ p | LRuns _ _ p => no_panics_z p end.
Definition no_panics (p : pz + pl) : bool :=
  match p with inl p => no_panics_z p | inr q => no_panics_l q end.

(* ---- fault-freedom ---- *)
Fixpoint no_fatal (evs : list sevent) : Prop :=
  match evs with [] => True | EvFatal _ :: _ => False | _ :: t => no_fatal t end.
Fixpoint no_transient (evs : list sevent) : Prop :=
  match evs with [] => True | EvTransient _ :: _ => False | _ :: t => no_transient t end.

(* [okz ae p]: parameters in the documented domain, callbacks never fail (neither by an error
   nor by a panic), scripted sources have no fatal error and no panic; with ae = false they have
   no transient error either (nothing can fail), with ae = true any number of transient errors
   is allowed. *)
Definition script_ok (evs : list sevent) : Prop := no_fatal evs /\ script_nopanic evs = true.
Definition src_ok (ae : bool) (s : source) : Prop :=
  match s with
  | SScript evs | SScriptNC evs => script_ok evs /\ (ae = false -> no_transient evs)
  | SError _ => False                  (* stream.Error is nothing but an unretryable fault *)
  | _ => True
  end.
Fixpoint okz (ae : bool) (p : pz) : Prop :=
  match p with
  | ZSrc _ s => src_ok ae s
  | ZPeek p | ZCompact _ p | ZFirst _ p => okz ae p
  | ZFilter _ fl p | ZMap _ fl p | ZWhile _ fl p => fail_at fl = None /\ okz ae p
  | ZFlatten ps | ZJoin ps => fold_right (fun p acc => okz ae p /\ acc) True ps
  | ZFlattenSlices q => okl ae q
  end
with okl (ae : bool) (q : pl) : Prop :=
  match q with
  | LChunk n p => 1 <= n /\ okz ae p
  | LRuns _ _ p => okz ae p
  end.
Definition okp (ae : bool) (p : pz + pl) : Prop :=
  match p with inl p => okz ae p | inr q => okl ae q end.

(* failure-free pipelines *)
Definition clean (p : pz + pl) : Prop := okp false p.

(* ---- induction over pipelines (the nested lists of ZFlatten/ZJoin included) ---- *)
Section PipeInd.
  Variables (P : pz -> Prop) (Q : pl -> Prop).
  Hypothesis HSrc : forall id s, P (ZSrc id s).
  Hypothesis HPeek : forall p, P p -> P (ZPeek p).
  Hypothesis HCompact : forall r p, P p -> P (ZCompact r p).
  Hypothesis HFilter : forall f fl p, P p -> P (ZFilter f fl p).
  Hypothesis HFirst : forall n p, P p -> P (ZFirst n p).
  Hypothesis HFlatten : forall ps, Forall P ps -> P (ZFlatten ps).
  Hypothesis HJoin : forall ps, Forall P ps -> P (ZJoin ps).
  Hypothesis HMap : forall f fl p, P p -> P (ZMap f fl p).
  Hypothesis HWhile : forall f fl p, P p -> P (ZWhile f fl p).
  Hypothesis HFlatSl : forall q, Q q -> P (ZFlattenSlices q).
  Hypothesis HChunk : forall n p, P p -> Q (LChunk n p).
  Hypothesis HRuns : forall r k p, P p -> Q (LRuns r k p).

  Fixpoint pz_pl_ind (p : pz) : P p :=
    match p with
    | ZSrc id s => HSrc id s
    | ZPeek p => HPeek p (pz_pl_ind p)
    | ZCompact r p => HCompact r p (pz_pl_ind p)
    | ZFilter f fl p => HFilter f fl p (pz_pl_ind p)
    | ZFirst n p => HFirst n p (pz_pl_ind p)
    | ZFlatten ps =>
        HFlatten ps ((fix go (l : list pz) : Forall P l :=
                        match l with
                        | [] => Forall_nil P
                        | x :: t => Forall_cons x (pz_pl_ind x) (go t)
                        end) ps)
    | ZJoin ps =>
        HJoin ps ((fix go (l : list pz) : Forall P l :=
                     match l with
                     | [] => Forall_nil P
                     | x :: t => Forall_cons x (pz_pl_ind x) (go t)
                     end) ps)
    | ZMap f fl p => HMap f fl p (pz_pl_ind p)
    | ZWhile f fl p => HWhile f fl p (pz_pl_ind p)
    | ZFlattenSlices q => HFlatSl q (pl_pz_ind q)
    end
  with pl_pz_ind (q : pl) : Q q :=
    match q with
    | LChunk n p => HChunk n p (pz_pl_ind p)
    | LRuns r k p => HRuns r k p (pz_pl_ind p)
    end.

  Lemma pipe_ind : (forall p, P p) /\ (forall q, Q q).
  Proof. split; [exact pz_pl_ind|exact pl_pz_ind]. Qed.
End PipeInd.

(* what k consecutive Next calls must answer for a pipeline that denotes l *)
Fixpoint expect (l : list item) (k : nat) : list robs :=
  match k with
  | O => []
  | S k' =>
      match l with
      | [] => REnd :: expect [] k'
      | x :: t => RItem x :: expect t k'
      end
  end.

(* what Next calls may answer for a pipeline that denotes l when calls may fail without
   consequences (transient errors, expired contexts): items in order, errors anywhere, the end
   only when everything has been delivered *)
Fixpoint legal (l : list item) (rs : list robs) : Prop :=
  match rs with
  | [] => True
  | RItem x :: t => match l with y :: l' => x = y /\ legal l' t | [] => False end
  | REnd :: t => l = [] /\ legal [] t
  | RErr _ :: t => legal l t
  | _ :: _ => False
  end.

Fixpoint items_of (rs : list robs) : list item :=
  match rs with
  | [] => []
  | RItem x :: t => x :: items_of t
  | _ :: t => items_of t
  end.

(* like [legal], until the first error whose code is one of the (unretryable) fault codes C *)
Fixpoint legal_until (C : list Z) (l : list item) (rs : list robs) : Prop :=
  match rs with
  | [] => True
  | RItem x :: t => match l with y :: l' => x = y /\ legal_until C l' t | [] => False end
  | REnd :: t => l = [] /\ legal_until C [] t
  | RErr e :: t => In e C \/ legal_until C l t
  | _ :: _ => False
  end.

(* fault codes and the fault-free version of a pipeline: scripts continue with k instead of
   their first fatal error, callbacks never return an error.  Panics are no faults in this sense
   and stay where they are: a callback that panics keeps its record, EvPanic events stay in the
   scripts. *)
Fixpoint cut_with (k : list sevent) (evs : list sevent) : list sevent :=
  match evs with
  | [] => []
  | EvFatal _ :: _ => k
  | e :: t => e :: cut_with k t
  end.
Fixpoint fatal_codes (evs : list sevent) : list Z :=
  match evs with
  | [] => []
  | EvFatal e :: t => e :: fatal_codes t
  | _ :: t => fatal_codes t
  end.
Definition cb_codes (fl : failing) : list Z :=
  if fail_panic fl then []
  else match fail_at fl with Some _ => [fail_err fl] | None => [] end.
Definition scrub_fl (fl : failing) : failing := if fail_panic fl then fl else never_fails.

Definition src_scrub (k : list sevent) (s : source) : source :=
  match s with
  | SScript evs => SScript (cut_with k evs)
  | SScriptNC evs => SScriptNC (cut_with k evs)
  | SError _ => SScriptNC k            (* the fault is all there is: the source continues with k *)
  | _ => s
  end.
Definition src_codes (s : source) : list Z :=
  match s with SScript evs | SScriptNC evs => fatal_codes evs | SError e => [e] | _ => [] end.

Fixpoint pz_scrub (k : list sevent) (p : pz) : pz :=
  match p with
  | ZSrc id s => ZSrc id (src_scrub k s)
  | ZPeek p => ZPeek (pz_scrub k p)
  | ZCompact r p => ZCompact r (pz_scrub k p)
  | ZFilter f fl p => ZFilter f (scrub_fl fl) (pz_scrub k p)
  | ZFirst n p => ZFirst n (pz_scrub k p)
  | ZFlatten ps => ZFlatten (map (pz_scrub k) ps)
  | ZJoin ps => ZJoin (map (pz_scrub k) ps)
  | ZMap f fl p => ZMap f (scrub_fl fl) (pz_scrub k p)
  | ZWhile f fl p => ZWhile f (scrub_fl fl) (pz_scrub k p)
  | ZFlattenSlices q => ZFlattenSlices (pl_scrub k q)
  end
with pl_scrub (k : list sevent) (q : pl) : pl :=
  match q with
  | LChunk n p => LChunk n (pz_scrub k p)
  | LRuns r t p => LRuns r t (pz_scrub k p)
  end.
Definition pipe_scrub (k : list sevent) (p : pz + pl) : pz + pl :=
  match p with inl p => inl (pz_scrub k p) | inr q => inr (pl_scrub k q) end.

Fixpoint pz_codes (p : pz) : list Z :=
  match p with
  | ZSrc _ s => src_codes s
  | ZPeek p | ZCompact _ p | ZFirst _ p => pz_codes p
  | ZFilter _ fl p | ZMap _ fl p | ZWhile _ fl p => cb_codes fl ++ pz_codes p
  | ZFlatten ps | ZJoin ps => flat_map pz_codes ps
  | ZFlattenSlices q => pl_codes q
  end
with pl_codes (q : pl) : list Z :=
  match q with LChunk _ p | LRuns _ _ p => pz_codes p end.
Definition pipe_codes (p : pz + pl) : list Z :=
  match p with inl p => pz_codes p | inr q => pl_codes q end.

(* ---- the fault-erased twin of a pipeline: every transient source error removed from the
   scripts (fatal errors, callbacks and everything else unchanged).  For pipelines without
   unretryable faults (okp true) the twin is failure-free (okp false) and denotes the same
   items. ---- *)
Fixpoint erase_transient (evs : list sevent) : list sevent :=
  match evs with
  | [] => []
  | EvTransient _ :: t => erase_transient t
  | e :: t => e :: erase_transient t
  end.

Definition src_erase (s : source) : source :=
  match s with
  | SScript evs => SScript (erase_transient evs)
  | SScriptNC evs => SScriptNC (erase_transient evs)
  | _ => s
  end.

Fixpoint pz_erase (p : pz) : pz :=
  match p with
  | ZSrc id s => ZSrc id (src_erase s)
  | ZPeek p => ZPeek (pz_erase p)
  | ZCompact r p => ZCompact r (pz_erase p)
  | ZFilter f fl p => ZFilter f fl (pz_erase p)
  | ZFirst n p => ZFirst n (pz_erase p)
  | ZFlatten ps => ZFlatten (map pz_erase ps)
  | ZJoin ps => ZJoin (map pz_erase ps)
  | ZMap f fl p => ZMap f fl (pz_erase p)
  | ZWhile f fl p => ZWhile f fl (pz_erase p)
  | ZFlattenSlices q => ZFlattenSlices (pl_erase q)
  end
with pl_erase (q : pl) : pl :=
  match q with
  | LChunk n p => LChunk n (pz_erase p)
  | LRuns r t p => LRuns r t (pz_erase p)
  end.
Definition pipe_erase (p : pz + pl) : pz + pl :=
  match p with inl p => inl (pz_erase p) | inr q => inr (pl_erase q) end.

(* ---- pipelines none of whose parts ever looks at the context: every source is an SScriptNC
   and there is no Flatten (the outer stream of a Flatten is a FromIterator, which does). ---- *)
Fixpoint ctx_blind_z (p : pz) : Prop :=
  match p with
  | ZSrc _ s => src_nc s = true
  | ZPeek p | ZCompact _ p | ZFilter _ _ p | ZFirst _ p | ZMap _ _ p | ZWhile _ _ p =>
      ctx_blind_z p
  | ZFlatten _ => False
  | ZJoin ps => fold_right (fun p acc => ctx_blind_z p /\ acc) True ps
  | ZFlattenSlices q => ctx_blind_l q
  end
with ctx_blind_l (q : pl) : Prop :=
  match q with LChunk _ p | LRuns _ _ p => ctx_blind_z p end.
Definition ctx_blind (p : pz + pl) : Prop :=
  match p with inl p => ctx_blind_z p | inr q => ctx_blind_l q end.
