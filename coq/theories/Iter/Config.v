(* Switches that select between the code as it was in /repo originally (false) and the repairs
   (true).  All three repairs are committed in /repo, so all three are true here.  The models consult a [config] value; [current_cfg] is what the correspondence
   check runs, [fixed_cfg] is what the main theorems are proved for.  Flipping a definition below
   to [true] after the Go fix makes [current_cfg] coincide with the fixed behaviour for that item.

   last_n0_guard      : iterator.Last / stream.Last: `if n <= 0 { drain the input; return empty }`
                        (today: n = 0 panics with integer divide by zero, n < 0 panics in make).
   one_closes         : stream.One has `defer s.Close()` (today: never closes).
   xslices_runs_fixed : xslices.Runs starts with `end := 1` and appends s[start:] at the end iff
                        len(s) > 0 (originally `end := 0 ... if end > 0`: a leading run of length
                        one was lost).
   reducers_defer_close (not a repair - a switch for a breaking change that must be detected):
                        stream.Collect/Reduce/Last/One close their stream by `defer s.Close()`
                        (true: the code of /repo, before and after the repairs).  false: the
                        variant "explicit s.Close() before every return" - the same on every
                        normal way out, but a panic raised by the reduction function, by a
                        callback further down or by a source's Next leaves the stream unclosed
                        (C09_reducer_explicit_close_refuted). *)
Definition last_n0_guard : bool := true.
Definition one_closes : bool := true.
Definition xslices_runs_fixed : bool := true.

Definition reducers_defer_close : bool := true.

Record config := mkConfig { cfg_last_guard : bool; cfg_one_closes : bool; cfg_xs_runs_fixed : bool;
                            cfg_defer_close : bool }.

Definition current_cfg : config :=
  mkConfig last_n0_guard one_closes xslices_runs_fixed reducers_defer_close.
Definition fixed_cfg : config := mkConfig true true true true.
(* the tree as it was before any repair: the `_refuted` witnesses are stated for it
   (the reducers that closed at all did so by defer) *)
Definition original_cfg : config := mkConfig false false false true.
(* the repaired tree with the reducers closing explicitly instead of by defer *)
Definition explicit_close_cfg : config := mkConfig true true true false.
