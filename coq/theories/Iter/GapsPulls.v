(* Laziness, run level (C07): exact cumulative pull counts for every single iterator combinator
   over Slice sources, in the style of Lazy.filter_pulls_exact:
     after k Next calls on  C (Slice l)  the source has received exactly  formula(l, k)  Next calls,
   for WithPeek (through Next), Map, First, While, Compact, Chunk, Join and Flatten.
   for EVERY k (calls after the end included: once the source has reported its end, every
   further call of Peek, Map, Filter, Compact, Chunk - and of First and While as long as their
   budget lasts / no item has failed - asks the source once more; Join and Flatten drop an
   exhausted source and never ask it again).  Filter is redone here for every k (Lazy.v: up
   to the number of kept items).
   The results of the k calls are given by C07_iter_den (IterProofs.iter_steps_den). *)
From Juniper Require Import Common.Base Iter.Syntax Iter.Config Iter.ModelBase Iter.IterModel
  Iter.Spec Iter.Contract Iter.IterProofs Iter.Lazy.

Notation ksteps k := (Steps (map CNext (repeat true k))).

Lemma ro_log_steps cfg p ops :
  ro_log (run_iter_cfg cfg p (Steps ops))
  = snd (irun_steps (sort_ids (pipe_ids p)) (irun_init p) [] ops).
Proof.
  unfold run_iter_cfg.
  destruct (irun_steps (sort_ids (pipe_ids p)) (irun_init p) [] ops) as [steps log].
  reflexivity.
Qed.

(* ---- one Next of every combinator state, unfolded one level ---- *)
Lemma istep_peek p : istep (IPeek p) =
  let '(o, p', ev) := ipk_next (inext (S ((if pk_has p then 1 else 0) + isize (pk_in p)))) p in
  (o, IPeek p', ev).
Proof. reflexivity. Qed.
Lemma istep_map g fl c p : istep (IMap g fl c p) =
  let '(o, (c', p'), ev) := imap (inext (S (isize p))) g fl c p in (o, IMap g fl c' p', ev).
Proof. reflexivity. Qed.
Lemma istep_first x p : istep (IFirst x p) =
  let '(o, (x', p'), ev) := ifirst (inext (S (isize p))) x p in (o, IFirst x' p', ev).
Proof. reflexivity. Qed.
Lemma istep_while f fl c d p : istep (IWhile f fl c d p) =
  let '(o, (c', d', p'), ev) := iwhile (inext (S (isize p))) f fl c d p in
  (o, IWhile f fl c' d' p', ev).
Proof. reflexivity. Qed.
Lemma istep_compact r fi pv p : istep (ICompact r fi pv p) =
  let '(o, (f', pv', p'), ev) := icompact (inext (S (isize p))) (S (S (isize p))) r fi pv p in
  (o, ICompact r f' pv' p', ev).
Proof. reflexivity. Qed.
Lemma istep_filter k fl c p : istep (IFilter k fl c p) =
  let '(o, (c', p'), ev) := ifilter (inext (S (isize p))) (S (S (isize p))) k fl c p in
  (o, IFilter k fl c' p', ev).
Proof. reflexivity. Qed.
Lemma ilstep_chunk n p : ilstep (IChunk n p) =
  let '(o, p', ev) := ichunk (inext (S (2 * isize p))) (S (S (2 * isize p))) n p in
  (o, IChunk n p', ev).
Proof. reflexivity. Qed.
Lemma istep_join its : istep (IJoin its) =
  let F := S (list_sum_map (fun c => S (isize c)) its) in
  let '(o, its', ev) := ijoin (inext F) (S F) its in (o, IJoin its', ev).
Proof. reflexivity. Qed.
Lemma istep_flatten rest curr : istep (IFlatten rest curr) =
  let F := S (S (list_sum_map (fun c => S (S (isize c))) rest
                 + match curr with Some c => S (isize c) | None => O end)) in
  let '(o, (rest', curr'), ev) := iflatten (inext F) (S F) rest curr in
  (o, IFlatten rest' curr', ev).
Proof. reflexivity. Qed.

(* ---- counting along a run whose states stay in a family [mk w] ---- *)
Section RunCount.
  Variables (X : Type) (mk : X -> irun_st) (stp : X -> X * nat) (id : nat).
  Hypothesis Hstep : forall w, exists o ev,
    irun_next (mk w) = (o, mk (fst (stp w)), ev) /\ stops o = false /\
    count_next id ev = snd (stp w).

  Fixpoint tot (k : nat) (w : X) : nat :=
    match k with
    | O => O
    | S k' => (snd (stp w) + tot k' (fst (stp w)))%nat
    end.

  Lemma run_count ids : forall k w log,
    count_next id (snd (irun_steps ids (mk w) log (map CNext (repeat true k))))
    = (count_next id log + tot k w)%nat.
  Proof.
    induction k as [|k IH]; intros w log; simpl; [lia|].
    destruct (Hstep w) as (o & ev & E & Hs & Hc). rewrite E, Hs.
    specialize (IH (fst (stp w)) (log ++ ev)).
    destruct (irun_steps ids (mk (fst (stp w))) (log ++ ev) (map CNext (repeat true k)))
      as [r l].
    simpl in *. rewrite IH, count_next_app, Hc. lia.
  Qed.
End RunCount.

(* the same for families with a call counter [c] that plays no role in the count *)
Section RunCountC.
  Variables (X : Type) (mk : nat -> X -> irun_st) (stp : X -> X * nat) (id : nat).
  Hypothesis Hstep : forall c w, exists o ev c',
    irun_next (mk c w) = (o, mk c' (fst (stp w)), ev) /\ stops o = false /\
    count_next id ev = snd (stp w).

  Lemma run_count_c ids : forall k c w log,
    count_next id (snd (irun_steps ids (mk c w) log (map CNext (repeat true k))))
    = (count_next id log + tot X stp k w)%nat.
  Proof.
    induction k as [|k IH]; intros c w log; simpl; [lia|].
    destruct (Hstep c w) as (o & ev & c' & E & Hs & Hc). rewrite E, Hs.
    specialize (IH c' (fst (stp w)) (log ++ ev)).
    destruct (irun_steps ids (mk c' (fst (stp w))) (log ++ ev) (map CNext (repeat true k)))
      as [r l].
    simpl in *. rewrite IH, count_next_app, Hc. lia.
  Qed.
End RunCountC.

Lemma count_next_one id : count_next id [SevNext id] = 1%nat.
Proof. exact (count_next_pulls id 1). Qed.

Lemma results_den cfg p k :
  iter_supported p = true -> dom p -> no_panics p = true ->
  results (run_iter_cfg cfg p (ksteps k)) = expect (den p) k.
Proof.
  intros Hs Hd Hnp. rewrite (iter_steps_den cfg p (repeat true k) Hs Hd Hnp), repeat_length.
  reflexivity.
Qed.

Lemma np_cb fl (b : bool) : cb_panics fl = false -> negb (cb_panics fl) && b = b.
Proof. intros H; rewrite H. reflexivity. Qed.

(* ================= WithPeek used through Next, Map: one pull per call ================= *)
Section MapPeek.
  Variables (id : nat).

  Lemma tot_const {X} (stp : X -> X * nat) :
    (forall w, snd (stp w) = 1%nat) -> forall k w, tot X stp k w = k.
  Proof. intros H. induction k as [|k IH]; intros w; simpl; [reflexivity|]. rewrite H, IH. lia. Qed.

  Theorem map_pulls_exact cfg g fl l k :
    cb_panics fl = false ->
    let run := run_iter_cfg cfg (inl (ZMap g fl (ZSrc id (SSlice l)))) (ksteps k) in
    count_next id (ro_log run) = k /\ results run = expect (map IZ (map (fn_eval g) l)) k.
  Proof.
    intros Hfl run.
    split; [|apply results_den; [reflexivity|exact I|simpl; rewrite Hfl; reflexivity]].
    unfold run. rewrite ro_log_steps. simpl pipe_ids. simpl irun_init.
    rewrite (run_count_c (list Z) (fun c a => RZ (IMap g fl c (ISrc id (ISlice a))))
                         (fun a => (tl a, 1%nat)) id).
    - rewrite tot_const by reflexivity. reflexivity.
    - intros c a. unfold irun_next. rewrite istep_map. unfold imap. cbn [isize].
      rewrite inext_slice. rewrite (panics_now_false fl c Hfl).
      destruct a as [|x t]; cbn [slice_nx fst snd tl]; eexists; eexists; eexists;
        (split; [reflexivity|split; [reflexivity|apply count_next_one]]).
  Qed.

  Theorem peek_pulls_exact cfg l k :
    let run := run_iter_cfg cfg (inl (ZPeek (ZSrc id (SSlice l)))) (ksteps k) in
    count_next id (ro_log run) = k /\ results run = expect (map IZ l) k.
  Proof.
    intros run. split; [|apply results_den; [reflexivity|exact I|reflexivity]].
    unfold run. rewrite ro_log_steps. simpl pipe_ids. simpl irun_init.
    rewrite (run_count (list Z) (fun a => RZ (IPeek (mkPk false 0 (ISrc id (ISlice a)))))
                       (fun a => (tl a, 1%nat)) id).
    - rewrite tot_const by reflexivity. reflexivity.
    - intros a. unfold irun_next. rewrite istep_peek. unfold ipk_next. cbn [pk_has pk_in isize].
      rewrite inext_slice.
      destruct a as [|x t]; cbn [slice_nx fst snd tl pk_curr]; eexists; eexists;
        (split; [reflexivity|split; [reflexivity|apply count_next_one]]).
  Qed.
End MapPeek.

(* ================= First n: one pull per call while the budget lasts ================= *)
Section First.
  Variables (id : nat).
  Definition first_stp (w : Z * list Z) : (Z * list Z) * nat :=
    let '(x, a) := w in if x <=? 0 then ((x, a), O) else ((x - 1, tl a), 1%nat).

  Lemma first_tot : forall k x a, tot _ first_stp k (x, a) = Nat.min k (Z.to_nat x).
  Proof.
    induction k as [|k IH]; intros x a; [reflexivity|].
    cbn [tot].
    change (first_stp (x, a)) with (if x <=? 0 then ((x, a), O) else ((x - 1, tl a), 1%nat)).
    destruct (x <=? 0) eqn:E.
    - apply Z.leb_le in E. cbn [fst snd]. rewrite IH. lia.
    - apply Z.leb_gt in E. cbn [fst snd]. rewrite IH. lia.
  Qed.

  Theorem first_pulls_exact cfg n l k :
    let run := run_iter_cfg cfg (inl (ZFirst n (ZSrc id (SSlice l)))) (ksteps k) in
    count_next id (ro_log run) = Nat.min k (Z.to_nat n) /\
    results run = expect (map IZ (firstn (Z.to_nat n) l)) k.
  Proof.
    intros run. split; [|apply results_den; [reflexivity|exact I|reflexivity]].
    unfold run. rewrite ro_log_steps. simpl pipe_ids. simpl irun_init.
    pose (mk := fun w : Z * list Z => RZ (IFirst (fst w) (ISrc id (ISlice (snd w))))).
    assert (Hstep : forall w, exists o ev,
      irun_next (mk w) = (o, mk (fst (first_stp w)), ev) /\ stops o = false /\
      count_next id ev = snd (first_stp w)).
    { intros [x a]. unfold mk, irun_next. cbn [fst snd]. rewrite istep_first.
      unfold ifirst, first_stp. destruct (x <=? 0).
      - cbn [fst snd]. eexists; eexists. split; [reflexivity|]. split; reflexivity.
      - cbn [isize]. rewrite inext_slice.
        destruct a as [|y t]; cbn [slice_nx fst snd tl]; eexists; eexists;
          (split; [reflexivity|split; [reflexivity|apply count_next_one]]). }
    pose proof (run_count _ mk first_stp id Hstep (sort_ids [id]) k (n, l) []) as Hc.
    unfold mk in Hc. cbn [fst snd] in Hc. rewrite Hc, first_tot. reflexivity.
  Qed.
End First.

(* ================= While f: one pull per call until an item fails f ================= *)
Section While.
  Variables (id : nat) (f : pred).
  Definition while_stp (w : bool * list Z) : (bool * list Z) * nat :=
    let '(d, a) := w in
    if d then ((d, a), O)
    else match a with
         | [] => ((false, []), 1%nat)
         | y :: t => if pred_eval f y then ((false, t), 1%nat) else ((true, t), 1%nat)
         end.

  (* t+1 pulls at most, t = number of leading items satisfying f, when some item fails f;
     otherwise every call pulls (after the end, too) *)
  Definition while_pulls (l : list Z) (k : nat) : nat :=
    let t := length (takewhile (pred_eval f) l) in
    if (t <? length l)%nat then Nat.min k (S t) else k.

  Lemma while_tot_done : forall k a, tot _ while_stp k (true, a) = O.
  Proof.
    induction k as [|k IH]; intros a; [reflexivity|]. cbn [tot].
    change (while_stp (true, a)) with ((true, a), O). cbn [fst snd]. apply IH.
  Qed.

  Lemma while_tot : forall k l, tot _ while_stp k (false, l) = while_pulls l k.
  Proof.
    induction k as [|k IH]; intros l.
    - unfold while_pulls. destruct (_ <? _)%nat; reflexivity.
    - cbn [tot]. destruct l as [|y t].
      + change (while_stp (false, [])) with ((false, @nil Z), 1%nat). cbn [fst snd].
        rewrite IH. unfold while_pulls. simpl. reflexivity.
      + change (while_stp (false, y :: t))
          with (if pred_eval f y then ((false, t), 1%nat) else ((true, t), 1%nat)).
        unfold while_pulls. cbn [takewhile].
        destruct (pred_eval f y) eqn:Ey; cbn [fst snd length].
        * rewrite IH. unfold while_pulls.
          change (S (length (takewhile (pred_eval f) t)) <? S (length t))%nat
            with (length (takewhile (pred_eval f) t) <? length t)%nat.
          destruct (_ <? _)%nat; lia.
        * rewrite while_tot_done. simpl. lia.
  Qed.

  Theorem while_pulls_exact cfg fl l k :
    cb_panics fl = false ->
    let run := run_iter_cfg cfg (inl (ZWhile f fl (ZSrc id (SSlice l)))) (ksteps k) in
    count_next id (ro_log run) = while_pulls l k /\
    results run = expect (map IZ (takewhile (pred_eval f) l)) k.
  Proof.
    intros Hfl run.
    split; [|apply results_den; [reflexivity|exact I|simpl; rewrite Hfl; reflexivity]].
    unfold run. rewrite ro_log_steps. simpl pipe_ids. simpl irun_init.
    pose (mk := fun (c : nat) (w : bool * list Z) =>
                  RZ (IWhile f fl c (fst w) (ISrc id (ISlice (snd w))))).
    assert (Hstep : forall c w, exists o ev c',
      irun_next (mk c w) = (o, mk c' (fst (while_stp w)), ev) /\ stops o = false /\
      count_next id ev = snd (while_stp w)).
    { intros c [d a]. unfold mk, irun_next. cbn [fst snd]. rewrite istep_while.
      unfold iwhile, while_stp. destruct d.
      - cbn [fst snd]. eexists; eexists; eexists. split; [reflexivity|]. split; reflexivity.
      - cbn [isize]. rewrite inext_slice. destruct a as [|y t]; cbn [slice_nx].
        + cbn [fst snd]. eexists; eexists; eexists.
          split; [reflexivity|split; [reflexivity|apply count_next_one]].
        + rewrite (panics_now_false fl c Hfl).
          destruct (pred_eval f y); cbn [fst snd]; eexists; eexists; eexists;
            (split; [reflexivity|split; [reflexivity|apply count_next_one]]). }
    pose proof (run_count_c _ mk while_stp id Hstep (sort_ids [id]) k O (false, l) []) as Hc.
    unfold mk in Hc. cbn [fst snd] in Hc. rewrite Hc, while_tot. reflexivity.
  Qed.
End While.

(* ================= Compact ================= *)
Lemma icompact_iso {S1 S2} (nx1 : S1 -> ret Z S1) (nx2 : S2 -> ret Z S2) (g : S1 -> S2) r :
  (forall a, nx2 (g a) = let '(o, a', ev) := nx1 a in (o, g a', ev)) ->
  forall n fi pv a, icompact nx2 n r fi pv (g a) =
                    let '(o, (f', p', a'), ev) := icompact nx1 n r fi pv a in (o, (f', p', g a'), ev).
Proof.
  intros H. induction n as [|n IH]; intros fi pv a; simpl; [reflexivity|].
  rewrite H. destruct (nx1 a) as [[o a1] ev1]. destruct o as [x| | | |]; try reflexivity.
  destruct fi; [reflexivity|]. destruct (negb (rel_eval r pv x)); [reflexivity|]. rewrite IH.
  destruct (icompact nx1 n r false pv a1) as [[o2 [[f2 p2] a2]] ev2]. reflexivity.
Qed.

Lemma ichunk_loop_iso {S1 S2} (nx1 : S1 -> ret Z S1) (nx2 : S2 -> ret Z S2) (g : S1 -> S2) size :
  (forall a, nx2 (g a) = let '(o, a', ev) := nx1 a in (o, g a', ev)) ->
  forall n chunk a, ichunk_loop nx2 n size chunk (g a) =
                    let '(o, a', ev) := ichunk_loop nx1 n size chunk a in (o, g a', ev).
Proof.
  intros H. induction n as [|n IH]; intros chunk a; simpl; [reflexivity|].
  rewrite H. destruct (nx1 a) as [[o a1] ev1]. destruct o as [x| | | |]; try reflexivity.
  - destruct (zlen (chunk ++ [x]) =? size); [reflexivity|]. rewrite IH.
    destruct (ichunk_loop nx1 n size (chunk ++ [x]) a1) as [[o2 a2] ev2]. reflexivity.
  - destruct (0 <? zlen chunk); reflexivity.
Qed.

Section Compact.
  Variables (id : nat) (r : rel).

  (* one call of Compact over the items a: successor state and number of pulls *)
  Fixpoint cstep (first : bool) (prev : Z) (a : list Z) : (bool * Z * list Z) * nat :=
    match a with
    | [] => ((first, prev, []), 1%nat)
    | x :: t =>
        if first then ((false, x, t), 1%nat)
        else if negb (rel_eval r prev x) then ((first, x, t), 1%nat)
        else let '(w, m) := cstep first prev t in (w, S m)
    end.

  Lemma icompact_slice : forall a n first prev, (length a < n)%nat ->
    exists o, icompact (slice_nx id) n r first prev a
              = (o, fst (cstep first prev a), pulls id (snd (cstep first prev a)))
              /\ o <> Pan /\ o <> Out.
  Proof.
    induction a as [|x t IH]; intros n first prev Hn; (destruct n as [|n]; [simpl in Hn; lia|]);
      simpl.
    - exists End. repeat split; discriminate.
    - destruct first; [exists (Item x); repeat split; discriminate|].
      destruct (negb (rel_eval r prev x)); [exists (Item x); repeat split; discriminate|].
      destruct (IH n false prev ltac:(simpl in Hn; lia)) as (o & E & H1 & H2).
      rewrite E. destruct (cstep false prev t) as [w m]. simpl. exists o. repeat split; auto.
  Qed.

  Definition compact_mk (w : bool * Z * list Z) : irun_st :=
    RZ (ICompact r (fst (fst w)) (snd (fst w)) (ISrc id (ISlice (snd w)))).
  Definition compact_stp (w : bool * Z * list Z) := cstep (fst (fst w)) (snd (fst w)) (snd w).

  Lemma compact_step : forall w, exists o ev,
    irun_next (compact_mk w) = (o, compact_mk (fst (compact_stp w)), ev) /\ stops o = false /\
    count_next id ev = snd (compact_stp w).
  Proof.
    intros [[fi pv] a]. unfold compact_mk, compact_stp, irun_next. cbn [fst snd].
    rewrite istep_compact. cbn [isize isrc_size].
    rewrite (icompact_iso (slice_nx id) (inext (S (S (length a)))) (fun a => ISrc id (ISlice a))
                          r (fun a0 => inext_slice (S (length a)) id a0)).
    destruct (icompact_slice a (S (S (S (length a)))) fi pv ltac:(lia)) as (o & E & H1 & H2).
    rewrite E. destruct (cstep fi pv a) as [[[f' p'] a'] m]. cbn [fst snd].
    eexists; eexists. split; [reflexivity|]. split; [|apply count_next_pulls].
    destruct o; simpl; congruence.
  Qed.

  (* number of source calls made by k Next calls, [prev] being the last item yielded: the items
     read until k items have been yielded; when the items run out, the end is read once per
     remaining call *)
  Fixpoint cpos_from (prev : Z) (l : list Z) (k : nat) : nat :=
    match k with
    | O => O
    | S k' =>
        match l with
        | [] => k
        | x :: t => S (if rel_eval r prev x then cpos_from prev t k else cpos_from x t k')
        end
    end.
  Definition compact_pos (l : list Z) (k : nat) : nat :=
    match k, l with
    | S k', x :: t => S (cpos_from x t k')
    | _, [] => k
    | O, _ => O
    end.

  Lemma cpos_from_0 prev l : cpos_from prev l 0 = O.
  Proof. destruct l; reflexivity. Qed.

  Lemma compact_tot_nil : forall k fi prev, tot _ compact_stp k (fi, prev, []) = k.
  Proof.
    induction k as [|k IH]; intros fi prev; [reflexivity|]. cbn [tot].
    change (compact_stp (fi, prev, [])) with ((fi, prev, @nil Z), 1%nat). cbn [fst snd].
    rewrite IH. reflexivity.
  Qed.

  Lemma compact_tot_from : forall a k prev,
    tot _ compact_stp k (false, prev, a) = cpos_from prev a k.
  Proof.
    induction a as [|x t IH]; intros k prev.
    - rewrite compact_tot_nil. destruct k; reflexivity.
    - destruct k as [|k]; [reflexivity|]. cbn [tot].
      assert (Hs : compact_stp (false, prev, x :: t)
                   = if negb (rel_eval r prev x) then ((false, x, t), 1%nat)
                     else let '(w, m) := cstep false prev t in (w, S m)) by reflexivity.
      rewrite Hs. clear Hs. cbn [cpos_from].
      destruct (rel_eval r prev x) eqn:Er; cbn [negb].
      + specialize (IH (S k) prev). cbn [tot] in IH.
        assert (Hs : compact_stp (false, prev, t) = cstep false prev t) by reflexivity.
        rewrite Hs in IH. destruct (cstep false prev t) as [w m]. cbn [fst snd] in *. lia.
      + cbn [fst snd]. rewrite (IH k x). reflexivity.
  Qed.

  Lemma compact_tot l k : tot _ compact_stp k (true, 0, l) = compact_pos l k.
  Proof.
    destruct l as [|x t]; [rewrite compact_tot_nil; destruct k; reflexivity|].
    destruct k as [|k]; [reflexivity|]. cbn [tot].
    assert (Hs : compact_stp (true, 0, x :: t) = ((false, x, t), 1%nat)) by reflexivity.
    rewrite Hs. cbn [fst snd compact_pos]. rewrite (compact_tot_from t k x). reflexivity.
  Qed.

  (* after k Next calls Compact has read exactly up to its k-th item (then: the end, once per
     call) *)
  Theorem compact_pulls_exact cfg l k :
    let run := run_iter_cfg cfg (inl (ZCompact r (ZSrc id (SSlice l)))) (ksteps k) in
    count_next id (ro_log run) = compact_pos l k /\
    results run = expect (map IZ (spec_compact (rel_eval r) l)) k.
  Proof.
    intros run. split; [|apply results_den; [reflexivity|exact I|reflexivity]].
    unfold run. rewrite ro_log_steps. simpl pipe_ids. simpl irun_init.
    pose proof (run_count _ compact_mk compact_stp id compact_step (sort_ids [id]) k
                          (true, 0, l) []) as Hc.
    unfold compact_mk in Hc at 1. cbn [fst snd] in Hc. rewrite Hc, compact_tot.
    reflexivity.
  Qed.
End Compact.


(* ================= Filter, every k ================= *)
Section Filter.
  Variables (id : nat) (keep : pred) (fl : failing).
  Hypothesis Hfl : cb_panics fl = false.

  Fixpoint fstep (a : list Z) : list Z * nat :=
    match a with
    | [] => ([], 1%nat)
    | x :: t => if pred_eval keep x then (t, 1%nat) else let '(w, m) := fstep t in (w, S m)
    end.

  Lemma ifilter_slice : forall a n c, (length a < n)%nat ->
    exists o c', ifilter (slice_nx id) n keep fl c a
                 = (o, (c', fst (fstep a)), pulls id (snd (fstep a)))
              /\ o <> Pan /\ o <> Out.
  Proof.
    induction a as [|x t IH]; intros n c Hn; (destruct n as [|n]; [simpl in Hn; lia|]); simpl.
    - exists End, c. repeat split; discriminate.
    - rewrite (panics_now_false fl c Hfl).
      destruct (pred_eval keep x); [exists (Item x), (S c); repeat split; discriminate|].
      destruct (IH n (S c) ltac:(simpl in Hn; lia)) as (o & c' & E & H1 & H2).
      rewrite E. destruct (fstep t) as [w m]. simpl. exists o, c'. repeat split; auto.
  Qed.

  Lemma filter_step : forall c a, exists o ev c',
    irun_next (RZ (IFilter keep fl c (ISrc id (ISlice a))))
    = (o, RZ (IFilter keep fl c' (ISrc id (ISlice (fst (fstep a))))), ev) /\ stops o = false /\
    count_next id ev = snd (fstep a).
  Proof.
    intros c a. unfold irun_next. rewrite istep_filter. cbn [isize isrc_size].
    rewrite (ifilter_iso (slice_nx id) (inext (S (S (length a)))) (fun a => ISrc id (ISlice a))
                         keep fl (fun a0 => inext_slice (S (length a)) id a0)).
    destruct (ifilter_slice a (S (S (S (length a)))) c ltac:(lia)) as (o & c' & E & H1 & H2).
    rewrite E. eexists; eexists; exists c'. split; [reflexivity|].
    split; [|apply count_next_pulls].
    destruct o; simpl; congruence.
  Qed.

  (* source calls made by k Next calls: the items read until k items have been kept; when the
     items run out, the end once per remaining call.  For k <= number of kept items this is
     Lazy.kept_pos. *)
  Fixpoint filter_pos (l : list Z) (k : nat) : nat :=
    match k with
    | O => O
    | S k' =>
        match l with
        | [] => k
        | x :: t => S (if pred_eval keep x then filter_pos t k' else filter_pos t k)
        end
    end.

  Lemma filter_tot : forall a k, tot _ fstep k a = filter_pos a k.
  Proof.
    induction a as [|x t IH]; intros k.
    - induction k as [|k IHk]; [reflexivity|]. cbn [tot fstep fst snd]. rewrite IHk.
      destruct k; reflexivity.
    - destruct k as [|k]; [reflexivity|]. cbn [tot fstep filter_pos].
      destruct (pred_eval keep x).
      + cbn [fst snd]. rewrite IH. reflexivity.
      + specialize (IH (S k)). cbn [tot] in IH. destruct (fstep t) as [w m].
        cbn [fst snd] in *. lia.
  Qed.

  Theorem filter_pulls_all cfg l k :
    let run := run_iter_cfg cfg (inl (ZFilter keep fl (ZSrc id (SSlice l)))) (ksteps k) in
    count_next id (ro_log run) = filter_pos l k /\
    results run = expect (map IZ (filter (pred_eval keep) l)) k.
  Proof.
    intros run.
    split; [|apply results_den; [reflexivity|exact I|simpl; rewrite Hfl; reflexivity]].
    unfold run. rewrite ro_log_steps. simpl pipe_ids. simpl irun_init.
    pose proof (run_count_c _ (fun c a => RZ (IFilter keep fl c (ISrc id (ISlice a)))) fstep id
                            filter_step (sort_ids [id]) k O l []) as Hc.
    cbv beta in Hc. rewrite Hc, filter_tot. reflexivity.
  Qed.
End Filter.

(* ================= Chunk n (n >= 1) ================= *)
Section Chunk.
  Variables (id : nat) (n : Z).
  Hypothesis Hn : 1 <= n.
  Let N := Z.to_nat n.

  Definition chunk_stp (a : list Z) : list Z * nat :=
    match a with
    | [] => ([], 1%nat)
    | _ => if (N <=? length a)%nat then (skipn N a, N) else ([], S (length a))
    end.

  (* len items, chunks of N: k*N pulls while whole chunks are handed out; the last (short) chunk
     costs its items and the end; every later call one more pull *)
  Definition chunk_pulls (len k : nat) : nat :=
    if (k <=? len / N)%nat then (k * N)%nat else (len + (k - len / N))%nat.

  Lemma chunk_step : forall a, exists o ev,
    irun_next (RL (IChunk n (ISrc id (ISlice a))))
    = (o, RL (IChunk n (ISrc id (ISlice (fst (chunk_stp a))))), ev) /\ stops o = false /\
    count_next id ev = snd (chunk_stp a).
  Proof.
    intros a. unfold irun_next. rewrite ilstep_chunk. unfold ichunk.
    destruct (n <? 0) eqn:E0; [apply Z.ltb_lt in E0; lia|]. cbn [isize isrc_size].
    rewrite (ichunk_loop_iso (slice_nx id) (inext (S (2 * S (length a))))
               (fun a => ISrc id (ISlice a)) n
               (fun a0 => inext_slice (2 * S (length a)) id a0)).
    destruct a as [|y t].
    - simpl. eexists; eexists. split; [reflexivity|]. split; [reflexivity|apply count_next_one].
    - destruct (ichunk_loop (slice_nx id) (S (S (2 * S (length (y :: t))))) n [] (y :: t))
        as [[o a'] ev] eqn:E.
      assert (Hfu : (length (y :: t) < S (S (2 * S (length (y :: t)))))%nat) by lia.
      assert (Hz0 : zlen (@nil Z) < n) by (unfold zlen; simpl; lia).
      pose proof (ichunk_loop_lazy id n _ [] (y :: t) o a' ev Hfu Hz0 E) as Hl.
      destruct o as [l| | | |]; try (destruct Hl; fail).
      + destruct Hl as (taken & Hl & Ha & Hcase). simpl in Hl. subst l.
        unfold chunk_stp. destruct Hcase as [[Hz He]|(Hz & Ha' & He)].
        * assert (HN : length taken = N) by (unfold zlen in Hz; unfold N; lia).
          assert (Hle : (N <=? length (y :: t))%nat = true).
          { apply Nat.leb_le. rewrite Ha, app_length. lia. }
          rewrite Hle. cbn [fst snd].
          assert (Hsk : skipn N (y :: t) = a').
          { rewrite Ha, <- HN. rewrite skipn_app, skipn_all, Nat.sub_diag. reflexivity. }
          rewrite Hsk, He, HN. eexists; eexists. split; [reflexivity|].
          split; [reflexivity|apply count_next_pulls].
        * subst a'. rewrite app_nil_r in Ha.
          assert (Hlt : (N <=? length (y :: t))%nat = false).
          { apply Nat.leb_gt. rewrite Ha. unfold zlen in Hz. unfold N. lia. }
          rewrite Hlt. cbn [fst snd]. rewrite He, <- Ha, Nat.add_1_r.
          eexists; eexists. split; [reflexivity|]. split; [reflexivity|apply count_next_pulls].
      + destruct Hl as (_ & Hx & _). discriminate Hx.
  Qed.

  Lemma chunk_tot : forall k a, tot _ chunk_stp k a = chunk_pulls (length a) k.
  Proof.
    assert (HN : (1 <= N)%nat) by (unfold N; lia).
    induction k as [|k IH]; intros a.
    - unfold chunk_pulls. simpl. reflexivity.
    - cbn [tot]. destruct a as [|y t].
      + change (chunk_stp []) with (@nil Z, 1%nat). cbn [fst snd]. rewrite IH.
        unfold chunk_pulls. cbn [length].
        rewrite Nat.div_0_l by lia. simpl. destruct k; simpl; lia.
      + assert (Hs : chunk_stp (y :: t)
                     = if (N <=? length (y :: t))%nat then (skipn N (y :: t), N)
                       else ([], S (length (y :: t)))) by reflexivity.
        rewrite Hs. clear Hs. destruct (N <=? length (y :: t))%nat eqn:E.
        * apply Nat.leb_le in E. cbn [fst snd]. rewrite IH, skipn_length.
          unfold chunk_pulls.
          assert (Hd : (length (y :: t) / N = S ((length (y :: t) - N) / N))%nat).
          { replace (length (y :: t)) with ((length (y :: t) - N) + 1 * N)%nat at 1 by lia.
            rewrite Nat.div_add by lia. lia. }
          rewrite Hd.
          destruct (Nat.leb_spec k ((length (y :: t) - N) / N));
            destruct (Nat.leb_spec (S k) (S ((length (y :: t) - N) / N))); try lia.
        * apply Nat.leb_gt in E. cbn [fst snd]. rewrite IH. unfold chunk_pulls.
          cbn [length] in *. rewrite Nat.div_0_l by lia.
          rewrite (Nat.div_small (S (length t)) N) by lia.
          destruct k; simpl; lia.
  Qed.

  Theorem chunk_pulls_exact cfg l k :
    let run := run_iter_cfg cfg (inr (LChunk n (ZSrc id (SSlice l)))) (ksteps k) in
    count_next id (ro_log run) = chunk_pulls (length l) k /\
    results run = expect (map IL (spec_chunk n l)) k.
  Proof.
    intros run. split; [|apply results_den; [reflexivity|simpl; auto|reflexivity]].
    unfold run. rewrite ro_log_steps. simpl pipe_ids. simpl irun_init.
    pose proof (run_count _ (fun a => RL (IChunk n (ISrc id (ISlice a)))) chunk_stp id chunk_step
                          (sort_ids [id]) k l []) as Hc.
    cbv beta in Hc. rewrite Hc, chunk_tot. reflexivity.
  Qed.
End Chunk.

(* ================= Join and Flatten over Slice sources ================= *)
Definition src_st (w : nat * list Z) : ist := ISrc (fst w) (ISlice (snd w)).
Definition src_pz (w : nat * list Z) : pz := ZSrc (fst w) (SSlice (snd w)).

Lemma count_next_cons id i ev :
  count_next id (SevNext i :: ev) = ((if (i =? id)%nat then 1 else 0) + count_next id ev)%nat.
Proof. unfold count_next. simpl. destruct (i =? id)%nat; reflexivity. Qed.

Section JoinFlatten.
  Variable id : nat.
  Definition hit (i : nat) : nat := if (i =? id)%nat then 1%nat else O.

  (* one call: exhausted leading sources are asked once more (their end) and dropped, the first
     source that still has an item is asked once *)
  Fixpoint jstep (srcs : list (nat * list Z)) : list (nat * list Z) * nat :=
    match srcs with
    | [] => ([], O)
    | (i, []) :: rest => let '(w, m) := jstep rest in (w, (hit i + m)%nat)
    | (i, x :: t) :: rest => ((i, t) :: rest, hit i)
    end.

  (* the source with id [id] after k calls: nothing while the items before it last, then one
     pull per call up to its length + 1 (its end), then nothing more *)
  Fixpoint join_pulls (srcs : list (nat * list Z)) (k : nat) : nat :=
    match srcs with
    | [] => O
    | (i, a) :: rest =>
        match k with
        | O => O
        | _ => ((if (i =? id)%nat then Nat.min k (S (length a)) else O)
                + join_pulls rest (k - length a))%nat
        end
    end.

  Lemma join_pulls_0 srcs : join_pulls srcs 0 = O.
  Proof. destruct srcs as [|[i a] rest]; reflexivity. Qed.

  Lemma jstep_pulls : forall srcs k,
    (snd (jstep srcs) + join_pulls (fst (jstep srcs)) k)%nat = join_pulls srcs (S k).
  Proof.
    induction srcs as [|[i a] rest IH]; intros k; [reflexivity|].
    destruct a as [|x t].
    - cbn [jstep]. specialize (IH k). destruct (jstep rest) as [w m]. cbn [fst snd] in *.
      cbn [join_pulls length]. rewrite Nat.sub_0_r, <- IH. unfold hit.
      destruct (i =? id)%nat; lia.
    - cbn [jstep fst snd]. destruct k as [|k].
      + rewrite join_pulls_0. cbn [join_pulls length]. replace (1 - S (length t))%nat with O by lia.
        rewrite join_pulls_0. unfold hit. destruct (i =? id)%nat; lia.
      + cbn [join_pulls length]. replace (S (S k) - S (length t))%nat with (S k - length t)%nat by lia.
        unfold hit. destruct (i =? id)%nat; lia.
  Qed.

  Lemma join_tot : forall k srcs, tot _ jstep k srcs = join_pulls srcs k.
  Proof.
    induction k as [|k IH]; intros srcs; [rewrite join_pulls_0; reflexivity|].
    cbn [tot]. rewrite IH. apply jstep_pulls.
  Qed.

  (* ---- Join ---- *)
  Lemma ijoin_slices f : forall srcs n, (length srcs < n)%nat -> exists o ev,
    ijoin (inext (S f)) n (map src_st srcs) = (o, map src_st (fst (jstep srcs)), ev) /\
    o <> Pan /\ o <> Out /\ count_next id ev = snd (jstep srcs).
  Proof.
    induction srcs as [|[i a] rest IH]; intros n Hn; (destruct n as [|n]; [simpl in Hn; lia|]).
    - simpl. exists End, []. repeat split; discriminate.
    - cbn [map ijoin]. unfold src_st at 1. cbn [fst snd]. rewrite inext_slice.
      destruct a as [|x t]; cbn [slice_nx].
      + destruct (IH n ltac:(simpl in Hn; lia)) as (o & ev & E & H1 & H2 & H3). rewrite E.
        cbn [after jstep]. destruct (jstep rest) as [w m]. cbn [fst snd] in *.
        exists o, ([SevNext i] ++ ev). repeat split; auto.
        simpl. rewrite count_next_cons, H3. reflexivity.
      + cbn [jstep fst snd map]. exists (Item x), [SevNext i]. repeat split; try discriminate.
        rewrite count_next_cons. unfold hit, count_next. simpl. lia.
  Qed.

  Lemma lsm_ge_length {A} (g : A -> nat) l : (length l <= list_sum_map (fun c => S (g c)) l)%nat.
  Proof. induction l as [|x t IH]; simpl; lia. Qed.

  Lemma join_step : forall srcs, exists o ev,
    irun_next (RZ (IJoin (map src_st srcs))) = (o, RZ (IJoin (map src_st (fst (jstep srcs)))), ev) /\
    stops o = false /\ count_next id ev = snd (jstep srcs).
  Proof.
    intros srcs. unfold irun_next. rewrite istep_join. cbv zeta.
    destruct (ijoin_slices (list_sum_map (fun c => S (isize c)) (map src_st srcs)) srcs
                (S (S (list_sum_map (fun c => S (isize c)) (map src_st srcs)))))
      as (o & ev & E & H1 & H2 & H3).
    { pose proof (lsm_ge_length isize (map src_st srcs)) as H. rewrite map_length in H. lia. }
    rewrite E. exists (obs_z o), ev. split; [reflexivity|]. split; [|exact H3].
    destruct o; simpl; congruence.
  Qed.

  Lemma iinit_srcs srcs : map iinit (map src_pz srcs) = map src_st srcs.
  Proof. rewrite map_map. apply map_ext. intros [i a]. reflexivity. Qed.
  Lemma srcs_supported srcs : forallb iter_supported_z (map src_pz srcs) = true.
  Proof. induction srcs as [|[i a] t IH]; simpl; auto. Qed.
  Lemma srcs_dom srcs : fold_right (fun p acc => dom_z p /\ acc) True (map src_pz srcs).
  Proof. induction srcs as [|[i a] t IH]; simpl; auto. Qed.
  Lemma srcs_nopanic srcs : forallb no_panics_z (map src_pz srcs) = true.
  Proof. induction srcs as [|[i a] t IH]; simpl; auto. Qed.
  Lemma srcs_den srcs : concat (map den_z (map src_pz srcs)) = concat (map snd srcs).
  Proof. induction srcs as [|[i a] t IH]; simpl; [reflexivity|]. rewrite IH. reflexivity. Qed.

  Theorem join_pulls_exact cfg srcs k :
    let run := run_iter_cfg cfg (inl (ZJoin (map src_pz srcs))) (ksteps k) in
    count_next id (ro_log run) = join_pulls srcs k /\
    results run = expect (map IZ (concat (map snd srcs))) k.
  Proof.
    intros run. split.
    - unfold run. rewrite ro_log_steps. cbn [irun_init iinit]. rewrite iinit_srcs.
      pose proof (run_count _ (fun w => RZ (IJoin (map src_st w))) jstep id join_step
                            (sort_ids (pipe_ids (inl (ZJoin (map src_pz srcs))))) k srcs []) as Hc.
      cbv beta in Hc. rewrite Hc, join_tot. reflexivity.
    - unfold run. rewrite results_den; [|apply srcs_supported|apply srcs_dom|apply srcs_nopanic].
      simpl. rewrite srcs_den. reflexivity.
  Qed.

  (* ---- Flatten: the same pulls as Join ---- *)
  Definition fl_enc (srcs : list (nat * list Z)) : list ist * option ist :=
    match srcs with
    | [] => ([], None)
    | c :: rest => (map src_st rest, Some (src_st c))
    end.

  Lemma iflatten_slices f : forall srcs n, (2 * length srcs + 1 < n)%nat -> exists o ev,
    iflatten (inext (S f)) n (map src_st srcs) None = (o, fl_enc (fst (jstep srcs)), ev) /\
    o <> Pan /\ o <> Out /\ count_next id ev = snd (jstep srcs).
  Proof.
    induction srcs as [|[i a] rest IH]; intros n Hn; (destruct n as [|n]; [lia|]).
    - simpl. exists End, []. repeat split; discriminate.
    - cbn [map iflatten]. destruct n as [|n]; [simpl in Hn; lia|]. cbn [iflatten].
      unfold src_st at 1. cbn [fst snd]. rewrite inext_slice.
      destruct a as [|x t]; cbn [slice_nx].
      + destruct (IH n ltac:(simpl in Hn; lia)) as (o & ev & E & H1 & H2 & H3). rewrite E.
        cbn [after jstep]. destruct (jstep rest) as [w m]. cbn [fst snd] in *.
        exists o, ([SevNext i] ++ ev). repeat split; auto.
        simpl. rewrite count_next_cons, H3. reflexivity.
      + cbn [jstep fst snd fl_enc]. exists (Item x), [SevNext i]. repeat split; try discriminate.
        rewrite count_next_cons. unfold hit, count_next. simpl. lia.
  Qed.

  (* with a current inner iterator c: like the Join of c :: rest *)
  Lemma iflatten_slices_some f c rest n : (2 * length rest + 2 < n)%nat -> exists o ev,
    iflatten (inext (S f)) n (map src_st rest) (Some (src_st c))
    = (o, fl_enc (fst (jstep (c :: rest))), ev) /\
    o <> Pan /\ o <> Out /\ count_next id ev = snd (jstep (c :: rest)).
  Proof.
    intros Hn. destruct n as [|n]; [lia|]. destruct c as [i a]. cbn [iflatten].
    unfold src_st at 1. cbn [fst snd]. rewrite inext_slice.
    destruct a as [|x t]; cbn [slice_nx].
    - destruct (iflatten_slices f rest n ltac:(lia)) as (o & ev & E & H1 & H2 & H3). rewrite E.
      cbn [after jstep]. destruct (jstep rest) as [w m]. cbn [fst snd] in *.
      exists o, ([SevNext i] ++ ev). repeat split; auto.
      simpl. rewrite count_next_cons, H3. reflexivity.
    - cbn [jstep fst snd fl_enc]. exists (Item x), [SevNext i]. repeat split; try discriminate.
      rewrite count_next_cons. unfold hit, count_next. simpl. lia.
  Qed.

  Definition fl_mk (srcs : list (nat * list Z)) : irun_st :=
    RZ (IFlatten (fst (fl_enc srcs)) (snd (fl_enc srcs))).

  Lemma lsm_ge_2length {A} (g : A -> nat) l :
    (2 * length l <= list_sum_map (fun c => S (S (g c))) l)%nat.
  Proof. induction l as [|x t IH]; simpl; lia. Qed.

  Lemma flatten_step : forall srcs, exists o ev,
    irun_next (fl_mk srcs) = (o, fl_mk (fst (jstep srcs)), ev) /\
    stops o = false /\ count_next id ev = snd (jstep srcs).
  Proof.
    intros srcs. unfold fl_mk, irun_next. rewrite istep_flatten. cbv zeta.
    destruct srcs as [|c rest].
    - simpl. exists REnd, []. repeat split; reflexivity.
    - cbn [fl_enc fst snd].
      match goal with |- context [iflatten (inext (S ?F)) ?n _ _] =>
        destruct (iflatten_slices_some F c rest n) as (o & ev & E & H1 & H2 & H3) end.
      { pose proof (lsm_ge_2length isize (map src_st rest)) as H. rewrite map_length in H. lia. }
      rewrite E. destruct (fl_enc (fst (jstep (c :: rest)))) as [r' c'].
      exists (obs_z o), ev. split; [reflexivity|]. split; [|exact H3].
      destruct o; simpl; congruence.
  Qed.

  (* the first call of a fresh Flatten (no current inner iterator yet) *)
  Lemma flatten_first_step : forall srcs, exists o ev,
    irun_next (RZ (IFlatten (map src_st srcs) None)) = (o, fl_mk (fst (jstep srcs)), ev) /\
    stops o = false /\ count_next id ev = snd (jstep srcs).
  Proof.
    intros srcs. unfold fl_mk, irun_next. rewrite istep_flatten. cbv zeta.
    match goal with |- context [iflatten (inext (S ?F)) ?n _ _] =>
      destruct (iflatten_slices F srcs n) as (o & ev & E & H1 & H2 & H3) end.
    { pose proof (lsm_ge_2length isize (map src_st srcs)) as H. rewrite map_length in H. lia. }
    rewrite E. destruct (fl_enc (fst (jstep srcs))) as [r' c'].
    exists (obs_z o), ev. split; [reflexivity|]. split; [|exact H3].
    destruct o; simpl; congruence.
  Qed.

  Theorem flatten_pulls_exact cfg srcs k :
    let run := run_iter_cfg cfg (inl (ZFlatten (map src_pz srcs))) (ksteps k) in
    count_next id (ro_log run) = join_pulls srcs k /\
    results run = expect (map IZ (concat (map snd srcs))) k.
  Proof.
    intros run. split.
    - unfold run. rewrite ro_log_steps. cbn [irun_init iinit]. rewrite iinit_srcs.
      destruct k as [|k]; [rewrite join_pulls_0; reflexivity|].
      cbn [repeat map irun_steps].
      destruct (flatten_first_step srcs) as (o & ev & E & Hs & Hc). rewrite E, Hs.
      pose proof (run_count _ fl_mk jstep id flatten_step
                    (sort_ids (pipe_ids (inl (ZFlatten (map src_pz srcs))))) k
                    (fst (jstep srcs)) ([] ++ ev)) as Hr.
      destruct (irun_steps _ (fl_mk (fst (jstep srcs))) ([] ++ ev) (map CNext (repeat true k)))
        as [r l].
      cbn [snd] in *. rewrite Hr, join_tot. simpl app. rewrite Hc. apply jstep_pulls.
    - unfold run. rewrite results_den; [|apply srcs_supported|apply srcs_dom|apply srcs_nopanic].
      simpl. rewrite srcs_den. reflexivity.
  Qed.
End JoinFlatten.

(* non-vacuity *)
Example pulls_demo :
  let srcs := [(0%nat, [1; 2]); (1%nat, []); (2%nat, [3])] in
  map (fun k => map (fun id => join_pulls id srcs k) [0; 1; 2]%nat) [0; 1; 2; 3; 4; 5]%nat
  = [[0; 0; 0]; [1; 0; 0]; [2; 0; 0]; [3; 1; 1]; [3; 1; 2]; [3; 1; 2]]%nat /\
  map (chunk_pulls 3 7) [0; 1; 2; 3; 4]%nat = [0; 3; 6; 8; 9]%nat /\
  map (compact_pos RelEq [5; 5; 6; 6; 6; 7]) [0; 1; 2; 3; 4; 5]%nat = [0; 1; 3; 6; 7; 8]%nat /\
  map (filter_pos (PrModEq 2 0) [1; 2; 3; 4]) [0; 1; 2; 3; 4]%nat = [0; 2; 4; 5; 6]%nat /\
  map (while_pulls (PrLt 3) [1; 2; 5; 1]) [0; 1; 2; 3; 4; 5]%nat = [0; 1; 2; 3; 3; 3]%nat.
Proof. vm_compute. repeat split; reflexivity. Qed.
