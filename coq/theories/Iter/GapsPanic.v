(* Panic-freedom of the stream model on the documented parameter domain when neither a callback
   nor a source panics, and C09 for ALL pipelines, panics included (a panicking step is
   recovered by the consumer and the run goes on: no run is cut short any more).

   The only statement of /repo/stream/stream.go that can panic by itself is
   `make([]T, 0, chunkSize)` in chunkStream.Next (a negative size); the model answers [Pan]
   there, when a callback panics and when a scripted source panics.  [sdom] says that every
   Chunk node of a state has a size >= 1, that no callback ever panics and that no script has an
   EvPanic event; it is invariant under every call - whatever the sources answer (items,
   transient or fatal errors, the end), whether callbacks return errors and whether the context
   is expired - and no call on an [sdom] state answers [Pan]. *)
From Juniper Require Import Common.Base Iter.Syntax Iter.Config Iter.ModelBase Iter.IterModel
  Iter.StreamModel Iter.Spec Iter.Contract Iter.IterProofs Iter.StreamProofs Iter.Events
  Iter.StreamEvents Iter.StreamFatal Iter.Reducers Iter.SReducers.

(* a callback that never panics fails by returning its error *)
Lemma fail_res_np {A} fl calls :
  cb_panics fl = false -> fails_now fl calls = true -> @fail_res A fl <> Pan.
Proof.
  unfold cb_panics, fails_now, fail_res. destruct (fail_panic fl); [|discriminate].
  destruct (fail_at fl); simpl; discriminate.
Qed.

Lemma pass_np {A B} (o : res A) : o <> Pan -> @pass A B o <> Pan.
Proof. destruct o; simpl; congruence. Qed.

Ltac npsolve := simpl; split; auto; try discriminate; try congruence.

Section GenericNoPanic.
  Context {St : Type} (nx : St -> ret Z St) (cl : St -> list sev) (inv : St -> Prop).
  Hypothesis Hnx : forall s o s' ev, inv s -> nx s = (o, s', ev) -> inv s' /\ o <> Pan.

  Lemma ipk_next_np p o p' ev :
    inv (pk_in p) -> ipk_next nx p = (o, p', ev) -> inv (pk_in p') /\ o <> Pan.
  Proof.
    unfold ipk_next. intros Hi. destruct (pk_has p).
    - intros Hc. inv_ret Hc. npsolve.
    - destruct (nx (pk_in p)) as [[o1 s1] ev1] eqn:E. intros Hc. inv_ret Hc. simpl.
      exact (Hnx _ _ _ _ Hi E).
  Qed.

  Lemma ipk_peek_np p o p' ev :
    inv (pk_in p) -> ipk_peek nx p = (o, p', ev) -> inv (pk_in p') /\ o <> Pan.
  Proof.
    unfold ipk_peek. intros Hi. destruct (pk_has p).
    - intros Hc. inv_ret Hc. npsolve.
    - destruct (nx (pk_in p)) as [[o1 s1] ev1] eqn:E. destruct (Hnx _ _ _ _ Hi E) as [Hi1 Hn1].
      intros Hc. destruct o1; inv_ret Hc; npsolve.
  Qed.

  Lemma icompact_np n r : forall first prev s o first' prev' s' ev,
    inv s -> icompact nx n r first prev s = (o, (first', prev', s'), ev) -> inv s' /\ o <> Pan.
  Proof.
    induction n as [|n IH]; intros first prev s o first' prev' s' ev Hi Hc; simpl in Hc.
    - inv_ret Hc. npsolve.
    - destruct (nx s) as [[o1 s1] ev1] eqn:E. destruct (Hnx _ _ _ _ Hi E) as [Hi1 Hn1].
      destruct o1 as [x| | | |]; try (inv_ret Hc; npsolve; fail).
      destruct first; [inv_ret Hc; npsolve|].
      destruct (negb (rel_eval r prev x)); [inv_ret Hc; npsolve|].
      destruct (icompact nx n r false prev s1) as [[o2 [[f2 pr2] s2]] ev2] eqn:E2.
      simpl in Hc. inv_ret Hc. exact (IH _ _ _ _ _ _ _ _ Hi1 E2).
  Qed.

  Lemma sfilter_np n keep fl : cb_panics fl = false -> forall calls s o calls' s' ev,
    inv s -> sfilter nx n keep fl calls s = (o, (calls', s'), ev) -> inv s' /\ o <> Pan.
  Proof.
    intros Hfl. induction n as [|n IH]; intros calls s o calls' s' ev Hi Hc; simpl in Hc.
    - inv_ret Hc. npsolve.
    - destruct (nx s) as [[o1 s1] ev1] eqn:E. destruct (Hnx _ _ _ _ Hi E) as [Hi1 Hn1].
      destruct o1 as [x| | | |]; try (inv_ret Hc; npsolve; fail).
      destruct (fails_now fl calls) eqn:Ef;
        [inv_ret Hc; split; [exact Hi1|exact (fail_res_np fl calls Hfl Ef)]|].
      destruct (pred_eval keep x); [inv_ret Hc; npsolve|].
      destruct (sfilter nx n keep fl (S calls) s1) as [[o2 [c2 s2]] ev2] eqn:E2.
      simpl in Hc. inv_ret Hc. exact (IH _ _ _ _ _ _ Hi1 E2).
  Qed.

  Lemma sfirst_np x s o x' s' ev :
    inv s -> sfirst nx x s = (o, (x', s'), ev) -> inv s' /\ o <> Pan.
  Proof.
    unfold sfirst. intros Hi. destruct (x <=? 0).
    - intros Hc. inv_ret Hc. npsolve.
    - destruct (nx s) as [[o1 s1] ev1] eqn:E. destruct (Hnx _ _ _ _ Hi E) as [Hi1 Hn1].
      intros Hc. destruct o1; inv_ret Hc; npsolve.
  Qed.

  Lemma smap_np f fl calls s o calls' s' ev : cb_panics fl = false ->
    inv s -> smap nx f fl calls s = (o, (calls', s'), ev) -> inv s' /\ o <> Pan.
  Proof.
    unfold smap. intros Hfl Hi.
    destruct (nx s) as [[o1 s1] ev1] eqn:E. destruct (Hnx _ _ _ _ Hi E) as [Hi1 Hn1].
    intros Hc. destruct o1 as [x| | | |]; try (inv_ret Hc; npsolve; fail).
    destruct (fails_now fl calls) eqn:Ef; inv_ret Hc;
      [split; [exact Hi1|exact (fail_res_np fl calls Hfl Ef)]|npsolve].
  Qed.

  Lemma swhile_np f fl calls item has done s o calls' item' has' done' s' ev :
    cb_panics fl = false ->
    inv s -> swhile nx f fl calls item has done s = (o, (calls', item', has', done', s'), ev) ->
    inv s' /\ o <> Pan.
  Proof.
    unfold swhile. intros Hfl Hi. destruct done.
    - intros Hc. inv_ret Hc. npsolve.
    - destruct has.
      + destruct (fails_now fl calls) eqn:Ef;
          [intros Hc; inv_ret Hc; split; [exact Hi|exact (fail_res_np fl calls Hfl Ef)]|].
        destruct (pred_eval f item); intros Hc; inv_ret Hc; npsolve.
      + destruct (nx s) as [[o1 s1] ev1] eqn:E. destruct (Hnx _ _ _ _ Hi E) as [Hi1 Hn1].
        destruct o1 as [x| | | |]; try (intros Hc; inv_ret Hc; npsolve; fail).
        destruct (fails_now fl calls) eqn:Ef;
          [intros Hc; inv_ret Hc; split; [exact Hi1|exact (fail_res_np fl calls Hfl Ef)]|].
        destruct (pred_eval f x); intros Hc; inv_ret Hc; npsolve.
  Qed.

  Definition oinv (c : option St) : Prop := match c with Some c => inv c | None => True end.

  Lemma sflatten_np n live : forall rest curr o rest' curr' ev,
    Forall inv rest -> oinv curr ->
    sflatten nx cl n live rest curr = (o, (rest', curr'), ev) ->
    (Forall inv rest' /\ oinv curr') /\ o <> Pan.
  Proof.
    induction n as [|n IH]; intros rest curr o rest' curr' ev Hr Hcu Hc; simpl in Hc.
    - inv_ret Hc. npsolve.
    - destruct curr as [c|].
      + destruct (nx c) as [[o1 c1] ev1] eqn:E. destruct (Hnx _ _ _ _ Hcu E) as [Hi1 Hn1].
        destruct o1 as [x| | | |]; try (inv_ret Hc; npsolve; fail).
        destruct (sflatten nx cl n live rest None) as [[o2 [r2 c2]] ev2] eqn:E2.
        simpl in Hc. inv_ret Hc. exact (IH rest None _ _ _ _ Hr I E2).
      + destruct (negb live); [inv_ret Hc; npsolve|].
        destruct rest as [|c rest0]; [inv_ret Hc; npsolve|].
        inversion Hr as [|c0 t0 Hc0 Ht0]; subst. exact (IH rest0 (Some c) _ _ _ _ Ht0 Hc0 Hc).
  Qed.

  Lemma sjoin_np n : forall rem o rem' ev,
    Forall inv rem -> sjoin nx cl n rem = (o, rem', ev) -> Forall inv rem' /\ o <> Pan.
  Proof.
    induction n as [|n IH]; intros rem o rem' ev Hr Hc; simpl in Hc.
    - inv_ret Hc. npsolve.
    - destruct rem as [|c tl]; [inv_ret Hc; npsolve|].
      inversion Hr as [|c0 t0 Hc0 Ht0]; subst.
      destruct (nx c) as [[o1 c1] ev1] eqn:E. destruct (Hnx _ _ _ _ Hc0 E) as [Hi1 Hn1].
      destruct o1 as [x| | | |]; try (inv_ret Hc; npsolve; fail).
      destruct (sjoin nx cl n tl) as [[o2 r2] ev2] eqn:E2.
      simpl in Hc. inv_ret Hc. exact (IH _ _ _ _ Ht0 E2).
  Qed.

  (* the one place where the code can panic: a chunk is handed out at the end with size < 0 *)
  Lemma schunk_np n size : 0 <= size -> forall chunk s o chunk' s' ev,
    inv s -> schunk nx n size chunk s = (o, (chunk', s'), ev) -> inv s' /\ o <> Pan.
  Proof.
    intros Hsz. induction n as [|n IH]; intros chunk s o chunk' s' ev Hi Hc; simpl in Hc.
    - inv_ret Hc. npsolve.
    - destruct (nx s) as [[o1 s1] ev1] eqn:E. destruct (Hnx _ _ _ _ Hi E) as [Hi1 Hn1].
      destruct o1 as [x| | | |]; try (inv_ret Hc; npsolve; fail).
      + destruct (zlen (chunk ++ [x]) =? size); [inv_ret Hc; npsolve|].
        destruct (schunk nx n size (chunk ++ [x]) s1) as [[o2 [c2 s2]] ev2] eqn:E2.
        simpl in Hc. inv_ret Hc. exact (IH _ _ _ _ _ _ Hi1 E2).
      + destruct (0 <? zlen chunk); [|inv_ret Hc; npsolve].
        destruct (size <? 0) eqn:Es; [apply Z.ltb_lt in Es; lia|]. inv_ret Hc. npsolve.
  Qed.

  Lemma sruns_inner_np r prev p o p' ev :
    inv (pk_in p) -> sruns_inner nx r prev p = (o, p', ev) -> inv (pk_in p') /\ o <> Pan.
  Proof.
    unfold sruns_inner. intros Hi. destruct (ipk_peek nx p) as [[o1 p1] ev1] eqn:E1.
    destruct (ipk_peek_np _ _ _ _ Hi E1) as [Hi1 Hn1].
    destruct o1 as [x| | | |]; try (intros Hc; inv_ret Hc; npsolve; fail).
    destruct (rel_eval r prev x); [|intros Hc; inv_ret Hc; npsolve].
    destruct (ipk_next nx p1) as [[o2 p2] ev2] eqn:E2.
    intros Hc. inv_ret Hc. exact (ipk_next_np _ _ _ _ Hi1 E2).
  Qed.

  Lemma sruns_drain_np n r prev : forall p o p' ev,
    inv (pk_in p) -> sruns_drain nx n r prev p = (o, p', ev) -> inv (pk_in p') /\ o <> Pan.
  Proof.
    induction n as [|n IH]; intros p o p' ev Hi Hc; simpl in Hc.
    - inv_ret Hc. npsolve.
    - destruct (sruns_inner nx r prev p) as [[o1 p1] ev1] eqn:E1.
      destruct (sruns_inner_np _ _ _ _ _ _ Hi E1) as [Hi1 Hn1].
      destruct o1 as [x| | | |]; try (inv_ret Hc; npsolve; fail).
      destruct (sruns_drain nx n r prev p1) as [[o2 p2] ev2] eqn:E2.
      simpl in Hc. inv_ret Hc. exact (IH _ _ _ _ Hi1 E2).
  Qed.

  Lemma sruns_take_np n r k prev : forall acc p o acc' p' ev,
    inv (pk_in p) -> sruns_take nx n r k acc prev p = (o, (acc', p'), ev) ->
    inv (pk_in p') /\ o <> Pan.
  Proof.
    induction n as [|n IH]; intros acc p o acc' p' ev Hi Hc; simpl in Hc.
    - inv_ret Hc. npsolve.
    - destruct (match k with Some k0 => (k0 <=? length acc)%nat | None => false end).
      + inv_ret Hc. npsolve.
      + destruct (sruns_inner nx r prev p) as [[o1 p1] ev1] eqn:E1.
        destruct (sruns_inner_np _ _ _ _ _ _ Hi E1) as [Hi1 Hn1].
        destruct o1 as [x| | | |]; try (inv_ret Hc; npsolve; fail).
        destruct (sruns_take nx n r k (acc ++ [x]) prev p1) as [[o2 [a2 p2]] ev2] eqn:E2.
        simpl in Hc. inv_ret Hc. exact (IH _ _ _ _ _ _ Hi1 E2).
  Qed.

  Lemma sruns_np n r k cur pend p o cur' pend' p' ev :
    inv (pk_in p) -> sruns nx n r k cur pend p = (o, (cur', pend', p'), ev) ->
    inv (pk_in p') /\ o <> Pan.
  Proof.
    intros Hi.
    assert (Htake : forall x acc p2 ev0,
      inv (pk_in p2) ->
      (let '(o3, (acc3, p3), ev3) := sruns_take nx n r k acc x p2 in
       match o3 with
       | Item l => (Item l, (Some x, None, p3), ev0 ++ ev3)
       | _ => (pass o3, (Some x, Some acc3, p3), ev0 ++ ev3)
       end) = (o, (cur', pend', p'), ev) -> inv (pk_in p') /\ o <> Pan).
    { intros x acc p2 ev0 Hi2 Hc.
      destruct (sruns_take nx n r k acc x p2) as [[o3 [acc3 p3]] ev3] eqn:E3.
      destruct (sruns_take_np _ _ _ _ _ _ _ _ _ _ Hi2 E3) as [Hi3 Hn3].
      destruct o3; inv_ret Hc; npsolve. }
    assert (Hmain :
      (let '(o1, p1, ev1) :=
         match cur with
         | Some prev => sruns_drain nx n r prev p
         | None => (End, p, [])
         end in
       match o1 with
       | End =>
           let '(o2, p2, ev2) := ipk_peek nx p1 in
           match o2 with
           | Item x =>
               let '(o3, (acc3, p3), ev3) := sruns_take nx n r k [] x p2 in
               match o3 with
               | Item l => (Item l, (Some x, None, p3), (ev1 ++ ev2) ++ ev3)
               | _ => (pass o3, (Some x, Some acc3, p3), (ev1 ++ ev2) ++ ev3)
               end
           | _ => (pass o2, (None, None, p2), ev1 ++ ev2)
           end
       | _ => (pass o1, (cur, None, p1), ev1)
       end) = (o, (cur', pend', p'), ev) -> inv (pk_in p') /\ o <> Pan).
    { intros Hc.
      assert (Hdr : exists o1 p1 ev1,
                 match cur with
                 | Some prev => sruns_drain nx n r prev p
                 | None => (End, p, [])
                 end = (o1 : res unit, p1, ev1) /\ inv (pk_in p1) /\ o1 <> Pan).
      { destruct cur as [prev|].
        - destruct (sruns_drain nx n r prev p) as [[o1 p1] ev1] eqn:E1.
          exists o1, p1, ev1. split; [reflexivity|]. eapply sruns_drain_np; eauto.
        - exists End, p, []. split; [reflexivity|]. npsolve. }
      destruct Hdr as (o1 & p1 & ev1 & Hdr & Hi1 & Hn1). rewrite Hdr in Hc. clear Hdr.
      destruct o1 as [u| | | |]; try (inv_ret Hc; npsolve; fail).
      destruct (ipk_peek nx p1) as [[o2 p2] ev2] eqn:E2.
      destruct (ipk_peek_np _ _ _ _ Hi1 E2) as [Hi2 Hn2].
      destruct o2 as [x| | | |]; try (inv_ret Hc; npsolve; fail).
      eapply Htake; [exact Hi2|exact Hc]. }
    unfold sruns. destruct pend as [acc|]; [destruct cur as [prev|]|].
    - intros Hc. eapply (Htake prev acc p []); [exact Hi|exact Hc].
    - exact Hmain.
    - exact Hmain.
  Qed.
End GenericNoPanic.

Section GenericNoPanicFS.
  Context {Lt : Type} (nxl : Lt -> ret (list Z) Lt) (invl : Lt -> Prop).
  Hypothesis Hnx : forall q o q' ev, invl q -> nxl q = (o, q', ev) -> invl q' /\ o <> Pan.

  Lemma iflatslices_np n : forall b q o b' q' ev,
    invl q -> iflatslices nxl n b q = (o, (b', q'), ev) -> invl q' /\ o <> Pan.
  Proof.
    induction n as [|n IH]; intros b q o b' q' ev Hi Hc; simpl in Hc.
    - inv_ret Hc. npsolve.
    - destruct b as [|x b]; [|inv_ret Hc; npsolve].
      destruct (nxl q) as [[o1 q1] ev1] eqn:E. destruct (Hnx _ _ _ _ Hi E) as [Hi1 Hn1].
      destruct o1 as [l| | | |]; try (inv_ret Hc; npsolve; fail).
      destruct (iflatslices nxl n l q1) as [[o2 [b2 q2]] ev2] eqn:E2.
      simpl in Hc. inv_ret Hc. exact (IH _ _ _ _ _ _ Hi1 E2).
  Qed.
End GenericNoPanicFS.

(* ---- states of the documented domain in which nothing panics: every Chunk node has
   size >= 1, no callback panics, no script has an EvPanic ---- *)
Definition ssrc_nopanic (s : ssrc) : bool :=
  match s with SSIter _ => true | SSScript evs | SSScriptNC evs => script_nopanic evs end.

Fixpoint sdom (s : sst) : Prop :=
  match s with
  | TSrc _ src => ssrc_nopanic src = true
  | TPeek p => sdom (pk_in p)
  | TCompact _ _ _ p | TFirst _ p => sdom p
  | TFilter _ fl _ p | TMap _ fl _ p | TWhile _ fl _ _ _ _ p => cb_panics fl = false /\ sdom p
  | TFlatten rest curr =>
      all_p sdom rest /\ match curr with Some c => sdom c | None => True end
  | TJoin rem => all_p sdom rem
  | TFlattenSlices _ q => sldom q
  end
with sldom (q : slst) : Prop :=
  match q with
  | TChunk size _ p => 1 <= size /\ sdom p
  | TRuns _ _ _ _ p => sdom (pk_in p)
  end.

(* a source without EvPanic does not panic, whether or not it looks at the context *)
Lemma script_next_no_pan evs o evs' :
  script_nopanic evs = true -> script_next evs = (o, evs') ->
  script_nopanic evs' = true /\ o <> Pan.
Proof.
  unfold script_nopanic.
  destruct evs as [|[y|e|e|] t]; simpl; intros Hnp E; injection E as ? ?; subst;
    try (split; [assumption|discriminate]). discriminate Hnp.
Qed.
Lemma ssrc_next_no_pan live src o src' :
  ssrc_nopanic src = true -> ssrc_next live src = (o, src') ->
  ssrc_nopanic src' = true /\ o <> Pan.
Proof.
  unfold ssrc_next. intros Hnp E. destruct src as [i|evs|evs]; simpl in Hnp.
  - destruct (negb live); [injection E as ? ?; subst; split; [reflexivity|discriminate]|].
    destruct (isrc_next i) as [[y|] i']; injection E as ? ?; subst;
      (split; [reflexivity|discriminate]).
  - destruct (negb live); [injection E as ? ?; subst; split; [exact Hnp|discriminate]|].
    destruct (script_next evs) as [o1 evs1] eqn:E1. injection E as ? ?; subst.
    exact (script_next_no_pan _ _ _ Hnp E1).
  - destruct (script_next evs) as [o1 evs1] eqn:E1. injection E as ? ?; subst.
    exact (script_next_no_pan _ _ _ Hnp E1).
Qed.

(* the master theorem: on [sdom] states no call panics, whatever else the sources and callbacks
   do and whether or not the context is live; [sdom] is preserved *)
Theorem snext_no_panic live : forall f,
  (forall s o s' ev, sdom s -> snext f live s = (o, s', ev) -> sdom s' /\ o <> Pan) /\
  (forall q o q' ev, sldom q -> slnext f live q = (o, q', ev) -> sldom q' /\ o <> Pan).
Proof.
  induction f as [|f [IHz IHl]].
  - split; intros s o s' ev Hd Hc; simpl in Hc; inv_ret Hc; npsolve.
  - split; intros s o s' ev Hd Hc.
    + destruct s as [id src|p|r first prev p|keep fl calls p|x p|rest curr|rem|g fl calls p
                    |g fl calls item has done p|b q]; cbn [snext] in Hc; cbn [sdom sldom] in Hd.
      * destruct (ssrc_next live src) as [o1 src'] eqn:E. inv_ret Hc.
        exact (ssrc_next_no_pan _ _ _ _ Hd E).
      * destruct (ipk_next (snext f live) p) as [[o1 p1] ev1] eqn:E. inv_ret Hc.
        exact (ipk_next_np _ _ IHz _ _ _ _ Hd E).
      * destruct (icompact (snext f live) (S f) r first prev p)
          as [[o1 [[f1 pr1] p1]] ev1] eqn:E.
        inv_ret Hc. exact (icompact_np _ _ IHz _ _ _ _ _ _ _ _ _ _ Hd E).
      * destruct (sfilter (snext f live) (S f) keep fl calls p) as [[o1 [c1 p1]] ev1] eqn:E.
        inv_ret Hc. destruct Hd as [Hfl Hd].
        destruct (sfilter_np _ _ IHz _ _ _ Hfl _ _ _ _ _ _ Hd E) as [Ha Hn].
        split; [split; [exact Hfl|exact Ha]|exact Hn].
      * destruct (sfirst (snext f live) x p) as [[o1 [x1 p1]] ev1] eqn:E. inv_ret Hc.
        exact (sfirst_np _ _ IHz _ _ _ _ _ _ Hd E).
      * destruct (sflatten (snext f live) sclose (S f) live rest curr)
          as [[o1 [r1 c1]] ev1] eqn:E.
        inv_ret Hc. destruct Hd as [Hd1 Hd2]. apply all_p_Forall in Hd1.
        destruct (sflatten_np _ sclose _ IHz _ _ _ _ _ _ _ _ Hd1 Hd2 E) as [[Ha Hb] Hn].
        split; [|exact Hn]. split; [apply all_p_Forall; exact Ha|exact Hb].
      * destruct (sjoin (snext f live) sclose (S f) rem) as [[o1 rem1] ev1] eqn:E. inv_ret Hc.
        apply all_p_Forall in Hd.
        destruct (sjoin_np _ sclose _ IHz _ _ _ _ _ Hd E) as [Ha Hn].
        split; [apply all_p_Forall; exact Ha|exact Hn].
      * destruct (smap (snext f live) g fl calls p) as [[o1 [c1 p1]] ev1] eqn:E. inv_ret Hc.
        destruct Hd as [Hfl Hd].
        destruct (smap_np _ _ IHz _ _ _ _ _ _ _ _ Hfl Hd E) as [Ha Hn].
        split; [split; [exact Hfl|exact Ha]|exact Hn].
      * destruct (swhile (snext f live) g fl calls item has done p)
          as [[o1 [[[[c1 i1] h1] d1] p1]] ev1] eqn:E.
        inv_ret Hc. destruct Hd as [Hfl Hd].
        destruct (swhile_np _ _ IHz _ _ _ _ _ _ _ _ _ _ _ _ _ _ Hfl Hd E) as [Ha Hn].
        split; [split; [exact Hfl|exact Ha]|exact Hn].
      * destruct (iflatslices (slnext f live) (S f) b q) as [[o1 [b1 q1]] ev1] eqn:E.
        inv_ret Hc. exact (iflatslices_np _ _ IHl _ _ _ _ _ _ _ Hd E).
    + destruct s as [size chunk p|r k cur pend p]; cbn [slnext] in Hc; cbn [sdom sldom] in Hd.
      * destruct (schunk (snext f live) (S f) size chunk p) as [[o1 [ch1 p1]] ev1] eqn:E.
        inv_ret Hc. destruct Hd as [Hsz Hd].
        destruct (schunk_np _ _ IHz _ size ltac:(lia) _ _ _ _ _ _ Hd E) as [Ha Hn].
        split; [split; [exact Hsz|exact Ha]|exact Hn].
      * destruct (sruns (snext f live) (S f) r k cur pend p) as [[o1 [[c1 pd1] p1]] ev1] eqn:E.
        inv_ret Hc. exact (sruns_np _ _ IHz _ _ _ _ _ _ _ _ _ _ _ Hd E).
Qed.

(* initial states of pipelines of the documented domain in which nothing panics *)
Lemma sinit_dom :
  (forall p, dom_z p -> no_panics_z p = true -> sdom (sinit p)) /\
  (forall q, dom_l q -> no_panics_l q = true -> sldom (slinit q)).
Proof.
  apply pipe_ind; simpl; intros; auto.
  - destruct s; simpl in *; auto.
  - destruct (cb_ok_split _ _ H1); auto.
  - split; [|exact I]. induction H as [|x t Hx Ht IH]; simpl in *; [exact I|].
    destruct H0 as [H2 H3]. apply andb_true_iff in H1. destruct H1 as [H4 H5]. split; auto.
  - induction H as [|x t Hx Ht IH]; simpl in *; [exact I|].
    destruct H0 as [H2 H3]. apply andb_true_iff in H1. destruct H1 as [H4 H5]. split; auto.
  - destruct (cb_ok_split _ _ H1); auto.
  - destruct (cb_ok_split _ _ H1); auto.
  - destruct H0 as [H2 H3]. split; [lia|auto].
Qed.

Definition sstate_dom (s : srun_st) : Prop :=
  match s with QZ s => sdom s | QL q => sldom q end.

Lemma srun_init_dom p : dom p -> no_panics p = true -> sstate_dom (srun_init p).
Proof. destruct p as [p|q]; simpl; [apply (proj1 sinit_dom)|apply (proj2 sinit_dom)]. Qed.

(* the observations that are neither a panic nor RBad *)
Definition calm (r : robs) : bool := match r with RPanic | RBad => false | _ => true end.

(* one consumer step: neither a panic nor fuel exhaustion *)
Lemma srun_next_dom live s o s' ev :
  sstate_dom s -> srun_next live s = (o, s', ev) -> sstate_dom s' /\ calm o = true.
Proof.
  intros Hd Hc. destruct s as [s|q]; simpl in *.
  - destruct (sstep live s) as [[o1 s1] ev1] eqn:E. inv_ret Hc.
    pose proof (snext_fuel_enough _ _ _ _ _ E) as Hno.
    destruct (proj1 (snext_no_panic live _) _ _ _ _ Hd E) as [Hd1 Hn].
    split; [exact Hd1|]. destruct o1; simpl; congruence.
  - destruct (slstep live q) as [[o1 q1] ev1] eqn:E. inv_ret Hc.
    pose proof (slnext_fuel_enough _ _ _ _ _ E) as Hno.
    destruct (proj2 (snext_no_panic live _) _ _ _ _ Hd E) as [Hd1 Hn].
    split; [exact Hd1|]. destruct o1; simpl; congruence.
Qed.

Lemma calm_goes_on o : calm o = true -> stops o = false.
Proof. destruct o; simpl; congruence. Qed.

(* no result of a run is a panic (or RBad) *)
Lemma srun_steps_no_panic ids : forall ops s log,
  sstate_dom s ->
  Forall (fun so => calm (so_res so) = true) (fst (srun_steps ids s log ops)) /\
  length (fst (srun_steps ids s log ops)) = length ops.
Proof.
  induction ops as [|op ops IH]; intros s log Hd; simpl; [split; [constructor|reflexivity]|].
  destruct op as [live|].
  - destruct (srun_next live s) as [[o s1] ev1] eqn:E.
    destruct (srun_next_dom _ _ _ _ _ Hd E) as [Hd1 Hst]. rewrite (calm_goes_on _ Hst).
    destruct (IH s1 (log ++ ev1) Hd1) as [IH1 IH2].
    destruct (srun_steps ids s1 (log ++ ev1) ops) as [r l]. simpl in *.
    split; [constructor; [exact Hst|exact IH1]|rewrite IH2; reflexivity].
  - destruct (IH s (log ++ srun_close s) Hd) as [IH1 IH2].
    destruct (srun_steps ids s (log ++ srun_close s) ops) as [r l]. simpl in *.
    split; [constructor; [reflexivity|exact IH1]|rewrite IH2; reflexivity].
Qed.

(* every consumer program on a pipeline of the documented domain in which no callback and no
   source panics runs to its end: one observation per operation, none of them a panic *)
Theorem stream_steps_no_panic cfg p ops :
  dom p -> no_panics p = true ->
  let run := run_stream_cfg cfg p (Steps ops) in
  length (ro_steps run) = length ops /\ ~ In RPanic (map so_res (ro_steps run)).
Proof.
  intros Hd Hnp run. unfold run, run_stream_cfg.
  destruct (srun_steps_no_panic (sort_ids (pipe_ids p)) ops (srun_init p) []
              (srun_init_dom p Hd Hnp)) as [H1 H2].
  destruct (srun_steps (sort_ids (pipe_ids p)) (srun_init p) [] ops) as [steps log].
  simpl in *. split; [exact H2|].
  intros Hin. apply in_map_iff in Hin. destruct Hin as (so & Hso & Hi).
  rewrite Forall_forall in H1. specialize (H1 so Hi). rewrite Hso in H1. discriminate.
Qed.

(* every run completes - on every pipeline, whatever panics (SReducers.v) *)
Theorem stream_steps_complete_any cfg p lives :
  length (ro_steps (run_stream_cfg cfg p (Steps (map CNext lives ++ [CClose]))))
  = S (length lives).
Proof.
  rewrite stream_steps_complete_all, app_length, map_length. simpl. lia.
Qed.

(* C09 without the completion hypothesis, for EVERY pipeline: any faults, callbacks and sources
   that panic included - after the consumer has recovered the panics and called Close, every
   owned source has been closed exactly once and nothing was used after its Close *)
Theorem stream_close_steps_any cfg p lives :
  NoDup (pipe_ids p) ->
  let L := ro_log (run_stream_cfg cfg p (Steps (map CNext lives ++ [CClose]))) in
  log_ok L /\
  (forall id, In id (pipe_owned p) -> count_close id L = 1%nat) /\
  (forall id, In id (tids L) -> count_close id L = 1%nat) /\
  incl (tids L) (pipe_ids p).
Proof.
  intros Hn. apply (stream_close_steps cfg p lives Hn). apply stream_steps_complete_any.
Qed.

Theorem stream_steps_complete_dom cfg p lives :
  dom p ->
  length (ro_steps (run_stream_cfg cfg p (Steps (map CNext lives ++ [CClose]))))
  = S (length lives).
Proof. intros _. apply stream_steps_complete_any. Qed.

Theorem stream_close_steps_dom cfg p lives :
  dom p -> NoDup (pipe_ids p) ->
  let L := ro_log (run_stream_cfg cfg p (Steps (map CNext lives ++ [CClose]))) in
  log_ok L /\
  (forall id, In id (pipe_owned p) -> count_close id L = 1%nat) /\
  (forall id, In id (tids L) -> count_close id L = 1%nat) /\
  incl (tids L) (pipe_ids p).
Proof. intros _ Hn. apply stream_close_steps_any. exact Hn. Qed.

(* ---- reducers: Collect, Reduce, One never panic on the documented domain; Last does not
   either when its n is >= 1 or the guard of the repaired configuration is on ---- *)
Lemma sreduce_loop_np {A} n live (f : A -> Z -> cbres A) :
  (forall a x, f a x <> CbPanic) -> forall acc s o s' ev,
  sdom s -> sreduce_loop n live f acc s = (o, s', ev) -> sdom s' /\ o <> Pan.
Proof.
  intros Hf. induction n as [|n IH]; intros acc s o s' ev Hd Hc; simpl in Hc.
  - inv_ret Hc. npsolve.
  - destruct (sstep live s) as [[o1 s1] ev1] eqn:E.
    destruct (proj1 (snext_no_panic live _) _ _ _ _ Hd E) as [Hd1 Hn1].
    destruct o1 as [x| | | |]; try (inv_ret Hc; npsolve; fail).
    destruct (f acc x) as [acc'|e|] eqn:Ef; [|inv_ret Hc; npsolve|destruct (Hf _ _ Ef)].
    destruct (sreduce_loop n live f acc' s1) as [[o2 s2] ev2] eqn:E2.
    simpl in Hc. inv_ret Hc. exact (IH _ _ _ _ _ Hd1 E2).
Qed.

Lemma collect_step_np : forall (a : list Z) (x : Z), CbOk (a ++ [x]) <> @CbPanic (list Z).
Proof. intros; discriminate. Qed.
Lemma unit_step_np : forall (u : unit) (x : Z), CbOk u <> @CbPanic unit.
Proof. intros; discriminate. Qed.
Lemma ssum_step_np fl : cb_panics fl = false -> forall a x, ssum_step fl a x <> CbPanic.
Proof.
  intros Hfl a x. destruct (ssum_step_nopanic fl Hfl a x) as [H|[e H]]; rewrite H; discriminate.
Qed.

(* closing does not change the result *)
Lemma reducer_close_fst cfg {A} (x : ret A sst) :
  fst (fst (reducer_close cfg x)) = fst (fst x).
Proof.
  destruct x as [[o s'] ev]. destruct (reducer_close_res cfg o s' ev) as [ev' H]. rewrite H.
  reflexivity.
Qed.

Lemma sone_body_np live s o s' ev :
  sdom s -> sone_body live s = (o, s', ev) -> o <> Pan.
Proof.
  unfold sone_body. intros Hd. destruct (sstep live s) as [[o1 s1] ev1] eqn:E1.
  destruct (proj1 (snext_no_panic live _) _ _ _ _ Hd E1) as [Hd1 Hn1].
  destruct o1 as [x| | | |]; try (intros Hc; inv_ret Hc; simpl; congruence).
  destruct (sstep live s1) as [[o2 s2] ev2] eqn:E2.
  destruct (proj1 (snext_no_panic live _) _ _ _ _ Hd1 E2) as [Hd2 Hn2].
  intros Hc. destruct o2; inv_ret Hc; simpl; congruence.
Qed.

Lemma slast_loop_np k live n : 1 <= n -> forall buf i s o s' ev,
  sdom s -> zlen buf = n -> 0 <= i -> slast_loop k live n buf i s = (o, s', ev) -> o <> Pan.
Proof.
  intros Hn. induction k as [|k IH]; intros buf i s o s' ev Hd Hb Hi Hc; simpl in Hc.
  - inv_ret Hc. discriminate.
  - destruct (sstep live s) as [[o1 s1] ev1] eqn:E.
    destruct (proj1 (snext_no_panic live _) _ _ _ _ Hd E) as [Hd1 Hn1].
    destruct o1 as [x| | | |]; try (inv_ret Hc; simpl; congruence).
    destruct (n =? 0) eqn:En; [apply Z.eqb_eq in En; lia|].
    assert (Hr : 0 <= Z.rem i n < n) by (apply Z.rem_bound_pos; lia).
    unfold zset in Hc. destruct ((Z.rem i n <? 0) || (zlen buf <=? Z.rem i n)) eqn:Eb.
    { apply orb_true_iff in Eb. destruct Eb as [Eb|Eb];
        [apply Z.ltb_lt in Eb|apply Z.leb_le in Eb]; lia. }
    destruct (slast_loop k live n (upd buf (Z.to_nat (Z.rem i n)) x) (i + 1) s1)
      as [[o2 s2] ev2] eqn:E2.
    simpl in Hc. inv_ret Hc.
    eapply IH; [exact Hd1| |idtac|exact E2]; [|lia].
    unfold zlen in *. rewrite upd_length. reflexivity.
Qed.

Lemma last_finish_np n buf i : 1 <= n -> last_finish n buf i <> Pan.
Proof.
  intros Hn. unfold last_finish. destruct (i <? n); [discriminate|].
  destruct (n =? 0) eqn:E0; [apply Z.eqb_eq in E0; lia|discriminate].
Qed.

Definition reducer_dom (cfg : config) (r : reducer) : Prop :=
  match r with
  | RLast n => cfg_last_guard cfg = true \/ 1 <= n
  | RSum fl => cb_panics fl = false
  | _ => True
  end.

(* no reducer of package stream panics on the documented domain when no callback (the
   reduction function included) and no source panics, whatever else fails *)
Theorem stream_reduce_no_panic cfg z r live :
  dom_z z -> no_panics_z z = true -> reducer_dom cfg r ->
  map so_res (ro_steps (run_stream_cfg cfg (inl z) (Reduce r live))) <> [RPanic].
Proof.
  intros Hd Hnp Hr. pose proof (proj1 sinit_dom z Hd Hnp) as Hs.
  assert (Hobs : forall o : res (list Z), o <> Pan -> obs_val o <> RPanic)
    by (intros o Ho; destruct o; simpl; congruence).
  unfold run_stream_cfg. destruct (srun_reduce cfg z r live) as [o log] eqn:E. simpl.
  intros Hx. injection Hx as Hx. subst o. revert E.
  unfold srun_reduce. destruct r as [|n| |fl| |others]; simpl in Hr.
  - unfold scollect, sreduce.
    destruct (sreduce_loop (sred_fuel (sinit z)) live (fun out x => CbOk (out ++ [x])) []
                           (sinit z))
      as [[o1 s1] ev1] eqn:E1.
    destruct (sreduce_loop_np _ _ _ collect_step_np _ _ _ _ _ Hs E1) as [_ Hn].
    destruct (reducer_close_res cfg o1 s1 ev1) as [ev' Hrc]. rewrite Hrc.
    intros Hc. apply (f_equal fst) in Hc. simpl in Hc. exact (Hobs _ Hn Hc).
  - unfold slast.
    destruct (cfg_last_guard cfg && (n <=? 0)) eqn:Eg.
    + destruct (sreduce_loop (sred_fuel (sinit z)) live (fun (u : unit) _ => CbOk u) tt (sinit z))
        as [[o1 s1] ev1] eqn:E1.
      destruct (sreduce_loop_np _ _ _ unit_step_np _ _ _ _ _ Hs E1) as [_ Hn].
      match goal with |- context [reducer_close cfg ?X] =>
        pose proof (reducer_close_fst cfg X) as Hf;
        destruct (reducer_close cfg X) as [[o2 s2] ev2] end.
      simpl in Hf. intros Hc. apply (f_equal fst) in Hc. simpl in Hc. subst o2.
      destruct o1; simpl in Hc; try discriminate Hc. congruence.
    + assert (Hn : 1 <= n).
      { destruct Hr as [Hg|Hg]; [|exact Hg]. rewrite Hg in Eg. simpl in Eg.
        apply Z.leb_gt in Eg. lia. }
      destruct (n <? 0) eqn:E0; [apply Z.ltb_lt in E0; lia|].
      destruct (slast_loop (sred_fuel (sinit z)) live n (zrepeat 0 n) 0 (sinit z))
        as [[o1 s1] ev1] eqn:E1.
      assert (Hn0 : 0 <= n) by lia.
      pose proof (slast_loop_np _ _ _ Hn _ _ _ _ _ _ Hs (zlen_repeat 0 n Hn0)
                    (Z.le_refl 0) E1) as Hn1.
      match goal with |- context [reducer_close cfg ?X] =>
        pose proof (reducer_close_fst cfg X) as Hf;
        destruct (reducer_close cfg X) as [[o2 s2] ev2] end.
      simpl in Hf. intros Hc. apply (f_equal fst) in Hc. simpl in Hc. subst o2.
      destruct o1 as [[buf i]| | | |]; simpl in Hc; try discriminate Hc; try congruence.
      apply (Hobs _ (last_finish_np n buf i Hn) Hc).
  - unfold sone.
    destruct (sone_body live (sinit z)) as [[o1 s1] ev1] eqn:E1.
    pose proof (sone_body_np _ _ _ _ _ Hs E1) as Hn.
    destruct (reducer_close_res cfg o1 s1 ev1) as [ev' Hrc].
    destruct (cfg_one_closes cfg); rewrite ?Hrc;
      intros Hc; apply (f_equal fst) in Hc; simpl in Hc; exact (Hobs _ Hn Hc).
  - unfold sreduce.
    destruct (sreduce_loop (sred_fuel (sinit z)) live (ssum_step fl) (O, 0) (sinit z))
      as [[o1 s1] ev1] eqn:E1.
    destruct (sreduce_loop_np _ _ _ (ssum_step_np fl Hr) _ _ _ _ _ Hs E1) as [_ Hn].
    destruct (reducer_close_res cfg o1 s1 ev1) as [ev' Hrc]. rewrite Hrc.
    intros Hc. apply (f_equal fst) in Hc.
    destruct o1; simpl in Hc; try discriminate Hc. congruence.
  - intros Hc. discriminate Hc.
  - intros Hc. discriminate Hc.
Qed.

(* non-vacuity: a pipeline of the domain with a fatal source error, a failing callback and an
   expired context; the same pipeline with a negative chunk size panics *)
Definition no_panic_demo_pipe : pz + pl :=
  inr (LChunk 2 (ZMap (FnAffine 1 0) (mkFailing (Some 2%nat) 8 false)
         (ZSrc 0 (SScript [EvItem 1; EvTransient 9; EvItem 2; EvItem 3; EvItem 4; EvFatal 7])))).
Example no_panic_demo :
  dom no_panic_demo_pipe /\ no_panics no_panic_demo_pipe = true /\
  map so_res (ro_steps (run_stream no_panic_demo_pipe
                          (Steps [CNext true; CNext false; CNext true; CNext true;
                                  CNext true; CNext true; CClose])))
  = [RErr 9; RErr (-1); RItem (IL [1; 2]); RErr 8; RErr 7; RErr 7; RUnit].
Proof. split; [simpl; lia|]. split; [reflexivity|vm_compute; reflexivity]. Qed.

(* outside the domain Chunk panics (at every call that would hand out the chunk; the run goes on) *)
Example panic_outside_dom :
  map so_res (ro_steps (run_stream (inr (LChunk (-1) (ZSrc 0 (SSlice [1]))))
                                   (Steps [CNext true; CNext true])))
  = [RPanic; RPanic].
Proof. vm_compute. reflexivity. Qed.

(* ---- C09 under panics: non-vacuity, and the refutation of the breaking variant ---- *)
Definition pan_fl (k : nat) : failing := mkFailing (Some k) 0 true.

(* Collect over a Filter whose predicate panics at its 2nd invocation, over a Join: the panic
   comes out of Collect (RPanic), the deferred Close has closed both sources exactly once *)
Definition panic_filter_pipe : pz :=
  ZFilter PrTrue (pan_fl 1) (ZJoin [ZSrc 0 (SSlice [1; 2; 3]); ZSrc 1 (SSlice [4])]).
Example collect_panicking_filter :
  NoDup (pz_ids panic_filter_pipe) /\ pz_owned panic_filter_pipe = [0; 1]%nat /\
  no_panics_z panic_filter_pipe = false /\
  run_stream_cfg fixed_cfg (inl panic_filter_pipe) (Reduce RCollect true)
  = mkRunObs [mkStepObs RPanic [2; 0]] [SevNext 0; SevNext 0; SevClose 0; SevClose 1]%nat.
Proof.
  split; [repeat constructor; simpl; intuition discriminate|].
  split; [reflexivity|]. split; [reflexivity|]. vm_compute. reflexivity.
Qed.

(* Reduce whose reduction function panics at its 3rd invocation *)
Example reduce_panicking_function :
  run_stream_cfg fixed_cfg (inl (ZSrc 0 (SSlice [1; 2; 3; 4]))) (Reduce (RSum (pan_fl 2)) true)
  = mkRunObs [mkStepObs RPanic [3]] [SevNext 0; SevNext 0; SevNext 0; SevClose 0]%nat /\
  closing_reducer fixed_cfg (RSum (pan_fl 2)) = true.
Proof. split; [vm_compute; reflexivity|reflexivity]. Qed.

(* a source whose Next panics under Last *)
Example last_panicking_source :
  run_stream_cfg fixed_cfg (inl (ZSrc 0 (SScript [EvItem 1; EvPanic; EvItem 2])))
                 (Reduce (RLast 2) true)
  = mkRunObs [mkStepObs RPanic [2]] [SevNext 0; SevNext 0; SevClose 0]%nat.
Proof. vm_compute. reflexivity. Qed.

(* a step program: the consumer recovers the panic of the 2nd Next, goes on and closes *)
Example steps_panicking_filter :
  run_stream (inl panic_filter_pipe) (Steps [CNext true; CNext true; CNext true; CClose])
  = mkRunObs [mkStepObs (RItem (IZ 1)) [1; 0]; mkStepObs RPanic [2; 0];
              mkStepObs (RItem (IZ 3)) [3; 0]; mkStepObs RUnit [3; 0]]
             [SevNext 0; SevNext 0; SevNext 0; SevClose 0; SevClose 1]%nat.
Proof. vm_compute. reflexivity. Qed.

(* The breaking variant: the reducers call s.Close() explicitly before each return instead of
   `defer s.Close()` (explicit_close_cfg).  The statement
     Theorem C09_reducers_explicit_close : forall z r live,
       r is Collect/Last/One/Reduce -> NoDup (pz_ids z) ->
       forall id, In id (pz_owned z) ->
       count_close id (ro_log (run_stream_cfg explicit_close_cfg (inl z) (Reduce r live))) = 1
   is FALSE: a panicking reduction function (or callback, or source) leaves the source unclosed
   after the caller has recovered the panic. *)
Theorem stream_explicit_close_refuted :
  exists z r live, NoDup (pz_ids z) /\
    closing_reducer fixed_cfg r = true /\
    let run := run_stream_cfg explicit_close_cfg (inl z) (Reduce r live) in
    map so_res (ro_steps run) = [RPanic] /\
    exists id, In id (pz_owned z) /\ count_close id (ro_log run) = 0%nat.
Proof.
  exists (ZSrc 0 (SSlice [1; 2; 3; 4])), (RSum (pan_fl 2)), true.
  split; [repeat constructor; simpl; tauto|]. split; [reflexivity|].
  split; [vm_compute; reflexivity|]. exists 0%nat. vm_compute. auto.
Qed.

(* the same for a panicking callback under Collect, a panicking source under Last, and One *)
Theorem stream_explicit_close_refuted_others :
  (exists id, In id (pz_owned panic_filter_pipe) /\
     count_close id (ro_log (run_stream_cfg explicit_close_cfg (inl panic_filter_pipe)
                                            (Reduce RCollect true))) = 0%nat) /\
  count_close 0 (ro_log (run_stream_cfg explicit_close_cfg
                           (inl (ZSrc 0 (SScript [EvItem 1; EvPanic; EvItem 2])))
                           (Reduce (RLast 2) true))) = 0%nat /\
  count_close 0 (ro_log (run_stream_cfg explicit_close_cfg
                           (inl (ZSrc 0 (SScript [EvPanic])))
                           (Reduce ROne true))) = 0%nat.
Proof.
  split; [exists 0%nat; vm_compute; auto|]. split; vm_compute; reflexivity.
Qed.

(* without a panic the variant is indistinguishable: on every normal way out it closes like the
   defer does *)
Lemma explicit_close_same {A} (x : ret A sst) :
  fst (fst x) <> Pan -> explicit_close x = deferred_close x.
Proof. destruct x as [[o s'] ev]. simpl. intros H. destruct o; try reflexivity. congruence. Qed.
