(* Fuel lemmas for the stream transcriptions (see Fuel.v). *)
From Juniper Require Import Common.Base Iter.Syntax Iter.ModelBase Iter.IterModel
  Iter.StreamModel Iter.Contract Iter.Fuel.

Section GenericSSize.
  Context {St : Type} (nx : St -> ret Z St) (cl : St -> list sev) (sz : St -> nat) (F : nat).
  Hypothesis Hsz : szZ nx sz F.

  Lemma sfilter_sz n keep fl : forall calls s o calls' s' ev,
    sfilter nx n keep fl calls s = (o, (calls', s'), ev) ->
    (match o with Item _ => sz s' < sz s | Out => True | _ => sz s' <= sz s end)%nat /\
    ((sz s < n)%nat -> (sz s <= F)%nat -> o <> Out).
  Proof.
    induction n as [|n IH]; intros calls s o calls' s' ev Hc; simpl in Hc.
    - inv_ret Hc. szsolve.
    - destruct (nx s) as [[o1 s1] ev1] eqn:E. destruct (Hsz _ _ _ _ E) as [Hd Hno].
      destruct o1 as [x| | | |]; try (inv_ret Hc; szsolve; fail).
      destruct (fails_now fl calls);
        [unfold fail_res in Hc; destruct (fail_panic fl); inv_ret Hc; szsolve|].
      destruct (pred_eval keep x); [inv_ret Hc; szsolve|].
      destruct (sfilter nx n keep fl (S calls) s1) as [[o2 [c2 s2]] ev2] eqn:E2.
      simpl in Hc. inv_ret Hc. destruct (IH _ _ _ _ _ _ E2) as [Hd2 Hno2].
      split; [destruct o; lia|]. intros H1 H2. apply Hno2; lia.
  Qed.

  Lemma sfirst_sz x s o x' s' ev :
    sfirst nx x s = (o, (x', s'), ev) ->
    (match o with Item _ => sz s' < sz s | Out => True | _ => sz s' <= sz s end)%nat /\
    ((sz s <= F)%nat -> o <> Out).
  Proof.
    unfold sfirst. destruct (x <=? 0).
    - intros Hc. inv_ret Hc. szsolve.
    - destruct (nx s) as [[o1 s1] ev1] eqn:E. destruct (Hsz _ _ _ _ E) as [Hd Hno].
      intros Hc. destruct o1; inv_ret Hc; szsolve.
  Qed.

  Lemma smap_sz f fl calls s o calls' s' ev :
    smap nx f fl calls s = (o, (calls', s'), ev) ->
    (match o with Item _ => sz s' < sz s | Out => True | _ => sz s' <= sz s end)%nat /\
    ((sz s <= F)%nat -> o <> Out).
  Proof.
    unfold smap. destruct (nx s) as [[o1 s1] ev1] eqn:E. destruct (Hsz _ _ _ _ E) as [Hd Hno].
    intros Hc. destruct o1 as [x| | | |]; try (inv_ret Hc; szsolve; fail).
    destruct (fails_now fl calls); [unfold fail_res in Hc; destruct (fail_panic fl)|];
      inv_ret Hc; szsolve.
  Qed.

  Lemma swhile_sz f fl calls item has done s o calls' item' has' done' s' ev :
    swhile nx f fl calls item has done s = (o, (calls', item', has', done', s'), ev) ->
    (match o with
     | Item _ => b2n has' + sz s' < b2n has + sz s
     | Out => True
     | _ => b2n has' + sz s' <= b2n has + sz s
     end)%nat /\
    ((sz s <= F)%nat -> o <> Out).
  Proof.
    unfold swhile. destruct done.
    - intros Hc. inv_ret Hc. szsolve.
    - destruct has.
      + destruct (fails_now fl calls);
          [unfold fail_res; destruct (fail_panic fl); intros Hc; inv_ret Hc; szsolve|].
        destruct (pred_eval f item); intros Hc; inv_ret Hc; szsolve.
      + destruct (nx s) as [[o1 s1] ev1] eqn:E. destruct (Hsz _ _ _ _ E) as [Hd Hno].
        destruct o1 as [x| | | |]; try (intros Hc; inv_ret Hc; szsolve; fail).
        destruct (fails_now fl calls);
          [unfold fail_res; destruct (fail_panic fl); intros Hc; inv_ret Hc; szsolve|].
        destruct (pred_eval f x); intros Hc; inv_ret Hc; szsolve.
  Qed.

  Lemma sflatten_sz n live : forall rest curr o rest' curr' ev,
    sflatten nx cl n live rest curr = (o, (rest', curr'), ev) ->
    (match o with Item _ => flsz sz rest' curr' < flsz sz rest curr | Out => True
             | _ => flsz sz rest' curr' <= flsz sz rest curr end)%nat /\
    ((flsz sz rest curr < n)%nat -> (flsz sz rest curr <= S F)%nat -> o <> Out).
  Proof.
    induction n as [|n IH]; intros rest curr o rest' curr' ev Hc; simpl in Hc.
    - inv_ret Hc. szsolve.
    - destruct curr as [c|].
      + destruct (nx c) as [[o1 c1] ev1] eqn:E. destruct (Hsz _ _ _ _ E) as [Hd Hno].
        destruct o1 as [x| | | |]; try (inv_ret Hc; unfold flsz; szsolve; fail).
        destruct (sflatten nx cl n live rest None) as [[o2 [r2 c2]] ev2] eqn:E2.
        simpl in Hc. inv_ret Hc. destruct (IH _ _ _ _ _ _ E2) as [Hd2 Hno2].
        unfold flsz in *. simpl in *. split; [destruct o; lia|].
        intros H1 H2. apply Hno2; lia.
      + destruct live; simpl in Hc; [|inv_ret Hc; szsolve].
        destruct rest as [|c rest0].
        * inv_ret Hc. szsolve.
        * destruct (IH _ _ _ _ _ _ Hc) as [Hd2 Hno2]. unfold flsz in *. simpl in *.
          split; [destruct o; lia|]. intros H1 H2. apply Hno2; lia.
  Qed.

  Lemma sjoin_sz n : forall its o its' ev,
    sjoin nx cl n its = (o, its', ev) ->
    (match o with Item _ => jsz sz its' < jsz sz its | Out => True
             | _ => jsz sz its' <= jsz sz its end)%nat /\
    ((jsz sz its < n)%nat -> (jsz sz its <= S F)%nat -> o <> Out).
  Proof.
    induction n as [|n IH]; intros its o its' ev Hc; simpl in Hc.
    - inv_ret Hc. szsolve.
    - destruct its as [|c tl]; [inv_ret Hc; szsolve|].
      destruct (nx c) as [[o1 c1] ev1] eqn:E. destruct (Hsz _ _ _ _ E) as [Hd Hno].
      destruct o1 as [x| | | |]; try (inv_ret Hc; unfold jsz; szsolve; fail).
      destruct (sjoin nx cl n tl) as [[o2 its2] ev2] eqn:E2.
      simpl in Hc. inv_ret Hc. destruct (IH _ _ _ _ E2) as [Hd2 Hno2].
      unfold jsz in *. simpl in *. split; [destruct o; lia|].
      intros H1 H2. apply Hno2; lia.
  Qed.

  Lemma schunk_sz n size : forall chunk s o chunk' s' ev,
    schunk nx n size chunk s = (o, (chunk', s'), ev) ->
    (match o with
     | Item l => length l + (length chunk' + 2 * sz s') <= length chunk + 2 * sz s /\ l <> []
     | Out => True
     | _ => length chunk' + 2 * sz s' <= length chunk + 2 * sz s
     end)%nat /\
    ((sz s < n)%nat -> (sz s <= F)%nat -> o <> Out).
  Proof.
    induction n as [|n IH]; intros chunk s o chunk' s' ev Hc; simpl in Hc.
    - inv_ret Hc. szsolve.
    - destruct (nx s) as [[o1 s1] ev1] eqn:E. destruct (Hsz _ _ _ _ E) as [Hd Hno].
      destruct o1 as [x| | | |].
      + destruct (zlen (chunk ++ [x]) =? size).
        * inv_ret Hc. split; [|szsolve]. rewrite app_length. simpl. split; [lia|].
          intros Hx. apply app_eq_nil in Hx. destruct Hx; discriminate.
        * destruct (schunk nx n size (chunk ++ [x]) s1) as [[o2 [ch2 s2]] ev2] eqn:E2.
          simpl in Hc. inv_ret Hc. destruct (IH _ _ _ _ _ _ E2) as [Hd2 Hno2].
          rewrite app_length in Hd2. simpl in Hd2. split.
          -- destruct o; try lia. destruct Hd2 as [Hd2 Hne]. split; [lia|exact Hne].
          -- intros H1 H2. apply Hno2; lia.
      + destruct (0 <? zlen chunk) eqn:Ez.
        * destruct (size <? 0); inv_ret Hc; [szsolve|].
          split; [|szsolve]. simpl. split; [lia|]. intros Hx; subst chunk. discriminate Ez.
        * inv_ret Hc. szsolve.
      + inv_ret Hc. szsolve.
      + inv_ret Hc. szsolve.
      + inv_ret Hc. szsolve.
  Qed.
End GenericSSize.

Section GenericSSizeRuns.
  Context {St : Type} (nx : St -> ret Z St) (sz : St -> nat) (F : nat).
  Hypothesis Hsz : szZ nx sz F.
  Variable r : rel.
  Notation rsz := (rsz sz r).
  Definition scur (cur : option Z) : runcur := option_map (fun prev => (prev, true)) cur.

  Lemma sruns_inner_sz prev p o p' ev :
    sruns_inner nx r prev p = (o, p', ev) ->
    (match o with
     | Item _ => rsz (Some (prev, true)) p' < rsz (Some (prev, true)) p /\
                 sz (pk_in p') <= sz (pk_in p)
     | End => rsz (Some (prev, true)) p' <= rsz (Some (prev, true)) p /\
              sz (pk_in p') <= sz (pk_in p) /\
              rsz None p' = rsz (Some (prev, true)) p'
     | Out => True
     | _ => rsz (Some (prev, true)) p' <= rsz (Some (prev, true)) p /\
            sz (pk_in p') <= sz (pk_in p)
     end)%nat /\
    ((sz (pk_in p) <= F)%nat -> o <> Out).
  Proof.
    unfold sruns_inner.
    destruct (ipk_peek nx p) as [[o1 p1] ev1] eqn:E1.
    destruct (ipk_peek_rsz nx sz F Hsz r (Some (prev, true)) _ _ _ _ E1) as (Hd1 & Hno1).
    destruct o1 as [x| | | |].
    - destruct (ipk_peek_item nx _ _ _ _ E1) as [Hh Hcu].
      destruct (Hd1 ltac:(discriminate)) as [Hd1a Hd1b].
      destruct (rel_eval r prev x) eqn:Es.
      + destruct p1 as [has1 curr1 s1]. simpl in *. subst has1 curr1.
        unfold ipk_next. simpl. intros Hc. inv_ret Hc.
        unfold Fuel.rsz in *. simpl in *. rewrite Es in Hd1a. szsolve.
      + assert (Hw : rsz None p1 = rsz (Some (prev, true)) p1).
        { unfold Fuel.rsz, runs_w. rewrite Hh, Hcu, Es. reflexivity. }
        intros Hc. inv_ret Hc. szsolve.
    - destruct (Hd1 ltac:(discriminate)) as [Hd1a Hd1b].
      pose proof (ipk_peek_nohas nx _ _ _ _ E1 ltac:(intros; discriminate)) as Hh.
      assert (Hw : rsz None p1 = rsz (Some (prev, true)) p1).
      { unfold Fuel.rsz, runs_w. rewrite Hh. reflexivity. }
      intros Hc. inv_ret Hc. szsolve.
    - destruct (Hd1 ltac:(discriminate)) as [Hd1a Hd1b]. intros Hc. inv_ret Hc. szsolve.
    - destruct (Hd1 ltac:(discriminate)) as [Hd1a Hd1b]. intros Hc. inv_ret Hc. szsolve.
    - intros Hc. inv_ret Hc. szsolve.
  Qed.

  Lemma sruns_drain_sz n prev : forall p o p' ev,
    sruns_drain nx n r prev p = (o, p', ev) ->
    (o <> Out -> (rsz (Some (prev, true)) p' <= rsz (Some (prev, true)) p)%nat /\
                 (sz (pk_in p') <= sz (pk_in p))%nat) /\
    (o = End -> rsz None p' = rsz (Some (prev, true)) p') /\
    (forall u, o <> Item u) /\
    ((rsz (Some (prev, true)) p < n)%nat -> (sz (pk_in p) <= F)%nat -> o <> Out).
  Proof.
    induction n as [|n IH]; intros p o p' ev Hc; simpl in Hc.
    - inv_ret Hc. szsolve.
    - destruct (sruns_inner nx r prev p) as [[o1 p1] ev1] eqn:E1.
      destruct (sruns_inner_sz _ _ _ _ _ E1) as (Hd1 & Hno1).
      destruct o1 as [x| | | |].
      + destruct (sruns_drain nx n r prev p1) as [[o2 p2] ev2] eqn:E2.
        simpl in Hc. inv_ret Hc. destruct (IH _ _ _ _ E2) as (Hd2 & He2 & Hni2 & Hno2).
        split; [intros Ho; specialize (Hd2 Ho); lia|]. split; [exact He2|].
        split; [exact Hni2|]. intros H1 H2. apply Hno2; lia.
      + inv_ret Hc. szsolve.
      + inv_ret Hc. szsolve.
      + inv_ret Hc. szsolve.
      + inv_ret Hc. szsolve.
  Qed.

  Lemma sruns_take_sz n k prev : forall acc p o acc' p' ev,
    sruns_take nx n r k acc prev p = (o, (acc', p'), ev) ->
    (match o with
     | Item l => l = acc' /\
                 length acc' + rsz (Some (prev, true)) p' <= length acc + rsz (Some (prev, true)) p
     | Out => True
     | _ => length acc' + rsz (Some (prev, true)) p' <= length acc + rsz (Some (prev, true)) p
     end)%nat /\
    ((rsz (Some (prev, true)) p < n)%nat -> (sz (pk_in p) <= F)%nat -> o <> Out).
  Proof.
    induction n as [|n IH]; intros acc p o acc' p' ev Hc; simpl in Hc.
    - inv_ret Hc. szsolve.
    - destruct (match k with Some k0 => (k0 <=? length acc)%nat | None => false end).
      + inv_ret Hc. szsolve.
      + destruct (sruns_inner nx r prev p) as [[o1 p1] ev1] eqn:E1.
        destruct (sruns_inner_sz _ _ _ _ _ E1) as (Hd1 & Hno1).
        destruct o1 as [x| | | |].
        * destruct (sruns_take nx n r k (acc ++ [x]) prev p1) as [[o2 [acc2 p2]] ev2] eqn:E2.
          simpl in Hc. inv_ret Hc. destruct (IH _ _ _ _ _ _ E2) as (Hd2 & Hno2).
          rewrite app_length in Hd2. simpl in Hd2.
          split; [|intros H1 H2; apply Hno2; lia].
          destruct o; try lia. destruct Hd2 as [He Hd2]. split; [exact He|lia].
        * inv_ret Hc. szsolve.
        * inv_ret Hc. szsolve.
        * inv_ret Hc. szsolve.
        * inv_ret Hc. szsolve.
  Qed.

  Definition pendw (pend : option (list Z)) : nat :=
    match pend with Some acc => S (length acc) | None => O end.

  Lemma sruns_sz n k cur pend p o cur' pend' p' ev :
    sruns nx n r k cur pend p = (o, (cur', pend', p'), ev) ->
    (match o with
     | Item l => length l + (pendw pend' + rsz (scur cur') p') < pendw pend + rsz (scur cur) p
     | Out => True
     | _ => pendw pend' + rsz (scur cur') p' <= pendw pend + rsz (scur cur) p
     end)%nat /\
    ((rsz (scur cur) p < n)%nat -> (sz (pk_in p) <= F)%nat -> o <> Out).
  Proof.
    assert (Htake : forall x acc p2 ev0 B,
      (length acc + rsz (Some (x, true)) p2 < B)%nat ->
      (let '(o3, (acc3, p3), ev3) := sruns_take nx n r k acc x p2 in
       match o3 with
       | Item l => (Item l, (Some x, None, p3), ev0 ++ ev3)
       | _ => (pass o3, (Some x, Some acc3, p3), ev0 ++ ev3)
       end) = (o, (cur', pend', p'), ev) ->
      (match o with
       | Item l => length l + (pendw pend' + rsz (scur cur') p') < B
       | Out => True
       | _ => pendw pend' + rsz (scur cur') p' <= B
       end)%nat /\
      ((rsz (Some (x, true)) p2 < n)%nat -> (sz (pk_in p2) <= F)%nat -> o <> Out)).
    { intros x acc p2 ev0 B HB Hc.
      destruct (sruns_take nx n r k acc x p2) as [[o3 [acc3 p3]] ev3] eqn:E3.
      destruct (sruns_take_sz _ _ _ _ _ _ _ _ _ E3) as (Hd3 & Hno3).
      destruct o3 as [l| | | |]; inv_ret Hc; simpl in *.
      - destruct Hd3 as [He Hd3]. subst. split; [lia|exact Hno3].
      - split; [lia|exact Hno3].
      - split; [lia|exact Hno3].
      - split; [lia|exact Hno3].
      - split; [exact I|exact Hno3]. }
    assert (Hmain :
      (let '(o1, p1, ev1) :=
         match cur with
         | Some prev => sruns_drain nx n r prev p
         | None => (End, p, [])
         end in
       match o1 with
       | End =>
           let '(o2, p2, ev2) := ipk_peek nx p1 in
           match o2 with
           | Item x =>
               let '(o3, (acc3, p3), ev3) := sruns_take nx n r k [] x p2 in
               match o3 with
               | Item l => (Item l, (Some x, None, p3), (ev1 ++ ev2) ++ ev3)
               | _ => (pass o3, (Some x, Some acc3, p3), (ev1 ++ ev2) ++ ev3)
               end
           | _ => (pass o2, (None, None, p2), ev1 ++ ev2)
           end
       | _ => (pass o1, (cur, None, p1), ev1)
       end) = (o, (cur', pend', p'), ev) ->
      (match o with
       | Item l => length l + (pendw pend' + rsz (scur cur') p') < rsz (scur cur) p
       | Out => True
       | _ => pendw pend' + rsz (scur cur') p' <= rsz (scur cur) p
       end)%nat /\
      ((rsz (scur cur) p < n)%nat -> (sz (pk_in p) <= F)%nat -> o <> Out)).
    { intros Hc.
      assert (Hdr : exists o1 p1 ev1,
                 match cur with
                 | Some prev => sruns_drain nx n r prev p
                 | None => (End, p, [])
                 end = (o1 : res unit, p1, ev1) /\
                 (o1 <> Out -> (rsz (scur cur) p1 <= rsz (scur cur) p)%nat /\
                               (sz (pk_in p1) <= sz (pk_in p))%nat) /\
                 (o1 = End -> (rsz None p1 <= rsz (scur cur) p)%nat) /\
                 (forall u, o1 <> Item u) /\
                 ((rsz (scur cur) p < n)%nat -> (sz (pk_in p) <= F)%nat -> o1 <> Out)).
      { destruct cur as [prev|].
        - destruct (sruns_drain nx n r prev p) as [[o1 p1] ev1] eqn:E1.
          destruct (sruns_drain_sz _ _ _ _ _ _ E1) as (Hd1 & He1 & Hni1 & Hno1).
          exists o1, p1, ev1. split; [reflexivity|]. simpl.
          split; [exact Hd1|]. split; [|split; [exact Hni1|exact Hno1]].
          intros Ho. rewrite (He1 Ho). subst o1. destruct (Hd1 ltac:(discriminate)); lia.
        - exists End, p, []. split; [reflexivity|]. simpl. szsolve. }
      destruct Hdr as (o1 & p1 & ev1 & Hdr & Hd1 & He1 & Hni1 & Hno1).
      rewrite Hdr in Hc. clear Hdr.
      destruct o1 as [u| | | |].
      - destruct (Hni1 u eq_refl).
      - specialize (He1 eq_refl). destruct (Hd1 ltac:(discriminate)) as [Hd1a Hd1b].
        destruct (ipk_peek nx p1) as [[o2 p2] ev2] eqn:E2.
        destruct (ipk_peek_rsz nx sz F Hsz r None _ _ _ _ E2) as (Hd2 & Hno2).
        destruct o2 as [x| | | |].
        + destruct (Hd2 ltac:(discriminate)) as [Hd2a Hd2b].
          destruct (ipk_peek_item nx _ _ _ _ E2) as [Hh Hcu].
          assert (Hw : (rsz (Some (x, true)) p2 + 1 <= rsz None p2)%nat).
          { unfold Fuel.rsz, runs_w. rewrite Hh, Hcu, rel_refl. lia. }
          destruct (Htake x [] p2 (ev1 ++ ev2) (rsz (scur cur) p) ltac:(simpl; lia) Hc)
            as [Ha Hb].
          split; [exact Ha|]. intros H1 H2. apply Hb; lia.
        + destruct (Hd2 ltac:(discriminate)) as [Hd2a Hd2b]. inv_ret Hc. simpl. szsolve.
        + destruct (Hd2 ltac:(discriminate)) as [Hd2a Hd2b]. inv_ret Hc. simpl. szsolve.
        + destruct (Hd2 ltac:(discriminate)) as [Hd2a Hd2b]. inv_ret Hc. simpl. szsolve.
        + inv_ret Hc. split; [exact I|]. intros H1 H2. exfalso.
          apply Hno2; [lia|reflexivity].
      - destruct (Hd1 ltac:(discriminate)). inv_ret Hc. simpl. szsolve.
      - destruct (Hd1 ltac:(discriminate)). inv_ret Hc. simpl. szsolve.
      - inv_ret Hc. simpl. split; [exact I|]. intros H1 H2. exfalso.
        apply (Hno1 H1 H2). reflexivity. }
    unfold sruns.
    destruct pend as [acc|]; [destruct cur as [prev|]|].
    - intros Hc. simpl.
      destruct (Htake prev acc p [] (S (length acc) + rsz (Some (prev, true)) p)%nat
                      ltac:(lia) Hc) as [Ha Hb].
      split; [exact Ha|exact Hb].
    - intros Hc. destruct (Hmain Hc) as [Ha Hb]. split; [|exact Hb].
      simpl pendw at 2. destruct o; lia.
    - intros Hc. destruct (Hmain Hc) as [Ha Hb]. split; [|exact Hb]. exact Ha.
  Qed.
End GenericSSizeRuns.
