(* Corollaries assembled for the property files: iterator/stream agreement, stickiness of the
   end, non-vacuity examples. *)
From Juniper Require Import Common.Base Iter.Syntax Iter.Config Iter.ModelBase Iter.IterModel
  Iter.StreamModel Iter.Spec Iter.IterProofs Iter.StreamProofs Iter.Events Iter.StreamEvents
  Iter.Reducers Iter.SReducers Iter.XSlices Iter.Lazy.

Lemma okp_dom ae : (forall p, okz ae p -> dom_z p) /\ (forall q, okl ae q -> dom_l q).
Proof.
  apply pipe_ind; simpl; intros; auto; try (destruct H0; auto; fail).
  - induction H as [|x t Hx Ht IH]; simpl in *; [exact I|]. destruct H0. split; auto.
  - induction H as [|x t Hx Ht IH]; simpl in *; [exact I|]. destruct H0. split; auto.
Qed.

(* pipelines without unretryable faults have no panics *)
Lemma fail_at_none_nopanic fl : fail_at fl = None -> cb_panics fl = false.
Proof. unfold cb_panics. intros H; rewrite H. apply andb_false_r. Qed.

Lemma okp_no_panics ae :
  (forall p, okz ae p -> no_panics_z p = true) /\ (forall q, okl ae q -> no_panics_l q = true).
Proof.
  apply pipe_ind; simpl; intros; auto;
    try (destruct H0 as [H1 H2]; rewrite (fail_at_none_nopanic _ H1); simpl; auto; fail).
  - destruct s; simpl in *; auto; destruct H as [[_ H] _]; exact H.
  - induction H as [|x t Hx Ht IH]; simpl in *; [reflexivity|]. destruct H0 as [H1 H2].
    rewrite (Hx H1), (IH H2). reflexivity.
  - induction H as [|x t Hx Ht IH]; simpl in *; [reflexivity|]. destruct H0 as [H1 H2].
    rewrite (Hx H1), (IH H2). reflexivity.
  - destruct H0; auto.
Qed.
Lemma clean_no_panics p : clean p -> no_panics p = true.
Proof.
  destruct p as [p|q]; simpl; [apply (proj1 (okp_no_panics false))|apply (proj2 (okp_no_panics false))].
Qed.

Lemma clean_dom p : clean p -> dom p.
Proof. destruct p as [p|q]; simpl; [apply (proj1 (okp_dom false))|apply (proj2 (okp_dom false))]. Qed.

(* the iterator and the stream version of every failure-free pipeline deliver the same results *)
Theorem iter_stream_agree cfg1 cfg2 p k :
  iter_supported p = true -> clean p ->
  results (run_iter_cfg cfg1 p (Steps (map CNext (repeat true k))))
  = results (run_stream_cfg cfg2 p (Steps (map CNext (repeat true k)))).
Proof.
  intros Hs Hc.
  rewrite (iter_steps_den cfg1 p (repeat true k) Hs (clean_dom p Hc) (clean_no_panics p Hc)).
  rewrite repeat_length. symmetry. apply stream_steps_den. exact Hc.
Qed.

(* once the end has been reported it is reported for ever *)
Lemma expect_sticky l : forall k i j,
  (i <= j)%nat -> (j < k)%nat ->
  nth_error (expect l k) i = Some REnd -> nth_error (expect l k) j = Some REnd.
Proof.
  induction l as [|x t IH]; intros k i j Hij Hjk Hi.
  - clear Hi. revert i j Hij Hjk. induction k as [|k IHk]; intros i j Hij Hjk; [lia|].
    simpl. destruct j as [|j]; [reflexivity|]. simpl. apply (IHk 0%nat j); lia.
  - destruct k as [|k]; [lia|]. simpl in *. destruct i as [|i]; [discriminate Hi|].
    destruct j as [|j]; [lia|]. simpl in *. apply (IH k i j); auto; lia.
Qed.

Theorem iter_sticky cfg p lives i j :
  iter_supported p = true -> dom p -> no_panics p = true ->
  (i <= j)%nat -> (j < length lives)%nat ->
  let rs := results (run_iter_cfg cfg p (Steps (map CNext lives))) in
  nth_error rs i = Some REnd -> nth_error rs j = Some REnd.
Proof.
  intros Hs Hd Hnp Hij Hj rs. unfold rs. rewrite (iter_steps_den cfg p lives Hs Hd Hnp).
  apply expect_sticky; assumption.
Qed.

Theorem stream_sticky cfg p k i j :
  clean p -> (i <= j)%nat -> (j < k)%nat ->
  let rs := results (run_stream_cfg cfg p (Steps (map CNext (repeat true k)))) in
  nth_error rs i = Some REnd -> nth_error rs j = Some REnd.
Proof.
  intros Hc Hij Hj rs. unfold rs. rewrite (stream_steps_den cfg p k Hc).
  apply expect_sticky; assumption.
Qed.

(* ---- non-vacuity ---- *)
Definition demo : pz :=
  ZJoin [ZFirst 3 (ZFilter (PrModEq 2 1) never_fails (ZSrc 0 (SCounter 10)));
         ZFlatten [ZSrc 1 (SSlice [7; 7; 8]); ZCompact RelEq (ZSrc 2 (SRepeat 4 3))]].

Example demo_supported : iter_supported (inl demo) = true /\ clean (inl demo).
Proof. split; [reflexivity|]. simpl. repeat split. Qed.
Example demo_den : den_z demo = [1; 3; 5; 7; 7; 8; 4].
Proof. reflexivity. Qed.
Example demo_iter_run :
  results (run_iter (inl demo) (Steps (map CNext (repeat true 9))))
  = map (fun x => RItem (IZ x)) [1; 3; 5; 7; 7; 8; 4] ++ [REnd; REnd].
Proof. vm_compute. reflexivity. Qed.
Example demo_stream_run :
  results (run_stream (inl demo) (Steps (map CNext (repeat true 9))))
  = map (fun x => RItem (IZ x)) [1; 3; 5; 7; 7; 8; 4] ++ [REnd; REnd].
Proof. vm_compute. reflexivity. Qed.

(* C09: abandon the stream after 4 items; source 2 (inside Flatten, never handed out) is neither
   touched nor closed, all others are closed exactly once *)
Example demo_close_log :
  ro_log (run_stream (inl demo) (Steps (map CNext (repeat true 4) ++ [CClose])))
  = [SevNext 0; SevNext 0; SevNext 0; SevNext 0; SevNext 0; SevNext 0; SevClose 0; SevNext 1;
     SevClose 1]%nat.
Proof. vm_compute. reflexivity. Qed.
Example demo_owned : pz_owned demo = [0%nat] /\ NoDup (pz_ids demo).
Proof. split; [reflexivity|]. repeat constructor; simpl; intuition discriminate. Qed.

(* laziness: Filter(odd) over Counter has pulled 2k items after k Next calls *)
Example demo_lazy :
  map so_pulls (ro_steps (run_iter (inl (ZFilter (PrModEq 2 1) never_fails (ZSrc 0 (SSlice [0;1;2;3;4;5]))))
                                   (Steps (map CNext (repeat true 3)))))
  = [[2]; [4]; [6]].
Proof. vm_compute. reflexivity. Qed.
