(* Fuel: the measure [isize]/[ssize] never increases, strictly decreases with every item, and a
   call whose fuel is at least the measure never runs out ([Out]).  Generic lemmas, one per
   transcription, stated against an abstract inner Next. *)
From Juniper Require Import Common.Base Iter.Syntax Iter.ModelBase Iter.IterModel Iter.Contract.

Section SizeContract.
  Context {St : Type}.

  (* inner Next over Z items: decrease, and no Out when the measure is at most F *)
  Definition szZ (nx : St -> ret Z St) (sz : St -> nat) (F : nat) : Prop :=
    forall s o s' ev, nx s = (o, s', ev) ->
      (match o with Item _ => sz s' < sz s | Out => True | _ => sz s' <= sz s end)%nat /\
      ((sz s <= F)%nat -> o <> Out).

  (* inner Next over list items: the measure pays for the items handed out *)
  Definition szL (nx : St -> ret (list Z) St) (sz : St -> nat) (F : nat) : Prop :=
    forall s o s' ev, nx s = (o, s', ev) ->
      (match o with
       | Item l => length l + sz s' <= sz s /\ (l = [] -> sz s' < sz s)
       | Out => True
       | _ => sz s' <= sz s
       end)%nat /\
      ((sz s <= F)%nat -> o <> Out).
End SizeContract.

Lemma pass_not_out {A B} (o : res A) : o <> Out -> @pass A B o <> Out \/ exists x, o = Item x.
Proof. destruct o; simpl; intros H; try (left; congruence). right; eauto. Qed.

Ltac szsolve :=
  repeat match goal with H : _ /\ _ |- _ => destruct H end;
  repeat match goal with
         | |- _ /\ _ => split
         | |- _ -> _ => intro
         | |- _ <> Out => discriminate
         end; simpl in *; try lia; try congruence; auto;
  try match goal with
      | H : (_ <= _)%nat -> Out <> Out |- _ => exfalso; apply H; [simpl in *; lia|reflexivity]
      end.

Section GenericSize.
  Context {St : Type} (nx : St -> ret Z St) (sz : St -> nat) (F : nat).
  Hypothesis Hsz : szZ nx sz F.

  Definition pksz (p : pk St) : nat := (if pk_has p then 1 else 0) + sz (pk_in p).

  Lemma ipk_next_sz p o p' ev :
    ipk_next nx p = (o, p', ev) ->
    (match o with Item _ => pksz p' < pksz p | Out => True | _ => pksz p' <= pksz p end)%nat /\
    ((sz (pk_in p) <= F)%nat -> o <> Out).
  Proof.
    destruct p as [has curr s]. unfold ipk_next, pksz. simpl. destruct has.
    - intros Hc. inv_ret Hc. simpl. szsolve.
    - destruct (nx s) as [[o1 s1] ev1] eqn:E. intros Hc. inv_ret Hc. simpl.
      destruct (Hsz _ _ _ _ E) as [Hd Hno]. split; [destruct o; lia|exact Hno].
  Qed.

  Lemma ipk_peek_sz p o p' ev :
    ipk_peek nx p = (o, p', ev) ->
    (o <> Out -> (pksz p' <= pksz p)%nat /\ (sz (pk_in p') <= sz (pk_in p))%nat) /\
    ((sz (pk_in p) <= F)%nat -> o <> Out).
  Proof.
    destruct p as [has curr s]. unfold ipk_peek, pksz. simpl. destruct has.
    - intros Hc. inv_ret Hc. simpl. szsolve.
    - destruct (nx s) as [[o1 s1] ev1] eqn:E. intros Hc.
      destruct (Hsz _ _ _ _ E) as [Hd Hno].
      destruct o1; inv_ret Hc; simpl; szsolve.
  Qed.

  Lemma icompact_sz n r : forall first prev s o first' prev' s' ev,
    icompact nx n r first prev s = (o, (first', prev', s'), ev) ->
    (match o with Item _ => sz s' < sz s | Out => True | _ => sz s' <= sz s end)%nat /\
    ((sz s < n)%nat -> (sz s <= F)%nat -> o <> Out).
  Proof.
    induction n as [|n IH]; intros first prev s o first' prev' s' ev Hc; simpl in Hc.
    - inv_ret Hc. szsolve.
    - destruct (nx s) as [[o1 s1] ev1] eqn:E. destruct (Hsz _ _ _ _ E) as [Hd Hno].
      destruct o1 as [x| | | |]; try (inv_ret Hc; szsolve; fail).
      destruct first; [inv_ret Hc; szsolve|].
      destruct (negb (rel_eval r prev x)); [inv_ret Hc; szsolve|].
      destruct (icompact nx n r false prev s1) as [[o2 [[f2 pr2] s2]] ev2] eqn:E2.
      simpl in Hc. inv_ret Hc. destruct (IH _ _ _ _ _ _ _ _ E2) as [Hd2 Hno2].
      split; [destruct o; lia|]. intros H1 H2. apply Hno2; lia.
  Qed.

  Lemma ifilter_sz n keep fl : forall calls s o calls' s' ev,
    ifilter nx n keep fl calls s = (o, (calls', s'), ev) ->
    (match o with Item _ => sz s' < sz s | Out => True | _ => sz s' <= sz s end)%nat /\
    ((sz s < n)%nat -> (sz s <= F)%nat -> o <> Out).
  Proof.
    induction n as [|n IH]; intros calls s o calls' s' ev Hc; simpl in Hc.
    - inv_ret Hc. szsolve.
    - destruct (nx s) as [[o1 s1] ev1] eqn:E. destruct (Hsz _ _ _ _ E) as [Hd Hno].
      destruct o1 as [x| | | |]; try (inv_ret Hc; szsolve; fail).
      destruct (panics_now fl calls); [inv_ret Hc; szsolve|].
      destruct (pred_eval keep x); [inv_ret Hc; szsolve|].
      destruct (ifilter nx n keep fl (S calls) s1) as [[o2 [c2 s2]] ev2] eqn:E2.
      simpl in Hc. inv_ret Hc. destruct (IH _ _ _ _ _ _ E2) as [Hd2 Hno2].
      split; [destruct o; lia|]. intros H1 H2. apply Hno2; lia.
  Qed.

  Lemma ifirst_sz x s o x' s' ev :
    ifirst nx x s = (o, (x', s'), ev) ->
    (match o with Item _ => sz s' < sz s | Out => True | _ => sz s' <= sz s end)%nat /\
    ((sz s <= F)%nat -> o <> Out).
  Proof.
    unfold ifirst. destruct (x <=? 0).
    - intros Hc. inv_ret Hc. szsolve.
    - destruct (nx s) as [[o1 s1] ev1] eqn:E. destruct (Hsz _ _ _ _ E) as [Hd Hno].
      intros Hc. inv_ret Hc. auto.
  Qed.

  Lemma imap_sz f fl calls s o calls' s' ev :
    imap nx f fl calls s = (o, (calls', s'), ev) ->
    (match o with Item _ => sz s' < sz s | Out => True | _ => sz s' <= sz s end)%nat /\
    ((sz s <= F)%nat -> o <> Out).
  Proof.
    unfold imap. destruct (nx s) as [[o1 s1] ev1] eqn:E. destruct (Hsz _ _ _ _ E) as [Hd Hno].
    intros Hc. destruct o1; [destruct (panics_now fl calls)| | | |]; inv_ret Hc; szsolve.
  Qed.

  Lemma iwhile_sz f fl calls done s o calls' done' s' ev :
    iwhile nx f fl calls done s = (o, (calls', done', s'), ev) ->
    (match o with Item _ => sz s' < sz s | Out => True | _ => sz s' <= sz s end)%nat /\
    ((sz s <= F)%nat -> o <> Out).
  Proof.
    unfold iwhile. destruct done.
    - intros Hc. inv_ret Hc. szsolve.
    - destruct (nx s) as [[o1 s1] ev1] eqn:E. destruct (Hsz _ _ _ _ E) as [Hd Hno].
      intros Hc. destruct o1 as [x| | | |]; try (inv_ret Hc; szsolve; fail).
      destruct (panics_now fl calls); [inv_ret Hc; szsolve|].
      destruct (pred_eval f x); inv_ret Hc; szsolve.
  Qed.

  (* Flatten *)
  Definition flsz (rest : list St) (curr : option St) : nat :=
    list_sum_map (fun c => S (S (sz c))) rest + match curr with Some c => S (sz c) | None => O end.

  Lemma iflatten_sz n : forall rest curr o rest' curr' ev,
    iflatten nx n rest curr = (o, (rest', curr'), ev) ->
    (match o with Item _ => flsz rest' curr' < flsz rest curr
             | Out => True | _ => flsz rest' curr' <= flsz rest curr end)%nat /\
    ((flsz rest curr < n)%nat -> (flsz rest curr <= S F)%nat -> o <> Out).
  Proof.
    induction n as [|n IH]; intros rest curr o rest' curr' ev Hc; simpl in Hc.
    - inv_ret Hc. szsolve.
    - destruct curr as [c|].
      + destruct (nx c) as [[o1 c1] ev1] eqn:E. destruct (Hsz _ _ _ _ E) as [Hd Hno].
        destruct o1 as [x| | | |]; try (inv_ret Hc; unfold flsz; szsolve; fail).
        destruct (iflatten nx n rest None) as [[o2 [r2 c2]] ev2] eqn:E2.
        simpl in Hc. inv_ret Hc. destruct (IH _ _ _ _ _ _ E2) as [Hd2 Hno2].
        unfold flsz in *. simpl in *. split; [destruct o; lia|].
        intros H1 H2. apply Hno2; lia.
      + destruct rest as [|c rest0].
        * inv_ret Hc. szsolve.
        * destruct (IH _ _ _ _ _ _ Hc) as [Hd2 Hno2]. unfold flsz in *. simpl in *.
          split; [destruct o; lia|]. intros H1 H2. apply Hno2; lia.
  Qed.

  (* Join *)
  Definition jsz (its : list St) : nat := list_sum_map (fun c => S (sz c)) its.

  Lemma ijoin_sz n : forall its o its' ev,
    ijoin nx n its = (o, its', ev) ->
    (match o with Item _ => jsz its' < jsz its | Out => True | _ => jsz its' <= jsz its end)%nat /\
    ((jsz its < n)%nat -> (jsz its <= S F)%nat -> o <> Out).
  Proof.
    induction n as [|n IH]; intros its o its' ev Hc; simpl in Hc.
    - inv_ret Hc. szsolve.
    - destruct its as [|c tl]; [inv_ret Hc; szsolve|].
      destruct (nx c) as [[o1 c1] ev1] eqn:E. destruct (Hsz _ _ _ _ E) as [Hd Hno].
      destruct o1 as [x| | | |]; try (inv_ret Hc; unfold jsz; szsolve; fail).
      destruct (ijoin nx n tl) as [[o2 its2] ev2] eqn:E2.
      simpl in Hc. inv_ret Hc. destruct (IH _ _ _ _ E2) as [Hd2 Hno2].
      unfold jsz in *. simpl in *. split; [destruct o; lia|].
      intros H1 H2. apply Hno2; lia.
  Qed.
End GenericSize.

Section GenericSize2.
  Context {St : Type} (nx : St -> ret Z St) (sz : St -> nat) (F : nat).
  Hypothesis Hsz : szZ nx sz F.

  (* Chunk *)
  Lemma ichunk_loop_sz n size : forall chunk s o s' ev,
    ichunk_loop nx n size chunk s = (o, s', ev) ->
    (match o with
     | Item l => length l + 2 * sz s' <= length chunk + 2 * sz s /\ l <> []
     | Out => True
     | _ => sz s' <= sz s
     end)%nat /\
    ((sz s < n)%nat -> (sz s <= F)%nat -> o <> Out).
  Proof.
    induction n as [|n IH]; intros chunk s o s' ev Hc; simpl in Hc.
    - inv_ret Hc. szsolve.
    - destruct (nx s) as [[o1 s1] ev1] eqn:E. destruct (Hsz _ _ _ _ E) as [Hd Hno].
      destruct o1 as [x| | | |].
      + destruct (zlen (chunk ++ [x]) =? size).
        * inv_ret Hc. split; [|szsolve]. rewrite app_length. simpl. split; [lia|].
          intros Hx. apply app_eq_nil in Hx. destruct Hx; discriminate.
        * destruct (ichunk_loop nx n size (chunk ++ [x]) s1) as [[o2 s2] ev2] eqn:E2.
          simpl in Hc. inv_ret Hc. destruct (IH _ _ _ _ _ E2) as [Hd2 Hno2].
          split.
          -- destruct o; try lia. rewrite app_length in Hd2. simpl in Hd2.
             destruct Hd2 as [Hd2 Hne]. split; [lia|exact Hne].
          -- intros H1 H2. apply Hno2; lia.
      + destruct (0 <? zlen chunk) eqn:Ez; inv_ret Hc; [|szsolve].
        split; [|szsolve]. split; [lia|]. intros Hx; subst chunk. discriminate Ez.
      + inv_ret Hc. szsolve.
      + inv_ret Hc. szsolve.
      + inv_ret Hc. szsolve.
  Qed.

  Lemma ichunk_sz n size s o s' ev :
    ichunk nx n size s = (o, s', ev) ->
    (match o with
     | Item l => length l + 2 * sz s' <= 2 * sz s /\ (l = [] -> 2 * sz s' < 2 * sz s)
     | Out => True
     | _ => 2 * sz s' <= 2 * sz s
     end)%nat /\
    ((sz s < n)%nat -> (sz s <= F)%nat -> o <> Out).
  Proof.
    unfold ichunk. destruct (size <? 0).
    - intros Hc. inv_ret Hc. szsolve.
    - intros Hc. destruct (ichunk_loop_sz _ _ _ _ _ _ _ Hc) as [Hd Hno].
      split; [|exact Hno]. destruct o; try lia. destruct Hd as [Hd Hne]. simpl in Hd.
      split; [lia|]. intros Hx; destruct (Hne Hx).
  Qed.
End GenericSize2.

(* FlattenSlices *)
Section GenericSizeFS.
  Context {Lt : Type} (nxl : Lt -> ret (list Z) Lt) (szl : Lt -> nat) (F : nat).
  Hypothesis Hszl : szL nxl szl F.

  Lemma iflatslices_sz n : forall b q o b' q' ev,
    iflatslices nxl n b q = (o, (b', q'), ev) ->
    (match o with
     | Item _ => length b' + szl q' < length b + szl q
     | Out => True
     | _ => length b' + szl q' <= length b + szl q
     end)%nat /\
    ((length b + szl q + (if b then 1 else 0) < n)%nat -> (szl q <= F)%nat -> o <> Out).
  Proof.
    induction n as [|n IH]; intros b q o b' q' ev Hc; simpl in Hc.
    - inv_ret Hc. szsolve.
    - destruct b as [|x b].
      + destruct (nxl q) as [[o1 q1] ev1] eqn:E. destruct (Hszl _ _ _ _ E) as [Hd Hno].
        destruct o1 as [l| | | |].
        * destruct (iflatslices nxl n l q1) as [[o2 [b2 q2]] ev2] eqn:E2.
          simpl in Hc. inv_ret Hc. destruct (IH _ _ _ _ _ _ E2) as [Hd2 Hno2].
          destruct Hd as [Hd Hnil]. simpl. split.
          -- destruct o; lia.
          -- intros H1 H2. apply Hno2; [|lia].
             destruct l as [|y l]; simpl in *; [specialize (Hnil eq_refl); lia|lia].
        * inv_ret Hc. szsolve.
        * inv_ret Hc. szsolve.
        * inv_ret Hc. szsolve.
        * inv_ret Hc. szsolve.
      + inv_ret Hc. szsolve.
  Qed.
End GenericSizeFS.

(* Runs (iterator) *)
Section GenericSizeRuns.
  Context {St : Type} (nx : St -> ret Z St) (sz : St -> nat) (F : nat).
  Hypothesis Hsz : szZ nx sz F.
  Variable r : rel.

  Definition rsz (cur : runcur) (p : pk St) : nat :=
    runs_w r cur (pk_has p) (pk_curr p) + 3 * sz (pk_in p).

  Lemma ipk_peek_item p x p' ev :
    ipk_peek nx p = (Item x, p', ev) -> pk_has p' = true /\ pk_curr p' = x.
  Proof.
    destruct p as [has curr s]. unfold ipk_peek. simpl. destruct has.
    - intros Hc. inv_ret Hc. auto.
    - destruct (nx s) as [[o1 s1] ev1]. destruct o1; intros Hc; try discriminate Hc.
      inv_ret Hc. auto.
  Qed.

  Lemma ipk_peek_nohas p o p' ev :
    ipk_peek nx p = (o, p', ev) -> (forall x, o <> Item x) -> pk_has p' = false.
  Proof.
    destruct p as [has curr s]. unfold ipk_peek. simpl. destruct has.
    - intros Hc Hn. inv_ret Hc. destruct (Hn curr eq_refl).
    - destruct (nx s) as [[o1 s1] ev1]. destruct o1; intros Hc Hn; inv_ret Hc; auto.
      destruct (Hn x eq_refl).
  Qed.

  Lemma runs_w_le2 cur has curr : (runs_w r cur has curr <= 2)%nat.
  Proof.
    unfold runs_w. destruct has; [|lia]. destruct cur as [[prev [|]]|]; try lia.
    destruct (rel_eval r prev curr); lia.
  Qed.

  (* forgetting the current run (or marking it finished) never lowers the weight *)
  Lemma runs_w_mono prev b has curr :
    (runs_w r (Some (prev, true)) has curr <= runs_w r (Some (prev, b)) has curr)%nat /\
    (runs_w r (Some (prev, b)) has curr <= runs_w r None has curr)%nat /\
    runs_w r (Some (prev, false)) has curr = runs_w r None has curr.
  Proof.
    unfold runs_w. destruct has; [|lia]. destruct b; destruct (rel_eval r prev curr); lia.
  Qed.

  Lemma ipk_peek_rsz cur p o p' ev :
    ipk_peek nx p = (o, p', ev) ->
    (o <> Out -> (rsz cur p' <= rsz cur p)%nat /\ (sz (pk_in p') <= sz (pk_in p))%nat) /\
    ((sz (pk_in p) <= F)%nat -> o <> Out).
  Proof.
    destruct p as [has curr s]. unfold ipk_peek, rsz. simpl. destruct has.
    - intros Hc. inv_ret Hc. simpl. szsolve.
    - destruct (nx s) as [[o1 s1] ev1] eqn:E. destruct (Hsz _ _ _ _ E) as [Hd Hno].
      intros Hc. destruct o1 as [x| | | |]; inv_ret Hc; simpl; try (szsolve; fail).
      pose proof (runs_w_le2 cur true x). szsolve.
  Qed.

  Lemma iruns_inner_sz cur p o cur' p' ev :
    iruns_inner nx r cur p = (o, (cur', p'), ev) ->
    fst cur' = fst cur /\
    (match o with
     | Item _ => rsz (Some cur') p' < rsz (Some cur) p /\ sz (pk_in p') <= sz (pk_in p)
     | End => rsz (Some cur') p' <= rsz (Some cur) p /\ sz (pk_in p') <= sz (pk_in p) /\
              snd cur' = false
     | Out => True
     | _ => rsz (Some cur') p' <= rsz (Some cur) p /\ sz (pk_in p') <= sz (pk_in p)
     end)%nat /\
    ((sz (pk_in p) <= F)%nat -> o <> Out).
  Proof.
    destruct cur as [prev alive]. unfold iruns_inner. destruct alive; simpl.
    - destruct (ipk_peek nx p) as [[o1 p1] ev1] eqn:E1.
      destruct (ipk_peek_rsz (Some (prev, true)) _ _ _ _ E1) as (Hd1 & Hno1).
      destruct o1 as [x| | | |].
      + destruct (ipk_peek_item _ _ _ _ E1) as [Hh Hcu].
        destruct (Hd1 ltac:(discriminate)) as [Hd1a Hd1b].
        destruct (rel_eval r prev x) eqn:Es.
        * destruct p1 as [has1 curr1 s1]. simpl in *. subst has1 curr1.
          unfold ipk_next. simpl. intros Hc. inv_ret Hc.
          unfold rsz in *. simpl in *. rewrite Es in Hd1a. szsolve.
        * intros Hc. inv_ret Hc. unfold rsz, runs_w in *. rewrite Hh in *. rewrite Es in *.
          szsolve.
      + destruct (Hd1 ltac:(discriminate)) as [Hd1a Hd1b].
        pose proof (ipk_peek_nohas _ _ _ _ E1 ltac:(intros; discriminate)) as Hh.
        intros Hc. inv_ret Hc. simpl. unfold rsz in *. rewrite Hh in *. simpl in *. szsolve.
      + destruct (Hd1 ltac:(discriminate)) as [Hd1a Hd1b]. intros Hc. inv_ret Hc. simpl. szsolve.
      + destruct (Hd1 ltac:(discriminate)) as [Hd1a Hd1b]. intros Hc. inv_ret Hc. simpl. szsolve.
      + intros Hc. inv_ret Hc. simpl. szsolve.
    - intros Hc. inv_ret Hc. szsolve.
  Qed.

  Lemma iruns_drain_sz n : forall cur p o cur' p' ev,
    iruns_drain nx n r cur p = (o, (cur', p'), ev) ->
    fst cur' = fst cur /\
    (o <> Out -> (rsz (Some cur') p' <= rsz (Some cur) p)%nat /\
                 (sz (pk_in p') <= sz (pk_in p))%nat) /\
    (o = End -> snd cur' = false) /\ (forall u, o <> Item u) /\
    ((rsz (Some cur) p < n)%nat -> (sz (pk_in p) <= F)%nat -> o <> Out).
  Proof.
    induction n as [|n IH]; intros cur p o cur' p' ev Hc; simpl in Hc.
    - inv_ret Hc. szsolve.
    - destruct (iruns_inner nx r cur p) as [[o1 [cur1 p1]] ev1] eqn:E1.
      destruct (iruns_inner_sz _ _ _ _ _ _ E1) as (Hf1 & Hd1 & Hno1).
      destruct o1 as [x| | | |].
      + destruct (iruns_drain nx n r cur1 p1) as [[o2 [cur2 p2]] ev2] eqn:E2.
        simpl in Hc. inv_ret Hc.
        destruct (IH _ _ _ _ _ _ E2) as (Hf2 & Hd2 & He2 & Hni2 & Hno2).
        split; [congruence|]. split; [intros Ho; specialize (Hd2 Ho); lia|].
        split; [exact He2|]. split; [exact Hni2|]. intros H1 H2. apply Hno2; lia.
      + inv_ret Hc. szsolve.
      + inv_ret Hc. szsolve.
      + inv_ret Hc. szsolve.
      + inv_ret Hc. szsolve.
  Qed.

  Lemma iruns_take_sz n : forall k acc cur p o cur' p' ev,
    iruns_take nx n r k acc cur p = (o, (cur', p'), ev) ->
    (match o with
     | Item l => length l + rsz (Some cur') p' <= length acc + rsz (Some cur) p
     | Out => True
     | _ => rsz (Some cur') p' <= rsz (Some cur) p
     end)%nat /\
    ((rsz (Some cur) p < n)%nat -> (sz (pk_in p) <= F)%nat -> o <> Out).
  Proof.
    induction n as [|n IH]; intros k acc cur p o cur' p' ev Hc; simpl in Hc.
    - inv_ret Hc. szsolve.
    - assert (Hgo :
        (let '(o, (cur', p'), ev) := iruns_inner nx r cur p in
         match o with
         | Item x => after ev (iruns_take nx n r (option_map Nat.pred k) (acc ++ [x]) cur' p')
         | End => (Item acc, (cur', p'), ev)
         | _ => (pass o, (cur', p'), ev)
         end) = (o, (cur', p'), ev) ->
        (match o with
         | Item l => length l + rsz (Some cur') p' <= length acc + rsz (Some cur) p
         | Out => True
         | _ => rsz (Some cur') p' <= rsz (Some cur) p
         end)%nat /\
        ((rsz (Some cur) p < S n)%nat -> (sz (pk_in p) <= F)%nat -> o <> Out)).
      { intros Hc'.
        destruct (iruns_inner nx r cur p) as [[o1 [cur1 p1]] ev1] eqn:E1.
        destruct (iruns_inner_sz _ _ _ _ _ _ E1) as (Hf1 & Hd1 & Hno1).
        destruct o1 as [x| | | |].
        - destruct (iruns_take nx n r (option_map Nat.pred k) (acc ++ [x]) cur1 p1)
            as [[o2 [cur2 p2]] ev2] eqn:E2.
          simpl in Hc'. inv_ret Hc'. destruct (IH _ _ _ _ _ _ _ _ E2) as (Hd2 & Hno2).
          split; [|intros H1 H2; apply Hno2; lia].
          destruct o; try lia. rewrite app_length in Hd2. simpl in Hd2. lia.
        - inv_ret Hc'. szsolve.
        - inv_ret Hc'. szsolve.
        - inv_ret Hc'. szsolve.
        - inv_ret Hc'. szsolve. }
      destruct k as [[|k]|]; [inv_ret Hc; szsolve|exact (Hgo Hc)|exact (Hgo Hc)].
  Qed.

  Lemma iruns_sz n k cur p o cur' p' ev :
    iruns nx n r k cur p = (o, (cur', p'), ev) ->
    (match o with
     | Item l => length l + rsz cur' p' < rsz cur p
     | Out => True
     | _ => rsz cur' p' <= rsz cur p
     end)%nat /\
    ((rsz cur p < n)%nat -> (sz (pk_in p) <= F)%nat -> o <> Out).
  Proof.
    unfold iruns.
    assert (Hdr : exists o1 p1 ev1,
               match cur with
               | Some c => let '(o, (_, p'), ev) := iruns_drain nx n r c p in (o, p', ev)
               | None => (End, p, [])
               end = (o1 : res unit, p1, ev1) /\
               (o1 <> Out -> (rsz cur p1 <= rsz cur p)%nat /\
                             (sz (pk_in p1) <= sz (pk_in p))%nat) /\
               (o1 = End -> (rsz None p1 <= rsz cur p)%nat) /\ (forall u, o1 <> Item u) /\
               ((rsz cur p < n)%nat -> (sz (pk_in p) <= F)%nat -> o1 <> Out)).
    { destruct cur as [c|].
      - destruct (iruns_drain nx n r c p) as [[o1 [c1 p1]] ev1] eqn:E1.
        destruct (iruns_drain_sz _ _ _ _ _ _ _ E1) as (Hf1 & Hd1 & He1 & Hni1 & Hno1).
        exists o1, p1, ev1. split; [reflexivity|].
        destruct c as [prev al]. destruct c1 as [prev1 al1]. simpl in Hf1. subst prev1.
        split; [|split; [|split; [exact Hni1|exact Hno1]]].
        + intros Ho. destruct (Hd1 Ho) as [Ha Hb]. split; [|exact Hb].
          unfold rsz in *.
          pose proof (runs_w_mono prev al1 (pk_has p1) (pk_curr p1)) as (Hm1 & _).
          destruct al.
          * lia.
          * (* a finished run stays finished *)
            assert (al1 = false).
            { clear - E1. revert p o1 al1 p1 ev1 E1.
              induction n as [|m IHm]; intros p o1 al1 p1 ev1 E1; simpl in E1.
              - inv_ret E1. reflexivity.
              - unfold iruns_inner in E1. simpl in E1. inv_ret E1. reflexivity. }
            subst al1. lia.
        + intros Ho. subst o1. specialize (He1 eq_refl). simpl in He1. subst al1.
          destruct (Hd1 ltac:(discriminate)) as [Ha Hb]. unfold rsz in *.
          pose proof (runs_w_mono prev false (pk_has p1) (pk_curr p1)) as (_ & _ & Hm).
          lia.
      - exists End, p, []. split; [reflexivity|]. szsolve. }
    destruct Hdr as (o1 & p1 & ev1 & Hdr & Hd1 & He1 & Hni1 & Hno1). rewrite Hdr. clear Hdr.
    destruct o1 as [u| | | |].
    - destruct (Hni1 u eq_refl).
    - specialize (He1 eq_refl). destruct (Hd1 ltac:(discriminate)) as [Hd1a Hd1b].
      destruct (ipk_peek nx p1) as [[o2 p2] ev2] eqn:E2.
      destruct (ipk_peek_rsz None _ _ _ _ E2) as (Hd2 & Hno2).
      destruct o2 as [x| | | |].
      + destruct (Hd2 ltac:(discriminate)) as [Hd2a Hd2b].
        destruct (ipk_peek_item _ _ _ _ E2) as [Hh Hcu].
        destruct (iruns_take nx n r k [] (x, true) p2) as [[o3 [c3 p3]] ev3] eqn:E3.
        destruct (iruns_take_sz _ _ _ _ _ _ _ _ _ E3) as (Hd3 & Hno3).
        assert (Hw : (rsz (Some (x, true)) p2 + 1 <= rsz None p2)%nat).
        { unfold rsz, runs_w. rewrite Hh, Hcu, rel_refl. lia. }
        intros Hc. inv_ret Hc.
        split.
        * destruct o; simpl in *; lia.
        * intros H1 H2. apply Hno3; lia.
      + destruct (Hd2 ltac:(discriminate)) as [Hd2a Hd2b]. intros Hc. inv_ret Hc. szsolve.
      + destruct (Hd2 ltac:(discriminate)) as [Hd2a Hd2b]. intros Hc. inv_ret Hc. simpl.
        split; [|szsolve].
        pose proof (ipk_peek_nohas _ _ _ _ E2 ltac:(intros; discriminate)) as Hh.
        unfold rsz, runs_w in *. rewrite Hh in *. lia.
      + destruct (Hd2 ltac:(discriminate)) as [Hd2a Hd2b]. intros Hc. inv_ret Hc. simpl.
        split; [|szsolve].
        pose proof (ipk_peek_nohas _ _ _ _ E2 ltac:(intros; discriminate)) as Hh.
        unfold rsz, runs_w in *. rewrite Hh in *. lia.
      + intros Hc. inv_ret Hc. split; [exact I|]. intros H1 H2. exfalso.
        apply Hno2; [lia|reflexivity].
    - intros Hc. inv_ret Hc. simpl. destruct (Hd1 ltac:(discriminate)). szsolve.
    - intros Hc. inv_ret Hc. simpl. destruct (Hd1 ltac:(discriminate)). szsolve.
    - intros Hc. inv_ret Hc. simpl. split; [exact I|]. intros H1 H2. exfalso.
      apply (Hno1 H1 H2). reflexivity.
  Qed.
End GenericSizeRuns.
