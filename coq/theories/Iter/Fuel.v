(* Fuel: the measure [isize]/[ssize] never increases, strictly decreases with every item, and a
   call whose fuel is at least the measure never runs out ([Out]).  Generic lemmas, one per
   transcription, stated against an abstract inner Next. *)
From Juniper Require Import Common.Base Iter.Syntax Iter.ModelBase Iter.IterModel Iter.Contract.

Section SizeContract.
  Context {St : Type}.

  (* inner Next over Z items: decrease, and no Out when the measure is at most F *)
  Definition szZ (nx : St -> ret Z St) (sz : St -> nat) (F : nat) : Prop :=
    forall s o s' ev, nx s = (o, s', ev) ->
      (match o with Item _ => sz s' < sz s | Out => True | _ => sz s' <= sz s end)%nat /\
      ((sz s <= F)%nat -> o <> Out).

  (* inner Next over list items: the measure pays for the items handed out *)
  Definition szL (nx : St -> ret (list Z) St) (sz : St -> nat) (F : nat) : Prop :=
    forall s o s' ev, nx s = (o, s', ev) ->
      (match o with
       | Item l => length l + sz s' <= sz s /\ (l = [] -> sz s' < sz s)
       | Out => True
       | _ => sz s' <= sz s
       end)%nat /\
      ((sz s <= F)%nat -> o <> Out).
End SizeContract.

Lemma pass_not_out {A B} (o : res A) : o <> Out -> @pass A B o <> Out \/ exists x, o = Item x.
Proof. destruct o; simpl; intros H; try (left; congruence). right; eauto. Qed.

Ltac szsolve :=
  repeat match goal with
         | |- _ /\ _ => split
         | |- _ -> _ => intro
         | |- _ <> Out => discriminate
         end; simpl in *; try lia; try congruence; auto;
  try match goal with
      | H : (_ <= _)%nat -> Out <> Out |- _ => exfalso; apply H; [simpl in *; lia|reflexivity]
      end.

Section GenericSize.
  Context {St : Type} (nx : St -> ret Z St) (sz : St -> nat) (F : nat).
  Hypothesis Hsz : szZ nx sz F.

  Definition pksz (p : pk St) : nat := (if pk_has p then 1 else 0) + sz (pk_in p).

  Lemma ipk_next_sz p o p' ev :
    ipk_next nx p = (o, p', ev) ->
    (match o with Item _ => pksz p' < pksz p | Out => True | _ => pksz p' <= pksz p end)%nat /\
    ((sz (pk_in p) <= F)%nat -> o <> Out).
  Proof.
    destruct p as [has curr s]. unfold ipk_next, pksz. simpl. destruct has.
    - intros Hc. inv_ret Hc. simpl. szsolve.
    - destruct (nx s) as [[o1 s1] ev1] eqn:E. intros Hc. inv_ret Hc. simpl.
      destruct (Hsz _ _ _ _ E) as [Hd Hno]. split; [destruct o; lia|exact Hno].
  Qed.

  Lemma ipk_peek_sz p o p' ev :
    ipk_peek nx p = (o, p', ev) ->
    (o <> Out -> (pksz p' <= pksz p)%nat /\ (sz (pk_in p') <= sz (pk_in p))%nat) /\
    ((sz (pk_in p) <= F)%nat -> o <> Out).
  Proof.
    destruct p as [has curr s]. unfold ipk_peek, pksz. simpl. destruct has.
    - intros Hc. inv_ret Hc. simpl. szsolve.
    - destruct (nx s) as [[o1 s1] ev1] eqn:E. intros Hc.
      destruct (Hsz _ _ _ _ E) as [Hd Hno].
      destruct o1; inv_ret Hc; simpl; szsolve.
  Qed.

  Lemma icompact_sz n r : forall first prev s o first' prev' s' ev,
    icompact nx n r first prev s = (o, (first', prev', s'), ev) ->
    (match o with Item _ => sz s' < sz s | Out => True | _ => sz s' <= sz s end)%nat /\
    ((sz s < n)%nat -> (sz s <= F)%nat -> o <> Out).
  Proof.
    induction n as [|n IH]; intros first prev s o first' prev' s' ev Hc; simpl in Hc.
    - inv_ret Hc. szsolve.
    - destruct (nx s) as [[o1 s1] ev1] eqn:E. destruct (Hsz _ _ _ _ E) as [Hd Hno].
      destruct o1 as [x| | | |]; try (inv_ret Hc; szsolve; fail).
      destruct first; [inv_ret Hc; szsolve|].
      destruct (negb (rel_eval r prev x)); [inv_ret Hc; szsolve|].
      destruct (icompact nx n r false prev s1) as [[o2 [[f2 pr2] s2]] ev2] eqn:E2.
      simpl in Hc. inv_ret Hc. destruct (IH _ _ _ _ _ _ _ _ E2) as [Hd2 Hno2].
      split; [destruct o; lia|]. intros H1 H2. apply Hno2; lia.
  Qed.

  Lemma ifilter_sz n keep : forall s o s' ev,
    ifilter nx n keep s = (o, s', ev) ->
    (match o with Item _ => sz s' < sz s | Out => True | _ => sz s' <= sz s end)%nat /\
    ((sz s < n)%nat -> (sz s <= F)%nat -> o <> Out).
  Proof.
    induction n as [|n IH]; intros s o s' ev Hc; simpl in Hc.
    - inv_ret Hc. szsolve.
    - destruct (nx s) as [[o1 s1] ev1] eqn:E. destruct (Hsz _ _ _ _ E) as [Hd Hno].
      destruct o1 as [x| | | |]; try (inv_ret Hc; szsolve; fail).
      destruct (pred_eval keep x); [inv_ret Hc; szsolve|].
      destruct (ifilter nx n keep s1) as [[o2 s2] ev2] eqn:E2.
      simpl in Hc. inv_ret Hc. destruct (IH _ _ _ _ E2) as [Hd2 Hno2].
      split; [destruct o; lia|]. intros H1 H2. apply Hno2; lia.
  Qed.

  Lemma ifirst_sz x s o x' s' ev :
    ifirst nx x s = (o, (x', s'), ev) ->
    (match o with Item _ => sz s' < sz s | Out => True | _ => sz s' <= sz s end)%nat /\
    ((sz s <= F)%nat -> o <> Out).
  Proof.
    unfold ifirst. destruct (x <=? 0).
    - intros Hc. inv_ret Hc. szsolve.
    - destruct (nx s) as [[o1 s1] ev1] eqn:E. destruct (Hsz _ _ _ _ E) as [Hd Hno].
      intros Hc. inv_ret Hc. auto.
  Qed.

  Lemma imap_sz f s o s' ev :
    imap nx f s = (o, s', ev) ->
    (match o with Item _ => sz s' < sz s | Out => True | _ => sz s' <= sz s end)%nat /\
    ((sz s <= F)%nat -> o <> Out).
  Proof.
    unfold imap. destruct (nx s) as [[o1 s1] ev1] eqn:E. destruct (Hsz _ _ _ _ E) as [Hd Hno].
    intros Hc. destruct o1; inv_ret Hc; szsolve.
  Qed.

  Lemma iwhile_sz f done s o done' s' ev :
    iwhile nx f done s = (o, (done', s'), ev) ->
    (match o with Item _ => sz s' < sz s | Out => True | _ => sz s' <= sz s end)%nat /\
    ((sz s <= F)%nat -> o <> Out).
  Proof.
    unfold iwhile. destruct done.
    - intros Hc. inv_ret Hc. szsolve.
    - destruct (nx s) as [[o1 s1] ev1] eqn:E. destruct (Hsz _ _ _ _ E) as [Hd Hno].
      intros Hc. destruct o1 as [x| | | |]; try (inv_ret Hc; szsolve; fail).
      destruct (pred_eval f x); inv_ret Hc; szsolve.
  Qed.

  (* Flatten *)
  Definition flsz (rest : list St) (curr : option St) : nat :=
    list_sum_map (fun c => S (S (sz c))) rest + match curr with Some c => S (sz c) | None => O end.

  Lemma iflatten_sz n : forall rest curr o rest' curr' ev,
    iflatten nx n rest curr = (o, (rest', curr'), ev) ->
    (match o with Item _ => flsz rest' curr' < flsz rest curr
             | Out => True | _ => flsz rest' curr' <= flsz rest curr end)%nat /\
    ((flsz rest curr < n)%nat -> (flsz rest curr <= S F)%nat -> o <> Out).
  Proof.
    induction n as [|n IH]; intros rest curr o rest' curr' ev Hc; simpl in Hc.
    - inv_ret Hc. szsolve.
    - destruct curr as [c|].
      + destruct (nx c) as [[o1 c1] ev1] eqn:E. destruct (Hsz _ _ _ _ E) as [Hd Hno].
        destruct o1 as [x| | | |]; try (inv_ret Hc; unfold flsz; szsolve; fail).
        destruct (iflatten nx n rest None) as [[o2 [r2 c2]] ev2] eqn:E2.
        simpl in Hc. inv_ret Hc. destruct (IH _ _ _ _ _ _ E2) as [Hd2 Hno2].
        unfold flsz in *. simpl in *. split; [destruct o; lia|].
        intros H1 H2. apply Hno2; lia.
      + destruct rest as [|c rest0].
        * inv_ret Hc. szsolve.
        * destruct (IH _ _ _ _ _ _ Hc) as [Hd2 Hno2]. unfold flsz in *. simpl in *.
          split; [destruct o; lia|]. intros H1 H2. apply Hno2; lia.
  Qed.

  (* Join *)
  Definition jsz (its : list St) : nat := list_sum_map (fun c => S (sz c)) its.

  Lemma ijoin_sz n : forall its o its' ev,
    ijoin nx n its = (o, its', ev) ->
    (match o with Item _ => jsz its' < jsz its | Out => True | _ => jsz its' <= jsz its end)%nat /\
    ((jsz its < n)%nat -> (jsz its <= S F)%nat -> o <> Out).
  Proof.
    induction n as [|n IH]; intros its o its' ev Hc; simpl in Hc.
    - inv_ret Hc. szsolve.
    - destruct its as [|c tl]; [inv_ret Hc; szsolve|].
      destruct (nx c) as [[o1 c1] ev1] eqn:E. destruct (Hsz _ _ _ _ E) as [Hd Hno].
      destruct o1 as [x| | | |]; try (inv_ret Hc; unfold jsz; szsolve; fail).
      destruct (ijoin nx n tl) as [[o2 its2] ev2] eqn:E2.
      simpl in Hc. inv_ret Hc. destruct (IH _ _ _ _ E2) as [Hd2 Hno2].
      unfold jsz in *. simpl in *. split; [destruct o; lia|].
      intros H1 H2. apply Hno2; lia.
  Qed.
End GenericSize.

Section GenericSize2.
  Context {St : Type} (nx : St -> ret Z St) (sz : St -> nat) (F : nat).
  Hypothesis Hsz : szZ nx sz F.

  (* Chunk *)
  Lemma ichunk_loop_sz n size : forall chunk s o s' ev,
    ichunk_loop nx n size chunk s = (o, s', ev) ->
    (match o with
     | Item l => length l + 2 * sz s' <= length chunk + 2 * sz s /\ l <> []
     | Out => True
     | _ => sz s' <= sz s
     end)%nat /\
    ((sz s < n)%nat -> (sz s <= F)%nat -> o <> Out).
  Proof.
    induction n as [|n IH]; intros chunk s o s' ev Hc; simpl in Hc.
    - inv_ret Hc. szsolve.
    - destruct (nx s) as [[o1 s1] ev1] eqn:E. destruct (Hsz _ _ _ _ E) as [Hd Hno].
      destruct o1 as [x| | | |].
      + destruct (zlen (chunk ++ [x]) =? size).
        * inv_ret Hc. split; [|szsolve]. rewrite app_length. simpl. split; [lia|].
          intros Hx. apply app_eq_nil in Hx. destruct Hx; discriminate.
        * destruct (ichunk_loop nx n size (chunk ++ [x]) s1) as [[o2 s2] ev2] eqn:E2.
          simpl in Hc. inv_ret Hc. destruct (IH _ _ _ _ _ E2) as [Hd2 Hno2].
          split.
          -- destruct o; try lia. rewrite app_length in Hd2. simpl in Hd2.
             destruct Hd2 as [Hd2 Hne]. split; [lia|exact Hne].
          -- intros H1 H2. apply Hno2; lia.
      + destruct (0 <? zlen chunk) eqn:Ez; inv_ret Hc; [|szsolve].
        split; [|szsolve]. split; [lia|]. intros Hx; subst chunk. discriminate Ez.
      + inv_ret Hc. szsolve.
      + inv_ret Hc. szsolve.
      + inv_ret Hc. szsolve.
  Qed.

  Lemma ichunk_sz n size s o s' ev :
    ichunk nx n size s = (o, s', ev) ->
    (match o with
     | Item l => length l + 2 * sz s' <= 2 * sz s /\ (l = [] -> 2 * sz s' < 2 * sz s)
     | Out => True
     | _ => 2 * sz s' <= 2 * sz s
     end)%nat /\
    ((sz s < n)%nat -> (sz s <= F)%nat -> o <> Out).
  Proof.
    unfold ichunk. destruct (size <? 0).
    - intros Hc. inv_ret Hc. szsolve.
    - intros Hc. destruct (ichunk_loop_sz _ _ _ _ _ _ _ Hc) as [Hd Hno].
      split; [|exact Hno]. destruct o; try lia. destruct Hd as [Hd Hne]. simpl in Hd.
      split; [lia|]. intros Hx; destruct (Hne Hx).
  Qed.
End GenericSize2.
