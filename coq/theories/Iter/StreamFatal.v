(* C08, fatal half, on the stream model.  [scrub k] replaces, in every script, the first fatal
   error and everything behind it by the continuation k, and makes every callback that returns
   an error infallible (panics - of callbacks and of sources - are no faults in this sense and
   stay as they are: the simulation theorem holds for every state, panicking ones included; the
   run-level theorems are stated for pipelines without panics).
   Every call either behaves exactly as on the scrubbed state - for every k, so it cannot depend
   on what the failed source would have delivered, and in particular cannot report the end
   unless the end is due whatever follows - or it reports one of the fault codes itself. *)
From Juniper Require Import Common.Base Iter.Syntax Iter.Config Iter.ModelBase Iter.IterModel
  Iter.StreamModel Iter.Spec Iter.Contract Iter.FatalSim Iter.IterProofs Iter.StreamProofs
  Iter.Events Iter.StreamEvents.

Definition ssrc_scrub (k : list sevent) (s : ssrc) : ssrc :=
  match s with
  | SSIter i => SSIter i
  | SSScript evs => SSScript (cut_with k evs)
  | SSScriptNC evs => SSScriptNC (cut_with k evs)
  end.
Definition ssrc_codes (s : ssrc) : list Z :=
  match s with SSIter _ => [] | SSScript evs | SSScriptNC evs => fatal_codes evs end.

Fixpoint scrub (k : list sevent) (s : sst) : sst :=
  match s with
  | TSrc id src => TSrc id (ssrc_scrub k src)
  | TPeek p => TPeek (pkscrub (scrub k) p)
  | TCompact r first prev p => TCompact r first prev (scrub k p)
  | TFilter keep fl calls p => TFilter keep (scrub_fl fl) calls (scrub k p)
  | TFirst x p => TFirst x (scrub k p)
  | TFlatten rest curr => TFlatten (map (scrub k) rest) (option_map (scrub k) curr)
  | TJoin rem => TJoin (map (scrub k) rem)
  | TMap f fl calls p => TMap f (scrub_fl fl) calls (scrub k p)
  | TWhile f fl calls item has done p => TWhile f (scrub_fl fl) calls item has done (scrub k p)
  | TFlattenSlices b q => TFlattenSlices b (slscrub k q)
  end
with slscrub (k : list sevent) (q : slst) : slst :=
  match q with
  | TChunk size chunk p => TChunk size chunk (scrub k p)
  | TRuns r t cur pend p => TRuns r t cur pend (pkscrub (scrub k) p)
  end.

Fixpoint scodes (s : sst) : list Z :=
  match s with
  | TSrc _ src => ssrc_codes src
  | TPeek p => scodes (pk_in p)
  | TCompact _ _ _ p | TFirst _ p => scodes p
  | TFilter _ fl _ p | TMap _ fl _ p | TWhile _ fl _ _ _ _ p => cb_codes fl ++ scodes p
  | TFlatten rest curr =>
      (match curr with Some c => scodes c | None => [] end) ++ flat_map scodes rest
  | TJoin rem => flat_map scodes rem
  | TFlattenSlices _ q => slcodes q
  end
with slcodes (q : slst) : list Z :=
  match q with
  | TChunk _ _ p => scodes p
  | TRuns _ _ _ _ p => scodes (pk_in p)
  end.

Lemma flat_map_map_in {A B C} (f : A -> B) (g : B -> list C) (h : A -> list C) l :
  (forall x, In x l -> g (f x) = h x) -> flat_map g (map f l) = flat_map h l.
Proof.
  induction l as [|x t IH]; simpl; intros H; [reflexivity|]. rewrite H, IH; auto.
Qed.

Lemma sclose_scrub k : (forall s, sclose (scrub k s) = sclose s) /\
                       (forall q, slclose (slscrub k q) = slclose q).
Proof.
  apply sst_size_ind. intros n IH1 IH2. split.
  - intros s Hs. destruct s; simpl in *; try (apply IH1; lia); try reflexivity.
    + destruct curr as [c|]; simpl; [apply IH1; lia|reflexivity].
    + apply flat_map_map_in. intros x Hx. apply IH1.
      pose proof (list_sum_map_in (fun c => S (ssize c)) rem x Hx). simpl in *. lia.
    + apply IH2. lia.
  - intros q Hq. destruct q; simpl in *; apply IH1; lia.
Qed.

Lemma script_next_sim k evs o evs' :
  script_next evs = (o, evs') ->
  incl (fatal_codes evs') (fatal_codes evs) /\
  (script_next (cut_with k evs) = (o, cut_with k evs') \/
   exists e, o = Err e /\ In e (fatal_codes evs)).
Proof.
  destruct evs as [|[x|e|e|] t]; intros Hc; simpl in Hc; injection Hc as ? ?; subst; simpl.
  - split; [apply incl_refl|left; reflexivity].
  - split; [apply incl_refl|left; reflexivity].
  - split; [apply incl_refl|left; reflexivity].
  - split; [apply incl_refl|right]. exists e. simpl. auto.
  - split; [apply incl_refl|left; reflexivity].
Qed.

Lemma ssrc_next_sim k live :
  forall src o src', ssrc_next live src = (o, src') ->
    incl (ssrc_codes src') (ssrc_codes src) /\
    (ssrc_next live (ssrc_scrub k src) = (o, ssrc_scrub k src') \/
     exists e, o = Err e /\ In e (ssrc_codes src)).
Proof.
  intros src o src'. unfold ssrc_next. destruct src as [i|evs|evs]; simpl.
  - destruct live; simpl.
    + destruct (isrc_next i) as [ox i'] eqn:E. intros Hc. injection Hc as ? ?; subst.
      simpl. split; [apply incl_refl|left; reflexivity].
    + intros Hc. injection Hc as ? ?; subst. split; [apply incl_refl|left; reflexivity].
  - destruct live; simpl.
    + destruct (script_next evs) as [o1 evs1] eqn:E. intros Hc. injection Hc as ? ?; subst.
      destruct (script_next_sim k _ _ _ E) as [Hi [Ha|Hh]].
      * split; [exact Hi|left]. rewrite Ha. reflexivity.
      * split; [exact Hi|right; exact Hh].
    + intros Hc. injection Hc as ? ?; subst. split; [apply incl_refl|left; reflexivity].
  - destruct (script_next evs) as [o1 evs1] eqn:E. intros Hc. injection Hc as ? ?; subst.
    destruct (script_next_sim k _ _ _ E) as [Hi [Ha|Hh]].
    + split; [exact Hi|left]. rewrite Ha. reflexivity.
    + split; [exact Hi|right; exact Hh].
Qed.

(* ---- the master simulation theorem ---- *)
Theorem snext_sim k live : forall f,
  simok scodes (scrub k) (snext f live) /\ simok slcodes (slscrub k) (slnext f live).
Proof.
  induction f as [|f [IHz IHl]].
  - split; intros s o s' ev Hc; simpl in Hc; inv_ret Hc;
      (split; [apply incl_refl|left; reflexivity]).
  - split; intros s o s' ev Hc.
    + destruct s as [id src|p|r first prev p|keep fl calls p|x p|rest curr|rem|g fl calls p
                    |g fl calls item has done p|b q]; cbn [snext scrub] in *.
      * destruct (ssrc_next live src) as [o1 src'] eqn:E. inv_ret Hc.
        destruct (ssrc_next_sim k live _ _ _ E) as [Hi [Ha|Hh]].
        -- split; [exact Hi|left]. rewrite Ha. reflexivity.
        -- split; [exact Hi|right; exact Hh].
      * destruct (ipk_next (snext f live) p) as [[o1 p1] ev1] eqn:E. inv_ret Hc.
        destruct (ipk_next_sim _ _ _ IHz _ _ _ _ E) as [Hi [Ha|Hh]].
        -- split; [exact Hi|left]. rewrite Ha. reflexivity.
        -- split; [exact Hi|right; exact Hh].
      * destruct (icompact (snext f live) (S f) r first prev p)
          as [[o1 [[f1 pr1] p1]] ev1] eqn:E.
        inv_ret Hc.
        destruct (icompact_sim _ _ _ IHz (S f) r (first, prev, p) _ _ _ E) as [Hi [Ha|Hh]];
          simpl in *.
        -- split; [exact Hi|left]. rewrite Ha. reflexivity.
        -- split; [exact Hi|right; exact Hh].
      * destruct (sfilter (snext f live) (S f) keep fl calls p) as [[o1 [c1 p1]] ev1] eqn:E.
        inv_ret Hc.
        destruct (sfilter_sim _ _ _ IHz (S f) keep fl (calls, p) _ _ _ E) as [Hi [Ha|Hh]];
          simpl in *.
        -- split; [exact Hi|left]. rewrite Ha. reflexivity.
        -- split; [exact Hi|right; exact Hh].
      * destruct (sfirst (snext f live) x p) as [[o1 [x1 p1]] ev1] eqn:E. inv_ret Hc.
        destruct (sfirst_sim _ _ _ IHz (x, p) _ _ _ E) as [Hi [Ha|Hh]]; simpl in *.
        -- split; [exact Hi|left]. rewrite Ha. reflexivity.
        -- split; [exact Hi|right; exact Hh].
      * destruct (sflatten (snext f live) sclose (S f) live rest curr)
          as [[o1 [r1 c1]] ev1] eqn:E.
        inv_ret Hc.
        destruct (sflatten_sim _ sclose _ _ IHz (proj1 (sclose_scrub k)) (S f) live
                               (rest, curr) _ _ _ E) as [Hi [Ha|Hh]];
          unfold flcodes, flscrub in *; simpl in *.
        -- split; [exact Hi|left]. rewrite Ha. reflexivity.
        -- split; [exact Hi|right; exact Hh].
      * destruct (sjoin (snext f live) sclose (S f) rem) as [[o1 rem1] ev1] eqn:E. inv_ret Hc.
        destruct (sjoin_sim _ sclose _ _ IHz (proj1 (sclose_scrub k)) (S f) rem _ _ _ E)
          as [Hi [Ha|Hh]]; simpl in *.
        -- split; [exact Hi|left]. rewrite Ha. reflexivity.
        -- split; [exact Hi|right; exact Hh].
      * destruct (smap (snext f live) g fl calls p) as [[o1 [c1 p1]] ev1] eqn:E. inv_ret Hc.
        destruct (smap_sim _ _ _ IHz g fl (calls, p) _ _ _ E) as [Hi [Ha|Hh]]; simpl in *.
        -- split; [exact Hi|left]. rewrite Ha. reflexivity.
        -- split; [exact Hi|right; exact Hh].
      * destruct (swhile (snext f live) g fl calls item has done p)
          as [[o1 [[[[c1 i1] h1] d1] p1]] ev1] eqn:E.
        inv_ret Hc.
        destruct (swhile_sim _ _ _ IHz g fl (calls, item, has, done, p) _ _ _ E)
          as [Hi [Ha|Hh]]; simpl in *.
        -- split; [exact Hi|left]. rewrite Ha. reflexivity.
        -- split; [exact Hi|right; exact Hh].
      * destruct (iflatslices (slnext f live) (S f) b q) as [[o1 [b1 q1]] ev1] eqn:E.
        inv_ret Hc.
        destruct (iflatslices_sim _ _ _ IHl (S f) (b, q) _ _ _ E) as [Hi [Ha|Hh]]; simpl in *.
        -- split; [exact Hi|left]. rewrite Ha. reflexivity.
        -- split; [exact Hi|right; exact Hh].
    + destruct s as [size chunk p|r t cur pend p]; cbn [slnext slscrub] in *.
      * destruct (schunk (snext f live) (S f) size chunk p) as [[o1 [ch1 p1]] ev1] eqn:E.
        inv_ret Hc.
        destruct (schunk_sim _ _ _ IHz (S f) size (chunk, p) _ _ _ E) as [Hi [Ha|Hh]];
          simpl in *.
        -- split; [exact Hi|left]. rewrite Ha. reflexivity.
        -- split; [exact Hi|right; exact Hh].
      * destruct (sruns (snext f live) (S f) r t cur pend p) as [[o1 [[c1 pd1] p1]] ev1] eqn:E.
        inv_ret Hc.
        destruct (sruns_sim _ _ _ IHz (S f) r t (cur, pend, p) _ _ _ E) as [Hi [Ha|Hh]];
          simpl in *.
        -- split; [exact Hi|left]. rewrite Ha. reflexivity.
        -- split; [exact Hi|right; exact Hh].
Qed.

(* ---- pipelines ---- *)
Lemma map_map_ext_F {A B C} (f : A -> B) (g : B -> C) (h : A -> C) l :
  Forall (fun x => g (f x) = h x) l -> map g (map f l) = map h l.
Proof. induction 1 as [|x t Hx Ht IH]; simpl; [reflexivity|]. rewrite Hx, IH. reflexivity. Qed.

Lemma sinit_scrub k :
  (forall p, sinit (pz_scrub k p) = scrub k (sinit p)) /\
  (forall q, slinit (pl_scrub k q) = slscrub k (slinit q)).
Proof.
  apply pipe_ind; simpl; intros; try (rewrite H; reflexivity).
  - destruct s; reflexivity.
  - f_equal. rewrite (map_map_ext_F (pz_scrub k) sinit (fun x => scrub k (sinit x)) ps H).
    rewrite map_map. reflexivity.
  - f_equal. rewrite (map_map_ext_F (pz_scrub k) sinit (fun x => scrub k (sinit x)) ps H).
    rewrite map_map. reflexivity.
Qed.

Lemma sinit_codes :
  (forall p, scodes (sinit p) = pz_codes p) /\ (forall q, slcodes (slinit q) = pl_codes q).
Proof.
  apply pipe_ind; simpl; intros; try (rewrite H; reflexivity); auto.
  - destruct s; reflexivity.
  - apply flat_map_map_in. rewrite Forall_forall in H. exact H.
  - apply flat_map_map_in. rewrite Forall_forall in H. exact H.
Qed.

Lemma no_fatal_cut k evs : no_fatal k -> no_fatal (cut_with k evs).
Proof. intros Hk. induction evs as [|[x|e|e|] t IH]; simpl; auto. Qed.

Lemma script_ok_cut k evs :
  script_ok k -> script_nopanic evs = true -> script_ok (cut_with k evs).
Proof.
  unfold script_ok, script_nopanic. intros [Hk1 Hk2]. split; [apply no_fatal_cut; exact Hk1|].
  induction evs as [|[x|e|e|] t IH]; simpl in *; auto.
Qed.

Lemma scrub_fl_ok fl : cb_panics fl = false -> fail_at (scrub_fl fl) = None.
Proof.
  unfold cb_panics, scrub_fl. destruct (fail_panic fl); [|reflexivity].
  destruct (fail_at fl); simpl; [discriminate|reflexivity].
Qed.

Lemma scrub_ok k : script_ok k ->
  (forall p, dom_z p -> no_panics_z p = true -> okz true (pz_scrub k p)) /\
  (forall q, dom_l q -> no_panics_l q = true -> okl true (pl_scrub k q)).
Proof.
  intros Hk. apply pipe_ind; simpl; intros; auto.
  - destruct s; simpl in *; auto;
      (split; [first [apply script_ok_cut; assumption|exact Hk]|discriminate]).
  - destruct (cb_ok_split _ _ H1). split; [apply scrub_fl_ok; assumption|auto].
  - induction H as [|x t Hx Ht IH]; simpl in *; [exact I|]. destruct H0.
    apply andb_true_iff in H1. destruct H1. split; auto.
  - induction H as [|x t Hx Ht IH]; simpl in *; [exact I|]. destruct H0.
    apply andb_true_iff in H1. destruct H1. split; auto.
  - destruct (cb_ok_split _ _ H1). split; [apply scrub_fl_ok; assumption|auto].
  - destruct (cb_ok_split _ _ H1). split; [apply scrub_fl_ok; assumption|auto].
  - destruct H0. split; auto.
Qed.

(* ---- runs ---- *)
Definition rscrub (k : list sevent) (s : srun_st) : srun_st :=
  match s with QZ s => QZ (scrub k s) | QL q => QL (slscrub k q) end.
Definition rcodes (s : srun_st) : list Z :=
  match s with QZ s => scodes s | QL q => slcodes q end.

(* one consumer step of an arbitrary (faulty) pipeline against its scrubbed version *)
Lemma srun_next_fatal k live s o s' ev :
  sstate_ok true (rscrub k s) -> srun_next live s = (o, s', ev) ->
  incl (rcodes s') (rcodes s) /\
  ((exists e, o = RErr e /\ In e (rcodes s)) \/
   (sstate_ok true (rscrub k s') /\
    match o with
    | RItem x => exists l', sstate_den (rscrub k s) = x :: l' /\ sstate_den (rscrub k s') = l'
    | REnd => sstate_den (rscrub k s) = [] /\ sstate_den (rscrub k s') = []
    | RErr _ => sstate_den (rscrub k s') = sstate_den (rscrub k s)
    | _ => False
    end)).
Proof.
  intros Hok Hc. destruct s as [s|q]; simpl in *.
  - destruct (sstep live s) as [[o1 s1] ev1] eqn:E. inv_ret Hc.
    pose proof (snext_fuel_enough _ _ _ _ _ E) as Hno. unfold sstep in E.
    destruct (proj1 (snext_sim k live (S (ssize s))) _ _ _ _ E) as [Hi [Ha|(e & He & Hin)]].
    + split; [exact Hi|right].
      destruct (snext_contract true live ltac:(auto) (S (ssize s))) as [Hz _].
      destruct (Hz _ _ _ _ Hok Ha) as (Hok1 & Hp & _). split; [exact Hok1|].
      destruct o1 as [x| | | |]; simpl in *.
      * exists (map IZ (sden (scrub k s1))). rewrite Hp. auto.
      * destruct Hp as (Hd & Hd' & _). rewrite Hd, Hd'. auto.
      * destruct Hp as [_ Hd]. rewrite Hd. reflexivity.
      * exact Hp.
      * congruence.
    + subst o1. split; [exact Hi|left]. exists e. auto.
  - destruct (slstep live q) as [[o1 q1] ev1] eqn:E. inv_ret Hc.
    pose proof (slnext_fuel_enough _ _ _ _ _ E) as Hno. unfold slstep in E.
    destruct (proj2 (snext_sim k live (S (slsize q))) _ _ _ _ E) as [Hi [Ha|(e & He & Hin)]].
    + split; [exact Hi|right].
      destruct (snext_contract true live ltac:(auto) (S (slsize q))) as [_ Hl].
      destruct (Hl _ _ _ _ Hok Ha) as (Hok1 & Hp & _). split; [exact Hok1|].
      destruct o1 as [x| | | |]; simpl in *.
      * exists (map IL (slden (slscrub k q1))). rewrite Hp. auto.
      * destruct Hp as (Hd & Hd' & _). rewrite Hd, Hd'. auto.
      * destruct Hp as [_ Hd]. rewrite Hd. reflexivity.
      * exact Hp.
      * congruence.
    + subst o1. split; [exact Hi|left]. exists e. auto.
Qed.

Lemma srun_steps_until ids k C : forall lives s log,
  sstate_ok true (rscrub k s) -> incl (rcodes s) C ->
  legal_until C (sstate_den (rscrub k s))
              (map so_res (fst (srun_steps ids s log (map CNext lives)))).
Proof.
  induction lives as [|b lives IH]; intros s log Hok HC; simpl; [exact I|].
  destruct (srun_next b s) as [[o s1] ev1] eqn:E.
  destruct (srun_next_fatal k b s o s1 ev1 Hok E) as [Hi [(e & He & Hin)|[Hok1 Hp]]].
  - subst o. simpl.
    destruct (srun_steps ids s1 (log ++ ev1) (map CNext lives)) as [r l]. simpl.
    left. apply HC. exact Hin.
  - assert (HC1 : incl (rcodes s1) C) by (intros x Hx; apply HC; apply Hi; exact Hx).
    specialize (IH s1 (log ++ ev1) Hok1 HC1).
    destruct o as [x| |e| | | |]; try (destruct Hp; fail); simpl;
      destruct (srun_steps ids s1 (log ++ ev1) (map CNext lives)) as [r l]; simpl in *.
    + destruct Hp as (l' & Hd & Hd'). rewrite Hd. split; [reflexivity|]. rewrite <- Hd'. exact IH.
    + destruct Hp as [Hd Hd']. rewrite Hd. split; [reflexivity|]. rewrite <- Hd'. exact IH.
    + right. rewrite <- Hp. exact IH.
Qed.

Lemma rscrub_init k p : rscrub k (srun_init p) = srun_init (pipe_scrub k p).
Proof.
  destruct p as [p|q]; simpl; [rewrite (proj1 (sinit_scrub k))|rewrite (proj2 (sinit_scrub k))];
    reflexivity.
Qed.
Lemma rcodes_init p : rcodes (srun_init p) = pipe_codes p.
Proof. destruct p as [p|q]; simpl; [apply (proj1 sinit_codes)|apply (proj2 sinit_codes)]. Qed.

(* C08, fatal half, for any number of Next calls with any contexts on ANY pipeline in the
   documented domain in which nothing panics (fatal and transient source errors, callbacks that
   return errors; the continuation k has no fatal error and no panic): until the first
   error whose code is one of the pipeline's fault codes, the results are a legal trace of the
   denotation of the pipeline in which every failing source continues with k - for every k. *)
Theorem stream_steps_fatal cfg p lives k :
  dom p -> no_panics p = true -> script_ok k ->
  legal_until (pipe_codes p) (den (pipe_scrub k p))
              (results (run_stream_cfg cfg p (Steps (map CNext lives)))).
Proof.
  intros Hd Hnp Hk. unfold results, run_stream_cfg.
  destruct (srun_steps (sort_ids (pipe_ids p)) (srun_init p) [] (map CNext lives))
    as [steps log] eqn:E. simpl.
  assert (Hok : sstate_ok true (rscrub k (srun_init p))).
  { rewrite rscrub_init. apply srun_init_ok.
    destruct p as [p|q]; simpl in *;
      [apply (proj1 (scrub_ok k Hk))|apply (proj2 (scrub_ok k Hk))]; assumption. }
  pose proof (srun_steps_until (sort_ids (pipe_ids p)) k (pipe_codes p) lives (srun_init p) []
                Hok ltac:(rewrite rcodes_init; apply incl_refl)) as H.
  rewrite E in H. simpl in H. rewrite rscrub_init, srun_init_den in H. exact H.
Qed.
