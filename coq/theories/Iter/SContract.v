(* Generic correctness lemmas of the stream combinators (StreamModel.v, section Combinators)
   against the contract of Contract.v, for callbacks that never fail.  [ae] = true allows the
   inner stream to fail (transient error, expired context); a failed call then leaves the
   denotation unchanged - this is the "a failed Next costs nothing" half of C08. *)
From Juniper Require Import Common.Base Iter.Syntax Iter.ModelBase Iter.IterModel
  Iter.StreamModel Iter.Spec Iter.Contract.

Lemma fails_never fl calls : fail_at fl = None -> fails_now fl calls = false.
Proof. unfold fails_now. intros H; rewrite H. reflexivity. Qed.

Section GenericStream.
  Context {St : Type} (ae : bool) (nx : St -> ret Z St) (cl : St -> list sev).
  Variables (den : St -> list Z) (fin ok : St -> Prop).
  Hypothesis Hnx : contract ae nx den fin ok.

  (* Filter *)
  Lemma sfilter_ok n keep fl : fail_at fl = None ->
    contract ae (fun w => sfilter nx n keep fl (fst w) (snd w))
             (fun w => filter (pred_eval keep) (den (snd w)))
             (fun w => fin (snd w)) (fun w => ok (snd w)).
  Proof.
    intros Hfl. unfold contract.
    induction n as [|n IH]; intros [calls s] o w' ev Hok Hc; simpl in *.
    - inv_ret Hc. simpl. auto.
    - destruct (nx s) as [[o1 s1] ev1] eqn:E.
      destruct (Hnx _ _ _ _ Hok E) as (Hok1 & Hp & Hf).
      destruct o1 as [x| | | |]; simpl in Hp.
      + assert (Hnf : fin s -> False) by (intros Hfin; destruct (Hf Hfin) as [_ []]).
        rewrite (fails_never fl calls Hfl) in Hc.
        destruct (pred_eval keep x) eqn:Ek.
        * inv_ret Hc. simpl. rewrite Hp. simpl. rewrite Ek.
          split; [exact Hok1|]. split; [reflexivity|]. intros Hfin; destruct (Hnf Hfin).
        * destruct (sfilter nx n keep fl (S calls) s1) as [[o2 w2] ev2] eqn:E2.
          simpl in Hc. inv_ret Hc.
          destruct (IH (S calls, s1) _ _ _ Hok1 E2) as (Hok2 & Hp2 & Hf2).
          split; [exact Hok2|]. split; [|intros Hfin; destruct (Hnf Hfin)].
          apply (post_shift ae (fun w : nat * St => filter (pred_eval keep) (den (snd w)))
                            _ (calls, s) (S calls, s1)); [|exact Hp2].
          simpl. rewrite Hp. simpl. rewrite Ek. reflexivity.
      + inv_ret Hc. simpl. destruct Hp as (Hd & Hd' & Hfin). rewrite Hd, Hd'.
        split; [exact Hok1|]. split; auto.
      + inv_ret Hc. simpl. destruct Hp as [Hae Hd]. rewrite Hd.
        split; [exact Hok1|]. split; [auto|]. intros Hfin; destruct (Hf Hfin); auto.
      + destruct Hp.
      + inv_ret Hc. simpl. split; [exact Hok1|]. split; [auto|].
        intros Hfin; destruct (Hf Hfin); auto.
  Qed.

  (* Map *)
  Lemma smap_ok f fl : fail_at fl = None ->
    contract ae (fun w => smap nx f fl (fst w) (snd w))
             (fun w => map (fn_eval f) (den (snd w)))
             (fun w => fin (snd w)) (fun w => ok (snd w)).
  Proof.
    intros Hfl. unfold contract, smap. intros [calls s] o w' ev Hok Hc. simpl in *.
    destruct (nx s) as [[o1 s1] ev1] eqn:E.
    destruct (Hnx _ _ _ _ Hok E) as (Hok1 & Hp & Hf).
    destruct o1 as [x| | | |]; simpl in Hp.
    - rewrite (fails_never fl calls Hfl) in Hc. inv_ret Hc. simpl.
      rewrite Hp. split; [exact Hok1|]. split; [reflexivity|].
      intros Hfin; destruct (Hf Hfin) as [_ []].
    - inv_ret Hc. simpl. destruct Hp as (Hd & Hd' & Hfin). rewrite Hd, Hd'.
      split; [exact Hok1|]. split; auto.
    - inv_ret Hc. simpl. destruct Hp as [Hae Hd]. rewrite Hd. split; [exact Hok1|].
      split; [auto|]. intros Hfin; destruct (Hf Hfin); auto.
    - destruct Hp.
    - inv_ret Hc. simpl. split; [exact Hok1|]. split; [auto|].
      intros Hfin; destruct (Hf Hfin); auto.
  Qed.

  (* First: x is decremented only on success, so failures are harmless *)
  Lemma sfirst_ok :
    contract ae (fun w => sfirst nx (fst w) (snd w)) (fden den) (ffin fin) (fun w => ok (snd w)).
  Proof.
    unfold contract, sfirst, fden, ffin. intros [x s] o w' ev Hok Hc.
    simpl in *. destruct (x <=? 0) eqn:Ex.
    - apply Z.leb_le in Ex. inv_ret Hc. simpl.
      replace (Z.to_nat x) with O by lia. simpl. split; [exact Hok|]. split; auto.
    - apply Z.leb_gt in Ex.
      destruct (nx s) as [[o1 s1] ev1] eqn:E.
      destruct (Hnx _ _ _ _ Hok E) as (Hok1 & Hp & Hf).
      destruct o1 as [y| | | |]; simpl in Hp; inv_ret Hc; simpl.
      + rewrite Hp. rewrite (to_nat_pos x Ex). split; [exact Hok1|]. split; [reflexivity|].
        intros [Hx|Hfin]; [lia|]. destruct (Hf Hfin) as [_ []].
      + destruct Hp as (Hd & Hd' & Hfin). rewrite Hd, Hd', !firstn_nil.
        split; [exact Hok1|]. split; auto.
      + destruct Hp as [Hae Hd]. rewrite Hd. split; [exact Hok1|]. split; [auto|].
        intros [Hx|Hfin]; [lia|]. destruct (Hf Hfin); auto.
      + destruct Hp.
      + split; [exact Hok1|]. split; [auto|].
        intros [Hx|Hfin]; [lia|]. destruct (Hf Hfin); auto.
  Qed.

  (* While; state (calls, item, has, done, inner) *)
  Definition swden (f : pred) (w : nat * Z * bool * bool * St) : list Z :=
    let '(_, item, has, done, s) := w in
    if done then [] else takewhile (pred_eval f) ((if has then [item] else []) ++ den s).
  Definition swfin (w : nat * Z * bool * bool * St) : Prop :=
    let '(_, _, has, done, s) := w in done = true \/ (has = false /\ fin s).
  Definition swok (w : nat * Z * bool * bool * St) : Prop := ok (snd w).

  Lemma swhile_ok f fl : fail_at fl = None ->
    contract ae (fun w => let '(calls, item, has, done, s) := w in
                          swhile nx f fl calls item has done s)
             (swden f) swfin swok.
  Proof.
    intros Hfl. unfold contract, swhile, swden, swfin, swok.
    intros [[[[calls item] has] done] s] o w' ev Hok Hc. simpl in *.
    destruct done.
    - inv_ret Hc. simpl. split; [exact Hok|]. split; auto.
    - destruct has.
      + rewrite (fails_never fl calls Hfl) in Hc.
        destruct (pred_eval f item) eqn:Ef; inv_ret Hc; simpl; rewrite Ef.
        * split; [exact Hok|]. split; [reflexivity|].
          intros [Hd|[Hh _]]; discriminate.
        * split; [exact Hok|]. split; [auto|]. auto.
      + destruct (nx s) as [[o1 s1] ev1] eqn:E.
        destruct (Hnx _ _ _ _ Hok E) as (Hok1 & Hp & Hf).
        destruct o1 as [x| | | |]; simpl in Hp.
        * rewrite (fails_never fl calls Hfl) in Hc.
          assert (Hnf : false = true \/ false = false /\ fin s -> False).
          { intros [Hx|[_ Hfin]]; [discriminate|]. destruct (Hf Hfin) as [_ []]. }
          destruct (pred_eval f x) eqn:Ef; inv_ret Hc; simpl; rewrite Hp; simpl; rewrite Ef.
          -- split; [exact Hok1|]. split; [reflexivity|]. intros Hx; destruct (Hnf Hx).
          -- split; [exact Hok1|]. split; [auto|]. auto.
        * inv_ret Hc. simpl. destruct Hp as (Hd & Hd' & Hfin). rewrite Hd, Hd'.
          split; [exact Hok1|]. split; auto.
        * inv_ret Hc. simpl. destruct Hp as [Hae Hd]. rewrite Hd.
          split; [exact Hok1|]. split; [auto|].
          intros [Hx|[_ Hfin]]; [discriminate|]. destruct (Hf Hfin); auto.
        * destruct Hp.
        * inv_ret Hc. simpl. split; [exact Hok1|]. split; [auto|].
          intros [Hx|[_ Hfin]]; [discriminate|]. destruct (Hf Hfin); auto.
  Qed.
End GenericStream.

Section GenericStream2.
  Context {St : Type} (ae : bool) (nx : St -> ret Z St) (cl : St -> list sev).
  Variables (den : St -> list Z) (fin ok : St -> Prop).
  Hypothesis Hnx : contract ae nx den fin ok.

  (* Flatten: with an expired context the outer stream answers the context error *)
  Lemma sflatten_ok n live : (live = false -> ae = true) ->
    contract ae (fun w => sflatten nx cl n live (fst w) (snd w))
             (flden den) flfin (flok ok).
  Proof.
    intros Hlive. unfold contract, flden, flfin, flok.
    induction n as [|n IH]; intros [rest curr] o w' ev Hok Hc; simpl in *.
    - inv_ret Hc. simpl. auto.
    - destruct Hok as [Hokr Hokc]. destruct curr as [c|].
      + destruct (nx c) as [[o1 c1] ev1] eqn:E.
        destruct (Hnx _ _ _ _ Hokc E) as (Hok1 & Hp & Hf).
        assert (Hnf : rest = [] /\ Some c = None -> False) by (intros [_ Hx]; discriminate).
        destruct o1 as [x| | | |]; simpl in Hp.
        * inv_ret Hc. simpl. rewrite Hp. split; [auto|]. split; [reflexivity|].
          intros Hx; destruct (Hnf Hx).
        * destruct (sflatten nx cl n live rest None) as [[o2 w2] ev2] eqn:E2.
          simpl in Hc. inv_ret Hc.
          destruct (IH (rest, None) _ _ _ (conj Hokr I) E2) as (Hok2 & Hp2 & Hf2).
          split; [exact Hok2|]. split; [|intros Hx; destruct (Hnf Hx)].
          apply (post_shift ae (flden den) _ (rest, Some c) (rest, None)); [|exact Hp2].
          unfold flden; simpl. destruct Hp as (Hd & _). rewrite Hd. reflexivity.
        * inv_ret Hc. simpl. destruct Hp as [Hae Hd]. rewrite Hd.
          split; [auto|]. split; [auto|]. intros Hx; destruct (Hnf Hx).
        * destruct Hp.
        * inv_ret Hc. simpl. split; [auto|]. split; [auto|]. intros Hx; destruct (Hnf Hx).
      + destruct live; simpl in Hc.
        * destruct rest as [|c rest'].
          -- inv_ret Hc. simpl. split; [auto|]. split; auto.
          -- inversion Hokr as [|c0 r0 Hc0 Hr0]; subst.
             destruct (IH (rest', Some c) _ _ _ (conj Hr0 Hc0) Hc) as (Hok2 & Hp2 & Hf2).
             split; [exact Hok2|]. split; [|intros [Hx _]; discriminate].
             apply (post_shift ae (flden den) _ (c :: rest', None) (rest', Some c));
               [|exact Hp2].
             reflexivity.
        * inv_ret Hc. simpl. split; [auto|]. split; [auto|]. intros Hx. split; [exact Hx|auto].
  Qed.

  (* Join *)
  Lemma sjoin_ok n : contract ae (sjoin nx cl n) (jden den) jfin (Forall ok).
  Proof.
    unfold contract, jden, jfin.
    induction n as [|n IH]; intros its o its' ev Hok Hc; simpl in *.
    - inv_ret Hc. simpl. auto.
    - destruct its as [|c tl].
      + inv_ret Hc. simpl. auto.
      + inversion Hok as [|c0 r0 Hc0 Hr0]; subst.
        destruct (nx c) as [[o1 c1] ev1] eqn:E.
        destruct (Hnx _ _ _ _ Hc0 E) as (Hok1 & Hp & Hf).
        assert (Hnf : c :: tl = [] -> False) by discriminate.
        destruct o1 as [x| | | |]; simpl in Hp.
        * inv_ret Hc. simpl. rewrite Hp. split; [auto|]. split; [reflexivity|].
          intros Hx; destruct (Hnf Hx).
        * destruct (sjoin nx cl n tl) as [[o2 w2] ev2] eqn:E2. simpl in Hc. inv_ret Hc.
          destruct (IH _ _ _ _ Hr0 E2) as (Hok2 & Hp2 & Hf2).
          split; [exact Hok2|]. split; [|intros Hx; destruct (Hnf Hx)].
          apply (post_shift ae (jden den) _ (c :: tl) tl); [|exact Hp2].
          unfold jden; simpl. destruct Hp as (Hd & _). rewrite Hd. reflexivity.
        * inv_ret Hc. simpl. destruct Hp as [Hae Hd]. rewrite Hd.
          split; [auto|]. split; [auto|]. intros Hx; destruct (Hnf Hx).
        * destruct Hp.
        * inv_ret Hc. simpl. split; [auto|]. split; [auto|]. intros Hx; destruct (Hnf Hx).
  Qed.

  (* Chunk: the partial chunk survives a failed call *)
  Definition scden (size : Z) (w : list Z * St) : list (list Z) :=
    chunk_acc size (fst w) (den (snd w)).
  Definition scfin (w : list Z * St) : Prop := fst w = [] /\ fin (snd w).

  Lemma schunk_ok n size : 0 <= size ->
    contract ae (fun w => schunk nx n size (fst w) (snd w)) (scden size) scfin
             (fun w => ok (snd w)).
  Proof.
    intros Hsz. unfold contract, scden, scfin.
    induction n as [|n IH]; intros [chunk s] o w' ev Hok Hc; simpl in *.
    - inv_ret Hc. simpl. auto.
    - destruct (nx s) as [[o1 s1] ev1] eqn:E.
      destruct (Hnx _ _ _ _ Hok E) as (Hok1 & Hp & Hf).
      destruct o1 as [x| | | |]; simpl in Hp.
      + assert (Hnf : chunk = [] /\ fin s -> False).
        { intros [_ Hfin]; destruct (Hf Hfin) as [_ []]. }
        destruct (zlen (chunk ++ [x]) =? size) eqn:Ez.
        * inv_ret Hc. simpl. rewrite Hp. simpl. rewrite Ez.
          split; [exact Hok1|]. split; [reflexivity|]. intros Hx; destruct (Hnf Hx).
        * destruct (schunk nx n size (chunk ++ [x]) s1) as [[o2 w2] ev2] eqn:E2.
          simpl in Hc. inv_ret Hc.
          destruct (IH (chunk ++ [x], s1) _ _ _ Hok1 E2) as (Hok2 & Hp2 & Hf2).
          split; [exact Hok2|]. split; [|intros Hx; destruct (Hnf Hx)].
          apply (post_shift ae (scden size) _ (chunk, s) (chunk ++ [x], s1)); [|exact Hp2].
          unfold scden; simpl. rewrite Hp. simpl. rewrite Ez. reflexivity.
      + destruct Hp as (Hd & Hd' & Hfin).
        destruct (0 <? zlen chunk) eqn:Ez.
        * destruct (size <? 0) eqn:Es; [apply Z.ltb_lt in Es; lia|].
          inv_ret Hc. simpl. rewrite Hd, Hd'. simpl.
          split; [exact Hok1|]. split.
          -- destruct chunk; [discriminate Ez|reflexivity].
          -- intros [Hc0 _]. subst chunk. discriminate Ez.
        * inv_ret Hc. simpl. rewrite Hd, Hd'. simpl.
          assert (Hch : chunk = []).
          { destruct chunk as [|c0 ch]; [reflexivity|].
            rewrite zlen_cons in Ez. apply Z.ltb_ge in Ez. pose proof (zlen_nonneg ch). lia. }
          subst chunk. split; [exact Hok1|]. split; auto.
      + inv_ret Hc. simpl. destruct Hp as [Hae Hd]. rewrite Hd.
        split; [exact Hok1|]. split; [auto|].
        intros [Hc0 Hfin]. destruct (Hf Hfin); auto.
      + destruct Hp.
      + inv_ret Hc. simpl. split; [exact Hok1|]. split; [auto|].
        intros [Hc0 Hfin]. destruct (Hf Hfin); auto.
  Qed.
End GenericStream2.

(* Runs with the retrying consumer *)
Lemma takewhile_nil_dropwhile {A} (f : A -> bool) l : takewhile f l = [] -> dropwhile f l = l.
Proof. destruct l as [|x t]; simpl; [reflexivity|]. destruct (f x); [discriminate|reflexivity]. Qed.

(* what a run will finally be reported as: the items already taken plus what is still taken *)
Definition take_more (k : option nat) (acc tw : list Z) : list Z :=
  match k with
  | Some k => acc ++ firstn (k - length acc) tw
  | None => acc ++ tw
  end.

Definition take_stop (k : option nat) (acc : list Z) : bool :=
  match k with Some k => (k <=? length acc)%nat | None => false end.

Lemma take_more_stop k acc tw : take_stop k acc = true -> take_more k acc tw = acc.
Proof.
  destruct k as [k|]; simpl; [|discriminate]. intros H. apply Nat.leb_le in H.
  replace (k - length acc)%nat with O by lia. simpl. apply app_nil_r.
Qed.

Lemma take_more_nil k acc : take_more k acc [] = acc.
Proof. destruct k; simpl; [rewrite firstn_nil|]; apply app_nil_r. Qed.

Lemma take_more_step k acc x tw :
  take_stop k acc = false -> take_more k (acc ++ [x]) tw = take_more k acc (x :: tw).
Proof.
  destruct k as [k|]; simpl; intros H.
  - apply Nat.leb_gt in H. rewrite app_length. simpl.
    replace (k - length acc)%nat with (S (k - (length acc + 1))) by lia.
    simpl. rewrite <- app_assoc. reflexivity.
  - rewrite <- app_assoc. reflexivity.
Qed.

Lemma take_more_fresh k tw : take_more k [] tw = take_opt k tw.
Proof. destruct k; simpl; [rewrite Nat.sub_0_r|]; reflexivity. Qed.

Section GenericStreamRuns.
  Context {St : Type} (ae : bool) (nx : St -> ret Z St).
  Variables (den : St -> list Z) (fin ok : St -> Prop).
  Hypothesis Hnx : contract ae nx den fin ok.
  Variable r : rel.
  Notation same := (rel_eval r).
  Notation pkd := (pkden den).
  Notation pkf := (pkfin fin).
  Notation pko := (pkok ok).

  Lemma sruns_inner_ok prev p o p' ev :
    pko p -> sruns_inner nx r prev p = (o, p', ev) ->
    pko p' /\ (pkf p -> pkf p' /\ quiet ae o) /\
    match o with
    | Item x => same prev x = true /\ pkd p = x :: pkd p'
    | End => pkd p' = pkd p /\ takewhile (same prev) (pkd p) = []
    | Err _ => ae = true /\ pkd p' = pkd p
    | Pan => False
    | Out => True
    end.
  Proof.
    intros Hok Hc. unfold sruns_inner in Hc.
    destruct (ipk_peek nx p) as [[o1 p1] ev1] eqn:E1.
    destruct (ipk_peek_ok ae nx den fin ok Hnx _ _ _ _ Hok E1) as (Hok1 & Hf1 & Hp1).
    destruct o1 as [x| | | |].
    - destruct Hp1 as (Hd1 & Hh1 & Hc1).
      assert (Hx : pkd p1 = x :: den (pk_in p1)).
      { unfold pkden. rewrite Hh1, Hc1. reflexivity. }
      destruct (same prev x) eqn:Es.
      + destruct p1 as [has1 curr1 s1]. simpl in Hh1, Hc1. subst has1 curr1.
        unfold ipk_next in Hc. simpl in Hc. inv_ret Hc. simpl.
        split; [exact Hok1|]. split.
        * intros Hfin. destruct (Hf1 Hfin) as [_ []].
        * split; [exact Es|]. rewrite <- Hd1. exact Hx.
      + inv_ret Hc. simpl. split; [exact Hok1|]. split.
        * intros Hfin. destruct (Hf1 Hfin) as [_ []].
        * split; [exact Hd1|]. rewrite <- Hd1, Hx. simpl. rewrite Es. reflexivity.
    - inv_ret Hc. simpl. destruct Hp1 as (Hd & Hd' & Hfin').
      split; [exact Hok1|]. split; [auto|]. rewrite Hd, Hd'. auto.
    - inv_ret Hc. simpl. split; [exact Hok1|]. split; [exact Hf1|exact Hp1].
    - destruct Hp1.
    - inv_ret Hc. simpl. split; [exact Hok1|]. split; [exact Hf1|exact I].
  Qed.

  Lemma sruns_drain_ok n prev : forall p o p' ev,
    pko p -> sruns_drain nx n r prev p = (o, p', ev) ->
    pko p' /\ (pkf p -> pkf p' /\ quiet ae o) /\
    match o with
    | Item _ => False
    | End => pkd p' = dropwhile (same prev) (pkd p)
    | Err _ => ae = true /\ dropwhile (same prev) (pkd p') = dropwhile (same prev) (pkd p)
    | Pan => False
    | Out => True
    end.
  Proof.
    induction n as [|n IH]; intros p o p' ev Hok Hc; simpl in Hc.
    - inv_ret Hc. simpl. auto.
    - destruct (sruns_inner nx r prev p) as [[o1 p1] ev1] eqn:E1.
      destruct (sruns_inner_ok _ _ _ _ _ Hok E1) as (Hok1 & Hf1 & Hp1).
      destruct o1 as [x| | | |].
      + destruct (sruns_drain nx n r prev p1) as [[o2 p2] ev2] eqn:E2.
        simpl in Hc. inv_ret Hc.
        destruct (IH _ _ _ _ Hok1 E2) as (Hok2 & Hf2 & Hp2).
        destruct Hp1 as [Hs Hd]. split; [exact Hok2|]. split.
        * intros Hfin. destruct (Hf1 Hfin) as [_ []].
        * rewrite Hd. simpl. rewrite Hs. exact Hp2.
      + inv_ret Hc. simpl. destruct Hp1 as [Hd Htw].
        split; [exact Hok1|]. split; [exact Hf1|].
        rewrite Hd. symmetry. apply takewhile_nil_dropwhile. exact Htw.
      + inv_ret Hc. simpl. destruct Hp1 as [Ha Hd].
        split; [exact Hok1|]. split; [exact Hf1|]. rewrite Hd. auto.
      + destruct Hp1.
      + inv_ret Hc. simpl. split; [exact Hok1|]. split; [exact Hf1|exact I].
  Qed.

  Lemma sruns_take_ok n k prev : forall acc p o acc' p' ev,
    pko p -> sruns_take nx n r k acc prev p = (o, (acc', p'), ev) ->
    pko p' /\
    match o with
    | Item l => l = take_more k acc (takewhile (same prev) (pkd p)) /\
                dropwhile (same prev) (pkd p') = dropwhile (same prev) (pkd p)
    | End => False
    | Err _ => ae = true /\
               take_more k acc' (takewhile (same prev) (pkd p'))
               = take_more k acc (takewhile (same prev) (pkd p)) /\
               dropwhile (same prev) (pkd p') = dropwhile (same prev) (pkd p)
    | Pan => False
    | Out => True
    end.
  Proof.
    induction n as [|n IH]; intros acc p o acc' p' ev Hok Hc; simpl in Hc.
    - inv_ret Hc. auto.
    - fold (take_stop k acc) in Hc. destruct (take_stop k acc) eqn:Est.
      + inv_ret Hc. split; [exact Hok|]. rewrite (take_more_stop _ _ _ Est). auto.
      + destruct (sruns_inner nx r prev p) as [[o1 p1] ev1] eqn:E1.
        destruct (sruns_inner_ok _ _ _ _ _ Hok E1) as (Hok1 & Hf1 & Hp1).
        destruct o1 as [x| | | |].
        * destruct (sruns_take nx n r k (acc ++ [x]) prev p1) as [[o2 [acc2 p2]] ev2] eqn:E2.
          simpl in Hc. inv_ret Hc.
          destruct (IH _ _ _ _ _ _ Hok1 E2) as (Hok2 & Hp2).
          destruct Hp1 as [Hs Hd]. split; [exact Hok2|].
          rewrite Hd. simpl. rewrite Hs. rewrite <- (take_more_step k acc x _ Est).
          exact Hp2.
        * inv_ret Hc. destruct Hp1 as [Hd Htw]. split; [exact Hok1|].
          rewrite Htw, take_more_nil, Hd. auto.
        * inv_ret Hc. simpl. destruct Hp1 as [Ha Hd]. split; [exact Hok1|].
          rewrite Hd. auto.
        * destruct Hp1.
        * inv_ret Hc. simpl. auto.
  Qed.

  Definition srden (k : option nat) (w : option Z * option (list Z) * pk St) : list (list Z) :=
    let '(cur, pend, p) := w in
    match pend, cur with
    | Some acc, Some prev =>
        take_more k acc (takewhile (same prev) (pkd p))
        :: map (take_opt k) (spec_runs same (dropwhile (same prev) (pkd p)))
    | _, _ =>
        map (take_opt k)
            (spec_runs same
               (match cur with Some prev => dropwhile (same prev) (pkd p) | None => pkd p end))
    end.
  Definition srfin (w : option Z * option (list Z) * pk St) : Prop :=
    snd (fst w) = None /\ pkf (snd w).
  Definition srok (w : option Z * option (list Z) * pk St) : Prop := pko (snd w).

  (* the part of sruns that takes from the run started by x *)
  Lemma sruns_takepart n k x acc p2 ev0 o w' ev :
    pko p2 ->
    (let '(o3, (acc3, p3), ev3) := sruns_take nx n r k acc x p2 in
     match o3 with
     | Item l => (Item l, (Some x, None, p3), ev0 ++ ev3)
     | _ => (pass o3, (Some x, Some acc3, p3), ev0 ++ ev3)
     end) = (o, w', ev) ->
    srok w' /\ post ae (srden k) srfin (Some x, Some acc, p2) o w'.
  Proof.
    intros Hok Hc.
    destruct (sruns_take nx n r k acc x p2) as [[o3 [acc3 p3]] ev3] eqn:E3.
    destruct (sruns_take_ok _ _ _ _ _ _ _ _ _ Hok E3) as (Hok3 & Hp3).
    destruct o3 as [l| | | |]; try (destruct Hp3; fail).
    - inv_ret Hc. split; [exact Hok3|]. simpl. destruct Hp3 as [Hl Hd].
      rewrite Hl, Hd. reflexivity.
    - inv_ret Hc. split; [exact Hok3|]. simpl. destruct Hp3 as (Ha & Ht & Hd).
      split; [exact Ha|]. rewrite Ht, Hd. reflexivity.
    - inv_ret Hc. split; [exact Hok3|]. exact I.
  Qed.

  Lemma sruns_ok n k :
    contract ae (fun w => let '(cur, pend, p) := w in sruns nx n r k cur pend p)
             (srden k) srfin srok.
  Proof.
    unfold contract. intros [[cur pend] p] o w' ev Hok Hc. unfold srok in Hok. simpl in Hok.
    assert (Hmain :
      (let '(o1, p1, ev1) :=
         match cur with
         | Some prev => sruns_drain nx n r prev p
         | None => (End, p, [])
         end in
       match o1 with
       | End =>
           let '(o2, p2, ev2) := ipk_peek nx p1 in
           match o2 with
           | Item x =>
               let '(o3, (acc3, p3), ev3) := sruns_take nx n r k [] x p2 in
               match o3 with
               | Item l => (Item l, (Some x, None, p3), (ev1 ++ ev2) ++ ev3)
               | _ => (pass o3, (Some x, Some acc3, p3), (ev1 ++ ev2) ++ ev3)
               end
           | _ => (pass o2, (None, None, p2), ev1 ++ ev2)
           end
       | _ => (pass o1, (cur, None, p1), ev1)
       end) = (o, w', ev) ->
      srok w' /\ post ae (srden k) srfin (cur, None, p) o w' /\
      (pkf p -> srfin w' /\ quiet ae o)).
    { clear Hc. intros Hc.
      assert (Hdr : exists o1 p1 ev1,
                 match cur with
                 | Some prev => sruns_drain nx n r prev p
                 | None => (End, p, [])
                 end = (o1 : res unit, p1, ev1) /\
                 pko p1 /\ (pkf p -> pkf p1 /\ quiet ae o1) /\
                 match o1 with
                 | Item _ => False
                 | End => srden k (None, None, p1) = srden k (cur, None, p)
                 | Err _ => ae = true /\ srden k (cur, None, p1) = srden k (cur, None, p)
                 | Pan => False
                 | Out => True
                 end).
      { destruct cur as [prev|].
        - destruct (sruns_drain nx n r prev p) as [[o1 p1] ev1] eqn:E1.
          destruct (sruns_drain_ok _ _ _ _ _ _ Hok E1) as (Hok1 & Hf1 & Hp1).
          exists o1, p1, ev1. split; [reflexivity|]. split; [exact Hok1|]. split; [exact Hf1|].
          destruct o1; auto.
          + simpl. rewrite Hp1. reflexivity.
          + destruct Hp1 as [Ha Hd]. split; [exact Ha|]. simpl. rewrite Hd. reflexivity.
        - exists End, p, []. split; [reflexivity|]. split; [exact Hok|]. simpl. auto. }
      destruct Hdr as (o1 & p1 & ev1 & Hdr & Hok1 & Hf1 & Hp1). rewrite Hdr in Hc. clear Hdr.
      destruct o1 as [u| | | |]; try (destruct Hp1; fail).
      - destruct (ipk_peek nx p1) as [[o2 p2] ev2] eqn:E2.
        destruct (ipk_peek_ok ae nx den fin ok Hnx _ _ _ _ Hok1 E2) as (Hok2 & Hf2 & Hp2).
        assert (Hsh : forall o w', post ae (srden k) srfin (None, None, p1) o w' ->
                                   post ae (srden k) srfin (cur, None, p) o w').
        { intros o0 w0. apply post_shift. symmetry. exact Hp1. }
        destruct o2 as [x| | | |].
        + destruct Hp2 as (Hd2 & Hh2 & Hc2).
          assert (Hx : pkd p2 = x :: den (pk_in p2)).
          { unfold pkden. rewrite Hh2, Hc2. reflexivity. }
          destruct (sruns_takepart n k x [] p2 (ev1 ++ ev2) o w' ev Hok2 Hc) as [Hokw Hpw].
          split; [exact Hokw|]. split.
          * apply Hsh.
            apply (post_shift ae (srden k) _ (None, None, p1) (Some x, Some [], p2));
              [|exact Hpw].
            simpl. rewrite <- Hd2, Hx, spec_runs_cons. simpl. rewrite rel_refl.
            rewrite take_more_fresh. reflexivity.
          * intros Hfin. destruct (Hf1 Hfin) as [Hfin1 _]. destruct (Hf2 Hfin1) as [_ []].
        + inv_ret Hc. destruct Hp2 as (Hd & Hd' & Hfin2).
          split; [exact Hok2|]. split.
          * apply (Hsh End (None, None, p2)). simpl. rewrite Hd, Hd'. simpl.
            split; [reflexivity|]. split; [reflexivity|]. split; [reflexivity|exact Hfin2].
          * intros _. split; [split; [reflexivity|exact Hfin2]|exact I].
        + inv_ret Hc. destruct Hp2 as [Ha Hd]. split; [exact Hok2|]. split.
          * apply (Hsh (Err e) (None, None, p2)). simpl. rewrite Hd. auto.
          * intros Hfin. destruct (Hf1 Hfin) as [Hfin1 _]. destruct (Hf2 Hfin1) as [Hfin2 Hq].
            split; [split; [reflexivity|exact Hfin2]|exact Hq].
        + destruct Hp2.
        + inv_ret Hc. split; [exact Hok2|]. split; [exact I|].
          intros Hfin. destruct (Hf1 Hfin) as [Hfin1 _]. destruct (Hf2 Hfin1) as [Hfin2 Hq].
          split; [split; [reflexivity|exact Hfin2]|exact I].
      - inv_ret Hc. destruct Hp1 as [Ha Hd]. split; [exact Hok1|]. split.
        + simpl. split; [exact Ha|exact Hd].
        + intros Hfin. destruct (Hf1 Hfin) as [Hfin1 Hq].
          split; [split; [reflexivity|exact Hfin1]|exact Hq].
      - inv_ret Hc. split; [exact Hok1|]. split; [exact I|].
        intros Hfin. destruct (Hf1 Hfin) as [Hfin1 Hq].
        split; [split; [reflexivity|exact Hfin1]|exact I]. }
    unfold sruns in Hc.
    destruct pend as [acc|]; [destruct cur as [prev|]|].
    - (* in the middle of a run *)
      destruct (sruns_takepart n k prev acc p [] o w' ev Hok Hc) as [Hokw Hpw].
      split; [exact Hokw|]. split; [exact Hpw|]. intros [Hx _]. discriminate Hx.
    - (* pend without a current run: behaves like pend = None *)
      destruct (Hmain Hc) as (H1 & H2 & H3). split; [exact H1|]. split.
      + apply (post_shift ae (srden k) _ (None, Some acc, p) (None, None, p));
          [reflexivity|exact H2].
      + intros [Hx _]. discriminate Hx.
    - destruct (Hmain Hc) as (H1 & H2 & H3). split; [exact H1|]. split; [exact H2|].
      intros [_ Hfin]. exact (H3 Hfin).
  Qed.
End GenericStreamRuns.
