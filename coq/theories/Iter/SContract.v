(* Generic correctness lemmas of the stream combinators (StreamModel.v, section Combinators)
   against the contract of Contract.v, for callbacks that never fail.  [ae] = true allows the
   inner stream to fail (transient error, expired context); a failed call then leaves the
   denotation unchanged - this is the "a failed Next costs nothing" half of C08. *)
From Juniper Require Import Common.Base Iter.Syntax Iter.ModelBase Iter.IterModel
  Iter.StreamModel Iter.Spec Iter.Contract.

Lemma fails_never fl calls : fail_at fl = None -> fails_now fl calls = false.
Proof. unfold fails_now. intros H; rewrite H. reflexivity. Qed.

Section GenericStream.
  Context {St : Type} (ae : bool) (nx : St -> ret Z St) (cl : St -> list sev).
  Variables (den : St -> list Z) (fin ok : St -> Prop).
  Hypothesis Hnx : contract ae nx den fin ok.

  (* Filter *)
  Lemma sfilter_ok n keep fl : fail_at fl = None ->
    contract ae (fun w => sfilter nx n keep fl (fst w) (snd w))
             (fun w => filter (pred_eval keep) (den (snd w)))
             (fun w => fin (snd w)) (fun w => ok (snd w)).
  Proof.
    intros Hfl. unfold contract.
    induction n as [|n IH]; intros [calls s] o w' ev Hok Hc; simpl in *.
    - inv_ret Hc. simpl. auto.
    - destruct (nx s) as [[o1 s1] ev1] eqn:E.
      destruct (Hnx _ _ _ _ Hok E) as (Hok1 & Hp & Hf).
      destruct o1 as [x| | | |]; simpl in Hp.
      + assert (Hnf : fin s -> False) by (intros Hfin; destruct (Hf Hfin) as [_ []]).
        rewrite (fails_never fl calls Hfl) in Hc.
        destruct (pred_eval keep x) eqn:Ek.
        * inv_ret Hc. simpl. rewrite Hp. simpl. rewrite Ek.
          split; [exact Hok1|]. split; [reflexivity|]. intros Hfin; destruct (Hnf Hfin).
        * destruct (sfilter nx n keep fl (S calls) s1) as [[o2 w2] ev2] eqn:E2.
          simpl in Hc. inv_ret Hc.
          destruct (IH (S calls, s1) _ _ _ Hok1 E2) as (Hok2 & Hp2 & Hf2).
          split; [exact Hok2|]. split; [|intros Hfin; destruct (Hnf Hfin)].
          apply (post_shift ae (fun w : nat * St => filter (pred_eval keep) (den (snd w)))
                            _ (calls, s) (S calls, s1)); [|exact Hp2].
          simpl. rewrite Hp. simpl. rewrite Ek. reflexivity.
      + inv_ret Hc. simpl. destruct Hp as (Hd & Hd' & Hfin). rewrite Hd, Hd'.
        split; [exact Hok1|]. split; auto.
      + inv_ret Hc. simpl. destruct Hp as [Hae Hd]. rewrite Hd.
        split; [exact Hok1|]. split; [auto|]. intros Hfin; destruct (Hf Hfin); auto.
      + destruct Hp.
      + inv_ret Hc. simpl. split; [exact Hok1|]. split; [auto|].
        intros Hfin; destruct (Hf Hfin); auto.
  Qed.

  (* Map *)
  Lemma smap_ok f fl : fail_at fl = None ->
    contract ae (fun w => smap nx f fl (fst w) (snd w))
             (fun w => map (fn_eval f) (den (snd w)))
             (fun w => fin (snd w)) (fun w => ok (snd w)).
  Proof.
    intros Hfl. unfold contract, smap. intros [calls s] o w' ev Hok Hc. simpl in *.
    destruct (nx s) as [[o1 s1] ev1] eqn:E.
    destruct (Hnx _ _ _ _ Hok E) as (Hok1 & Hp & Hf).
    destruct o1 as [x| | | |]; simpl in Hp.
    - rewrite (fails_never fl calls Hfl) in Hc. inv_ret Hc. simpl.
      rewrite Hp. split; [exact Hok1|]. split; [reflexivity|].
      intros Hfin; destruct (Hf Hfin) as [_ []].
    - inv_ret Hc. simpl. destruct Hp as (Hd & Hd' & Hfin). rewrite Hd, Hd'.
      split; [exact Hok1|]. split; auto.
    - inv_ret Hc. simpl. destruct Hp as [Hae Hd]. rewrite Hd. split; [exact Hok1|].
      split; [auto|]. intros Hfin; destruct (Hf Hfin); auto.
    - destruct Hp.
    - inv_ret Hc. simpl. split; [exact Hok1|]. split; [auto|].
      intros Hfin; destruct (Hf Hfin); auto.
  Qed.

  (* First: x is decremented only on success, so failures are harmless *)
  Lemma sfirst_ok :
    contract ae (fun w => sfirst nx (fst w) (snd w)) (fden den) (ffin fin) (fun w => ok (snd w)).
  Proof.
    unfold contract, sfirst, fden, ffin. intros [x s] o w' ev Hok Hc.
    simpl in *. destruct (x <=? 0) eqn:Ex.
    - apply Z.leb_le in Ex. inv_ret Hc. simpl.
      replace (Z.to_nat x) with O by lia. simpl. split; [exact Hok|]. split; auto.
    - apply Z.leb_gt in Ex.
      destruct (nx s) as [[o1 s1] ev1] eqn:E.
      destruct (Hnx _ _ _ _ Hok E) as (Hok1 & Hp & Hf).
      destruct o1 as [y| | | |]; simpl in Hp; inv_ret Hc; simpl.
      + rewrite Hp. rewrite (to_nat_pos x Ex). split; [exact Hok1|]. split; [reflexivity|].
        intros [Hx|Hfin]; [lia|]. destruct (Hf Hfin) as [_ []].
      + destruct Hp as (Hd & Hd' & Hfin). rewrite Hd, Hd', !firstn_nil.
        split; [exact Hok1|]. split; auto.
      + destruct Hp as [Hae Hd]. rewrite Hd. split; [exact Hok1|]. split; [auto|].
        intros [Hx|Hfin]; [lia|]. destruct (Hf Hfin); auto.
      + destruct Hp.
      + split; [exact Hok1|]. split; [auto|].
        intros [Hx|Hfin]; [lia|]. destruct (Hf Hfin); auto.
  Qed.

  (* While; state (calls, item, has, done, inner) *)
  Definition swden (f : pred) (w : nat * Z * bool * bool * St) : list Z :=
    let '(_, item, has, done, s) := w in
    if done then [] else takewhile (pred_eval f) ((if has then [item] else []) ++ den s).
  Definition swfin (w : nat * Z * bool * bool * St) : Prop :=
    let '(_, _, has, done, s) := w in done = true \/ (has = false /\ fin s).
  Definition swok (w : nat * Z * bool * bool * St) : Prop := ok (snd w).

  Lemma swhile_ok f fl : fail_at fl = None ->
    contract ae (fun w => let '(calls, item, has, done, s) := w in
                          swhile nx f fl calls item has done s)
             (swden f) swfin swok.
  Proof.
    intros Hfl. unfold contract, swhile, swden, swfin, swok.
    intros [[[[calls item] has] done] s] o w' ev Hok Hc. simpl in *.
    destruct done.
    - inv_ret Hc. simpl. split; [exact Hok|]. split; auto.
    - destruct has.
      + rewrite (fails_never fl calls Hfl) in Hc.
        destruct (pred_eval f item) eqn:Ef; inv_ret Hc; simpl; rewrite Ef.
        * split; [exact Hok|]. split; [reflexivity|].
          intros [Hd|[Hh _]]; discriminate.
        * split; [exact Hok|]. split; [auto|]. auto.
      + destruct (nx s) as [[o1 s1] ev1] eqn:E.
        destruct (Hnx _ _ _ _ Hok E) as (Hok1 & Hp & Hf).
        destruct o1 as [x| | | |]; simpl in Hp.
        * rewrite (fails_never fl calls Hfl) in Hc.
          assert (Hnf : false = true \/ false = false /\ fin s -> False).
          { intros [Hx|[_ Hfin]]; [discriminate|]. destruct (Hf Hfin) as [_ []]. }
          destruct (pred_eval f x) eqn:Ef; inv_ret Hc; simpl; rewrite Hp; simpl; rewrite Ef.
          -- split; [exact Hok1|]. split; [reflexivity|]. intros Hx; destruct (Hnf Hx).
          -- split; [exact Hok1|]. split; [auto|]. auto.
        * inv_ret Hc. simpl. destruct Hp as (Hd & Hd' & Hfin). rewrite Hd, Hd'.
          split; [exact Hok1|]. split; auto.
        * inv_ret Hc. simpl. destruct Hp as [Hae Hd]. rewrite Hd.
          split; [exact Hok1|]. split; [auto|].
          intros [Hx|[_ Hfin]]; [discriminate|]. destruct (Hf Hfin); auto.
        * destruct Hp.
        * inv_ret Hc. simpl. split; [exact Hok1|]. split; [auto|].
          intros [Hx|[_ Hfin]]; [discriminate|]. destruct (Hf Hfin); auto.
  Qed.
End GenericStream.

Section GenericStream2.
  Context {St : Type} (ae : bool) (nx : St -> ret Z St) (cl : St -> list sev).
  Variables (den : St -> list Z) (fin ok : St -> Prop).
  Hypothesis Hnx : contract ae nx den fin ok.

  (* Flatten: with an expired context the outer stream answers the context error *)
  Lemma sflatten_ok n live : (live = false -> ae = true) ->
    contract ae (fun w => sflatten nx cl n live (fst w) (snd w))
             (flden den) flfin (flok ok).
  Proof.
    intros Hlive. unfold contract, flden, flfin, flok.
    induction n as [|n IH]; intros [rest curr] o w' ev Hok Hc; simpl in *.
    - inv_ret Hc. simpl. auto.
    - destruct Hok as [Hokr Hokc]. destruct curr as [c|].
      + destruct (nx c) as [[o1 c1] ev1] eqn:E.
        destruct (Hnx _ _ _ _ Hokc E) as (Hok1 & Hp & Hf).
        assert (Hnf : rest = [] /\ Some c = None -> False) by (intros [_ Hx]; discriminate).
        destruct o1 as [x| | | |]; simpl in Hp.
        * inv_ret Hc. simpl. rewrite Hp. split; [auto|]. split; [reflexivity|].
          intros Hx; destruct (Hnf Hx).
        * destruct (sflatten nx cl n live rest None) as [[o2 w2] ev2] eqn:E2.
          simpl in Hc. inv_ret Hc.
          destruct (IH (rest, None) _ _ _ (conj Hokr I) E2) as (Hok2 & Hp2 & Hf2).
          split; [exact Hok2|]. split; [|intros Hx; destruct (Hnf Hx)].
          apply (post_shift ae (flden den) _ (rest, Some c) (rest, None)); [|exact Hp2].
          unfold flden; simpl. destruct Hp as (Hd & _). rewrite Hd. reflexivity.
        * inv_ret Hc. simpl. destruct Hp as [Hae Hd]. rewrite Hd.
          split; [auto|]. split; [auto|]. intros Hx; destruct (Hnf Hx).
        * destruct Hp.
        * inv_ret Hc. simpl. split; [auto|]. split; [auto|]. intros Hx; destruct (Hnf Hx).
      + destruct live; simpl in Hc.
        * destruct rest as [|c rest'].
          -- inv_ret Hc. simpl. split; [auto|]. split; auto.
          -- inversion Hokr as [|c0 r0 Hc0 Hr0]; subst.
             destruct (IH (rest', Some c) _ _ _ (conj Hr0 Hc0) Hc) as (Hok2 & Hp2 & Hf2).
             split; [exact Hok2|]. split; [|intros [Hx _]; discriminate].
             apply (post_shift ae (flden den) _ (c :: rest', None) (rest', Some c));
               [|exact Hp2].
             reflexivity.
        * inv_ret Hc. simpl. split; [auto|]. split; [auto|]. intros Hx. split; [exact Hx|auto].
  Qed.

  (* Join *)
  Lemma sjoin_ok n : contract ae (sjoin nx cl n) (jden den) jfin (Forall ok).
  Proof.
    unfold contract, jden, jfin.
    induction n as [|n IH]; intros its o its' ev Hok Hc; simpl in *.
    - inv_ret Hc. simpl. auto.
    - destruct its as [|c tl].
      + inv_ret Hc. simpl. auto.
      + inversion Hok as [|c0 r0 Hc0 Hr0]; subst.
        destruct (nx c) as [[o1 c1] ev1] eqn:E.
        destruct (Hnx _ _ _ _ Hc0 E) as (Hok1 & Hp & Hf).
        assert (Hnf : c :: tl = [] -> False) by discriminate.
        destruct o1 as [x| | | |]; simpl in Hp.
        * inv_ret Hc. simpl. rewrite Hp. split; [auto|]. split; [reflexivity|].
          intros Hx; destruct (Hnf Hx).
        * destruct (sjoin nx cl n tl) as [[o2 w2] ev2] eqn:E2. simpl in Hc. inv_ret Hc.
          destruct (IH _ _ _ _ Hr0 E2) as (Hok2 & Hp2 & Hf2).
          split; [exact Hok2|]. split; [|intros Hx; destruct (Hnf Hx)].
          apply (post_shift ae (jden den) _ (c :: tl) tl); [|exact Hp2].
          unfold jden; simpl. destruct Hp as (Hd & _). rewrite Hd. reflexivity.
        * inv_ret Hc. simpl. destruct Hp as [Hae Hd]. rewrite Hd.
          split; [auto|]. split; [auto|]. intros Hx; destruct (Hnf Hx).
        * destruct Hp.
        * inv_ret Hc. simpl. split; [auto|]. split; [auto|]. intros Hx; destruct (Hnf Hx).
  Qed.

  (* Chunk: the partial chunk survives a failed call *)
  Definition scden (size : Z) (w : list Z * St) : list (list Z) :=
    chunk_acc size (fst w) (den (snd w)).
  Definition scfin (w : list Z * St) : Prop := fst w = [] /\ fin (snd w).

  Lemma schunk_ok n size : 0 <= size ->
    contract ae (fun w => schunk nx n size (fst w) (snd w)) (scden size) scfin
             (fun w => ok (snd w)).
  Proof.
    intros Hsz. unfold contract, scden, scfin.
    induction n as [|n IH]; intros [chunk s] o w' ev Hok Hc; simpl in *.
    - inv_ret Hc. simpl. auto.
    - destruct (nx s) as [[o1 s1] ev1] eqn:E.
      destruct (Hnx _ _ _ _ Hok E) as (Hok1 & Hp & Hf).
      destruct o1 as [x| | | |]; simpl in Hp.
      + assert (Hnf : chunk = [] /\ fin s -> False).
        { intros [_ Hfin]; destruct (Hf Hfin) as [_ []]. }
        destruct (zlen (chunk ++ [x]) =? size) eqn:Ez.
        * inv_ret Hc. simpl. rewrite Hp. simpl. rewrite Ez.
          split; [exact Hok1|]. split; [reflexivity|]. intros Hx; destruct (Hnf Hx).
        * destruct (schunk nx n size (chunk ++ [x]) s1) as [[o2 w2] ev2] eqn:E2.
          simpl in Hc. inv_ret Hc.
          destruct (IH (chunk ++ [x], s1) _ _ _ Hok1 E2) as (Hok2 & Hp2 & Hf2).
          split; [exact Hok2|]. split; [|intros Hx; destruct (Hnf Hx)].
          apply (post_shift ae (scden size) _ (chunk, s) (chunk ++ [x], s1)); [|exact Hp2].
          unfold scden; simpl. rewrite Hp. simpl. rewrite Ez. reflexivity.
      + destruct Hp as (Hd & Hd' & Hfin).
        destruct (0 <? zlen chunk) eqn:Ez.
        * destruct (size <? 0) eqn:Es; [apply Z.ltb_lt in Es; lia|].
          inv_ret Hc. simpl. rewrite Hd, Hd'. simpl.
          split; [exact Hok1|]. split.
          -- destruct chunk; [discriminate Ez|reflexivity].
          -- intros [Hc0 _]. subst chunk. discriminate Ez.
        * inv_ret Hc. simpl. rewrite Hd, Hd'. simpl.
          assert (Hch : chunk = []).
          { destruct chunk as [|c0 ch]; [reflexivity|].
            rewrite zlen_cons in Ez. apply Z.ltb_ge in Ez. pose proof (zlen_nonneg ch). lia. }
          subst chunk. split; [exact Hok1|]. split; auto.
      + inv_ret Hc. simpl. destruct Hp as [Hae Hd]. rewrite Hd.
        split; [exact Hok1|]. split; [auto|].
        intros [Hc0 Hfin]. destruct (Hf Hfin); auto.
      + destruct Hp.
      + inv_ret Hc. simpl. split; [exact Hok1|]. split; [auto|].
        intros [Hc0 Hfin]. destruct (Hf Hfin); auto.
  Qed.
End GenericStream2.
