(* Layer M for package iterator (/repo/iterator/iterator.go): every Next transcribed with exactly
   the fields of its Go struct.  Executable (vm_compute), total, no proofs.

   Shape.  The state of a pipeline is a tree [ist]/[ilst] mirroring the pipeline.  The Next of each
   combinator is written once, generically in the state type [St] of its inner iterator and in the
   inner iterator's Next function [nx] (section Combinators) - this is the Go method body, with
   `iter.inner.Next()` = [nx].  Go's `for` loops are recursion on an explicit fuel argument [n];
   a loop that runs out of fuel returns [Out].  [inext]/[ilnext] tie the knot over the tree (one
   unit of fuel per level).  The runners use fuel [isize s + 1], which is always enough
   (IterProofs.v: inext_fuel_enough).

   Every call returns (result, new state, source events of this call in order); the only events
   of iterators are [SevNext id], one per Next call on the instrumented source [id].

   Panics.  A callback of Filter/Map/While whose [failing] record says so panics at its k-th
   invocation ([panics_now]; a record with fail_panic = false is ignored: an iterator callback
   cannot return an error).  Nothing in package iterator recovers: the panic leaves every Next on
   the way out at the call that raised it, the result is [Pan] and the state returned with it is
   what the fields hold at that moment (the item just pulled by Filter/Map/While is lost, the
   partial chunk of chunkIterator - a local variable - too; peekable.curr, compactIterator.prev,
   firstIterator.x (decremented before the inner call), whileIterator.done, flattenIterator.curr,
   joinIterator.iters, runsIterator.curr are as they were before the inner call). *)
From Juniper Require Import Common.Base Iter.Syntax Iter.Config Iter.ModelBase.

Section Combinators.
  Context {St : Type} (nx : St -> ret Z St).

  (* func (iter *peekable[T]) Next() *)
  Definition ipk_next (p : pk St) : ret Z (pk St) :=
    if pk_has p then (Item (pk_curr p), mkPk false 0 (pk_in p), [])
    else let '(o, s', ev) := nx (pk_in p) in (o, mkPk false (pk_curr p) s', ev).

  (* func (iter *peekable[T]) Peek(): iter.curr, iter.has = iter.inner.Next() *)
  Definition ipk_peek (p : pk St) : ret Z (pk St) :=
    if pk_has p then (Item (pk_curr p), p, [])
    else let '(o, s', ev) := nx (pk_in p) in
         match o with
         | Item x => (Item x, mkPk true x s', ev)
         | Pan => (Pan, mkPk false (pk_curr p) s', ev)     (* nothing was assigned *)
         | _ => (pass o, mkPk false 0 s', ev)
         end.

  (* compactIterator.Next; state (first, prev, inner) *)
  Fixpoint icompact (n : nat) (r : rel) (first : bool) (prev : Z) (s : St)
    : ret Z (bool * Z * St) :=
    match n with
    | O => (Out, (first, prev, s), [])
    | S n' =>
        let '(o, s', ev) := nx s in
        match o with
        | Item x =>
            if first then (Item x, (false, x, s'), ev)
            else if negb (rel_eval r prev x) then (Item x, (first, x, s'), ev)
            else after ev (icompact n' r first prev s')
        | _ => (pass o, (first, prev, s'), ev)
        end
    end.

  (* filterIterator.Next; [calls] = number of invocations of keep so far *)
  Fixpoint ifilter (n : nat) (keep : pred) (fl : failing) (calls : nat) (s : St)
    : ret Z (nat * St) :=
    match n with
    | O => (Out, (calls, s), [])
    | S n' =>
        let '(o, s', ev) := nx s in
        match o with
        | Item x =>
            if panics_now fl calls then (Pan, (S calls, s'), ev)     (* iter.keep(item) panics *)
            else if pred_eval keep x then (Item x, (S calls, s'), ev)
            else after ev (ifilter n' keep fl (S calls) s')
        | _ => (pass o, (calls, s'), ev)
        end
    end.

  (* firstIterator.Next: x is decremented BEFORE the inner Next, whatever that returns *)
  Definition ifirst (x : Z) (s : St) : ret Z (Z * St) :=
    if x <=? 0 then (End, (x, s), [])
    else let '(o, s', ev) := nx s in (o, (x - 1, s'), ev).

  (* flattenIterator.Next; the outer iterator is iterator.Slice(rest) (not instrumented) *)
  Fixpoint iflatten (n : nat) (rest : list St) (curr : option St)
    : ret Z (list St * option St) :=
    match n with
    | O => (Out, (rest, curr), [])
    | S n' =>
        match curr with
        | None =>
            match rest with
            | [] => (End, ([], None), [])
            | c :: rest' => iflatten n' rest' (Some c)
            end
        | Some c =>
            let '(o, c', ev) := nx c in
            match o with
            | Item x => (Item x, (rest, Some c'), ev)
            | End => after ev (iflatten n' rest None)
            | _ => (pass o, (rest, Some c'), ev)
            end
        end
    end.

  (* joinIterator.Next *)
  Fixpoint ijoin (n : nat) (its : list St) : ret Z (list St) :=
    match n with
    | O => (Out, its, [])
    | S n' =>
        match its with
        | [] => (End, [], [])
        | c :: tl =>
            let '(o, c', ev) := nx c in
            match o with
            | Item x => (Item x, c' :: tl, ev)
            | End => after ev (ijoin n' tl)
            | _ => (pass o, c' :: tl, ev)
            end
        end
    end.

  (* mapIterator.Next *)
  Definition imap (f : fn) (fl : failing) (calls : nat) (s : St) : ret Z (nat * St) :=
    let '(o, s', ev) := nx s in
    match o with
    | Item x =>
        if panics_now fl calls then (Pan, (S calls, s'), ev)         (* iter.f(item) panics *)
        else (Item (fn_eval f x), (S calls, s'), ev)
    | _ => (pass o, (calls, s'), ev)
    end.

  (* whileIterator.Next *)
  Definition iwhile (f : pred) (fl : failing) (calls : nat) (done : bool) (s : St)
    : ret Z (nat * bool * St) :=
    if done then (End, (calls, done, s), [])
    else let '(o, s', ev) := nx s in
         match o with
         | Item x =>
             if panics_now fl calls then (Pan, (S calls, done, s'), ev)   (* iter.f(item) panics *)
             else if pred_eval f x then (Item x, (S calls, false, s'), ev)
             else (End, (S calls, true, s'), ev)
         | _ => (pass o, (calls, done, s'), ev)
         end.

  (* chunkIterator.Next: make([]T, 0, chunkSize) panics for a negative size *)
  Fixpoint ichunk_loop (n : nat) (size : Z) (chunk : list Z) (s : St) : ret (list Z) St :=
    match n with
    | O => (Out, s, [])
    | S n' =>
        let '(o, s', ev) := nx s in
        match o with
        | Item x =>
            let chunk' := chunk ++ [x] in
            if zlen chunk' =? size then (Item chunk', s', ev)
            else after ev (ichunk_loop n' size chunk' s')
        | End => if 0 <? zlen chunk then (Item chunk, s', ev) else (End, s', ev)
        | _ => (pass o, s', ev)
        end
    end.
  Definition ichunk (n : nat) (size : Z) (s : St) : ret (list Z) St :=
    if size <? 0 then (Pan, s, []) else ichunk_loop n size [] s.

  (* runsInnerIterator.Next; [cur] = (prev, parent != nil) *)
  Definition iruns_inner (r : rel) (cur : Z * bool) (p : pk St) : ret Z ((Z * bool) * pk St) :=
    let '(prev, alive) := cur in
    if negb alive then (End, (cur, p), [])
    else
      let '(o, p1, ev) := ipk_peek p in
      match o with
      | Item x =>
          if rel_eval r prev x
          then let '(o2, p2, ev2) := ipk_next p1 in (o2, (cur, p2), ev ++ ev2)
          else (End, ((prev, false), p1), ev)
      | End => (End, ((prev, false), p1), ev)
      | _ => (pass o, (cur, p1), ev)
      end.

  (* `for { _, ok := iter.curr.Next(); if !ok { break } }` of runsIterator.Next *)
  Fixpoint iruns_drain (n : nat) (r : rel) (cur : Z * bool) (p : pk St)
    : ret unit ((Z * bool) * pk St) :=
    match n with
    | O => (Out, (cur, p), [])
    | S n' =>
        let '(o, (cur', p'), ev) := iruns_inner r cur p in
        match o with
        | Item _ => after ev (iruns_drain n' r cur' p')
        | End => (End, (cur', p'), ev)
        | _ => (pass o, (cur', p'), ev)
        end
    end.

  (* the harness' consumption of a run just handed out: all of it ([k] = None) or at most k items *)
  Fixpoint iruns_take (n : nat) (r : rel) (k : option nat) (acc : list Z) (cur : Z * bool)
           (p : pk St) : ret (list Z) ((Z * bool) * pk St) :=
    match n with
    | O => (Out, (cur, p), [])
    | S n' =>
        match k with
        | Some O => (Item acc, (cur, p), [])
        | _ =>
            let '(o, (cur', p'), ev) := iruns_inner r cur p in
            match o with
            | Item x => after ev (iruns_take n' r (option_map Nat.pred k) (acc ++ [x]) cur' p')
            | End => (Item acc, (cur', p'), ev)
            | _ => (pass o, (cur', p'), ev)
            end
        end
    end.

  (* runsIterator.Next followed by the consumer's take *)
  Definition iruns (n : nat) (r : rel) (k : option nat) (cur : runcur) (p : pk St)
    : ret (list Z) (runcur * pk St) :=
    let '(o1, p1, ev1) :=
      match cur with
      | Some c => let '(o, (_, p'), ev) := iruns_drain n r c p in (o, p', ev)
      | None => (End, p, [])
      end in
    match o1 with
    | End =>
        (* iter.curr = nil; item, ok := iter.inner.Peek() *)
        let '(o2, p2, ev2) := ipk_peek p1 in
        match o2 with
        | Item x =>
            let '(o3, (c3, p3), ev3) := iruns_take n r k [] (x, true) p2 in
            (o3, (Some c3, p3), ev1 ++ ev2 ++ ev3)
        | _ => (pass o2, (None, p2), ev1 ++ ev2)
        end
    | _ => (pass o1, (cur, p1), ev1)
    end.
End Combinators.

(* FlattenSlices does not exist in package iterator.  So that every pipeline has an iterator
   reading, ZFlattenSlices gets the obvious meaning (the transcription of the stream version
   without errors); [iter_supported] below is false for such pipelines and the correspondence
   check rejects them. *)
Section FlattenSlices.
  Context {Lt : Type} (nxl : Lt -> ret (list Z) Lt).
  Fixpoint iflatslices (n : nat) (buffer : list Z) (q : Lt) : ret Z (list Z * Lt) :=
    match n with
    | O => (Out, (buffer, q), [])
    | S n' =>
        match buffer with
        | x :: b => (Item x, (b, q), [])
        | [] =>
            let '(o, q', ev) := nxl q in
            match o with
            | Item l => after ev (iflatslices n' l q')
            | _ => (pass o, ([], q'), ev)
            end
        end
    end.
End FlattenSlices.

(* ---- pipeline states ---- *)
Inductive ist :=
| ISrc (id : nat) (s : isrc)
| IPeek (p : pk ist)
| ICompact (r : rel) (first : bool) (prev : Z) (p : ist)
| IFilter (keep : pred) (fl : failing) (calls : nat) (p : ist)
| IFirst (x : Z) (p : ist)
| IFlatten (rest : list ist) (curr : option ist)
| IJoin (its : list ist)
| IMap (f : fn) (fl : failing) (calls : nat) (p : ist)
| IWhile (f : pred) (fl : failing) (calls : nat) (done : bool) (p : ist)
| IFlattenSlices (buffer : list Z) (q : ilst)
with ilst :=
| IChunk (size : Z) (p : ist)
| IRuns (r : rel) (take : option nat) (cur : runcur) (p : pk ist).

Definition list_sum_map {A} (f : A -> nat) (l : list A) : nat :=
  fold_right (fun a acc => (f a + acc)%nat) O l.

(* fuel measure: strictly decreases with every item produced, never increases *)
Fixpoint isize (s : ist) : nat :=
  match s with
  | ISrc _ src => S (isrc_size src)
  | IPeek p => S ((if pk_has p then 1 else 0) + isize (pk_in p))
  | ICompact _ _ _ p => S (isize p)
  | IFilter _ _ _ p => S (isize p)
  | IFirst _ p => S (isize p)
  | IFlatten rest curr =>
      S (S (list_sum_map (fun c => S (S (isize c))) rest
         + match curr with Some c => S (isize c) | None => O end))
  | IJoin its => S (list_sum_map (fun c => S (isize c)) its)
  | IMap _ _ _ p => S (isize p)
  | IWhile _ _ _ _ p => S (isize p)
  | IFlattenSlices b q => S (S (length b + ilsize q))
  end
with ilsize (q : ilst) : nat :=
  match q with
  | IChunk _ p => S (2 * isize p)
  | IRuns r _ cur p => S (S (runs_w r cur (pk_has p) (pk_curr p) + 3 * isize (pk_in p)))
  end.

Fixpoint inext (fuel : nat) (s : ist) {struct fuel} : ret Z ist :=
  match fuel with
  | O => (Out, s, [])
  | S f =>
      match s with
      | ISrc id src =>
          let '(o, src') := isrc_next src in (opt_res o, ISrc id src', [SevNext id])
      | IPeek p => let '(o, p', ev) := ipk_next (inext f) p in (o, IPeek p', ev)
      | ICompact r first prev p =>
          let '(o, (first', prev', p'), ev) := icompact (inext f) fuel r first prev p in
          (o, ICompact r first' prev' p', ev)
      | IFilter keep fl calls p =>
          let '(o, (calls', p'), ev) := ifilter (inext f) fuel keep fl calls p in
          (o, IFilter keep fl calls' p', ev)
      | IFirst x p =>
          let '(o, (x', p'), ev) := ifirst (inext f) x p in (o, IFirst x' p', ev)
      | IFlatten rest curr =>
          let '(o, (rest', curr'), ev) := iflatten (inext f) fuel rest curr in
          (o, IFlatten rest' curr', ev)
      | IJoin its => let '(o, its', ev) := ijoin (inext f) fuel its in (o, IJoin its', ev)
      | IMap g fl calls p =>
          let '(o, (calls', p'), ev) := imap (inext f) g fl calls p in
          (o, IMap g fl calls' p', ev)
      | IWhile g fl calls done p =>
          let '(o, (calls', done', p'), ev) := iwhile (inext f) g fl calls done p in
          (o, IWhile g fl calls' done' p', ev)
      | IFlattenSlices b q =>
          let '(o, (b', q'), ev) := iflatslices (ilnext f) fuel b q in
          (o, IFlattenSlices b' q', ev)
      end
  end
with ilnext (fuel : nat) (q : ilst) {struct fuel} : ret (list Z) ilst :=
  match fuel with
  | O => (Out, q, [])
  | S f =>
      match q with
      | IChunk size p =>
          let '(o, p', ev) := ichunk (inext f) fuel size p in (o, IChunk size p', ev)
      | IRuns r take cur p =>
          let '(o, (cur', p'), ev) := iruns (inext f) fuel r take cur p in
          (o, IRuns r take cur' p', ev)
      end
  end.

(* ---- construction (pulls nothing) ---- *)
Fixpoint iinit (p : pz) : ist :=
  match p with
  | ZSrc id s => ISrc id (isrc_init s)
  | ZPeek p => IPeek (mkPk false 0 (iinit p))
  | ZCompact r p => ICompact r true 0 (iinit p)
  | ZFilter f fl p => IFilter f fl O (iinit p)
  | ZFirst n p => IFirst n (iinit p)
  | ZFlatten ps => IFlatten (map iinit ps) None
  | ZJoin ps => IJoin (map iinit ps)
  | ZMap f fl p => IMap f fl O (iinit p)
  | ZWhile f fl p => IWhile f fl O false (iinit p)
  | ZFlattenSlices q => IFlattenSlices [] (ilinit q)
  end
with ilinit (q : pl) : ilst :=
  match q with
  | LChunk n p => IChunk n (iinit p)
  | LRuns r take p => IRuns r take None (mkPk false 0 (iinit p))
  end.

(* pipelines that exist in package iterator: no FlattenSlices, no scripted sources *)
Definition isource_supported (s : source) : bool :=
  match s with SScript _ | SScriptNC _ | SError _ => false | _ => true end.
Fixpoint iter_supported_z (p : pz) : bool :=
  match p with
  | ZSrc _ s => isource_supported s
  | ZPeek p | ZCompact _ p | ZFilter _ _ p | ZFirst _ p | ZMap _ _ p | ZWhile _ _ p =>
      iter_supported_z p
  | ZFlatten ps | ZJoin ps => forallb iter_supported_z ps
  | ZFlattenSlices _ => false
  end.
Definition iter_supported_l (q : pl) : bool :=
  match q with LChunk _ p | LRuns _ _ p => iter_supported_z p end.
Definition iter_supported (p : pz + pl) : bool :=
  match p with inl p => iter_supported_z p | inr q => iter_supported_l q end.

(* one Next with the fuel the runners use *)
Definition istep (s : ist) : ret Z ist := inext (S (isize s)) s.
Definition ilstep (q : ilst) : ret (list Z) ilst := ilnext (S (ilsize q)) q.

(* ---- reducers ---- *)

(* func Reduce: `for { item, ok := iter.Next(); if !ok { return acc }; acc = f(acc, item) }`;
   f acc item = None: the reduction function panics *)
Fixpoint ireduce {A : Type} (n : nat) (f : A -> Z -> option A) (acc : A) (s : ist) : ret A ist :=
  match n with
  | O => (Out, s, [])
  | S n' =>
      let '(o, s', ev) := istep s in
      match o with
      | Item x =>
          match f acc x with
          | Some acc' => after ev (ireduce n' f acc' s')
          | None => (Pan, s', ev)
          end
      | End => (Item acc, s', ev)
      | _ => (pass o, s', ev)
      end
  end.

(* func Collect = Reduce(iter, nil, append) *)
Definition icollect (n : nat) (s : ist) : ret (list Z) ist :=
  ireduce n (fun out x => Some (out ++ [x])) [] s.

(* the loop of func Last: buf[i%n] = item; i++.  Result at the end: (buf, i). *)
Fixpoint ilast_loop (k : nat) (n : Z) (buf : list Z) (i : Z) (s : ist) : ret (list Z * Z) ist :=
  match k with
  | O => (Out, s, [])
  | S k' =>
      let '(o, s', ev) := istep s in
      match o with
      | Item x =>
          if n =? 0 then (Pan, s', ev)                     (* i % 0: integer divide by zero *)
          else match zset buf (Z.rem i n) x with
               | Some buf' => after ev (ilast_loop k' n buf' (i + 1) s')
               | None => (Pan, s', ev)                     (* index out of range; unreachable *)
               end
      | End => (Item (buf, i), s', ev)
      | _ => (pass o, s', ev)
      end
  end.

(* the part of Last after the loop *)
Definition last_finish (n : Z) (buf : list Z) (i : Z) : res (list Z) :=
  if i <? n then Item (firstn (Z.to_nat i) buf)            (* buf[:i] *)
  else if n =? 0 then Pan                                  (* idx := i % n *)
  else let idx := Z.to_nat (Z.rem i n) in
       Item (skipn idx buf ++ firstn idx buf).             (* copy(out, buf[idx:]); copy(out[n-idx:], buf[:idx]) *)

Definition ilast (cfg : config) (k : nat) (n : Z) (s : ist) : ret (list Z) ist :=
  if cfg_last_guard cfg && (n <=? 0)
  then (* planned fix: drain the input, return the empty slice *)
       let '(o, s', ev) := ireduce k (fun (u : unit) _ => Some u) tt s in
       match o with Item _ => (Item [], s', ev) | _ => (pass o, s', ev) end
  else if n <? 0 then (Pan, s, [])                         (* make([]T, n) *)
  else let '(o, s', ev) := ilast_loop k n (zrepeat 0 n) 0 s in
       match o with
       | Item (buf, i) => (last_finish n buf i, s', ev)
       | _ => (pass o, s', ev)
       end.

(* func One; result Item [x] = (x, true), End = (zero, false) *)
Definition ione (s : ist) : ret (list Z) ist :=
  let '(o1, s1, ev1) := istep s in
  match o1 with
  | Item x =>
      let '(o2, s2, ev2) := istep s1 in
      match o2 with
      | Item _ => (End, s2, ev1 ++ ev2)
      | End => (Item [x], s2, ev1 ++ ev2)
      | _ => (pass o2, s2, ev1 ++ ev2)
      end
  | End => (End, s1, ev1)
  | _ => (pass o1, s1, ev1)
  end.

(* func Equal(iters...): one round of the inner loop `for i := 1; i < len(iters); i++`.
   [ok] = the (item, ok) pair of iters[0].  Result: Item false = `return false` (the remaining
   iterators are not pulled in this round), End = the round went through. *)
Fixpoint iequal_round (ok : option Z) (others : list ist) : ret bool (list ist) :=
  match others with
  | [] => (End, [], [])
  | b :: tl =>
      let '(ob, b', evb) := istep b in
      let continue :=
        let '(o2, tl', ev2) := iequal_round ok tl in (o2, b' :: tl', evb ++ ev2) in
      match ob, ok with
      | Item y, Some x => if x =? y then continue else (Item false, b' :: tl, evb)
      | Item _, None => (Item false, b' :: tl, evb)       (* ok != iterIOk *)
      | End, Some _ => (Item false, b' :: tl, evb)        (* ok != iterIOk *)
      | End, None => continue
      | _, _ => (pass ob, b' :: tl, evb)
      end
  end.

(* the outer `for` of Equal; [a] = iters[0] *)
Fixpoint iequal (k : nat) (a : ist) (others : list ist) : ret bool (ist * list ist) :=
  match k with
  | O => (Out, (a, others), [])
  | S k' =>
      let '(oa, a', eva) := istep a in
      match oa with
      | Item x =>
          let '(orr, others', evr) := iequal_round (Some x) others in
          match orr with
          | End => after (eva ++ evr) (iequal k' a' others')
          | _ => (orr, (a', others'), eva ++ evr)
          end
      | End =>
          let '(orr, others', evr) := iequal_round None others in
          match orr with
          | End => (Item true, (a', others'), eva ++ evr)      (* if !ok { return true } *)
          | _ => (orr, (a', others'), eva ++ evr)
          end
      | _ => (pass oa, (a', others), eva)
      end
  end.

(* the second copy of the pipeline used by REqualSelf has source ids id + 1000 *)
Fixpoint pz_shift (d : nat) (p : pz) : pz :=
  match p with
  | ZSrc id s => ZSrc (id + d) s
  | ZPeek p => ZPeek (pz_shift d p)
  | ZCompact r p => ZCompact r (pz_shift d p)
  | ZFilter f fl p => ZFilter f fl (pz_shift d p)
  | ZFirst n p => ZFirst n (pz_shift d p)
  | ZFlatten ps => ZFlatten (map (pz_shift d) ps)
  | ZJoin ps => ZJoin (map (pz_shift d) ps)
  | ZMap f fl p => ZMap f fl (pz_shift d p)
  | ZWhile f fl p => ZWhile f fl (pz_shift d p)
  | ZFlattenSlices q => ZFlattenSlices (pl_shift d q)
  end
with pl_shift (d : nat) (q : pl) : pl :=
  match q with
  | LChunk n p => LChunk n (pz_shift d p)
  | LRuns r t p => LRuns r t (pz_shift d p)
  end.

(* ---- observations ---- *)
Definition obs_z (o : res Z) : robs :=
  match o with
  | Item x => RItem (IZ x) | End => REnd | Err e => RErr e | Pan => RPanic | Out => RBad
  end.
Definition obs_l (o : res (list Z)) : robs :=
  match o with
  | Item l => RItem (IL l) | End => REnd | Err e => RErr e | Pan => RPanic | Out => RBad
  end.
Definition obs_val (o : res (list Z)) : robs :=
  match o with
  | Item l => RVal l | End => REnd | Err e => RErr e | Pan => RPanic | Out => RBad
  end.
(* a Go panic does not end the run: the consumer (the harness) recovers it, records RPanic for
   that step and goes on with its next step on the same pipeline.  Only running out of fuel ends
   the run (never happens: IterProofs.v inext_fuel_enough, StreamProofs.v snext_fuel_enough). *)
Definition stops (r : robs) : bool :=
  match r with RBad => true | _ => false end.

Inductive irun_st := RZ (s : ist) | RL (q : ilst).
Definition irun_init (p : pz + pl) : irun_st :=
  match p with inl p => RZ (iinit p) | inr q => RL (ilinit q) end.
Definition irun_next (s : irun_st) : robs * irun_st * list sev :=
  match s with
  | RZ s => let '(o, s', ev) := istep s in (obs_z o, RZ s', ev)
  | RL q => let '(o, q', ev) := ilstep q in (obs_l o, RL q', ev)
  end.

(* consumer steps; CNext's live flag is ignored, CClose is a no-op returning RUnit; a Next that
   panics is observed as RPanic, the run goes on *)
Fixpoint irun_steps (ids : list nat) (s : irun_st) (log : list sev) (ops : list cop)
  : list step_obs * list sev :=
  match ops with
  | [] => ([], log)
  | CClose :: t =>
      let '(r, l) := irun_steps ids s log t in (mkStepObs RUnit (pulls_of ids log) :: r, l)
  | CNext _ :: t =>
      let '(o, s', ev) := irun_next s in
      let log' := log ++ ev in
      let so := mkStepObs o (pulls_of ids log') in
      if stops o then ([so], log')
      else let '(r, l) := irun_steps ids s' log' t in (so :: r, l)
  end.

Definition ired_fuel (s : ist) : nat := S (isize s).

Definition irun_reduce (cfg : config) (p : pz) (r : reducer) : robs * list sev :=
  let s := iinit p in
  match r with
  | RCollect => let '(o, _, ev) := icollect (ired_fuel s) s in (obs_val o, ev)
  | RLast n => let '(o, _, ev) := ilast cfg (ired_fuel s) n s in (obs_val o, ev)
  | ROne => let '(o, _, ev) := ione s in (obs_val o, ev)
  | RSum fl => let '(o, _, ev) := ireduce (ired_fuel s) (isum_step fl) (O, 0) s in
               (obs_val (match o with Item a => Item [snd a] | _ => pass o end), ev)
  | REqualSelf =>
      let '(o, _, ev) := iequal (ired_fuel s) s [iinit (pz_shift 1000 p)] in
      (obs_val (match o with Item b => Item [if b then 1 else 0] | _ => pass o end), ev)
  | REqual others =>
      let '(o, _, ev) := iequal (ired_fuel s) s (map iinit others) in
      (obs_val (match o with Item b => Item [if b then 1 else 0] | _ => pass o end), ev)
  end.

Definition run_iter_cfg (cfg : config) (p : pz + pl) (prog : program) : run_obs :=
  match prog with
  | Steps ops =>
      let '(steps, log) := irun_steps (sort_ids (pipe_ids p)) (irun_init p) [] ops in
      mkRunObs steps log
  | Reduce r _ =>
      match p with
      | inl z =>
          let ids := match r with
                     | REqualSelf => sort_ids (pz_ids z ++ pz_ids (pz_shift 1000 z))
                     | REqual others => sort_ids (pz_ids z ++ flat_map pz_ids others)
                     | _ => sort_ids (pz_ids z)
                     end in
          let '(o, log) := irun_reduce cfg z r in
          mkRunObs [mkStepObs o (pulls_of ids log)] log
      | inr _ => mkRunObs [mkStepObs RBad []] []     (* reducers are applied to pz pipelines only *)
      end
  end.

Definition run_iter : pz + pl -> program -> run_obs := run_iter_cfg current_cfg.
