(* C09 on the stream model: every call of every pipeline state satisfies the event contract;
   consequences for whole runs (k Next calls then Close; reducers). *)
From Juniper Require Import Common.Base Iter.Syntax Iter.Config Iter.ModelBase Iter.IterModel
  Iter.StreamModel Iter.Spec Iter.Contract Iter.Events.

(* all source ids held by a state (inner streams of Flatten not handed out yet included), and
   the ids of the sources a Close of the state would reach ("open") *)
Fixpoint sall (s : sst) : list nat :=
  match s with
  | TSrc id _ => [id]
  | TPeek p => sall (pk_in p)
  | TCompact _ _ _ p | TFilter _ _ _ p | TFirst _ p | TMap _ _ _ p | TWhile _ _ _ _ _ _ p =>
      sall p
  | TFlatten rest curr =>
      (match curr with Some c => sall c | None => [] end) ++ flat_map sall rest
  | TJoin rem => flat_map sall rem
  | TFlattenSlices _ q => slall q
  end
with slall (q : slst) : list nat :=
  match q with
  | TChunk _ _ p => sall p
  | TRuns _ _ _ _ p => sall (pk_in p)
  end.

Fixpoint sopn (s : sst) : list nat :=
  match s with
  | TSrc id _ => [id]
  | TPeek p => sopn (pk_in p)
  | TCompact _ _ _ p | TFilter _ _ _ p | TFirst _ p | TMap _ _ _ p | TWhile _ _ _ _ _ _ p =>
      sopn p
  | TFlatten _ curr => match curr with Some c => sopn c | None => [] end
  | TJoin rem => flat_map sopn rem
  | TFlattenSlices _ q => slopn q
  end
with slopn (q : slst) : list nat :=
  match q with
  | TChunk _ _ p => sopn p
  | TRuns _ _ _ _ p => sopn (pk_in p)
  end.

(* induction on states through their size *)
Lemma sst_size_ind (P : sst -> Prop) (Q : slst -> Prop) :
  (forall n, (forall s, (ssize s < n)%nat -> P s) -> (forall q, (slsize q < n)%nat -> Q q) ->
             (forall s, (ssize s <= n)%nat -> P s) /\ (forall q, (slsize q <= n)%nat -> Q q)) ->
  (forall s, P s) /\ (forall q, Q q).
Proof.
  intros H.
  assert (Hall : forall n, (forall s, (ssize s < n)%nat -> P s) /\
                           (forall q, (slsize q < n)%nat -> Q q)).
  { induction n as [|n [IH1 IH2]].
    - split; intros; lia.
    - destruct (H n IH1 IH2) as [H1 H2]. split; intros; [apply H1|apply H2]; lia. }
  split; [intros s; apply (proj1 (Hall (S (ssize s)))); lia
         |intros q; apply (proj2 (Hall (S (slsize q)))); lia].
Qed.

Lemma list_sum_map_in {A} (f : A -> nat) l x : In x l -> (f x <= list_sum_map f l)%nat.
Proof.
  induction l as [|y t IH]; simpl; intros H; [destruct H|]. destruct H as [H|H].
  - subst. lia.
  - specialize (IH H). lia.
Qed.

Lemma flat_map_closes {A} (f : A -> list sev) (g : A -> list nat) l :
  (forall x, In x l -> f x = map SevClose (g x)) ->
  flat_map f l = map SevClose (flat_map g l).
Proof.
  induction l as [|x t IH]; simpl; intros H; [reflexivity|].
  rewrite map_app, H, IH; auto.
Qed.

Lemma flat_map_incl {A} (f g : A -> list nat) l :
  (forall x, In x l -> incl (f x) (g x)) -> incl (flat_map f l) (flat_map g l).
Proof.
  induction l as [|x t IH]; simpl; intros H; [apply incl_refl|].
  intros y Hy. rewrite in_app_iff in *. destruct Hy as [Hy|Hy].
  - left. apply (H x); auto.
  - right. apply IH; auto.
Qed.

(* Close reaches exactly the open sources; open sources are sources of the state *)
Lemma sclose_opn :
  (forall s, sclose s = map SevClose (sopn s) /\ incl (sopn s) (sall s)) /\
  (forall q, slclose q = map SevClose (slopn q) /\ incl (slopn q) (slall q)).
Proof.
  apply sst_size_ind. intros n IH1 IH2. split.
  - intros s Hs. destruct s; simpl in *;
      try (apply IH1; lia); try (split; [reflexivity|apply incl_refl]).
    + destruct curr as [c|]; [|split; [reflexivity|intros x []]].
      destruct (IH1 c ltac:(lia)) as [H1 H2]. split; [exact H1|].
      intros x Hx. apply in_or_app. left. apply H2. exact Hx.
    + split.
      * apply flat_map_closes. intros x Hx. apply IH1.
        pose proof (list_sum_map_in (fun c => S (ssize c)) rem x Hx). simpl in *. lia.
      * apply flat_map_incl. intros x Hx. apply IH1.
        pose proof (list_sum_map_in (fun c => S (ssize c)) rem x Hx). simpl in *. lia.
    + apply IH2. lia.
  - intros q Hq. destruct q; simpl in *; apply IH1; lia.
Qed.

Lemma NoDup_flat_map_sub {A} (f g : A -> list nat) l :
  (forall x, In x l -> incl (f x) (g x)) ->
  (forall x, In x l -> NoDup (g x) -> NoDup (f x)) ->
  NoDup (flat_map g l) -> NoDup (flat_map f l).
Proof.
  induction l as [|x t IH]; simpl; intros Hi Hn Hd; [constructor|].
  pose proof (NoDup_app_l _ _ Hd) as H1. pose proof (NoDup_app_r _ _ Hd) as H2.
  assert (Hf : NoDup (f x)) by (apply Hn; auto).
  assert (Ht : NoDup (flat_map f t)) by (apply IH; auto).
  clear IH. revert Hf. generalize (f x) (Hi x (or_introl eq_refl)). intros fx Hfx Hf.
  induction fx as [|y fx IHf]; simpl; [exact Ht|].
  inversion Hf as [|y0 l0 Hy Hf']; subst. constructor.
  - rewrite in_app_iff. intros [H|H]; [auto|].
    apply (NoDup_app_disj _ _ y Hd); [apply Hfx; simpl; auto|].
    apply (flat_map_incl f g t); auto.
  - apply IHf; auto. intros z Hz. apply Hfx. simpl. auto.
Qed.

Lemma sopn_nodup :
  (forall s, NoDup (sall s) -> NoDup (sopn s)) /\ (forall q, NoDup (slall q) -> NoDup (slopn q)).
Proof.
  apply sst_size_ind. intros n IH1 IH2. split.
  - intros s Hs. destruct s; simpl in *; try (apply IH1; lia); auto.
    + intros Hn. destruct curr as [c|]; [|constructor].
      apply IH1; [lia|]. eapply NoDup_app_l. exact Hn.
    + apply NoDup_flat_map_sub.
      * intros x Hx. apply (proj1 sclose_opn).
      * intros x Hx. apply IH1.
        pose proof (list_sum_map_in (fun c => S (ssize c)) rem x Hx). simpl in *. lia.
    + apply IH2. lia.
  - intros q Hq. destruct q; simpl in *; apply IH1; lia.
Qed.

(* ---- the master theorem for events ---- *)
Theorem snext_events live : forall f,
  (forall s o s' ev, snext f live s = (o, s', ev) -> evrel sall sopn s ev s') /\
  (forall q o q' ev, slnext f live q = (o, q', ev) -> evrel slall slopn q ev q').
Proof.
  induction f as [|f [IHz IHl]].
  - split; intros s o s' ev Hc; simpl in Hc; inv_ret Hc; apply evrel_refl.
  - assert (Hch : forall s ev s', chain (snext f live) s ev s' -> evrel sall sopn s ev s')
      by (apply chain_evrel; exact IHz).
    assert (Hchl : forall q ev q', chain (slnext f live) q ev q' -> evrel slall slopn q ev q')
      by (apply chain_evrel; exact IHl).
    split; intros s o s' ev Hc.
    + destruct s as [id src|p|r first prev p|keep fl calls p|x p|rest curr|rem|g fl calls p
                    |g fl calls item has done p|b q]; cbn [snext] in Hc.
      * destruct (ssrc_next live src) as [o1 src'] eqn:E. inv_ret Hc.
        intros Hn. simpl. split; [constructor; [simpl; tauto|constructor]|].
        split; [apply incl_refl|]. split; [apply incl_refl|]. split; [auto|].
        split; apply incl_refl.
      * destruct (ipk_next (snext f live) p) as [[o1 p1] ev1] eqn:E. inv_ret Hc.
        exact (Hch _ _ _ (ipk_next_chain _ _ _ _ _ E)).
      * destruct (icompact (snext f live) (S f) r first prev p)
          as [[o1 [[f1 pr1] p1]] ev1] eqn:E.
        inv_ret Hc. exact (Hch _ _ _ (icompact_chain _ _ _ _ _ _ _ _ _ _ _ E)).
      * destruct (sfilter (snext f live) (S f) keep fl calls p) as [[o1 [c1 p1]] ev1] eqn:E.
        inv_ret Hc. exact (Hch _ _ _ (sfilter_chain _ _ _ _ _ _ _ _ _ _ E)).
      * destruct (sfirst (snext f live) x p) as [[o1 [x1 p1]] ev1] eqn:E. inv_ret Hc.
        exact (Hch _ _ _ (sfirst_chain _ _ _ _ _ _ _ E)).
      * destruct (sflatten (snext f live) sclose (S f) live rest curr)
          as [[o1 [r1 c1]] ev1] eqn:E.
        inv_ret Hc.
        exact (sflatten_ev (snext f live) sclose sall sopn
                 (fun c => proj1 (proj1 sclose_opn c)) (fun c => proj2 (proj1 sclose_opn c))
                 (proj1 sopn_nodup) IHz (S f) live _ _ _ _ _ _ E).
      * destruct (sjoin (snext f live) sclose (S f) rem) as [[o1 rem1] ev1] eqn:E. inv_ret Hc.
        exact (sjoin_ev (snext f live) sclose sall sopn
                 (fun c => proj1 (proj1 sclose_opn c)) (fun c => proj2 (proj1 sclose_opn c))
                 (proj1 sopn_nodup) IHz (S f) _ _ _ _ E).
      * destruct (smap (snext f live) g fl calls p) as [[o1 [c1 p1]] ev1] eqn:E. inv_ret Hc.
        exact (Hch _ _ _ (smap_chain _ _ _ _ _ _ _ _ _ E)).
      * destruct (swhile (snext f live) g fl calls item has done p)
          as [[o1 [[[[c1 i1] h1] d1] p1]] ev1] eqn:E.
        inv_ret Hc. exact (Hch _ _ _ (swhile_chain _ _ _ _ _ _ _ _ _ _ _ _ _ _ _ E)).
      * destruct (iflatslices (slnext f live) (S f) b q) as [[o1 [b1 q1]] ev1] eqn:E.
        inv_ret Hc. exact (Hchl _ _ _ (iflatslices_chain _ _ _ _ _ _ _ _ E)).
    + destruct s as [size chunk p|r k cur pend p]; cbn [slnext] in Hc.
      * destruct (schunk (snext f live) (S f) size chunk p) as [[o1 [ch1 p1]] ev1] eqn:E.
        inv_ret Hc. exact (Hch _ _ _ (schunk_chain _ _ _ _ _ _ _ _ _ E)).
      * destruct (sruns (snext f live) (S f) r k cur pend p) as [[o1 [[c1 pd1] p1]] ev1] eqn:E.
        inv_ret Hc. exact (Hch _ _ _ (sruns_chain _ _ _ _ _ _ _ _ _ _ _ _ E)).
Qed.

(* ---- whole runs ---- *)
Definition rall (s : srun_st) : list nat := match s with QZ s => sall s | QL q => slall q end.
Definition ropn (s : srun_st) : list nat := match s with QZ s => sopn s | QL q => slopn q end.

Lemma srun_next_ev live s o s' ev : srun_next live s = (o, s', ev) -> evrel rall ropn s ev s'.
Proof.
  destruct s as [s|q]; simpl.
  - destruct (sstep live s) as [[o1 s1] ev1] eqn:E. intros Hc. inv_ret Hc.
    exact (proj1 (snext_events live _) _ _ _ _ E).
  - destruct (slstep live q) as [[o1 q1] ev1] eqn:E. intros Hc. inv_ret Hc.
    exact (proj2 (snext_events live _) _ _ _ _ E).
Qed.

Lemma sstep_ev live s o s' ev : sstep live s = (o, s', ev) -> evrel sall sopn s ev s'.
Proof. exact (proj1 (snext_events live _) _ _ _ _). Qed.

Lemma srun_close_opn s : srun_close s = map SevClose (ropn s) /\ incl (ropn s) (rall s).
Proof. destruct s as [s|q]; simpl; [apply (proj1 sclose_opn)|apply (proj2 sclose_opn)]. Qed.
Lemma ropn_nodup s : NoDup (rall s) -> NoDup (ropn s).
Proof. destruct s as [s|q]; simpl; [apply (proj1 sopn_nodup)|apply (proj2 sopn_nodup)]. Qed.

(* consumer steps with arbitrary contexts *)
Inductive rchain : srun_st -> list sev -> srun_st -> Prop :=
| rchain_nil s : rchain s [] s
| rchain_step live s o s1 ev1 ev2 s2 :
    srun_next live s = (o, s1, ev1) -> rchain s1 ev2 s2 -> rchain s (ev1 ++ ev2) s2.

Lemma rchain_evrel s ev s' : rchain s ev s' -> evrel rall ropn s ev s'.
Proof.
  induction 1 as [|live s o s1 ev1 ev2 s2 Hn Hc IH]; [apply evrel_refl|].
  eapply evrel_trans; [eapply srun_next_ev; exact Hn|exact IH].
Qed.

Lemma srun_steps_chain ids : forall lives s log steps log',
  srun_steps ids s log (map CNext lives ++ [CClose]) = (steps, log') ->
  length steps = S (length lives) ->
  exists s' ev, rchain s ev s' /\ log' = log ++ ev ++ srun_close s'.
Proof.
  induction lives as [|b lives IH]; intros s log steps log' Hc Hl; simpl in Hc.
  - injection Hc as ? ?; subst. exists s, []. split; [constructor|reflexivity].
  - destruct (srun_next b s) as [[o s1] ev1] eqn:E.
    destruct (stops o).
    + injection Hc as ? ?; subst. simpl in Hl. lia.
    + destruct (srun_steps ids s1 (log ++ ev1) (map CNext lives ++ [CClose])) as [r l] eqn:E2.
      injection Hc as ? ?; subst. simpl in Hl.
      destruct (IH _ _ _ _ E2 ltac:(lia)) as (s' & ev & Hch & Hlog).
      exists s', (ev1 ++ ev). split; [eapply rchain_step; eauto|].
      rewrite Hlog, <- !app_assoc. reflexivity.
Qed.

(* counting Close events *)
Lemma count_close_cids id l : count_close id l = count_occ Nat.eq_dec (cids l) id.
Proof.
  unfold count_close. induction l as [|e t IH]; simpl; [reflexivity|].
  destruct e as [j|j]; simpl; [exact IH|].
  destruct (Nat.eqb_spec j id) as [He|He]; destruct (Nat.eq_dec j id); simpl; try lia;
    try congruence.
Qed.

Lemma count_close_once id l : NoDup (cids l) -> In id (cids l) -> count_close id l = 1%nat.
Proof.
  intros Hn Hi. rewrite count_close_cids.
  pose proof (proj1 (NoDup_count_occ Nat.eq_dec (cids l)) Hn id) as H1.
  pose proof (proj1 (count_occ_In Nat.eq_dec (cids l) id) Hi) as H2. lia.
Qed.

(* what holds of the log [ev ++ close] of a completed run from state s0 *)
Lemma closed_run_props (all opn : srun_st -> list nat) s0 ev s' :
  evrel all opn s0 ev s' -> NoDup (all s0) ->
  incl (opn s') (all s') -> NoDup (opn s') ->
  let L := ev ++ map SevClose (opn s') in
  log_ok L /\
  (forall id, In id (opn s0) -> count_close id L = 1%nat) /\
  (forall id, In id (tids L) -> count_close id L = 1%nat) /\
  incl (tids L) (all s0).
Proof.
  intros Hev Hn Hsub Hond L. destruct (Hev Hn) as (A1 & A2 & A3 & A4 & A5 & A6).
  assert (Hlog : log_ok L).
  { apply log_ok_app; [exact A4|apply log_ok_closes; exact Hond|].
    intros x Hx. rewrite tids_closes. intros Hx2.
    apply (NoDup_app_disj _ _ x A1 Hx). apply Hsub. exact Hx2. }
  assert (Hc : cids L = cids ev ++ opn s').
  { unfold L. rewrite cids_app, cids_closes. reflexivity. }
  assert (Hnd : NoDup (cids L)) by (apply log_ok_nodup_cids; exact Hlog).
  split; [exact Hlog|]. split; [|split].
  - intros id Hid. apply count_close_once; [exact Hnd|]. rewrite Hc. apply A5. exact Hid.
  - intros id Hid. apply count_close_once; [exact Hnd|]. rewrite Hc.
    unfold L in Hid. rewrite tids_app, tids_closes, in_app_iff in Hid.
    destruct Hid as [Hid|Hid]; [apply A6; exact Hid|apply in_or_app; right; exact Hid].
  - unfold L. rewrite tids_app, tids_closes. intros x Hx. rewrite in_app_iff in Hx.
    destruct Hx as [Hx|Hx]; [apply A3; exact Hx|].
    apply A2. apply in_or_app. right. apply Hsub. exact Hx.
Qed.

(* ---- initial states: ids and ownership ---- *)
(* the sources handed to the pipeline itself: all of them except those inside inner pipelines of
   a Flatten, which are obtained only when Flatten pulls them *)
Fixpoint pz_owned (p : pz) : list nat :=
  match p with
  | ZSrc id _ => [id]
  | ZPeek p | ZCompact _ p | ZFilter _ _ p | ZFirst _ p | ZMap _ _ p | ZWhile _ _ p => pz_owned p
  | ZFlatten _ => []
  | ZJoin ps => flat_map pz_owned ps
  | ZFlattenSlices q => pl_owned q
  end
with pl_owned (q : pl) : list nat :=
  match q with
  | LChunk _ p => pz_owned p
  | LRuns _ _ p => pz_owned p
  end.
Definition pipe_owned (p : pz + pl) : list nat :=
  match p with inl p => pz_owned p | inr q => pl_owned q end.

Lemma flat_map_map_ext {A B} (f : A -> B) (g : B -> list nat) (h : A -> list nat) l :
  Forall (fun x => g (f x) = h x) l -> flat_map g (map f l) = flat_map h l.
Proof. induction 1 as [|x t Hx Ht IH]; simpl; [reflexivity|]. rewrite Hx, IH. reflexivity. Qed.

Lemma sinit_ids :
  (forall p, sall (sinit p) = pz_ids p /\ sopn (sinit p) = pz_owned p) /\
  (forall q, slall (slinit q) = pl_ids q /\ slopn (slinit q) = pl_owned q).
Proof.
  apply pipe_ind; simpl; intros; auto.
  - split; [|reflexivity]. apply flat_map_map_ext.
    eapply Forall_impl; [|exact H]. intros x [Hx _]. exact Hx.
  - split; apply flat_map_map_ext; (eapply Forall_impl; [|exact H]); intros x [Hx Hy]; auto.
Qed.

Lemma srun_init_ids p : rall (srun_init p) = pipe_ids p /\ ropn (srun_init p) = pipe_owned p.
Proof. destruct p as [p|q]; simpl; [apply (proj1 sinit_ids)|apply (proj2 sinit_ids)]. Qed.

(* C09 for k Next calls (any contexts, any faults) followed by Close, when the run was not cut
   short by a panic *)
Theorem stream_close_steps cfg p lives :
  NoDup (pipe_ids p) ->
  let run := run_stream_cfg cfg p (Steps (map CNext lives ++ [CClose])) in
  length (ro_steps run) = S (length lives) ->
  let L := ro_log run in
  log_ok L /\
  (forall id, In id (pipe_owned p) -> count_close id L = 1%nat) /\
  (forall id, In id (tids L) -> count_close id L = 1%nat) /\
  incl (tids L) (pipe_ids p).
Proof.
  intros Hn run Hlen L. unfold run, L, run_stream_cfg in *.
  destruct (srun_steps (sort_ids (pipe_ids p)) (srun_init p) [] (map CNext lives ++ [CClose]))
    as [steps log] eqn:E. simpl in *.
  destruct (srun_steps_chain _ _ _ _ _ _ E Hlen) as (s' & ev & Hch & Hlog).
  simpl in Hlog. subst log. destruct (srun_close_opn s') as [Hcl Hsub]. rewrite Hcl.
  destruct (srun_init_ids p) as [Ha Ho]. rewrite <- Ha in Hn. rewrite <- Ha, <- Ho.
  pose proof (rchain_evrel _ _ _ Hch) as Hev.
  apply (closed_run_props rall ropn _ _ _ Hev Hn Hsub).
  apply ropn_nodup. destruct (Hev Hn) as (A1 & _). eapply NoDup_app_r. exact A1.
Qed.

(* ---- reducers ---- *)
Lemma sreduce_loop_chain {A} n live (f : A -> Z -> cbres A) : forall acc s o s' ev,
  sreduce_loop n live f acc s = (o, s', ev) -> chain (sstep live) s ev s'.
Proof.
  induction n as [|n IH]; intros acc s o s' ev Hc; simpl in Hc.
  - inv_ret Hc. constructor.
  - destruct (sstep live s) as [[o1 s1] ev1] eqn:E.
    destruct o1 as [x| | | |]; try (inv_ret Hc; eapply chain_one; exact E).
    destruct (f acc x) as [acc'|e|]; try (inv_ret Hc; eapply chain_one; exact E).
    destruct (sreduce_loop n live f acc' s1) as [[o2 s2] ev2] eqn:E2.
    simpl in Hc. inv_ret Hc. eapply chain_step; [exact E|]. eapply IH. exact E2.
Qed.

Lemma slast_loop_chain k live n : forall buf i s o s' ev,
  slast_loop k live n buf i s = (o, s', ev) -> chain (sstep live) s ev s'.
Proof.
  induction k as [|k IH]; intros buf i s o s' ev Hc; simpl in Hc.
  - inv_ret Hc. constructor.
  - destruct (sstep live s) as [[o1 s1] ev1] eqn:E.
    destruct o1 as [x| | | |]; try (inv_ret Hc; eapply chain_one; exact E).
    destruct (n =? 0); [inv_ret Hc; eapply chain_one; exact E|].
    destruct (zset buf (Z.rem i n) x) as [buf'|]; [|inv_ret Hc; eapply chain_one; exact E].
    destruct (slast_loop k live n buf' (i + 1) s1) as [[o2 s2] ev2] eqn:E2.
    simpl in Hc. inv_ret Hc. eapply chain_step; [exact E|]. eapply IH. exact E2.
Qed.

Lemma sone_body_chain live s o s' ev :
  sone_body live s = (o, s', ev) -> chain (sstep live) s ev s'.
Proof.
  unfold sone_body. destruct (sstep live s) as [[o1 s1] ev1] eqn:E1.
  destruct o1 as [x| | | |]; try (intros Hc; inv_ret Hc; eapply chain_one; exact E1).
  destruct (sstep live s1) as [[o2 s2] ev2] eqn:E2.
  intros Hc. assert (C : chain (sstep live) s (ev1 ++ ev2) s2).
  { eapply chain_step; [exact E1|]. eapply chain_one. exact E2. }
  destruct o2; inv_ret Hc; exact C.
Qed.

(* the body of a reducer is a chain of Next calls; with its deferred Close the log is
   [ev ++ sclose s'] - whatever the body did, panics included *)
Definition closing_reducer (cfg : config) (r : reducer) : bool :=
  cfg_defer_close cfg &&
  match r with
  | RCollect | RLast _ | RSum _ => true
  | ROne => cfg_one_closes cfg
  | REqualSelf | REqual _ => false
  end.

Lemma srun_reduce_log cfg z r live o log :
  closing_reducer cfg r = true -> srun_reduce cfg z r live = (o, log) ->
  exists s' ev, chain (sstep live) (sinit z) ev s' /\ log = ev ++ sclose s'.
Proof.
  intros Hr. unfold closing_reducer in Hr. apply andb_true_iff in Hr. destruct Hr as [Hdf Hr].
  unfold srun_reduce. destruct r as [|n| |fl| |others]; simpl in Hr; try discriminate.
  - unfold scollect, sreduce, reducer_close. rewrite Hdf. unfold deferred_close.
    destruct (sreduce_loop (sred_fuel (sinit z)) live (fun out x => CbOk (out ++ [x])) []
                           (sinit z))
      as [[o1 s1] ev1] eqn:E.
    intros Hc. injection Hc as ? ?; subst. exists s1, ev1.
    split; [eapply sreduce_loop_chain; exact E|reflexivity].
  - unfold slast, reducer_close. rewrite Hdf. unfold deferred_close.
    destruct (cfg_last_guard cfg && (n <=? 0)).
    + destruct (sreduce_loop (sred_fuel (sinit z)) live (fun (u : unit) _ => CbOk u) tt (sinit z))
        as [[o1 s1] ev1] eqn:E.
      intros Hc. exists s1, ev1. split; [eapply sreduce_loop_chain; exact E|].
      destruct o1; injection Hc as ? ?; subst; reflexivity.
    + destruct (n <? 0).
      * intros Hc. injection Hc as ? ?; subst. exists (sinit z), []. split; [constructor|].
        reflexivity.
      * destruct (slast_loop (sred_fuel (sinit z)) live n (zrepeat 0 n) 0 (sinit z))
          as [[o1 s1] ev1] eqn:E.
        intros Hc. exists s1, ev1. split; [eapply slast_loop_chain; exact E|].
        destruct o1 as [[buf i]| | | |]; injection Hc as ? ?; subst; reflexivity.
  - unfold sone. rewrite Hr. unfold reducer_close. rewrite Hdf. unfold deferred_close.
    destruct (sone_body live (sinit z)) as [[o1 s1] ev1] eqn:E.
    intros Hc. injection Hc as ? ?; subst. exists s1, ev1.
    split; [eapply sone_body_chain; exact E|reflexivity].
  - unfold sreduce, reducer_close. rewrite Hdf. unfold deferred_close.
    destruct (sreduce_loop (sred_fuel (sinit z)) live (ssum_step fl) (O, 0) (sinit z))
      as [[o1 s1] ev1] eqn:E.
    intros Hc. injection Hc as ? ?; subst. exists s1, ev1.
    split; [eapply sreduce_loop_chain; exact E|reflexivity].
Qed.

(* C09 for reducers that close (all of them in the repaired configuration) *)
Theorem stream_close_reduce cfg z r live :
  closing_reducer cfg r = true -> NoDup (pz_ids z) ->
  let L := ro_log (run_stream_cfg cfg (inl z) (Reduce r live)) in
  log_ok L /\
  (forall id, In id (pz_owned z) -> count_close id L = 1%nat) /\
  (forall id, In id (tids L) -> count_close id L = 1%nat) /\
  incl (tids L) (pz_ids z).
Proof.
  intros Hr Hn L. unfold L, run_stream_cfg.
  destruct (srun_reduce cfg z r live) as [o log] eqn:E. simpl.
  destruct (srun_reduce_log _ _ _ _ _ _ Hr E) as (s' & ev & Hch & Hlog). subst log.
  destruct (proj1 sclose_opn s') as [Hcl Hsub]. rewrite Hcl.
  destruct (proj1 sinit_ids z) as [Ha Ho]. rewrite <- Ha in Hn. rewrite <- Ha, <- Ho.
  assert (Hev : evrel sall sopn (sinit z) ev s').
  { eapply chain_evrel; [|exact Hch]. intros. eapply sstep_ev. eassumption. }
  pose proof (closed_run_props (fun s => match s with QZ s => sall s | QL q => slall q end)
                               (fun s => match s with QZ s => sopn s | QL q => slopn q end)
                               (QZ (sinit z)) ev (QZ s')) as H.
  simpl in H. apply H; auto.
  apply (proj1 sopn_nodup). destruct (Hev Hn) as (A1 & _). eapply NoDup_app_r. exact A1.
Qed.

(* stream.One before the repair never closed its stream *)
Theorem stream_one_close_refuted :
  exists z live, NoDup (pz_ids z) /\
    let L := ro_log (run_stream_cfg original_cfg (inl z) (Reduce ROne live)) in
    exists id, In id (pz_owned z) /\ count_close id L = 0%nat.
Proof.
  exists (ZSrc 0 (SSlice [4])), true. split; [repeat constructor; simpl; tauto|].
  exists 0%nat. vm_compute. auto.
Qed.
