(* Laziness, general statement, part (a): PREFIX DETERMINACY for all iterator pipelines.

   Two pipelines of the same shape (same combinators, parameters and source ids) whose sources
   answer the same to the first n_id Next calls - where n_id is the number of Next calls source id
   receives during a run of the FIRST pipeline - produce the same results, the same pull counts
   and the same log in that run.  So the results obtained so far never depend on source items
   that have not been pulled: the unread suffix of every source can be replaced by anything.

   Proof: a simulation indexed by the part L of the log that is still to come.  Two states are
   related under L when they have the same shape and scalar fields and every pair of
   corresponding sources agrees on the first (count_next id L) answers.  One generic lemma per
   transcription (any inner Next functions, any fuels on the two sides: the second run either
   runs out of fuel or agrees), tied together by induction on the fuel.  Fuel independence of
   [inext] is a corollary. *)
From Juniper Require Import Common.Base Iter.Syntax Iter.Config Iter.ModelBase Iter.IterModel
  Iter.Spec Iter.Contract Iter.IterProofs.

(* ---- the simulation statement ---- *)
Section PDDef.
  Context {A S1 S2 : Type}.
  (* f2 on s2 either runs out of fuel or answers exactly like f1 on s1, when s1 and s2 are related
     under the events of the call followed by L; the successors are related under L *)
  Definition pd_sim (R : list sev -> S1 -> S2 -> Prop) (f1 : S1 -> ret A S1) (f2 : S2 -> ret A S2)
    : Prop :=
    forall L s1 s2 o s1' ev o2 s2' ev2,
      f1 s1 = (o, s1', ev) -> o <> Out -> R (ev ++ L) s1 s2 -> f2 s2 = (o2, s2', ev2) ->
      o2 = Out \/ (o2 = o /\ ev2 = ev /\ R L s1' s2').
End PDDef.

Ltac pd_out H2 := subst; simpl in H2; inv_ret H2; left; reflexivity.

Section GenericPD.
  Context {S1 S2 : Type} (nx1 : S1 -> ret Z S1) (nx2 : S2 -> ret Z S2)
          (R : list sev -> S1 -> S2 -> Prop).
  Hypothesis Hsim : pd_sim R nx1 nx2.
  Hypothesis Hweak : forall ev L s1 s2, R (ev ++ L) s1 s2 -> R L s1 s2.

  Definition Rpk (L : list sev) (p1 : pk S1) (p2 : pk S2) : Prop :=
    pk_has p2 = pk_has p1 /\ pk_curr p2 = pk_curr p1 /\ R L (pk_in p1) (pk_in p2).

  Lemma Rpk_weak ev L p1 p2 : Rpk (ev ++ L) p1 p2 -> Rpk L p1 p2.
  Proof. intros (H1 & H2 & H3). split; [exact H1|]. split; [exact H2|]. eapply Hweak; eauto. Qed.

  Lemma ipk_next_pd : pd_sim Rpk (ipk_next nx1) (ipk_next nx2).
  Proof.
    unfold pd_sim, Rpk.
    intros L [h1 c1 s1] [h2 c2 s2] o p1' ev o2 p2' ev2 H1 Hno (Hh & Hc & HR) H2.
    unfold ipk_next in *. simpl in *. subst h2 c2. destruct h1.
    - inv_ret H1. inv_ret H2. right. repeat split; auto.
    - destruct (nx1 s1) as [[a1 t1] e1] eqn:E1. destruct (nx2 s2) as [[a2 t2] e2] eqn:E2.
      inv_ret H1. inv_ret H2.
      destruct (Hsim _ _ _ _ _ _ _ _ _ E1 Hno HR E2) as [Ho|(Ho & He & HR')]; [left; exact Ho|].
      right. subst. repeat split; auto.
  Qed.

  Lemma ipk_peek_pd : pd_sim Rpk (ipk_peek nx1) (ipk_peek nx2).
  Proof.
    unfold pd_sim, Rpk.
    intros L [h1 c1 s1] [h2 c2 s2] o p1' ev o2 p2' ev2 H1 Hno (Hh & Hc & HR) H2.
    unfold ipk_peek in *. simpl in *. subst h2 c2. destruct h1.
    - inv_ret H1. inv_ret H2. right. repeat split; auto.
    - destruct (nx1 s1) as [[a1 t1] e1] eqn:E1. destruct (nx2 s2) as [[a2 t2] e2] eqn:E2.
      assert (Ha1 : a1 <> Out) by (intros Hx; subst a1; inv_ret H1; congruence).
      assert (He1 : ev = e1) by (destruct a1; inv_ret H1; reflexivity).
      rewrite He1 in HR.
      destruct (Hsim _ _ _ _ _ _ _ _ _ E1 Ha1 HR E2) as [Ho|(Ho & He & HR')]; [pd_out H2|].
      subst a2 e2. right.
      destruct a1; inv_ret H1; inv_ret H2; repeat split; auto.
  Qed.

  Lemma icompact_pd r : forall n1 n2 first prev L s1 s2 o f1 p1 s1' ev o2 f2 p2 s2' ev2,
    icompact nx1 n1 r first prev s1 = (o, (f1, p1, s1'), ev) -> o <> Out -> R (ev ++ L) s1 s2 ->
    icompact nx2 n2 r first prev s2 = (o2, (f2, p2, s2'), ev2) ->
    o2 = Out \/ (o2 = o /\ ev2 = ev /\ f2 = f1 /\ p2 = p1 /\ R L s1' s2').
  Proof.
    induction n1 as [|n1 IH];
      intros n2 first prev L s1 s2 o f1 p1 s1' ev o2 f2 p2 s2' ev2 H1 Hno HR H2; simpl in H1.
    - inv_ret H1. congruence.
    - destruct n2 as [|n2]; simpl in H2; [inv_ret H2; left; reflexivity|].
      destruct (nx1 s1) as [[a1 t1] e1] eqn:E1. destruct (nx2 s2) as [[a2 t2] e2] eqn:E2.
      destruct a1 as [x| | | |].
      + destruct first.
        * inv_ret H1.
          destruct (Hsim _ _ _ _ _ _ _ _ _ E1 Hno HR E2) as [Ho|(Ho & He & HR')]; [pd_out H2|].
          subst a2 e2. inv_ret H2. right. repeat split; auto.
        * destruct (negb (rel_eval r prev x)) eqn:Er.
          -- inv_ret H1.
             destruct (Hsim _ _ _ _ _ _ _ _ _ E1 Hno HR E2) as [Ho|(Ho & He & HR')]; [pd_out H2|].
             subst a2 e2. rewrite Er in H2. inv_ret H2. right. repeat split; auto.
          -- destruct (icompact nx1 n1 r false prev t1) as [[o3 [[f3 p3] t3]] e3] eqn:E3.
             simpl in H1. inv_ret H1. rewrite <- app_assoc in HR.
             destruct (Hsim _ _ _ _ _ _ _ _ _ E1 ltac:(discriminate) HR E2)
               as [Ho|(Ho & He & HR')]; [pd_out H2|].
             subst a2 e2. rewrite Er in H2.
             destruct (icompact nx2 n2 r false prev t2) as [[o4 [[f4 p4] t4]] e4] eqn:E4.
             simpl in H2. inv_ret H2.
             destruct (IH _ _ _ _ _ _ _ _ _ _ _ _ _ _ _ _ E3 Hno HR' E4)
               as [Ho|(Ho & He & Hf & Hp & HR'')]; [left; exact Ho|].
             right. subst. repeat split; auto.
      + inv_ret H1.
        destruct (Hsim _ _ _ _ _ _ _ _ _ E1 Hno HR E2) as [Ho|(Ho & He & HR')]; [pd_out H2|].
        subst a2 e2. inv_ret H2. right. repeat split; auto.
      + inv_ret H1.
        destruct (Hsim _ _ _ _ _ _ _ _ _ E1 Hno HR E2) as [Ho|(Ho & He & HR')]; [pd_out H2|].
        subst a2 e2. inv_ret H2. right. repeat split; auto.
      + inv_ret H1.
        destruct (Hsim _ _ _ _ _ _ _ _ _ E1 Hno HR E2) as [Ho|(Ho & He & HR')]; [pd_out H2|].
        subst a2 e2. inv_ret H2. right. repeat split; auto.
      + inv_ret H1. congruence.
  Qed.

  Lemma ifilter_pd keep fl : forall n1 n2 calls L s1 s2 o c1 s1' ev o2 c2 s2' ev2,
    ifilter nx1 n1 keep fl calls s1 = (o, (c1, s1'), ev) -> o <> Out -> R (ev ++ L) s1 s2 ->
    ifilter nx2 n2 keep fl calls s2 = (o2, (c2, s2'), ev2) ->
    o2 = Out \/ (o2 = o /\ ev2 = ev /\ c2 = c1 /\ R L s1' s2').
  Proof.
    induction n1 as [|n1 IH]; intros n2 calls L s1 s2 o c1 s1' ev o2 c2 s2' ev2 H1 Hno HR H2;
      simpl in H1.
    - inv_ret H1. congruence.
    - destruct n2 as [|n2]; simpl in H2; [inv_ret H2; left; reflexivity|].
      destruct (nx1 s1) as [[a1 t1] e1] eqn:E1. destruct (nx2 s2) as [[a2 t2] e2] eqn:E2.
      destruct a1 as [x| | | |].
      + destruct (panics_now fl calls) eqn:Epn.
        { inv_ret H1.
          destruct (Hsim _ _ _ _ _ _ _ _ _ E1 ltac:(discriminate) HR E2)
            as [Ho|(Ho & He & HR')]; [pd_out H2|].
          subst a2 e2. inv_ret H2. right. repeat split; auto. }
        destruct (pred_eval keep x) eqn:Ek.
        * inv_ret H1.
          destruct (Hsim _ _ _ _ _ _ _ _ _ E1 Hno HR E2) as [Ho|(Ho & He & HR')]; [pd_out H2|].
          subst a2 e2. rewrite Ek in H2. inv_ret H2. right. repeat split; auto.
        * destruct (ifilter nx1 n1 keep fl (S calls) t1) as [[o3 [c3 t3]] e3] eqn:E3.
          simpl in H1. inv_ret H1. rewrite <- app_assoc in HR.
          destruct (Hsim _ _ _ _ _ _ _ _ _ E1 ltac:(discriminate) HR E2)
            as [Ho|(Ho & He & HR')]; [pd_out H2|].
          subst a2 e2. rewrite Ek in H2.
          destruct (ifilter nx2 n2 keep fl (S calls) t2) as [[o4 [c4 t4]] e4] eqn:E4.
          simpl in H2. inv_ret H2.
          destruct (IH _ _ _ _ _ _ _ _ _ _ _ _ _ E3 Hno HR' E4) as [Ho|(Ho & He & Hcc & HR'')];
            [left; exact Ho|].
          right. subst. repeat split; auto.
      + inv_ret H1.
        destruct (Hsim _ _ _ _ _ _ _ _ _ E1 Hno HR E2) as [Ho|(Ho & He & HR')]; [pd_out H2|].
        subst a2 e2. inv_ret H2. right. repeat split; auto.
      + inv_ret H1.
        destruct (Hsim _ _ _ _ _ _ _ _ _ E1 Hno HR E2) as [Ho|(Ho & He & HR')]; [pd_out H2|].
        subst a2 e2. inv_ret H2. right. repeat split; auto.
      + inv_ret H1.
        destruct (Hsim _ _ _ _ _ _ _ _ _ E1 Hno HR E2) as [Ho|(Ho & He & HR')]; [pd_out H2|].
        subst a2 e2. inv_ret H2. right. repeat split; auto.
      + inv_ret H1. congruence.
  Qed.

  Lemma ifirst_pd x L s1 s2 o x1 s1' ev o2 x2 s2' ev2 :
    ifirst nx1 x s1 = (o, (x1, s1'), ev) -> o <> Out -> R (ev ++ L) s1 s2 ->
    ifirst nx2 x s2 = (o2, (x2, s2'), ev2) ->
    o2 = Out \/ (o2 = o /\ ev2 = ev /\ x2 = x1 /\ R L s1' s2').
  Proof.
    unfold ifirst. intros H1 Hno HR H2. destruct (x <=? 0).
    - inv_ret H1. inv_ret H2. right. repeat split; auto.
    - destruct (nx1 s1) as [[a1 t1] e1] eqn:E1. destruct (nx2 s2) as [[a2 t2] e2] eqn:E2.
      inv_ret H1. inv_ret H2.
      destruct (Hsim _ _ _ _ _ _ _ _ _ E1 Hno HR E2) as [Ho|(Ho & He & HR')]; [left; exact Ho|].
      right. subst. repeat split; auto.
  Qed.

  Lemma imap_pd f fl calls L s1 s2 o c1 s1' ev o2 c2 s2' ev2 :
    imap nx1 f fl calls s1 = (o, (c1, s1'), ev) -> o <> Out -> R (ev ++ L) s1 s2 ->
    imap nx2 f fl calls s2 = (o2, (c2, s2'), ev2) ->
    o2 = Out \/ (o2 = o /\ ev2 = ev /\ c2 = c1 /\ R L s1' s2').
  Proof.
    intros H1 Hno HR H2. unfold imap in *.
    destruct (nx1 s1) as [[a1 t1] e1] eqn:E1. destruct (nx2 s2) as [[a2 t2] e2] eqn:E2.
    assert (Ha1 : a1 <> Out) by (intros Hx; subst a1; inv_ret H1; congruence).
    assert (He1 : ev = e1)
      by (destruct a1; [destruct (panics_now fl calls)| | | |]; inv_ret H1; reflexivity).
    rewrite He1 in HR.
    destruct (Hsim _ _ _ _ _ _ _ _ _ E1 Ha1 HR E2) as [Ho|(Ho & He & HR')]; [pd_out H2|].
    subst a2 e2. right.
    destruct a1; [destruct (panics_now fl calls)| | | |]; inv_ret H1; inv_ret H2;
      repeat split; auto.
  Qed.

  Lemma iwhile_pd f fl calls done L s1 s2 o c1 d1 s1' ev o2 c2 d2 s2' ev2 :
    iwhile nx1 f fl calls done s1 = (o, (c1, d1, s1'), ev) -> o <> Out -> R (ev ++ L) s1 s2 ->
    iwhile nx2 f fl calls done s2 = (o2, (c2, d2, s2'), ev2) ->
    o2 = Out \/ (o2 = o /\ ev2 = ev /\ c2 = c1 /\ d2 = d1 /\ R L s1' s2').
  Proof.
    unfold iwhile. intros H1 Hno HR H2. destruct done.
    - inv_ret H1. inv_ret H2. right. repeat split; auto.
    - destruct (nx1 s1) as [[a1 t1] e1] eqn:E1. destruct (nx2 s2) as [[a2 t2] e2] eqn:E2.
      assert (Ha1 : a1 <> Out) by (intros Hx; subst a1; inv_ret H1; congruence).
      assert (He1 : ev = e1)
        by (destruct a1 as [y| | | |];
            [destruct (panics_now fl calls); [|destruct (pred_eval f y)]| | | |];
            inv_ret H1; reflexivity).
      rewrite He1 in HR.
      destruct (Hsim _ _ _ _ _ _ _ _ _ E1 Ha1 HR E2) as [Ho|(Ho & He & HR')]; [pd_out H2|].
      subst a2 e2. right.
      destruct a1 as [y| | | |];
        [destruct (panics_now fl calls); [|destruct (pred_eval f y)]| | | |];
        inv_ret H1; inv_ret H2; repeat split; auto.
  Qed.

  Definition Ropt (L : list sev) (c1 : option S1) (c2 : option S2) : Prop :=
    match c1, c2 with
    | Some a, Some b => R L a b
    | None, None => True
    | _, _ => False
    end.

  Lemma Forall2_weak ev L l1 l2 : Forall2 (R (ev ++ L)) l1 l2 -> Forall2 (R L) l1 l2.
  Proof. induction 1; constructor; eauto. Qed.

  Lemma iflatten_pd : forall n1 n2 L r1 c1 r2 c2 o r1' c1' ev o2 r2' c2' ev2,
    iflatten nx1 n1 r1 c1 = (o, (r1', c1'), ev) -> o <> Out ->
    Forall2 (R (ev ++ L)) r1 r2 -> Ropt (ev ++ L) c1 c2 ->
    iflatten nx2 n2 r2 c2 = (o2, (r2', c2'), ev2) ->
    o2 = Out \/ (o2 = o /\ ev2 = ev /\ Forall2 (R L) r1' r2' /\ Ropt L c1' c2').
  Proof.
    induction n1 as [|n1 IH];
      intros n2 L r1 c1 r2 c2 o r1' c1' ev o2 r2' c2' ev2 H1 Hno HF HC H2; simpl in H1.
    - inv_ret H1. congruence.
    - destruct n2 as [|n2]; simpl in H2; [inv_ret H2; left; reflexivity|].
      destruct c1 as [a|]; destruct c2 as [b|]; simpl in HC; try contradiction.
      + destruct (nx1 a) as [[a1 t1] e1] eqn:E1. destruct (nx2 b) as [[a2 t2] e2] eqn:E2.
        destruct a1 as [x| | | |].
        * inv_ret H1.
          destruct (Hsim _ _ _ _ _ _ _ _ _ E1 Hno HC E2) as [Ho|(Ho & He & HR')]; [pd_out H2|].
          subst a2 e2. inv_ret H2. right. repeat split; auto. eapply Forall2_weak; eauto.
        * destruct (iflatten nx1 n1 r1 None) as [[o3 [r3 c3]] e3] eqn:E3.
          simpl in H1. inv_ret H1. rewrite <- app_assoc in HC, HF.
          destruct (Hsim _ _ _ _ _ _ _ _ _ E1 ltac:(discriminate) HC E2)
            as [Ho|(Ho & He & HR')]; [pd_out H2|].
          subst a2 e2.
          destruct (iflatten nx2 n2 r2 None) as [[o4 [r4 c4]] e4] eqn:E4.
          simpl in H2. inv_ret H2.
          destruct (IH n2 L r1 None r2 None _ _ _ _ _ _ _ _ E3 Hno (Forall2_weak _ _ _ _ HF) I E4)
            as [Ho|(Ho & He & HF' & HC')]; [left; exact Ho|].
          right. subst. repeat split; auto.
        * inv_ret H1.
          destruct (Hsim _ _ _ _ _ _ _ _ _ E1 Hno HC E2) as [Ho|(Ho & He & HR')]; [pd_out H2|].
          subst a2 e2. inv_ret H2. right. repeat split; auto. eapply Forall2_weak; eauto.
        * inv_ret H1.
          destruct (Hsim _ _ _ _ _ _ _ _ _ E1 Hno HC E2) as [Ho|(Ho & He & HR')]; [pd_out H2|].
          subst a2 e2. inv_ret H2. right. repeat split; auto. eapply Forall2_weak; eauto.
        * inv_ret H1. congruence.
      + destruct r1 as [|a r1]; inversion HF as [|a0 b0 ra rb Hab Hrr]; subst.
        * inv_ret H1. inv_ret H2. right. repeat split; auto.
        * exact (IH n2 L r1 (Some a) rb (Some b0) _ _ _ _ _ _ _ _ H1 Hno Hrr Hab H2).
  Qed.

  Lemma ijoin_pd : forall n1 n2 L l1 l2 o l1' ev o2 l2' ev2,
    ijoin nx1 n1 l1 = (o, l1', ev) -> o <> Out -> Forall2 (R (ev ++ L)) l1 l2 ->
    ijoin nx2 n2 l2 = (o2, l2', ev2) ->
    o2 = Out \/ (o2 = o /\ ev2 = ev /\ Forall2 (R L) l1' l2').
  Proof.
    induction n1 as [|n1 IH]; intros n2 L l1 l2 o l1' ev o2 l2' ev2 H1 Hno HF H2; simpl in H1.
    - inv_ret H1. congruence.
    - destruct n2 as [|n2]; simpl in H2; [inv_ret H2; left; reflexivity|].
      destruct l1 as [|a r1]; inversion HF as [|a0 b r1a r2 Hab Hrr]; subst.
      + inv_ret H1. inv_ret H2. right. repeat split; auto.
      + destruct (nx1 a) as [[a1 t1] e1] eqn:E1. destruct (nx2 b) as [[a2 t2] e2] eqn:E2.
        destruct a1 as [x| | | |].
        * inv_ret H1.
          destruct (Hsim _ _ _ _ _ _ _ _ _ E1 Hno Hab E2) as [Ho|(Ho & He & HR')]; [pd_out H2|].
          subst a2 e2. inv_ret H2. right. repeat split; auto.
          constructor; [exact HR'|eapply Forall2_weak; eauto].
        * destruct (ijoin nx1 n1 r1) as [[o3 r3] e3] eqn:E3.
          simpl in H1. inv_ret H1. rewrite <- app_assoc in Hab, Hrr.
          destruct (Hsim _ _ _ _ _ _ _ _ _ E1 ltac:(discriminate) Hab E2)
            as [Ho|(Ho & He & HR')]; [pd_out H2|].
          subst a2 e2.
          destruct (ijoin nx2 n2 r2) as [[o4 r4] e4] eqn:E4. simpl in H2. inv_ret H2.
          destruct (IH _ _ _ _ _ _ _ _ _ _ E3 Hno (Forall2_weak _ _ _ _ Hrr) E4)
            as [Ho|(Ho & He & HF')]; [left; exact Ho|].
          right. subst. repeat split; auto.
        * inv_ret H1.
          destruct (Hsim _ _ _ _ _ _ _ _ _ E1 Hno Hab E2) as [Ho|(Ho & He & HR')]; [pd_out H2|].
          subst a2 e2. inv_ret H2. right. repeat split; auto.
          constructor; [exact HR'|eapply Forall2_weak; eauto].
        * inv_ret H1.
          destruct (Hsim _ _ _ _ _ _ _ _ _ E1 Hno Hab E2) as [Ho|(Ho & He & HR')]; [pd_out H2|].
          subst a2 e2. inv_ret H2. right. repeat split; auto.
          constructor; [exact HR'|eapply Forall2_weak; eauto].
        * inv_ret H1. congruence.
  Qed.

  Lemma ichunk_loop_pd size : forall n1 n2 chunk L s1 s2 o s1' ev o2 s2' ev2,
    ichunk_loop nx1 n1 size chunk s1 = (o, s1', ev) -> o <> Out -> R (ev ++ L) s1 s2 ->
    ichunk_loop nx2 n2 size chunk s2 = (o2, s2', ev2) ->
    o2 = Out \/ (o2 = o /\ ev2 = ev /\ R L s1' s2').
  Proof.
    induction n1 as [|n1 IH]; intros n2 chunk L s1 s2 o s1' ev o2 s2' ev2 H1 Hno HR H2;
      simpl in H1.
    - inv_ret H1. congruence.
    - destruct n2 as [|n2]; simpl in H2; [inv_ret H2; left; reflexivity|].
      destruct (nx1 s1) as [[a1 t1] e1] eqn:E1. destruct (nx2 s2) as [[a2 t2] e2] eqn:E2.
      destruct a1 as [x| | | |].
      + destruct (zlen (chunk ++ [x]) =? size) eqn:Ez.
        * inv_ret H1.
          destruct (Hsim _ _ _ _ _ _ _ _ _ E1 ltac:(discriminate) HR E2)
            as [Ho|(Ho & He & HR')]; [pd_out H2|].
          subst a2 e2. rewrite Ez in H2. inv_ret H2. right. repeat split; auto.
        * destruct (ichunk_loop nx1 n1 size (chunk ++ [x]) t1) as [[o3 t3] e3] eqn:E3.
          simpl in H1. inv_ret H1. rewrite <- app_assoc in HR.
          destruct (Hsim _ _ _ _ _ _ _ _ _ E1 ltac:(discriminate) HR E2)
            as [Ho|(Ho & He & HR')]; [pd_out H2|].
          subst a2 e2. rewrite Ez in H2.
          destruct (ichunk_loop nx2 n2 size (chunk ++ [x]) t2) as [[o4 t4] e4] eqn:E4.
          simpl in H2. inv_ret H2.
          destruct (IH _ _ _ _ _ _ _ _ _ _ _ E3 Hno HR' E4) as [Ho|(Ho & He & HR'')];
            [left; exact Ho|].
          right. subst. repeat split; auto.
      + destruct (0 <? zlen chunk) eqn:Ez; inv_ret H1;
          (destruct (Hsim _ _ _ _ _ _ _ _ _ E1 ltac:(discriminate) HR E2)
            as [Ho|(Ho & He & HR')]; [pd_out H2|]);
          subst a2 e2; inv_ret H2; right; repeat split; auto.
      + inv_ret H1.
        destruct (Hsim _ _ _ _ _ _ _ _ _ E1 ltac:(discriminate) HR E2) as [Ho|(Ho & He & HR')]; [pd_out H2|].
        subst a2 e2. inv_ret H2. right. repeat split; auto.
      + inv_ret H1.
        destruct (Hsim _ _ _ _ _ _ _ _ _ E1 ltac:(discriminate) HR E2) as [Ho|(Ho & He & HR')]; [pd_out H2|].
        subst a2 e2. inv_ret H2. right. repeat split; auto.
      + inv_ret H1. congruence.
  Qed.

  Lemma ichunk_pd size n1 n2 : pd_sim R (ichunk nx1 n1 size) (ichunk nx2 n2 size).
  Proof.
    intros L s1 s2 o s1' ev o2 s2' ev2 H1 Hno HR H2. unfold ichunk in *. destruct (size <? 0).
    - inv_ret H1. inv_ret H2. right. repeat split; auto.
    - eapply ichunk_loop_pd; eauto.
  Qed.

  (* ---- Runs ---- *)
  Lemma iruns_inner_pd r cur L p1 p2 o c1 p1' ev o2 c2 p2' ev2 :
    iruns_inner nx1 r cur p1 = (o, (c1, p1'), ev) -> o <> Out -> Rpk (ev ++ L) p1 p2 ->
    iruns_inner nx2 r cur p2 = (o2, (c2, p2'), ev2) ->
    o2 = Out \/ (o2 = o /\ ev2 = ev /\ c2 = c1 /\ Rpk L p1' p2').
  Proof.
    unfold iruns_inner. destruct cur as [prev alive]. intros H1 Hno HR H2.
    destruct (negb alive).
    - inv_ret H1. inv_ret H2. right. repeat split; auto; apply HR.
    - destruct (ipk_peek nx1 p1) as [[a1 q1] e1] eqn:E1.
      destruct (ipk_peek nx2 p2) as [[a2 q2] e2] eqn:E2.
      destruct a1 as [x| | | |].
      + destruct (rel_eval r prev x) eqn:Er.
        * destruct (ipk_next nx1 q1) as [[a3 q3] e3] eqn:E3. inv_ret H1.
          rewrite <- app_assoc in HR.
          destruct (ipk_peek_pd _ _ _ _ _ _ _ _ _ E1 ltac:(discriminate) HR E2)
            as [Ho|(Ho & He & HR')]; [pd_out H2|].
          subst a2 e2. rewrite Er in H2.
          destruct (ipk_next nx2 q2) as [[a4 q4] e4] eqn:E4. inv_ret H2.
          destruct (ipk_next_pd _ _ _ _ _ _ _ _ _ E3 Hno HR' E4) as [Ho|(Ho & He & HR'')];
            [left; exact Ho|].
          right. subst. repeat split; auto; apply HR''.
        * inv_ret H1.
          destruct (ipk_peek_pd _ _ _ _ _ _ _ _ _ E1 ltac:(discriminate) HR E2)
            as [Ho|(Ho & He & HR')]; [pd_out H2|].
          subst a2 e2. rewrite Er in H2. inv_ret H2. right. repeat split; auto; apply HR'.
      + inv_ret H1.
        destruct (ipk_peek_pd _ _ _ _ _ _ _ _ _ E1 Hno HR E2) as [Ho|(Ho & He & HR')];
          [pd_out H2|].
        subst a2 e2. inv_ret H2. right. repeat split; auto; apply HR'.
      + inv_ret H1.
        destruct (ipk_peek_pd _ _ _ _ _ _ _ _ _ E1 Hno HR E2) as [Ho|(Ho & He & HR')];
          [pd_out H2|].
        subst a2 e2. inv_ret H2. right. repeat split; auto; apply HR'.
      + inv_ret H1.
        destruct (ipk_peek_pd _ _ _ _ _ _ _ _ _ E1 Hno HR E2) as [Ho|(Ho & He & HR')];
          [pd_out H2|].
        subst a2 e2. inv_ret H2. right. repeat split; auto; apply HR'.
      + inv_ret H1. congruence.
  Qed.

  Lemma iruns_drain_pd r : forall n1 n2 cur L p1 p2 o c1 p1' ev o2 c2 p2' ev2,
    iruns_drain nx1 n1 r cur p1 = (o, (c1, p1'), ev) -> o <> Out -> Rpk (ev ++ L) p1 p2 ->
    iruns_drain nx2 n2 r cur p2 = (o2, (c2, p2'), ev2) ->
    o2 = Out \/ (o2 = o /\ ev2 = ev /\ c2 = c1 /\ Rpk L p1' p2').
  Proof.
    induction n1 as [|n1 IH]; intros n2 cur L p1 p2 o c1 p1' ev o2 c2 p2' ev2 H1 Hno HR H2;
      simpl in H1.
    - inv_ret H1. congruence.
    - destruct n2 as [|n2]; simpl in H2; [inv_ret H2; left; reflexivity|].
      destruct (iruns_inner nx1 r cur p1) as [[a1 [k1 q1]] e1] eqn:E1.
      destruct (iruns_inner nx2 r cur p2) as [[a2 [k2 q2]] e2] eqn:E2.
      destruct a1 as [x| | | |].
      + destruct (iruns_drain nx1 n1 r k1 q1) as [[o3 [k3 q3]] e3] eqn:E3.
        simpl in H1. inv_ret H1. rewrite <- app_assoc in HR.
        destruct (iruns_inner_pd _ _ _ _ _ _ _ _ _ _ _ _ _ E1 ltac:(discriminate) HR E2)
          as [Ho|(Ho & He & Hk & HR')]; [pd_out H2|].
        subst a2 e2 k2.
        destruct (iruns_drain nx2 n2 r k1 q2) as [[o4 [k4 q4]] e4] eqn:E4.
        simpl in H2. inv_ret H2.
        destruct (IH _ _ _ _ _ _ _ _ _ _ _ _ _ E3 Hno HR' E4) as [Ho|(Ho & He & Hk & HR'')];
          [left; exact Ho|].
        right. subst. repeat split; auto; apply HR''.
      + inv_ret H1.
        destruct (iruns_inner_pd _ _ _ _ _ _ _ _ _ _ _ _ _ E1 ltac:(discriminate) HR E2)
          as [Ho|(Ho & He & Hk & HR')]; [pd_out H2|].
        subst a2 e2 k2. inv_ret H2. right. repeat split; auto; apply HR'.
      + inv_ret H1.
        destruct (iruns_inner_pd _ _ _ _ _ _ _ _ _ _ _ _ _ E1 ltac:(discriminate) HR E2)
          as [Ho|(Ho & He & Hk & HR')]; [pd_out H2|].
        subst a2 e2 k2. inv_ret H2. right. repeat split; auto; apply HR'.
      + inv_ret H1.
        destruct (iruns_inner_pd _ _ _ _ _ _ _ _ _ _ _ _ _ E1 ltac:(discriminate) HR E2)
          as [Ho|(Ho & He & Hk & HR')]; [pd_out H2|].
        subst a2 e2 k2. inv_ret H2. right. repeat split; auto; apply HR'.
      + inv_ret H1. congruence.
  Qed.

  Lemma iruns_take_pd r : forall n1 n2 k acc cur L p1 p2 o c1 p1' ev o2 c2 p2' ev2,
    iruns_take nx1 n1 r k acc cur p1 = (o, (c1, p1'), ev) -> o <> Out -> Rpk (ev ++ L) p1 p2 ->
    iruns_take nx2 n2 r k acc cur p2 = (o2, (c2, p2'), ev2) ->
    o2 = Out \/ (o2 = o /\ ev2 = ev /\ c2 = c1 /\ Rpk L p1' p2').
  Proof.
    induction n1 as [|n1 IH];
      intros n2 k acc cur L p1 p2 o c1 p1' ev o2 c2 p2' ev2 H1 Hno HR H2; simpl in H1.
    - inv_ret H1. congruence.
    - destruct n2 as [|n2]; simpl in H2; [inv_ret H2; left; reflexivity|].
      assert (Hgo :
        (let '(o0, (cur', p'), ev0) := iruns_inner nx1 r cur p1 in
         match o0 with
         | Item x => after ev0 (iruns_take nx1 n1 r (option_map Nat.pred k) (acc ++ [x]) cur' p')
         | End => (Item acc, (cur', p'), ev0)
         | _ => (pass o0, (cur', p'), ev0)
         end) = (o, (c1, p1'), ev) ->
        (let '(o0, (cur', p'), ev0) := iruns_inner nx2 r cur p2 in
         match o0 with
         | Item x => after ev0 (iruns_take nx2 n2 r (option_map Nat.pred k) (acc ++ [x]) cur' p')
         | End => (Item acc, (cur', p'), ev0)
         | _ => (pass o0, (cur', p'), ev0)
         end) = (o2, (c2, p2'), ev2) ->
        o2 = Out \/ (o2 = o /\ ev2 = ev /\ c2 = c1 /\ Rpk L p1' p2')).
      { clear H1 H2. intros H1 H2.
        destruct (iruns_inner nx1 r cur p1) as [[a1 [k1 q1]] e1] eqn:E1.
        destruct (iruns_inner nx2 r cur p2) as [[a2 [k2 q2]] e2] eqn:E2.
        destruct a1 as [x| | | |].
        + destruct (iruns_take nx1 n1 r (option_map Nat.pred k) (acc ++ [x]) k1 q1)
            as [[o3 [k3 q3]] e3] eqn:E3.
          simpl in H1. inv_ret H1. rewrite <- app_assoc in HR.
          destruct (iruns_inner_pd _ _ _ _ _ _ _ _ _ _ _ _ _ E1 ltac:(discriminate) HR E2)
            as [Ho|(Ho & He & Hk & HR')]; [pd_out H2|].
          subst a2 e2 k2.
          destruct (iruns_take nx2 n2 r (option_map Nat.pred k) (acc ++ [x]) k1 q2)
            as [[o4 [k4 q4]] e4] eqn:E4.
          simpl in H2. inv_ret H2.
          destruct (IH _ _ _ _ _ _ _ _ _ _ _ _ _ _ _ E3 Hno HR' E4)
            as [Ho|(Ho & He & Hk & HR'')]; [left; exact Ho|].
          right. subst. repeat split; auto; apply HR''.
        + inv_ret H1.
          destruct (iruns_inner_pd _ _ _ _ _ _ _ _ _ _ _ _ _ E1 ltac:(discriminate) HR E2)
            as [Ho|(Ho & He & Hk & HR')]; [pd_out H2|].
          subst a2 e2 k2. inv_ret H2. right. repeat split; auto; apply HR'.
        + inv_ret H1.
          destruct (iruns_inner_pd _ _ _ _ _ _ _ _ _ _ _ _ _ E1 ltac:(discriminate) HR E2)
            as [Ho|(Ho & He & Hk & HR')]; [pd_out H2|].
          subst a2 e2 k2. inv_ret H2. right. repeat split; auto; apply HR'.
        + inv_ret H1.
          destruct (iruns_inner_pd _ _ _ _ _ _ _ _ _ _ _ _ _ E1 ltac:(discriminate) HR E2)
            as [Ho|(Ho & He & Hk & HR')]; [pd_out H2|].
          subst a2 e2 k2. inv_ret H2. right. repeat split; auto; apply HR'.
        + inv_ret H1. congruence. }
      destruct k as [[|k']|].
      + inv_ret H1. inv_ret H2. right. repeat split; auto; apply HR.
      + exact (Hgo H1 H2).
      + exact (Hgo H1 H2).
  Qed.

  Definition Rruns (L : list sev) (w1 : runcur * pk S1) (w2 : runcur * pk S2) : Prop :=
    fst w2 = fst w1 /\ Rpk L (snd w1) (snd w2).

  Lemma iruns_pd r k n1 n2 cur L p1 p2 o c1 p1' ev o2 c2 p2' ev2 :
    iruns nx1 n1 r k cur p1 = (o, (c1, p1'), ev) -> o <> Out -> Rpk (ev ++ L) p1 p2 ->
    iruns nx2 n2 r k cur p2 = (o2, (c2, p2'), ev2) ->
    o2 = Out \/ (o2 = o /\ ev2 = ev /\ c2 = c1 /\ Rpk L p1' p2').
  Proof.
    unfold iruns. intros H1 Hno HR H2.
    (* the drain phase *)
    assert (Hdr : forall oa qa ea ob qb eb M,
      match cur with
      | Some c => let '(o0, (_, p'), ev0) := iruns_drain nx1 n1 r c p1 in (o0, p', ev0)
      | None => (End, p1, [])
      end = (oa, qa, ea) ->
      match cur with
      | Some c => let '(o0, (_, p'), ev0) := iruns_drain nx2 n2 r c p2 in (o0, p', ev0)
      | None => (End, p2, [])
      end = (ob, qb, eb) ->
      oa <> Out -> Rpk (ea ++ M) p1 p2 ->
      ob = Out \/ (ob = oa /\ eb = ea /\ Rpk M qa qb)).
    { intros oa qa ea ob qb eb M Ha Hb Hnoa HRa. destruct cur as [c|].
      - destruct (iruns_drain nx1 n1 r c p1) as [[o5 [k5 q5]] e5] eqn:E5.
        destruct (iruns_drain nx2 n2 r c p2) as [[o6 [k6 q6]] e6] eqn:E6.
        inv_ret Ha. inv_ret Hb.
        destruct (iruns_drain_pd _ _ _ _ _ _ _ _ _ _ _ _ _ _ _ E5 Hnoa HRa E6)
          as [Ho|(Ho & He & Hk & HR')]; [left; exact Ho|right; auto].
      - inv_ret Ha. inv_ret Hb. right. auto. }
    destruct (match cur with
              | Some c => let '(o0, (_, p'), ev0) := iruns_drain nx1 n1 r c p1 in (o0, p', ev0)
              | None => (End, p1, [])
              end) as [[oa qa] ea] eqn:Ea.
    destruct (match cur with
              | Some c => let '(o0, (_, p'), ev0) := iruns_drain nx2 n2 r c p2 in (o0, p', ev0)
              | None => (End, p2, [])
              end) as [[ob qb] eb] eqn:Eb.
    destruct oa as [u| | | |].
    - inv_ret H1. congruence.
    - destruct (ipk_peek nx1 qa) as [[a1 q1] e1] eqn:E1.
      destruct a1 as [x| | | |].
      + destruct (iruns_take nx1 n1 r k [] (x, true) q1) as [[o3 [k3 q3]] e3] eqn:E3.
        inv_ret H1. rewrite <- app_assoc in HR.
        destruct (Hdr _ _ _ _ _ _ _ eq_refl eq_refl ltac:(discriminate) HR)
          as [Ho|(Ho & He & HR')]; [pd_out H2|].
        subst ob eb.
        destruct (ipk_peek nx2 qb) as [[a2 q2] e2] eqn:E2. rewrite <- app_assoc in HR'.
        destruct (ipk_peek_pd _ _ _ _ _ _ _ _ _ E1 ltac:(discriminate) HR' E2)
          as [Ho|(Ho & He & HR'')]; [pd_out H2|].
        subst a2 e2.
        destruct (iruns_take nx2 n2 r k [] (x, true) q2) as [[o4 [k4 q4]] e4] eqn:E4.
        inv_ret H2.
        destruct (iruns_take_pd _ _ _ _ _ _ _ _ _ _ _ _ _ _ _ _ _ E3 Hno HR'' E4)
          as [Ho|(Ho & He & Hk & HR3)]; [left; exact Ho|].
        right. subst. repeat split; auto; apply HR3.
      + inv_ret H1. rewrite <- app_assoc in HR.
        destruct (Hdr _ _ _ _ _ _ _ eq_refl eq_refl ltac:(discriminate) HR)
          as [Ho|(Ho & He & HR')]; [pd_out H2|].
        subst ob eb. destruct (ipk_peek nx2 qb) as [[a2 q2] e2] eqn:E2.
        destruct (ipk_peek_pd _ _ _ _ _ _ _ _ _ E1 ltac:(discriminate) HR' E2)
          as [Ho|(Ho & He & HR'')]; [pd_out H2|].
        subst a2 e2. inv_ret H2. right. repeat split; auto; apply HR''.
      + inv_ret H1. rewrite <- app_assoc in HR.
        destruct (Hdr _ _ _ _ _ _ _ eq_refl eq_refl ltac:(discriminate) HR)
          as [Ho|(Ho & He & HR')]; [pd_out H2|].
        subst ob eb. destruct (ipk_peek nx2 qb) as [[a2 q2] e2] eqn:E2.
        destruct (ipk_peek_pd _ _ _ _ _ _ _ _ _ E1 ltac:(discriminate) HR' E2)
          as [Ho|(Ho & He & HR'')]; [pd_out H2|].
        subst a2 e2. inv_ret H2. right. repeat split; auto; apply HR''.
      + inv_ret H1. rewrite <- app_assoc in HR.
        destruct (Hdr _ _ _ _ _ _ _ eq_refl eq_refl ltac:(discriminate) HR)
          as [Ho|(Ho & He & HR')]; [pd_out H2|].
        subst ob eb. destruct (ipk_peek nx2 qb) as [[a2 q2] e2] eqn:E2.
        destruct (ipk_peek_pd _ _ _ _ _ _ _ _ _ E1 ltac:(discriminate) HR' E2)
          as [Ho|(Ho & He & HR'')]; [pd_out H2|].
        subst a2 e2. inv_ret H2. right. repeat split; auto; apply HR''.
      + inv_ret H1. congruence.
    - inv_ret H1.
      destruct (Hdr _ _ _ _ _ _ L eq_refl eq_refl ltac:(discriminate) HR) as [Ho|(Ho & He & HR')];
        [pd_out H2|].
      subst ob eb. inv_ret H2. right. repeat split; auto; apply HR'.
    - inv_ret H1.
      destruct (Hdr _ _ _ _ _ _ L eq_refl eq_refl ltac:(discriminate) HR) as [Ho|(Ho & He & HR')];
        [pd_out H2|].
      subst ob eb. inv_ret H2. right. repeat split; auto; apply HR'.
    - inv_ret H1. congruence.
  Qed.
End GenericPD.

Section GenericPDFS.
  Context {L1 L2 : Type} (nxl1 : L1 -> ret (list Z) L1) (nxl2 : L2 -> ret (list Z) L2)
          (R : list sev -> L1 -> L2 -> Prop).
  Hypothesis Hsim : pd_sim R nxl1 nxl2.

  Lemma iflatslices_pd : forall n1 n2 b L q1 q2 o b1 q1' ev o2 b2 q2' ev2,
    iflatslices nxl1 n1 b q1 = (o, (b1, q1'), ev) -> o <> Out -> R (ev ++ L) q1 q2 ->
    iflatslices nxl2 n2 b q2 = (o2, (b2, q2'), ev2) ->
    o2 = Out \/ (o2 = o /\ ev2 = ev /\ b2 = b1 /\ R L q1' q2').
  Proof.
    induction n1 as [|n1 IH]; intros n2 b L q1 q2 o b1 q1' ev o2 b2 q2' ev2 H1 Hno HR H2;
      simpl in H1.
    - inv_ret H1. congruence.
    - destruct n2 as [|n2]; simpl in H2; [inv_ret H2; left; reflexivity|].
      destruct b as [|x b].
      + destruct (nxl1 q1) as [[a1 t1] e1] eqn:E1. destruct (nxl2 q2) as [[a2 t2] e2] eqn:E2.
        destruct a1 as [l| | | |].
        * destruct (iflatslices nxl1 n1 l t1) as [[o3 [b3 t3]] e3] eqn:E3.
          simpl in H1. inv_ret H1. rewrite <- app_assoc in HR.
          destruct (Hsim _ _ _ _ _ _ _ _ _ E1 ltac:(discriminate) HR E2)
            as [Ho|(Ho & He & HR')]; [pd_out H2|].
          subst a2 e2.
          destruct (iflatslices nxl2 n2 l t2) as [[o4 [b4 t4]] e4] eqn:E4.
          simpl in H2. inv_ret H2.
          destruct (IH _ _ _ _ _ _ _ _ _ _ _ _ _ E3 Hno HR' E4) as [Ho|(Ho & He & Hb & HR'')];
            [left; exact Ho|].
          right. subst. repeat split; auto.
        * inv_ret H1.
          destruct (Hsim _ _ _ _ _ _ _ _ _ E1 ltac:(discriminate) HR E2)
            as [Ho|(Ho & He & HR')]; [pd_out H2|].
          subst a2 e2. inv_ret H2. right. repeat split; auto.
        * inv_ret H1.
          destruct (Hsim _ _ _ _ _ _ _ _ _ E1 ltac:(discriminate) HR E2)
            as [Ho|(Ho & He & HR')]; [pd_out H2|].
          subst a2 e2. inv_ret H2. right. repeat split; auto.
        * inv_ret H1.
          destruct (Hsim _ _ _ _ _ _ _ _ _ E1 ltac:(discriminate) HR E2)
            as [Ho|(Ho & He & HR')]; [pd_out H2|].
          subst a2 e2. inv_ret H2. right. repeat split; auto.
        * inv_ret H1. congruence.
      + inv_ret H1. inv_ret H2. right. repeat split; auto.
  Qed.
End GenericPDFS.

(* ---- sources: agreement on the first n answers ---- *)
(* the i-th answer of a source with items l is nth_error l i (None: the end) *)
Definition agree_upto (n : nat) (l1 l2 : list Z) : Prop :=
  forall i, (i < n)%nat -> nth_error l1 i = nth_error l2 i.

Lemma agree_upto_le n m l1 l2 : (m <= n)%nat -> agree_upto n l1 l2 -> agree_upto m l1 l2.
Proof. intros Hle H i Hi. apply H. lia. Qed.
Lemma agree_upto_refl n l : agree_upto n l l.
Proof. intros i _. reflexivity. Qed.
Lemma isrc_next_agree n a b :
  agree_upto (S n) (isrc_items a) (isrc_items b) ->
  fst (isrc_next b) = fst (isrc_next a) /\
  agree_upto n (isrc_items (snd (isrc_next a))) (isrc_items (snd (isrc_next b))).
Proof.
  intros H. pose proof (isrc_next_spec a) as Ha. pose proof (isrc_next_spec b) as Hb.
  pose proof (H O ltac:(lia)) as H0.
  destruct (isrc_next a) as [[x|] a']; destruct (isrc_next b) as [[y|] b']; simpl.
  - rewrite Ha, Hb in H0. simpl in H0. split; [congruence|].
    intros i Hi. specialize (H (S i) ltac:(lia)). rewrite Ha, Hb in H. exact H.
  - destruct Hb as [Hb _]. rewrite Ha, Hb in H0. discriminate.
  - destruct Ha as [Ha _]. rewrite Ha, Hb in H0. discriminate.
  - destruct Ha as [_ Ha]. destruct Hb as [_ Hb]. subst. split; [reflexivity|].
    eapply agree_upto_le; [|exact H]. lia.
Qed.

(* ---- the relation on pipeline states ---- *)
Definition all2 {A B} (P : A -> B -> Prop) : list A -> list B -> Prop :=
  fix go (l1 : list A) (l2 : list B) : Prop :=
    match l1, l2 with
    | [], [] => True
    | x :: t, y :: u => P x y /\ go t u
    | _, _ => False
    end.

Lemma all2_Forall2 {A B} (P : A -> B -> Prop) l1 l2 : all2 P l1 l2 <-> Forall2 P l1 l2.
Proof.
  revert l2. induction l1 as [|x t IH]; intros [|y u]; simpl; split; intros H.
  - constructor.
  - exact I.
  - destruct H.
  - inversion H.
  - destruct H.
  - inversion H.
  - destruct H as [H1 H2]. constructor; [exact H1|apply IH; exact H2].
  - inversion H; subst. split; [assumption|]. apply IH. assumption.
Qed.

Fixpoint irel (L : list sev) (s1 s2 : ist) {struct s1} : Prop :=
  match s1, s2 with
  | ISrc id a, ISrc id2 b =>
      id2 = id /\ agree_upto (count_next id L) (isrc_items a) (isrc_items b)
  | IPeek p, IPeek q =>
      pk_has q = pk_has p /\ pk_curr q = pk_curr p /\ irel L (pk_in p) (pk_in q)
  | ICompact r f pv p, ICompact r2 f2 pv2 q => r2 = r /\ f2 = f /\ pv2 = pv /\ irel L p q
  | IFilter k fl c p, IFilter k2 fl2 c2 q => k2 = k /\ fl2 = fl /\ c2 = c /\ irel L p q
  | IFirst x p, IFirst x2 q => x2 = x /\ irel L p q
  | IFlatten r c, IFlatten r2 c2 =>
      all2 (irel L) r r2 /\
      match c, c2 with
      | Some a, Some b => irel L a b
      | None, None => True
      | _, _ => False
      end
  | IJoin l, IJoin l2 => all2 (irel L) l l2
  | IMap g fl c p, IMap g2 fl2 c2 q => g2 = g /\ fl2 = fl /\ c2 = c /\ irel L p q
  | IWhile g fl c d p, IWhile g2 fl2 c2 d2 q =>
      g2 = g /\ fl2 = fl /\ c2 = c /\ d2 = d /\ irel L p q
  | IFlattenSlices b q, IFlattenSlices b2 q2 => b2 = b /\ ilrel L q q2
  | _, _ => False
  end
with ilrel (L : list sev) (q1 q2 : ilst) {struct q1} : Prop :=
  match q1, q2 with
  | IChunk n p, IChunk n2 q => n2 = n /\ irel L p q
  | IRuns r k c p, IRuns r2 k2 c2 q =>
      r2 = r /\ k2 = k /\ c2 = c /\
      pk_has q = pk_has p /\ pk_curr q = pk_curr p /\ irel L (pk_in p) (pk_in q)
  | _, _ => False
  end.

(* induction on states through their size *)
Lemma ist_size_ind (P : ist -> Prop) (Q : ilst -> Prop) :
  (forall n, (forall s, (isize s < n)%nat -> P s) -> (forall q, (ilsize q < n)%nat -> Q q) ->
             (forall s, (isize s <= n)%nat -> P s) /\ (forall q, (ilsize q <= n)%nat -> Q q)) ->
  (forall s, P s) /\ (forall q, Q q).
Proof.
  intros H.
  assert (Hall : forall n, (forall s, (isize s < n)%nat -> P s) /\
                           (forall q, (ilsize q < n)%nat -> Q q)).
  { induction n as [|n [IH1 IH2]].
    - split; intros; lia.
    - destruct (H n IH1 IH2) as [H1 H2]. split; intros; [apply H1|apply H2]; lia. }
  split; [intros s; apply (proj1 (Hall (S (isize s)))); lia
         |intros q; apply (proj2 (Hall (S (ilsize q)))); lia].
Qed.

Lemma lsm_in {A} (f : A -> nat) l x : In x l -> (f x <= list_sum_map f l)%nat.
Proof.
  induction l as [|y t IH]; simpl; intros H; [destruct H|]. destruct H as [H|H].
  - subst. lia.
  - specialize (IH H). lia.
Qed.

Lemma all2_impl_in {A B} (P Q : A -> B -> Prop) l1 l2 :
  (forall x y, In x l1 -> P x y -> Q x y) -> all2 P l1 l2 -> all2 Q l1 l2.
Proof.
  revert l2. induction l1 as [|x t IH]; intros [|y u] Hi H; simpl in *; auto.
  destruct H as [H1 H2]. split; [apply Hi; auto|]. apply IH; auto.
Qed.

Lemma count_next_app_le id ev L : (count_next id L <= count_next id (ev ++ L))%nat.
Proof. unfold count_next. rewrite filter_app, app_length. lia. Qed.

(* fewer events to come: a weaker requirement *)
Lemma irel_weak_both ev L :
  (forall s1 s2, irel (ev ++ L) s1 s2 -> irel L s1 s2) /\
  (forall q1 q2, ilrel (ev ++ L) q1 q2 -> ilrel L q1 q2).
Proof.
  apply ist_size_ind. intros n IH1 IH2. split.
  - intros s1 Hs s2 H.
    destruct s1 as [id a|p|r f pv p|k fl c p|x p|rest curr|its|g fl c p|g fl c d p|b q];
      destruct s2 as [id2 a2|p2|r2 f2 pv2 p2|k2 fl2 c2 p2|x2 p2|rest2 curr2|its2|g2 fl2 c2 p2
                     |g2 fl2 c2 d2 p2|b2 q2];
      simpl in H; try contradiction; simpl in Hs; simpl.
    + destruct H as [Hid Ha]. split; [exact Hid|].
      eapply agree_upto_le; [|exact Ha]. apply count_next_app_le.
    + destruct H as (H1 & H2 & H3). repeat split; auto; try (apply IH1; [lia|exact H3]).
    + destruct H as (H1 & H2 & H3 & H4). repeat split; auto; try (apply IH1; [lia|exact H4]).
    + destruct H as (H1 & H2 & H3 & H4). repeat split; auto; try (apply IH1; [lia|exact H4]).
    + destruct H as (H1 & H2). split; auto; try (apply IH1; [lia|exact H2]).
    + destruct H as (H1 & H2). split.
      * eapply all2_impl_in; [|exact H1]. intros x y Hx Hxy. apply IH1; [|exact Hxy].
        pose proof (lsm_in (fun c => S (S (isize c))) rest x Hx). simpl in *. lia.
      * destruct curr as [a|]; destruct curr2 as [b|]; auto. apply IH1; [lia|exact H2].
    + eapply all2_impl_in; [|exact H]. intros x y Hx Hxy. apply IH1; [|exact Hxy].
      pose proof (lsm_in (fun c => S (isize c)) its x Hx). simpl in *. lia.
    + destruct H as (H1 & H2 & H3 & H4). repeat split; auto; try (apply IH1; [lia|exact H4]).
    + destruct H as (H1 & H2 & H3 & H4 & H5). repeat split; auto; try (apply IH1; [lia|exact H5]).
    + destruct H as (H1 & H2). split; auto; try (apply IH2; [lia|exact H2]).
  - intros q1 Hq q2 H.
    destruct q1 as [sz p|r k c p]; destruct q2 as [sz2 p2|r2 k2 c2 p2];
      simpl in H; try contradiction; simpl in Hq; simpl.
    + destruct H as (H1 & H2). split; auto; try (apply IH1; [lia|exact H2]).
    + destruct H as (H1 & H2 & H3 & H4 & H5 & H6). repeat split; auto; try (apply IH1; [lia|exact H6]).
Qed.

Lemma irel_weak ev L s1 s2 : irel (ev ++ L) s1 s2 -> irel L s1 s2.
Proof. apply (proj1 (irel_weak_both ev L)). Qed.

Lemma all2_refl_in {A} (P : A -> A -> Prop) l : (forall x, In x l -> P x x) -> all2 P l l.
Proof.
  induction l as [|x t IH]; simpl; intros H; [exact I|].
  split; [apply H; auto|apply IH; intros y Hy; apply H; auto].
Qed.

Lemma irel_refl_both L : (forall s, irel L s s) /\ (forall q, ilrel L q q).
Proof.
  apply ist_size_ind. intros n IH1 IH2. split.
  - intros s Hs. destruct s as [id a|p|r f pv p|k fl c p|x p|rest curr|its|g fl c p|g fl c d p|b q];
      simpl in Hs; simpl.
    + split; [reflexivity|apply agree_upto_refl].
    + split; [reflexivity|]. split; [reflexivity|]. apply IH1. lia.
    + split; [reflexivity|]. split; [reflexivity|]. split; [reflexivity|]. apply IH1. lia.
    + repeat (split; [reflexivity|]). apply IH1. lia.
    + split; [reflexivity|]. apply IH1. lia.
    + split.
      * apply all2_refl_in. intros x Hx. apply IH1.
        pose proof (lsm_in (fun c => S (S (isize c))) rest x Hx). simpl in *. lia.
      * destruct curr as [c|]; [apply IH1; lia|exact I].
    + apply all2_refl_in. intros x Hx. apply IH1.
      pose proof (lsm_in (fun c => S (isize c)) its x Hx). simpl in *. lia.
    + repeat (split; [reflexivity|]). apply IH1. lia.
    + repeat (split; [reflexivity|]). apply IH1. lia.
    + split; [reflexivity|]. apply IH2. lia.
  - intros q Hq. destruct q as [sz p|r k c p]; simpl in Hq; simpl.
    + split; [reflexivity|]. apply IH1. lia.
    + repeat (split; [reflexivity|]). apply IH1. lia.
Qed.

Lemma count_next_cons_same id L : count_next id (SevNext id :: L) = S (count_next id L).
Proof. unfold count_next. simpl. rewrite Nat.eqb_refl. reflexivity. Qed.

(* ---- the master theorem: any two fuels ---- *)
Theorem inext_pd : forall f1 f2,
  pd_sim irel (inext f1) (inext f2) /\ pd_sim ilrel (ilnext f1) (ilnext f2).
Proof.
  induction f1 as [|f IH]; intros f2.
  - split; intros L s1 s2 o s1' ev o2 s2' ev2 H1 Hno; simpl in H1; inv_ret H1; congruence.
  - destruct f2 as [|g].
    { split; intros L s1 s2 o s1' ev o2 s2' ev2 H1 Hno HR H2; simpl in H2; inv_ret H2;
        left; reflexivity. }
    destruct (IH g) as [IHz IHl].
    assert (Hw : forall ev L s1 s2, irel (ev ++ L) s1 s2 -> irel L s1 s2) by exact irel_weak.
    split; intros L s1 s2 o s1' ev o2 s2' ev2 H1 Hno HR H2.
    + destruct s1 as [id a|p|r fi pv p|k fl c p|x p|rest curr|its|fn fl c p|fn fl c d p|b q];
        destruct s2 as [id2 a2|p2|r2 fi2 pv2 p2|k2 fl2 c2 p2|x2 p2|rest2 curr2|its2|fn2 fl2 c2 p2
                       |fn2 fl2 c2 d2 p2|b2 q2];
        cbn [irel ilrel] in HR; try contradiction; cbn [inext] in H1, H2.
      * (* source *)
        destruct HR as [Hid Ha]. subst id2.
        destruct (isrc_next a) as [oa a'] eqn:Ea. destruct (isrc_next a2) as [ob b'] eqn:Eb.
        inv_ret H1. inv_ret H2. simpl in Ha. rewrite count_next_cons_same in Ha.
        destruct (isrc_next_agree _ _ _ Ha) as [Hf Hr]. rewrite Ea, Eb in Hf, Hr. simpl in *.
        subst ob. right. repeat split; auto.
      * (* peek *)
        destruct (ipk_next (inext f) p) as [[a1 q1] e1] eqn:E1.
        destruct (ipk_next (inext g) p2) as [[a2 q2] e2] eqn:E2. inv_ret H1. inv_ret H2.
        destruct (ipk_next_pd _ _ _ IHz _ _ _ _ _ _ _ _ _ E1 Hno HR E2)
          as [Ho|(Ho & He & HR')]; [left; exact Ho|right; auto].
      * (* compact *)
        destruct HR as (Hr & Hfi & Hpv & HR). subst r2 fi2 pv2.
        destruct (icompact (inext f) (S f) r fi pv p) as [[a1 [[f3 p3] q1]] e1] eqn:E1.
        destruct (icompact (inext g) (S g) r fi pv p2) as [[a2 [[f4 p4] q2]] e2] eqn:E2.
        inv_ret H1. inv_ret H2.
        destruct (icompact_pd _ _ _ IHz _ _ _ _ _ _ _ _ _ _ _ _ _ _ _ _ _ _ E1 Hno HR E2)
          as [Ho|(Ho & He & Hf & Hp & HR')]; [left; exact Ho|right]. subst. repeat split; auto.
      * (* filter *)
        destruct HR as (Hk & Hfl & Hcc & HR). subst k2 fl2 c2.
        destruct (ifilter (inext f) (S f) k fl c p) as [[a1 [c3 q1]] e1] eqn:E1.
        destruct (ifilter (inext g) (S g) k fl c p2) as [[a2 [c4 q2]] e2] eqn:E2.
        inv_ret H1. inv_ret H2.
        destruct (ifilter_pd _ _ _ IHz _ _ _ _ _ _ _ _ _ _ _ _ _ _ _ _ E1 Hno HR E2)
          as [Ho|(Ho & He & Hc & HR')]; [left; exact Ho|right]. subst. repeat split; auto.
      * (* first *)
        destruct HR as (Hx & HR). subst x2.
        destruct (ifirst (inext f) x p) as [[a1 [x3 q1]] e1] eqn:E1.
        destruct (ifirst (inext g) x p2) as [[a2 [x4 q2]] e2] eqn:E2.
        inv_ret H1. inv_ret H2.
        destruct (ifirst_pd _ _ _ IHz _ _ _ _ _ _ _ _ _ _ _ _ E1 Hno HR E2)
          as [Ho|(Ho & He & Hx & HR')]; [left; exact Ho|right]. subst. repeat split; auto.
      * (* flatten *)
        destruct HR as (HF & HC). apply all2_Forall2 in HF.
        destruct (iflatten (inext f) (S f) rest curr) as [[a1 [r3 c3]] e1] eqn:E1.
        destruct (iflatten (inext g) (S g) rest2 curr2) as [[a2 [r4 c4]] e2] eqn:E2.
        inv_ret H1. inv_ret H2.
        destruct (iflatten_pd _ _ _ IHz Hw _ _ _ _ _ _ _ _ _ _ _ _ _ _ _ E1 Hno HF HC E2)
          as [Ho|(Ho & He & HF' & HC')]; [left; exact Ho|right]. subst.
        repeat split; auto. apply all2_Forall2. exact HF'.
      * (* join *)
        apply all2_Forall2 in HR.
        destruct (ijoin (inext f) (S f) its) as [[a1 r3] e1] eqn:E1.
        destruct (ijoin (inext g) (S g) its2) as [[a2 r4] e2] eqn:E2.
        inv_ret H1. inv_ret H2.
        destruct (ijoin_pd _ _ _ IHz Hw _ _ _ _ _ _ _ _ _ _ _ E1 Hno HR E2)
          as [Ho|(Ho & He & HF')]; [left; exact Ho|right]. subst.
        repeat split; auto. apply all2_Forall2. exact HF'.
      * (* map *)
        destruct HR as (Hk & Hfl & Hcc & HR). subst fn2 fl2 c2.
        destruct (imap (inext f) fn fl c p) as [[a1 [c3 q1]] e1] eqn:E1.
        destruct (imap (inext g) fn fl c p2) as [[a2 [c4 q2]] e2] eqn:E2.
        inv_ret H1. inv_ret H2.
        destruct (imap_pd _ _ _ IHz _ _ _ _ _ _ _ _ _ _ _ _ _ _ E1 Hno HR E2)
          as [Ho|(Ho & He & Hc & HR')]; [left; exact Ho|right]. subst. repeat split; auto.
      * (* while *)
        destruct HR as (Hk & Hfl & Hcc & Hd & HR). subst fn2 fl2 c2 d2.
        destruct (iwhile (inext f) fn fl c d p) as [[a1 [[c3 d3] q1]] e1] eqn:E1.
        destruct (iwhile (inext g) fn fl c d p2) as [[a2 [[c4 d4] q2]] e2] eqn:E2.
        inv_ret H1. inv_ret H2.
        destruct (iwhile_pd _ _ _ IHz _ _ _ _ _ _ _ _ _ _ _ _ _ _ _ _ _ E1 Hno HR E2)
          as [Ho|(Ho & He & Hc & Hd & HR')]; [left; exact Ho|right]. subst. repeat split; auto.
      * (* flatten slices *)
        destruct HR as (Hb & HR). subst b2.
        destruct (iflatslices (ilnext f) (S f) b q) as [[a1 [b3 q1]] e1] eqn:E1.
        destruct (iflatslices (ilnext g) (S g) b q2) as [[a2 [b4 q3]] e2] eqn:E2.
        inv_ret H1. inv_ret H2.
        destruct (iflatslices_pd _ _ _ IHl _ _ _ _ _ _ _ _ _ _ _ _ _ _ E1 Hno HR E2)
          as [Ho|(Ho & He & Hb & HR')]; [left; exact Ho|right]. subst. repeat split; auto.
    + destruct s1 as [sz p|r k c p]; destruct s2 as [sz2 p2|r2 k2 c2 p2];
        cbn [irel ilrel] in HR; try contradiction; cbn [ilnext] in H1, H2.
      * destruct HR as (Hs & HR). subst sz2.
        destruct (ichunk (inext f) (S f) sz p) as [[a1 q1] e1] eqn:E1.
        destruct (ichunk (inext g) (S g) sz p2) as [[a2 q2] e2] eqn:E2.
        inv_ret H1. inv_ret H2.
        destruct (ichunk_pd _ _ _ IHz _ _ _ _ _ _ _ _ _ _ _ _ E1 Hno HR E2)
          as [Ho|(Ho & He & HR')]; [left; exact Ho|right]. subst. repeat split; auto.
      * destruct HR as (Hr & Hk & Hc & HR). subst r2 k2 c2.
        destruct (iruns (inext f) (S f) r k c p) as [[a1 [c3 q1]] e1] eqn:E1.
        destruct (iruns (inext g) (S g) r k c p2) as [[a2 [c4 q2]] e2] eqn:E2.
        inv_ret H1. inv_ret H2.
        destruct (iruns_pd _ _ _ IHz _ _ _ _ _ _ _ _ _ _ _ _ _ _ _ _ E1 Hno HR E2)
          as [Ho|(Ho & He & Hc & HR')]; [left; exact Ho|right]. subst.
        destruct HR' as (Hh & Hcu & HR'). repeat split; auto.
Qed.

(* ---- one consumer step ---- *)
Definition rrel (L : list sev) (s1 s2 : irun_st) : Prop :=
  match s1, s2 with
  | RZ a, RZ b => irel L a b
  | RL a, RL b => ilrel L a b
  | _, _ => False
  end.

Lemma irun_next_pd L s1 s2 o s1' ev :
  irun_next s1 = (o, s1', ev) -> rrel (ev ++ L) s1 s2 ->
  exists s2', irun_next s2 = (o, s2', ev) /\ rrel L s1' s2'.
Proof.
  intros H1 HR. destruct s1 as [a|a]; destruct s2 as [b|b]; simpl in HR; try contradiction;
    simpl in *.
  - destruct (istep a) as [[o1 a1] e1] eqn:E1. destruct (istep b) as [[o2 b1] e2] eqn:E2.
    inv_ret H1. pose proof (inext_fuel_enough _ _ _ _ E1) as Hn1.
    pose proof (inext_fuel_enough _ _ _ _ E2) as Hn2. unfold istep in E1, E2.
    destruct (proj1 (inext_pd _ _) _ _ _ _ _ _ _ _ _ E1 Hn1 HR E2) as [Ho|(Ho & He & HR')];
      [congruence|].
    subst. exists (RZ b1). split; [reflexivity|exact HR'].
  - destruct (ilstep a) as [[o1 a1] e1] eqn:E1. destruct (ilstep b) as [[o2 b1] e2] eqn:E2.
    inv_ret H1. pose proof (ilnext_fuel_enough _ _ _ _ E1) as Hn1.
    pose proof (ilnext_fuel_enough _ _ _ _ E2) as Hn2. unfold ilstep in E1, E2.
    destruct (proj2 (inext_pd _ _) _ _ _ _ _ _ _ _ _ E1 Hn1 HR E2) as [Ho|(Ho & He & HR')];
      [congruence|].
    subst. exists (RL b1). split; [reflexivity|exact HR'].
Qed.

Lemma rrel_weak ev L s1 s2 : rrel (ev ++ L) s1 s2 -> rrel L s1 s2.
Proof.
  destruct s1; destruct s2; simpl; auto;
    [apply (proj1 (irel_weak_both ev L))|apply (proj2 (irel_weak_both ev L))].
Qed.

(* the log of a run extends the log it started with *)
Lemma irun_steps_log ids : forall ops s log steps log',
  irun_steps ids s log ops = (steps, log') -> exists E, log' = log ++ E.
Proof.
  induction ops as [|op ops IH]; intros s log steps log' H; simpl in H.
  - injection H as Hs Hl. exists []. rewrite app_nil_r. symmetry. exact Hl.
  - destruct op as [live|].
    + destruct (irun_next s) as [[o s1] ev1] eqn:E. destruct (stops o).
      * injection H as Hs Hl. exists ev1. symmetry. exact Hl.
      * destruct (irun_steps ids s1 (log ++ ev1) ops) as [r l] eqn:E2.
        injection H as Hs Hl. destruct (IH _ _ _ _ E2) as [E' HE].
        exists (ev1 ++ E'). rewrite <- Hl, HE, app_assoc. reflexivity.
    + destruct (irun_steps ids s log ops) as [r l] eqn:E2.
      injection H as Hs Hl. rewrite <- Hl. exact (IH _ _ _ _ E2).
Qed.

(* a whole consumer program: states related under the events the first run is going to produce
   give the same observations and the same log *)
Lemma irun_steps_pd ids : forall ops s1 s2 log steps E,
  irun_steps ids s1 log ops = (steps, log ++ E) -> rrel E s1 s2 ->
  irun_steps ids s2 log ops = (steps, log ++ E).
Proof.
  induction ops as [|op ops IH]; intros s1 s2 log steps E H HR; simpl in H; simpl.
  - exact H.
  - destruct op as [live|].
    + destruct (irun_next s1) as [[o s1'] ev1] eqn:E1. destruct (stops o) eqn:Es.
      * injection H as H Hl. apply app_inv_head in Hl. subst E steps.
        rewrite <- (app_nil_r ev1) in HR.
        destruct (irun_next_pd _ _ _ _ _ _ E1 HR) as (s2' & E2 & _). rewrite E2, Es.
        reflexivity.
      * destruct (irun_steps ids s1' (log ++ ev1) ops) as [r l] eqn:E3.
        injection H as H Hl. subst steps l.
        destruct (irun_steps_log _ _ _ _ _ _ E3) as [E' HE]. rewrite <- app_assoc in HE.
        apply app_inv_head in HE. subst E.
        destruct (irun_next_pd _ _ _ _ _ _ E1 HR) as (s2' & E2 & HR'). rewrite E2, Es.
        rewrite app_assoc in E3. rewrite (IH _ _ _ _ _ E3 HR'). rewrite <- app_assoc.
        reflexivity.
    + destruct (irun_steps ids s1 log ops) as [r l] eqn:E3. injection H as H Hl. subst steps l.
      rewrite (IH _ _ _ _ _ E3 HR). reflexivity.
Qed.

(* ---- pipelines that differ only in their sources ---- *)
(* the items an iterator pipeline reads from a source (for the sources of package iterator this
   is Spec.src_items) *)
Definition iter_items (s : source) : list Z := isrc_items (isrc_init s).

Lemma iter_items_supported s : isource_supported s = true -> iter_items s = src_items s.
Proof. apply isrc_init_items. Qed.

(* p1 and p2 are the same pipeline, except for their sources, which are related by SR *)
Fixpoint pz_agree_with (SR : nat -> source -> source -> Prop) (p1 p2 : pz) {struct p1} : Prop :=
  match p1, p2 with
  | ZSrc id s, ZSrc id2 s2 => id2 = id /\ SR id s s2
  | ZPeek p, ZPeek q => pz_agree_with SR p q
  | ZCompact r p, ZCompact r2 q => r2 = r /\ pz_agree_with SR p q
  | ZFilter f fl p, ZFilter f2 fl2 q => f2 = f /\ fl2 = fl /\ pz_agree_with SR p q
  | ZFirst x p, ZFirst x2 q => x2 = x /\ pz_agree_with SR p q
  | ZFlatten l, ZFlatten l2 => all2 (pz_agree_with SR) l l2
  | ZJoin l, ZJoin l2 => all2 (pz_agree_with SR) l l2
  | ZMap f fl p, ZMap f2 fl2 q => f2 = f /\ fl2 = fl /\ pz_agree_with SR p q
  | ZWhile f fl p, ZWhile f2 fl2 q => f2 = f /\ fl2 = fl /\ pz_agree_with SR p q
  | ZFlattenSlices q, ZFlattenSlices q2 => pl_agree_with SR q q2
  | _, _ => False
  end
with pl_agree_with (SR : nat -> source -> source -> Prop) (q1 q2 : pl) {struct q1} : Prop :=
  match q1, q2 with
  | LChunk k p, LChunk k2 q => k2 = k /\ pz_agree_with SR p q
  | LRuns r k p, LRuns r2 k2 q => r2 = r /\ k2 = k /\ pz_agree_with SR p q
  | _, _ => False
  end.
Definition pipe_agree_with SR (p1 p2 : pz + pl) : Prop :=
  match p1, p2 with
  | inl a, inl b => pz_agree_with SR a b
  | inr a, inr b => pl_agree_with SR a b
  | _, _ => False
  end.

(* iterators: the source with id [id] may hold different items from position [n id] on *)
Definition isrc_agree (n : nat -> nat) (id : nat) (s s2 : source) : Prop :=
  agree_upto (n id) (iter_items s) (iter_items s2).
Definition pz_agree (n : nat -> nat) := pz_agree_with (isrc_agree n).
Definition pl_agree (n : nat -> nat) := pl_agree_with (isrc_agree n).
Definition pipe_agree (n : nat -> nat) := pipe_agree_with (isrc_agree n).

Lemma all2_map {A B C D} (P : A -> B -> Prop) (Q : C -> D -> Prop) (f : A -> C) (g : B -> D)
      l1 l2 :
  Forall (fun x => forall y, P x y -> Q (f x) (g y)) l1 ->
  all2 P l1 l2 -> all2 Q (map f l1) (map g l2).
Proof.
  intros H. revert l2. induction H as [|x t Hx Ht IH]; intros [|y u]; simpl; auto.
  intros [H1 H2]. split; auto.
Qed.

Lemma iinit_rel L :
  (forall p1 p2, pz_agree (fun id => count_next id L) p1 p2 -> irel L (iinit p1) (iinit p2)) /\
  (forall q1 q2, pl_agree (fun id => count_next id L) q1 q2 -> ilrel L (ilinit q1) (ilinit q2)).
Proof.
  unfold pz_agree, pl_agree. apply pipe_ind.
  - intros id s [id2 s2| | | | | | | | |]; simpl; auto.
  - intros p IH [|q| | | | | | | |]; simpl; auto.
  - intros r p IH [| |r2 q| | | | | | |]; simpl; auto. intros [H1 H2]. auto.
  - intros f fl p IH [| | |f2 fl2 q| | | | | |]; simpl; auto. intros (H1 & H2 & H3). repeat split; auto.
  - intros n p IH [| | | |n2 q| | | | |]; simpl; auto. intros [H1 H2]. auto.
  - intros ps IH [| | | | |qs| | | |]; simpl; auto. intros H. split; [|exact I].
    eapply all2_map; [|exact H]. exact IH.
  - intros ps IH [| | | | | |qs| | |]; simpl; auto. intros H.
    eapply all2_map; [|exact H]. exact IH.
  - intros f fl p IH [| | | | | | |f2 fl2 q| |]; simpl; auto. intros (H1 & H2 & H3). repeat split; auto.
  - intros f fl p IH [| | | | | | | |f2 fl2 q|]; simpl; auto. intros (H1 & H2 & H3). repeat split; auto.
  - intros q IH [| | | | | | | | |q2]; simpl; auto.
  - intros n p IH [n2 q|]; simpl; auto. intros [H1 H2]. auto.
  - intros r k p IH [|r2 k2 q]; simpl; auto. intros (H1 & H2 & H3). repeat split; auto.
Qed.

Lemma flat_map_all2 {A} (P : A -> A -> Prop) (f : A -> list nat) l1 l2 :
  Forall (fun x => forall y, P x y -> f y = f x) l1 -> all2 P l1 l2 ->
  flat_map f l2 = flat_map f l1.
Proof.
  intros H. revert l2. induction H as [|x t Hx Ht IH]; intros [|y u]; simpl; auto;
    try contradiction.
  intros [H1 H2]. rewrite (Hx _ H1), (IH _ H2). reflexivity.
Qed.

Lemma agree_ids (SR : nat -> source -> source -> Prop) :
  (forall p1 p2, pz_agree_with SR p1 p2 -> pz_ids p2 = pz_ids p1) /\
  (forall q1 q2, pl_agree_with SR q1 q2 -> pl_ids q2 = pl_ids q1).
Proof.
  apply pipe_ind.
  - intros id s [id2 s2| | | | | | | | |]; simpl; try contradiction. intros [H _]. congruence.
  - intros p IH [|q| | | | | | | |]; simpl; try contradiction; auto.
  - intros r p IH [| |r2 q| | | | | | |]; simpl; try contradiction. intros [H1 H2]. auto.
  - intros f fl p IH [| | |f2 fl2 q| | | | | |]; simpl; try contradiction.
    intros (H1 & H2 & H3). auto.
  - intros x p IH [| | | |n2 q| | | | |]; simpl; try contradiction. intros [H1 H2]. auto.
  - intros ps IH [| | | | |qs| | | |]; simpl; try contradiction.
    apply flat_map_all2. exact IH.
  - intros ps IH [| | | | | |qs| | |]; simpl; try contradiction.
    apply flat_map_all2. exact IH.
  - intros f fl p IH [| | | | | | |f2 fl2 q| |]; simpl; try contradiction.
    intros (H1 & H2 & H3). auto.
  - intros f fl p IH [| | | | | | | |f2 fl2 q|]; simpl; try contradiction.
    intros (H1 & H2 & H3). auto.
  - intros q IH [| | | | | | | | |q2]; simpl; try contradiction. auto.
  - intros x p IH [n2 q|]; simpl; try contradiction. intros [H1 H2]. auto.
  - intros r k p IH [|r2 k2 q]; simpl; try contradiction. intros (H1 & H2 & H3). auto.
Qed.

(* ---- (a) prefix determinacy, run level ---- *)
(* [pulls_in run id]: the number of Next calls source id has received during the run *)
Definition pulls_in (run : run_obs) (id : nat) : nat := count_next id (ro_log run).

Theorem iter_prefix_determinacy cfg p1 p2 ops :
  pipe_agree (pulls_in (run_iter_cfg cfg p1 (Steps ops))) p1 p2 ->
  run_iter_cfg cfg p2 (Steps ops) = run_iter_cfg cfg p1 (Steps ops).
Proof.
  unfold pulls_in, run_iter_cfg. intros Hag.
  destruct (irun_steps (sort_ids (pipe_ids p1)) (irun_init p1) [] ops) as [steps log] eqn:E1.
  simpl in Hag.
  assert (Hids : pipe_ids p2 = pipe_ids p1).
  { destruct p1 as [a|a]; destruct p2 as [b|b]; simpl in Hag; try contradiction; simpl;
      [eapply (proj1 (agree_ids _))|eapply (proj2 (agree_ids _))]; exact Hag. }
  assert (HR : rrel log (irun_init p1) (irun_init p2)).
  { destruct p1 as [a|a]; destruct p2 as [b|b]; simpl in Hag; try contradiction; simpl;
      [apply (proj1 (iinit_rel log))|apply (proj2 (iinit_rel log))]; exact Hag. }
  rewrite Hids.
  change log with ([] ++ log) in E1.
  rewrite (irun_steps_pd _ _ _ _ _ _ _ E1 HR). reflexivity.
Qed.

(* ---- the same, as "the unread suffix of every source can be replaced by anything" ---- *)
Fixpoint pz_resrc (g : nat -> source -> source) (p : pz) : pz :=
  match p with
  | ZSrc id s => ZSrc id (g id s)
  | ZPeek p => ZPeek (pz_resrc g p)
  | ZCompact r p => ZCompact r (pz_resrc g p)
  | ZFilter f fl p => ZFilter f fl (pz_resrc g p)
  | ZFirst n p => ZFirst n (pz_resrc g p)
  | ZFlatten ps => ZFlatten (map (pz_resrc g) ps)
  | ZJoin ps => ZJoin (map (pz_resrc g) ps)
  | ZMap f fl p => ZMap f fl (pz_resrc g p)
  | ZWhile f fl p => ZWhile f fl (pz_resrc g p)
  | ZFlattenSlices q => ZFlattenSlices (pl_resrc g q)
  end
with pl_resrc (g : nat -> source -> source) (q : pl) : pl :=
  match q with
  | LChunk n p => LChunk n (pz_resrc g p)
  | LRuns r t p => LRuns r t (pz_resrc g p)
  end.
Definition pipe_resrc (g : nat -> source -> source) (p : pz + pl) : pz + pl :=
  match p with inl p => inl (pz_resrc g p) | inr q => inr (pl_resrc g q) end.

Lemma all2_map_r {A} (P : A -> A -> Prop) (f : A -> A) l :
  Forall (fun x => P x (f x)) l -> all2 P l (map f l).
Proof. induction 1 as [|x t Hx Ht IH]; simpl; auto. Qed.

Lemma resrc_agree (SR : nat -> source -> source -> Prop) g :
  (forall id s, SR id s (g id s)) ->
  (forall p, pz_agree_with SR p (pz_resrc g p)) /\
  (forall q, pl_agree_with SR q (pl_resrc g q)).
Proof.
  intros Hg. apply pipe_ind; simpl; intros; auto.
  - apply all2_map_r. assumption.
  - apply all2_map_r. assumption.
Qed.

Theorem iter_unread_irrelevant cfg p ops g :
  (forall id s, agree_upto (pulls_in (run_iter_cfg cfg p (Steps ops)) id)
                           (iter_items s) (iter_items (g id s))) ->
  run_iter_cfg cfg (pipe_resrc g p) (Steps ops) = run_iter_cfg cfg p (Steps ops).
Proof.
  intros Hg. apply iter_prefix_determinacy.
  destruct p as [p|q]; simpl;
    [apply (proj1 (resrc_agree _ g Hg))|apply (proj2 (resrc_agree _ g Hg))].
Qed.

(* the canonical instance: keep the n answers that have been read (items, or the end when the
   source has fewer than n items), replace everything behind them by [junk] *)
Definition resuffix (n : nat) (junk l : list Z) : list Z :=
  if (n <=? length l)%nat then firstn n l ++ junk else l.

Lemma nth_error_firstn_lt {A} : forall n (l : list A) i,
  (i < n)%nat -> nth_error (firstn n l) i = nth_error l i.
Proof.
  induction n as [|n IH]; intros l i Hi; [lia|].
  destruct l as [|x t]; [reflexivity|]. destruct i as [|i]; [reflexivity|].
  simpl. apply IH. lia.
Qed.

Lemma resuffix_agree n junk l : agree_upto n l (resuffix n junk l).
Proof.
  unfold resuffix. destruct (n <=? length l)%nat eqn:E; [|apply agree_upto_refl].
  apply Nat.leb_le in E. intros i Hi.
  rewrite nth_error_app1 by (rewrite firstn_length; lia).
  rewrite nth_error_firstn_lt by exact Hi. reflexivity.
Qed.

Corollary iter_resuffix cfg p ops (junk : nat -> list Z) :
  let run := run_iter_cfg cfg p (Steps ops) in
  run_iter_cfg cfg
    (pipe_resrc (fun id s => SSlice (resuffix (pulls_in run id) (junk id) (iter_items s))) p)
    (Steps ops) = run.
Proof.
  intros run. apply iter_unread_irrelevant. intros id s. apply resuffix_agree.
Qed.

(* non-vacuity: four Next calls read 3 of the 6 items of source 0, all of source 1 and its end,
   and nothing of source 2 *)
Definition pd_demo : pz :=
  ZJoin [ZFirst 2 (ZFilter (PrModEq 2 0) never_fails (ZSrc 0 (SSlice [1; 2; 4; 6; 8; 10])));
         ZSrc 1 (SSlice [7]); ZSrc 2 (SCounter 5)].
Definition pd_demo2 : pz :=
  ZJoin [ZFirst 2 (ZFilter (PrModEq 2 0) never_fails (ZSrc 0 (SSlice [1; 2; 4; 99])));
         ZSrc 1 (SSlice [7]); ZSrc 2 SEmpty].

Example pd_demo_run :
  let run := run_iter (inl pd_demo) (Steps (map CNext [true; true; true; true])) in
  map so_res (ro_steps run) = [RItem (IZ 2); RItem (IZ 4); RItem (IZ 7); RItem (IZ 0)] /\
  map (pulls_in run) [0; 1; 2]%nat = [3; 2; 1]%nat.
Proof. vm_compute. split; reflexivity. Qed.

Example pd_demo_agree :
  pipe_agree (pulls_in (run_iter (inl pd_demo) (Steps (map CNext [true; true; true]))))
             (inl pd_demo) (inl pd_demo2).
Proof.
  remember (pulls_in (run_iter (inl pd_demo) (Steps (map CNext [true; true; true])))) as n.
  assert (H0 : n 0%nat = 3%nat) by (subst n; vm_compute; reflexivity).
  assert (H1 : n 1%nat = 1%nat) by (subst n; vm_compute; reflexivity).
  assert (H2 : n 2%nat = 0%nat) by (subst n; vm_compute; reflexivity).
  clear Heqn. unfold pipe_agree, pd_demo, pd_demo2.
  cbn [pipe_agree_with pz_agree_with all2]. unfold isrc_agree. rewrite H0, H1, H2.
  repeat split; intros i Hi;
    repeat (destruct i as [|i]; [reflexivity|]); lia.
Qed.

Example pd_demo_same :
  run_iter (inl pd_demo2) (Steps (map CNext [true; true; true]))
  = run_iter (inl pd_demo) (Steps (map CNext [true; true; true])).
Proof. apply iter_prefix_determinacy. exact pd_demo_agree. Qed.
