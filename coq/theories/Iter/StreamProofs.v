(* Proofs about the stream model: denotation of states (it takes into account everything a
   combinator keeps across a failed call), the master contract theorem for clean pipelines -
   failure-free callbacks, scripts without fatal errors, but any number of transient errors and
   expired contexts -, fuel sufficiency, and the consequences for C07 and C08. *)
From Juniper Require Import Common.Base Iter.Syntax Iter.Config Iter.ModelBase Iter.IterModel
  Iter.StreamModel Iter.Spec Iter.Contract Iter.SContract Iter.Fuel Iter.IterProofs.

Definition ssrc_items (s : ssrc) : list Z :=
  match s with SSIter i => isrc_items i | SSScript evs | SSScriptNC evs => script_den evs end.

Definition ssrc_fin (s : ssrc) : Prop :=
  match s with SSIter i => isrc_items i = [] | SSScript evs | SSScriptNC evs => evs = [] end.

(* sources of clean pipelines; with ae = false they may not even fail transiently *)
Definition ssrc_ok (ae : bool) (s : ssrc) : Prop :=
  match s with
  | SSIter _ => True
  | SSScript evs | SSScriptNC evs => script_ok evs /\ (ae = false -> no_transient evs)
  end.

Fixpoint sden (s : sst) : list Z :=
  match s with
  | TSrc _ src => ssrc_items src
  | TPeek p => pkden sden p
  | TCompact r first prev p => cden sden r (first, prev, p)
  | TFilter keep _ _ p => filter (pred_eval keep) (sden p)
  | TFirst x p => fden sden (x, p)
  | TFlatten rest curr => flden sden (rest, curr)
  | TJoin rem => jden sden rem
  | TMap f _ _ p => map (fn_eval f) (sden p)
  | TWhile f _ calls item has done p => swden sden f (calls, item, has, done, p)
  | TFlattenSlices b q => fsden slden (b, q)
  end
with slden (q : slst) : list (list Z) :=
  match q with
  | TChunk size chunk p => scden sden size (chunk, p)
  | TRuns r k cur pend p => srden sden r k (cur, pend, p)
  end.

Fixpoint sfin (s : sst) : Prop :=
  match s with
  | TSrc _ src => ssrc_fin src
  | TPeek p => pkfin sfin p
  | TCompact _ _ _ p | TFilter _ _ _ p | TMap _ _ _ p => sfin p
  | TFirst x p => ffin sfin (x, p)
  | TFlatten rest curr => flfin (rest, curr)
  | TJoin rem => jfin rem
  | TWhile _ _ calls item has done p => swfin sfin (calls, item, has, done, p)
  | TFlattenSlices b q => fsfin slfin (b, q)
  end
with slfin (q : slst) : Prop :=
  match q with
  | TChunk _ chunk p => scfin sfin (chunk, p)
  | TRuns _ _ cur pend p => srfin sfin (cur, pend, p)
  end.

(* clean states: callbacks never fail, scripts have no fatal error, chunk sizes are >= 0 *)
Fixpoint sok (ae : bool) (s : sst) : Prop :=
  match s with
  | TSrc _ src => ssrc_ok ae src
  | TPeek p => sok ae (pk_in p)
  | TCompact _ _ _ p | TFirst _ p => sok ae p
  | TFilter _ fl _ p | TMap _ fl _ p | TWhile _ fl _ _ _ _ p => fail_at fl = None /\ sok ae p
  | TFlatten rest curr =>
      all_p (sok ae) rest /\ match curr with Some c => sok ae c | None => True end
  | TJoin rem => all_p (sok ae) rem
  | TFlattenSlices _ q => slok ae q
  end
with slok (ae : bool) (q : slst) : Prop :=
  match q with
  | TChunk size _ p => 0 <= size /\ sok ae p
  | TRuns _ _ _ _ p => sok ae (pk_in p)
  end.

(* one Next of a script without fatal errors and panics (whoever asks, with whatever context) *)
Lemma script_next_contract ae evs o evs' :
  script_ok evs /\ (ae = false -> no_transient evs) -> script_next evs = (o, evs') ->
  (script_ok evs' /\ (ae = false -> no_transient evs')) /\
  post ae script_den (fun e => e = []) evs o evs' /\
  (evs = [] -> evs' = [] /\ quiet ae o).
Proof.
  unfold script_ok, script_nopanic.
  intros Hok Hc. destruct evs as [|[x|e|e|] t]; simpl in Hc; injection Hc as ? ?; subst;
    simpl in *.
  - auto.
  - destruct Hok as [H1 H2]. split; [auto|]. split; [reflexivity|]. intros Hx; discriminate.
  - destruct Hok as [H1 H2]. destruct ae.
    + split; [split; [exact H1|intros Hx; discriminate]|]. split; [auto|].
      intros Hx; discriminate.
    + destruct (H2 eq_refl).
  - destruct Hok as [[[] _] _].
  - destruct Hok as [[_ Hx] _]. discriminate Hx.
Qed.

(* A source that looks at the context may fail with the context error only when failures are
   allowed (live = false -> ae = true).  A source that ignores the context (SSScriptNC) answers
   an expired context like a live one: it consumes the event it returns - whatever it hands
   over has left its denotation, exactly as for a live call. *)
Lemma ssrc_next_contract ae live src o src' :
  (live = false -> ae = true) -> ssrc_ok ae src -> ssrc_next live src = (o, src') ->
  ssrc_ok ae src' /\ post ae ssrc_items ssrc_fin src o src' /\
  (ssrc_fin src -> ssrc_fin src' /\ quiet ae o).
Proof.
  intros Hlive Hok Hc. unfold ssrc_next in Hc. destruct src as [i|evs|evs].
  - destruct live; simpl in Hc.
    + pose proof (isrc_next_spec i) as Hs.
      destruct (isrc_next i) as [[x|] i'] eqn:E; injection Hc as ? ?; subst; simpl.
      * split; [exact I|]. split; [exact Hs|]. intros Hf. rewrite Hf in Hs. discriminate.
      * destruct Hs as [Hs1 Hs2]. subst i'. auto.
    + injection Hc as ? ?; subst. simpl. specialize (Hlive eq_refl). auto.
  - destruct live; simpl in Hc.
    + destruct (script_next evs) as [o1 evs1] eqn:E. injection Hc as ? ?; subst.
      destruct (script_next_contract ae _ _ _ Hok E) as (H1 & H2 & H3).
      split; [exact H1|]. split; [|exact H3]. destruct o; simpl in *; auto.
    + injection Hc as ? ?; subst. simpl. specialize (Hlive eq_refl).
      split; [exact Hok|]. split; [auto|]. auto.
  - destruct (script_next evs) as [o1 evs1] eqn:E. injection Hc as ? ?; subst.
    destruct (script_next_contract ae _ _ _ Hok E) as (H1 & H2 & H3).
    split; [exact H1|]. split; [|exact H3]. destruct o; simpl in *; auto.
Qed.

(* ---- the master theorem for clean stream pipelines ---- *)
Theorem snext_contract : forall ae live, (live = false -> ae = true) -> forall f,
  contract ae (snext f live) sden sfin (sok ae) /\
  contract ae (slnext f live) slden slfin (slok ae).
Proof.
  intros ae live Hlive. induction f as [|f [IHz IHl]].
  - split; unfold contract; intros s o s' ev Hok Hc; simpl in Hc; inv_ret Hc; simpl; auto.
  - split; unfold contract; intros s o s' ev Hok Hc.
    + destruct s as [id src|p|r first prev p|keep fl calls p|x p|rest curr|rem|g fl calls p
                    |g fl calls item has done p|b q]; cbn [snext] in Hc.
      * destruct (ssrc_next live src) as [o1 src'] eqn:E. inv_ret Hc.
        exact (ssrc_next_contract ae live src _ _ Hlive Hok E).
      * destruct (ipk_next (snext f live) p) as [[o1 p1] ev1] eqn:E. inv_ret Hc.
        exact (ipk_next_ok ae _ _ _ _ IHz p _ _ _ Hok E).
      * destruct (icompact (snext f live) (S f) r first prev p)
          as [[o1 [[f1 pr1] p1]] ev1] eqn:E.
        inv_ret Hc.
        exact (icompact_ok ae _ _ _ _ IHz (S f) r (first, prev, p) _ _ _ Hok E).
      * destruct (sfilter (snext f live) (S f) keep fl calls p) as [[o1 [c1 p1]] ev1] eqn:E.
        inv_ret Hc. destruct Hok as [Hfl Hok].
        destruct (sfilter_ok ae _ _ _ _ IHz (S f) keep fl Hfl (calls, p) _ _ _ Hok E)
          as (Ha & Hp & Hf).
        split; [split; [exact Hfl|exact Ha]|]. split; [exact Hp|exact Hf].
      * destruct (sfirst (snext f live) x p) as [[o1 [x1 p1]] ev1] eqn:E. inv_ret Hc.
        exact (sfirst_ok ae _ _ _ _ IHz (x, p) _ _ _ Hok E).
      * destruct (sflatten (snext f live) sclose (S f) live rest curr)
          as [[o1 [r1 c1]] ev1] eqn:E.
        inv_ret Hc. destruct Hok as [Hok1 Hok2].
        assert (Hok' : flok (sok ae) (rest, curr)).
        { split; [apply all_p_Forall; exact Hok1|exact Hok2]. }
        destruct (sflatten_ok ae _ sclose _ _ _ IHz (S f) live Hlive (rest, curr) _ _ _ Hok' E)
          as ([Ha Hb] & Hp & Hf).
        split; [split; [apply all_p_Forall; exact Ha|exact Hb]|]. split; [exact Hp|exact Hf].
      * destruct (sjoin (snext f live) sclose (S f) rem) as [[o1 rem1] ev1] eqn:E. inv_ret Hc.
        apply all_p_Forall in Hok.
        destruct (sjoin_ok ae _ sclose _ _ _ IHz (S f) rem _ _ _ Hok E) as (Ha & Hp & Hf).
        split; [apply all_p_Forall; exact Ha|]. split; [exact Hp|exact Hf].
      * destruct (smap (snext f live) g fl calls p) as [[o1 [c1 p1]] ev1] eqn:E.
        inv_ret Hc. destruct Hok as [Hfl Hok].
        destruct (smap_ok ae _ _ _ _ IHz g fl Hfl (calls, p) _ _ _ Hok E) as (Ha & Hp & Hf).
        split; [split; [exact Hfl|exact Ha]|]. split; [exact Hp|exact Hf].
      * destruct (swhile (snext f live) g fl calls item has done p)
          as [[o1 [[[[c1 i1] h1] d1] p1]] ev1] eqn:E.
        inv_ret Hc. destruct Hok as [Hfl Hok].
        destruct (swhile_ok ae _ _ _ _ IHz g fl Hfl (calls, item, has, done, p) _ _ _ Hok E)
          as (Ha & Hp & Hf).
        split; [split; [exact Hfl|exact Ha]|]. split; [exact Hp|exact Hf].
      * destruct (iflatslices (slnext f live) (S f) b q) as [[o1 [b1 q1]] ev1] eqn:E.
        inv_ret Hc.
        exact (iflatslices_ok ae _ _ _ _ IHl (S f) (b, q) _ _ _ Hok E).
    + destruct s as [size chunk p|r k cur pend p]; cbn [slnext] in Hc.
      * destruct (schunk (snext f live) (S f) size chunk p) as [[o1 [ch1 p1]] ev1] eqn:E.
        inv_ret Hc. destruct Hok as [Hsz Hok].
        destruct (schunk_ok ae _ _ _ _ IHz (S f) size Hsz (chunk, p) _ _ _ Hok E)
          as (Ha & Hp & Hf).
        split; [split; [exact Hsz|exact Ha]|]. split; [exact Hp|exact Hf].
      * destruct (sruns (snext f live) (S f) r k cur pend p) as [[o1 [[c1 pd1] p1]] ev1] eqn:E.
        inv_ret Hc.
        exact (sruns_ok ae _ _ _ _ IHz r (S f) k (cur, pend, p) _ _ _ Hok E).
Qed.

(* ---- fuel ---- *)
From Juniper Require Import Iter.SFuel.

Lemma ssize_pos s : (1 <= ssize s)%nat.
Proof. destruct s; simpl; lia. Qed.
Lemma slsize_pos q : (1 <= slsize q)%nat.
Proof. destruct q; simpl; lia. Qed.

Lemma script_next_size evs o evs' :
  script_next evs = (o, evs') ->
  (match o with Item _ => length evs' < length evs | _ => length evs' <= length evs end)%nat
  /\ o <> Out.
Proof.
  destruct evs as [|[x|e|e|] t]; simpl; intros Hc; injection Hc as ? ?; subst; simpl;
    split; try lia; discriminate.
Qed.

Lemma ssrc_next_size live src o src' :
  ssrc_next live src = (o, src') ->
  (match o with Item _ => ssrc_size src' < ssrc_size src | _ => ssrc_size src' <= ssrc_size src end)%nat
  /\ o <> Out.
Proof.
  unfold ssrc_next. destruct src as [i|evs|evs].
  - destruct live; simpl.
    + pose proof (isrc_next_size i) as Hs.
      destruct (isrc_next i) as [[x|] i'] eqn:E; intros Hc; injection Hc as ? ?; subst; simpl.
      * split; [exact Hs|discriminate].
      * split; [lia|discriminate].
    + intros Hc. injection Hc as ? ?; subst. simpl. split; [lia|discriminate].
  - destruct live; simpl.
    + destruct (script_next evs) as [o1 evs1] eqn:E. intros Hc. injection Hc as ? ?; subst.
      exact (script_next_size _ _ _ E).
    + intros Hc. injection Hc as ? ?; subst. simpl. split; [lia|discriminate].
  - destruct (script_next evs) as [o1 evs1] eqn:E. intros Hc. injection Hc as ? ?; subst.
    exact (script_next_size _ _ _ E).
Qed.

Theorem snext_size live : forall f, szZ (snext f live) ssize f /\ szL (slnext f live) slsize f.
Proof.
  induction f as [|f [IHz IHl]].
  - split; intros s o s' ev Hc; simpl in Hc; inv_ret Hc.
    + split; [exact I|]. pose proof (ssize_pos s'). lia.
    + split; [exact I|]. pose proof (slsize_pos s'). lia.
  - split; intros s o s' ev Hc.
    + destruct s as [id src|p|r first prev p|keep fl calls p|x p|rest curr|rem|g fl calls p
                    |g fl calls item has done p|b q]; cbn [snext] in Hc.
      * destruct (ssrc_next live src) as [o1 src'] eqn:E. inv_ret Hc.
        destruct (ssrc_next_size _ _ _ _ E) as [Hd Hno]. simpl.
        split; [destruct o; lia|]. intros _. exact Hno.
      * destruct (ipk_next (snext f live) p) as [[o1 p1] ev1] eqn:E. inv_ret Hc.
        destruct (ipk_next_sz _ _ _ IHz _ _ _ _ E) as [Hd Hno]. unfold pksz in Hd.
        simpl. unfold b2n.
        split; [destruct o; lia|]. intros H. apply Hno. lia.
      * destruct (icompact (snext f live) (S f) r first prev p)
          as [[o1 [[f1 pr1] p1]] ev1] eqn:E.
        inv_ret Hc. destruct (icompact_sz _ _ _ IHz _ _ _ _ _ _ _ _ _ _ E) as [Hd Hno]. simpl.
        split; [destruct o; lia|]. intros H. apply Hno; lia.
      * destruct (sfilter (snext f live) (S f) keep fl calls p) as [[o1 [c1 p1]] ev1] eqn:E.
        inv_ret Hc. destruct (sfilter_sz _ _ _ IHz _ _ _ _ _ _ _ _ _ E) as [Hd Hno]. simpl.
        split; [destruct o; lia|]. intros H. apply Hno; lia.
      * destruct (sfirst (snext f live) x p) as [[o1 [x1 p1]] ev1] eqn:E. inv_ret Hc.
        destruct (sfirst_sz _ _ _ IHz _ _ _ _ _ _ E) as [Hd Hno]. simpl.
        split; [destruct o; lia|]. intros H. apply Hno; lia.
      * destruct (sflatten (snext f live) sclose (S f) live rest curr)
          as [[o1 [r1 c1]] ev1] eqn:E.
        inv_ret Hc. destruct (sflatten_sz _ sclose _ _ IHz _ _ _ _ _ _ _ _ E) as [Hd Hno].
        unfold flsz in *. simpl.
        split; [destruct o; lia|]. intros H. apply Hno; lia.
      * destruct (sjoin (snext f live) sclose (S f) rem) as [[o1 rem1] ev1] eqn:E. inv_ret Hc.
        destruct (sjoin_sz _ sclose _ _ IHz _ _ _ _ _ E) as [Hd Hno]. unfold jsz in *. simpl.
        split; [destruct o; lia|]. intros H. apply Hno; lia.
      * destruct (smap (snext f live) g fl calls p) as [[o1 [c1 p1]] ev1] eqn:E. inv_ret Hc.
        destruct (smap_sz _ _ _ IHz _ _ _ _ _ _ _ _ E) as [Hd Hno]. simpl.
        split; [destruct o; lia|]. intros H. apply Hno; lia.
      * destruct (swhile (snext f live) g fl calls item has done p)
          as [[o1 [[[[c1 i1] h1] d1] p1]] ev1] eqn:E.
        inv_ret Hc. destruct (swhile_sz _ _ _ IHz _ _ _ _ _ _ _ _ _ _ _ _ _ _ E) as [Hd Hno].
        simpl. unfold b2n in *. split; [destruct o; lia|]. intros H. apply Hno; lia.
      * destruct (iflatslices (slnext f live) (S f) b q) as [[o1 [b1 q1]] ev1] eqn:E.
        inv_ret Hc. destruct (iflatslices_sz _ _ _ IHl _ _ _ _ _ _ _ E) as [Hd Hno]. simpl.
        split; [destruct o; lia|]. intros H. apply Hno; destruct b; simpl in *; lia.
    + destruct s as [size chunk p|r k cur pend p]; cbn [slnext] in Hc.
      * destruct (schunk (snext f live) (S f) size chunk p) as [[o1 [ch1 p1]] ev1] eqn:E.
        inv_ret Hc. destruct (schunk_sz _ _ _ IHz _ _ _ _ _ _ _ _ E) as [Hd Hno]. simpl.
        split; [|intros H; apply Hno; lia]. destruct o; try lia.
        destruct Hd as [Ha Hb]. split; [lia|]. intros Hl. destruct (Hb Hl).
      * destruct (sruns (snext f live) (S f) r k cur pend p) as [[o1 [[c1 pd1] p1]] ev1] eqn:E.
        inv_ret Hc. destruct (sruns_sz _ _ _ IHz _ _ _ _ _ _ _ _ _ _ _ E) as [Hd Hno].
        unfold rsz, scur, pendw in *. simpl.
        split; [|intros H; apply Hno; lia]. destruct o; lia.
Qed.

Corollary snext_fuel_enough live s o s' ev : sstep live s = (o, s', ev) -> o <> Out.
Proof.
  unfold sstep. intros Hc. destruct (snext_size live (S (ssize s))) as [Hz _].
  destruct (Hz _ _ _ _ Hc) as [_ Hno]. apply Hno. lia.
Qed.
Corollary slnext_fuel_enough live q o q' ev : slstep live q = (o, q', ev) -> o <> Out.
Proof.
  unfold slstep. intros Hc. destruct (snext_size live (S (slsize q))) as [_ Hl].
  destruct (Hl _ _ _ _ Hc) as [_ Hno]. apply Hno. lia.
Qed.

(* ---- initial states ---- *)
Lemma ssrc_init_items s : ssrc_items (ssrc_init s) = src_items s.
Proof.
  destruct s as [l|n|x n| |l|evs|evs|e]; simpl; try reflexivity.
  unfold counter_items. rewrite Z.sub_0_r. apply map_ext. intros k. lia.
Qed.

Lemma sinit_den :
  (forall p, sden (sinit p) = den_z p) /\ (forall q, slden (slinit q) = den_l q).
Proof.
  apply pipe_ind; simpl; intros.
  - apply ssrc_init_items.
  - unfold pkden; simpl; auto.
  - rewrite H. reflexivity.
  - rewrite H. reflexivity.
  - unfold fden; simpl. rewrite H. reflexivity.
  - unfold flden; simpl. rewrite map_map. apply concat_map_ext. exact H.
  - unfold jden. rewrite map_map. apply concat_map_ext. exact H.
  - rewrite H. reflexivity.
  - rewrite H. reflexivity.
  - unfold fsden; simpl. rewrite H. reflexivity.
  - unfold scden; simpl. rewrite H. reflexivity.
  - unfold pkden; simpl. rewrite H. reflexivity.
Qed.

Lemma sinit_ok ae :
  (forall p, okz ae p -> sok ae (sinit p)) /\ (forall q, okl ae q -> slok ae (slinit q)).
Proof.
  apply pipe_ind; simpl; intros; auto.
  - destruct s; simpl in *; auto; contradiction.
  - destruct H0; auto.
  - split; [|exact I]. induction H as [|x t Hx Ht IH]; simpl in *; [exact I|].
    destruct H0 as [H1 H2]. split; auto.
  - induction H as [|x t Hx Ht IH]; simpl in *; [exact I|].
    destruct H0 as [H1 H2]. split; auto.
  - destruct H0; auto.
  - destruct H0; auto.
  - destruct H0 as [H1 H2]. split; [lia|auto].
Qed.

(* ---- runs of Next calls ---- *)
Definition sstate_den (s : srun_st) : list item :=
  match s with QZ s => map IZ (sden s) | QL q => map IL (slden q) end.
Definition sstate_ok (ae : bool) (s : srun_st) : Prop :=
  match s with QZ s => sok ae s | QL q => slok ae q end.

(* one consumer step of a clean pipeline, any context *)
Lemma srun_next_spec ae live s o s' ev :
  (live = false -> ae = true) -> sstate_ok ae s -> srun_next live s = (o, s', ev) ->
  sstate_ok ae s' /\
  match o with
  | RItem x => exists l', sstate_den s = x :: l' /\ sstate_den s' = l'
  | REnd => sstate_den s = [] /\ sstate_den s' = []
  | RErr _ => ae = true /\ sstate_den s' = sstate_den s
  | _ => False
  end.
Proof.
  intros Hlive Hok Hc. destruct s as [s|q]; simpl in *.
  - destruct (sstep live s) as [[o1 s1] ev1] eqn:E. inv_ret Hc.
    pose proof (snext_fuel_enough _ _ _ _ _ E) as Hno.
    destruct (snext_contract ae live Hlive (S (ssize s))) as [Hz _].
    destruct (Hz _ _ _ _ Hok E) as (Hok1 & Hp & _). split; [exact Hok1|].
    destruct o1 as [x| | | |]; simpl in *.
    + exists (map IZ (sden s1)). rewrite Hp. auto.
    + destruct Hp as (Hd & Hd' & _). rewrite Hd, Hd'. auto.
    + destruct Hp as [Ha Hd]. rewrite Hd. auto.
    + exact Hp.
    + congruence.
  - destruct (slstep live q) as [[o1 q1] ev1] eqn:E. inv_ret Hc.
    pose proof (slnext_fuel_enough _ _ _ _ _ E) as Hno.
    destruct (snext_contract ae live Hlive (S (slsize q))) as [_ Hl].
    destruct (Hl _ _ _ _ Hok E) as (Hok1 & Hp & _). split; [exact Hok1|].
    destruct o1 as [x| | | |]; simpl in *.
    + exists (map IL (slden q1)). rewrite Hp. auto.
    + destruct Hp as (Hd & Hd' & _). rewrite Hd, Hd'. auto.
    + destruct Hp as [Ha Hd]. rewrite Hd. auto.
    + exact Hp.
    + congruence.
Qed.

(* failure-free pipeline, live contexts: exactly the denotation, then the end for ever *)
Lemma srun_steps_clean ids : forall k s log,
  sstate_ok false s ->
  map so_res (fst (srun_steps ids s log (map CNext (repeat true k)))) = expect (sstate_den s) k.
Proof.
  induction k as [|k IH]; intros s log Hok; simpl; [reflexivity|].
  destruct (srun_next true s) as [[o s1] ev1] eqn:E.
  destruct (srun_next_spec false true s o s1 ev1 ltac:(discriminate) Hok E) as [Hok1 Hp].
  destruct o as [x| |e| | | |]; try (destruct Hp; fail).
  - destruct Hp as (l' & Hd & Hd'). simpl. rewrite Hd.
    destruct (srun_steps ids s1 (log ++ ev1) (map CNext (repeat true k))) as [r l] eqn:E2.
    simpl. f_equal. specialize (IH s1 (log ++ ev1) Hok1). rewrite E2, Hd' in IH. exact IH.
  - destruct Hp as [Hd Hd']. simpl. rewrite Hd.
    destruct (srun_steps ids s1 (log ++ ev1) (map CNext (repeat true k))) as [r l] eqn:E2.
    simpl. f_equal. specialize (IH s1 (log ++ ev1) Hok1). rewrite E2, Hd' in IH. exact IH.
  - destruct Hp as [Hx _]. discriminate Hx.
Qed.

(* transient errors and expired contexts allowed: a legal trace of the same denotation *)
Lemma srun_steps_legal ids : forall lives s log,
  sstate_ok true s ->
  legal (sstate_den s) (map so_res (fst (srun_steps ids s log (map CNext lives)))).
Proof.
  induction lives as [|b lives IH]; intros s log Hok; simpl; [exact I|].
  destruct (srun_next b s) as [[o s1] ev1] eqn:E.
  destruct (srun_next_spec true b s o s1 ev1 ltac:(auto) Hok E) as [Hok1 Hp].
  destruct o as [x| |e| | | |]; try (destruct Hp; fail).
  - destruct Hp as (l' & Hd & Hd'). simpl. rewrite Hd.
    destruct (srun_steps ids s1 (log ++ ev1) (map CNext lives)) as [r l] eqn:E2.
    simpl. split; [reflexivity|]. specialize (IH s1 (log ++ ev1) Hok1).
    rewrite E2, Hd' in IH. exact IH.
  - destruct Hp as [Hd Hd']. simpl. rewrite Hd.
    destruct (srun_steps ids s1 (log ++ ev1) (map CNext lives)) as [r l] eqn:E2.
    simpl. split; [reflexivity|]. specialize (IH s1 (log ++ ev1) Hok1).
    rewrite E2, Hd' in IH. exact IH.
  - destruct Hp as [_ Hd]. simpl.
    destruct (srun_steps ids s1 (log ++ ev1) (map CNext lives)) as [r l] eqn:E2.
    simpl. specialize (IH s1 (log ++ ev1) Hok1). rewrite E2, Hd in IH. exact IH.
Qed.

Lemma srun_init_den p : sstate_den (srun_init p) = den p.
Proof.
  destruct p as [p|q]; simpl; [rewrite (proj1 sinit_den)|rewrite (proj2 sinit_den)]; reflexivity.
Qed.
Lemma srun_init_ok ae p : okp ae p -> sstate_ok ae (srun_init p).
Proof. destruct p as [p|q]; simpl; [apply (proj1 (sinit_ok ae))|apply (proj2 (sinit_ok ae))]. Qed.

(* C07, streams *)
Theorem stream_steps_den cfg p k :
  clean p ->
  results (run_stream_cfg cfg p (Steps (map CNext (repeat true k)))) = expect (den p) k.
Proof.
  intros Hc. unfold results, run_stream_cfg.
  destruct (srun_steps (sort_ids (pipe_ids p)) (srun_init p) [] (map CNext (repeat true k)))
    as [steps log] eqn:E. simpl.
  pose proof (srun_steps_clean (sort_ids (pipe_ids p)) k (srun_init p) []
                (srun_init_ok false p Hc)) as H.
  rewrite E in H. simpl in H. rewrite H, srun_init_den. reflexivity.
Qed.

(* C08, retry half *)
Theorem stream_steps_legal cfg p lives :
  okp true p ->
  legal (den p) (results (run_stream_cfg cfg p (Steps (map CNext lives)))).
Proof.
  intros Hc. unfold results, run_stream_cfg.
  destruct (srun_steps (sort_ids (pipe_ids p)) (srun_init p) [] (map CNext lives))
    as [steps log] eqn:E. simpl.
  pose proof (srun_steps_legal (sort_ids (pipe_ids p)) lives (srun_init p) []
                (srun_init_ok true p Hc)) as H.
  rewrite E in H. simpl in H. rewrite srun_init_den in H. exact H.
Qed.

(* ---- C08, retry half, against the fault-erased all-live twin ----
   All of the above holds for every kind of source, in particular for sources that ignore the
   context (SScriptNC): a Next with an expired context makes such a source hand over (and
   consume) its next event, and whatever a combinator pulled that way it either delivers in the
   same call or keeps in its state - [snext_contract] says so call by call ([post]: an Item
   moves exactly one item out of the denotation, an error leaves the denotation as it is). *)
Lemma erase_transient_den evs : script_den (erase_transient evs) = script_den evs.
Proof. induction evs as [|[x|e|e|] t IH]; simpl; auto. rewrite IH. reflexivity. Qed.

Lemma erase_transient_ok evs :
  script_ok evs -> script_ok (erase_transient evs) /\ no_transient (erase_transient evs).
Proof.
  unfold script_ok, script_nopanic.
  induction evs as [|[x|e|e|] t IH]; simpl; auto.
  - intros [[] _].
  - intros [_ Hx]. discriminate Hx.
Qed.

Lemma src_erase_items s : src_items (src_erase s) = src_items s.
Proof. destruct s; simpl; try reflexivity; apply erase_transient_den. Qed.

Lemma erase_den :
  (forall p, den_z (pz_erase p) = den_z p) /\ (forall q, den_l (pl_erase q) = den_l q).
Proof.
  apply pipe_ind; simpl; intros; try (rewrite H; reflexivity).
  - apply src_erase_items.
  - f_equal. rewrite map_map. apply map_ext_Forall. exact H.
  - f_equal. rewrite map_map. apply map_ext_Forall. exact H.
Qed.

Lemma erase_ok :
  (forall p, okz true p -> okz false (pz_erase p)) /\
  (forall q, okl true q -> okl false (pl_erase q)).
Proof.
  apply pipe_ind; simpl; intros; auto.
  - destruct s; simpl in *; auto;
      (destruct H as [Hf _]; destruct (erase_transient_ok _ Hf) as [H1 H2]; split; auto).
  - destruct H0; auto.
  - induction H as [|x t Hx Ht IH]; simpl in *; [exact I|]. destruct H0 as [H1 H2]. split; auto.
  - induction H as [|x t Hx Ht IH]; simpl in *; [exact I|]. destruct H0 as [H1 H2]. split; auto.
  - destruct H0; auto.
  - destruct H0; auto.
  - destruct H0; auto.
Qed.

Lemma pipe_erase_den p : den (pipe_erase p) = den p.
Proof.
  destruct p as [p|q]; simpl; [rewrite (proj1 erase_den)|rewrite (proj2 erase_den)]; reflexivity.
Qed.
Lemma pipe_erase_ok p : okp true p -> okp false (pipe_erase p).
Proof. destruct p as [p|q]; simpl; [apply (proj1 erase_ok)|apply (proj2 erase_ok)]. Qed.

(* a legal trace delivers a prefix of the denotation, all of it if it reports the end *)
Lemma legal_items : forall rs l,
  legal l rs -> exists rest, l = items_of rs ++ rest /\ (In REnd rs -> rest = []).
Proof.
  induction rs as [|r rs IH]; intros l H; simpl in *.
  - exists l. split; [reflexivity|intros []].
  - destruct r as [x| |e| | | |]; try contradiction.
    + destruct l as [|y l']; [contradiction|]. destruct H as [Hx H]. subst y.
      destruct (IH _ H) as (rest & Hl & He). exists rest. split; [simpl; rewrite Hl at 1; auto|].
      intros [Hd|Hi]; [discriminate|auto].
    + destruct H as [Hl H]. subst l. destruct (IH _ H) as (rest & Hl & He).
      exists []. split; [|auto]. rewrite app_nil_r.
      destruct (items_of rs); [reflexivity|discriminate].
    + destruct (IH _ H) as (rest & Hl & He). exists rest. split; [exact Hl|].
      intros [Hd|Hi]; [discriminate|auto].
Qed.

Lemma expect_prefix (a rest : list item) : expect (a ++ rest) (length a) = map RItem a.
Proof. induction a as [|x a IH]; simpl; [reflexivity|]. rewrite IH. reflexivity. Qed.
Lemma expect_all_end (a : list item) : expect a (S (length a)) = map RItem a ++ [REnd].
Proof.
  induction a as [|x a IH]; [reflexivity|].
  change (expect (x :: a) (S (length (x :: a)))) with (RItem x :: expect a (S (length a))).
  rewrite IH. reflexivity.
Qed.

(* Any pipeline without unretryable faults, any sources (context-ignoring ones included), any
   number and placement of transient source errors and of calls with an expired context: the
   items delivered are exactly the items the fault-erased twin delivers to as many calls with
   a live context - nothing lost, nothing duplicated, nothing reordered - and when the run
   reports the end, the twin's next call reports the end too. *)
Theorem stream_retry_twin cfg p lives :
  okp true p ->
  let rs := results (run_stream_cfg cfg p (Steps (map CNext lives))) in
  let n := length (items_of rs) in
  results (run_stream_cfg cfg (pipe_erase p) (Steps (map CNext (repeat true n))))
  = map RItem (items_of rs) /\
  (In REnd rs ->
   results (run_stream_cfg cfg (pipe_erase p) (Steps (map CNext (repeat true (S n)))))
   = map RItem (items_of rs) ++ [REnd]).
Proof.
  intros Hok rs n.
  destruct (legal_items _ _ (stream_steps_legal cfg p lives Hok)) as (rest & Hl & He).
  fold rs in Hl, He. pose proof (pipe_erase_ok p Hok) as Hok'. split.
  - rewrite (stream_steps_den cfg _ n Hok'), pipe_erase_den, Hl. apply expect_prefix.
  - intros Hend. rewrite (stream_steps_den cfg _ (S n) Hok'), pipe_erase_den, Hl, (He Hend).
    rewrite app_nil_r. apply expect_all_end.
Qed.
