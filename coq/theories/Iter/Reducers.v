(* Reducers: Reduce/Collect/Sum, One, Last (the ring buffer), Equal - on the iterator model, and
   the stream versions (clean pipelines, and pipelines with faults). *)
From Juniper Require Import Common.Base Iter.Syntax Iter.Config Iter.ModelBase Iter.IterModel
  Iter.StreamModel Iter.Spec Iter.Contract Iter.IterProofs.

(* ---- the ring buffer of Last, as a pure fold ---- *)
Definition ring_push (n : Z) (st : list Z * Z) (x : Z) : list Z * Z :=
  (upd (fst st) (Z.to_nat (Z.rem (snd st) n)) x, snd st + 1).

Lemma skipn_S_tl {A} j (d : list A) : skipn (S j) d = tl (skipn j d).
Proof.
  revert d. induction j as [|j IH]; intros d.
  - destruct d; reflexivity.
  - destruct d as [|a d]; [reflexivity|]. change (skipn (S j) d = tl (skipn j d)). apply IH.
Qed.

Lemma lastn_short {A} N (d : list A) : (length d <= N)%nat -> lastn N d = d.
Proof. intros H. unfold lastn. replace (length d - N)%nat with O by lia. reflexivity. Qed.

Lemma lastn_snoc {A} N (d : list A) x :
  (1 <= N)%nat -> (N <= length d)%nat -> lastn N (d ++ [x]) = tl (lastn N d) ++ [x].
Proof.
  intros H1 H2. unfold lastn. rewrite app_length. simpl.
  replace (length d + 1 - N)%nat with (S (length d - N)) by lia.
  rewrite skipn_S_tl. rewrite skipn_app.
  replace (length d - N - length d)%nat with O by lia. simpl.
  remember (skipn (length d - N) d) as sk eqn:Hsk.
  assert (Hl : length sk = N) by (subst sk; rewrite skipn_length; lia).
  destruct sk as [|a sk]; [simpl in Hl; lia|]. reflexivity.
Qed.

Lemma upd_app_mid {A} (a b : list A) y x : upd (a ++ y :: b) (length a) x = a ++ x :: b.
Proof. induction a as [|z a IH]; simpl; [reflexivity|]. rewrite IH. reflexivity. Qed.

Lemma split_at {A} (l : list A) m :
  (m < length l)%nat -> exists a y b, l = a ++ y :: b /\ length a = m.
Proof.
  revert l. induction m as [|m IH]; intros l H; destruct l as [|z l]; simpl in H; try lia.
  - exists [], z, l. auto.
  - destruct (IH l ltac:(lia)) as (a & y & b & He & Hl). exists (z :: a), y, b.
    subst l. simpl. auto.
Qed.

Lemma rem_succ i n : 0 <= i -> 0 < n ->
  Z.rem (i + 1) n = if Z.rem i n + 1 =? n then 0 else Z.rem i n + 1.
Proof.
  intros Hi Hn. rewrite !Z.rem_mod_nonneg by lia.
  pose proof (Z.mod_pos_bound i n Hn) as Hb.
  pose proof (Z.div_mod i n ltac:(lia)) as Hd.
  destruct (i mod n + 1 =? n) eqn:E.
  - apply Z.eqb_eq in E. symmetry. apply (Z.mod_unique_pos _ _ (i / n + 1)); lia.
  - apply Z.eqb_neq in E. symmetry. apply (Z.mod_unique_pos _ _ (i / n)); lia.
Qed.

(* state of the buffer after the items d, for n >= 1 *)
Definition ring_inv (n : Z) (d : list Z) (st : list Z * Z) : Prop :=
  let '(buf, i) := st in
  i = zlen d /\ length buf = Z.to_nat n /\
  (i < n -> buf = d ++ repeat 0 (Z.to_nat (n - i))) /\
  (n <= i -> let m := Z.to_nat (Z.rem i n) in
             skipn m buf ++ firstn m buf = lastn (Z.to_nat n) d).

Lemma ring_inv_init n : 1 <= n -> ring_inv n [] (zrepeat 0 n, 0).
Proof.
  intros Hn. unfold ring_inv, zrepeat, zlen. simpl.
  split; [reflexivity|]. split; [apply repeat_length|]. split; [|lia].
  intros _. rewrite Z.sub_0_r. reflexivity.
Qed.

Lemma ring_inv_push n d st x :
  1 <= n -> ring_inv n d st -> ring_inv n (d ++ [x]) (ring_push n st x).
Proof.
  intros Hn. destruct st as [buf i]. unfold ring_inv, ring_push. simpl.
  intros (Hi & Hlen & Hlt & Hge).
  assert (Hi0 : 0 <= i) by (subst i; apply zlen_nonneg).
  pose proof (Z.rem_bound_pos i n Hi0 ltac:(lia)) as Hb.
  assert (Hz : zlen (d ++ [x]) = i + 1) by (rewrite zlen_app; subst i; reflexivity).
  split; [symmetry; exact Hz|]. split; [rewrite upd_length; exact Hlen|].
  destruct (Z_lt_ge_dec i n) as [Hc|Hc].
  - (* the buffer is not full yet *)
    specialize (Hlt Hc). rewrite Z.rem_small by lia.
    assert (Hld : length d = Z.to_nat i) by (unfold zlen in Hi; lia).
    replace (Z.to_nat (n - i)) with (S (Z.to_nat (n - (i + 1)))) in Hlt by lia.
    simpl in Hlt. rewrite Hlt. rewrite <- Hld, upd_app_mid. split.
    + intros _. rewrite <- app_assoc. reflexivity.
    + intros Hfull. assert (i + 1 = n) by lia.
      replace (Z.to_nat (n - (i + 1))) with O by lia. simpl.
      rewrite H, Z.rem_same by lia. simpl. rewrite !app_nil_r.
      rewrite lastn_short; [reflexivity|]. rewrite app_length. simpl. lia.
  - (* full: overwrite the oldest item *)
    specialize (Hge ltac:(lia)). cbv zeta in Hge. split; [lia|]. intros _. cbv zeta.
    set (m := Z.to_nat (Z.rem i n)) in *.
    assert (Hm : (m < length buf)%nat) by (unfold m; lia).
    destruct (split_at buf m Hm) as (a & y & b & Hbuf & Hla). subst buf.
    assert (Hupd : upd (a ++ y :: b) m x = a ++ x :: b) by (rewrite <- Hla; apply upd_app_mid).
    rewrite Hupd.
    assert (Hsk : skipn m (a ++ y :: b) = y :: b).
    { rewrite <- Hla. rewrite skipn_app, skipn_all, Nat.sub_diag. reflexivity. }
    assert (Hfi : firstn m (a ++ y :: b) = a).
    { rewrite <- Hla. rewrite firstn_app, firstn_all, Nat.sub_diag. simpl. apply app_nil_r. }
    rewrite Hsk, Hfi in Hge.
    assert (HN : (Z.to_nat n <= length d)%nat) by (unfold zlen in Hi; lia).
    rewrite (lastn_snoc (Z.to_nat n) d x ltac:(lia) HN). rewrite <- Hge. simpl.
    rewrite (rem_succ i n Hi0 ltac:(lia)).
    rewrite app_length in Hlen. simpl in Hlen.
    destruct (Z.rem i n + 1 =? n) eqn:E.
    + apply Z.eqb_eq in E. assert (Hb0 : length b = O) by (unfold m in *; lia).
      destruct b; [|discriminate Hb0]. simpl. rewrite !app_nil_r. reflexivity.
    + apply Z.eqb_neq in E.
      replace (Z.to_nat (Z.rem i n + 1)) with (S m) by (unfold m; lia).
      assert (Hsk2 : skipn (S m) (a ++ x :: b) = b).
      { rewrite <- Hla. rewrite skipn_app.
        replace (S (length a) - length a)%nat with 1%nat by lia.
        rewrite skipn_all2 by lia. reflexivity. }
      assert (Hfi2 : firstn (S m) (a ++ x :: b) = a ++ [x]).
      { rewrite <- Hla. rewrite firstn_app.
        replace (S (length a) - length a)%nat with 1%nat by lia.
        rewrite firstn_all2 by lia. reflexivity. }
      rewrite Hsk2, Hfi2. rewrite <- app_assoc. reflexivity.
Qed.

Lemma ring_inv_fold n l : 1 <= n -> forall d st,
  ring_inv n d st -> ring_inv n (d ++ l) (fold_left (ring_push n) l st).
Proof.
  intros Hn. induction l as [|x l IH]; intros d st Hinv; simpl.
  - rewrite app_nil_r. exact Hinv.
  - replace (d ++ x :: l) with ((d ++ [x]) ++ l) by (rewrite <- app_assoc; reflexivity).
    apply IH. apply ring_inv_push; assumption.
Qed.

(* what Last returns from the buffer *)
Lemma last_finish_spec n d buf i :
  1 <= n -> ring_inv n d (buf, i) -> last_finish n buf i = Item (lastn (Z.to_nat n) d).
Proof.
  intros Hn (Hi & Hlen & Hlt & Hge). unfold last_finish.
  destruct (i <? n) eqn:E.
  - apply Z.ltb_lt in E. rewrite (Hlt E).
    assert (Hld : length d = Z.to_nat i) by (unfold zlen in Hi; lia).
    rewrite <- Hld, firstn_app, firstn_all, Nat.sub_diag. simpl. rewrite app_nil_r.
    rewrite lastn_short by lia. reflexivity.
  - apply Z.ltb_ge in E. destruct (n =? 0) eqn:E0; [apply Z.eqb_eq in E0; lia|].
    rewrite (Hge E). reflexivity.
Qed.

(* ---- iterators ---- *)
Lemma istep_spec s : iok s ->
  exists o s' ev, istep s = (o, s', ev) /\ iok s' /\
    match o with
    | Item x => iden s = x :: iden s' /\ (isize s' < isize s)%nat
    | End => iden s = [] /\ iden s' = [] /\ (isize s' <= isize s)%nat
    | _ => False
    end.
Proof.
  intros Hok. destruct (istep s) as [[o s'] ev] eqn:E. exists o, s', ev.
  split; [reflexivity|].
  pose proof (inext_fuel_enough _ _ _ _ E) as Hno. unfold istep in E.
  destruct (inext_contract (S (isize s))) as [Hz _].
  destruct (Hz _ _ _ _ Hok E) as (Hok1 & Hp & _).
  destruct (inext_size (S (isize s))) as [Hs _]. destruct (Hs _ _ _ _ E) as [Hd _].
  split; [exact Hok1|]. destruct o as [x| | | |]; simpl in Hp.
  - auto.
  - destruct Hp as (H1 & H2 & _). auto.
  - destruct Hp as [Hx _]. discriminate Hx.
  - exact Hp.
  - congruence.
Qed.

(* a reduction function that never panics: g is what it computes *)
Lemma ireduce_spec {A} (f : A -> Z -> option A) (g : A -> Z -> A) :
  (forall a x, f a x = Some (g a x)) -> forall n acc s,
  iok s -> (isize s < n)%nat ->
  exists s' ev, ireduce n f acc s = (Item (fold_left g (iden s) acc), s', ev).
Proof.
  intros Hfg. induction n as [|n IH]; intros acc s Hok Hn; [lia|]. simpl.
  destruct (istep_spec s Hok) as (o & s1 & ev1 & E & Hok1 & Hp). rewrite E.
  destruct o as [x| | | |]; try (destruct Hp; fail).
  - destruct Hp as [Hd Hs]. rewrite Hfg.
    destruct (IH (g acc x) s1 Hok1 ltac:(lia)) as (s' & ev & E2).
    rewrite E2. simpl. rewrite Hd. simpl. eauto.
  - destruct Hp as (Hd & _). rewrite Hd. simpl. eauto.
Qed.

(* Reduce with + and a reduction function that never panics *)
Lemma isum_step_ok fl : cb_panics fl = false ->
  forall a x, isum_step fl a x = Some (S (fst a), snd a + x).
Proof. intros Hfl a x. unfold isum_step. rewrite (panics_now_false fl _ Hfl). reflexivity. Qed.
Lemma fold_sum_snd l : forall c a,
  snd (fold_left (fun (a : nat * Z) x => (S (fst a), snd a + x)) l (c, a)) = fold_left Z.add l a.
Proof. induction l as [|x l IH]; intros c a; simpl; [reflexivity|apply IH]. Qed.

Lemma fold_snoc (l acc : list Z) : fold_left (fun out x => out ++ [x]) l acc = acc ++ l.
Proof.
  revert acc. induction l as [|x l IH]; intros acc; simpl; [symmetry; apply app_nil_r|].
  rewrite IH, <- app_assoc. reflexivity.
Qed.

Lemma icollect_spec s : iok s ->
  exists s' ev, icollect (ired_fuel s) s = (Item (iden s), s', ev).
Proof.
  intros Hok. unfold icollect, ired_fuel.
  destruct (ireduce_spec (fun out x => Some (out ++ [x])) (fun out x => out ++ [x])
                         ltac:(reflexivity) (S (isize s)) [] s Hok ltac:(lia))
    as (s' & ev & E).
  rewrite E, fold_snoc. simpl. eauto.
Qed.

Lemma ilast_loop_spec n : 1 <= n -> forall k buf i s,
  iok s -> (isize s < k)%nat -> 0 <= i -> zlen buf = n ->
  exists s' ev,
    ilast_loop k n buf i s = (Item (fold_left (ring_push n) (iden s) (buf, i)), s', ev).
Proof.
  intros Hn. induction k as [|k IH]; intros buf i s Hok Hk Hi Hlen; [lia|]. simpl.
  destruct (istep_spec s Hok) as (o & s1 & ev1 & E & Hok1 & Hp). rewrite E.
  destruct o as [x| | | |]; try (destruct Hp; fail).
  - destruct Hp as [Hd Hs].
    destruct (n =? 0) eqn:E0; [apply Z.eqb_eq in E0; lia|].
    pose proof (Z.rem_bound_pos i n Hi ltac:(lia)) as Hb.
    unfold zset. destruct ((Z.rem i n <? 0) || (zlen buf <=? Z.rem i n)) eqn:Eb.
    { apply orb_true_iff in Eb. destruct Eb as [Eb|Eb];
        [apply Z.ltb_lt in Eb|apply Z.leb_le in Eb]; lia. }
    destruct (IH (upd buf (Z.to_nat (Z.rem i n)) x) (i + 1) s1 Hok1 ltac:(lia) ltac:(lia))
      as (s' & ev & E2).
    { unfold zlen in *. rewrite upd_length. exact Hlen. }
    rewrite E2. simpl. rewrite Hd. simpl. unfold ring_push at 2. simpl. eauto.
  - destruct Hp as (Hd & _). rewrite Hd. simpl. eauto.
Qed.

Lemma lastn_zero {A} (l : list A) : lastn 0 l = [].
Proof. unfold lastn. rewrite Nat.sub_0_r. apply skipn_all. Qed.

(* Last returns the last n items for EVERY n when the guard is there, for n >= 1 otherwise *)
Lemma ilast_spec cfg n s : iok s -> (cfg_last_guard cfg = true \/ 1 <= n) ->
  exists s' ev, ilast cfg (ired_fuel s) n s = (Item (lastn (Z.to_nat n) (iden s)), s', ev).
Proof.
  intros Hok Hg. unfold ilast, ired_fuel.
  destruct (cfg_last_guard cfg && (n <=? 0)) eqn:Eg.
  - apply andb_true_iff in Eg. destruct Eg as [_ En]. apply Z.leb_le in En.
    destruct (ireduce_spec (fun (u : unit) _ => Some u) (fun (u : unit) _ => u)
                           ltac:(reflexivity) (S (isize s)) tt s Hok ltac:(lia))
      as (s' & ev & E).
    rewrite E. replace (Z.to_nat n) with O by lia. rewrite lastn_zero. eauto.
  - assert (Hn : 1 <= n).
    { destruct Hg as [Hg|Hg]; [|exact Hg]. rewrite Hg in Eg. simpl in Eg.
      apply Z.leb_gt in Eg. lia. }
    destruct (n <? 0) eqn:E0; [apply Z.ltb_lt in E0; lia|].
    destruct (ilast_loop_spec n Hn (S (isize s)) (zrepeat 0 n) 0 s Hok ltac:(lia) ltac:(lia)
                              ltac:(apply zlen_repeat; lia)) as (s' & ev & E).
    rewrite E.
    pose proof (ring_inv_fold n (iden s) Hn [] _ (ring_inv_init n Hn)) as Hinv. simpl in Hinv.
    destruct (fold_left (ring_push n) (iden s) (zrepeat 0 n, 0)) as [buf i] eqn:Ef.
    rewrite (last_finish_spec n (iden s) buf i Hn Hinv). eauto.
Qed.

Lemma ione_spec s : iok s ->
  exists s' ev, ione s = (match iden s with [x] => Item [x] | _ => End end, s', ev).
Proof.
  intros Hok. unfold ione.
  destruct (istep_spec s Hok) as (o & s1 & ev1 & E & Hok1 & Hp). rewrite E.
  destruct o as [x| | | |]; try (destruct Hp; fail).
  - destruct Hp as [Hd _]. rewrite Hd.
    destruct (istep_spec s1 Hok1) as (o2 & s2 & ev2 & E2 & Hok2 & Hp2). rewrite E2.
    destruct o2 as [y| | | |]; try (destruct Hp2; fail).
    + destruct Hp2 as [Hd2 _]. rewrite Hd2. eauto.
    + destruct Hp2 as (Hd2 & _). rewrite Hd2. eauto.
  - destruct Hp as (Hd & _). rewrite Hd. eauto.
Qed.

(* ---- Equal ---- *)
(* "the first item/end of b is the same as [ok], and b' is the rest" *)
Definition head_is (ok : option Z) (b b' : ist) : Prop :=
  match ok with
  | Some x => iden b = x :: iden b'
  | None => iden b = [] /\ iden b' = []
  end.
Definition head_differs (ok : option Z) (b : ist) : Prop :=
  match ok with
  | Some x => forall t, iden b <> x :: t
  | None => iden b <> []
  end.

Lemma iequal_round_spec ok : forall others,
  Forall iok others ->
  exists o others' ev, iequal_round ok others = (o, others', ev) /\ Forall iok others' /\
    match o with
    | End => Forall2 (head_is ok) others others'
    | Item b => b = false /\ Exists (head_differs ok) others
    | _ => False
    end.
Proof.
  induction others as [|b tl IH]; intros Hok; simpl.
  - exists End, [], []. auto.
  - inversion Hok as [|b0 tl0 Hb Htl]; subst.
    destruct (istep_spec b Hb) as (ob & b' & evb & E & Hokb & Hp). rewrite E.
    destruct (IH Htl) as (o2 & tl' & ev2 & E2 & Hok2 & Hp2). rewrite E2.
    assert (Hcont : forall (Hh : head_is ok b b'),
      exists o others' ev,
        (o2, b' :: tl', evb ++ ev2) = (o, others', ev) /\ Forall iok others' /\
        match o with
        | End => Forall2 (head_is ok) (b :: tl) others'
        | Item c => c = false /\ Exists (head_differs ok) (b :: tl)
        | _ => False
        end).
    { intros Hh. exists o2, (b' :: tl'), (evb ++ ev2). split; [reflexivity|].
      split; [constructor; assumption|].
      destruct o2 as [c| | | |]; try (destruct Hp2; fail).
      - destruct Hp2 as [Hc He]. split; [exact Hc|]. apply Exists_cons_tl. exact He.
      - constructor; assumption. }
    destruct ob as [y| | | |]; try (destruct Hp; fail).
    + destruct Hp as [Hd _]. destruct ok as [x|].
      * destruct (x =? y) eqn:Exy.
        -- apply Z.eqb_eq in Exy. subst y. apply Hcont. exact Hd.
        -- apply Z.eqb_neq in Exy. exists (Item false), (b' :: tl), evb.
           split; [reflexivity|]. split; [constructor; assumption|]. split; [reflexivity|].
           apply Exists_cons_hd. simpl. intros t Ht. rewrite Hd in Ht. congruence.
      * exists (Item false), (b' :: tl), evb.
        split; [reflexivity|]. split; [constructor; assumption|]. split; [reflexivity|].
        apply Exists_cons_hd. simpl. rewrite Hd. discriminate.
    + destruct Hp as (Hd & Hd' & _). destruct ok as [x|].
      * exists (Item false), (b' :: tl), evb.
        split; [reflexivity|]. split; [constructor; assumption|]. split; [reflexivity|].
        apply Exists_cons_hd. simpl. rewrite Hd. discriminate.
      * apply Hcont. simpl. auto.
Qed.

Lemma iequal_spec : forall k a others,
  iok a -> Forall iok others -> (isize a < k)%nat ->
  exists b st ev, iequal k a others = (Item b, st, ev) /\
                  (b = true <-> Forall (fun q => iden q = iden a) others).
Proof.
  induction k as [|k IH]; intros a others Hoka Hoko Hk; [lia|]. simpl.
  destruct (istep_spec a Hoka) as (oa & a' & eva & E & Hoka' & Hp). rewrite E.
  destruct oa as [x| | | |]; try (destruct Hp; fail).
  - destruct Hp as [Hd Hs].
    destruct (iequal_round_spec (Some x) others Hoko) as (orr & others' & evr & Er & Hoko' & Hr).
    rewrite Er. destruct orr as [c| | | |]; try (destruct Hr; fail).
    + destruct Hr as [Hc He]. subst c. exists false, (a', others'), (eva ++ evr).
      split; [reflexivity|]. split; [discriminate|]. intros Hall. exfalso.
      apply Exists_exists in He. destruct He as (q & Hq & Hdq).
      rewrite Forall_forall in Hall. specialize (Hall q Hq). simpl in Hdq.
      apply (Hdq (iden a')). rewrite Hall. exact Hd.
    + destruct (IH a' others' Hoka' Hoko' ltac:(lia)) as (b & st & ev & E2 & Hb).
      rewrite E2. simpl. exists b, st, (((eva ++ evr)) ++ ev). split; [reflexivity|].
      rewrite Hb. clear - Hr Hd. induction Hr as [|q q' tl tl' Hh Ht IHr].
      * split; constructor.
      * simpl in Hh. split; intros Hf; inversion Hf as [|z zs Hz Hzs]; subst; constructor.
        -- rewrite Hh, Hz, Hd. reflexivity.
        -- apply IHr. exact Hzs.
        -- rewrite Hh, Hd in Hz. congruence.
        -- apply IHr. exact Hzs.
  - destruct Hp as (Hd & Hd' & _).
    destruct (iequal_round_spec None others Hoko) as (orr & others' & evr & Er & Hoko' & Hr).
    rewrite Er. destruct orr as [c| | | |]; try (destruct Hr; fail).
    + destruct Hr as [Hc He]. subst c. exists false, (a', others'), (eva ++ evr).
      split; [reflexivity|]. split; [discriminate|]. intros Hall. exfalso.
      apply Exists_exists in He. destruct He as (q & Hq & Hdq).
      rewrite Forall_forall in Hall. specialize (Hall q Hq). simpl in Hdq.
      apply Hdq. rewrite Hall. exact Hd.
    + exists true, (a', others'), (eva ++ evr). split; [reflexivity|].
      split; [|reflexivity]. intros _. rewrite Hd. clear - Hr.
      induction Hr as [|q q' tl tl' Hh Ht IHr]; constructor; [apply Hh|exact IHr].
Qed.

(* ---- run level, iterators ---- *)
Section IterRuns.
  Variables (cfg : config) (p : pz) (b : bool).
  Hypothesis Hs : iter_supported_z p = true.
  Hypothesis Hd : dom_z p.
  Hypothesis Hnp : no_panics_z p = true.

  Ltac init_facts Hs Hd :=
    pose proof (proj1 iinit_ok _ Hd Hnp) as Hok; pose proof (proj1 iinit_den _ Hs) as Hden.

  Theorem iter_collect_den :
    results (run_iter_cfg cfg (inl p) (Reduce RCollect b)) = [RVal (den_z p)].
  Proof.
    init_facts Hs Hd. unfold results, run_iter_cfg, irun_reduce.
    destruct (icollect_spec (iinit p) Hok) as (s' & ev & E). rewrite E, Hden. reflexivity.
  Qed.

  Theorem iter_sum_den fl : cb_panics fl = false ->
    results (run_iter_cfg cfg (inl p) (Reduce (RSum fl) b))
    = [RVal [fold_left Z.add (den_z p) 0]].
  Proof.
    intros Hfl. init_facts Hs Hd. unfold results, run_iter_cfg, irun_reduce.
    destruct (ireduce_spec (isum_step fl) _ (isum_step_ok fl Hfl) (ired_fuel (iinit p)) (O, 0)
                           (iinit p) Hok ltac:(unfold ired_fuel; lia)) as (s' & ev & E).
    rewrite E, Hden. simpl. rewrite fold_sum_snd. reflexivity.
  Qed.

  Theorem iter_one_den :
    results (run_iter_cfg cfg (inl p) (Reduce ROne b))
    = [match den_z p with [x] => RVal [x] | _ => REnd end].
  Proof.
    init_facts Hs Hd. unfold results, run_iter_cfg, irun_reduce.
    destruct (ione_spec (iinit p) Hok) as (s' & ev & E). rewrite E, Hden.
    destruct (den_z p) as [|x [|y t]]; reflexivity.
  Qed.

  Theorem iter_last_den n : (cfg_last_guard cfg = true \/ 1 <= n) ->
    results (run_iter_cfg cfg (inl p) (Reduce (RLast n) b))
    = [RVal (lastn (Z.to_nat n) (den_z p))].
  Proof.
    intros Hg. init_facts Hs Hd. unfold results, run_iter_cfg, irun_reduce.
    destruct (ilast_spec cfg n (iinit p) Hok Hg) as (s' & ev & E). rewrite E, Hden. reflexivity.
  Qed.

  Theorem iter_equal_den others :
    forallb iter_supported_z others = true -> Forall dom_z others ->
    forallb no_panics_z others = true ->
    exists e : bool, results (run_iter_cfg cfg (inl p) (Reduce (REqual others) b))
              = [RVal [if e then 1 else 0]] /\
              (e = true <-> Forall (fun q => den_z q = den_z p) others).
  Proof.
    intros Hso Hdo Hnpo. init_facts Hs Hd. unfold results, run_iter_cfg, irun_reduce.
    assert (Hoko : Forall iok (map iinit others)).
    { rewrite Forall_map. rewrite forallb_forall in Hnpo. rewrite Forall_forall in *.
      intros q Hq. apply (proj1 iinit_ok); auto. }
    destruct (iequal_spec (ired_fuel (iinit p)) (iinit p) (map iinit others) Hok Hoko
                          ltac:(unfold ired_fuel; lia)) as (e & st & ev & E & He).
    rewrite E. exists e. split; [reflexivity|]. rewrite He, Hden, Forall_map.
    rewrite forallb_forall in Hso. rewrite !Forall_forall.
    split; intros H q Hq; specialize (H q Hq);
      rewrite (proj1 iinit_den q (Hso q Hq)) in *; exact H.
  Qed.

  (* REqualSelf: always equal *)
  Theorem iter_equal_self :
    results (run_iter_cfg cfg (inl p) (Reduce REqualSelf b)) = [RVal [1]].
  Proof.
    init_facts Hs Hd. unfold results, run_iter_cfg, irun_reduce.
    assert (Hshift : forall d,
      (forall q, iden (iinit (pz_shift d q)) = iden (iinit q) /\
                 (iok (iinit q) -> iok (iinit (pz_shift d q)))) /\
      (forall q, ilden (ilinit (pl_shift d q)) = ilden (ilinit q) /\
                 (ilok (ilinit q) -> ilok (ilinit (pl_shift d q))))).
    { intros d. apply pipe_ind; simpl; intros;
        try (destruct H as [H1 H2]; split; [rewrite ?H1; try reflexivity|try tauto]).
      - auto.
      - unfold pkden; simpl. rewrite H1. reflexivity.
      - unfold fden; simpl. rewrite H1. reflexivity.
      - split.
        + unfold flden; simpl. rewrite !map_map. apply concat_map_ext.
          eapply Forall_impl; [|exact H]. intros x [Hx _]. exact Hx.
        + intros [Ha _]. split; [|exact I]. clear - H Ha.
          induction H as [|x t [_ Hx] Ht IH]; simpl in *; [exact I|]. destruct Ha. auto.
      - split.
        + unfold jden. rewrite !map_map. apply concat_map_ext.
          eapply Forall_impl; [|exact H]. intros x [Hx _]. exact Hx.
        + intros Ha. clear - H Ha.
          induction H as [|x t [_ Hx] Ht IH]; simpl in *; [exact I|]. destruct Ha. auto.
      - unfold wden; simpl. rewrite H1. reflexivity.
      - unfold fsden; simpl. rewrite H1. reflexivity.
      - unfold rden, pkden; simpl. rewrite H1. reflexivity. }
    destruct (proj1 (Hshift 1000%nat) p) as [Hsd Hso].
    destruct (iequal_spec (ired_fuel (iinit p)) (iinit p) [iinit (pz_shift 1000 p)] Hok
                          ltac:(constructor; auto) ltac:(unfold ired_fuel; lia))
      as (e & st & ev & E & He).
    rewrite E. assert (e = true) by (apply He; constructor; auto). subst e. reflexivity.
  Qed.
End IterRuns.

(* iterator.Last with n = 0 before the repair: panics for every input *)
Theorem iter_last_n0_refuted :
  exists p, iter_supported_z p = true /\ dom_z p /\
    results (run_iter_cfg original_cfg (inl p) (Reduce (RLast 0) true))
    <> [RVal (lastn (Z.to_nat 0) (den_z p))].
Proof.
  exists (ZSrc 0 (SSlice [7; 8])). split; [reflexivity|]. split; [exact I|].
  vm_compute. discriminate.
Qed.
