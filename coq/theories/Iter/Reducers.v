(* Reducers: Reduce/Collect/Sum, One, Last (the ring buffer), Equal - on the iterator model, and
   the stream versions (clean pipelines, and pipelines with faults). *)
From Juniper Require Import Common.Base Iter.Syntax Iter.Config Iter.ModelBase Iter.IterModel
  Iter.StreamModel Iter.Spec Iter.Contract Iter.IterProofs.

(* ---- the ring buffer of Last, as a pure fold ---- *)
Definition ring_push (n : Z) (st : list Z * Z) (x : Z) : list Z * Z :=
  (upd (fst st) (Z.to_nat (Z.rem (snd st) n)) x, snd st + 1).

Lemma skipn_S_tl {A} j (d : list A) : skipn (S j) d = tl (skipn j d).
Proof.
  revert d. induction j as [|j IH]; intros d.
  - destruct d; reflexivity.
  - destruct d as [|a d]; [reflexivity|]. change (skipn (S j) d = tl (skipn j d)). apply IH.
Qed.

Lemma lastn_short {A} N (d : list A) : (length d <= N)%nat -> lastn N d = d.
Proof. intros H. unfold lastn. replace (length d - N)%nat with O by lia. reflexivity. Qed.

Lemma lastn_snoc {A} N (d : list A) x :
  (1 <= N)%nat -> (N <= length d)%nat -> lastn N (d ++ [x]) = tl (lastn N d) ++ [x].
Proof.
  intros H1 H2. unfold lastn. rewrite app_length. simpl.
  replace (length d + 1 - N)%nat with (S (length d - N)) by lia.
  rewrite skipn_S_tl. rewrite skipn_app.
  replace (length d - N - length d)%nat with O by lia. simpl.
  remember (skipn (length d - N) d) as sk eqn:Hsk.
  assert (Hl : length sk = N) by (subst sk; rewrite skipn_length; lia).
  destruct sk as [|a sk]; [simpl in Hl; lia|]. reflexivity.
Qed.

Lemma upd_app_mid {A} (a b : list A) y x : upd (a ++ y :: b) (length a) x = a ++ x :: b.
Proof. induction a as [|z a IH]; simpl; [reflexivity|]. rewrite IH. reflexivity. Qed.

Lemma split_at {A} (l : list A) m :
  (m < length l)%nat -> exists a y b, l = a ++ y :: b /\ length a = m.
Proof.
  revert l. induction m as [|m IH]; intros l H; destruct l as [|z l]; simpl in H; try lia.
  - exists [], z, l. auto.
  - destruct (IH l ltac:(lia)) as (a & y & b & He & Hl). exists (z :: a), y, b.
    subst l. simpl. auto.
Qed.

Lemma rem_succ i n : 0 <= i -> 0 < n ->
  Z.rem (i + 1) n = if Z.rem i n + 1 =? n then 0 else Z.rem i n + 1.
Proof.
  intros Hi Hn. rewrite !Z.rem_mod_nonneg by lia.
  pose proof (Z.mod_pos_bound i n Hn) as Hb.
  pose proof (Z.div_mod i n ltac:(lia)) as Hd.
  destruct (i mod n + 1 =? n) eqn:E.
  - apply Z.eqb_eq in E. symmetry. apply (Z.mod_unique_pos _ _ (i / n + 1)); lia.
  - apply Z.eqb_neq in E. symmetry. apply (Z.mod_unique_pos _ _ (i / n)); lia.
Qed.

(* state of the buffer after the items d, for n >= 1 *)
Definition ring_inv (n : Z) (d : list Z) (st : list Z * Z) : Prop :=
  let '(buf, i) := st in
  i = zlen d /\ length buf = Z.to_nat n /\
  (i < n -> buf = d ++ repeat 0 (Z.to_nat (n - i))) /\
  (n <= i -> let m := Z.to_nat (Z.rem i n) in
             skipn m buf ++ firstn m buf = lastn (Z.to_nat n) d).

Lemma ring_inv_init n : 1 <= n -> ring_inv n [] (zrepeat 0 n, 0).
Proof.
  intros Hn. unfold ring_inv, zrepeat, zlen. simpl.
  split; [reflexivity|]. split; [apply repeat_length|]. split; [|lia].
  intros _. rewrite Z.sub_0_r. reflexivity.
Qed.

Lemma ring_inv_push n d st x :
  1 <= n -> ring_inv n d st -> ring_inv n (d ++ [x]) (ring_push n st x).
Proof.
  intros Hn. destruct st as [buf i]. unfold ring_inv, ring_push. simpl.
  intros (Hi & Hlen & Hlt & Hge).
  assert (Hi0 : 0 <= i) by (subst i; apply zlen_nonneg).
  pose proof (Z.rem_bound_pos i n Hi0 ltac:(lia)) as Hb.
  assert (Hz : zlen (d ++ [x]) = i + 1) by (rewrite zlen_app; subst i; reflexivity).
  split; [symmetry; exact Hz|]. split; [rewrite upd_length; exact Hlen|].
  destruct (Z_lt_ge_dec i n) as [Hc|Hc].
  - (* the buffer is not full yet *)
    specialize (Hlt Hc). rewrite Z.rem_small by lia.
    assert (Hld : length d = Z.to_nat i) by (unfold zlen in Hi; lia).
    replace (Z.to_nat (n - i)) with (S (Z.to_nat (n - (i + 1)))) in Hlt by lia.
    simpl in Hlt. rewrite Hlt. rewrite <- Hld, upd_app_mid. split.
    + intros _. rewrite <- app_assoc. reflexivity.
    + intros Hfull. assert (i + 1 = n) by lia.
      replace (Z.to_nat (n - (i + 1))) with O by lia. simpl.
      rewrite H, Z.rem_same by lia. simpl. rewrite !app_nil_r.
      rewrite lastn_short; [reflexivity|]. rewrite app_length. simpl. lia.
  - (* full: overwrite the oldest item *)
    specialize (Hge ltac:(lia)). cbv zeta in Hge. split; [lia|]. intros _. cbv zeta.
    set (m := Z.to_nat (Z.rem i n)) in *.
    assert (Hm : (m < length buf)%nat) by (unfold m; lia).
    destruct (split_at buf m Hm) as (a & y & b & Hbuf & Hla). subst buf.
    assert (Hupd : upd (a ++ y :: b) m x = a ++ x :: b) by (rewrite <- Hla; apply upd_app_mid).
    rewrite Hupd.
    assert (Hsk : skipn m (a ++ y :: b) = y :: b).
    { rewrite <- Hla. rewrite skipn_app, skipn_all, Nat.sub_diag. reflexivity. }
    assert (Hfi : firstn m (a ++ y :: b) = a).
    { rewrite <- Hla. rewrite firstn_app, firstn_all, Nat.sub_diag. simpl. apply app_nil_r. }
    rewrite Hsk, Hfi in Hge.
    assert (HN : (Z.to_nat n <= length d)%nat) by (unfold zlen in Hi; lia).
    rewrite (lastn_snoc (Z.to_nat n) d x ltac:(lia) HN). rewrite <- Hge. simpl.
    rewrite (rem_succ i n Hi0 ltac:(lia)).
    rewrite app_length in Hlen. simpl in Hlen.
    destruct (Z.rem i n + 1 =? n) eqn:E.
    + apply Z.eqb_eq in E. assert (Hb0 : length b = O) by (unfold m in *; lia).
      destruct b; [|discriminate Hb0]. simpl. rewrite !app_nil_r. reflexivity.
    + apply Z.eqb_neq in E.
      replace (Z.to_nat (Z.rem i n + 1)) with (S m) by (unfold m; lia).
      assert (Hsk2 : skipn (S m) (a ++ x :: b) = b).
      { rewrite <- Hla. rewrite skipn_app.
        replace (S (length a) - length a)%nat with 1%nat by lia.
        rewrite skipn_all2 by lia. reflexivity. }
      assert (Hfi2 : firstn (S m) (a ++ x :: b) = a ++ [x]).
      { rewrite <- Hla. rewrite firstn_app.
        replace (S (length a) - length a)%nat with 1%nat by lia.
        rewrite firstn_all2 by lia. reflexivity. }
      rewrite Hsk2, Hfi2. rewrite <- app_assoc. reflexivity.
Qed.

Lemma ring_inv_fold n l : 1 <= n -> forall d st,
  ring_inv n d st -> ring_inv n (d ++ l) (fold_left (ring_push n) l st).
Proof.
  intros Hn. induction l as [|x l IH]; intros d st Hinv; simpl.
  - rewrite app_nil_r. exact Hinv.
  - replace (d ++ x :: l) with ((d ++ [x]) ++ l) by (rewrite <- app_assoc; reflexivity).
    apply IH. apply ring_inv_push; assumption.
Qed.

(* what Last returns from the buffer *)
Lemma last_finish_spec n d buf i :
  1 <= n -> ring_inv n d (buf, i) -> last_finish n buf i = Item (lastn (Z.to_nat n) d).
Proof.
  intros Hn (Hi & Hlen & Hlt & Hge). unfold last_finish.
  destruct (i <? n) eqn:E.
  - apply Z.ltb_lt in E. rewrite (Hlt E).
    assert (Hld : length d = Z.to_nat i) by (unfold zlen in Hi; lia).
    rewrite <- Hld, firstn_app, firstn_all, Nat.sub_diag. simpl. rewrite app_nil_r.
    rewrite lastn_short by lia. reflexivity.
  - apply Z.ltb_ge in E. destruct (n =? 0) eqn:E0; [apply Z.eqb_eq in E0; lia|].
    rewrite (Hge E). reflexivity.
Qed.
