(* Proofs about the iterator model: denotation of states, the master contract theorem
   (every Next of every pipeline state yields the head of its denotation, keeps the rest, reports
   the end exactly when the denotation is empty and keeps reporting it), fuel sufficiency, and
   the reducers. *)
From Juniper Require Import Common.Base Iter.Syntax Iter.Config Iter.ModelBase Iter.IterModel
  Iter.Spec Iter.Contract.

(* ---- items left in a source ---- *)
Definition isrc_items (s : isrc) : list Z :=
  match s with
  | ISlice a => a
  | ICounter i n => map (fun k => i + Z.of_nat k) (seq 0 (Z.to_nat (n - i)))
  | IRepeat x n => repeat x (Z.to_nat n)
  | IEmpty => []
  end.

Definition all_p {A} (P : A -> Prop) : list A -> Prop :=
  fix go (l : list A) : Prop := match l with [] => True | x :: t => P x /\ go t end.

Lemma all_p_Forall {A} (P : A -> Prop) l : all_p P l <-> Forall P l.
Proof.
  induction l as [|x t IH]; simpl; split; intros H; auto.
  - destruct H as [H1 H2]. constructor; [exact H1|apply IH; exact H2].
  - inversion H as [|x0 t0 H1 H2]; subst. split; [exact H1|apply IH; exact H2].
Qed.

(* ---- denotation, end predicate and well-formedness of states ---- *)
Fixpoint iden (s : ist) : list Z :=
  match s with
  | ISrc _ src => isrc_items src
  | IPeek p => pkden iden p
  | ICompact r first prev p => cden iden r (first, prev, p)
  | IFilter keep p => filter (pred_eval keep) (iden p)
  | IFirst x p => fden iden (x, p)
  | IFlatten rest curr => flden iden (rest, curr)
  | IJoin its => jden iden its
  | IMap f p => map (fn_eval f) (iden p)
  | IWhile f done p => wden iden f (done, p)
  | IFlattenSlices b q => fsden ilden (b, q)
  end
with ilden (q : ilst) : list (list Z) :=
  match q with
  | IChunk size p => spec_chunk size (iden p)
  | IRuns r k cur p => rden iden r k (cur, p)
  end.

Fixpoint ifin (s : ist) : Prop :=
  match s with
  | ISrc _ src => isrc_items src = []
  | IPeek p => pkfin ifin p
  | ICompact _ _ _ p | IFilter _ p | IMap _ p => ifin p
  | IFirst x p => ffin ifin (x, p)
  | IFlatten rest curr => flfin (rest, curr)
  | IJoin its => jfin its
  | IWhile _ done p => wfin ifin (done, p)
  | IFlattenSlices b q => fsfin ilfin (b, q)
  end
with ilfin (q : ilst) : Prop :=
  match q with
  | IChunk _ p => ifin p
  | IRuns _ _ cur p => rfin ifin (cur, p)
  end.

Fixpoint iok (s : ist) : Prop :=
  match s with
  | ISrc _ _ => True
  | IPeek p => iok (pk_in p)
  | ICompact _ _ _ p | IFilter _ p | IFirst _ p | IMap _ p | IWhile _ _ p => iok p
  | IFlatten rest curr => all_p iok rest /\ match curr with Some c => iok c | None => True end
  | IJoin its => all_p iok its
  | IFlattenSlices _ q => ilok q
  end
with ilok (q : ilst) : Prop :=
  match q with
  | IChunk size p => 0 <= size /\ iok p
  | IRuns _ _ _ p => iok (pk_in p)
  end.

Lemma isrc_next_spec src :
  match isrc_next src with
  | (Some x, src') => isrc_items src = x :: isrc_items src'
  | (None, src') => isrc_items src = [] /\ src' = src
  end.
Proof.
  destruct src as [a|i n|x n|]; simpl.
  - destruct a; simpl; auto.
  - destruct (n <=? i) eqn:E; simpl.
    + apply Z.leb_le in E. replace (Z.to_nat (n - i)) with O by lia. auto.
    + apply Z.leb_gt in E.
      replace (Z.to_nat (n - i)) with (S (Z.to_nat (n - (i + 1)))) by lia.
      simpl. rewrite Z.add_0_r. f_equal.
      rewrite <- seq_shift, map_map. apply map_ext. intros k. lia.
  - destruct (n <=? 0) eqn:E; simpl.
    + apply Z.leb_le in E. replace (Z.to_nat n) with O by lia. auto.
    + apply Z.leb_gt in E. replace (Z.to_nat n) with (S (Z.to_nat (n - 1))) by lia.
      reflexivity.
  - auto.
Qed.

(* ---- the master theorem: every state of every pipeline satisfies the contract ---- *)
Theorem inext_contract : forall f,
  contract false (inext f) iden ifin iok /\ contract false (ilnext f) ilden ilfin ilok.
Proof.
  induction f as [|f [IHz IHl]].
  - split; unfold contract; intros s o s' ev Hok Hc; simpl in Hc; inv_ret Hc; simpl; auto.
  - split; unfold contract; intros s o s' ev Hok Hc.
    + destruct s as [id src|p|r first prev p|keep p|x p|rest curr|its|g p|g done p|b q];
        cbn [inext] in Hc.
      * (* source *)
        pose proof (isrc_next_spec src) as Hs.
        destruct (isrc_next src) as [[x|] src'] eqn:E; inv_ret Hc; simpl.
        -- split; [exact I|]. split; [exact Hs|]. intros Hf. rewrite Hf in Hs. discriminate.
        -- destruct Hs as [Hs1 Hs2]. subst src'. auto.
      * (* peek *)
        destruct (ipk_next (inext f) p) as [[o1 p1] ev1] eqn:E. inv_ret Hc.
        exact (ipk_next_ok false _ _ _ _ IHz p _ _ _ Hok E).
      * (* compact *)
        destruct (icompact (inext f) (S f) r first prev p) as [[o1 [[f1 pr1] p1]] ev1] eqn:E.
        inv_ret Hc.
        exact (icompact_ok false _ _ _ _ IHz (S f) r (first, prev, p) _ _ _ Hok E).
      * (* filter *)
        destruct (ifilter (inext f) (S f) keep p) as [[o1 p1] ev1] eqn:E. inv_ret Hc.
        exact (ifilter_ok false _ _ _ _ IHz (S f) keep p _ _ _ Hok E).
      * (* first *)
        destruct (ifirst (inext f) x p) as [[o1 [x1 p1]] ev1] eqn:E. inv_ret Hc.
        exact (ifirst_ok false _ _ _ _ IHz eq_refl (x, p) _ _ _ Hok E).
      * (* flatten *)
        destruct (iflatten (inext f) (S f) rest curr) as [[o1 [r1 c1]] ev1] eqn:E. inv_ret Hc.
        destruct Hok as [Hok1 Hok2].
        assert (Hok' : flok iok (rest, curr)).
        { split; [apply all_p_Forall; exact Hok1|exact Hok2]. }
        destruct (iflatten_ok false _ _ _ _ IHz (S f) (rest, curr) _ _ _ Hok' E)
          as ([Ha Hb] & Hp & Hf).
        split; [split; [apply all_p_Forall; exact Ha|exact Hb]|]. split; [exact Hp|exact Hf].
      * (* join *)
        destruct (ijoin (inext f) (S f) its) as [[o1 its1] ev1] eqn:E. inv_ret Hc.
        apply all_p_Forall in Hok.
        destruct (ijoin_ok false _ _ _ _ IHz (S f) its _ _ _ Hok E) as (Ha & Hp & Hf).
        split; [apply all_p_Forall; exact Ha|]. split; [exact Hp|exact Hf].
      * (* map *)
        destruct (imap (inext f) g p) as [[o1 p1] ev1] eqn:E. inv_ret Hc.
        exact (imap_ok false _ _ _ _ IHz g p _ _ _ Hok E).
      * (* while *)
        destruct (iwhile (inext f) g done p) as [[o1 [d1 p1]] ev1] eqn:E. inv_ret Hc.
        exact (iwhile_ok false _ _ _ _ IHz g (done, p) _ _ _ Hok E).
      * (* flatten slices *)
        destruct (iflatslices (ilnext f) (S f) b q) as [[o1 [b1 q1]] ev1] eqn:E. inv_ret Hc.
        exact (iflatslices_ok false _ _ _ _ IHl (S f) (b, q) _ _ _ Hok E).
    + destruct s as [size p|r k cur p]; cbn [ilnext] in Hc.
      * destruct (ichunk (inext f) (S f) size p) as [[o1 p1] ev1] eqn:E. inv_ret Hc.
        destruct Hok as [Hsz Hok].
        destruct (ichunk_ok false _ _ _ _ IHz (S f) size eq_refl Hsz p _ _ _ Hok E)
          as (Ha & Hp & Hf).
        split; [split; [exact Hsz|exact Ha]|]. split; [exact Hp|exact Hf].
      * destruct (iruns (inext f) (S f) r k cur p) as [[o1 [c1 p1]] ev1] eqn:E. inv_ret Hc.
        exact (iruns_ok _ _ _ _ IHz r (S f) k (cur, p) _ _ _ Hok E).
Qed.
