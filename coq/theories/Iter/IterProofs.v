(* Proofs about the iterator model: denotation of states, the master contract theorem
   (every Next of every pipeline state yields the head of its denotation, keeps the rest, reports
   the end exactly when the denotation is empty and keeps reporting it), fuel sufficiency, and
   the reducers. *)
From Juniper Require Import Common.Base Iter.Syntax Iter.Config Iter.ModelBase Iter.IterModel
  Iter.Spec Iter.Contract.

(* ---- items left in a source ---- *)
Definition isrc_items (s : isrc) : list Z :=
  match s with
  | ISlice a => a
  | ICounter i n => map (fun k => i + Z.of_nat k) (seq 0 (Z.to_nat (n - i)))
  | IRepeat x n => repeat x (Z.to_nat n)
  | IEmpty => []
  end.

Definition all_p {A} (P : A -> Prop) : list A -> Prop :=
  fix go (l : list A) : Prop := match l with [] => True | x :: t => P x /\ go t end.

Lemma all_p_Forall {A} (P : A -> Prop) l : all_p P l <-> Forall P l.
Proof.
  induction l as [|x t IH]; simpl; split; intros H; auto.
  - destruct H as [H1 H2]. constructor; [exact H1|apply IH; exact H2].
  - inversion H as [|x0 t0 H1 H2]; subst. split; [exact H1|apply IH; exact H2].
Qed.

(* ---- denotation, end predicate and well-formedness of states ---- *)
Fixpoint iden (s : ist) : list Z :=
  match s with
  | ISrc _ src => isrc_items src
  | IPeek p => pkden iden p
  | ICompact r first prev p => cden iden r (first, prev, p)
  | IFilter keep _ _ p => filter (pred_eval keep) (iden p)
  | IFirst x p => fden iden (x, p)
  | IFlatten rest curr => flden iden (rest, curr)
  | IJoin its => jden iden its
  | IMap f _ _ p => map (fn_eval f) (iden p)
  | IWhile f _ calls done p => wden iden f (calls, done, p)
  | IFlattenSlices b q => fsden ilden (b, q)
  end
with ilden (q : ilst) : list (list Z) :=
  match q with
  | IChunk size p => spec_chunk size (iden p)
  | IRuns r k cur p => rden iden r k (cur, p)
  end.

Fixpoint ifin (s : ist) : Prop :=
  match s with
  | ISrc _ src => isrc_items src = []
  | IPeek p => pkfin ifin p
  | ICompact _ _ _ p | IFilter _ _ _ p | IMap _ _ _ p => ifin p
  | IFirst x p => ffin ifin (x, p)
  | IFlatten rest curr => flfin (rest, curr)
  | IJoin its => jfin its
  | IWhile _ _ calls done p => wfin ifin (calls, done, p)
  | IFlattenSlices b q => fsfin ilfin (b, q)
  end
with ilfin (q : ilst) : Prop :=
  match q with
  | IChunk _ p => ifin p
  | IRuns _ _ cur p => rfin ifin (cur, p)
  end.

Fixpoint iok (s : ist) : Prop :=
  match s with
  | ISrc _ _ => True
  | IPeek p => iok (pk_in p)
  | ICompact _ _ _ p | IFirst _ p => iok p
  | IFilter _ fl _ p | IMap _ fl _ p | IWhile _ fl _ _ p => cb_panics fl = false /\ iok p
  | IFlatten rest curr => all_p iok rest /\ match curr with Some c => iok c | None => True end
  | IJoin its => all_p iok its
  | IFlattenSlices _ q => ilok q
  end
with ilok (q : ilst) : Prop :=
  match q with
  | IChunk size p => 0 <= size /\ iok p
  | IRuns _ _ _ p => iok (pk_in p)
  end.

Lemma isrc_next_spec src :
  match isrc_next src with
  | (Some x, src') => isrc_items src = x :: isrc_items src'
  | (None, src') => isrc_items src = [] /\ src' = src
  end.
Proof.
  destruct src as [a|i n|x n|]; simpl.
  - destruct a; simpl; auto.
  - destruct (n <=? i) eqn:E; simpl.
    + apply Z.leb_le in E. replace (Z.to_nat (n - i)) with O by lia. auto.
    + apply Z.leb_gt in E.
      replace (Z.to_nat (n - i)) with (S (Z.to_nat (n - (i + 1)))) by lia.
      simpl. rewrite Z.add_0_r. f_equal.
      rewrite <- seq_shift, map_map. apply map_ext. intros k. lia.
  - destruct (n <=? 0) eqn:E; simpl.
    + apply Z.leb_le in E. replace (Z.to_nat n) with O by lia. auto.
    + apply Z.leb_gt in E. replace (Z.to_nat n) with (S (Z.to_nat (n - 1))) by lia.
      reflexivity.
  - auto.
Qed.

(* ---- the master theorem: every state of every pipeline satisfies the contract ---- *)
Theorem inext_contract : forall f,
  contract false (inext f) iden ifin iok /\ contract false (ilnext f) ilden ilfin ilok.
Proof.
  induction f as [|f [IHz IHl]].
  - split; unfold contract; intros s o s' ev Hok Hc; simpl in Hc; inv_ret Hc; simpl; auto.
  - split; unfold contract; intros s o s' ev Hok Hc.
    + destruct s as [id src|p|r first prev p|keep fl calls p|x p|rest curr|its|g fl calls p
                    |g fl calls done p|b q];
        cbn [inext] in Hc.
      * (* source *)
        pose proof (isrc_next_spec src) as Hs.
        destruct (isrc_next src) as [[x|] src'] eqn:E; inv_ret Hc; simpl.
        -- split; [exact I|]. split; [exact Hs|]. intros Hf. rewrite Hf in Hs. discriminate.
        -- destruct Hs as [Hs1 Hs2]. subst src'. auto.
      * (* peek *)
        destruct (ipk_next (inext f) p) as [[o1 p1] ev1] eqn:E. inv_ret Hc.
        exact (ipk_next_ok false _ _ _ _ IHz p _ _ _ Hok E).
      * (* compact *)
        destruct (icompact (inext f) (S f) r first prev p) as [[o1 [[f1 pr1] p1]] ev1] eqn:E.
        inv_ret Hc.
        exact (icompact_ok false _ _ _ _ IHz (S f) r (first, prev, p) _ _ _ Hok E).
      * (* filter *)
        destruct (ifilter (inext f) (S f) keep fl calls p) as [[o1 [c1 p1]] ev1] eqn:E.
        inv_ret Hc. destruct Hok as [Hfl Hok].
        destruct (ifilter_ok false _ _ _ _ IHz (S f) keep fl Hfl (calls, p) _ _ _ Hok E)
          as (Ha & Hp & Hf).
        split; [split; [exact Hfl|exact Ha]|]. split; [exact Hp|exact Hf].
      * (* first *)
        destruct (ifirst (inext f) x p) as [[o1 [x1 p1]] ev1] eqn:E. inv_ret Hc.
        exact (ifirst_ok false _ _ _ _ IHz eq_refl (x, p) _ _ _ Hok E).
      * (* flatten *)
        destruct (iflatten (inext f) (S f) rest curr) as [[o1 [r1 c1]] ev1] eqn:E. inv_ret Hc.
        destruct Hok as [Hok1 Hok2].
        assert (Hok' : flok iok (rest, curr)).
        { split; [apply all_p_Forall; exact Hok1|exact Hok2]. }
        destruct (iflatten_ok false _ _ _ _ IHz (S f) (rest, curr) _ _ _ Hok' E)
          as ([Ha Hb] & Hp & Hf).
        split; [split; [apply all_p_Forall; exact Ha|exact Hb]|]. split; [exact Hp|exact Hf].
      * (* join *)
        destruct (ijoin (inext f) (S f) its) as [[o1 its1] ev1] eqn:E. inv_ret Hc.
        apply all_p_Forall in Hok.
        destruct (ijoin_ok false _ _ _ _ IHz (S f) its _ _ _ Hok E) as (Ha & Hp & Hf).
        split; [apply all_p_Forall; exact Ha|]. split; [exact Hp|exact Hf].
      * (* map *)
        destruct (imap (inext f) g fl calls p) as [[o1 [c1 p1]] ev1] eqn:E. inv_ret Hc.
        destruct Hok as [Hfl Hok].
        destruct (imap_ok false _ _ _ _ IHz g fl Hfl (calls, p) _ _ _ Hok E) as (Ha & Hp & Hf).
        split; [split; [exact Hfl|exact Ha]|]. split; [exact Hp|exact Hf].
      * (* while *)
        destruct (iwhile (inext f) g fl calls done p) as [[o1 [[c1 d1] p1]] ev1] eqn:E.
        inv_ret Hc. destruct Hok as [Hfl Hok].
        destruct (iwhile_ok false _ _ _ _ IHz g fl Hfl (calls, done, p) _ _ _ Hok E)
          as (Ha & Hp & Hf).
        split; [split; [exact Hfl|exact Ha]|]. split; [exact Hp|exact Hf].
      * (* flatten slices *)
        destruct (iflatslices (ilnext f) (S f) b q) as [[o1 [b1 q1]] ev1] eqn:E. inv_ret Hc.
        exact (iflatslices_ok false _ _ _ _ IHl (S f) (b, q) _ _ _ Hok E).
    + destruct s as [size p|r k cur p]; cbn [ilnext] in Hc.
      * destruct (ichunk (inext f) (S f) size p) as [[o1 p1] ev1] eqn:E. inv_ret Hc.
        destruct Hok as [Hsz Hok].
        destruct (ichunk_ok false _ _ _ _ IHz (S f) size eq_refl Hsz p _ _ _ Hok E)
          as (Ha & Hp & Hf).
        split; [split; [exact Hsz|exact Ha]|]. split; [exact Hp|exact Hf].
      * destruct (iruns (inext f) (S f) r k cur p) as [[o1 [c1 p1]] ev1] eqn:E. inv_ret Hc.
        exact (iruns_ok _ _ _ _ IHz r (S f) k (cur, p) _ _ _ Hok E).
Qed.

(* ---- fuel ---- *)
From Juniper Require Import Iter.Fuel.

Lemma isize_pos s : (1 <= isize s)%nat.
Proof. destruct s; simpl; lia. Qed.
Lemma ilsize_pos q : (1 <= ilsize q)%nat.
Proof. destruct q; simpl; lia. Qed.

Lemma isrc_next_size src :
  match isrc_next src with
  | (Some _, src') => (isrc_size src' < isrc_size src)%nat
  | (None, src') => src' = src
  end.
Proof.
  destruct src as [a|i n|x n|]; simpl; auto.
  - destruct a; simpl; auto.
  - destruct (n <=? i) eqn:E; simpl; auto. apply Z.leb_gt in E. lia.
  - destruct (n <=? 0) eqn:E; simpl; auto. apply Z.leb_gt in E. lia.
Qed.

Theorem inext_size : forall f, szZ (inext f) isize f /\ szL (ilnext f) ilsize f.
Proof.
  induction f as [|f [IHz IHl]].
  - split; intros s o s' ev Hc; simpl in Hc; inv_ret Hc.
    + split; [exact I|]. pose proof (isize_pos s'). lia.
    + split; [exact I|]. pose proof (ilsize_pos s'). lia.
  - split; intros s o s' ev Hc.
    + destruct s as [id src|p|r first prev p|keep fl calls p|x p|rest curr|its|g fl calls p
                    |g fl calls done p|b q];
        cbn [inext] in Hc.
      * pose proof (isrc_next_size src) as Hs.
        destruct (isrc_next src) as [[x|] src'] eqn:E; inv_ret Hc; simpl.
        -- split; [lia|discriminate].
        -- split; [lia|discriminate].
      * destruct (ipk_next (inext f) p) as [[o1 p1] ev1] eqn:E. inv_ret Hc.
        destruct (ipk_next_sz _ _ _ IHz _ _ _ _ E) as [Hd Hno]. unfold pksz in Hd. simpl.
        split; [destruct o; lia|]. intros H. apply Hno. lia.
      * destruct (icompact (inext f) (S f) r first prev p) as [[o1 [[f1 pr1] p1]] ev1] eqn:E.
        inv_ret Hc. destruct (icompact_sz _ _ _ IHz _ _ _ _ _ _ _ _ _ _ E) as [Hd Hno]. simpl.
        split; [destruct o; lia|]. intros H. apply Hno; lia.
      * destruct (ifilter (inext f) (S f) keep fl calls p) as [[o1 [c1 p1]] ev1] eqn:E.
        inv_ret Hc.
        destruct (ifilter_sz _ _ _ IHz _ _ _ _ _ _ _ _ _ E) as [Hd Hno]. simpl.
        split; [destruct o; lia|]. intros H. apply Hno; lia.
      * destruct (ifirst (inext f) x p) as [[o1 [x1 p1]] ev1] eqn:E. inv_ret Hc.
        destruct (ifirst_sz _ _ _ IHz _ _ _ _ _ _ E) as [Hd Hno]. simpl.
        split; [destruct o; lia|]. intros H. apply Hno; lia.
      * destruct (iflatten (inext f) (S f) rest curr) as [[o1 [r1 c1]] ev1] eqn:E. inv_ret Hc.
        destruct (iflatten_sz _ _ _ IHz _ _ _ _ _ _ _ E) as [Hd Hno]. unfold flsz in *. simpl.
        split; [destruct o; lia|]. intros H. apply Hno; lia.
      * destruct (ijoin (inext f) (S f) its) as [[o1 its1] ev1] eqn:E. inv_ret Hc.
        destruct (ijoin_sz _ _ _ IHz _ _ _ _ _ E) as [Hd Hno]. unfold jsz in *. simpl.
        split; [destruct o; lia|]. intros H. apply Hno; lia.
      * destruct (imap (inext f) g fl calls p) as [[o1 [c1 p1]] ev1] eqn:E. inv_ret Hc.
        destruct (imap_sz _ _ _ IHz _ _ _ _ _ _ _ _ E) as [Hd Hno]. simpl.
        split; [destruct o; lia|]. intros H. apply Hno; lia.
      * destruct (iwhile (inext f) g fl calls done p) as [[o1 [[c1 d1] p1]] ev1] eqn:E.
        inv_ret Hc.
        destruct (iwhile_sz _ _ _ IHz _ _ _ _ _ _ _ _ _ _ E) as [Hd Hno]. simpl.
        split; [destruct o; lia|]. intros H. apply Hno; lia.
      * destruct (iflatslices (ilnext f) (S f) b q) as [[o1 [b1 q1]] ev1] eqn:E. inv_ret Hc.
        destruct (iflatslices_sz _ _ _ IHl _ _ _ _ _ _ _ E) as [Hd Hno]. simpl.
        split; [destruct o; lia|]. intros H. apply Hno; destruct b; simpl in *; lia.
    + destruct s as [size p|r k cur p]; cbn [ilnext] in Hc.
      * destruct (ichunk (inext f) (S f) size p) as [[o1 p1] ev1] eqn:E. inv_ret Hc.
        destruct (ichunk_sz _ _ _ IHz _ _ _ _ _ _ E) as [Hd Hno]. simpl.
        split; [|intros H; apply Hno; lia]. destruct o; try lia.
        destruct Hd as [Ha Hb]. split; [lia|]. intros Hl. specialize (Hb Hl). lia.
      * destruct (iruns (inext f) (S f) r k cur p) as [[o1 [c1 p1]] ev1] eqn:E. inv_ret Hc.
        destruct (iruns_sz _ _ _ IHz _ _ _ _ _ _ _ _ _ E) as [Hd Hno]. unfold rsz in *. simpl.
        split; [|intros H; apply Hno; lia]. destruct o; lia.
Qed.

(* the fuel of the runners is enough: a step never answers Out *)
Corollary inext_fuel_enough s o s' ev : istep s = (o, s', ev) -> o <> Out.
Proof.
  unfold istep. intros Hc. destruct (inext_size (S (isize s))) as [Hz _].
  destruct (Hz _ _ _ _ Hc) as [_ Hno]. apply Hno. lia.
Qed.
Corollary ilnext_fuel_enough q o q' ev : ilstep q = (o, q', ev) -> o <> Out.
Proof.
  unfold ilstep. intros Hc. destruct (inext_size (S (ilsize q))) as [_ Hl].
  destruct (Hl _ _ _ _ Hc) as [_ Hno]. apply Hno. lia.
Qed.

(* ---- initial states denote the pipeline ---- *)
Lemma isrc_init_items s : isource_supported s = true -> isrc_items (isrc_init s) = src_items s.
Proof.
  destruct s as [l|n|x n| |l|evs|evs|e]; simpl; intros H; try reflexivity; try discriminate.
  unfold counter_items. rewrite Z.sub_0_r. apply map_ext. intros k. lia.
Qed.

Lemma concat_map_ext {A B} (f g : A -> list B) l :
  Forall (fun x => f x = g x) l -> concat (map f l) = concat (map g l).
Proof. induction 1 as [|x t Hx Ht IH]; simpl; [reflexivity|]. rewrite Hx, IH. reflexivity. Qed.

Lemma iinit_den :
  (forall p, iter_supported_z p = true -> iden (iinit p) = den_z p) /\
  (forall q, iter_supported_l q = true -> ilden (ilinit q) = den_l q).
Proof.
  apply pipe_ind; simpl; intros;
    try match goal with
        | IH : iter_supported_z ?p = true -> _, Hs : iter_supported_z ?p = true |- _ =>
            specialize (IH Hs)
        end.
  - apply isrc_init_items; assumption.
  - unfold pkden; simpl; auto.
  - rewrite H. reflexivity.
  - rewrite H. reflexivity.
  - unfold fden; simpl. rewrite H. reflexivity.
  - unfold flden; simpl. rewrite map_map. apply concat_map_ext.
    rewrite forallb_forall in H0. rewrite Forall_forall in *. intros x Hx. apply H; auto.
  - unfold jden. rewrite map_map. apply concat_map_ext.
    rewrite forallb_forall in H0. rewrite Forall_forall in *. intros x Hx. apply H; auto.
  - rewrite H. reflexivity.
  - unfold wden; simpl. rewrite H. reflexivity.
  - discriminate.
  - rewrite H. reflexivity.
  - unfold rden; simpl. unfold pkden; simpl. rewrite H. reflexivity.
Qed.

(* initial states of panic-free pipelines of the domain are well-formed *)
Lemma cb_ok_split fl b : negb (cb_panics fl) && b = true -> cb_panics fl = false /\ b = true.
Proof. intros H. apply andb_true_iff in H. destruct H as [H1 H2]. apply negb_true_iff in H1. auto. Qed.

Lemma iinit_ok :
  (forall p, dom_z p -> no_panics_z p = true -> iok (iinit p)) /\
  (forall q, dom_l q -> no_panics_l q = true -> ilok (ilinit q)).
Proof.
  apply pipe_ind; simpl; intros; auto.
  - destruct (cb_ok_split _ _ H1); auto.
  - split; [|exact I]. induction H as [|x t Hx Ht IH]; simpl in *; [exact I|].
    destruct H0 as [H2 H3]. apply andb_true_iff in H1. destruct H1 as [H4 H5]. split; auto.
  - induction H as [|x t Hx Ht IH]; simpl in *; [exact I|].
    destruct H0 as [H2 H3]. apply andb_true_iff in H1. destruct H1 as [H4 H5]. split; auto.
  - destruct (cb_ok_split _ _ H1); auto.
  - destruct (cb_ok_split _ _ H1); auto.
  - destruct H0 as [H2 H3]. split; [lia|auto].
Qed.

(* ---- runs of k Next calls ---- *)
Definition results (r : run_obs) : list robs := map so_res (ro_steps r).

Lemma irun_steps_z ids : forall lives s log,
  iok s ->
  map so_res (fst (irun_steps ids (RZ s) log (map CNext lives)))
  = expect (map IZ (iden s)) (length lives).
Proof.
  induction lives as [|b lives IH]; intros s log Hok; simpl; [reflexivity|].
  destruct (istep s) as [[o s1] ev1] eqn:E.
  pose proof (inext_fuel_enough _ _ _ _ E) as Hno.
  destruct (inext_contract (S (isize s))) as [Hz _].
  destruct (Hz _ _ _ _ Hok E) as (Hok1 & Hp & _).
  destruct o as [x| | | |]; simpl in Hp;
    [| |destruct Hp as [Hx _]; discriminate Hx|destruct Hp|congruence].
  - simpl. rewrite Hp. simpl.
    destruct (irun_steps ids (RZ s1) (log ++ ev1) (map CNext lives)) as [r l] eqn:E2.
    simpl. f_equal. specialize (IH s1 (log ++ ev1) Hok1). rewrite E2 in IH. exact IH.
  - destruct Hp as (Hd & Hd' & Hfin). simpl. rewrite Hd. simpl.
    destruct (irun_steps ids (RZ s1) (log ++ ev1) (map CNext lives)) as [r l] eqn:E2.
    simpl. f_equal. specialize (IH s1 (log ++ ev1) Hok1). rewrite E2, Hd' in IH. exact IH.
Qed.

Lemma irun_steps_l ids : forall lives q log,
  ilok q ->
  map so_res (fst (irun_steps ids (RL q) log (map CNext lives)))
  = expect (map IL (ilden q)) (length lives).
Proof.
  induction lives as [|b lives IH]; intros q log Hok; simpl; [reflexivity|].
  destruct (ilstep q) as [[o q1] ev1] eqn:E.
  pose proof (ilnext_fuel_enough _ _ _ _ E) as Hno.
  destruct (inext_contract (S (ilsize q))) as [_ Hl].
  destruct (Hl _ _ _ _ Hok E) as (Hok1 & Hp & _).
  destruct o as [x| | | |]; simpl in Hp;
    [| |destruct Hp as [Hx _]; discriminate Hx|destruct Hp|congruence].
  - simpl. rewrite Hp. simpl.
    destruct (irun_steps ids (RL q1) (log ++ ev1) (map CNext lives)) as [r l] eqn:E2.
    simpl. f_equal. specialize (IH q1 (log ++ ev1) Hok1). rewrite E2 in IH. exact IH.
  - destruct Hp as (Hd & Hd' & Hfin). simpl. rewrite Hd. simpl.
    destruct (irun_steps ids (RL q1) (log ++ ev1) (map CNext lives)) as [r l] eqn:E2.
    simpl. f_equal. specialize (IH q1 (log ++ ev1) Hok1). rewrite E2, Hd' in IH. exact IH.
Qed.

(* C07, iterators: k Next calls on any pipeline answer the first k items of its denotation and
   then the end, for ever *)
Theorem iter_steps_den cfg p lives :
  iter_supported p = true -> dom p -> no_panics p = true ->
  results (run_iter_cfg cfg p (Steps (map CNext lives))) = expect (den p) (length lives).
Proof.
  intros Hs Hd Hnp. unfold results, run_iter_cfg.
  destruct (irun_steps (sort_ids (pipe_ids p)) (irun_init p) [] (map CNext lives))
    as [steps log] eqn:E. simpl.
  destruct p as [p|q]; simpl in *.
  - pose proof (irun_steps_z (sort_ids (pz_ids p)) lives (iinit p) []
                  (proj1 iinit_ok p Hd Hnp)) as H.
    rewrite E in H. simpl in H. rewrite H. rewrite (proj1 iinit_den p Hs). reflexivity.
  - pose proof (irun_steps_l (sort_ids (pl_ids q)) lives (ilinit q) []
                  (proj2 iinit_ok q Hd Hnp)) as H.
    rewrite E in H. simpl in H. rewrite H. rewrite (proj2 iinit_den q Hs). reflexivity.
Qed.
