(* C08, fatal half.  [scrub] removes every fault that cannot be retried from a state: scripts are
   cut at their first fatal error and callbacks never return an error (a callback that panics
   keeps its record: [scrub_fl]; a panic is the same panic on both sides).  Every call on a state either behaves
   exactly like the same call on the scrubbed state (same result, same events, scrubbed successor)
   or it returns Err e for one of the fault codes e of the state - immediately and unchanged.
   Generic lemmas, one per transcription. *)
From Juniper Require Import Common.Base Iter.Syntax Iter.ModelBase Iter.IterModel
  Iter.StreamModel Iter.Spec Iter.Contract.

Lemma fails_now_code fl calls :
  fail_panic fl = false -> fails_now fl calls = true -> In (fail_err fl) (cb_codes fl).
Proof.
  unfold fails_now, cb_codes. intros Hp. rewrite Hp.
  destruct (fail_at fl); [simpl; auto|discriminate].
Qed.
Lemma never_fails_now calls : fails_now never_fails calls = false.
Proof. reflexivity. Qed.
Lemma scrub_fl_panic fl : fail_panic fl = true -> scrub_fl fl = fl.
Proof. unfold scrub_fl. intros H; rewrite H. reflexivity. Qed.
Lemma scrub_fl_err fl : fail_panic fl = false -> scrub_fl fl = never_fails.
Proof. unfold scrub_fl. intros H; rewrite H. reflexivity. Qed.
Lemma scrub_fl_quiet fl calls : fails_now fl calls = false -> fails_now (scrub_fl fl) calls = false.
Proof. unfold scrub_fl. destruct (fail_panic fl); auto. Qed.
Lemma fail_res_panic {A} fl : fail_panic fl = true -> @fail_res A fl = Pan.
Proof. unfold fail_res. intros H; rewrite H. reflexivity. Qed.
Lemma fail_res_err {A} fl : fail_panic fl = false -> @fail_res A fl = Err (fail_err fl).
Proof. unfold fail_res. intros H; rewrite H. reflexivity. Qed.

Ltac incl_tac :=
  let x := fresh "x" in let Hx := fresh "Hx" in
  intros x Hx; unfold incl in *; simpl in *;
  repeat match goal with H : forall a, In a _ -> In a _ |- _ => specialize (H x) end;
  repeat rewrite in_app_iff in *; intuition auto.

Section SimDef.
  Context {A S : Type}.
  (* F on a state vs F' on the scrubbed state *)
  Definition sim2 (codes : S -> list Z) (scrub : S -> S) (F F' : S -> ret A S) : Prop :=
    forall s o s' ev, F s = (o, s', ev) ->
      incl (codes s') (codes s) /\
      (F' (scrub s) = (o, scrub s', ev) \/ exists e, o = Err e /\ In e (codes s)).
  Definition simok codes scrub F := sim2 codes scrub F F.
End SimDef.

Ltac in_tac := simpl in *; repeat rewrite in_app_iff in *; intuition auto.
Ltac agree_leaf Hc := inv_ret Hc; simpl; split; [incl_tac|left; reflexivity].
Ltac hit_leaf Hc e := inv_ret Hc; simpl; split; [incl_tac|right; exists e; split; [reflexivity|in_tac]].
(* the callback fails now (Ef): a panic is the same panic on the scrubbed side, an error is one
   of the codes *)
Ltac cb_fails fl Ef Hc :=
  let Epn := fresh "Epn" in
  destruct (fail_panic fl) eqn:Epn;
  [rewrite (fail_res_panic fl Epn) in Hc; rewrite (scrub_fl_panic fl Epn);
   try rewrite Ef; try rewrite (fail_res_panic fl Epn); agree_leaf Hc
  |rewrite (fail_res_err fl Epn) in Hc; pose proof (fails_now_code _ _ Epn Ef);
   hit_leaf Hc (fail_err fl)].

Section GenericSim.
  Context {St : Type} (nx : St -> ret Z St) (codes : St -> list Z) (scrub : St -> St).
  Hypothesis Hsim : simok codes scrub nx.

  Definition pkscrub (p : pk St) : pk St := mkPk (pk_has p) (pk_curr p) (scrub (pk_in p)).
  Definition pkcodes (p : pk St) : list Z := codes (pk_in p).

  Lemma ipk_next_sim : simok pkcodes pkscrub (ipk_next nx).
  Proof.
    intros [has curr s] o p' ev. unfold ipk_next, pkcodes, pkscrub. simpl. destruct has.
    - intros Hc. agree_leaf Hc.
    - destruct (nx s) as [[o1 s1] ev1] eqn:E. intros Hc. inv_ret Hc. simpl.
      destruct (Hsim _ _ _ _ E) as [Hi [Ha|(e & He & Hin)]].
      + split; [exact Hi|left]. rewrite Ha. reflexivity.
      + split; [exact Hi|right; eauto].
  Qed.

  Lemma ipk_peek_sim : simok pkcodes pkscrub (ipk_peek nx).
  Proof.
    intros [has curr s] o p' ev. unfold ipk_peek, pkcodes, pkscrub. simpl. destruct has.
    - intros Hc. agree_leaf Hc.
    - destruct (nx s) as [[o1 s1] ev1] eqn:E. intros Hc.
      destruct (Hsim _ _ _ _ E) as [Hi [Ha|(e & He & Hin)]].
      + rewrite Ha. destruct o1; inv_ret Hc; simpl; (split; [exact Hi|left; reflexivity]).
      + subst o1. inv_ret Hc. simpl. split; [exact Hi|right; eauto].
  Qed.

  Lemma icompact_sim n r :
    simok (fun w : bool * Z * St => codes (snd w))
          (fun w => (fst (fst w), snd (fst w), scrub (snd w)))
          (fun w => icompact nx n r (fst (fst w)) (snd (fst w)) (snd w)).
  Proof.
    induction n as [|n IH]; intros [[first prev] s] o w' ev Hc; simpl in *.
    - agree_leaf Hc.
    - destruct (nx s) as [[o1 s1] ev1] eqn:E.
      destruct (Hsim _ _ _ _ E) as [Hi [Ha|(e & He & Hin)]].
      + rewrite Ha. destruct o1 as [x| | | |]; try (agree_leaf Hc).
        destruct first; [agree_leaf Hc|].
        destruct (negb (rel_eval r prev x)); [agree_leaf Hc|].
        destruct (icompact nx n r false prev s1) as [[o2 w2] ev2] eqn:E2.
        simpl in Hc. inv_ret Hc.
        destruct (IH (false, prev, s1) _ _ _ E2) as [Hi2 [Ha2|(e & He & Hin)]]; simpl in *.
        * split; [incl_tac|left]. rewrite Ha2. reflexivity.
        * split; [incl_tac|right]. exists e. split; [exact He|apply Hi; exact Hin].
      + subst o1. hit_leaf Hc e.
  Qed.

  Lemma sfilter_sim n keep fl :
    sim2 (fun w : nat * St => cb_codes fl ++ codes (snd w))
         (fun w => (fst w, scrub (snd w)))
         (fun w => sfilter nx n keep fl (fst w) (snd w))
         (fun w => sfilter nx n keep (scrub_fl fl) (fst w) (snd w)).
  Proof.
    induction n as [|n IH]; intros [calls s] o w' ev Hc; simpl in *.
    - agree_leaf Hc.
    - destruct (nx s) as [[o1 s1] ev1] eqn:E.
      destruct (Hsim _ _ _ _ E) as [Hi [Ha|(e & He & Hin)]].
      + rewrite Ha. destruct o1 as [x| | | |]; try (agree_leaf Hc).
        destruct (fails_now fl calls) eqn:Ef.
        * cb_fails fl Ef Hc.
        * rewrite ?(scrub_fl_quiet _ _ Ef).
          destruct (pred_eval keep x); [agree_leaf Hc|].
          destruct (sfilter nx n keep fl (S calls) s1) as [[o2 w2] ev2] eqn:E2.
          simpl in Hc. inv_ret Hc.
          destruct (IH (S calls, s1) _ _ _ E2) as [Hi2 [Ha2|(e & He & Hin)]]; simpl in *.
          -- split; [incl_tac|left]. rewrite Ha2. reflexivity.
          -- split; [incl_tac|right]. exists e. split; [exact He|in_tac].
      + subst o1. hit_leaf Hc e.
  Qed.

  Lemma sfirst_sim :
    simok (fun w : Z * St => codes (snd w)) (fun w => (fst w, scrub (snd w)))
          (fun w => sfirst nx (fst w) (snd w)).
  Proof.
    intros [x s] o w' ev. unfold sfirst. simpl. destruct (x <=? 0).
    - intros Hc. agree_leaf Hc.
    - destruct (nx s) as [[o1 s1] ev1] eqn:E. intros Hc.
      destruct (Hsim _ _ _ _ E) as [Hi [Ha|(e & He & Hin)]].
      + rewrite Ha. destruct o1; agree_leaf Hc.
      + subst o1. hit_leaf Hc e.
  Qed.

  Lemma smap_sim f fl :
    sim2 (fun w : nat * St => cb_codes fl ++ codes (snd w))
         (fun w => (fst w, scrub (snd w)))
         (fun w => smap nx f fl (fst w) (snd w))
         (fun w => smap nx f (scrub_fl fl) (fst w) (snd w)).
  Proof.
    intros [calls s] o w' ev. unfold smap. simpl.
    destruct (nx s) as [[o1 s1] ev1] eqn:E. intros Hc.
    destruct (Hsim _ _ _ _ E) as [Hi [Ha|(e & He & Hin)]].
    - rewrite Ha. destruct o1 as [x| | | |]; try (agree_leaf Hc).
      destruct (fails_now fl calls) eqn:Ef.
      + cb_fails fl Ef Hc.
      + rewrite ?(scrub_fl_quiet _ _ Ef). agree_leaf Hc.
    - subst o1. hit_leaf Hc e.
  Qed.

  Lemma swhile_sim f fl :
    sim2 (fun w : nat * Z * bool * bool * St => cb_codes fl ++ codes (snd w))
         (fun w => (fst w, scrub (snd w)))
         (fun w => let '(calls, item, has, done, s) := w in
                   swhile nx f fl calls item has done s)
         (fun w => let '(calls, item, has, done, s) := w in
                   swhile nx f (scrub_fl fl) calls item has done s).
  Proof.
    intros [[[[calls item] has] done] s] o w' ev. unfold swhile. simpl. destruct done.
    - intros Hc. agree_leaf Hc.
    - destruct has.
      + destruct (fails_now fl calls) eqn:Ef.
        * intros Hc. cb_fails fl Ef Hc.
        * rewrite ?(scrub_fl_quiet _ _ Ef). destruct (pred_eval f item); intros Hc; agree_leaf Hc.
      + destruct (nx s) as [[o1 s1] ev1] eqn:E. intros Hc.
        destruct (Hsim _ _ _ _ E) as [Hi [Ha|(e & He & Hin)]].
        * rewrite Ha. destruct o1 as [x| | | |]; try (agree_leaf Hc).
          destruct (fails_now fl calls) eqn:Ef.
          -- cb_fails fl Ef Hc.
          -- rewrite ?(scrub_fl_quiet _ _ Ef). destruct (pred_eval f x); agree_leaf Hc.
        * subst o1. hit_leaf Hc e.
  Qed.

  Lemma schunk_sim n size :
    simok (fun w : list Z * St => codes (snd w)) (fun w => (fst w, scrub (snd w)))
          (fun w => schunk nx n size (fst w) (snd w)).
  Proof.
    induction n as [|n IH]; intros [chunk s] o w' ev Hc; simpl in *.
    - agree_leaf Hc.
    - destruct (nx s) as [[o1 s1] ev1] eqn:E.
      destruct (Hsim _ _ _ _ E) as [Hi [Ha|(e & He & Hin)]].
      + rewrite Ha. destruct o1 as [x| | | |]; try (agree_leaf Hc).
        * destruct (zlen (chunk ++ [x]) =? size); [agree_leaf Hc|].
          destruct (schunk nx n size (chunk ++ [x]) s1) as [[o2 w2] ev2] eqn:E2.
          simpl in Hc. inv_ret Hc.
          destruct (IH (chunk ++ [x], s1) _ _ _ E2) as [Hi2 [Ha2|(e & He & Hin)]]; simpl in *.
          -- split; [incl_tac|left]. rewrite Ha2. reflexivity.
          -- split; [incl_tac|right]. exists e. split; [exact He|in_tac].
        * destruct (0 <? zlen chunk); [destruct (size <? 0)|]; agree_leaf Hc.
      + subst o1. hit_leaf Hc e.
  Qed.
End GenericSim.

Section GenericSim2.
  Context {St : Type} (nx : St -> ret Z St) (cl : St -> list sev)
          (codes : St -> list Z) (scrub : St -> St).
  Hypothesis Hsim : simok codes scrub nx.
  Hypothesis Hcl : forall c, cl (scrub c) = cl c.

  Definition flcodes (w : list St * option St) : list Z :=
    (match snd w with Some c => codes c | None => [] end) ++ flat_map codes (fst w).
  Definition flscrub (w : list St * option St) : list St * option St :=
    (map scrub (fst w), option_map scrub (snd w)).

  Lemma sflatten_sim n live :
    simok flcodes flscrub (fun w => sflatten nx cl n live (fst w) (snd w)).
  Proof.
    unfold flcodes, flscrub.
    induction n as [|n IH]; intros [rest curr] o w' ev Hc; simpl in *.
    - agree_leaf Hc.
    - destruct curr as [c|]; simpl in *.
      + destruct (nx c) as [[o1 c1] ev1] eqn:E.
        destruct (Hsim _ _ _ _ E) as [Hi [Ha|(e & He & Hin)]].
        * rewrite Ha. destruct o1 as [x| | | |]; try (agree_leaf Hc).
          destruct (sflatten nx cl n live rest None) as [[o2 w2] ev2] eqn:E2.
          simpl in Hc. inv_ret Hc.
          destruct (IH (rest, None) _ _ _ E2) as [Hi2 [Ha2|(e & He & Hin)]]; simpl in *.
          -- split; [incl_tac|left]. rewrite Hcl, Ha2. reflexivity.
          -- split; [incl_tac|right]. exists e. split; [exact He|in_tac].
        * subst o1. hit_leaf Hc e.
      + destruct live; simpl in *; [|agree_leaf Hc].
        destruct rest as [|c rest0]; simpl in *; [agree_leaf Hc|].
        destruct (IH (rest0, Some c) _ _ _ Hc) as [Hi2 [Ha2|(e & He & Hin)]]; simpl in *.
        * split; [incl_tac|left; exact Ha2].
        * split; [incl_tac|right]. exists e. split; [exact He|in_tac].
  Qed.

  Lemma sjoin_sim n : simok (flat_map codes) (map scrub) (sjoin nx cl n).
  Proof.
    induction n as [|n IH]; intros its o its' ev Hc; simpl in *.
    - agree_leaf Hc.
    - destruct its as [|c tl]; simpl in *; [agree_leaf Hc|].
      destruct (nx c) as [[o1 c1] ev1] eqn:E.
      destruct (Hsim _ _ _ _ E) as [Hi [Ha|(e & He & Hin)]].
      + rewrite Ha. destruct o1 as [x| | | |]; try (agree_leaf Hc).
        destruct (sjoin nx cl n tl) as [[o2 w2] ev2] eqn:E2.
        simpl in Hc. inv_ret Hc.
        destruct (IH _ _ _ _ E2) as [Hi2 [Ha2|(e & He & Hin)]]; simpl in *.
        * split; [incl_tac|left]. rewrite Hcl, Ha2. reflexivity.
        * split; [incl_tac|right]. exists e. split; [exact He|in_tac].
      + subst o1. hit_leaf Hc e.
  Qed.

  (* Runs *)
  Notation pkcodes := (pkcodes codes).
  Notation pkscrub := (pkscrub scrub).

  Lemma sruns_inner_sim r prev : simok pkcodes pkscrub (sruns_inner nx r prev).
  Proof.
    intros p o p' ev. unfold sruns_inner.
    destruct (ipk_peek nx p) as [[o1 p1] ev1] eqn:E1.
    destruct (ipk_peek_sim nx codes scrub Hsim _ _ _ _ E1) as [Hi [Ha|(e & He & Hin)]].
    - rewrite Ha. destruct o1 as [x| | | |]; try (intros Hc; agree_leaf Hc).
      destruct (rel_eval r prev x); [|intros Hc; agree_leaf Hc].
      destruct (ipk_next nx p1) as [[o2 p2] ev2] eqn:E2.
      destruct (ipk_next_sim nx codes scrub Hsim _ _ _ _ E2) as [Hi2 [Ha2|(e & He & Hin)]].
      + rewrite Ha2. intros Hc. agree_leaf Hc.
      + intros Hc. inv_ret Hc. split; [incl_tac|right]. exists e. split; [reflexivity|].
        apply Hi. exact Hin.
    - subst o1. intros Hc. hit_leaf Hc e.
  Qed.

  Lemma sruns_drain_sim n r prev : simok pkcodes pkscrub (sruns_drain nx n r prev).
  Proof.
    induction n as [|n IH]; intros p o p' ev Hc; simpl in *.
    - agree_leaf Hc.
    - destruct (sruns_inner nx r prev p) as [[o1 p1] ev1] eqn:E1.
      destruct (sruns_inner_sim r prev _ _ _ _ E1) as [Hi [Ha|(e & He & Hin)]].
      + rewrite Ha. destruct o1 as [x| | | |]; try (agree_leaf Hc).
        destruct (sruns_drain nx n r prev p1) as [[o2 p2] ev2] eqn:E2.
        simpl in Hc. inv_ret Hc.
        destruct (IH _ _ _ _ E2) as [Hi2 [Ha2|(e & He & Hin)]].
        * split; [incl_tac|left]. rewrite Ha2. reflexivity.
        * split; [incl_tac|right]. exists e. split; [exact He|apply Hi; exact Hin].
      + subst o1. hit_leaf Hc e.
  Qed.

  Lemma sruns_take_sim n r k prev :
    simok (fun w : list Z * pk St => pkcodes (snd w)) (fun w => (fst w, pkscrub (snd w)))
          (fun w => sruns_take nx n r k (fst w) prev (snd w)).
  Proof.
    induction n as [|n IH]; intros [acc p] o w' ev Hc; simpl in *.
    - agree_leaf Hc.
    - destruct (match k with Some k0 => (k0 <=? length acc)%nat | None => false end).
      + agree_leaf Hc.
      + destruct (sruns_inner nx r prev p) as [[o1 p1] ev1] eqn:E1.
        destruct (sruns_inner_sim r prev _ _ _ _ E1) as [Hi [Ha|(e & He & Hin)]].
        * rewrite Ha. destruct o1 as [x| | | |]; try (agree_leaf Hc).
          destruct (sruns_take nx n r k (acc ++ [x]) prev p1) as [[o2 w2] ev2] eqn:E2.
          simpl in Hc. inv_ret Hc.
          destruct (IH (acc ++ [x], p1) _ _ _ E2) as [Hi2 [Ha2|(e & He & Hin)]]; simpl in *.
          -- split; [incl_tac|left]. rewrite Ha2. reflexivity.
          -- split; [incl_tac|right]. exists e. split; [exact He|apply Hi; exact Hin].
        * subst o1. hit_leaf Hc e.
  Qed.

  Lemma sruns_sim n r k :
    simok (fun w : option Z * option (list Z) * pk St => pkcodes (snd w))
          (fun w => (fst w, pkscrub (snd w)))
          (fun w => sruns nx n r k (fst (fst w)) (snd (fst w)) (snd w)).
  Proof.
    intros [[cur pend] p] o w' ev. simpl.
    assert (Htake : forall x acc p2 ev0 (C : list Z),
      incl (pkcodes p2) C ->
      (let '(o3, (acc3, p3), ev3) := sruns_take nx n r k acc x p2 in
       match o3 with
       | Item l => (Item l, (Some x, None, p3), ev0 ++ ev3)
       | _ => (pass o3, (Some x, Some acc3, p3), ev0 ++ ev3)
       end) = (o, w', ev) ->
      incl (pkcodes (snd w')) C /\
      ((let '(o3, (acc3, p3), ev3) := sruns_take nx n r k acc x (pkscrub p2) in
        match o3 with
        | Item l => (Item l, (Some x, None, p3), ev0 ++ ev3)
        | _ => (pass o3, (Some x, Some acc3, p3), ev0 ++ ev3)
        end) = (o, (fst w', pkscrub (snd w')), ev) \/
       exists e, o = Err e /\ In e C)).
    { intros x acc p2 ev0 C HC Hc.
      destruct (sruns_take nx n r k acc x p2) as [[o3 [acc3 p3]] ev3] eqn:E3.
      destruct (sruns_take_sim n r k x (acc, p2) _ _ _ E3) as [Hi [Ha|(e & He & Hin)]];
        simpl in *.
      - rewrite Ha. destruct o3; inv_ret Hc; simpl; (split; [incl_tac|left; reflexivity]).
      - subst o3. inv_ret Hc. simpl. split; [incl_tac|right]. exists e.
        split; [reflexivity|apply HC; exact Hin]. }
    assert (Hmain :
      (let '(o1, p1, ev1) :=
         match cur with
         | Some prev => sruns_drain nx n r prev p
         | None => (End, p, [])
         end in
       match o1 with
       | End =>
           let '(o2, p2, ev2) := ipk_peek nx p1 in
           match o2 with
           | Item x =>
               let '(o3, (acc3, p3), ev3) := sruns_take nx n r k [] x p2 in
               match o3 with
               | Item l => (Item l, (Some x, None, p3), (ev1 ++ ev2) ++ ev3)
               | _ => (pass o3, (Some x, Some acc3, p3), (ev1 ++ ev2) ++ ev3)
               end
           | _ => (pass o2, (None, None, p2), ev1 ++ ev2)
           end
       | _ => (pass o1, (cur, None, p1), ev1)
       end) = (o, w', ev) ->
      incl (pkcodes (snd w')) (pkcodes p) /\
      ((let '(o1, p1, ev1) :=
          match cur with
          | Some prev => sruns_drain nx n r prev (pkscrub p)
          | None => (End, pkscrub p, [])
          end in
        match o1 with
        | End =>
            let '(o2, p2, ev2) := ipk_peek nx p1 in
            match o2 with
            | Item x =>
                let '(o3, (acc3, p3), ev3) := sruns_take nx n r k [] x p2 in
                match o3 with
                | Item l => (Item l, (Some x, None, p3), (ev1 ++ ev2) ++ ev3)
                | _ => (pass o3, (Some x, Some acc3, p3), (ev1 ++ ev2) ++ ev3)
                end
            | _ => (pass o2, (None, None, p2), ev1 ++ ev2)
            end
        | _ => (pass o1, (cur, None, p1), ev1)
        end) = (o, (fst w', pkscrub (snd w')), ev) \/
       exists e, o = Err e /\ In e (pkcodes p))).
    { intros Hc.
      assert (Hdr : exists o1 p1 ev1,
                 match cur with
                 | Some prev => sruns_drain nx n r prev p
                 | None => (End, p, [])
                 end = (o1 : res unit, p1, ev1) /\ incl (pkcodes p1) (pkcodes p) /\
                 (match cur with
                  | Some prev => sruns_drain nx n r prev (pkscrub p)
                  | None => (End, pkscrub p, [])
                  end = (o1, pkscrub p1, ev1) \/ exists e, o1 = Err e /\ In e (pkcodes p))).
      { destruct cur as [prev|].
        - destruct (sruns_drain nx n r prev p) as [[o1 p1] ev1] eqn:E1.
          destruct (sruns_drain_sim n r prev _ _ _ _ E1) as [Hi Hor].
          exists o1, p1, ev1. auto.
        - exists End, p, []. split; [reflexivity|]. split; [apply incl_refl|left; reflexivity]. }
      destruct Hdr as (o1 & p1 & ev1 & Hdr & Hi1 & [Ha1|(e & He & Hin)]); rewrite Hdr in Hc;
        clear Hdr.
      - rewrite Ha1. destruct o1 as [u| | | |]; try (agree_leaf Hc).
        destruct (ipk_peek nx p1) as [[o2 p2] ev2] eqn:E2.
        destruct (ipk_peek_sim nx codes scrub Hsim _ _ _ _ E2) as [Hi2 [Ha2|(e & He & Hin)]].
        + rewrite Ha2. destruct o2 as [x| | | |]; try (agree_leaf Hc).
          apply (Htake x [] p2 (ev1 ++ ev2) (pkcodes p)); [incl_tac|exact Hc].
        + subst o2. inv_ret Hc. simpl. split; [incl_tac|right]. exists e.
          split; [reflexivity|apply Hi1; exact Hin].
      - subst o1. hit_leaf Hc e. }
    unfold sruns. destruct pend as [acc|]; [destruct cur as [prev|]|]; simpl.
    - intros Hc. apply (Htake prev acc p [] (pkcodes p)); [apply incl_refl|exact Hc].
    - exact Hmain.
    - exact Hmain.
  Qed.
End GenericSim2.

Section GenericSimFS.
  Context {Lt : Type} (nxl : Lt -> ret (list Z) Lt) (codes : Lt -> list Z) (scrub : Lt -> Lt).
  Hypothesis Hsim : simok codes scrub nxl.
  Lemma iflatslices_sim n :
    simok (fun w : list Z * Lt => codes (snd w)) (fun w => (fst w, scrub (snd w)))
          (fun w => iflatslices nxl n (fst w) (snd w)).
  Proof.
    induction n as [|n IH]; intros [b q] o w' ev Hc; simpl in *.
    - agree_leaf Hc.
    - destruct b as [|x b]; [|agree_leaf Hc].
      destruct (nxl q) as [[o1 q1] ev1] eqn:E.
      destruct (Hsim _ _ _ _ E) as [Hi [Ha|(e & He & Hin)]].
      + rewrite Ha. destruct o1 as [l| | | |]; try (agree_leaf Hc).
        destruct (iflatslices nxl n l q1) as [[o2 w2] ev2] eqn:E2.
        simpl in Hc. inv_ret Hc.
        destruct (IH (l, q1) _ _ _ E2) as [Hi2 [Ha2|(e & He & Hin)]]; simpl in *.
        * split; [incl_tac|left]. rewrite Ha2. reflexivity.
        * split; [incl_tac|right]. exists e. split; [exact He|apply Hi; exact Hin].
      + subst o1. hit_leaf Hc e.
  Qed.
End GenericSimFS.
